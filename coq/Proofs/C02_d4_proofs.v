(* Deepening round 4 (proof only) for C02: characterisations of extracted functions the driver
   uses for a verdict and that no pinned theorem spoke about: [exhaust_ok] / [final_ok] (the
   UnableToAllocStreamId clause of the acceptor), [sm_applicable] (which checker the driver
   evaluates), [hm_into_handlers] (the final-state comparison). *)
From SV Require Import Base.Prelude Model.Streams Proofs.Streams_proofs.
From SV Require Import Model.StreamsTrace Proofs.StreamsTrace_proofs.
Require Import List Bool.
Import ListNotations.
Local Open Scope N_scope.

(* converse of [fold_set_in] *)
Lemma fold_set_inv (f : N * N -> option N) l : forall st0 sid,
  mhas sid (fold_left (fun s e => match f e with Some x => mput x tt s | None => s end) l st0) = true ->
  (exists e, In e l /\ f e = Some sid) \/ mhas sid st0 = true.
Proof.
  induction l as [|e r IH]; intros st0 sid H; cbn [fold_left] in H.
  - now right.
  - apply IH in H. destruct H as [(e' & Hin & Hf)|H].
    + left. exists e'. split; [now right|assumption].
    + destruct (f e) as [x|] eqn:Hfe; [|now right].
      rewrite mhas_mput in H. apply orb_true_iff in H as [H|H]; [|now right].
      apply N.eqb_eq in H. subst x. left. exists e. split; [now left|assumption].
Qed.

(* the justification of one UnableToAllocStreamId outcome, as a proposition on the acceptor's
   final state: the request never reached the peer, and each of the 32768 stream ids was received
   by the peer with ANOTHER request r, submitted before m's outcome, whose caller had no final
   answer before m's submission *)
Definition exhaust_justified (a : acc) (m pm pdm : N) : Prop :=
  mget m (a_recv a) = None /\
  forall sid, sid < nids -> exists r ps,
    r <> m /\ mget r (a_sub a) = Some ps /\ ps < pdm /\
    (forall pd o, mget r (a_done a) = Some (pd, o) -> pm < pd) /\
    mget r (a_recv a) = Some sid.

Lemma possibly_pending_spec a m pm pdm r ps sid :
  possibly_pending a m pm pdm (r, ps) = Some sid <->
  r <> m /\ ps < pdm /\ (forall pd o, mget r (a_done a) = Some (pd, o) -> pm < pd) /\
  mget r (a_recv a) = Some sid.
Proof.
  unfold possibly_pending. split.
  - intros H. destruct (negb (r =? m) && (ps <? pdm) && _) eqn:E; [|discriminate].
    apply andb_true_iff in E as [E E3]. apply andb_true_iff in E as [E1 E2].
    apply negb_true_iff, N.eqb_neq in E1. apply N.ltb_lt in E2.
    repeat split; try assumption. intros pd o Hd. rewrite Hd in E3. now apply N.ltb_lt in E3.
  - intros (H1 & H2 & H3 & H4). apply N.eqb_neq in H1. apply N.ltb_lt in H2. rewrite H1, H2.
    cbn [negb andb]. destruct (mget r (a_done a)) as [[pd o]|] eqn:Hd; [|exact H4].
    specialize (H3 pd o eq_refl). apply N.ltb_lt in H3. now rewrite H3.
Qed.

Theorem exhaust_ok_spec a m pm pdm :
  mget m (a_sub a) = Some pm -> mget m (a_done a) = Some (pdm, OErrAlloc) ->
  (exhaust_ok a m = true <-> exhaust_justified a m pm pdm).
Proof.
  intros Hs Hd. unfold exhaust_ok, exhaust_justified. rewrite Hs, Hd.
  rewrite andb_true_iff, negb_true_iff, mhas_false, forall_below_spec.
  split; intros [H1 H2]; (split; [exact H1|]); intros sid Hsid; specialize (H2 sid Hsid).
  - unfold sid_set in H2. apply fold_set_inv in H2. destruct H2 as [([r ps] & Hin & Hf)|H2].
    + apply melements_spec in Hin. apply possibly_pending_spec in Hf.
      destruct Hf as (F1 & F2 & F3 & F4). exists r, ps. repeat split; assumption.
    + now rewrite mhas_mempty in H2.
  - destruct H2 as (r & ps & F1 & F0 & F2 & F3 & F4). unfold sid_set. apply fold_set_in. left.
    exists (r, ps). split; [now apply melements_spec|]. apply possibly_pending_spec.
    repeat split; assumption.
Qed.

(* any other outcome (or none) needs no justification *)
Theorem exhaust_ok_other a m :
  (forall pdm, mget m (a_done a) <> Some (pdm, OErrAlloc)) -> exhaust_ok a m = true.
Proof.
  intros H. unfold exhaust_ok. destruct (mget m (a_sub a)); [|reflexivity].
  destruct (mget m (a_done a)) as [[pdm o]|] eqn:Hd; [|reflexivity].
  destruct o; try reflexivity. exfalso. now apply (H pdm).
Qed.

(* [final_ok]: every marker passes [exhaust_ok] -- equivalently every recorded
   UnableToAllocStreamId outcome of a submitted request is justified *)
Theorem final_ok_spec a :
  final_ok a = true <->
  forall m pm pdm, mget m (a_sub a) = Some pm -> mget m (a_done a) = Some (pdm, OErrAlloc) ->
                   exhaust_justified a m pm pdm.
Proof.
  unfold final_ok. rewrite forallb_forall. split.
  - intros H m pm pdm Hs Hd. apply (exhaust_ok_spec a m pm pdm Hs Hd).
    apply (H (m, (pdm, OErrAlloc))). now apply melements_spec.
  - intros H [m [pdm o]] Hin. cbn [fst]. apply melements_spec in Hin.
    destruct (mget m (a_sub a)) as [pm|] eqn:Hs.
    + destruct o.
      * apply exhaust_ok_other. intros p. rewrite Hin. congruence.
      * apply (exhaust_ok_spec a m pm pdm Hs Hin). now apply H.
      * apply exhaust_ok_other. intros p. rewrite Hin. congruence.
    + unfold exhaust_ok. now rewrite Hs.
Qed.

(* what acceptance of a whole history means for the third clause *)
Theorem trace_ok_final evs :
  c02_trace_ok evs = true <->
  exists a, acc_run acc_init evs = Some a /\
    forall m pm pdm, mget m (a_sub a) = Some pm -> mget m (a_done a) = Some (pdm, OErrAlloc) ->
                     exhaust_justified a m pm pdm.
Proof.
  unfold c02_trace_ok. destruct (acc_run acc_init evs) as [a|].
  - rewrite final_ok_spec. split.
    + intros H. exists a. split; [reflexivity|exact H].
    + intros (a' & E & H). inv_some E. exact H.
  - split; [discriminate|]. intros (a' & E & _). discriminate.
Qed.

(* [sm_applicable]: exactly "no request id and no token is allocated twice" *)
Lemma NoDup_nodupb l : NoDup l -> nodupb l = true.
Proof.
  induction 1 as [|x l Hx _ IH]; [reflexivity|]. cbn [nodupb]. rewrite IH, andb_true_r.
  apply negb_true_iff. destruct (smem x l) eqn:E; [|reflexivity]. now apply smem_In in E.
Qed.

Theorem sm_applicable_spec ops :
  sm_applicable ops = true <-> NoDup (alloc_rids ops) /\ NoDup (alloc_toks ops).
Proof.
  unfold sm_applicable. rewrite andb_true_iff. split; intros [H1 H2]; split;
    auto using nodupb_NoDup, NoDup_nodupb.
Qed.

(* [hm_into_handlers]: exactly the handler table, every stream id once *)
Theorem into_handlers_spec m sid rid tok :
  In (sid, (rid, tok)) (hm_into_handlers m) <-> mget sid (hm_handlers m) = Some (rid, tok).
Proof. unfold hm_into_handlers. apply melements_spec. Qed.

(* ---------------------------------------------------------------- the third clause on event positions *)
(* what the acceptor's tables record, in terms of the scanned history *)
Record PosInv (evs : list ev) (a : acc) : Prop := {
  pi_pos : a_pos a = N.of_nat (List.length evs);
  pi_sub : forall m p, mget m (a_sub a) = Some p -> nth_error evs (N.to_nat p) = Some (ESub m);
  pi_recv : forall m sid, mget m (a_recv a) = Some sid -> In (EIn sid m) evs;
  pi_recv' : forall m sid, In (EIn sid m) evs -> mhas m (a_recv a) = true;
  pi_done : forall k m o, nth_error evs k = Some (EDone m o) ->
            mget m (a_done a) = Some (N.of_nat k, o);
  pi_done_sub : forall m, mhas m (a_done a) = true -> mhas m (a_sub a) = true
}.

Lemma nth_app_l {A} (l r : list A) k x : nth_error l k = Some x -> nth_error (l ++ r) k = Some x.
Proof.
  intros H. rewrite nth_error_app1; [assumption|]. apply nth_error_Some. congruence.
Qed.

Lemma nth_snoc_inv {A} (l : list A) e k x : nth_error (l ++ [e]) k = Some x ->
  nth_error l k = Some x \/ (k = List.length l /\ x = e).
Proof.
  intros H. destruct (Nat.lt_ge_cases k (List.length l)) as [L|L].
  - left. now rewrite nth_error_app1 in H.
  - right. rewrite nth_error_app2 in H by assumption.
    destruct (k - List.length l)%nat as [|d] eqn:E.
    + cbn in H. inv_some H. split; [lia|reflexivity].
    + cbn in H. destruct d; discriminate.
Qed.

Lemma in_snoc_inv {A} (l : list A) e x : In x (l ++ [e]) -> In x l \/ x = e.
Proof. intros H. apply in_app_or in H as [H|[H|[]]]; auto. Qed.

Lemma PosInv_init : PosInv [] acc_init.
Proof.
  constructor; cbn; try reflexivity.
  - intros m p H. now rewrite mget_mempty in H.
  - intros m sid H. now rewrite mget_mempty in H.
  - intros m sid [].
  - intros [|k] m o H; discriminate.
  - intros m H. now rewrite mhas_mempty in H.
Qed.

Lemma PosInv_step l a e a' : PosInv l a -> acc_step a e = Some a' -> PosInv (l ++ [e]) a'.
Proof.
  intros [P0 P1 P2 P2' P3 P4] Hs.
  assert (Hlen : N.of_nat (List.length (l ++ [e])) = a_pos a + 1).
  { rewrite app_length. cbn [List.length]. lia. }
  assert (Hmid : nth_error (l ++ [e]) (N.to_nat (a_pos a)) = Some e).
  { rewrite P0, Nat2N.id. apply nth_error_mid. }
  destruct e as [m|sid m|sid m|m o]; cbn [acc_step] in Hs.
  - destruct (mhas m (a_sub a)) eqn:Hm; [discriminate|]. inv_some Hs.
    constructor; cbn [a_pos a_sub a_recv a_done].
    + now rewrite Hlen.
    + intros m' p H. destruct (N.eq_dec m' m) as [->|Hne].
      * rewrite mget_mput_same in H. inv_some H. exact Hmid.
      * rewrite mget_mput_other in H by assumption. apply nth_app_l. eauto.
    + intros m' sid H. apply in_or_app. left. eauto.
    + intros m' sid H. apply in_snoc_inv in H as [H|H]; [eauto|discriminate].
    + intros k m' o H. apply nth_snoc_inv in H as [H|[_ H]]; [eauto|discriminate].
    + intros m' H. rewrite mhas_mput. apply P4 in H. rewrite H. apply orb_true_r.
  - destruct (_ && _) eqn:Hc in Hs; [|discriminate]. inv_some Hs.
    apply andb_true_iff in Hc as [Hc _]. apply andb_true_iff in Hc as [Hc _].
    apply andb_true_iff in Hc as [_ Hr]. apply negb_true_iff in Hr.
    constructor; cbn [a_pos a_sub a_recv a_done].
    + now rewrite Hlen.
    + intros m' p H. apply nth_app_l. eauto.
    + intros m' sid' H. apply in_or_app. destruct (N.eq_dec m' m) as [->|Hne].
      * rewrite mget_mput_same in H. inv_some H. right. now left.
      * rewrite mget_mput_other in H by assumption. left. eauto.
    + intros m' sid' H. rewrite mhas_mput. apply in_snoc_inv in H as [H|H].
      * apply P2' in H. rewrite H. apply orb_true_r.
      * inv_some H. now rewrite N.eqb_refl.
    + intros k m' o H. apply nth_snoc_inv in H as [H|[_ H]]; [eauto|discriminate].
    + exact P4.
  - destruct (mget sid (a_owed a)) as [m'|]; [|discriminate].
    destruct (m' =? m); [|discriminate]. inv_some Hs.
    constructor; cbn [a_pos a_sub a_recv a_done].
    + now rewrite Hlen.
    + intros m0 p H. apply nth_app_l. eauto.
    + intros m0 sid' H. apply in_or_app. left. eauto.
    + intros m0 sid' H. apply in_snoc_inv in H as [H|H]; [eauto|discriminate].
    + intros k m0 o H. apply nth_snoc_inv in H as [H|[_ H]]; [eauto|discriminate].
    + exact P4.
  - destruct (_ && _) eqn:Hc in Hs; [|discriminate]. inv_some Hs.
    apply andb_true_iff in Hc as [Hc _]. apply andb_true_iff in Hc as [Hsub Hd].
    apply negb_true_iff in Hd.
    constructor; cbn [a_pos a_sub a_recv a_done].
    + now rewrite Hlen.
    + intros m0 p H. apply nth_app_l. eauto.
    + intros m0 sid' H. apply in_or_app. left. eauto.
    + intros m0 sid' H. apply in_snoc_inv in H as [H|H]; [eauto|discriminate].
    + intros k m0 o0 H. apply nth_snoc_inv in H as [H|[Hk H]].
      * assert (Hne : m0 <> m).
        { intros ->. apply P3 in H. apply mhas_false in Hd. congruence. }
        rewrite mget_mput_other by assumption. eauto.
      * inv_some H. rewrite mget_mput_same, P0. reflexivity.
    + intros m0 H. rewrite mhas_mput in H. apply orb_true_iff in H as [H|H]; [|auto].
      apply N.eqb_eq in H. now subst m0.
Qed.

Lemma PosInv_run evs : forall a, acc_run acc_init evs = Some a -> PosInv evs a.
Proof.
  induction evs as [|e l IH] using rev_ind; intros a H.
  - cbn in H. inv_some H. apply PosInv_init.
  - apply acc_run_split in H as (a1 & H1 & H2). cbn [acc_run] in H2.
    destruct (acc_step a1 e) as [a2|] eqn:Hs; [|discriminate]. inv_some H2.
    eapply PosInv_step; eauto.
Qed.

(* The third clause of the property on event positions: in an accepted history a caller that got
   UnableToAllocStreamId was submitted (at [pm]), its request frame never reached the peer, and for
   each of the 32768 stream ids the peer received a frame on that id carrying ANOTHER request r,
   submitted before that outcome (position [pdm]) and without any outcome of its own at or before
   position [pm] -- so its id may still have been reserved at some moment between [pm] and [pdm]. *)
Theorem trace_ok_alloc_fail evs pdm m : c02_trace_ok evs = true ->
  nth_error evs pdm = Some (EDone m OErrAlloc) ->
  (forall sid, ~ In (EIn sid m) evs) /\
  exists pm, nth_error evs pm = Some (ESub m) /\
    forall sid, sid < nids -> exists r ps,
      r <> m /\ nth_error evs ps = Some (ESub r) /\ (ps < pdm)%nat /\ In (EIn sid r) evs /\
      forall pd o, nth_error evs pd = Some (EDone r o) -> (pm < pd)%nat.
Proof.
  intros Hok Hd. apply trace_ok_final in Hok as (a & Hrun & Hfin).
  pose proof (PosInv_run _ _ Hrun) as [P0 P1 P2 P2' P3 P4].
  pose proof (P3 _ _ _ Hd) as Hdone.
  assert (Hs : mhas m (a_sub a) = true). { apply P4. apply mhas_true. eauto. }
  apply mhas_true in Hs as [pm Hs].
  destruct (Hfin _ _ _ Hs Hdone) as [Hnr Hall]. split.
  - intros sid Hin. apply P2' in Hin. apply mhas_false in Hnr. congruence.
  - exists (N.to_nat pm). split; [eauto|]. intros sid Hsid.
    destruct (Hall sid Hsid) as (r & ps & F1 & F2 & F3 & F4 & F5).
    exists r, (N.to_nat ps). repeat split; eauto; [lia|].
    intros pd o Hpd. apply P3 in Hpd. apply F4 in Hpd. lia.
Qed.

(* a concrete history that meets the hypotheses of [trace_ok_alloc_fail]: 32769 requests submitted,
   the first 32768 received by the peer on the ids 0 .. 32767, the last one refused *)
Definition below (n : N) : list N := N.peano_rect (fun _ => list N) [] (fun i r => i :: r) n.
Definition full_history (received : N) : list ev :=
  map ESub (below 32769) ++ map (fun i => EIn i i) (below received) ++ [EDone 32768 OErrAlloc].
