(* Deepening round 4 (proof only) for C04: characterisations of the extracted driver helpers that
   had no pinned theorem (tokens_distinct, mem / nodupb / subset / list_eqb / same_set), "every
   reported replica owns a token", the number of replicas as a function of the node sets (hence
   independent of the order of equal-token entries), and the PlainSharded machine without the
   premise on idx.  Statements are pinned in Props/C04.v. *)
From SV Require Import Base.Prelude Model.Tablets Model.TabletSets Proofs.TabletSets_proofs Model.Ring Model.Shard Model.Replicas Proofs.Ring_proofs Proofs.Replicas_proofs.
From Coq Require Import Permutation Sorted.
Open Scope Z_scope.

(* ---- tokens_distinct ---------------------------------------------------------------- *)
Lemma sorted_strict_head_lt_all {A} (x : Z * A) r : sorted_strict (x :: r) -> forall y, In y r -> fst x < fst y.
Proof.
  revert x. induction r as [|z r IH]; intros x Hs y Hy; [destruct Hy|].
  cbn in Hs. destruct Hs as [Hlt Hr]. destruct Hy as [<-|Hy]; [assumption|].
  specialize (IH z Hr y Hy). lia.
Qed.

Lemma sorted_strict_NoDup {A} (l : ring A) : sorted_strict l -> NoDup (map fst l).
Proof.
  induction l as [|x r IH]; intros Hs; [constructor|]. cbn [map]. constructor.
  - intros Hin. apply in_map_iff in Hin. destruct Hin as (y & Hy & Hyr).
    pose proof (sorted_strict_head_lt_all x r Hs y Hyr). lia.
  - apply IH. cbn in Hs. tauto.
Qed.

Lemma tokens_distinct_spec (g : ring N) :
  tokens_distinct g = true <-> sorted_weak g /\ NoDup (map fst g).
Proof.
  unfold tokens_distinct. rewrite sorted_strictb_spec. split.
  - intros Hs. split; [now apply sorted_strict_weak|now apply sorted_strict_NoDup].
  - intros [Hw Hn]. now apply sorted_weak_NoDup_strict.
Qed.

(* a ring with distinct tokens has one stored order only: every sorted arrangement of the same
   entries is the ring itself (the driver enumerates no variants for it) *)
Lemma sorted_strict_SS {A} (l : ring A) : sorted_strict l -> StronglySorted (fun a b => fst a < fst b) l.
Proof.
  induction l as [|x r IH]; intros Hs; constructor.
  - apply IH. cbn in Hs. tauto.
  - apply Forall_forall. intros y Hy. now apply (sorted_strict_head_lt_all x r).
Qed.

Lemma tokens_distinct_one_order (g g' : ring N) :
  tokens_distinct g = true -> Permutation g' g -> sorted_weak g' -> g' = g.
Proof.
  intros Hd Hp Hw. apply tokens_distinct_spec in Hd. destruct Hd as [Hwg Hn].
  assert (Hn' : NoDup (map fst g')).
  { eapply Permutation_NoDup; [|exact Hn]. symmetry. now apply Permutation_map. }
  apply (sorted_unique (fun a b : Z * N => fst a < fst b)).
  - intros a. lia.
  - intros a b. lia.
  - apply sorted_strict_SS. now apply sorted_weak_NoDup_strict.
  - apply sorted_strict_SS. now apply sorted_weak_NoDup_strict.
  - intros x. split; apply Permutation_in; [assumption|now symmetry].
Qed.

(* ---- every reported replica owns a token (and lives in the datacenter asked for) ------ *)
Lemma replicas_own_tokens dcf rackf (g : ring N) pre t s dc x :
  sorted_weak g ->
  In x (rs_iter dcf rackf g pre t (replicas_for dcf rackf g pre t s dc)) ->
  In x (map snd g) /\ match dc with Some d => in_dc dcf d x = true | None => True end.
Proof.
  intros Hs Hin. split.
  - apply (iter_in_walk dcf rackf g pre t Hs s dc x) in Hin.
    now rewrite uniq_In, ring_range_In in Hin.
  - destruct dc as [d|]; [|exact I].
    rewrite dc_filter in Hin. apply filter_In in Hin. tauto.
Qed.

(* ---- the number of replicas ------------------------------------------------------------ *)
Lemma uniq_length_perm l l' : (forall x, In x l <-> In x l') -> List.length (uniq l) = List.length (uniq l').
Proof.
  intros H. apply Permutation_length. apply NoDup_Permutation; try apply uniq_NoDup.
  intros x. now rewrite !uniq_In.
Qed.

Lemma simple_len (g : ring N) t rf :
  List.length (simple_replicas g t rf) = Nat.min rf (List.length (unique_nodes g)).
Proof.
  unfold simple_replicas, unique_nodes. rewrite firstn_length.
  rewrite (uniq_length_perm (ring_range g t) (map snd g)) by (intros x; apply ring_range_In).
  lia.
Qed.

Lemma unique_nodes_perm (g g' : ring N) : Permutation g g' ->
  List.length (unique_nodes g) = List.length (unique_nodes g').
Proof.
  intros Hp. unfold unique_nodes. apply uniq_length_perm. intros x.
  split; apply Permutation_in; apply Permutation_map; [assumption|now symmetry].
Qed.

Lemma nodes_in_dc_perm dcf (g g' : ring N) d : Permutation g g' ->
  nodes_in_dc dcf g d = nodes_in_dc dcf g' d.
Proof.
  intros Hp. unfold nodes_in_dc. apply unique_nodes_perm. unfold dc_ring.
  rewrite !sort_ring_perm. (* Permutation rewriting *)
  clear -Hp. induction Hp; cbn; try destruct (in_dc dcf d (snd x)); try destruct (in_dc dcf d (snd y));
    eauto using Permutation.
Qed.

Lemma rs_len_chained_perm dcf (g g' : ring N) m : Permutation g g' ->
  rs_len dcf g (RChained m) = rs_len dcf g' (RChained m).
Proof.
  intros Hp. cbn [rs_len]. induction m as [|e m IH]; cbn [fold_right]; [reflexivity|].
  now rewrite IH, (nodes_in_dc_perm dcf g g' (fst e) Hp).
Qed.

Lemma count_order_independent dcf rackf (g g' : ring N) pre pre' t s dc :
  sorted_weak g -> sorted_weak g' -> Permutation g g' -> nts_keys_ok s ->
  dc = None \/ (exists m, s = NTS m) ->
  List.length (rs_iter dcf rackf g pre t (replicas_for dcf rackf g pre t s dc)) =
  List.length (rs_iter dcf rackf g' pre' t (replicas_for dcf rackf g' pre' t s dc)).
Proof.
  intros Hs Hs' Hp Hk Hc.
  assert (Hsimple : forall rf, List.length (get_simple g pre t rf) = List.length (get_simple g' pre' t rf)).
  { intros rf. rewrite !precomputed_simple, !simple_len by assumption. now rewrite (unique_nodes_perm g g' Hp). }
  destruct s as [rf|m| |].
  - destruct Hc as [->|(m & Hm)]; [|discriminate]. cbn [replicas_for rs_iter]. apply Hsimple.
  - destruct dc as [d|].
    + cbn [replicas_for]. destruct (rf_lookup m d) as [rf|]; cbn [rs_iter]; [|reflexivity].
      rewrite !precomputed_nts, !nts_len. now rewrite (nodes_in_dc_perm dcf g g' d Hp).
    + rewrite <- !len_view by assumption. cbn [replicas_for]. now apply rs_len_chained_perm.
  - destruct Hc as [->|(m & Hm)]; [|discriminate]. cbn [replicas_for rs_iter]. apply Hsimple.
  - destruct Hc as [->|(m & Hm)]; [|discriminate]. cbn [replicas_for rs_iter]. apply Hsimple.
Qed.
(* ---- PlainSharded machine: no premise on idx ------------------------------------------- *)
Lemma plist_run_nil {A} ops : plist_run ops (@nil A) = map (fun _ => (None, (0%nat, 0%nat))) ops.
Proof.
  induction ops as [|[|k] r IH]; [reflexivity| |]; cbn [plist_run map hd_error tl List.length].
  - now rewrite IH.
  - rewrite skipn_nil. cbn [List.length]. rewrite IH. now destruct k.
Qed.

Lemma ts_run_spec_any s ops idx : ts_run s ops idx = plist_run ops (skipn idx (ts_iter s)).
Proof.
  destruct (Nat.le_gt_cases idx (List.length s)) as [Hle|Hgt]; [now apply ts_run_spec|].
  assert (Hl : List.length (ts_iter s) = List.length s) by (unfold ts_iter; apply map_length).
  rewrite (skipn_all2 (ts_iter s)) by lia. rewrite plist_run_nil.
  revert idx Hgt. induction ops as [|op r IH]; intros idx Hgt; [reflexivity|].
  cbn [ts_run map]. destruct op as [|k].
  - unfold ts_next. replace (nth_error (ts_iter s) idx) with (@None (N * N)) by (symmetry; apply nth_error_None; lia).
    unfold ts_size_hint. replace (List.length s - idx)%nat with 0%nat by lia. now rewrite IH.
  - unfold ts_nth_op. replace (List.length s <=? idx + k)%nat with true by (symmetry; apply Nat.leb_le; lia).
    unfold ts_size_hint. rewrite Nat.sub_diag. f_equal.
    rewrite ts_run_spec by lia. rewrite (skipn_all2 (ts_iter s)) by lia. apply plist_run_nil.
Qed.

(* ---- the list helpers the driver uses outside the four predicates ----------------------- *)
Lemma helpers_spec :
  (forall x l, mem x l = true <-> In x l) /\
  (forall l, nodupb l = true <-> NoDup l) /\
  (forall a b, subset a b = true <-> (forall x, In x a -> In x b)) /\
  (forall a b, list_eqb a b = true <-> a = b) /\
  (forall a b, same_set a b = true <-> NoDup a /\ NoDup b /\ (forall x, In x a <-> In x b)).
Proof. exact (conj mem_In (conj nodupb_spec (conj subset_spec (conj list_eqb_spec same_set_spec)))). Qed.
