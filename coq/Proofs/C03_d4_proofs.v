(* C03, deepening round 4 (proof only): the driver's verdict predicates characterised exactly
   (prop_token_ok / prop_pk_token_ok accept an observation IFF it is the specified outcome),
   str::ends_with against string concatenation, and the remaining < 2^63 premises discharged. *)
From SV Require Import Base.Prelude Base.Bytes Model.Murmur Model.Shard Model.PartKey Model.PartName.
From SV Require Import Proofs.Murmur_proofs Proofs.Shard_proofs Proofs.PartKey_proofs Proofs.PartName_proofs
  Proofs.TokenRing_proofs.
From Coq Require Import Ascii String.
Open Scope N_scope.

(* ---- serializableb decided exactly ---- *)
Definition too_long (c : bytes) : Prop := 65535 < N.of_nat (List.length c).

Lemma forallb_fitsb_true comps : Forall fits comps -> forallb fitsb comps = true.
Proof.
  intros H. apply forallb_forall. intros c Hc. apply fitsb_fits.
  rewrite Forall_forall in H. apply H, Hc.
Qed.

Lemma serializableb_true_iff comps :
  serializableb comps = true <-> (List.length comps = 1%nat \/ Forall fits comps).
Proof.
  split; [apply serializableb_true|]. unfold serializableb. intros [H|H]; apply orb_true_iff.
  - left. apply Nat.eqb_eq. exact H.
  - right. apply forallb_fitsb_true. exact H.
Qed.

Lemma fits_not_too_long comps : Forall fits comps -> ~ Exists too_long comps.
Proof.
  intros Hf He. apply Exists_exists in He as (c & Hc & Hl). rewrite Forall_forall in Hf.
  specialize (Hf c Hc). unfold fits, too_long in *. lia.
Qed.

Lemma serializableb_false_iff comps :
  serializableb comps = false <-> (List.length comps <> 1%nat /\ Exists too_long comps).
Proof.
  split; [apply serializableb_false|]. intros [Hl He].
  destruct (serializableb comps) eqn:E; [|reflexivity]. exfalso.
  apply serializableb_true in E as [E|E]; [exact (Hl E)|exact (fits_not_too_long _ E He)].
Qed.

(* ---- prop_token_ok: exactly the specified outcome ---- *)
Definition spec_outcome (p : partitioner) (wire : list N) (values : list raw_value)
    (obs : result c03_error (option Z)) : Prop :=
  (wire = [] /\ obs = Ok None) \/
  (wire <> [] /\ (List.length wire = 1%nat \/ Forall fits (spec_components wire values)) /\
   obs = Ok (Some (spec_token p wire values))) \/
  ((1 < List.length wire)%nat /\ Exists too_long (spec_components wire values) /\
   exists n, obs = Err (ValueTooLong n) /\ 65535 < n).

Lemma spec_components_length wire values : List.length (spec_components wire values) = List.length wire.
Proof. unfold spec_components. apply map_length. Qed.

Theorem prop_token_ok_iff p ncols wire values obs : key_ok ncols wire values ->
  (prop_token_ok p ncols wire values obs = true <-> spec_outcome p wire values obs).
Proof.
  intros Hk. unfold prop_token_ok, spec_outcome.
  rewrite (key_okb_complete _ _ _ Hk). cbn [negb].
  destruct wire as [|w0 wr].
  - split.
    + intros H. left. split; [reflexivity|]. destruct obs as [[t|]|e]; try discriminate. reflexivity.
    + intros [[_ ->]|[(Hne & _)|(Hl & _)]]; [reflexivity|contradiction|cbn [List.length] in Hl; lia].
  - set (wire := w0 :: wr) in *.
    destruct (serializableb (spec_components wire values)) eqn:Es.
    + apply serializableb_true in Es. rewrite spec_components_length in Es. split.
      * intros H. right. left. split; [discriminate|]. split; [exact Es|].
        destruct obs as [[t|]|e]; try discriminate. apply Z.eqb_eq in H. subst t. reflexivity.
      * intros [[Hw _]|[(_ & _ & ->)|(Hl & He & _)]]; [discriminate|apply Z.eqb_refl|].
        exfalso. destruct Es as [Es|Es]; [lia|exact (fits_not_too_long _ Es He)].
    + apply serializableb_false in Es as [Hl He]. rewrite spec_components_length in Hl. split.
      * intros H. right. right.
        split; [subst wire; cbn [List.length] in *; lia|]. split; [exact He|].
        destruct obs as [[t|]|e]; try discriminate. destruct e; try discriminate.
        eexists. split; [reflexivity|]. apply N.ltb_lt. exact H.
      * intros [[Hw _]|[(_ & Hs & _)|(_ & _ & n & -> & Hn)]]; [discriminate| |apply N.ltb_lt; exact Hn].
        exfalso. destruct Hs as [Hs|Hs]; [exact (Hl Hs)|exact (fits_not_too_long _ Hs He)].
Qed.

(* outside the quantifier the predicate claims nothing *)
Theorem prop_token_ok_outside p ncols wire values obs : ~ key_ok ncols wire values ->
  prop_token_ok p ncols wire values obs = true.
Proof.
  intros Hk. unfold prop_token_ok. destruct (key_okb ncols wire values) eqn:E; [|reflexivity].
  exfalso. apply Hk, key_okb_sound, E.
Qed.

(* ---- prop_pk_token_ok ---- *)
Definition spec_pk_outcome (p : partitioner) (comps : list bytes) (obs : result c03_error Z) : Prop :=
  ((List.length comps <= 1)%nat \/ Forall fits comps) /\ obs = Ok (token_spec p (spec_serialized_key comps)) \/
  ((1 < List.length comps)%nat /\ Exists too_long comps /\ exists n, obs = Err (ValueTooLong n) /\ 65535 < n).

Theorem prop_pk_token_ok_iff p values obs : forallb is_value values = true ->
  (prop_pk_token_ok p values obs = true <-> spec_pk_outcome p (map bound_bytes values) obs).
Proof.
  intros Hv. unfold prop_pk_token_ok, spec_pk_outcome. rewrite Hv. cbn [negb]. cbv zeta.
  set (comps := map bound_bytes values).
  destruct (serializableb comps || (List.length comps =? 0)%nat) eqn:Es.
  - assert (Hs : (List.length comps <= 1)%nat \/ Forall fits comps).
    { apply orb_true_iff in Es as [Es|Es].
      - apply serializableb_true in Es as [Es|Es]; [left; lia|right; exact Es].
      - apply Nat.eqb_eq in Es. left. lia. }
    split.
    + intros H. left. split; [exact Hs|]. destruct obs as [t|e]; [|discriminate].
      apply Z.eqb_eq in H. subst t. reflexivity.
    + intros [(_ & ->)|(Hl & He & _)]; [apply Z.eqb_refl|]. exfalso.
      destruct Hs as [Hs|Hs]; [lia|exact (fits_not_too_long _ Hs He)].
  - apply orb_false_iff in Es as [Es E0]. apply serializableb_false in Es as [Hl He].
    apply Nat.eqb_neq in E0.
    assert (Hgt : (1 < List.length comps)%nat) by lia.
    split.
    + intros H. right. split; [exact Hgt|]. split; [exact He|].
      destruct obs as [t|e]; [discriminate|]. destruct e; try discriminate.
      eexists. split; [reflexivity|]. apply N.ltb_lt. exact H.
    + intros [(Hs & _)|(_ & _ & n & -> & Hn)]; [|apply N.ltb_lt; exact Hn]. exfalso.
      destruct Hs as [Hs|Hs]; [lia|exact (fits_not_too_long _ Hs He)].
Qed.

Theorem prop_pk_token_ok_outside p values obs : forallb is_value values = false ->
  prop_pk_token_ok p values obs = true.
Proof. intros H. unfold prop_pk_token_ok. rewrite H. reflexivity. Qed.

(* ---- the remaining < 2^63 premises discharged (feed_chunking_all) ---- *)
Theorem hash_one_spec_all p data : hash_one p data = token_spec p data.
Proof. unfold hash_one. rewrite feed_chunking_all. cbn [List.concat]. rewrite app_nil_r. reflexivity. Qed.

Theorem feed_chunk_independent_all p chunks1 chunks2 :
  List.concat chunks1 = List.concat chunks2 -> feed p chunks1 = feed p chunks2.
Proof. intros He. rewrite !feed_chunking_all, He. reflexivity. Qed.

Theorem token_for_partition_key_spec_all p comps :
  (List.length comps = 1%nat \/ Forall fits comps) ->
  token_for_partition_key p (map RValue comps) = Ok (token_spec p (spec_serialized_key comps)).
Proof.
  intros Hfit. unfold token_for_partition_key.
  destruct comps as [|c [|c' r]].
  - cbn [map]. cbn [filter_values composite_chunks]. rewrite feed_chunking_all. reflexivity.
  - cbn [map]. rewrite feed_chunking_all.
    cbn [List.concat spec_serialized_key]. rewrite app_nil_r. reflexivity.
  - destruct Hfit as [H|H]; [cbn [List.length] in H; lia|].
    cbn [map]. change (RValue c :: RValue c' :: map RValue r) with (map RValue (c :: c' :: r)).
    rewrite filter_values_map. destruct (composite_chunks_ok _ H) as (chunks & Hc & Hcat).
    rewrite Hc. rewrite feed_chunking_all. rewrite Hcat. reflexivity.
Qed.

Theorem prop_token_model_all chk p ncols wire values :
  prop_token_ok p ncols wire values (ps_calculate_token chk p ncols wire values) = true.
Proof.
  unfold prop_token_ok.
  destruct (key_okb ncols wire values) eqn:Ek; [|reflexivity]. cbn [negb].
  apply key_okb_sound in Ek.
  destruct wire as [|w0 wr]; [reflexivity|].
  destruct (serializableb (spec_components (w0 :: wr) values)) eqn:Es.
  - apply serializableb_true in Es.
    rewrite ps_calculate_token_spec_all; [apply Z.eqb_refl|discriminate|exact Ek|].
    destruct Es as [H|H]; [left; unfold spec_components in H; rewrite map_length in H; exact H|right; exact H].
  - apply serializableb_false in Es as [Hl Hex].
    destruct (ps_calculate_token_too_long chk p ncols (w0 :: wr) values Ek) as (n & Hn & Hlt & _).
    + unfold spec_components in Hl. rewrite map_length in Hl. cbn [List.length] in *. lia.
    + exact Hex.
    + rewrite Hn. apply N.ltb_lt. exact Hlt.
Qed.

Theorem prop_pk_token_model_all p values :
  prop_pk_token_ok p values (token_for_partition_key p values) = true.
Proof.
  unfold prop_pk_token_ok.
  destruct (forallb is_value values) eqn:Ev; [|reflexivity]. cbn [negb].
  apply all_values_map in Ev. set (comps := map bound_bytes values) in *. rewrite Ev.
  cbv zeta.
  destruct (serializableb comps || (List.length comps =? 0)%nat) eqn:Es.
  - rewrite token_for_partition_key_spec_all; [apply Z.eqb_refl|].
    apply orb_true_iff in Es as [Es|Es]; [apply serializableb_true; exact Es|].
    apply Nat.eqb_eq in Es. right. destruct comps; [constructor|discriminate].
  - apply orb_false_iff in Es as [Es E0]. apply serializableb_false in Es as [Hl Hex].
    apply Nat.eqb_neq in E0.
    assert (Hgt : (1 < List.length comps)%nat).
    { clear -Hl E0. destruct comps as [|? [|? ?]]; cbn [List.length] in *; [congruence|congruence|lia]. }
    destruct (token_for_partition_key_too_long p comps Hgt Hex) as (n & Hn & Hlt).
    rewrite Hn. apply N.ltb_lt. exact Hlt.
Qed.

Theorem feed_shard_all p chunks n msb : 0 < n -> msb <= 63 ->
  shard_of n msb (feed p chunks) = spec_shard_of n msb (token_spec p (List.concat chunks)) /\
  shard_of n msb (feed p chunks) < n.
Proof.
  intros Hn _. rewrite (feed_chunking_all p chunks). split; [apply shard_of_spec|apply shard_of_lt; exact Hn].
Qed.

(* ---- str::ends_with is "s = pre ++ suffix" ---- *)
Lemma is_prefix_refl_app p t : is_prefix p (p ++ t)%list = true.
Proof.
  induction p as [|a p IH]; [reflexivity|]. cbn [is_prefix List.app]. rewrite Ascii.eqb_refl. exact IH.
Qed.

Lemma list_ascii_app a b :
  list_ascii_of_string (a ++ b)%string = (list_ascii_of_string a ++ list_ascii_of_string b)%list.
Proof. induction a as [|c a IH]; [reflexivity|]. cbn [String.append list_ascii_of_string List.app]. now rewrite IH. Qed.

Theorem ends_with_iff s suffix :
  ends_with s suffix = true <-> exists pre, s = (pre ++ suffix)%string.
Proof.
  unfold ends_with. split.
  - intros H. apply is_prefix_app in H as [t Ht].
    apply (f_equal (@rev _)) in Ht. rewrite rev_involutive, rev_app_distr, rev_involutive in Ht.
    exists (string_of_list_ascii (rev t)).
    rewrite <- (string_of_list_ascii_of_string s), Ht.
    rewrite <- (string_of_list_ascii_of_string (string_of_list_ascii (rev t) ++ suffix)).
    rewrite list_ascii_app, list_ascii_of_string_of_list_ascii. reflexivity.
  - intros [pre ->]. rewrite list_ascii_app, rev_app_distr. apply is_prefix_refl_app.
Qed.
