(* Proofs about Model/ShardConnect.v (property C11, the connect loop over the port iterator). *)
From SV Require Import Base.Prelude Model.Shard Model.ShardConnect Proofs.Shard_proofs.
From Coq Require Import Permutation.
Open Scope N_scope.

(* ---------------- the loop over an arbitrary port list ---------------- *)

(* Complete description of a run: the loop calls open_connection on a prefix of the list, in list
   order; every port before the last tried one was address-unavailable; it stops at the FIRST port
   whose outcome is something else and returns that outcome; it reports NoSourcePortForShard only
   after having tried the whole list. *)
Theorem connect_loop_char ports avail :
  match connect_loop ports avail with
  | Conn p => exists a b, ports = a ++ p :: b /\ tried ports avail = a ++ [p] /\
                          (forall q, In q a -> avail q = AddrUnavailable) /\ avail p = Connected
  | Failed p e => exists a b, ports = a ++ p :: b /\ tried ports avail = a ++ [p] /\
                          (forall q, In q a -> avail q = AddrUnavailable) /\ avail p = OtherError e
  | NoSourcePortForShard => tried ports avail = ports /\
                          (forall q, In q ports -> avail q = AddrUnavailable)
  end.
Proof.
  induction ports as [|x r IH]; cbn [connect_loop tried].
  - split; [reflexivity|]. intros q [].
  - destruct (avail x) eqn:Ex.
    + destruct (connect_loop r avail) as [p|p e|].
      * destruct IH as (a & b & -> & Ht & Ha & Hp). exists (x :: a), b.
        repeat split; [now rewrite Ht|intros q [<-|I]; [exact Ex|now apply Ha]|exact Hp].
      * destruct IH as (a & b & -> & Ht & Ha & Hp). exists (x :: a), b.
        repeat split; [now rewrite Ht|intros q [<-|I]; [exact Ex|now apply Ha]|exact Hp].
      * destruct IH as [Ht Ha]. split; [now rewrite Ht|].
        intros q [<-|I]; [exact Ex|now apply Ha].
    + exists [], r. repeat split; [intros q []|exact Ex].
    + exists [], r. repeat split; [intros q []|exact Ex].
Qed.

Lemma tried_prefix ports avail : exists rest, ports = tried ports avail ++ rest.
Proof.
  pose proof (connect_loop_char ports avail) as H.
  destruct (connect_loop ports avail) as [p|p e|].
  - destruct H as (a & b & -> & -> & _). exists b. now rewrite <- app_assoc.
  - destruct H as (a & b & -> & -> & _). exists b. now rewrite <- app_assoc.
  - destruct H as [-> _]. exists []. now rewrite app_nil_r.
Qed.

Lemma NoDup_app_l {A} (a b : list A) : NoDup (a ++ b) -> NoDup a.
Proof.
  induction a as [|x a IH]; cbn [app]; intros H; [constructor|].
  inversion H as [|? ? Hx Hr]; subst. constructor; [|now apply IH].
  intros I. apply Hx. apply in_or_app. now left.
Qed.

Lemma tried_NoDup ports avail : NoDup ports -> NoDup (tried ports avail).
Proof.
  intros ND. destruct (tried_prefix ports avail) as [rest E]. rewrite E in ND.
  now apply NoDup_app_l in ND.
Qed.

Theorem connect_loop_none_iff ports avail :
  connect_loop ports avail = NoSourcePortForShard <->
  (forall q, In q ports -> avail q = AddrUnavailable).
Proof.
  split.
  - intros E. pose proof (connect_loop_char ports avail) as H. rewrite E in H. apply H.
  - induction ports as [|x r IH]; intros H; cbn [connect_loop]; [reflexivity|].
    rewrite (H x (or_introl eq_refl)). apply IH. intros q I. apply H. now right.
Qed.

(* ---------------- the loop over the iterator's output ---------------- *)

Section Sharded.
  Variables n s lo hi : N.
  Hypothesis Hn : 0 < n.
  Hypothesis Hs : s < n.
  Hypothesis Hle : lo <= hi.
  Hypothesis Hhi : hi <= u16_max.

  Lemma iter_In pivot p : In p (iter_ports n s lo hi pivot) <-> In p (spec_ports n s lo hi).
  Proof.
    rewrite (iter_ports_In n s lo hi pivot p Hn Hs Hle Hhi).
    rewrite (spec_ports_In n s lo hi p) by lia. tauto.
  Qed.

  (* a successful connection uses a port of the range that is congruent to the shard *)
  Theorem open_sa_conn pivot avail p :
    open_shard_aware n s lo hi pivot avail = Conn p ->
    lo <= p <= hi /\ p mod n = s /\ avail p = Connected.
  Proof.
    unfold open_shard_aware. intros E.
    pose proof (connect_loop_char (iter_ports n s lo hi pivot) avail) as H. rewrite E in H.
    destruct H as (a & b & Hp & _ & _ & Hc).
    assert (In p (iter_ports n s lo hi pivot)) as I by (rewrite Hp; apply in_elt).
    apply (iter_ports_In n s lo hi pivot p Hn Hs Hle Hhi) in I. tauto.
  Qed.

  (* an error that is handed through comes from an attempt on such a port as well *)
  Theorem open_sa_failed pivot avail p e :
    open_shard_aware n s lo hi pivot avail = Failed p e ->
    lo <= p <= hi /\ p mod n = s /\ avail p = OtherError e.
  Proof.
    unfold open_shard_aware. intros E.
    pose proof (connect_loop_char (iter_ports n s lo hi pivot) avail) as H. rewrite E in H.
    destruct H as (a & b & Hp & _ & _ & Hc).
    assert (In p (iter_ports n s lo hi pivot)) as I by (rewrite Hp; apply in_elt).
    apply (iter_ports_In n s lo hi pivot p Hn Hs Hle Hhi) in I. tauto.
  Qed.

  (* NoSourcePortForShard iff every port of the specification's set is unavailable *)
  Theorem open_sa_none_iff pivot avail :
    open_shard_aware n s lo hi pivot avail = NoSourcePortForShard <->
    (forall p, lo <= p <= hi -> p mod n = s -> avail p = AddrUnavailable).
  Proof.
    unfold open_shard_aware. rewrite connect_loop_none_iff. split.
    - intros H p Hr Hm. apply H. apply (iter_ports_In n s lo hi pivot p Hn Hs Hle Hhi). tauto.
    - intros H p I. apply (iter_ports_In n s lo hi pivot p Hn Hs Hle Hhi) in I.
      now apply H.
  Qed.

  (* ... in particular when no such port exists *)
  Theorem open_sa_none_empty pivot avail :
    (forall p, lo <= p <= hi -> p mod n <> s) ->
    open_shard_aware n s lo hi pivot avail = NoSourcePortForShard.
  Proof.
    intros H. apply open_sa_none_iff. intros p Hr Hm. exfalso. exact (H p Hr Hm).
  Qed.

  (* the attempts: a prefix of the iterator's output (= iterator order), every candidate port at
     most once, all of them ports of the specification's set *)
  Theorem tried_sa pivot avail :
    (exists rest, iter_ports n s lo hi pivot = tried_shard_aware n s lo hi pivot avail ++ rest) /\
    NoDup (tried_shard_aware n s lo hi pivot avail) /\
    (forall p, In p (tried_shard_aware n s lo hi pivot avail) -> lo <= p <= hi /\ p mod n = s).
  Proof.
    unfold tried_shard_aware.
    destruct (iter_ports_perm n s lo hi pivot Hn Hs Hle Hhi) as [_ ND].
    split; [apply tried_prefix|]. split; [now apply tried_NoDup|].
    intros p I. destruct (tried_prefix (iter_ports n s lo hi pivot) avail) as [rest E].
    apply (iter_ports_In n s lo hi pivot p Hn Hs Hle Hhi). rewrite E. apply in_or_app. now left.
  Qed.

  (* every port of the set that the loop did not try lies behind the port it stopped at; if the
     loop gave up, it has tried every port of the set *)
  Theorem tried_sa_all_when_none pivot avail p :
    open_shard_aware n s lo hi pivot avail = NoSourcePortForShard ->
    lo <= p <= hi -> p mod n = s -> In p (tried_shard_aware n s lo hi pivot avail).
  Proof.
    unfold open_shard_aware, tried_shard_aware. intros E Hr Hm.
    pose proof (connect_loop_char (iter_ports n s lo hi pivot) avail) as H. rewrite E in H.
    destruct H as [-> _]. apply (iter_ports_In n s lo hi pivot p Hn Hs Hle Hhi). tauto.
  Qed.
End Sharded.

(* ---------------- the end-to-end acceptor ---------------- *)

Lemma memb_In p l : memb p l = true <-> In p l.
Proof. apply existsb_eqb_In. Qed.

Theorem accept_conn_iff n lo hi pre port shard :
  accept_conn n lo hi pre port shard = true <->
  lo <= port <= hi /\ port mod n = shard /\ ~ In port pre.
Proof.
  unfold accept_conn. rewrite !andb_true_iff, !N.leb_le, N.eqb_eq, negb_true_iff.
  rewrite <- (memb_In port pre). destruct (memb port pre); intuition congruence.
Qed.

Theorem accept_conns_iff n lo hi pre obs :
  accept_conns n lo hi pre obs = true <->
  (forall port shard, In (port, shard) obs ->
     lo <= port <= hi /\ port mod n = shard /\ ~ In port pre).
Proof.
  unfold accept_conns. rewrite forallb_forall. split.
  - intros H port shard I. apply accept_conn_iff. exact (H (port, shard) I).
  - intros H [port shard] I. apply accept_conn_iff. now apply H.
Qed.

(* no false alarm: whatever the model's loop can produce in an environment in which the
   pre-bound ports are unavailable is accepted *)
Theorem accept_conn_complete n s lo hi pre pivot avail p :
  0 < n -> s < n -> lo <= hi -> hi <= u16_max ->
  respects pre avail ->
  open_shard_aware n s lo hi pivot avail = Conn p ->
  accept_conn n lo hi pre p s = true.
Proof.
  intros Hn Hs Hle Hhi Hr E.
  destruct (open_sa_conn n s lo hi Hn Hs Hle Hhi pivot avail p E) as (H1 & H2 & H3).
  apply accept_conn_iff. repeat split; try tauto.
  intros I. rewrite (Hr p I) in H3. discriminate.
Qed.

(* the acceptor is not looser than the model: an accepted observation is the outcome of the
   model's loop for some pivot and some environment that respects the pre-bound ports *)
Theorem accept_conn_model n lo hi pre port shard :
  0 < n -> hi <= u16_max ->
  accept_conn n lo hi pre port shard = true ->
  exists pivot avail, respects pre avail /\
    open_shard_aware n shard lo hi pivot avail = Conn port.
Proof.
  intros Hn Hhi H. apply accept_conn_iff in H. destruct H as (Hr & Hm & Hp).
  assert (shard < n) as Hs by (subst shard; apply N.mod_lt; lia).
  assert (lo <= hi) as Hle by lia.
  assert (In port (ports_for_shard n shard lo hi)) as I.
  { rewrite (ports_for_shard_spec n shard lo hi Hn Hs Hle Hhi).
    apply spec_ports_In; [lia|tauto]. }
  apply In_nth_error in I. destruct I as [k Hk].
  exists k, (fun q => if q =? port then Connected else AddrUnavailable). split.
  - intros q Iq. destruct (q =? port) eqn:E; [|reflexivity].
    apply N.eqb_eq in E. subst q. contradiction.
  - unfold open_shard_aware, iter_ports.
    destruct (rot_head _ k port Hk) as [r ->]. cbn [connect_loop].
    now rewrite N.eqb_refl.
Qed.

Theorem starvedb_iff n s lo hi pre : lo <= hi + 1 ->
  starvedb n s lo hi pre = true <->
  (forall p, lo <= p <= hi -> p mod n = s -> In p pre).
Proof.
  intros Hle. unfold starvedb. rewrite forallb_forall. split.
  - intros H p Hr Hm. apply memb_In. apply H. apply spec_ports_In; [exact Hle|tauto].
  - intros H p I. apply memb_In. apply spec_ports_In in I; [|exact Hle]. now apply H.
Qed.

(* a starved shard: the loop ends in NoSourcePortForShard in every environment of the tie *)
Theorem starved_none n s lo hi pre pivot avail :
  0 < n -> s < n -> lo <= hi -> hi <= u16_max ->
  starvedb n s lo hi pre = true -> respects pre avail ->
  open_shard_aware n s lo hi pivot avail = NoSourcePortForShard.
Proof.
  intros Hn Hs Hle Hhi Hst Hr. apply (open_sa_none_iff n s lo hi Hn Hs Hle Hhi).
  intros p Hp Hm. apply Hr.
  assert (lo <= hi + 1) as Hl by lia.
  exact (proj1 (starvedb_iff n s lo hi pre Hl) Hst p Hp Hm).
Qed.

(* ... hence no accepted shard-aware connection can serve a starved shard *)
Theorem accept_conn_not_starved n lo hi pre port shard :
  accept_conn n lo hi pre port shard = true -> starvedb n shard lo hi pre = false.
Proof.
  intros H. apply accept_conn_iff in H. destruct H as (Hr & Hm & Hp).
  destruct (starvedb n shard lo hi pre) eqn:E; [|reflexivity]. exfalso.
  assert (lo <= hi + 1) as Hl by lia.
  exact (Hp (proj1 (starvedb_iff n shard lo hi pre Hl) E port Hr Hm)).
Qed.

(* ---------------- successive runs in a known environment (what the driver runs) ---------------- *)

Lemma memb_cons q p l : memb q (p :: l) = (q =? p) || memb q l.
Proof. reflexivity. Qed.

Lemma filter_free_remove (l busy : list N) p :
  NoDup l -> In p l -> memb p busy = false ->
  List.length (filter (fun q => negb (memb q busy)) l) =
  S (List.length (filter (fun q => negb (memb q (p :: busy))) l)).
Proof.
  induction l as [|x l IH]; intros ND I Hp; [destruct I|].
  inversion ND as [|? ? Hx ND']; subst. cbn [filter]. rewrite (memb_cons x p busy).
  destruct (N.eq_dec x p) as [->|Hne].
  - rewrite Hp, N.eqb_refl. cbn [negb orb List.length]. f_equal. f_equal.
    apply filter_ext_in. intros q Iq. rewrite memb_cons.
    destruct (q =? p) eqn:E; [apply N.eqb_eq in E; subst; contradiction|reflexivity].
  - destruct I as [->|I]; [contradiction|].
    apply N.eqb_neq in Hne. rewrite Hne. cbn [orb].
    destruct (negb (memb x busy)); cbn [List.length]; rewrite (IH ND' I Hp); reflexivity.
Qed.

Lemma filter_nil_all {A} (f : A -> bool) (l : list A) :
  (forall x, In x l -> f x = false) -> filter f l = [].
Proof.
  induction l as [|x l IH]; intros H; [reflexivity|]. cbn [filter].
  rewrite (H x (or_introl eq_refl)). apply IH. intros y I. apply H. now right.
Qed.

Lemma env_busy_conn busy p : env_busy busy p = Connected -> memb p busy = false.
Proof. unfold env_busy. destruct (memb p busy); [discriminate|reflexivity]. Qed.

Lemma env_busy_unavail busy p : env_busy busy p = AddrUnavailable -> memb p busy = true.
Proof. unfold env_busy. destruct (memb p busy); [reflexivity|discriminate]. Qed.

(* However the pivots fall: the number of connections opened is the number of runs, capped by the
   number of ports of the shard that are not busy; they use distinct free ports of the shard. *)
Theorem open_many_length n s lo hi pivots busy :
  0 < n -> s < n -> lo <= hi -> hi <= u16_max ->
  List.length (open_many n s lo hi pivots busy) =
  Nat.min (List.length pivots) (List.length (free_ports n s lo hi busy)).
Proof.
  intros Hn Hs Hle Hhi. revert busy.
  induction pivots as [|pv r IH]; intros busy; [reflexivity|].
  cbn [open_many List.length].
  destruct (open_shard_aware n s lo hi pv (env_busy busy)) as [p|p e|] eqn:E.
  - destruct (open_sa_conn n s lo hi Hn Hs Hle Hhi pv _ p E) as (Hr & Hm & Hc).
    apply env_busy_conn in Hc. cbn [List.length]. rewrite IH. unfold free_ports.
    rewrite (filter_free_remove (spec_ports n s lo hi) busy p);
      [reflexivity|apply spec_ports_NoDup| |exact Hc].
    apply spec_ports_In; [lia|tauto].
  - destruct (open_sa_failed n s lo hi Hn Hs Hle Hhi pv _ p e E) as (_ & _ & Hc).
    unfold env_busy in Hc. destruct (memb p busy); discriminate.
  - rewrite IH. assert (free_ports n s lo hi busy = []) as ->.
    { unfold free_ports. apply filter_nil_all. intros x I.
      apply spec_ports_In in I; [|lia]. destruct I as [Hr Hm].
      rewrite (env_busy_unavail busy x); [reflexivity|].
      exact (proj1 (open_sa_none_iff n s lo hi Hn Hs Hle Hhi pv _) E x Hr Hm). }
    cbn [List.length]. now rewrite !Nat.min_0_r.
Qed.

Theorem open_many_In n s lo hi pivots busy p :
  0 < n -> s < n -> lo <= hi -> hi <= u16_max ->
  In p (open_many n s lo hi pivots busy) -> lo <= p <= hi /\ p mod n = s /\ ~ In p busy.
Proof.
  intros Hn Hs Hle Hhi. revert busy.
  induction pivots as [|pv r IH]; intros busy I; [destruct I|].
  cbn [open_many] in I.
  destruct (open_shard_aware n s lo hi pv (env_busy busy)) as [q|q e|] eqn:E.
  - destruct I as [<-|I].
    + destruct (open_sa_conn n s lo hi Hn Hs Hle Hhi pv _ q E) as (Hr & Hm & Hc).
      apply env_busy_conn in Hc. repeat split; try tauto.
      intros Ib. apply memb_In in Ib. congruence.
    + destruct (IH _ I) as (Hr & Hm & Hb). repeat split; try tauto.
      intros Ib. apply Hb. now right.
  - now apply IH.
  - now apply IH.
Qed.

(* the check "some pivot gives this port" is what it says *)
Theorem some_pivot_gives_iff n s lo hi busy port k :
  some_pivot_gives n s lo hi busy port k = true <->
  exists pivot, (pivot < k)%nat /\ open_shard_aware n s lo hi pivot (env_busy busy) = Conn port.
Proof.
  induction k as [|k IH]; cbn [some_pivot_gives].
  - split; [discriminate|]. intros (pv & H & _). lia.
  - destruct (open_shard_aware n s lo hi k (env_busy busy)) as [p|p e|] eqn:E.
    + rewrite orb_true_iff, N.eqb_eq, IH. split.
      * intros [->|(pv & H & Hp)]; [exists k; split; [lia|exact E]|exists pv; split; [lia|exact Hp]].
      * intros (pv & H & Hp). destruct (Nat.eq_dec pv k) as [->|Hne].
        -- left. congruence.
        -- right. exists pv. split; [lia|exact Hp].
    + rewrite IH. split; intros (pv & H & Hp).
      * exists pv. split; [lia|exact Hp].
      * destruct (Nat.eq_dec pv k) as [->|Hne]; [congruence|]. exists pv. split; [lia|exact Hp].
    + rewrite IH. split; intros (pv & H & Hp).
      * exists pv. split; [lia|exact Hp].
      * destruct (Nat.eq_dec pv k) as [->|Hne]; [congruence|]. exists pv. split; [lia|exact Hp].
Qed.

(* ---------------- deepening round 3: run count, count interval, list level, ---------------- *)
Lemma fold_runs_acc per s firsts a :
  fold_left (fun a f => (a + (per - (if N.eqb f s then 1 else 0)))%nat) firsts a =
  (a + fold_left (fun a f => (a + (per - (if N.eqb f s then 1 else 0)))%nat) firsts O)%nat.
Proof.
  revert a; induction firsts as [|f r IH]; intros a; cbn [fold_left]; [lia|].
  rewrite IH. rewrite (IH (0 + _)%nat). lia.
Qed.

Theorem runs_for_shard_spec per firsts s : (1 <= per)%nat ->
  runs_for_shard per firsts s = (per * List.length firsts - count_occ N.eq_dec firsts s)%nat.
Proof.
  intros Hp. unfold runs_for_shard. induction firsts as [|f r IH]; cbn [fold_left List.length count_occ]; [lia|].
  rewrite fold_runs_acc, IH.
  pose proof (count_occ_bound N.eq_dec s r) as Hb.
  destruct (N.eq_dec f s) as [->|Hne].
  - rewrite N.eqb_refl. nia.
  - apply N.eqb_neq in Hne. rewrite Hne. nia.
Qed.

Lemma runs_for_shard_le per firsts s : (runs_for_shard per firsts s <= per * List.length firsts)%nat.
Proof.
  unfold runs_for_shard. induction firsts as [|f r IH]; cbn [fold_left List.length]; [lia|].
  rewrite fold_runs_acc. destruct (f =? s); nia.
Qed.

Lemma memb_app p a b : memb p (a ++ b) = memb p a || memb p b.
Proof. unfold memb. apply existsb_app. Qed.

Lemma filter_length_le_imp {A} (f g : A -> bool) l :
  (forall x, In x l -> f x = true -> g x = true) ->
  (List.length (filter f l) <= List.length (filter g l))%nat.
Proof.
  induction l as [|x l IH]; intros H; [reflexivity|]. cbn [filter].
  assert (List.length (filter f l) <= List.length (filter g l))%nat as Hl
      by (apply IH; intros y I; apply H; now right).
  destruct (f x) eqn:Ef.
  - rewrite (H x (or_introl eq_refl) Ef). cbn [List.length]. lia.
  - destruct (g x); cbn [List.length]; lia.
Qed.

Lemma free_ports_mono n s lo hi pre busy :
  (List.length (free_ports n s lo hi (pre ++ busy)) <= List.length (free_ports n s lo hi pre))%nat.
Proof.
  unfold free_ports. apply filter_length_le_imp. intros x _. rewrite memb_app.
  destruct (memb x pre); [discriminate|reflexivity].
Qed.

Theorem shard_count_bounds_spec n lo hi per firsts pre busy s :
  0 < n -> s < n -> lo <= hi -> hi <= u16_max ->
  shard_count_bounds n lo hi per firsts pre busy s =
    (Nat.min (runs_for_shard per firsts s) (List.length (free_ports n s lo hi (pre ++ busy))),
     Nat.min (runs_for_shard per firsts s) (List.length (free_ports n s lo hi pre))) /\
  (fst (shard_count_bounds n lo hi per firsts pre busy s) <= snd (shard_count_bounds n lo hi per firsts pre busy s))%nat /\
  (snd (shard_count_bounds n lo hi per firsts pre busy s) <= per * List.length firsts)%nat.
Proof.
  intros Hn Hs Hle Hhi. unfold shard_count_bounds.
  rewrite !(open_many_length n s lo hi _ _ Hn Hs Hle Hhi), seq_length. cbn [fst snd].
  pose proof (free_ports_mono n s lo hi pre busy). pose proof (runs_for_shard_le per firsts s).
  repeat split; lia.
Qed.

(* list level: what a list accepted by accept_conns guarantees *)
Theorem accept_conns_list n lo hi pre obs s :
  lo <= hi + 1 ->
  accept_conns n lo hi pre obs = true -> NoDup (map fst obs) ->
  (List.length (filter (fun c => N.eqb (snd c) s) obs) <= List.length (free_ports n s lo hi pre))%nat.
Proof.
  intros Hle Ha ND.
  rewrite <- (map_length fst (filter (fun c => N.eqb (snd c) s) obs)).
  apply NoDup_incl_length.
  - clear Ha. induction obs as [|[p sh] r IH]; cbn [filter map]; [constructor|].
    cbn [map fst] in ND. inversion ND as [|? ? Hx ND']; subst.
    destruct (N.eqb (snd (p, sh)) s); [|now apply IH].
    cbn [map fst]. constructor; [|now apply IH].
    intros I. apply Hx. apply in_map_iff in I. destruct I as [c [E I]].
    apply filter_In in I. apply in_map_iff. exists c. tauto.
  - intros p I. apply in_map_iff in I. destruct I as [[p' sh] [E I]]. cbn [fst] in E. subst p'.
    apply filter_In in I. destruct I as [I Es]. cbn [snd] in Es. apply N.eqb_eq in Es. subst sh.
    destruct (proj1 (accept_conns_iff n lo hi pre obs) Ha p s I) as (Hr & Hm & Hp).
    unfold free_ports. apply filter_In. split.
    + apply spec_ports_In; [exact Hle|tauto].
    + destruct (memb p pre) eqn:E; [|reflexivity]. apply memb_In in E. contradiction.
Qed.

(* completeness of accept_draw *)
Theorem accept_draw_complete n s lo hi idx :
  (idx < Nat.max 1 (List.length (ports_for_shard n s lo hi)))%nat ->
  accept_draw n s lo hi (draw_port n s lo hi idx) = true.
Proof.
  intros H. unfold accept_draw, draw_port.
  destruct (ports_for_shard n s lo hi) as [|a l] eqn:E.
  - destruct idx; reflexivity.
  - destruct (nth_error (a :: l) idx) as [p|] eqn:En.
    + apply existsb_eqb_In. eapply nth_error_In; eassumption.
    + apply nth_error_None in En. cbn [List.length] in *. lia.
Qed.

(* a starved shard has no observation in an accepted list *)
Theorem accept_conns_starved_none n lo hi pre obs s :
  accept_conns n lo hi pre obs = true -> starvedb n s lo hi pre = true ->
  filter (fun c => N.eqb (snd c) s) obs = [].
Proof.
  intros Ha Hst. apply filter_nil_all. intros [p sh] I. cbn [snd].
  destruct (N.eqb sh s) eqn:E; [|reflexivity]. apply N.eqb_eq in E. subst sh.
  unfold accept_conns in Ha. rewrite forallb_forall in Ha. specialize (Ha _ I). cbn [fst snd] in Ha.
  apply accept_conn_not_starved in Ha. congruence.
Qed.

(* ---------------- deepening round 4 ---------------- *)

(* membership in free_ports, spelled out *)
Lemma free_ports_In n s lo hi busy p : lo <= hi + 1 ->
  In p (free_ports n s lo hi busy) <-> lo <= p <= hi /\ p mod n = s /\ ~ In p busy.
Proof.
  intros H. unfold free_ports. rewrite filter_In, (spec_ports_In n s lo hi p H), negb_true_iff.
  split.
  - intros [[Hr Hm] Hb]. repeat split; try tauto. intros I. apply memb_In in I. congruence.
  - intros (Hr & Hm & Hb). split; [tauto|]. destruct (memb p busy) eqn:E; [|reflexivity].
    apply memb_In in E. contradiction.
Qed.

(* the connections opened by successive runs use pairwise distinct ports *)
Theorem open_many_NoDup n s lo hi pivots busy :
  0 < n -> s < n -> lo <= hi -> hi <= u16_max ->
  NoDup (open_many n s lo hi pivots busy).
Proof.
  intros Hn Hs Hle Hhi. revert busy.
  induction pivots as [|pv r IH]; intros busy; [constructor|].
  cbn [open_many].
  destruct (open_shard_aware n s lo hi pv (env_busy busy)) as [p|p e|] eqn:E; try apply IH.
  constructor; [|apply IH].
  intros I. apply (open_many_In n s lo hi r (p :: busy) p Hn Hs Hle Hhi) in I.
  destruct I as (_ & _ & Hb). apply Hb. now left.
Qed.

(* enough runs use up EVERY free port of the shard *)
Theorem open_many_exhaust n s lo hi pivots busy :
  0 < n -> s < n -> lo <= hi -> hi <= u16_max ->
  (List.length (free_ports n s lo hi busy) <= List.length pivots)%nat ->
  Permutation (open_many n s lo hi pivots busy) (free_ports n s lo hi busy).
Proof.
  intros Hn Hs Hle Hhi Hlen.
  apply NoDup_Permutation_bis.
  - now apply open_many_NoDup.
  - rewrite (open_many_length n s lo hi pivots busy Hn Hs Hle Hhi). lia.
  - intros p I. apply (free_ports_In n s lo hi busy p); [lia|].
    exact (open_many_In n s lo hi pivots busy p Hn Hs Hle Hhi I).
Qed.

(* the loop's outcome in a known environment, with the pivot on a free port, is that port *)
Lemma open_sa_pivot_on_free n s lo hi busy k p :
  nth_error (ports_for_shard n s lo hi) k = Some p -> memb p busy = false ->
  open_shard_aware n s lo hi k (env_busy busy) = Conn p.
Proof.
  intros Hk Hb. unfold open_shard_aware, iter_ports.
  destruct (rot_head _ k p Hk) as [r ->]. cbn [connect_loop]. unfold env_busy. now rewrite Hb.
Qed.

(* the driver's question, asked with k = max 1 (number of ports of the shard) or more pivots, has a
   closed answer: the port is a port of the shard's set that is not busy *)
Theorem some_pivot_gives_all n s lo hi busy port k :
  0 < n -> s < n -> lo <= hi -> hi <= u16_max ->
  (List.length (spec_ports n s lo hi) <= k)%nat ->
  some_pivot_gives n s lo hi busy port k = true <->
  lo <= port <= hi /\ port mod n = s /\ ~ In port busy.
Proof.
  intros Hn Hs Hle Hhi Hk. rewrite some_pivot_gives_iff. split.
  - intros (pv & _ & E).
    destruct (open_sa_conn n s lo hi Hn Hs Hle Hhi pv _ port E) as (Hr & Hm & Hc).
    apply env_busy_conn in Hc. repeat split; try tauto.
    intros I. apply memb_In in I. congruence.
  - intros (Hr & Hm & Hb).
    assert (In port (ports_for_shard n s lo hi)) as I.
    { rewrite (ports_for_shard_spec n s lo hi Hn Hs Hle Hhi). apply spec_ports_In; [lia|tauto]. }
    apply In_nth_error in I. destruct I as [i Hi].
    exists i. split.
    + assert (i < List.length (ports_for_shard n s lo hi))%nat as Hl
        by (apply nth_error_Some; congruence).
      rewrite (ports_for_shard_spec n s lo hi Hn Hs Hle Hhi) in Hl. lia.
    + apply open_sa_pivot_on_free; [exact Hi|].
      destruct (memb port busy) eqn:E; [|reflexivity]. apply memb_In in E. contradiction.
Qed.

(* shard_of_source_port (what the NODE computes from the source port): an independent
   characterisation -- the unique r < n with port = q * n + r *)
Theorem source_port_spec n port r : 0 < n ->
  shard_of_source_port n port = r <-> r < n /\ exists q, port = q * n + r.
Proof.
  intros Hn. unfold shard_of_source_port. split.
  - intros <-. split; [apply N.mod_lt; lia|]. exists (port / n).
    rewrite (N.div_mod port n) at 1 by lia. lia.
  - intros (Hr & q & ->). rewrite N.add_comm, N.mod_add by lia. apply N.mod_small. exact Hr.
Qed.

(* the iterator and the node's assignment are inverse to each other: a port of the range is produced
   for shard s (for every pivot) iff the node files a connection from that port under s *)
Theorem source_port_iter n s lo hi pivot p :
  0 < n -> s < n -> lo <= hi -> hi <= u16_max -> lo <= p <= hi ->
  In p (iter_ports n s lo hi pivot) <-> shard_of_source_port n p = s.
Proof.
  intros Hn Hs Hle Hhi Hr. rewrite (iter_ports_In n s lo hi pivot p Hn Hs Hle Hhi).
  unfold shard_of_source_port. tauto.
Qed.

(* ShardInfo parsing, full strength: Ok exactly for three present non-empty entries whose first
   strings parse (u16, u16, u8) with shard < nr_shards -- and then these three numbers *)
Theorem parse_shard_info_ok_iff se ne me shard nr msb :
  parse_shard_info se ne me = Ok (shard, nr, msb) <->
  exists s rs n rn m rm,
    se = Some (s :: rs) /\ ne = Some (n :: rn) /\ me = Some (m :: rm) /\
    parse_unsigned 65535 s = Some shard /\ parse_unsigned 65535 n = Some nr /\
    parse_unsigned 255 m = Some msb /\ shard < nr.
Proof.
  split.
  - unfold parse_shard_info. intros H.
    destruct se as [[|s rs]|], ne as [[|n rn]|], me as [[|m rm]|]; try discriminate.
    destruct (parse_unsigned 65535 s) as [sh|] eqn:Es; [|discriminate].
    destruct (parse_unsigned 65535 n) as [nr'|] eqn:En; [|discriminate].
    destruct (nr' =? 0) eqn:E0; [discriminate|].
    destruct (parse_unsigned 255 m) as [mb|] eqn:Em; [|discriminate].
    destruct (nr' <=? sh) eqn:E1; [discriminate|].
    inversion H; subst. exists s, rs, n, rn, m, rm. repeat split; try reflexivity; try assumption. lia.
  - intros (s & rs & n & rn & m & rm & -> & -> & -> & Es & En & Em & Hlt).
    unfold parse_shard_info. rewrite Es, En, Em.
    destruct (nr =? 0) eqn:E0; [lia|]. destruct (nr <=? shard) eqn:E1; [lia|]. reflexivity.
Qed.
