(* C10, deepening round 4 (proof-only): the error reaches the pool exactly when the router has finished
   (invariant + frame), and what [skipped_labels] = 0 means for the tie's lenient replay. *)
From SV Require Import Base.Prelude Base.Bytes Model.ConnFail Proofs.ConnFail_proofs.
Open Scope N_scope.

(* ---------- c_err_sent <-> Broken ---------- *)
Definition nb (st : conn) : Prop := forall e, c_status st <> Broken e.
(* err_sent untouched; status the same, or neither state is Broken *)
Definition rel (st st' : conn) : Prop :=
  c_err_sent st' = c_err_sent st /\ (c_status st' = c_status st \/ (nb st /\ nb st')).

Lemma rel_same st st' : c_err_sent st' = c_err_sent st -> c_status st' = c_status st -> rel st st'.
Proof. intros H1 H2. split; [exact H1|left; exact H2]. Qed.

Lemma rel_trans a b c : rel a b -> rel b c -> rel a c.
Proof.
  intros [E1 S1] [E2 S2]. split; [congruence|].
  destruct S1 as [S1|[N1 N1']], S2 as [S2|[N2 N2']].
  - left. congruence.
  - right. split; [|exact N2']. intros e H. apply (N2 e). congruence.
  - right. split; [exact N1|]. intros e H. apply (N1' e). congruence.
  - right. split; assumption.
Qed.

Lemma fault_err_sent e st : c_err_sent (fault e st) = c_err_sent st.
Proof. unfold fault. destruct (c_status st); reflexivity. Qed.

Lemma rel_fault e st : rel st (fault e st).
Proof.
  split; [apply fault_err_sent|]. pose proof (fault_status e st) as Hf.
  destruct (c_status st) eqn:E.
  - right. split; intros e0 H; [rewrite E in H|rewrite Hf in H]; discriminate.
  - left. exact Hf.
  - left. exact Hf.
  - left. exact Hf.
Qed.

Lemma complete_err_sent r o st : c_err_sent (complete r o st) = c_err_sent st.
Proof.
  unfold complete. cbn [c_ka set_done].
  destruct (c_ka st) as [k|]; [destruct (k =? r); [destruct o|]|]; try reflexivity;
    rewrite fault_err_sent; reflexivity.
Qed.

Lemma rel_complete r o st : rel st (complete r o st).
Proof.
  split; [apply complete_err_sent|].
  destruct (complete_status r o st) as [H|[H1 H2]]; [left; exact H|].
  right. split; intros e0 H; [rewrite H1 in H|rewrite H2 in H]; discriminate.
Qed.

Lemma rel_dispatch f st : rel st (dispatch f st).
Proof.
  unfold dispatch. cbn [c_consumed set_consumed c_control c_events c_orphans c_handlers].
  set (s0 := set_consumed (c_consumed st ++ [f]) st).
  assert (H0 : rel st s0) by (apply rel_same; reflexivity).
  destruct (32768 <=? f_stream f).
  - destruct (f_stream f =? 65535); [destruct (c_control st); [destruct (f_opcode f =? 12)|]|];
      first [exact H0 | apply (rel_trans _ s0); [exact H0|apply rel_fault] | apply rel_same; reflexivity].
  - destruct (nmem (f_stream f) (c_orphans st)); [apply rel_same; reflexivity|].
    destruct (find_stream (f_stream f) (c_handlers st)).
    + eapply rel_trans; [|apply rel_complete]. apply rel_same; reflexivity.
    + apply (rel_trans _ s0); [exact H0|apply rel_fault].
Qed.

Lemma rel_drain fuel : forall st, rel st (drain fuel st).
Proof.
  induction fuel as [|k IH]; intros st; cbn [drain]; [apply rel_same; reflexivity|].
  destruct (is_open st); [|apply rel_same; reflexivity].
  destruct (parse_frame (c_rbuf st)) as [|e|f rest]; [apply rel_same; reflexivity|apply rel_fault|].
  eapply rel_trans; [|apply IH]. eapply rel_trans; [|apply rel_dispatch]. apply rel_same; reflexivity.
Qed.

(* FRAME: every step leaves [c_err_sent] alone and keeps the status or moves between non-Broken states --
   except the router's last step (Draining, empty channel, no slot holder), which sets both *)
Lemma step_rel st l st' : step st l = Some st' ->
  rel st st' \/
  (l = TdStep /\ exists e, c_status st = Draining e /\ c_queue st = [] /\ c_reserved st = [] /\
     c_status st' = Broken e /\ c_err_sent st' = true).
Proof.
  intros Hs. destruct l as [r|r|r|so|bs| |k| |r| |]; unfold step in Hs.
  - left. destruct (nmem r (c_submitted st)); [discriminate|].
    change (chan_closed (set_submitted (c_submitted st ++ [r]) st)) with (chan_closed st) in Hs.
    destruct (chan_closed st); injection Hs as <-.
    + eapply rel_trans; [|apply rel_complete]. apply rel_same; reflexivity.
    + apply rel_same; reflexivity.
  - left. destruct (nmem r (c_reserved st)); [|discriminate]. injection Hs as <-. apply rel_same; reflexivity.
  - left. destruct (nmem r (c_submitted st)); [discriminate|]. destruct (is_open st); [|discriminate].
    destruct (c_ka st); [discriminate|]. injection Hs as <-. apply rel_same; reflexivity.
  - left. destruct (is_open st); [|discriminate]. destruct (c_queue st) as [|x q]; [discriminate|]. destruct so as [s|].
    + destruct ((s <? 32768) && negb (nmem s (map fst (c_handlers st))) && negb (nmem s (c_orphans st))); [|discriminate].
      injection Hs as <-. apply rel_same; reflexivity.
    + destruct (32768 <=? N.of_nat (List.length (c_handlers st) + List.length (c_orphans st))); [|discriminate].
      injection Hs as <-. eapply rel_trans; [|apply rel_complete]. apply rel_same; reflexivity.
  - left. destruct (is_open st); injection Hs as <-; [|apply rel_same; reflexivity].
    change (rel st (drain (S (List.length (c_rbuf st ++ bs)))
                   (set_received (c_received st ++ bs) (set_rbuf (c_rbuf st ++ bs) st)))).
    apply (rel_trans _ (set_received (c_received st ++ bs) (set_rbuf (c_rbuf st ++ bs) st))); [|apply rel_drain].
    apply rel_same; reflexivity.
  - left. destruct (is_open st); [injection Hs as <-|discriminate]. apply rel_fault.
  - left. destruct (is_open st); [injection Hs as <-|discriminate]. apply rel_fault.
  - left. destruct (is_open st); [|discriminate]. destruct (c_ka st); [injection Hs as <-|discriminate]. apply rel_fault.
  - left. destruct (nmem r (c_submitted st) && negb (nmem r (map fst (c_done st))) && negb (nmem r (c_cancelled st))); [|discriminate].
    injection Hs as <-. apply rel_same; reflexivity.
  - left. destruct (is_open st); [|discriminate]. destruct (c_notices st) as [|x n]; [discriminate|].
    cbn [c_handlers set_notices c_orphans] in Hs. destruct (find_rid x (c_handlers st)); injection Hs as <-;
      apply rel_same; reflexivity.
  - destruct (c_status st) as [|e|e|e] eqn:Es; try discriminate.
    + left. destruct (c_handlers st) as [|[s x] h]; injection Hs as <-.
      * split; [reflexivity|]. right. split; intros e0 H; [rewrite Es in H|cbn in H]; discriminate.
      * eapply rel_trans; [|apply rel_complete]. apply rel_same; reflexivity.
    + destruct (c_queue st) as [|x q] eqn:Eq.
      * destruct (c_reserved st) eqn:Er; [injection Hs as <-|discriminate].
        right. split; [reflexivity|]. exists e. repeat split; reflexivity.
      * left. injection Hs as <-. eapply rel_trans; [|apply rel_complete]. apply rel_same; reflexivity.
Qed.

Definition es_ok (st : conn) : Prop := c_err_sent st = true <-> exists e, c_status st = Broken e.

Lemma es_rel st st' : es_ok st -> rel st st' -> es_ok st'.
Proof.
  intros [A B] [E [S|[N N']]]; unfold es_ok.
  - rewrite E, S. split; assumption.
  - split.
    + intros H. rewrite E in H. destruct (A H) as [e He]. exfalso. exact (N e He).
    + intros [e He]. exfalso. exact (N' e He).
Qed.

Lemma es_step st l st' : es_ok st -> step st l = Some st' -> es_ok st'.
Proof.
  intros H Hs. destruct (step_rel _ _ _ Hs) as [R|(_ & e & _ & _ & _ & Hb & He)].
  - eapply es_rel; eassumption.
  - split; [intros _; exists e; exact Hb|intros _; exact He].
Qed.

Lemma es_run ls : forall st st', es_ok st -> run st ls = Some st' -> es_ok st'.
Proof.
  induction ls as [|l r IH]; intros st st' H Hr; cbn [run] in Hr.
  - injection Hr as <-. exact H.
  - destruct (step st l) as [s1|] eqn:E; [|discriminate]. eapply IH; [|exact Hr]. eapply es_step; eassumption.
Qed.

Lemma err_sent_iff_broken ctl st : reachable ctl st ->
  (c_err_sent st = true <-> exists e, c_status st = Broken e).
Proof.
  intros [ls Hr]. apply (es_run ls (conn_init ctl)); [|exact Hr].
  split; [intros H; discriminate|intros [e H]; discriminate].
Qed.

Lemma err_sent_frame st l st' : step st l = Some st' ->
  (c_err_sent st' = c_err_sent st /\ forall e, c_status st' = Broken e -> c_status st = Broken e) \/
  (l = TdStep /\ exists e, c_status st = Draining e /\ c_queue st = [] /\ c_reserved st = [] /\
     c_status st' = Broken e /\ c_err_sent st' = true).
Proof.
  intros Hs. destruct (step_rel _ _ _ Hs) as [[E [S|[_ N']]]|H]; [left|left|right; exact H].
  - split; [exact E|]. intros e He. congruence.
  - split; [exact E|]. intros e He. exfalso. exact (N' e He).
Qed.

(* ---------- skipped_labels ---------- *)
(* completeness: a run of the model has no skipped label and the lenient replay is that run *)
Lemma run_skipped_zero ls : forall st st', run st ls = Some st' ->
  skipped_labels st ls = O /\ run_lenient st ls = st'.
Proof.
  induction ls as [|l r IH]; intros st st' Hr; cbn [run skipped_labels run_lenient] in *.
  - injection Hr as <-. split; reflexivity.
  - destruct (step st l) as [s1|]; [|discriminate]. apply IH. exact Hr.
Qed.

Lemma step_open_back st l st' : step st l = Some st' -> is_open st' = true -> is_open st = true.
Proof.
  intros Hs Ho. destruct (c_status st) as [|e|e|e] eqn:E; [unfold is_open; rewrite E; reflexivity| | |].
  all: assert (Hc : closing e st) by (unfold closing; rewrite E; auto).
  all: destruct (step_closing _ _ _ _ Hc Hs) as [Hc' _]; rewrite (closing_not_open _ _ Hc') in Ho; discriminate.
Qed.

Lemma lenient_open_back ls : forall st, is_open (run_lenient st ls) = true -> is_open st = true.
Proof.
  induction ls as [|l r IH]; intros st Ho; cbn [run_lenient] in Ho; [exact Ho|].
  destruct (step st l) as [s1|] eqn:E; [|apply IH; exact Ho].
  eapply step_open_back; [exact E|]. apply IH. exact Ho.
Qed.

(* soundness for a connection the replay leaves open: zero skipped labels = the trace IS a run *)
Lemma skipped_zero_open ls : forall st, skipped_labels st ls = O ->
  is_open (run_lenient st ls) = true -> ~ In KaTimeout ls -> run st ls = Some (run_lenient st ls).
Proof.
  induction ls as [|l r IH]; intros st Hz Ho Hk; cbn [run skipped_labels run_lenient] in *; [reflexivity|].
  destruct (step st l) as [s1|] eqn:E.
  - apply IH; [exact Hz|exact Ho|]. intros H. apply Hk. right. exact H.
  - exfalso. pose proof (lenient_open_back _ _ Ho) as Hst.
    destruct (tolerated_skip st l) eqn:Et; [|cbn in Hz; discriminate].
    destruct l; cbn [tolerated_skip] in Et; try discriminate.
    + rewrite Hst in Et. discriminate.
    + rewrite Hst in Et. discriminate.
    + apply Hk. left. reflexivity.
Qed.

(* in general: the replay's result is reached by exactly the sub-schedule of the labels that were enabled *)
Fixpoint taken (st : conn) (ls : list label) : list label :=
  match ls with
  | [] => []
  | l :: r => match step st l with Some st' => l :: taken st' r | None => taken st r end
  end.

Lemma lenient_taken ls : forall st, run st (taken st ls) = Some (run_lenient st ls).
Proof.
  induction ls as [|l r IH]; intros st; cbn [taken run_lenient]; [reflexivity|].
  destruct (step st l) as [s1|] eqn:E; [cbn [run]; rewrite E|]; apply IH.
Qed.

(* ---------- pool_accept, declaratively on the recorded events ---------- *)
Lemma pool_labels_get x : forall l u, In (EvGet x) l -> In (PGet x) (pool_labels u l).
Proof.
  induction l as [|e l IH]; intros u Hin; [destruct Hin|].
  destruct Hin as [->|Hin]; [cbn [pool_labels]; left; reflexivity|].
  destruct e as [d|d|d]; cbn [pool_labels].
  - apply in_or_app. right. right. apply IH. exact Hin.
  - right. apply IH. exact Hin.
  - right. apply IH. exact Hin.
Qed.

Lemma pool_labels_prefix rest : forall l1 u, exists X u', pool_labels u (l1 ++ rest) = X ++ pool_labels u' rest.
Proof.
  induction l1 as [|e l1 IH]; intros u; [exists [], u; reflexivity|].
  destruct e as [d|d|d]; cbn [pool_labels app].
  - destruct (IH []) as (X & u' & E). exists (map PProcess u ++ PAdd d :: X), u'. rewrite E, <- app_assoc. reflexivity.
  - destruct (IH u) as (X & u' & E). exists (PGet d :: X), u'. rewrite E. reflexivity.
  - destruct (IH (u ++ [d])) as (X & u' & E). exists (PBreak d :: X), u'. rewrite E. reflexivity.
Qed.

Lemma pool_labels_process c c' l3 : forall l2 u, In c u ->
  exists L1 L2, pool_labels u (l2 ++ EvAdd c' :: l3) = L1 ++ PProcess c :: L2 /\
    forall x, In (EvGet x) l3 -> In (PGet x) L2.
Proof.
  assert (Hadd : forall u d rest, In c u -> (forall x, In (EvGet x) l3 -> In (EvGet x) rest) ->
            exists L1 L2, map PProcess u ++ PAdd d :: pool_labels [] rest = L1 ++ PProcess c :: L2 /\
              forall x, In (EvGet x) l3 -> In (PGet x) L2).
  { intros u d rest Hin Hsub. destruct (in_split _ _ Hin) as (u1 & u2 & ->).
    exists (map PProcess u1), (map PProcess u2 ++ PAdd d :: pool_labels [] rest).
    split; [rewrite map_app, <- app_assoc; reflexivity|].
    intros x Hx. apply in_or_app. right. right. apply pool_labels_get. apply Hsub. exact Hx. }
  induction l2 as [|e l2 IH]; intros u Hin; cbn [app].
  - cbn [pool_labels]. apply Hadd; [exact Hin|tauto].
  - destruct e as [d|d|d]; cbn [pool_labels].
    + apply Hadd; [exact Hin|]. intros x Hx. apply in_or_app. right. right. exact Hx.
    + destruct (IH u Hin) as (L1 & L2 & E & H). exists (PGet d :: L1), L2. rewrite E. split; [reflexivity|exact H].
    + destruct (IH (u ++ [d])) as (L1 & L2 & E & H); [apply in_or_app; left; exact Hin|].
      exists (PBreak d :: L1), L2. rewrite E. split; [reflexivity|exact H].
Qed.

(* accepted pool events: once a replacement connection has appeared after connection c broke, no request
   arrives on c any more *)
Lemma pool_accept_sound es : pool_accept es = true ->
  forall l1 c l2 c' l3, es = l1 ++ EvBreak c :: l2 ++ EvAdd c' :: l3 -> ~ In (EvGet c) l3.
Proof.
  unfold pool_accept. intros Ha l1 c l2 c' l3 -> Hget.
  destruct (prun pool_init (pool_labels [] (l1 ++ EvBreak c :: l2 ++ EvAdd c' :: l3))) as [p|] eqn:Ep; [|discriminate].
  destruct (pool_labels_prefix (EvBreak c :: l2 ++ EvAdd c' :: l3) l1 []) as (X & u' & E).
  cbn [pool_labels] in E.
  destruct (pool_labels_process c c' l3 l2 (u' ++ [c])) as (L1 & L2 & E2 & H); [apply in_or_app; right; left; reflexivity|].
  rewrite E2 in E. rewrite E in Ep.
  replace (X ++ PBreak c :: L1 ++ PProcess c :: L2) with ((X ++ PBreak c :: L1) ++ PProcess c :: L2) in Ep
    by (rewrite <- app_assoc; reflexivity).
  exact (pool_no_get_after_process _ _ _ _ Ep (H c Hget)).
Qed.
