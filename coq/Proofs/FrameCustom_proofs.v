(* The custom-type string parser (Model/FrameCustom.v): its recursion depth never exceeds
   MAX_CUSTOM_TYPE_NESTING_DEPTH = 128 (the ghost [cs_maxd] of the model). *)
From SV Require Import Base.Prelude Base.Bytes Model.FrameBase Model.FrameTypes Model.FrameResp
  Model.FrameCustom.
From Coq Require Import Ascii String.
Open Scope N_scope.

Definition mx (st : cst) : Prop := cs_maxd st <= MAX_CUSTOM_TYPE_NESTING_DEPTH.
(* a state transformer that may call the element parser keeps the invariant *)
Definition pres {A} (f : cp A) : Prop := forall st, mx st -> mx (snd (f st)).

Lemma mx_set_s st s : mx (set_s st s) <-> mx st.
Proof. reflexivity. Qed.
Lemma mx_set_frozen st f : mx (set_frozen st f) <-> mx st.
Proof. reflexivity. Qed.
Lemma mx_skip_blank st : mx (skip_blank st) <-> mx st.
Proof. reflexivity. Qed.
Lemma mx_accept c st st' : accept c st = Some st' -> (mx st' <-> mx st).
Proof.
  unfold accept. destruct (cs_s st) as [|x r]; [discriminate|]. destruct (x =? c); [|discriminate].
  intros H. inversion H; subst. reflexivity.
Qed.
Lemma mx_skip_bc st : mx (skip_blank_and_comma st) <-> mx st.
Proof.
  unfold skip_blank_and_comma. destruct (accept 44 (skip_blank st)) as [st2|] eqn:E; [|reflexivity].
  rewrite mx_skip_blank. rewrite (mx_accept _ _ _ E). reflexivity.
Qed.
Lemma mx_read_ident st : mx (snd (read_ident st)) <-> mx st.
Proof. unfold read_ident. destruct (take_while is_ident (cs_s st)). reflexivity. Qed.
Lemma mx_parse_u16 st n st' : parse_u16 st = Some (n, st') -> (mx st' <-> mx st).
Proof.
  unfold parse_u16. destruct (take_while is_digit (cs_s st)) as [d rest]. destruct d; [discriminate|].
  destruct (dec_value (n0 :: d) <? 65536); [|discriminate]. intros H. inversion H; subst. reflexivity.
Qed.

Section Elem.
Variable elem : cp coltype.
Hypothesis Helem : pres elem.

Lemma pres_next_item fin st : mx st -> mx (snd (next_item elem fin st)).
Proof.
  intros H. unfold next_item. destruct fin; [exact H|].
  destruct (at_eof (skip_blank_and_comma st)); [cbn; apply mx_skip_bc; exact H|].
  destruct (accept RPAR (skip_blank_and_comma st)) as [st2|] eqn:E.
  - cbn. apply (mx_accept _ _ _ E), mx_skip_bc. exact H.
  - pose proof (Helem (skip_blank_and_comma st) (proj2 (mx_skip_bc st) H)) as H2.
    destruct (elem (skip_blank_and_comma st)) as [r st2]. exact H2.
Qed.

Lemma pres_take_k k : forall fin st, mx st -> mx (snd (take_k k elem fin st)).
Proof.
  induction k as [|k IH]; intros fin st H; cbn [take_k]; [exact H|].
  pose proof (pres_next_item fin st H) as H1. destruct (next_item elem fin st) as [[[x|] fin1] st1]; cbn [snd] in *.
  - specialize (IH fin1 st1 H1). destruct (take_k k elem fin1 st1) as [[l fin2] st2]. exact IH.
  - exact H1.
Qed.

Lemma pres_count_rest lf : forall fin st, mx st -> mx (snd (count_rest lf elem fin st)).
Proof.
  induction lf as [|f IH]; intros fin st H; cbn [count_rest]; [exact H|].
  pose proof (pres_next_item fin st H) as H1. destruct (next_item elem fin st) as [[[x|] fin1] st1]; cbn [snd] in *.
  - specialize (IH fin1 st1 H1). destruct (count_rest f elem fin1 st1) as [[n|] st2]; exact IH.
  - exact H1.
Qed.

Lemma pres_get_n n : pres (get_n n elem).
Proof.
  intros st H. unfold get_n. destruct (at_eof st); [exact H|].
  destruct (accept LPAR st) as [st1|] eqn:E; [|exact H].
  pose proof (proj2 (mx_accept _ _ _ E) H) as H1.
  pose proof (pres_take_k n false st1 H1) as H2. destruct (take_k n elem false st1) as [[items fin] st2]. cbn [snd] in H2.
  pose proof (pres_count_rest (loop_fuel st2) fin st2 H2) as H3.
  destruct (count_rest (loop_fuel st2) elem fin st2) as [[extra|] st3]; cbn [snd] in *; [|exact H3].
  destruct (lenN items + extra =? N.of_nat n); exact H3.
Qed.

Lemma pres_collect_all lf : forall fin st, mx st -> mx (snd (collect_all lf elem fin st)).
Proof.
  induction lf as [|f IH]; intros fin st H; cbn [collect_all]; [exact H|].
  pose proof (pres_next_item fin st H) as H1. destruct (next_item elem fin st) as [[[[t|e]|] fin1] st1]; cbn [snd] in *.
  - specialize (IH fin1 st1 H1). destruct (collect_all f elem fin1 st1) as [[l|e] st2]; exact IH.
  - exact H1.
  - exact H1.
Qed.

Lemma pres_tuple_params : pres (tuple_params elem).
Proof.
  intros st H. unfold tuple_params. destruct (at_eof st); [exact H|].
  destruct (accept LPAR st) as [st1|] eqn:E; [|exact H].
  pose proof (proj2 (mx_accept _ _ _ E) H) as H1.
  pose proof (pres_collect_all (loop_fuel st1) false st1 H1) as H2.
  destruct (collect_all (loop_fuel st1) elem false st1) as [[[|t l]|e] st2]; exact H2.
Qed.

Lemma pres_vector_params : pres (vector_params elem).
Proof.
  intros st H. unfold vector_params. destruct (accept LPAR st) as [st1|] eqn:E; [|exact H].
  pose proof (proj2 (mx_accept _ _ _ E) H) as H1.
  pose proof (proj2 (mx_skip_bc st1) H1) as H2.
  destruct (accept RPAR (skip_blank_and_comma st1)); [exact H2|].
  pose proof (Helem _ H2) as H3. destruct (elem (skip_blank_and_comma st1)) as [[t|e] st3]; cbn [snd] in *; [|exact H3].
  pose proof (proj2 (mx_skip_bc st3) H3) as H4.
  destruct (parse_u16 (skip_blank_and_comma st3)) as [[n st5]|] eqn:E5; [|exact H4].
  pose proof (proj2 (mx_parse_u16 _ _ _ E5) H4) as H5.
  destruct (accept RPAR st5) as [st6|] eqn:E6; [|exact H5]. exact (proj2 (mx_accept _ _ _ E6) H5).
Qed.

Lemma pres_udt_fields lf : forall st, mx st -> mx (snd (udt_fields lf elem st)).
Proof.
  induction lf as [|f IH]; intros st H; cbn [udt_fields]; [exact H|].
  pose proof (proj2 (mx_skip_bc st) H) as H1.
  destruct (at_eof (skip_blank_and_comma st)); [exact H1|].
  destruct (accept RPAR (skip_blank_and_comma st)) as [st2|] eqn:E2; [exact (proj2 (mx_accept _ _ _ E2) H1)|].
  pose proof (proj2 (mx_read_ident (skip_blank_and_comma st)) H1) as H2.
  destruct (read_ident (skip_blank_and_comma st)) as [id st2]. cbn [snd] in H2.
  destruct (from_hex id) as [nm|]; [|exact H2].
  destruct (negb (utf8_valid nm)); [exact H2|].
  destruct (accept COLON st2) as [st3|] eqn:E3; [|exact H2].
  pose proof (proj2 (mx_accept _ _ _ E3) H2) as H3.
  pose proof (Helem _ H3) as H4. destruct (elem st3) as [[t|e] st4]; cbn [snd] in *; [|exact H4].
  specialize (IH st4 H4). destruct (udt_fields f elem st4) as [[l|e] st5]; exact IH.
Qed.

Lemma pres_udt_params : pres (udt_params elem).
Proof.
  intros st H. unfold udt_params. destruct (accept LPAR st) as [st1|] eqn:E; [|exact H].
  pose proof (proj2 (mx_accept _ _ _ E) H) as H1.
  pose proof (proj2 (mx_skip_bc st1) H1) as H2.
  pose proof (proj2 (mx_read_ident _) H2) as H3.
  destruct (read_ident (skip_blank_and_comma st1)) as [ks st3]. cbn [snd] in H3.
  pose proof (proj2 (mx_skip_bc st3) H3) as H4.
  pose proof (proj2 (mx_read_ident _) H4) as H5.
  destruct (read_ident (skip_blank_and_comma st3)) as [hx st5]. cbn [snd] in H5.
  destruct (from_hex hx) as [nm|]; [|exact H5].
  destruct (negb (utf8_valid nm)); [exact H5|].
  pose proof (pres_udt_fields (loop_fuel st5) st5 H5) as H6.
  destruct (udt_fields (loop_fuel st5) elem st5) as [[fs|e] st6]; exact H6.
Qed.

Lemma pres_complex_type name : pres (complex_type elem name).
Proof.
  intros st H. unfold complex_type.
  destruct (is_str (strip_marshal name) "ListType"%string || is_str (strip_marshal name) "SetType"%string).
  { pose proof (pres_get_n 1 st H) as H1. destruct (get_n 1 elem st) as [[[|[t|e] [|? ?]]|e] st1]; exact H1. }
  destruct (is_str (strip_marshal name) "MapType"%string).
  { pose proof (pres_get_n 2 st H) as H1.
    destruct (get_n 2 elem st) as [[[|[k|e] [|[v|e2] [|? ?]]]|e] st1]; exact H1. }
  destruct (is_str (strip_marshal name) "TupleType"%string).
  { pose proof (pres_tuple_params st H) as H1. destruct (tuple_params elem st) as [[l|e] st1]; exact H1. }
  destruct (is_str (strip_marshal name) "VectorType"%string).
  { pose proof (pres_vector_params st H) as H1. destruct (vector_params elem st) as [[[t d]|e] st1]; exact H1. }
  destruct (is_str (strip_marshal name) "UserType"%string).
  { pose proof (pres_udt_params st H) as H1. destruct (udt_params elem st) as [[[[ks nm] fs]|e] st1]; exact H1. }
  destruct (is_str (strip_marshal name) "FrozenType"%string); [|exact H].
  pose proof (pres_get_n 1 (set_frozen st true) H) as H1.
  destruct (get_n 1 elem (set_frozen st true)) as [[[|r [|? ?]]|e] st1]; exact H1.
Qed.

Lemma pres_do_parse_nested : pres (do_parse_nested elem).
Proof.
  intros st H. unfold do_parse_nested.
  pose proof (proj2 (mx_read_ident (skip_blank st)) H) as H2.
  destruct (read_ident (skip_blank st)) as [name st2]. cbn [snd] in H2.
  destruct name as [|c name]; [destruct (at_eof st2); exact H2|].
  assert (G : forall nm st3, mx st3 ->
            mx (snd (match accept LPAR (skip_blank st3) with
                     | Some _ => complex_type elem nm (skip_blank st3)
                     | None => match simple_type nm with
                               | Some nt => (Ok (TNative nt), skip_blank st3)
                               | None => (Err ECtUnknownSimple, skip_blank st3)
                               end
                     end))).
  { intros nm st3 H3. destruct (accept LPAR (skip_blank st3)); [apply pres_complex_type; exact H3|].
    destruct (simple_type nm); exact H3. }
  destruct (accept COLON st2) as [st3|] eqn:E3.
  - pose proof (proj2 (mx_accept _ _ _ E3) H2) as H3.
    destruct (usize_hex_ok (c :: name)); [|exact H3].
    pose proof (proj2 (mx_read_ident st3) H3) as H4. destruct (read_ident st3) as [name2 st4]. apply G. exact H4.
  - apply G. exact H2.
Qed.
End Elem.

Lemma pres_do_parse : forall fuel, pres (do_parse fuel).
Proof.
  induction fuel as [|f IH]; intros st H; cbn [do_parse]; [exact H|].
  destruct (MAX_CUSTOM_TYPE_NESTING_DEPTH <=? cs_depth st) eqn:E; [exact H|]. apply N.leb_gt in E.
  set (st1 := mkCst (cs_s st) (cs_frozen st) (cs_depth st + 1) (N.max (cs_maxd st) (cs_depth st + 1))).
  assert (H1 : mx st1) by (unfold mx in *; cbn; lia).
  pose proof (pres_do_parse_nested (do_parse f) IH st1 H1) as H2.
  destruct (do_parse_nested (do_parse f) st1) as [r st2]. exact H2.
Qed.

Lemma parse_custom_depth s : snd (parse_custom s) <= MAX_CUSTOM_TYPE_NESTING_DEPTH.
Proof.
  unfold parse_custom. destruct (forallb (fun c => c <? 128) s); [|cbn; unfold MAX_CUSTOM_TYPE_NESTING_DEPTH; lia].
  pose proof (pres_do_parse CUSTOM_FUEL (mkCst s false 0 0)) as H.
  destruct (do_parse CUSTOM_FUEL (mkCst s false 0 0)) as [r st]. apply H.
  unfold mx, MAX_CUSTOM_TYPE_NESTING_DEPTH. cbn. lia.
Qed.

(* ---- fuel: the parameter loops and the recursion of the custom-type parser never run out ------- *)
Definition slen (st : cst) : nat := List.length (cs_s st).
(* st' comes after st: same nesting level, no more input than before *)
Definition fine (st st' : cst) : Prop := cs_depth st' = cs_depth st /\ (slen st' <= slen st)%nat.
Lemma fine_refl st : fine st st. Proof. split; [reflexivity|lia]. Qed.
Lemma fine_trans a b c : fine a b -> fine b c -> fine a c.
Proof. intros [D1 L1] [D2 L2]. split; [congruence|lia]. Qed.

Lemma take_while_len p s : (List.length (snd (take_while p s)) <= List.length s)%nat.
Proof.
  induction s as [|c r IH]; cbn [take_while]; [cbn; lia|]. destruct (p c); [|cbn; lia].
  destruct (take_while p r) as [a b]. cbn [snd Datatypes.length] in *. lia.
Qed.
Lemma fine_set_s st s : (List.length s <= slen st)%nat -> fine st (set_s st s).
Proof. intros H. split; [reflexivity|exact H]. Qed.
Lemma fine_skip_blank st : fine st (skip_blank st).
Proof. apply fine_set_s. apply take_while_len. Qed.
Lemma fine_accept c st st' : accept c st = Some st' -> fine st st' /\ (slen st' < slen st)%nat.
Proof.
  unfold accept, fine, slen. destruct (cs_s st) as [|x r] eqn:E; [discriminate|]. destruct (x =? c); [|discriminate].
  intros H. inversion H; subst. cbn [set_s cs_s cs_depth Datatypes.length]. repeat split; lia.
Qed.
Lemma fine_skip_bc st : fine st (skip_blank_and_comma st).
Proof.
  unfold skip_blank_and_comma. destruct (accept 44 (skip_blank st)) as [st2|] eqn:E; [|apply fine_skip_blank].
  apply fine_accept in E as [F _].
  eapply fine_trans; [apply fine_skip_blank|]. eapply fine_trans; [exact F|apply fine_skip_blank].
Qed.
Lemma fine_read_ident st : fine st (snd (read_ident st)).
Proof.
  unfold read_ident. pose proof (take_while_len is_ident (cs_s st)) as L.
  destruct (take_while is_ident (cs_s st)) as [a b]. cbn [snd] in *. apply fine_set_s. exact L.
Qed.
Lemma read_ident_nonempty st : fst (read_ident st) <> [] -> (slen (snd (read_ident st)) < slen st)%nat.
Proof.
  unfold read_ident, slen. destruct (cs_s st) as [|c r] eqn:E; cbn [take_while]; [cbn; congruence|].
  destruct (is_ident c); [|cbn; congruence].
  pose proof (take_while_len is_ident r) as L. destruct (take_while is_ident r) as [a b]. cbn in *. lia.
Qed.
Lemma fine_parse_u16 st n st' : parse_u16 st = Some (n, st') -> fine st st'.
Proof.
  unfold parse_u16. pose proof (take_while_len is_digit (cs_s st)) as L.
  destruct (take_while is_digit (cs_s st)) as [d rest]. destruct d; [discriminate|].
  destruct (dec_value (n0 :: d) <? 65536); [|discriminate]. intros H. inversion H; subst. apply fine_set_s. exact L.
Qed.
Lemma at_eof_slen st : at_eof st = false -> cs_s st <> [].
Proof. unfold at_eof. destruct (cs_s st); [discriminate|discriminate]. Qed.

Definition noof_c {A} (x : result ferr A * cst) : Prop := fst x <> Err EOutOfFuel.

Section ElemFuel.
Variable elem : cp coltype.
Variable D : N.
(* the element parser, called at nesting level D: never out of fuel, returns to the same level,
   does not lengthen the input, and consumes input when it succeeds on a non-empty string *)
Hypothesis Helem : forall st, cs_depth st = D ->
  noof_c (elem st) /\ fine st (snd (elem st)) /\
  (forall t, fst (elem st) = Ok t -> cs_s st <> [] -> (slen (snd (elem st)) < slen st)%nat).

Lemma next_item_facts fin st : cs_depth st = D ->
  let '(it, fin', st') := next_item elem fin st in
  fine st st' /\
  match it with
  | Some r => r <> Err EOutOfFuel /\ fin = false /\ (fin' = false -> (slen st' < slen st)%nat)
  | None => fin' = true
  end.
Proof.
  intros HD. unfold next_item. destruct fin; [split; [apply fine_refl|reflexivity]|].
  pose proof (fine_skip_bc st) as F1.
  destruct (at_eof (skip_blank_and_comma st)) eqn:Ee; [split; [exact F1|repeat split; discriminate]|].
  destruct (accept RPAR (skip_blank_and_comma st)) as [st2|] eqn:E.
  - apply fine_accept in E as [F2 _]. split; [eapply fine_trans; eassumption|reflexivity].
  - destruct (Helem (skip_blank_and_comma st)) as (N1 & F2 & P); [destruct F1; congruence|].
    destruct (elem (skip_blank_and_comma st)) as [r st2] eqn:Ee2. cbn [fst snd] in *.
    split; [eapply fine_trans; eassumption|]. split; [exact N1|]. split; [reflexivity|].
    intros Hf. destruct r as [t|e]; [|discriminate].
    specialize (P t eq_refl (at_eof_slen _ Ee)). destruct F1 as [_ L1]. lia.
Qed.

Lemma take_k_facts k : forall fin st, cs_depth st = D ->
  let '(items, fin', st') := take_k k elem fin st in
  fine st st' /\ Forall (fun r => r <> Err EOutOfFuel) items /\ (List.length items <= k)%nat /\
  ((List.length items < k)%nat -> fin' = true).
Proof.
  induction k as [|k IH]; intros fin st HD; cbn [take_k];
    [split; [apply fine_refl|split; [constructor|split; [cbn; lia|cbn; lia]]]|].
  pose proof (next_item_facts fin st HD) as NI.
  destruct (next_item elem fin st) as [[[x|] fin1] st1]; destruct NI as (F1 & R).
  - specialize (IH fin1 st1 ltac:(destruct F1; congruence)).
    destruct (take_k k elem fin1 st1) as [[l fin2] st2]. destruct IH as (F2 & A & B & C).
    split; [eapply fine_trans; eassumption|]. split; [constructor; [apply R|exact A]|].
    cbn [Datatypes.length]. split; [lia|]. intros H. apply C. lia.
  - split; [exact F1|]. split; [constructor|]. split; [cbn; lia|]. intros _. exact R.
Qed.

Lemma count_rest_facts lf : forall fin st, cs_depth st = D ->
  ((fin = true /\ (1 <= lf)%nat) \/ (slen st + 2 <= lf)%nat) ->
  let '(r, st') := count_rest lf elem fin st in r <> None /\ fine st st' /\ (fin = true -> r = Some 0).
Proof.
  induction lf as [|f IH]; intros fin st HD HF; [lia|]. cbn [count_rest].
  pose proof (next_item_facts fin st HD) as NI.
  destruct (next_item elem fin st) as [[[x|] fin1] st1]; destruct NI as (F1 & R).
  - destruct R as (_ & Hfin & P). subst fin.
    specialize (IH fin1 st1 ltac:(destruct F1; congruence)).
    assert (HF' : (fin1 = true /\ (1 <= f)%nat) \/ (slen st1 + 2 <= f)%nat).
    { destruct HF as [[X _]|HF]; [discriminate|]. destruct fin1; [left; split; [reflexivity|lia]|].
      right. specialize (P eq_refl). lia. }
    specialize (IH HF'). destruct (count_rest f elem fin1 st1) as [[n|] st2]; destruct IH as (A & B & _).
    + split; [discriminate|split; [eapply fine_trans; eassumption|discriminate]].
    + congruence.
  - split; [discriminate|split; [exact F1|reflexivity]].
Qed.

Lemma get_n_facts n st : cs_depth st = D ->
  let '(r, st') := get_n n elem st in
  fine st st' /\
  match r with
  | Ok items => List.length items = n /\ Forall (fun r => r <> Err EOutOfFuel) items
  | Err e => e <> EOutOfFuel
  end.
Proof.
  intros HD. unfold get_n. destruct (at_eof st); [split; [apply fine_refl|discriminate]|].
  destruct (accept LPAR st) as [st1|] eqn:E; [|split; [apply fine_refl|discriminate]].
  apply fine_accept in E as [F1 L1].
  pose proof (take_k_facts n false st1 ltac:(destruct F1; congruence)) as TK.
  destruct (take_k n elem false st1) as [[items fin] st2]. destruct TK as (F2 & A & B & C).
  pose proof (count_rest_facts (loop_fuel st2) fin st2 ltac:(destruct F1, F2; congruence)
                               ltac:(right; unfold loop_fuel, slen; lia)) as CR.
  destruct (count_rest (loop_fuel st2) elem fin st2) as [[extra|] st3]; destruct CR as (NN & F3 & Z); [|congruence].
  assert (F : fine st st3) by (eapply fine_trans; [exact F1|eapply fine_trans; eassumption]).
  destruct (lenN items + extra =? N.of_nat n) eqn:Eq; (split; [exact F|]); [|discriminate].
  apply N.eqb_eq in Eq. unfold lenN in Eq. split; [|exact A].
  destruct (Nat.eq_dec (Datatypes.length items) n) as [E1|E1]; [exact E1|].
  specialize (Z (C ltac:(lia))). inversion Z; subst. lia.
Qed.

Lemma collect_all_facts lf : forall fin st, cs_depth st = D ->
  ((fin = true /\ (1 <= lf)%nat) \/ (slen st + 2 <= lf)%nat) ->
  noof_c (collect_all lf elem fin st) /\ fine st (snd (collect_all lf elem fin st)).
Proof.
  induction lf as [|f IH]; intros fin st HD HF; [lia|]. cbn [collect_all].
  pose proof (next_item_facts fin st HD) as NI.
  destruct (next_item elem fin st) as [[[[t|e]|] fin1] st1]; destruct NI as (F1 & R).
  - destruct R as (_ & Hfin & P). subst fin.
    specialize (IH fin1 st1 ltac:(destruct F1; congruence)).
    assert (HF' : (fin1 = true /\ (1 <= f)%nat) \/ (slen st1 + 2 <= f)%nat).
    { destruct HF as [[X _]|HF]; [discriminate|]. destruct fin1; [left; split; [reflexivity|lia]|].
      right. specialize (P eq_refl). lia. }
    specialize (IH HF'). unfold noof_c in *. destruct (collect_all f elem fin1 st1) as [[l|e] st2]; cbn [fst snd] in *;
      destruct IH as [A B]; (split; [congruence || discriminate|eapply fine_trans; eassumption]).
  - destruct R as (Ne & _). unfold noof_c. cbn [fst snd]. split; [congruence|exact F1].
  - unfold noof_c. cbn [fst snd]. split; [discriminate|exact F1].
Qed.

Lemma tuple_params_facts st : cs_depth st = D ->
  noof_c (tuple_params elem st) /\ fine st (snd (tuple_params elem st)).
Proof.
  intros HD. unfold tuple_params, noof_c. destruct (at_eof st); [split; [discriminate|apply fine_refl]|].
  destruct (accept LPAR st) as [st1|] eqn:E; [|split; [discriminate|apply fine_refl]].
  apply fine_accept in E as [F1 L1].
  pose proof (collect_all_facts (loop_fuel st1) false st1 ltac:(destruct F1; congruence)
                                ltac:(right; unfold loop_fuel, slen; lia)) as [A B].
  unfold noof_c in A. destruct (collect_all (loop_fuel st1) elem false st1) as [[[|t l]|e] st2]; cbn [fst snd] in *;
    (split; [congruence || discriminate|eapply fine_trans; eassumption]).
Qed.

Lemma vector_params_facts st : cs_depth st = D ->
  noof_c (vector_params elem st) /\ fine st (snd (vector_params elem st)).
Proof.
  intros HD. unfold vector_params, noof_c. destruct (accept LPAR st) as [st1|] eqn:E; [|split; [discriminate|apply fine_refl]].
  apply fine_accept in E as [F1 _]. pose proof (fine_skip_bc st1) as F2.
  assert (F12 : fine st (skip_blank_and_comma st1)) by (eapply fine_trans; eassumption).
  destruct (accept RPAR (skip_blank_and_comma st1)); [split; [discriminate|exact F12]|].
  destruct (Helem (skip_blank_and_comma st1)) as (N1 & F3 & _); [destruct F12; congruence|].
  unfold noof_c in N1. destruct (elem (skip_blank_and_comma st1)) as [[t|e] st3]; cbn [fst snd] in *.
  2:{ split; [congruence|eapply fine_trans; eassumption]. }
  assert (F13 : fine st st3) by (eapply fine_trans; eassumption).
  pose proof (fine_skip_bc st3) as F4. assert (F14 : fine st (skip_blank_and_comma st3)) by (eapply fine_trans; eassumption).
  destruct (parse_u16 (skip_blank_and_comma st3)) as [[n st5]|] eqn:E5; [|split; [discriminate|exact F14]].
  apply fine_parse_u16 in E5. assert (F15 : fine st st5) by (eapply fine_trans; eassumption).
  destruct (accept RPAR st5) as [st6|] eqn:E6; [|split; [discriminate|exact F15]].
  apply fine_accept in E6 as [F6 _]. split; [discriminate|eapply fine_trans; eassumption].
Qed.

Lemma udt_fields_facts lf : forall st, cs_depth st = D -> (slen st + 1 <= lf)%nat ->
  noof_c (udt_fields lf elem st) /\ fine st (snd (udt_fields lf elem st)).
Proof.
  induction lf as [|f IH]; intros st HD HF; [lia|]. cbn [udt_fields]. unfold noof_c.
  pose proof (fine_skip_bc st) as F1.
  destruct (at_eof (skip_blank_and_comma st)); [split; [discriminate|exact F1]|].
  destruct (accept RPAR (skip_blank_and_comma st)) as [st2|] eqn:E2.
  { apply fine_accept in E2 as [F2 _]. split; [discriminate|eapply fine_trans; eassumption]. }
  pose proof (fine_read_ident (skip_blank_and_comma st)) as F2.
  destruct (read_ident (skip_blank_and_comma st)) as [id st2]. cbn [snd] in F2.
  assert (F12 : fine st st2) by (eapply fine_trans; eassumption).
  destruct (from_hex id) as [nm|]; [|split; [discriminate|exact F12]].
  destruct (negb (utf8_valid nm)); [split; [discriminate|exact F12]|].
  destruct (accept COLON st2) as [st3|] eqn:E3; [|split; [discriminate|exact F12]].
  apply fine_accept in E3 as [F3 L3]. assert (F13 : fine st st3) by (eapply fine_trans; eassumption).
  destruct (Helem st3) as (N1 & F4 & _); [destruct F13; congruence|].
  unfold noof_c in N1. destruct (elem st3) as [[t|e] st4]; cbn [fst snd] in *.
  2:{ split; [congruence|eapply fine_trans; eassumption]. }
  assert (F14 : fine st st4) by (eapply fine_trans; eassumption).
  specialize (IH st4 ltac:(destruct F14; congruence) ltac:(destruct F12, F4; lia)). unfold noof_c in IH.
  destruct (udt_fields f elem st4) as [[l|e] st5]; cbn [fst snd] in *; destruct IH as [A B];
    (split; [congruence || discriminate|eapply fine_trans; eassumption]).
Qed.

Lemma udt_params_facts st : cs_depth st = D ->
  noof_c (udt_params elem st) /\ fine st (snd (udt_params elem st)).
Proof.
  intros HD. unfold udt_params, noof_c. destruct (accept LPAR st) as [st1|] eqn:E; [|split; [discriminate|apply fine_refl]].
  apply fine_accept in E as [F1 _]. pose proof (fine_skip_bc st1) as F2.
  pose proof (fine_read_ident (skip_blank_and_comma st1)) as F3.
  destruct (read_ident (skip_blank_and_comma st1)) as [ks st3]. cbn [snd] in F3.
  pose proof (fine_skip_bc st3) as F4.
  pose proof (fine_read_ident (skip_blank_and_comma st3)) as F5.
  destruct (read_ident (skip_blank_and_comma st3)) as [hx st5]. cbn [snd] in F5.
  assert (F15 : fine st st5).
  { eapply fine_trans; [exact F1|]. eapply fine_trans; [exact F2|]. eapply fine_trans; [exact F3|].
    eapply fine_trans; eassumption. }
  destruct (from_hex hx) as [nm|]; [|split; [discriminate|exact F15]].
  destruct (negb (utf8_valid nm)); [split; [discriminate|exact F15]|].
  pose proof (udt_fields_facts (loop_fuel st5) st5 ltac:(destruct F15; congruence) ltac:(unfold loop_fuel, slen; lia)) as [A B].
  unfold noof_c in A. destruct (udt_fields (loop_fuel st5) elem st5) as [[fs|e] st6]; cbn [fst snd] in *;
    (split; [congruence || discriminate|eapply fine_trans; eassumption]).
Qed.

Lemma complex_type_facts name st : cs_depth st = D ->
  noof_c (complex_type elem name st) /\ fine st (snd (complex_type elem name st)).
Proof.
  intros HD. unfold complex_type, noof_c.
  destruct (is_str (strip_marshal name) "ListType"%string || is_str (strip_marshal name) "SetType"%string).
  { pose proof (get_n_facts 1 st HD) as G. destruct (get_n 1 elem st) as [[items|e] st1]; destruct G as [F G]; cbn [fst snd].
    - destruct G as [L A]. destruct items as [|x [|y l]]; try (cbn in L; lia).
      inversion A as [|? ? Ax _]; subst. destruct x as [t|e]; cbn [fst snd]; (split; [congruence || discriminate|exact F]).
    - split; [congruence|exact F]. }
  destruct (is_str (strip_marshal name) "MapType"%string).
  { pose proof (get_n_facts 2 st HD) as G. destruct (get_n 2 elem st) as [[items|e] st1]; destruct G as [F G]; cbn [fst snd].
    - destruct G as [L A]. destruct items as [|x [|y [|z l]]]; try (cbn in L; lia).
      inversion A as [|? ? Ax A2]; subst. inversion A2 as [|? ? Ay _]; subst.
      destruct x as [k|e]; [destruct y as [v|e]|]; cbn [fst snd]; (split; [congruence || discriminate|exact F]).
    - split; [congruence|exact F]. }
  destruct (is_str (strip_marshal name) "TupleType"%string).
  { pose proof (tuple_params_facts st HD) as [A B]. unfold noof_c in A.
    destruct (tuple_params elem st) as [[l|e] st1]; cbn [fst snd] in *; (split; [congruence || discriminate|exact B]). }
  destruct (is_str (strip_marshal name) "VectorType"%string).
  { pose proof (vector_params_facts st HD) as [A B]. unfold noof_c in A.
    destruct (vector_params elem st) as [[[t d]|e] st1]; cbn [fst snd] in *; (split; [congruence || discriminate|exact B]). }
  destruct (is_str (strip_marshal name) "UserType"%string).
  { pose proof (udt_params_facts st HD) as [A B]. unfold noof_c in A.
    destruct (udt_params elem st) as [[[[ks nm] fs]|e] st1]; cbn [fst snd] in *; (split; [congruence || discriminate|exact B]). }
  destruct (is_str (strip_marshal name) "FrozenType"%string); [|split; [discriminate|apply fine_refl]].
  pose proof (get_n_facts 1 (set_frozen st true) HD) as G.
  destruct (get_n 1 elem (set_frozen st true)) as [[items|e] st1]; destruct G as [F G]; cbn [fst snd].
  - destruct G as [L A]. destruct items as [|x [|y l]]; try (cbn in L; lia).
    inversion A as [|? ? Ax _]; subst. cbn [fst snd]. split; [exact Ax|exact F].
  - split; [congruence|exact F].
Qed.

Lemma do_parse_nested_facts st : cs_depth st = D ->
  noof_c (do_parse_nested elem st) /\ fine st (snd (do_parse_nested elem st)) /\
  (forall t, fst (do_parse_nested elem st) = Ok t -> cs_s st <> [] -> (slen (snd (do_parse_nested elem st)) < slen st)%nat).
Proof.
  intros HD. unfold do_parse_nested, noof_c.
  pose proof (fine_skip_blank st) as F1. pose proof (fine_read_ident (skip_blank st)) as F2.
  pose proof (read_ident_nonempty (skip_blank st)) as NE.
  destruct (read_ident (skip_blank st)) as [name st2]. cbn [fst snd] in *.
  assert (F12 : fine st st2) by (eapply fine_trans; eassumption).
  destruct name as [|c name].
  { destruct (at_eof st2) eqn:Ee; cbn [fst snd]; (split; [discriminate|split; [exact F12|]]); [|discriminate].
    intros t _ Hne. unfold at_eof in Ee. unfold slen. destruct (cs_s st2); [|discriminate].
    destruct (cs_s st); [congruence|cbn; lia]. }
  specialize (NE ltac:(discriminate)).
  assert (G : forall nm st3, fine st2 st3 ->
            let x := match accept LPAR (skip_blank st3) with
                     | Some _ => complex_type elem nm (skip_blank st3)
                     | None => match simple_type nm with
                               | Some nt => (Ok (TNative nt), skip_blank st3)
                               | None => (Err ECtUnknownSimple, skip_blank st3)
                               end
                     end in
            fst x <> Err EOutOfFuel /\ fine st2 (snd x)).
  { intros nm st3 F3. pose proof (fine_skip_blank st3) as F4.
    assert (F24 : fine st2 (skip_blank st3)) by (eapply fine_trans; eassumption).
    destruct (accept LPAR (skip_blank st3)).
    - destruct (complex_type_facts nm (skip_blank st3)) as [A B]; [destruct F12, F24; congruence|].
      split; [exact A|eapply fine_trans; eassumption].
    - destruct (simple_type nm); cbn [fst snd]; (split; [discriminate|exact F24]). }
  assert (L2 : (slen st2 < slen st)%nat) by (destruct F1; lia).
  destruct (accept COLON st2) as [st3|] eqn:E3.
  - apply fine_accept in E3 as [F3 _].
    destruct (usize_hex_ok (c :: name)); cbn [fst snd].
    2:{ split; [discriminate|]. split; [eapply fine_trans; eassumption|]. discriminate. }
    pose proof (fine_read_ident st3) as F4. destruct (read_ident st3) as [name2 st4]. cbn [snd] in F4.
    destruct (G name2 st4 ltac:(eapply fine_trans; eassumption)) as [A B]. cbv zeta in A, B.
    split; [exact A|]. split; [eapply fine_trans; eassumption|]. intros t _ _. destruct B as [_ LB]. lia.
  - destruct (G (c :: name) st2 (fine_refl st2)) as [A B]. cbv zeta in A, B.
    split; [exact A|]. split; [eapply fine_trans; eassumption|]. intros t _ _. destruct B as [_ LB]. lia.
Qed.
End ElemFuel.

Lemma do_parse_facts : forall fuel d,
  (130 <= N.to_nat d + fuel)%nat -> (1 <= fuel)%nat ->
  forall st, cs_depth st = d ->
  noof_c (do_parse fuel st) /\ fine st (snd (do_parse fuel st)) /\
  (forall t, fst (do_parse fuel st) = Ok t -> cs_s st <> [] -> (slen (snd (do_parse fuel st)) < slen st)%nat).
Proof.
  induction fuel as [|f IH]; intros d H1 H2 st HD; [lia|]. cbn [do_parse]. unfold noof_c.
  destruct (MAX_CUSTOM_TYPE_NESTING_DEPTH <=? cs_depth st) eqn:E.
  { cbn [fst snd]. split; [discriminate|]. split; [apply fine_refl|discriminate]. }
  apply N.leb_gt in E. unfold MAX_CUSTOM_TYPE_NESTING_DEPTH in E.
  set (st1 := mkCst (cs_s st) (cs_frozen st) (cs_depth st + 1) (N.max (cs_maxd st) (cs_depth st + 1))).
  pose proof (do_parse_nested_facts (do_parse f) (d + 1) (IH (d + 1) ltac:(lia) ltac:(lia)) st1
                                    ltac:(cbn; congruence)) as (A & B & C).
  unfold noof_c in A. destruct (do_parse_nested (do_parse f) st1) as [r st2]. cbn [fst snd] in *.
  split; [exact A|]. destruct B as [BD BL]. split.
  - split; [cbn; cbn in BD; lia|exact BL].
  - intros t Ht Hne. specialize (C t Ht Hne). exact C.
Qed.

Lemma parse_custom_noof s : fst (parse_custom s) <> Err EOutOfFuel.
Proof.
  unfold parse_custom. destruct (forallb (fun c => c <? 128) s); [|discriminate].
  pose proof (do_parse_facts CUSTOM_FUEL 0 ltac:(unfold CUSTOM_FUEL; lia) ltac:(unfold CUSTOM_FUEL; lia)
                             (mkCst s false 0 0) eq_refl) as (A & _).
  unfold noof_c in A. destruct (do_parse CUSTOM_FUEL (mkCst s false 0 0)) as [r st]. exact A.
Qed.
