(* Proofs about Model/MetaUpdate.v (property C19, hand-off of refresh responses and topology). *)
From SV Require Import Base.Prelude Model.MetaUpdate.
Open Scope N_scope.

Definition is_take (o : mop) : bool := match o with MTake => true | _ => false end.

(* no production closure ever clears the slot: after any merge the slot holds a value *)
Lemma merge_never_clears v o s : is_take o = false -> h_slot (apply_mop v o s) <> None.
Proof. destruct o; cbn; intros H; try discriminate; try (destruct with_response); discriminate. Qed.

(* the refresh responses form the append monoid under every merge function *)
Lemma responses_hom v o s : is_take o = false ->
  responses_slot (h_slot (apply_mop v o s)) = responses_slot (h_slot s) ++ requested v [o].
Proof.
  destruct s as [[[[[md rs|rt p]|] hs]|] an]; destruct o as [r rt'| | | | |]; cbn; intros H;
    try discriminate; try destruct r; cbn; rewrite ?app_nil_r; reflexivity.
Qed.

Lemma requested_cons v o os : requested v (o :: os) = requested v [o] ++ requested (v + 1) os.
Proof. destruct o as [[|] ?| | | | |]; reflexivity. Qed.

Lemma answered_step v o s :
  h_answered (apply_mop v o s) ++ responses_slot (h_slot (apply_mop v o s)) =
  h_answered s ++ responses_slot (h_slot s) ++ requested v [o].
Proof.
  destruct (is_take o) eqn:E.
  - destruct o; try discriminate. cbn. rewrite !app_nil_r. reflexivity.
  - rewrite responses_hom by exact E. destruct o; try discriminate; reflexivity.
Qed.

Lemma no_loss_dup_gen os : forall v s,
  h_answered (run_mops v os s) ++ responses_slot (h_slot (run_mops v os s)) =
  h_answered s ++ responses_slot (h_slot s) ++ requested v os.
Proof.
  induction os as [|o os IH]; intros v s; cbn [run_mops].
  - cbn [requested]. rewrite app_nil_r. reflexivity.
  - rewrite IH, app_assoc, answered_step, (requested_cons v o os), <- !app_assoc. reflexivity.
Qed.

(* every refresh request's response survives every merge and is answered exactly once, in
   order, as soon as the consumer takes the value it is attached to *)
Lemma mu_no_loss_dup os :
  h_answered (run_mops 1 os h_init) ++ responses_slot (h_slot (run_mops 1 os h_init)) = requested 1 os.
Proof. rewrite no_loss_dup_gen. reflexivity. Qed.

Lemma requested_bounds os : forall v x, In x (requested v os) -> v <= x.
Proof.
  induction os as [|o os IH]; intros v x H; [contradiction|].
  rewrite requested_cons in H. apply in_app_or in H as [H|H].
  - destruct o as [[|] ?| | | | |]; cbn in H; try contradiction. destruct H as [<-|[]]. lia.
  - apply IH in H. lia.
Qed.

Lemma requested_nodup os : forall v, NoDup (requested v os).
Proof.
  induction os as [|o os IH]; intros v; [constructor|].
  destruct o as [[|] ?| | | | |]; cbn [requested]; try apply IH.
  constructor; [|apply IH]. intros H. apply requested_bounds in H. lia.
Qed.

(* after the consumer has taken, every request made so far has been answered *)
Lemma mu_take_answers_all os :
  h_answered (run_mops 1 (os ++ [MTake]) h_init) = requested 1 (os ++ [MTake]) /\
  h_slot (run_mops 1 (os ++ [MTake]) h_init) = None.
Proof.
  assert (G : forall os v s, h_slot (run_mops v (os ++ [MTake]) s) = None).
  { induction os0 as [|o os0 IH]; intros v s; cbn [app run_mops]; [reflexivity|apply IH]. }
  split; [|apply G]. pose proof (mu_no_loss_dup (os ++ [MTake])) as H. rewrite G in H.
  cbn [responses_slot] in H. rewrite app_nil_r in H. exact H.
Qed.

(* the peer list the consumer will see is the newest one fetched since it last took a value *)
Lemma peers_step v o s :
  peers_slot (h_slot (apply_mop v o s)) = latest_peers v [o] (peers_slot (h_slot s)).
Proof.
  destruct s as [[[[[md rs|rt p]|] hs]|] an]; destruct o as [r rt'| | | | |]; cbn; reflexivity.
Qed.

Lemma latest_peers_cons v o os acc :
  latest_peers v (o :: os) acc = latest_peers (v + 1) os (latest_peers v [o] acc).
Proof. destruct o; reflexivity. Qed.

Lemma mu_latest_peers_gen os : forall v s,
  peers_slot (h_slot (run_mops v os s)) = latest_peers v os (peers_slot (h_slot s)).
Proof.
  induction os as [|o os IH]; intros v s; cbn [run_mops]; [reflexivity|].
  rewrite IH, peers_step, (latest_peers_cons v o os). reflexivity.
Qed.

Lemma mu_latest_peers os :
  peers_slot (h_slot (run_mops 1 os h_init)) = latest_peers 1 os None.
Proof. apply mu_latest_peers_gen. Qed.

(* the statuses the model predicts satisfy the property predicate *)
Lemma filter_repeat_1 n : filter (N.eqb 0) (repeat 1 n) = [].
Proof. induction n as [|n IH]; cbn; [reflexivity|exact IH]. Qed.
Lemma filter_repeat_0 n : filter (N.eqb 0) (repeat 0 n) = repeat 0 n.
Proof. induction n as [|n IH]; cbn; [reflexivity|]. rewrite IH. reflexivity. Qed.

Lemma model_status_ok s :
  status_ok (model_status s) (N.of_nat (List.length (responses_slot (h_slot s)))) = true.
Proof.
  unfold status_ok, model_status. apply andb_true_iff. split.
  - apply forallb_forall. intros x Hx. apply in_app_or in Hx as [Hx|Hx]; apply repeat_spec in Hx; subst; reflexivity.
  - rewrite filter_app, filter_repeat_1, filter_repeat_0. cbn [app]. rewrite repeat_length. apply N.eqb_refl.
Qed.

(* and the predicate means what it says *)
Lemma status_ok_sound st k : status_ok st k = true ->
  (forall x, In x st -> x = 0 \/ x = 1) /\ N.of_nat (List.length (filter (N.eqb 0) st)) = k.
Proof.
  unfold status_ok. rewrite andb_true_iff, forallb_forall. intros [H1 H2]. split.
  - intros x Hx. specialize (H1 _ Hx). apply orb_true_iff in H1 as [H|H]; apply N.eqb_eq in H; auto.
  - apply N.eqb_eq. exact H2.
Qed.
