(* Deepening round 3 (property C19): the metadata worker (Model/FetchPlan.v) and the cluster worker
   (Model/ClusterLoop.v over Model/MetaUpdate.v) composed into one system; specification-level definitions
   (merge_of, cstep, attached) live here because they are not extracted. *)
From SV Require Import Base.Prelude Model.Sched Model.MetaUpdate Model.FetchPlan Model.ClusterLoop.
From SV Require Import Proofs.MetaUpdate_proofs Proofs.FetchPlan_proofs Proofs.ClusterLoop_proofs.
From Coq Require Import Permutation.
Open Scope N_scope.

(* ---- the producer (metadata worker, FetchPlan.v) and the consumer (cluster worker, ClusterLoop.v, whose slot is
   the MetadataUpdate of MetaUpdate.v) composed into ONE system: every producer transition that publishes
   something performs, in the same step, the corresponding Sender::modify(merge function) of the consumer model ---- *)

Definition is_some {A} (o : option A) : bool := match o with Some _ => true | None => false end.

(* what a producer transition merges into the channel *)
Definition merge_of (fs : fstate) (l : flabel) : option mop :=
  match l with
  | FDone ready true =>
      match f_cc fs, resolve ready (f_fl fs) with
      | OnCC, Some (OFull _, _) => Some (MFull (is_some (f_pending fs)) false)   (* publish_metadata *)
      | OnCC, Some (ORoutes _, _) => Some MRoutes
      | OnCC, Some (OTopology _, _) => Some MTopology
      | _, _ => None
      end
  | FEstablish true => match f_cc fs with NoCC => Some (MFull (is_some (f_pending fs)) false) | OnCC => None end
  | FEvent EvStatus => match f_cc fs with OnCC => Some (MUp 1) | NoCC => None end   (* the status hint *)
  | _ => None
  end.

Inductive clabel :=
| CF (l : flabel)          (* a transition of the metadata worker (with its merge, if any) *)
| CW (l : wlabel).         (* a transition of the cluster worker / a use_keyspace client; LMerge is not offered *)

Definition cstate := (fstate * wstate)%type.
Definition c_init : cstate := (f_init, w_init).

Definition cstep (s : cstate) (lb : clabel) : option cstate :=
  let (fs, ws) := s in
  match lb with
  | CF l =>
      match fstep fs l with
      | Some fs' =>
          match merge_of fs l with
          | Some o => match wstep ws (LMerge o) with Some ws' => Some (fs', ws') | None => None end
          | None => Some (fs', ws)
          end
      | None => None
      end
  | CW (LMerge _) => None
  | CW l => match wstep ws l with Some ws' => Some (fs, ws') | None => None end
  end.

(* the requests the producer has published (attached to some fetch's metadata), in order *)
Fixpoint attached (l : list (N * answer)) : list N :=
  match l with
  | [] => []
  | (r, AAttached _) :: t => r :: attached t
  | (_, AErr) :: t => attached t
  end.
Lemma attached_app a b : attached (a ++ b) = attached a ++ attached b.
Proof. induction a as [|[r [f|]] a IH]; cbn; [reflexivity|rewrite IH; reflexivity|exact IH]. Qed.

Record CInvC (s : cstate) : Prop := mkCInvC {
  cc_f : reachable fstep f_init (fst s);
  cc_w : reachable wstep w_init (snd s);
  cc_sync : List.length (attached (f_answers (fst s))) = List.length (w_refresh_requested (snd s))
}.

Lemma publish_attached s f :
  attached (f_answers (publish s f)) = attached (f_answers s) ++ (match f_pending s with Some r => [r] | None => [] end).
Proof.
  unfold publish. destruct (f_pending s) as [r|]; cbn; [|rewrite app_nil_r; reflexivity].
  rewrite attached_app. reflexivity.
Qed.

Lemma requested_full v b rt : List.length (requested v [MFull b rt]) = if b then 1%nat else 0%nat.
Proof. destruct b; reflexivity. Qed.

(* one producer step: how many requests it publishes = how many response channels its merge attaches *)
Lemma fstep_attached fs l fs' : fstep fs l = Some fs' ->
  List.length (attached (f_answers fs')) =
  (List.length (attached (f_answers fs)) +
   match merge_of fs l with Some (MFull true _) => 1 | _ => 0 end)%nat.
Proof.
  destruct l as [r|d| |e|ready ok| |ok]; cbn [fstep merge_of].
  - intros H; injection H as <-; cbn; lia.
  - destruct (f_cc fs); [|discriminate]. destruct (start_due _ _ _ _) as [[fl p] nx]. intros H; injection H as <-; cbn; lia.
  - destruct (f_queue fs); [discriminate|]. destruct (f_pending fs); [discriminate|].
    destruct (f_cc fs); [destruct (is_full (f_fl fs)); [discriminate|]|]; intros H; injection H as <-; cbn; lia.
  - destruct (f_cc fs); [|discriminate]. intros H; injection H as <-. destruct e; cbn; lia.
  - destruct (f_cc fs); [|discriminate]. destruct (resolve ready (f_fl fs)) as [[[f|f|f] fl]|]; [| | |discriminate].
    + destruct ok; intros H; injection H as <-.
      * rewrite publish_attached. cbn [set_core f_answers f_pending]. rewrite app_length.
        destruct (f_pending fs); cbn; lia.
      * cbn. lia.
    + intros H; injection H as <-. destruct ok; cbn; lia.
    + intros H; injection H as <-. destruct ok; cbn; lia.
  - destruct (f_cc fs); [|discriminate]. intros H; injection H as <-; cbn; lia.
  - destruct (f_cc fs); [discriminate|]. destruct ok; intros H; injection H as <-.
    + cbn [set_core f_answers]. rewrite publish_attached. cbn [f_answers f_pending]. rewrite app_length.
      destruct (f_pending fs); cbn; lia.
    + cbn [f_pending]. destruct (f_pending fs) as [r|]; cbn [f_answers]; [rewrite attached_app; cbn; rewrite app_nil_r|]; lia.
Qed.

Lemma wstep_merge_requested ws o ws' : wstep ws (LMerge o) = Some ws' ->
  w_refresh_requested ws' = w_refresh_requested ws ++ requested (w_version ws) [o].
Proof. destruct o; cbn; try discriminate; intros H; injection H as <-; reflexivity. Qed.

Lemma wstep_other_requested ws l ws' : (forall o, l <> LMerge o) -> wstep ws l = Some ws' ->
  w_refresh_requested ws' = w_refresh_requested ws.
Proof.
  intros Hn. destruct l as [id|o| | | |id]; cbn.
  - intros H; injection H as <-; reflexivity.
  - exfalso. apply (Hn o). reflexivity.
  - destruct (w_phase ws); [|discriminate]. destruct (w_inbox ws); [discriminate|]. intros H; injection H as <-; reflexivity.
  - destruct (w_phase ws); [|discriminate]. destruct (w_slot ws); [|discriminate]. intros H; injection H as <-; reflexivity.
  - destruct (w_phase ws); [discriminate|]. intros H; injection H as <-; reflexivity.
  - destruct (remove_first id (w_tasks ws)); [|discriminate]. intros H; injection H as <-; reflexivity.
Qed.

Lemma cinvc_init : CInvC c_init.
Proof. constructor; cbn; [apply reachable_refl|apply reachable_refl|reflexivity]. Qed.

Lemma cinvc_step s lb s' : CInvC s -> cstep s lb = Some s' -> CInvC s'.
Proof.
  intros [Hf Hw Hs] Hc. destruct s as [fs ws]. cbn [fst snd] in *. destruct lb as [l|l]; cbn [cstep] in Hc.
  - destruct (fstep fs l) as [fs'|] eqn:Ef; [|discriminate].
    pose proof (fstep_attached _ _ _ Ef) as Ha.
    destruct (merge_of fs l) as [o|] eqn:Em.
    + destruct (wstep ws (LMerge o)) as [ws'|] eqn:Ew; [|discriminate]. injection Hc as <-.
      constructor; cbn [fst snd].
      * eapply reachable_step; eassumption.
      * eapply reachable_step; eassumption.
      * rewrite Ha, (wstep_merge_requested _ _ _ Ew), app_length, Hs.
        destruct o as [b rt| | | | |]; try (cbn; lia). rewrite requested_full. destruct b; lia.
    + injection Hc as <-. constructor; cbn [fst snd]; [eapply reachable_step; eassumption|exact Hw|lia].
  - destruct l as [id|o| | | |id]; try discriminate;
      (match type of Hc with match wstep ws ?l with _ => _ end = _ =>
         destruct (wstep ws l) as [ws'|] eqn:Ew; [|discriminate]; injection Hc as <-;
         constructor; cbn [fst snd];
         [exact Hf|eapply reachable_step; eassumption|
          rewrite (wstep_other_requested ws l ws') by (try exact Ew; intros o0 H; discriminate H); try exact Hs] end).
    all: exact Ew.
Qed.

Lemma cinvc_reachable s : reachable cstep c_init s -> CInvC s.
Proof. apply (invariant_reachable _ _ cstep CInvC c_init); [apply cinvc_init|apply cinvc_step]. Qed.

(* THE CHAIN, in one system.  In every reachable state of the composed system:
   (1) every refresh request ever sent is, in order, answered by the producer (attached to a published fetch, or
       with an error) / pending in the producer / still queued;
   (2) the requests the producer has published correspond one to one, in order, to the response channels it merged
       into the channel, and each of those is answered by the consumer, or being applied, or still attached to the
       slot (never lost, never twice);
   (3) each published request was attached to a fetch that started after the request had been received. *)
Lemma chain_inv s : reachable cstep c_init s ->
  map fst (f_answers (fst s)) ++ pending_list (fst s) ++ f_queue (fst s) = f_arrived (fst s) /\
  List.length (attached (f_answers (fst s))) = List.length (w_refresh_requested (snd s)) /\
  w_refresh_answered (snd s) ++ applying_responses (snd s) ++ responses_slot (w_slot (snd s)) = w_refresh_requested (snd s) /\
  (forall r f, In (r, AAttached f) (f_answers (fst s)) -> exists rs, In (f, rs) (f_started (fst s)) /\ In r rs).
Proof.
  intros H. destruct (cinvc_reachable s H) as [Hf Hw Hs].
  pose proof (finv_reachable _ Hf) as FI. destruct (winv_reachable _ Hw) as [_ Hr].
  split; [apply (fi_cons _ FI)|]. split; [exact Hs|]. split; [exact Hr|]. apply (fi_fresh _ FI).
Qed.

(* ... and every request the producer has published is answered by the consumer after at most `owed` consumer
   steps (no new request or merge arriving meanwhile; the awaits of the consumer assumed to terminate):
   afterwards the consumer has answered exactly as many response channels as the producer published requests *)
Lemma chain_eventually s : reachable cstep c_init s ->
  exists ls s', forallb (fun lb => match lb with CW l => is_worker_label l | CF _ => false end) ls = true /\
    run cstep s ls = Some s' /\ (List.length ls <= owed (snd s))%nat /\ fst s' = fst s /\
    List.length (w_refresh_answered (snd s')) = List.length (attached (f_answers (fst s))) /\
    w_slot (snd s') = None.
Proof.
  intros H. destruct (cinvc_reachable s H) as [Hf Hw Hs]. destruct s as [fs ws]. cbn [fst snd] in *.
  destruct (worker_drain_exists (owed ws) ws (Nat.le_refl _)) as (wl & ws' & Hwl & Hrun & Hz).
  exists (map CW wl), (fs, ws').
  assert (Hlift : forall wl ws ws', forallb is_worker_label wl = true -> run wstep ws wl = Some ws' ->
                  run cstep (fs, ws) (map CW wl) = Some (fs, ws')).
  { clear. induction wl as [|l wl IH]; intros ws ws' Hw Hr; cbn [run map] in *.
    - injection Hr as <-. reflexivity.
    - cbn [forallb] in Hw. apply andb_true_iff in Hw as [H1 H2].
      destruct (wstep ws l) as [w1|] eqn:E; [|discriminate]. cbn [cstep].
      destruct l as [id|o| | | |id]; cbn in H1; try discriminate; rewrite E; apply IH; assumption. }
  split.
  { clear -Hwl. induction wl as [|l wl IH]; cbn [map forallb] in *; [reflexivity|].
    apply andb_true_iff in Hwl as [H1 H2]. rewrite H1, (IH H2). reflexivity. }
  split; [apply Hlift; assumption|]. split; [rewrite map_length; pose proof (worker_run_bounded wl ws ws' Hwl Hrun); lia|].
  split; [reflexivity|]. cbn [fst snd].
  assert (Hr' : reachable wstep w_init ws') by (eapply reachable_run; eassumption).
  destruct (all_answered ws' Hr' Hz) as [_ Ha]. destruct (winv_reachable _ Hr') as [_ Hq].
  (* worker steps do not change the requested list *)
  assert (G : w_refresh_requested ws' = w_refresh_requested ws).
  { clear -Hwl Hrun. revert ws Hrun. induction wl as [|l wl IH]; intros ws Hrun; cbn [run] in Hrun.
    - injection Hrun as <-. reflexivity.
    - cbn [forallb] in Hwl. apply andb_true_iff in Hwl as [H1 H2].
      destruct (wstep ws l) as [w1|] eqn:E; [|discriminate]. rewrite (IH H2 _ Hrun).
      apply (wstep_other_requested ws l w1); [|exact E]. intros o ->. discriminate H1. }
  split; [rewrite Ha, G, Hs; reflexivity|].
  unfold owed in Hz. destruct (w_slot ws'); [lia|reflexivity].
Qed.
