(* Deepening round 4 (proof only) for C17: lemmas about Model/Accept.v functions that the
   correspondence driver evaluates but that had no characterising theorem.  Statements are in
   Props/C17.v. *)
From SV Require Import Base.Prelude Base.Bytes Model.Vint Model.Cql Model.Accept Proofs.Cql_proofs
  Proofs.Accept_proofs.
Open Scope N_scope.

(* ====================================================================================== *)
(* 1. The chunked state of the driver, for every reachable state                           *)
(* ====================================================================================== *)

Definition chunk_state := (list bytes * N)%type.
Definition chunk_step (st : chunk_state) (o : bind_op) : chunk_state :=
  match o with (k, t, v) => fst (add_value_chunks (fst st) (snd st) k t v) end.
Definition run_chunks (ops : list bind_op) : chunk_state := fold_left chunk_step ops ([], 0).

Definition chunk_inv (s : svals) (st : chunk_state) : Prop :=
  s = {| sv_bytes := chunks_bytes (fst st); sv_count := snd st |} /\
  Forall cell_out (fst st) /\ snd st = N.of_nat (List.length (fst st)) /\ snd st <= u16_max.

Lemma chunk_step_inv s st o : chunk_inv s st -> chunk_inv (apply_op s o) (chunk_step st o).
Proof.
  destruct st as [cs cnt]. destruct o as [[k t] v]. intros (Hs & Hc & Hn & Hm). cbn [fst snd] in *.
  unfold apply_op, chunk_step. cbn [fst snd]. subst s. rewrite add_value_chunks_eq.
  unfold add_value_chunks. destruct (cnt =? u16_max) eqn:E; cbn [fst snd].
  - repeat split; auto.
  - apply N.eqb_neq in E. destruct (ser_buf k true t v []) as [o [e|]] eqn:Eo; cbn [fst snd].
    + repeat split; auto.
    + assert (Hm' : (cnt + 1) mod 65536 = cnt + 1) by (apply N.mod_small; unfold u16_max in *; lia).
      rewrite Hm'. split; [reflexivity|]. split; [|split].
      * constructor; [|exact Hc]. apply (sized_ser_buf k t v). unfold ser_out. exact Eo.
      * cbn [fst snd List.length]. rewrite Nat2N.inj_succ. lia.
      * cbn [fst snd]. unfold u16_max in *. lia.
Qed.

Lemma run_chunks_inv_from ops : forall s st, chunk_inv s st ->
  chunk_inv (fold_left apply_op ops s) (fold_left chunk_step ops st).
Proof.
  induction ops as [|o r IH]; intros s st H; [exact H|]. cbn [fold_left]. apply IH, chunk_step_inv, H.
Qed.

Lemma chunk_inv_new : chunk_inv sv_new ([], 0).
Proof. repeat split; [constructor|unfold u16_max; cbn; lia]. Qed.

Lemma cell_out_single ch : cell_out ch -> sv_iter_go (S (List.length ch)) ch = Some [raw_of ch].
Proof.
  intros H. pose proof (sv_iter_go_chunks [ch] (Forall_cons ch H (Forall_nil _)) (S (List.length ch))) as G.
  cbn [concat map List.length] in G. rewrite app_nil_r in G. apply G. lia.
Qed.

(* every state the driver's A / X loop can hold *)
Theorem run_chunks_reachable ops :
  run_ops ops = {| sv_bytes := chunks_bytes (fst (run_chunks ops)); sv_count := snd (run_chunks ops) |} /\
  Forall (fun ch => exists x, sv_iter_go (S (List.length ch)) ch = Some [x]) (fst (run_chunks ops)) /\
  snd (run_chunks ops) = N.of_nat (List.length (fst (run_chunks ops))) /\
  exists cells, sv_iter (run_ops ops) = Some cells /\
                List.length cells = List.length (fst (run_chunks ops)).
Proof.
  pose proof (run_chunks_inv_from ops sv_new ([], 0) chunk_inv_new) as (Hs & Hc & Hn & Hm).
  fold (run_ops ops) in Hs. fold (run_chunks ops) in Hs, Hc, Hn, Hm.
  split; [exact Hs|]. split; [|split; [exact Hn|]].
  - eapply Forall_impl; [|exact Hc]. intros ch H. exists (raw_of ch). now apply cell_out_single.
  - exists (map raw_of (rev (fst (run_chunks ops)))). rewrite map_length, rev_length. split; [|reflexivity].
    rewrite Hs. unfold sv_iter. cbn [sv_bytes]. rewrite chunks_bytes_rev.
    assert (Hr : Forall cell_out (rev (fst (run_chunks ops)))) by (apply Forall_rev, Hc).
    apply sv_iter_go_chunks; [exact Hr|].
    assert (G : forall l : list bytes, Forall cell_out l -> (List.length l <= List.length (concat l))%nat).
    { induction 1 as [|o l Ho _ IH]; [simpl; lia|]. cbn [concat List.length]. rewrite app_length.
      apply cell_out_length in Ho. lia. }
    specialize (G _ Hr). lia.
Qed.


(* ====================================================================================== *)
(* 2. The row check names the FIRST column whose type_check fails, with that check's leaf   *)
(* ====================================================================================== *)

Lemma row_cols_column ks : forall base cols i e,
  row_cols base ks cols = RK_Column i e <->
  exists n k t, i = (base + n)%nat /\ nth_error ks n = Some k /\ nth_error cols n = Some t /\
    deser_check k t = Some e /\
    forall j k' t', (j < n)%nat -> nth_error ks j = Some k' -> nth_error cols j = Some t' ->
                    deser_check k' t' = None.
Proof.
  induction ks as [|k ks IH]; intros base cols i e.
  - cbn [row_cols]. split; [discriminate|]. intros (n & k & t & _ & Hk & _). destruct n; discriminate.
  - destruct cols as [|t cols].
    + cbn [row_cols]. split; [discriminate|]. intros (n & k' & t' & _ & _ & Ht & _). destruct n; discriminate.
    + cbn [row_cols]. destruct (deser_check k t) as [e0|] eqn:E.
      * split.
        -- intros H. inversion H; subst. exists 0%nat, k, t. split; [lia|]. split; [reflexivity|]. split; [reflexivity|]. split; [exact E|]. intros j k' t' Hj. lia.
        -- intros (n & k' & t' & Hi & Hk & Ht & He & Hall). destruct n as [|n].
           ++ cbn in Hk, Ht. inversion Hk; inversion Ht; subst. rewrite E in He. inversion He; subst.
              f_equal. lia.
           ++ specialize (Hall 0%nat k t (Nat.lt_0_succ n) eq_refl eq_refl). congruence.
      * rewrite IH. split.
        -- intros (n & k' & t' & Hi & Hk & Ht & He & Hall). exists (S n), k', t'. split; [lia|]. split; [exact Hk|]. split; [exact Ht|]. split; [exact He|].
           intros j k'' t'' Hj Hk'' Ht''. destruct j as [|j]; [cbn in Hk'', Ht''; congruence|].
           apply (Hall j k'' t''); auto. lia.
        -- intros (n & k' & t' & Hi & Hk & Ht & He & Hall). destruct n as [|n].
           ++ cbn in Hk, Ht. congruence.
           ++ exists n, k', t'. split; [lia|]. split; [exact Hk|]. split; [exact Ht|]. split; [exact He|]. intros j k'' t'' Hj Hk'' Ht''.
              apply (Hall (S j) k'' t''); auto. lia.
Qed.

Lemma row_cols_not_count ks : forall base cols, row_cols base ks cols <> RK_WrongColumnCount.
Proof.
  induction ks as [|k ks IH]; intros base cols; [discriminate|]. destruct cols as [|t cols]; [discriminate|].
  cbn [row_cols]. destruct (deser_check k t); [discriminate|apply IH].
Qed.

Theorem row_check_column ks cols i e :
  row_check ks cols = RK_Column i e <->
  List.length ks = List.length cols /\
  exists k t, nth_error ks i = Some k /\ nth_error cols i = Some t /\ deser_check k t = Some e /\
    forall j k' t', (j < i)%nat -> nth_error ks j = Some k' -> nth_error cols j = Some t' ->
                    deser_accepts k' t' = true.
Proof.
  unfold row_check. destruct (List.length ks =? List.length cols)%nat eqn:El.
  - apply Nat.eqb_eq in El. rewrite row_cols_column. split.
    + intros (n & k & t & Hi & Hk & Ht & He & Hall). cbn in Hi. subst n. split; [exact El|].
      exists k, t. split; [exact Hk|]. split; [exact Ht|]. split; [exact He|]. intros j k' t' Hj Hk' Ht'. unfold deser_accepts.
      now rewrite (Hall j k' t' Hj Hk' Ht').
    + intros (_ & k & t & Hk & Ht & He & Hall). exists i, k, t. split; [reflexivity|]. split; [exact Hk|]. split; [exact Ht|]. split; [exact He|].
      intros j k' t' Hj Hk' Ht'. specialize (Hall j k' t' Hj Hk' Ht'). unfold deser_accepts in Hall.
      destruct (deser_check k' t'); [discriminate|reflexivity].
  - apply Nat.eqb_neq in El. split; [discriminate|]. intros (H & _). contradiction.
Qed.

Theorem row_check_count ks cols :
  row_check ks cols = RK_WrongColumnCount <-> List.length ks <> List.length cols.
Proof.
  unfold row_check. destruct (List.length ks =? List.length cols)%nat eqn:El.
  - apply Nat.eqb_eq in El. split; [intros H; now apply row_cols_not_count in H|contradiction].
  - apply Nat.eqb_neq in El. tauto.
Qed.

(* TypedRowIterator::new returns exactly the row check's error, or every row *)
Theorem typed_rows_exact ks cols rows :
  (forall n, typed_rows ks cols rows = Ok n <-> row_check ks cols = RK_Ok /\ n = rows) /\
  (forall e, typed_rows ks cols rows = Err e <-> row_check ks cols = e /\ e <> RK_Ok).
Proof.
  unfold typed_rows. split; [intros n|intros e]; destruct (row_check ks cols) eqn:E.
  - split; [intros H; inversion H; auto|intros (_ & ->); reflexivity].
  - split; [discriminate|intros (H & _); discriminate].
  - split; [discriminate|intros (H & _); discriminate].
  - split; [discriminate|intros (<- & H); contradiction].
  - split; [intros H; inversion H; subst; split; [reflexivity|discriminate]|intros (<- & _); reflexivity].
  - split; [intros H; inversion H; subst; split; [reflexivity|discriminate]|intros (<- & _); reflexivity].
Qed.

(* ====================================================================================== *)
(* 3. A carrier that implements DeserializeValue never gives the model artefact TE_NoImpl    *)
(* ====================================================================================== *)

Lemma t_native_not_noimpl t l : t_native t l <> Some TE_NoImpl.
Proof. unfold t_native. destruct (native_in t l); discriminate. Qed.

Lemma t_and_not_noimpl a b : a <> Some TE_NoImpl -> b <> Some TE_NoImpl -> t_and a b <> Some TE_NoImpl.
Proof. destruct a; cbn; auto. Qed.

Theorem deser_check_impl k : forall t, deser_impl k = true -> deser_check k t <> Some TE_NoImpl.
Proof.
  induction k using carrier_ind'; intros t Hi; cbn [deser_check deser_impl] in *;
    try discriminate; try (apply t_native_not_noimpl); try (now apply IHk).
  - destruct (is_nil (deser_base_types b)); [discriminate|apply t_native_not_noimpl].
  - apply andb_prop in Hi as [_ Hi]. now apply IHk.
  - rewrite Hi. apply t_native_not_noimpl.
  - destruct (is_str k); [apply t_native_not_noimpl|]. cbn in Hi. now apply IHk.
  - destruct (is_str k); [apply t_native_not_noimpl|]. cbn in Hi. now apply IHk.
  - destruct (is_str k); [apply t_native_not_noimpl|]. cbn in Hi. rewrite Hi. apply t_native_not_noimpl.
  - destruct t; try discriminate; now apply IHk.
  - destruct t; try discriminate; now apply IHk.
  - destruct t; try discriminate; now apply IHk.
  - apply andb_prop in Hi as [Ha Hb]. destruct t; try discriminate. apply t_and_not_noimpl; auto.
  - apply andb_prop in Hi as [Ha Hb]. destruct t; try discriminate. apply t_and_not_noimpl; auto.
  - apply andb_prop in Hi as [_ Hi]. destruct t; try discriminate.
    match goal with |- context [negb (Nat.eqb _ (List.length ?x))] => rename x into l end.
    destruct (negb (List.length ks =? List.length l)%nat); [discriminate|].
    revert l. induction H as [|k ks Hk _ IH]; intros l; [discriminate|].
    cbn [forallb] in Hi. apply andb_prop in Hi as [H1 H2]. destruct l as [|t1 l]; [discriminate|].
    apply t_and_not_noimpl; [now apply Hk|now apply IH].
  - destruct t; try discriminate; now apply IHk.
  - destruct t; try discriminate; now apply IHk.
  - destruct t; try discriminate; now apply IHk.
  - apply andb_prop in Hi as [Ha Hb]. destruct t; try discriminate. apply t_and_not_noimpl; auto.
  - destruct t; discriminate.
Qed.

(* ====================================================================================== *)
(* 4. deser_check against the documentation; the refused row names the first undocumented  *)
(*    column                                                                               *)
(* ====================================================================================== *)

Theorem deser_check_doc : forall k t, deser_impl k = true ->
  deser_check k t <> Some TE_NoImpl /\
  (deser_check k t = None <-> doc_compat De k t = true).
Proof.
  intros k t Hi. split; [now apply deser_check_impl|].
  rewrite <- (matrix_deser_doc k t Hi). unfold deser_accepts. destruct (deser_check k t); split; congruence.
Qed.

Theorem read_first_undocumented : forall ks cols rows i e, forallb deser_impl ks = true ->
  typed_rows ks cols rows = Err (RK_Column i e) ->
  e <> TE_NoImpl /\
  exists k t, nth_error ks i = Some k /\ nth_error cols i = Some t /\ doc_compat De k t = false /\
    forall j k' t', (j < i)%nat -> nth_error ks j = Some k' -> nth_error cols j = Some t' ->
                    doc_compat De k' t' = true.
Proof.
  intros ks cols rows i e Hi H. apply (proj2 (typed_rows_exact ks cols rows)) in H as [H _].
  apply row_check_column in H as (_ & k & t & Hk & Ht & He & Hall).
  rewrite forallb_forall in Hi. assert (Hik : deser_impl k = true) by (apply Hi; eapply nth_error_In; eauto).
  split.
  - intros ->. now apply (deser_check_impl k t Hik).
  - exists k, t. split; [exact Hk|]. split; [exact Ht|]. split.
    + rewrite <- (matrix_deser_doc k t Hik). unfold deser_accepts. now rewrite He.
    + intros j k' t' Hj Hk' Ht'. rewrite <- (matrix_deser_doc k' t') by (apply Hi; eapply nth_error_In; eauto).
      eauto.
Qed.
