(* Proofs about Model/Timestamp.v (property C18). *)
From SV Require Import Base.Prelude Model.Sched Model.Timestamp.
From Coq Require Import Sorting.Sorted Permutation.
Open Scope Z_scope.

(* ---------------- arithmetic ---------------- *)

Lemma wrap64_id z : i64_min <= z <= i64_max -> wrap64 z = z.
Proof.
  unfold wrap64, i64_min, i64_max. intros H.
  rewrite Z.mod_small; lia.
Qed.

Lemma wrap64_range z : i64_min <= wrap64 z <= i64_max.
Proof.
  unfold wrap64, i64_min, i64_max.
  pose proof (Z.mod_pos_bound (z + 2 ^ 63) (2 ^ 64) ltac:(lia)). lia.
Qed.

(* the specification of compute_next the proofs use: strictly above [last] whenever
   last < i64::MAX, whatever the clock says *)
Lemma compute_next_gt l c : 0 <= l < i64_max -> l < compute_next l c.
Proof.
  intros H. unfold compute_next.
  assert (E : wrap64 (l + 1) = l + 1) by (apply wrap64_id; unfold i64_min, i64_max in *; lia).
  destruct c as [m|]; [|lia]. cbv zeta.
  destruct (Z.gtb_spec (wrap64 m) l); lia.
Qed.

Lemma compute_next_le B l c : 0 <= l < i64_max -> label_ok B (Clock 0 c) = true ->
  compute_next l c <= Z.max B (l + 1).
Proof.
  intros H Hc. unfold compute_next.
  assert (E : wrap64 (l + 1) = l + 1) by (apply wrap64_id; unfold i64_min, i64_max in *; lia).
  destruct c as [m|]; [|lia]. cbn [label_ok] in Hc. cbv zeta.
  destruct (Z.gtb_spec (wrap64 m) l); lia.
Qed.

(* ---------------- lists ---------------- *)

Lemma nth_split {A} (l : list A) n x : nth_error l n = Some x ->
  exists l1 l2, l = l1 ++ x :: l2 /\ List.length l1 = n /\ forall y, upd_nth n y l = l1 ++ y :: l2.
Proof.
  revert n; induction l as [|a r IH]; intros [|n] H; cbn [nth_error] in H; try discriminate.
  - injection H as ->. exists [], r. repeat split; reflexivity.
  - destruct (IH _ H) as (l1 & l2 & -> & Hl & Hu). exists (a :: l1), l2. split; [reflexivity|].
    split; [cbn [List.length]; rewrite Hl; reflexivity|].
    intros y. cbn [upd_nth app]. rewrite Hu. reflexivity.
Qed.

Lemma list_sum_repeat n k : list_sum (repeat n k) = (k * n)%nat.
Proof. induction k as [|k IH]; [reflexivity|]. cbn [repeat]. change (list_sum (n :: repeat n k)) with (n + list_sum (repeat n k))%nat. rewrite IH. lia. Qed.

Lemma list_sum_cons a l : list_sum (a :: l) = (a + list_sum l)%nat.
Proof. reflexivity. Qed.

Lemma map_repeat' {A C} (f : A -> C) x n : map f (repeat x n) = repeat (f x) n.
Proof. induction n as [|n IH]; cbn [repeat map]; [reflexivity|]. rewrite IH. reflexivity. Qed.

Lemma ssorted_gt_head a r : StronglySorted Z.gt (a :: r) -> Forall (fun v => v < a) r.
Proof.
  intros H. apply StronglySorted_inv in H as [_ H].
  eapply Forall_impl; [|exact H]. cbv beta. intros; lia.
Qed.

Lemma ssorted_gt_NoDup l : StronglySorted Z.gt l -> NoDup l.
Proof.
  induction 1 as [|a r Hs IH Hf]; constructor; [|exact IH].
  intros Hin. rewrite Forall_forall in Hf. specialize (Hf _ Hin). lia.
Qed.

Lemma ssorted_snoc (R : Z -> Z -> Prop) l x :
  StronglySorted R l -> Forall (fun y => R y x) l -> StronglySorted R (l ++ [x]).
Proof.
  induction 1 as [|a r Hs IH Hf]; intros Hx; cbn [app].
  - constructor; constructor.
  - inversion Hx as [|? ? Hax Hrx]; subst. constructor; [apply IH; exact Hrx|].
    apply Forall_app. split; [exact Hf|]. constructor; [exact Hax|constructor].
Qed.

Lemma ssorted_rev l : StronglySorted Z.gt l -> StronglySorted Z.lt (rev l).
Proof.
  induction 1 as [|a r Hs IH Hf]; cbn [rev]; [constructor|].
  apply ssorted_snoc; [exact IH|].
  apply Forall_rev. eapply Forall_impl; [|exact Hf]. cbv beta. intros; lia.
Qed.

(* ---------------- the invariant ---------------- *)

Definition thread_ok (B lastv : Z) (th : thread) : Prop :=
  match t_pc th with
  | Idle => True
  | Loaded l => (0 < t_todo th)%nat /\ 0 <= l <= lastv
  | Computed l cur => (0 < t_todo th)%nat /\ 0 <= l <= lastv /\ l < cur <= Z.max B (l + 1)
  end.

Record Inv (B : Z) (NM : nat) (s : state) : Prop := mkInv {
  inv_last : last s = hd 0 (chain s);
  inv_sorted : StronglySorted Z.gt (chain s);
  inv_pos : Forall (fun v => 0 < v) (chain s);
  inv_bound : last s <= B + Z.of_nat (List.length (chain s));
  inv_count : (List.length (chain s) + list_sum (map t_todo (threads s)) = NM)%nat;
  inv_threads : Forall (thread_ok B (last s)) (threads s);
  inv_perm : Permutation (handed_out s) (chain s);
  inv_mono : Forall (fun th => StronglySorted Z.gt (t_out th)) (threads s)
}.

Lemma inv_last_nonneg B NM s : Inv B NM s -> 0 <= last s.
Proof.
  intros I. rewrite (inv_last _ _ _ I). pose proof (inv_pos _ _ _ I) as Hp.
  destruct (chain s) as [|a r]; cbn [hd]; [lia|]. inversion Hp; subst. lia.
Qed.

Lemma inv_chain_le_last B NM s v : Inv B NM s -> In v (chain s) -> v <= last s.
Proof.
  intros I Hin. rewrite (inv_last _ _ _ I). pose proof (inv_sorted _ _ _ I) as Hs.
  destruct (chain s) as [|a r]; [contradiction|]. cbn [hd].
  destruct Hin as [->|Hin]; [lia|].
  apply ssorted_gt_head in Hs. rewrite Forall_forall in Hs. specialize (Hs _ Hin). lia.
Qed.

Lemma thread_ok_mono B l1 l2 th : l1 <= l2 -> thread_ok B l1 th -> thread_ok B l2 th.
Proof. unfold thread_ok. destruct (t_pc th); intros; lia. Qed.

Lemma handed_out_init N M : handed_out (init N M) = [].
Proof.
  unfold handed_out, init. cbn [threads].
  induction N as [|N IH]; cbn [repeat map concat]; [reflexivity|]. rewrite IH. reflexivity.
Qed.

Lemma inv_init B N M : 0 <= B -> Inv B (N * M) (init N M).
Proof.
  intros HB. constructor.
  - reflexivity.
  - constructor.
  - constructor.
  - cbn. lia.
  - unfold init. cbn [chain threads List.length]. rewrite map_repeat'. cbn [t_todo].
    rewrite list_sum_repeat. lia.
  - unfold init. cbn [threads last]. apply Forall_forall. intros th Hin.
    apply repeat_spec in Hin. subst. exact I.
  - rewrite handed_out_init. constructor.
  - unfold init. cbn [threads]. apply Forall_forall. intros th Hin.
    apply repeat_spec in Hin. subst. constructor.
Qed.

Section Step.
  Variables (B : Z) (NM : nat).
  Hypothesis HB : 0 <= B.
  Hypothesis Hguard : B + Z.of_nat NM < i64_max.

  (* a thread that still has a call to make keeps `last` below i64::MAX *)
  Lemma inv_room s l1 th l2 :
    Inv B NM s -> threads s = l1 ++ th :: l2 -> (0 < t_todo th)%nat -> last s + 1 <= B + Z.of_nat NM.
  Proof.
    intros I E Ht. pose proof (inv_bound _ _ _ I) as Hb. pose proof (inv_count _ _ _ I) as Hc.
    rewrite E, map_app, list_sum_app in Hc. cbn [map] in Hc. rewrite list_sum_cons in Hc. lia.
  Qed.

  Lemma handed_out_split s l1 th l2 : threads s = l1 ++ th :: l2 ->
    handed_out s = concat (map t_out l1) ++ t_out th ++ concat (map t_out l2).
  Proof. intros E. unfold handed_out. rewrite E, map_app, concat_app. reflexivity. Qed.

  (* replacing the thread by one with the same todo and output changes nothing global *)
  Lemma inv_set_pc s t th l1 l2 p :
    Inv B NM s -> threads s = l1 ++ th :: l2 ->
    (forall y, upd_nth t y (threads s) = l1 ++ y :: l2) ->
    thread_ok B (last s) (mkThread p (t_todo th) (t_out th)) ->
    Inv B NM (set_thread s t (mkThread p (t_todo th) (t_out th))).
  Proof.
    intros I E Hu Hok. unfold set_thread. rewrite Hu.
    pose proof (inv_threads _ _ _ I) as Hth. pose proof (inv_mono _ _ _ I) as Hm.
    pose proof (inv_count _ _ _ I) as Hc. pose proof (inv_perm _ _ _ I) as Hp.
    rewrite E in Hth, Hm, Hc. unfold handed_out in Hp. rewrite E in Hp.
    apply Forall_app in Hth as [Hth1 Hth2]. apply Forall_cons_iff in Hth2 as [_ Hth3].
    apply Forall_app in Hm as [Hm1 Hm2]. apply Forall_cons_iff in Hm2 as [Hm0 Hm3].
    constructor; cbn [last chain threads].
    - apply (inv_last _ _ _ I).
    - apply (inv_sorted _ _ _ I).
    - apply (inv_pos _ _ _ I).
    - apply (inv_bound _ _ _ I).
    - rewrite map_app, list_sum_app in Hc |- *. cbn [map t_todo] in Hc |- *. rewrite list_sum_cons in Hc |- *. exact Hc.
    - apply Forall_app. split; [exact Hth1|]. constructor; [exact Hok|exact Hth3].
    - unfold handed_out. cbn [threads]. rewrite map_app in Hp |- *. cbn [map t_out] in Hp |- *. exact Hp.
    - apply Forall_app. split; [exact Hm1|]. constructor; [exact Hm0|exact Hm3].
  Qed.

  Lemma inv_step s lb s' : Inv B NM s -> gstep B s lb = Some s' -> Inv B NM s'.
  Proof.
    intros I Hs. unfold gstep in Hs. destruct (label_ok B lb) eqn:Hok; [|discriminate].
    destruct lb as [t|t c|t]; cbn [step] in Hs;
      destruct (nth_error (threads s) t) as [th|] eqn:En; try discriminate;
      destruct (nth_split _ _ _ En) as (l1 & l2 & E & _ & Hu);
      pose proof (inv_threads _ _ _ I) as Hth; rewrite E in Hth;
      apply Forall_app in Hth as [Hth1 Hth2]; apply Forall_cons_iff in Hth2 as [Hth0 Hth3].
    - (* Load *)
      destruct (t_pc th) eqn:Ep; try discriminate.
      destruct (t_todo th) as [|k] eqn:Et; [discriminate|]. injection Hs as <-.
      rewrite <- Et. eapply inv_set_pc; try eassumption.
      unfold thread_ok. cbn [t_pc t_todo]. pose proof (inv_last_nonneg _ _ _ I). lia.
    - (* Clock *)
      destruct (t_pc th) as [|l|l cur] eqn:Ep; try discriminate. injection Hs as <-.
      unfold thread_ok in Hth0. rewrite Ep in Hth0. destruct Hth0 as [Ht Hl].
      pose proof (inv_room _ _ _ _ I E Ht) as Hr.
      eapply inv_set_pc; try eassumption.
      unfold thread_ok. cbn [t_pc t_todo].
      assert (Hl' : 0 <= l < i64_max) by lia.
      pose proof (compute_next_gt l c Hl'). pose proof (compute_next_le B l c Hl' Hok). lia.
    - (* Cas *)
      destruct (t_pc th) as [|l|l cur] eqn:Ep; try discriminate.
      unfold thread_ok in Hth0. rewrite Ep in Hth0. destruct Hth0 as (Ht & Hl & Hc).
      destruct (Z.eqb_spec (last s) l) as [El|Nl]; injection Hs as <-.
      + (* success *)
        rewrite Hu.
        pose proof (inv_mono _ _ _ I) as Hm. pose proof (inv_count _ _ _ I) as Hcnt.
        pose proof (inv_perm _ _ _ I) as Hp. rewrite (handed_out_split _ _ _ _ E) in Hp.
        rewrite E in Hm, Hcnt.
        apply Forall_app in Hm as [Hm1 Hm2]. apply Forall_cons_iff in Hm2 as [Hm0 Hm3]. subst l.
        assert (Hall : forall v, In v (chain s) -> v < cur).
        { intros v Hv. pose proof (inv_chain_le_last _ _ _ _ I Hv). lia. }
        constructor; cbn [last chain threads hd List.length].
        * reflexivity.
        * constructor; [apply (inv_sorted _ _ _ I)|].
          apply Forall_forall. intros v Hv. specialize (Hall _ Hv). lia.
        * constructor; [lia|apply (inv_pos _ _ _ I)].
        * pose proof (inv_bound _ _ _ I). lia.
        * rewrite map_app, list_sum_app in Hcnt |- *. cbn [map t_todo] in Hcnt |- *. rewrite list_sum_cons in Hcnt |- *. lia.
        * apply Forall_app. split.
          -- eapply Forall_impl; [|exact Hth1]. intros a. apply thread_ok_mono. lia.
          -- constructor; [exact Logic.I|].
             eapply Forall_impl; [|exact Hth3]. intros a. apply thread_ok_mono. lia.
        * unfold handed_out. cbn [threads]. rewrite map_app, concat_app. cbn [map concat t_out app].
          apply Permutation_sym. apply Permutation_cons_app. apply Permutation_sym. exact Hp.
        * apply Forall_app. split; [exact Hm1|]. constructor; [|exact Hm3]. cbn [t_out].
          constructor; [exact Hm0|]. apply Forall_forall. intros v Hv.
          assert (Hin : In v (chain s)).
          { eapply Permutation_in; [exact Hp|]. apply in_or_app. right. apply in_or_app. left. exact Hv. }
          specialize (Hall _ Hin). lia.
      + (* failure *)
        eapply inv_set_pc; try eassumption. exact Logic.I.
  Qed.
End Step.

Lemma run_gstep B ls : forall s, sched_ok B ls = true -> run step s ls = run (gstep B) s ls.
Proof.
  induction ls as [|lb r IH]; intros s H; cbn [run]; [reflexivity|].
  cbn [sched_ok forallb] in H. apply andb_true_iff in H as [H1 H2].
  unfold gstep at 1. rewrite H1. destruct (step s lb) as [s'|]; [|reflexivity].
  apply IH. exact H2.
Qed.

Theorem inv_run B N M ls s :
  0 <= B -> B + Z.of_nat (N * M) < i64_max -> sched_ok B ls = true ->
  run step (init N M) ls = Some s -> Inv B (N * M) s.
Proof.
  intros HB Hg Hok Hr. rewrite (run_gstep B) in Hr by exact Hok.
  apply (invariant_reachable _ _ (gstep B) (Inv B (N * M)) (init N M)).
  - apply inv_init. exact HB.
  - intros s0 l s1. apply inv_step; assumption.
  - exists ls. exact Hr.
Qed.

(* ---------------- the property theorems ---------------- *)

Definition guard (B : Z) (N M : nat) (ls : list label) : Prop :=
  0 <= B /\ B + Z.of_nat (N * M) < i64_max /\ sched_ok B ls = true.

Lemma c18_inv B N M ls s : guard B N M ls -> run step (init N M) ls = Some s ->
  (forall v, In v (handed_out s) -> 0 < v <= last s) /\
  (handed_out s <> [] -> In (last s) (handed_out s)) /\
  (handed_out s = [] -> last s = 0) /\
  Permutation (handed_out s) (chain s) /\ StronglySorted Z.gt (chain s).
Proof.
  intros (HB & Hg & Hok) Hr. pose proof (inv_run _ _ _ _ _ HB Hg Hok Hr) as I.
  pose proof (inv_perm _ _ _ I) as Hp.
  split; [|split; [|split; [|split]]].
  - intros v Hv. assert (Hc : In v (chain s)) by (eapply Permutation_in; eassumption).
    split; [|eapply inv_chain_le_last; eassumption].
    pose proof (inv_pos _ _ _ I) as Hpos. rewrite Forall_forall in Hpos. apply Hpos. exact Hc.
  - intros Hne. eapply Permutation_in; [apply Permutation_sym; exact Hp|].
    rewrite (inv_last _ _ _ I). destruct (chain s) as [|a r]; [|left; reflexivity].
    apply Permutation_sym, Permutation_nil in Hp. contradiction.
  - intros He. rewrite He in Hp. apply Permutation_nil in Hp.
    rewrite (inv_last _ _ _ I), Hp. reflexivity.
  - exact Hp.
  - apply (inv_sorted _ _ _ I).
Qed.

Lemma c18_cas_step B N M ls s t s' : guard B N M ls -> run step (init N M) ls = Some s ->
  step s (Cas t) = Some s' ->
  (last s' = last s /\ chain s' = chain s /\ handed_out s' = handed_out s) \/
  (last s < last s' /\ chain s' = last s' :: chain s /\
   exists th, nth_error (threads s') t = Some th /\ hd_error (t_out th) = Some (last s')).
Proof.
  intros (HB & Hg & Hok) Hr Hs. pose proof (inv_run _ _ _ _ _ HB Hg Hok Hr) as I.
  cbn [step] in Hs. destruct (nth_error (threads s) t) as [th|] eqn:En; [|discriminate].
  destruct (nth_split _ _ _ En) as (l1 & l2 & E & El1 & Hu).
  destruct (t_pc th) as [|l|l cur] eqn:Ep; try discriminate.
  pose proof (inv_threads _ _ _ I) as Hth. rewrite Forall_forall in Hth.
  assert (Hin : In th (threads s)) by (rewrite E; apply in_or_app; right; left; reflexivity).
  specialize (Hth _ Hin). unfold thread_ok in Hth. rewrite Ep in Hth. destruct Hth as (_ & _ & Hc).
  destruct (Z.eqb_spec (last s) l) as [El|Nl]; injection Hs as <-.
  - right. cbn [last chain threads]. split; [lia|]. split; [reflexivity|].
    exists (mkThread Idle (pred (t_todo th)) (cur :: t_out th)). split; [|reflexivity].
    rewrite Hu.
    subst t. rewrite nth_error_app2 by lia. rewrite Nat.sub_diag. reflexivity.
  - left. unfold set_thread. cbn [last chain threads]. split; [reflexivity|]. split; [reflexivity|].
    unfold handed_out. cbn [threads]. rewrite Hu, E, !map_app. reflexivity.
Qed.

Lemma c18_distinct B N M ls s : guard B N M ls -> run step (init N M) ls = Some s ->
  NoDup (handed_out s).
Proof.
  intros G Hr. destruct (c18_inv _ _ _ _ _ G Hr) as (_ & _ & _ & Hp & Hs).
  eapply Permutation_NoDup; [apply Permutation_sym; exact Hp|]. apply ssorted_gt_NoDup. exact Hs.
Qed.

Lemma c18_thread_mono B N M ls s th : guard B N M ls -> run step (init N M) ls = Some s ->
  In th (threads s) -> StronglySorted Z.lt (rev (t_out th)).
Proof.
  intros (HB & Hg & Hok) Hr Hin. pose proof (inv_run _ _ _ _ _ HB Hg Hok Hr) as I.
  pose proof (inv_mono _ _ _ I) as Hm. rewrite Forall_forall in Hm.
  apply ssorted_rev. apply Hm. exact Hin.
Qed.

(* ---------------- explicit statement timestamp ---------------- *)

Lemma choose_ts_explicit t gen : choose_ts (Some t) gen = Some t /\ gen_consulted (Some t) = false.
Proof. split; reflexivity. Qed.

Lemma choose_ts_generated gen : choose_ts None gen = gen /\ gen_consulted None = true.
Proof. split; reflexivity. Qed.

(* ---------------- acceptors ---------------- *)

Lemma incr_from_sound l : forall p, incr_from p l = true -> StronglySorted Z.lt (p :: l).
Proof.
  induction l as [|x r IH]; intros p H; cbn [incr_from] in H.
  - constructor; constructor.
  - destruct (Z.ltb_spec p x) as [Hlt|]; [|discriminate]. specialize (IH _ H).
    constructor; [exact IH|]. constructor; [exact Hlt|].
    apply StronglySorted_inv in IH as [_ Hf]. eapply Forall_impl; [|exact Hf]. cbv beta. intros; lia.
Qed.

Lemma incr_from_complete l : forall p, StronglySorted Z.lt (p :: l) -> incr_from p l = true.
Proof.
  induction l as [|x r IH]; intros p H; cbn [incr_from]; [reflexivity|].
  apply StronglySorted_inv in H as [Hs Hf]. apply Forall_cons_iff in Hf as [Hpx _].
  destruct (Z.ltb_spec p x); [|lia]. apply IH. exact Hs.
Qed.

Lemma strictly_incr_iff l : strictly_incr l = true <-> StronglySorted Z.lt l.
Proof.
  destruct l as [|x r]; cbn [strictly_incr].
  - split; [constructor|reflexivity].
  - split; [apply incr_from_sound|apply incr_from_complete].
Qed.

(* bits_acc p acc = (bits of p, most significant first, leading 1 dropped) ++ acc *)
Fixpoint bits_lsb (p : positive) : list bool :=
  match p with xH => [] | xO q => false :: bits_lsb q | xI q => true :: bits_lsb q end.

Lemma bits_acc_spec p : forall acc, bits_acc p acc = rev (bits_lsb p) ++ acc.
Proof.
  induction p as [q IH|q IH|]; intros acc; cbn [bits_acc bits_lsb rev]; [| |reflexivity];
    rewrite IH, <- app_assoc; reflexivity.
Qed.

Lemma bits_lsb_inj p : forall q, bits_lsb p = bits_lsb q -> p = q.
Proof.
  induction p as [p IH|p IH|]; intros [q|q|] H; cbn [bits_lsb] in H; try discriminate;
    try reflexivity; injection H as H; f_equal; apply IH; exact H.
Qed.

Lemma bits_acc_inj p q : bits_acc p [] = bits_acc q [] -> p = q.
Proof.
  rewrite !bits_acc_spec, !app_nil_r. intros H. apply bits_lsb_inj.
  rewrite <- (rev_involutive (bits_lsb p)), H. apply rev_involutive.
Qed.

Lemma zcode_inj a b : zcode a = zcode b -> a = b.
Proof.
  destruct a, b; cbn [zcode]; intros H; try discriminate; try reflexivity;
    injection H as H; apply bits_acc_inj in H; subst; reflexivity.
Qed.

Lemma pmem_leaf k : pmem k PLeaf = false.
Proof. destruct k; reflexivity. Qed.

Fixpoint key_eqb (a b : list bool) : bool :=
  match a, b with
  | [], [] => true
  | x :: a', y :: b' => Bool.eqb x y && key_eqb a' b'
  | _, _ => false
  end.
Lemma key_eqb_eq a : forall b, key_eqb a b = true <-> a = b.
Proof.
  induction a as [|x a IH]; intros [|y b]; cbn [key_eqb]; try (split; [discriminate|discriminate]).
  - split; reflexivity.
  - rewrite andb_true_iff, Bool.eqb_true_iff, IH. split; [intros [-> ->]; reflexivity|].
    intros H; injection H as -> ->. split; reflexivity.
Qed.

Lemma pmem_padd q : forall t k, pmem k (padd q t) = key_eqb k q || pmem k t.
Proof.
  induction q as [|b q IH]; intros t k.
  - destruct t as [|l h r]; destruct k as [|[|] k]; cbn [padd pmem key_eqb orb]; rewrite ?pmem_leaf; reflexivity.
  - destruct b; destruct t as [|l h r]; destruct k as [|[|] k]; cbn [padd pmem key_eqb Bool.eqb andb orb];
      rewrite ?IH, ?pmem_leaf, ?orb_false_r; reflexivity.
Qed.

(* [t] represents exactly the codes of the list [S] *)
Definition repr (t : ptrie) (S : list Z) : Prop := forall z, pmem (zcode z) t = true <-> In z S.

Lemma repr_leaf : repr PLeaf [].
Proof. intros z. rewrite pmem_leaf. cbn [In]. split; [discriminate|contradiction]. Qed.

Lemma repr_add t S x : repr t S -> repr (padd (zcode x) t) (x :: S).
Proof.
  intros H z. rewrite pmem_padd, orb_true_iff, (H z). cbn [In].
  split; intros [E|E]; try (right; exact E); left.
  - apply key_eqb_eq in E. apply zcode_inj in E. congruence.
  - subst. apply key_eqb_eq. reflexivity.
Qed.

Lemma add_all_sound l : forall t S t', repr t S -> add_all l t = Some t' ->
  repr t' (rev l ++ S) /\ NoDup l /\ (forall x, In x l -> ~ In x S).
Proof.
  induction l as [|x r IH]; intros t S t' Hr H; cbn [add_all] in H.
  - injection H as <-. split; [exact Hr|]. split; [constructor|]. intros ? [].
  - destruct (pmem (zcode x) t) eqn:Em; [discriminate|].
    assert (HxS : ~ In x S) by (intros Hin; apply (Hr x) in Hin; congruence).
    destruct (IH _ _ _ (repr_add _ _ x Hr) H) as (Hr' & Hnd & Hdis).
    split; [|split].
    + cbn [rev]. rewrite <- app_assoc. exact Hr'.
    + constructor; [|exact Hnd]. intros Hin. apply (Hdis _ Hin). left. reflexivity.
    + intros y [->|Hy]; [exact HxS|]. intros HyS. apply (Hdis _ Hy). right. exact HyS.
Qed.

Lemma add_all_lists_sound ls : forall t S t', repr t S -> add_all_lists ls t = Some t' ->
  NoDup (concat ls) /\ (forall x, In x (concat ls) -> ~ In x S).
Proof.
  induction ls as [|l r IH]; intros t S t' Hr H; cbn [add_all_lists concat] in *.
  - split; [constructor|]. intros ? [].
  - destruct (add_all l t) as [t1|] eqn:E1; [|discriminate].
    destruct (add_all_sound _ _ _ _ Hr E1) as (Hr1 & Hnd1 & Hd1).
    destruct (IH _ _ _ Hr1 H) as (Hnd2 & Hd2).
    split.
    + clear -Hnd1 Hnd2 Hd2. induction l as [|a l IHl]; cbn [app]; [exact Hnd2|].
      apply NoDup_cons_iff in Hnd1 as [Ha Hnd1]. constructor.
      * intros Hin. apply in_app_or in Hin as [Hin|Hin]; [contradiction|].
        apply (Hd2 _ Hin). apply in_or_app. left. apply in_rev in Hin.
        apply in_or_app. cbn [rev]. right. left. reflexivity.
      * apply IHl; [exact Hnd1|]. intros x Hx Hbad. apply (Hd2 _ Hx).
        apply in_app_or in Hbad as [Hb|Hb]; apply in_or_app; [left|right; exact Hb].
        cbn [rev]. apply in_or_app. left. exact Hb.
    + intros x Hx HS. apply in_app_or in Hx as [Hx|Hx].
      * apply (Hd1 _ Hx HS).
      * apply (Hd2 _ Hx). apply in_or_app. right. exact HS.
Qed.

Lemma all_distinct_sound ls : all_distinct ls = true -> NoDup (concat ls).
Proof.
  unfold all_distinct. destruct (add_all_lists ls PLeaf) as [t|] eqn:E; [|discriminate].
  intros _. apply (add_all_lists_sound _ _ _ _ repr_leaf E).
Qed.

Lemma add_all_complete l : forall t S, repr t S -> NoDup l -> (forall x, In x l -> ~ In x S) ->
  exists t', add_all l t = Some t' /\ repr t' (rev l ++ S).
Proof.
  induction l as [|x r IH]; intros t S Hr Hnd Hd; cbn [add_all].
  - exists t. split; [reflexivity|exact Hr].
  - apply NoDup_cons_iff in Hnd as [Hx Hnd].
    destruct (pmem (zcode x) t) eqn:Em.
    + apply (Hr x) in Em. exfalso. apply (Hd x); [left; reflexivity|exact Em].
    + destruct (IH _ _ (repr_add _ _ x Hr) Hnd) as (t' & E & Hr').
      * intros y Hy [->|HyS]; [contradiction|]. apply (Hd y); [right; exact Hy|exact HyS].
      * exists t'. split; [exact E|]. cbn [rev]. rewrite <- app_assoc. exact Hr'.
Qed.

Lemma nodup_app_l {A} (l r : list A) : NoDup (l ++ r) -> NoDup l.
Proof.
  induction l as [|a l IH]; cbn [app]; intros H; [constructor|].
  apply NoDup_cons_iff in H as [Ha H]. constructor; [|apply IH; exact H].
  intros Hin. apply Ha. apply in_or_app. left. exact Hin.
Qed.
Lemma nodup_app_r {A} (l r : list A) : NoDup (l ++ r) -> NoDup r.
Proof.
  induction l as [|a l IH]; cbn [app]; intros H; [exact H|].
  apply NoDup_cons_iff in H as [_ H]. apply IH. exact H.
Qed.

Lemma add_all_lists_complete ls : forall t S, repr t S -> NoDup (concat ls) ->
  (forall x, In x (concat ls) -> ~ In x S) -> exists t', add_all_lists ls t = Some t'.
Proof.
  induction ls as [|l r IH]; intros t S Hr Hnd Hd; cbn [add_all_lists concat] in *.
  - exists t. reflexivity.
  - assert (Hl : NoDup l) by (eapply nodup_app_l; exact Hnd).
    assert (Hrr : NoDup (concat r)) by (eapply nodup_app_r; exact Hnd).
    destruct (add_all_complete l t S Hr Hl) as (t1 & E1 & Hr1).
    { intros x Hx. apply Hd. apply in_or_app. left. exact Hx. }
    rewrite E1. apply (IH _ _ Hr1 Hrr).
    intros x Hx Hbad. apply in_app_or in Hbad as [Hb|Hb].
    + apply in_rev in Hb. clear -Hnd Hx Hb. induction l as [|a l IHl]; [contradiction|].
      cbn [app] in Hnd. apply NoDup_cons_iff in Hnd as [Ha Hnd]. destruct Hb as [->|Hb].
      * apply Ha. apply in_or_app. right. exact Hx.
      * apply IHl; assumption.
    + apply (Hd x); [apply in_or_app; right; exact Hx|exact Hb].
Qed.

Lemma all_distinct_complete ls : NoDup (concat ls) -> all_distinct ls = true.
Proof.
  intros H. unfold all_distinct.
  destruct (add_all_lists_complete ls PLeaf [] repr_leaf H) as (t & ->); [|reflexivity].
  intros ? _ [].
Qed.

(* the property predicate means what it says ... *)
Lemma prop_ok_iff seqs :
  prop_ok seqs = true <-> (Forall (StronglySorted Z.lt) seqs /\ NoDup (concat seqs)).
Proof.
  unfold prop_ok. rewrite andb_true_iff, forallb_forall, Forall_forall. split.
  - intros [H1 H2]. split; [|apply all_distinct_sound; exact H2].
    intros l Hl. apply strictly_incr_iff. apply H1. exact Hl.
  - intros [H1 H2]. split; [|apply all_distinct_complete; exact H2].
    intros l Hl. apply strictly_incr_iff. apply H1. exact Hl.
Qed.

(* ... and every run of the model satisfies it (observed sequences, oldest first) *)
Definition observed (s : state) : list (list Z) := map (fun th => rev (t_out th)) (threads s).

Lemma concat_observed_perm ths :
  Permutation (concat (map (fun th => rev (t_out th)) ths)) (concat (map t_out ths)).
Proof.
  induction ths as [|th r IH]; cbn [map concat]; [constructor|].
  apply Permutation_app; [apply Permutation_sym, Permutation_rev|exact IH].
Qed.

Lemma c18_model_accepted B N M ls s : guard B N M ls -> run step (init N M) ls = Some s ->
  prop_ok (observed s) = true.
Proof.
  intros G Hr. apply prop_ok_iff. split.
  - unfold observed. apply Forall_forall. intros l Hl. apply in_map_iff in Hl as (th & <- & Hin).
    eapply c18_thread_mono; eassumption.
  - eapply Permutation_NoDup; [apply Permutation_sym, concat_observed_perm|].
    eapply c18_distinct; eassumption.
Qed.

Lemma all_below_iff f l : all_below f l = true <-> Forall (fun v => v < f) l.
Proof.
  induction l as [|x r IH]; cbn [all_below]; [split; [constructor|reflexivity]|].
  destruct (Z.ltb_spec x f) as [Hlt|Hge].
  - rewrite IH. split; [intros H; constructor; assumption|intros H; apply Forall_cons_iff in H; apply H].
  - split; [discriminate|]. intros H. apply Forall_cons_iff in H as [H _]. lia.
Qed.

(* a bracketed single-thread sample is accepted only if some clock reading inside the bracket
   makes the model return exactly the observed value *)
Lemma accept_sample_sound lastv t0 v t1 :
  0 <= lastv < i64_max -> 0 <= t0 -> t1 <= i64_max ->
  accept_sample lastv t0 v t1 = true ->
  lastv < v /\
  (t0 <= t1 -> exists now, t0 <= now <= t1 /\ v = compute_next lastv (Some now)).
Proof.
  intros Hl H0 H1. unfold accept_sample.
  assert (E : wrap64 (lastv + 1) = lastv + 1) by (apply wrap64_id; unfold i64_min, i64_max in *; lia).
  destruct (Z.ltb_spec t1 t0) as [Hb|Hb].
  - intros H. apply Z.ltb_lt in H. split; [exact H|lia].
  - rewrite orb_true_iff, !andb_true_iff. intros [[Hv Ht]|[[Hv Ht0] Ht1]].
    + apply Z.eqb_eq in Hv. apply Z.leb_le in Ht. split; [lia|]. intros _. exists t0.
      split; [lia|]. unfold compute_next. rewrite (wrap64_id t0) by (unfold i64_min, i64_max in *; lia).
      cbv zeta. destruct (Z.gtb_spec t0 lastv); lia.
    + apply Z.ltb_lt in Hv. apply Z.leb_le in Ht0. apply Z.leb_le in Ht1. split; [exact Hv|].
      intros _. exists v. split; [lia|]. unfold compute_next.
      rewrite (wrap64_id v) by (unfold i64_min, i64_max in *; lia).
      cbv zeta. destruct (Z.gtb_spec v lastv); lia.
Qed.

(* and every model outcome is accepted: completeness of the bracket acceptor *)
Lemma accept_sample_complete lastv t0 now t1 :
  0 <= lastv < i64_max -> 0 <= t0 <= now -> now <= t1 -> t1 <= i64_max ->
  accept_sample lastv t0 (compute_next lastv (Some now)) t1 = true.
Proof.
  intros Hl H0 H1 H2. unfold accept_sample.
  assert (E : wrap64 (lastv + 1) = lastv + 1) by (apply wrap64_id; unfold i64_min, i64_max in *; lia).
  destruct (Z.ltb_spec t1 t0) as [Hb|Hb]; [lia|].
  unfold compute_next. rewrite (wrap64_id now) by (unfold i64_min, i64_max in *; lia). cbv zeta.
  rewrite orb_true_iff, !andb_true_iff.
  destruct (Z.gtb_spec now lastv) as [Hg|Hg].
  - right. repeat split; [apply Z.ltb_lt|apply Z.leb_le|apply Z.leb_le]; lia.
  - left. rewrite E. split; [apply Z.eqb_eq|apply Z.leb_le]; lia.
Qed.

(* the overflow guard is needed: with a clock reading of i64::MAX the next value wraps *)
Lemma c18_overflow_witness :
  exists ls s th, run step (init 1 2) ls = Some s /\ nth_error (threads s) 0 = Some th /\
                  t_out th = [i64_min; i64_max].
Proof.
  exists [Load 0; Clock 0 (Some i64_max); Cas 0; Load 0; Clock 0 (Some 5); Cas 0].
  eexists. eexists. split; [vm_compute; reflexivity|]. split; vm_compute; reflexivity.
Qed.


(* ---------------- real-time order across threads ---------------- *)

Lemma nth_upd_same {A} (l : list A) n x y : nth_error l n = Some y -> nth_error (upd_nth n x l) n = Some x.
Proof.
  revert n; induction l as [|a r IH]; intros [|n] H; cbn [nth_error upd_nth] in *; try discriminate; auto.
Qed.
Lemma nth_upd_other {A} (l : list A) n m x : n <> m -> nth_error (upd_nth n x l) m = nth_error l m.
Proof.
  revert n m; induction l as [|a r IH]; intros [|n] [|m] H; cbn [nth_error upd_nth]; auto; try congruence.
Qed.

(* what thread [t] has obtained since a state in which it was between calls and `last` was L0 *)
Definition since (L0 : Z) (out0 : list Z) (t : nat) (s : state) : Prop :=
  L0 <= last s /\
  exists th newer, nth_error (threads s) t = Some th /\ t_out th = newer ++ out0 /\
    Forall (fun v => L0 < v) newer /\
    match t_pc th with Idle => True | Loaded l => L0 <= l | Computed l _ => L0 <= l end.

Lemma since_step B NM L0 out0 t s lb s' :
  0 <= B -> B + Z.of_nat NM < i64_max ->
  Inv B NM s -> since L0 out0 t s -> gstep B s lb = Some s' -> since L0 out0 t s'.
Proof.
  intros HB Hg I (HL & th & newer & Hn & Ho & Hf & Hp) Hs.
  unfold gstep in Hs. destruct (label_ok B lb) eqn:Hok; [|discriminate]. unfold since.
  assert (Hmono : forall u thu l cur, nth_error (threads s) u = Some thu -> t_pc thu = Computed l cur ->
                                      last s = l -> last s < cur).
  { intros u thu l cur Hu Hpc El. pose proof (inv_threads _ _ _ I) as Hth. rewrite Forall_forall in Hth.
    apply nth_error_In in Hu. specialize (Hth _ Hu). unfold thread_ok in Hth. rewrite Hpc in Hth. lia. }
  destruct lb as [u|u c|u]; cbn [step] in Hs;
    destruct (nth_error (threads s) u) as [thu|] eqn:Eu; try discriminate.
  - (* Load *)
    destruct (t_pc thu) eqn:Epu; try discriminate. destruct (t_todo thu); [discriminate|].
    injection Hs as <-. unfold set_thread. cbn [last threads]. split; [exact HL|].
    destruct (Nat.eq_dec u t) as [->|Hne].
    + rewrite Hn in Eu. injection Eu as <-. eexists. exists newer.
      split; [eapply nth_upd_same; exact Hn|]. cbn [t_out t_pc]. auto.
    + exists th, newer. rewrite nth_upd_other by exact Hne. auto.
  - (* Clock *)
    destruct (t_pc thu) eqn:Epu; try discriminate.
    injection Hs as <-. unfold set_thread. cbn [last threads]. split; [exact HL|].
    destruct (Nat.eq_dec u t) as [->|Hne].
    + rewrite Hn in Eu. injection Eu as <-. eexists. exists newer.
      split; [eapply nth_upd_same; exact Hn|]. cbn [t_out t_pc]. rewrite Epu in Hp. auto.
    + exists th, newer. rewrite nth_upd_other by exact Hne. auto.
  - (* Cas *)
    destruct (t_pc thu) as [|l|l cur] eqn:Epu; try discriminate.
    destruct (Z.eqb_spec (last s) l) as [El|Nl]; injection Hs as <-.
    + pose proof (Hmono _ _ _ _ Eu Epu El) as Hlt. cbn [last threads]. split; [lia|].
      destruct (Nat.eq_dec u t) as [->|Hne].
      * rewrite Hn in Eu. injection Eu as <-. eexists. exists (cur :: newer).
        split; [eapply nth_upd_same; exact Hn|]. cbn [t_out t_pc]. rewrite Ho.
        split; [reflexivity|]. split; [|exact Logic.I]. constructor; [|exact Hf]. rewrite Epu in Hp. lia.
      * exists th, newer. rewrite nth_upd_other by exact Hne. auto.
    + unfold set_thread. cbn [last threads]. split; [exact HL|].
      destruct (Nat.eq_dec u t) as [->|Hne].
      * rewrite Hn in Eu. injection Eu as <-. eexists. exists newer.
        split; [eapply nth_upd_same; exact Hn|]. cbn [t_out t_pc]. auto.
      * exists th, newer. rewrite nth_upd_other by exact Hne. auto.
Qed.

Lemma sched_ok_app B l1 l2 : sched_ok B (l1 ++ l2) = true -> sched_ok B l1 = true /\ sched_ok B l2 = true.
Proof. unfold sched_ok. rewrite forallb_app. apply andb_true_iff. Qed.

(* Every value a thread obtains from calls it starts after a state s1 exceeds `last s1`, hence
   (C18_inv) every value handed out to ANY thread before s1: a call that starts after another
   call has returned gets a strictly larger timestamp. *)
Lemma c18_call_order B N M ls1 ls2 s1 s2 t th1 th2 :
  guard B N M (ls1 ++ ls2) ->
  run step (init N M) ls1 = Some s1 -> nth_error (threads s1) t = Some th1 -> t_pc th1 = Idle ->
  run step s1 ls2 = Some s2 -> nth_error (threads s2) t = Some th2 ->
  exists newer, t_out th2 = newer ++ t_out th1 /\ Forall (fun v => last s1 < v) newer /\
                (forall v, In v (handed_out s1) -> v <= last s1).
Proof.
  intros (HB & Hg & Hok) Hr1 Hn1 Hp1 Hr2 Hn2.
  apply sched_ok_app in Hok as [Hok1 Hok2].
  pose proof (inv_run _ _ _ _ _ HB Hg Hok1 Hr1) as I1.
  rewrite (run_gstep B) in Hr2 by exact Hok2.
  assert (H : Inv B (N * M) s2 /\ since (last s1) (t_out th1) t s2).
  { apply (run_invariant _ _ (gstep B) (fun s => Inv B (N * M) s /\ since (last s1) (t_out th1) t s)) with (ls := ls2) (s := s1).
    - intros s lb s' [I S] Hs. split; [eapply inv_step; eassumption|eapply since_step; eassumption].
    - split; [exact I1|]. split; [lia|]. exists th1, []. rewrite Hp1. repeat split; auto.
    - exact Hr2. }
  destruct H as [_ (_ & th & newer & Hn & Ho & Hf & _)]. rewrite Hn2 in Hn. injection Hn as <-.
  exists newer. split; [exact Ho|]. split; [exact Hf|].
  intros v Hv. destruct (c18_inv B N M ls1 s1) as (H1 & _); [repeat split; assumption|exact Hr1|].
  apply H1. exact Hv.
Qed.

(* ---------------- the two-phase acceptor ---------------- *)

Lemma max_from_spec l : forall m, m <= max_from m l /\ Forall (fun v => v <= max_from m l) l.
Proof.
  induction l as [|x r IH]; intros m; cbn [max_from]; [split; [lia|constructor]|].
  destruct (IH (Z.max m x)) as [H1 H2]. split; [lia|]. constructor; [lia|exact H2].
Qed.

Lemma fold_max_from_spec ls : forall m,
  m <= fold_left max_from ls m /\ Forall (Forall (fun v => v <= fold_left max_from ls m)) ls.
Proof.
  induction ls as [|l r IH]; intros m; cbn [fold_left]; [split; [lia|constructor]|].
  destruct (IH (max_from m l)) as [H1 H2]. destruct (max_from_spec l m) as [H3 H4].
  split; [lia|]. constructor; [|exact H2].
  eapply Forall_impl; [|exact H4]. cbv beta. intros; lia.
Qed.

Lemma all_above_iff m l : all_above m l = true <-> Forall (fun v => m < v) l.
Proof.
  induction l as [|x r IH]; cbn [all_above]; [split; [constructor|reflexivity]|].
  destruct (Z.ltb_spec m x) as [Hlt|Hge].
  - rewrite IH. split; [intros H; constructor; assumption|intros H; apply Forall_cons_iff in H; apply H].
  - split; [discriminate|]. intros H. apply Forall_cons_iff in H as [H _]. lia.
Qed.

Lemma phase_ok_sound firsts seconds : phase_ok firsts seconds = true ->
  forall f a s b, In f firsts -> In a f -> In s seconds -> In b s -> a < b.
Proof.
  unfold phase_ok. rewrite forallb_forall. intros H f a s b Hf Ha Hs Hb.
  specialize (H _ Hs). apply all_above_iff in H. rewrite Forall_forall in H. specialize (H _ Hb).
  destruct (fold_max_from_spec firsts 0) as [_ Hm]. rewrite Forall_forall in Hm. specialize (Hm _ Hf).
  rewrite Forall_forall in Hm. specialize (Hm _ Ha). lia.
Qed.

(* ---------------- all frames of one request ---------------- *)
Lemma frames_ts_spec stmt gen k :
  List.length (frames_ts stmt gen k) = S k /\
  (forall f, In f (frames_ts stmt gen k) -> f = choose_ts stmt gen) /\
  (forall t, stmt = Some t -> frames_ts stmt gen k = repeat (Some t) (S k)).
Proof.
  unfold frames_ts. split; [apply repeat_length|]. split.
  - intros f H. apply repeat_spec in H. exact H.
  - intros t ->. reflexivity.
Qed.

(* ---------------- the warning branch ---------------- *)
(* no overflow as long as the reading, as an i64, is not below last - i64::MAX; in particular for
   every reading below 2^63 microseconds when last >= 0 ... *)
Lemma warn_sub_safe last m : 0 <= last <= i64_max -> 0 <= m < 2 ^ 63 ->
  warn_sub_overflows last (Some m) = false /\
  forall w, compute_next_checked w last (Some m) = Some (compute_next last (Some m)).
Proof.
  intros Hl Hm. assert (E : warn_sub_overflows last (Some m) = false).
  { unfold warn_sub_overflows. rewrite (wrap64_id m) by (unfold i64_min, i64_max; lia). cbv zeta.
    apply andb_false_iff. right. apply Z.ltb_ge. unfold i64_max in *. lia. }
  split; [exact E|]. intros w. unfold compute_next_checked. rewrite E, andb_false_r. reflexivity.
Qed.
Lemma warn_sub_safe_preepoch w last : compute_next_checked w last None = Some (compute_next last None).
Proof. unfold compute_next_checked. cbn [warn_sub_overflows]. rewrite andb_false_r. reflexivity. Qed.

(* ... and it does overflow for a reading of exactly 2^63 microseconds after any positive value *)
Lemma warn_sub_overflow_witness :
  warn_sub_overflows 1700000000000000 (Some (2 ^ 63)) = true /\
  compute_next_checked true 1700000000000000 (Some (2 ^ 63)) = None /\
  compute_next_checked false 1700000000000000 (Some (2 ^ 63)) = Some 1700000000000001.
Proof. repeat split; vm_compute; reflexivity. Qed.

(* ---------------- deepening round 3: specifications ---------------- *)

(* independent specification of compute_next: the LEAST value that is above `last` and not below the reading
   (pre-epoch reading: the least value above `last`) *)
Definition least_above (last : Z) (c : clock) (v : Z) : Prop :=
  last < v /\ (forall m, c = Some m -> m <= v) /\
  forall w, last < w -> (forall m, c = Some m -> m <= w) -> v <= w.

Lemma compute_next_spec last c v :
  0 <= last < i64_max -> (forall m, c = Some m -> 0 <= m <= i64_max) ->
  (v = compute_next last c <-> least_above last c v).
Proof.
  intros Hl Hc. unfold least_above, compute_next.
  assert (E : wrap64 (last + 1) = last + 1) by (apply wrap64_id; unfold i64_min, i64_max in *; lia).
  destruct c as [m|].
  - specialize (Hc m eq_refl). rewrite (wrap64_id m) by (unfold i64_min, i64_max in *; lia). cbv zeta. rewrite E.
    destruct (Z.gtb_spec m last) as [Hg|Hg].
    + split.
      * intros ->. split; [lia|]. split; [intros m0 H; injection H as <-; lia|].
        intros w Hw Hm. apply (Hm m eq_refl).
      * intros (H1 & H2 & H3). specialize (H2 m eq_refl).
        assert (v <= m) by (apply H3; [lia|intros m0 H; injection H as <-; lia]). lia.
    + split.
      * intros ->. split; [lia|]. split; [intros m0 H; injection H as <-; lia|]. intros w Hw _. lia.
      * intros (H1 & H2 & H3).
        assert (v <= last + 1) by (apply H3; [lia|intros m0 H; injection H as <-; lia]). lia.
  - rewrite E. split.
    + intros ->. split; [lia|]. split; [intros m H; discriminate|]. intros w Hw _. lia.
    + intros (H1 & _ & H3). assert (v <= last + 1) by (apply H3; [lia|intros m H; discriminate]). lia.
Qed.

(* and in closed form *)
Lemma compute_next_max last m : 0 <= last < i64_max -> 0 <= m <= i64_max ->
  compute_next last (Some m) = Z.max m (last + 1) /\ compute_next last None = last + 1.
Proof.
  intros Hl Hm. unfold compute_next.
  assert (E : wrap64 (last + 1) = last + 1) by (apply wrap64_id; unfold i64_min, i64_max in *; lia).
  rewrite (wrap64_id m) by (unfold i64_min, i64_max in *; lia). cbv zeta. rewrite E.
  split; [|reflexivity]. destruct (Z.gtb_spec m last); lia.
Qed.

(* the exact boundary of the warning-branch overflow: for a reading that fits a u64, the i64 subtraction
   `last - u_cur` overflows iff the reading lies in [2^63, 2^63 + last] *)
Lemma warn_sub_overflow_iff last m : 0 <= last <= i64_max -> 0 <= m < 2 ^ 64 ->
  (warn_sub_overflows last (Some m) = true <-> 2 ^ 63 <= m <= 2 ^ 63 + last).
Proof.
  intros Hl Hm. unfold warn_sub_overflows. cbv zeta.
  rewrite andb_true_iff, Z.leb_le, Z.ltb_lt.
  destruct (Z.lt_ge_cases m (2 ^ 63)) as [Hs|Hb].
  - rewrite (wrap64_id m) by (unfold i64_min, i64_max in *; lia). unfold i64_max in *. lia.
  - assert (E : wrap64 m = m - 2 ^ 64).
    { unfold wrap64. replace (m + 2 ^ 63) with ((m - 2 ^ 63) + 1 * 2 ^ 64) by lia.
      rewrite Z.mod_add by lia. rewrite Z.mod_small by lia. lia. }
    rewrite E. unfold i64_max in *. lia.
Qed.

(* which timestamp a frame carries, as a characterisation *)
Lemma frames_ts_iff stmt gen k f t :
  (In f (frames_ts stmt gen k) <-> f = choose_ts stmt gen) /\
  (choose_ts stmt gen = Some t <-> stmt = Some t \/ (stmt = None /\ gen = Some t)) /\
  (choose_ts stmt gen = None <-> stmt = None /\ gen = None) /\
  List.length (frames_ts stmt gen k) = S k /\
  (gen_consulted stmt = true <-> stmt = None).
Proof.
  unfold frames_ts. repeat split.
  - intros H. apply repeat_spec in H. exact H.
  - intros ->. cbn [repeat]. left. reflexivity.
  - destruct stmt as [s|]; cbn; intros H; [left; exact H|right; split; [reflexivity|exact H]].
  - intros [->|[-> ->]]; reflexivity.
  - destruct stmt; cbn in H; [discriminate|reflexivity].
  - destruct stmt; cbn in H; [discriminate|exact H].
  - intros [-> ->]. reflexivity.
  - apply repeat_length.
  - destruct stmt; cbn; [discriminate|reflexivity].
  - intros ->. reflexivity.
Qed.
