(* C03 x C11: every token the partitioners produce is an i64 (the domain of Sharder::shard_of),
   Murmur3 tokens and CDC tokens of keys of >= 8 bytes are never i64::MIN, and the shard
   computed from a hashed key is ScyllaDB's shard of the specified token. *)
From SV Require Import Base.Prelude Base.Bytes Model.Murmur Model.Shard.
From SV Require Import Proofs.Murmur_proofs Proofs.Shard_proofs.
Open Scope Z_scope.

Lemma firstn_bytes_ok n (b : bytes) : bytes_ok b -> bytes_ok (firstn n b).
Proof.
  unfold bytes_ok. revert b; induction n as [|n IH]; intros b H; [constructor|].
  destruct b as [|x b]; [constructor|]. inversion H; subst. cbn [firstn]. constructor; [assumption|apply IH; assumption].
Qed.

Lemma cdc_token_range key : bytes_ok key -> - 2 ^ 63 <= cdc_token_spec key < 2 ^ 63.
Proof.
  intros Hb. unfold cdc_token_spec. destruct (length key <? 8)%nat eqn:E; [lia|].
  apply Nat.ltb_ge in E.
  pose proof (dec_signed_8_range (firstn 8 key)) as H.
  rewrite firstn_length_le in H by exact E. specialize (H eq_refl (firstn_bytes_ok 8 key Hb)).
  pose proof (j_normalize_range _ H). lia.
Qed.

Theorem token_spec_range p key : bytes_ok key -> - 2 ^ 63 <= token_spec p key < 2 ^ 63.
Proof.
  intros Hb. destruct p; cbn [token_spec].
  - pose proof (murmur3_token_range key). lia.
  - apply cdc_token_range. exact Hb.
Qed.

Theorem token_spec_not_min p key : bytes_ok key -> (p = PCdc -> (8 <= length key)%nat) ->
  token_spec p key <> - 2 ^ 63.
Proof.
  intros Hb Hc. destruct p; cbn [token_spec].
  - pose proof (murmur3_token_range key). lia.
  - specialize (Hc eq_refl). rewrite cdc_token_long by exact Hc.
    pose proof (dec_signed_8_range (firstn 8 key)) as H.
    rewrite firstn_length_le in H by exact Hc. specialize (H eq_refl (firstn_bytes_ok 8 key Hb)).
    pose proof (j_normalize_range _ H). lia.
Qed.

(* `token.value as u64` loses nothing on a token *)
Theorem token_as_u64_exact p key : bytes_ok key ->
  Z.of_N (i64_as_u64 (token_spec p key)) =
  (if token_spec p key <? 0 then token_spec p key + 2 ^ 64 else token_spec p key).
Proof.
  intros Hb. pose proof (token_spec_range p key Hb) as H. unfold i64_as_u64.
  rewrite Z2N.id by (apply Z.mod_pos_bound; lia).
  destruct (token_spec p key <? 0) eqn:E; lia.
Qed.

(* the shard of a hashed key, for every chunking *)
Theorem feed_shard p chunks n msb :
  (Z.of_nat (length (concat chunks)) < 2 ^ 63) -> (0 < n)%N -> (msb <= 63)%N ->
  shard_of n msb (feed p chunks) = spec_shard_of n msb (token_spec p (concat chunks)) /\
  (shard_of n msb (feed p chunks) < n)%N.
Proof.
  intros Hb Hn _. rewrite (feed_chunking p chunks Hb). split; [apply shard_of_spec|apply shard_of_lt; exact Hn].
Qed.
