(* Proofs about the response decoders (Model/FrameResp.v), part 1: truncation safety [psafe]
   and fuel sufficiency [noof] of every body decoder, for every custom-type parser. *)
From SV Require Import Base.Prelude Base.Bytes Model.FrameBase Model.FrameTypes Model.FrameResp
  Proofs.FrameBase_proofs Proofs.FrameTypes_proofs.
Open Scope N_scope.

Lemma psafe_read_bool : psafe read_bool. Proof. unfold read_bool. psafe_tac. Qed.
Lemma noof_read_bool : noof read_bool. Proof. unfold read_bool. noof_tac. Qed.
#[export] Hint Resolve psafe_read_bool : psafe.
#[export] Hint Resolve noof_read_bool : noof.

Lemma psafe_deser_error ft : psafe (deser_error ft).
Proof.
  unfold deser_error. apply psafe_bind; [auto with psafe|intros code].
  apply psafe_bind; [auto with psafe|intros reason]. apply psafe_bind; [|intros; apply psafe_ret].
  repeat apply psafe_if; try solve [psafe_tac].
  destruct (ft_rate_limit ft); psafe_tac.
Qed.
Lemma noof_deser_error ft : noof (deser_error ft).
Proof.
  unfold deser_error. apply noof_bind; [auto with noof|intros code].
  apply noof_bind; [auto with noof|intros reason]. apply noof_bind; [|intros; apply noof_ret].
  repeat apply noof_if; try solve [noof_tac].
  destruct (ft_rate_limit ft); noof_tac.
Qed.

Lemma psafe_read_arg_list : psafe read_arg_list. Proof. unfold read_arg_list. psafe_tac. Qed.
Lemma noof_read_arg_list : noof read_arg_list. Proof. unfold read_arg_list. noof_tac. Qed.
#[export] Hint Resolve psafe_read_arg_list : psafe.
#[export] Hint Resolve noof_read_arg_list : noof.

Lemma psafe_deser_schema_change : psafe deser_schema_change.
Proof. unfold deser_schema_change. psafe_tac. Qed.
Lemma noof_deser_schema_change : noof deser_schema_change.
Proof. unfold deser_schema_change. noof_tac. Qed.
#[export] Hint Resolve psafe_deser_schema_change : psafe.
#[export] Hint Resolve noof_deser_schema_change : noof.

Lemma read_host_ids_f_unfold fuel n :
  read_host_ids_f fuel n =
  if n =? 0 then ret []
  else match fuel with
       | O => fail EOutOfFuel
       | S f => bind read_string (fun s =>
                match parse_uuid_text s with
                | Some u => bind (read_host_ids_f f (n - 1)) (fun t => ret (u :: t))
                | None => fail EUuidParse
                end)
       end.
Proof. destruct fuel; reflexivity. Qed.
Lemma psafe_read_host_ids_f : forall fuel n, psafe (read_host_ids_f fuel n).
Proof.
  induction fuel as [|f IH]; intros n; rewrite read_host_ids_f_unfold; destruct (n =? 0); psafe_tac.
  destruct (parse_uuid_text a); psafe_tac.
Qed.
Lemma noof_read_host_ids n : noof (read_host_ids n).
Proof.
  unfold read_host_ids. remember (N.to_nat n) as f eqn:E. revert n E.
  induction f as [|f IH]; intros n E; rewrite read_host_ids_f_unfold.
  - assert (n = 0) by lia. subst. apply noof_ret.
  - destruct (n =? 0); [apply noof_ret|]. apply noof_bind; [auto with noof|intros s].
    destruct (parse_uuid_text s); [|apply noof_fail; discriminate].
    apply noof_bind; [apply IH; lia|intros; apply noof_ret].
Qed.
Lemma psafe_read_host_ids n : psafe (read_host_ids n).
Proof. apply psafe_read_host_ids_f. Qed.
#[export] Hint Resolve psafe_read_host_ids : psafe.
#[export] Hint Resolve noof_read_host_ids : noof.

Lemma psafe_deser_client_routes : psafe deser_client_routes.
Proof. unfold deser_client_routes. psafe_tac. Qed.
Lemma noof_deser_client_routes : noof deser_client_routes.
Proof. unfold deser_client_routes. noof_tac. Qed.
Lemma psafe_deser_event v2 : psafe (deser_event v2).
Proof. unfold deser_event. pose proof psafe_deser_client_routes. psafe_tac. Qed.
Lemma noof_deser_event v2 : noof (deser_event v2).
Proof. unfold deser_event. pose proof noof_deser_client_routes. noof_tac. Qed.

Lemma psafe_deser_rows_hdr ft : psafe (deser_rows_hdr ft).
Proof. unfold deser_rows_hdr. psafe_tac. Qed.
Lemma noof_deser_rows_hdr ft : noof (deser_rows_hdr ft).
Proof. unfold deser_rows_hdr. noof_tac. Qed.

Lemma consuming_repeatS {A} (p : parser A) n : n <> 0 -> consuming p -> consuming (repeatS p n).
Proof.
  intros Hn Hc b v r H. unfold repeatS in H. apply (repeat_f_consumes p Hc) in H. lia.
Qed.

Section WithCustom.
Variable custom : custom_parser.

Lemma psafe_deser_rows_meta h : psafe (deser_rows_meta custom h).
Proof.
  unfold deser_rows_meta. apply psafe_bind; [|intros md; psafe_tac].
  apply psafe_if; [apply psafe_ret|].
  apply psafe_bind; [psafe_tac|intros id]. apply psafe_bind; [|intros g].
  - apply psafe_if; [apply psafe_pmap, psafe_deser_table_spec|apply psafe_ret].
  - apply psafe_bind; [apply psafe_deser_col_specs|intros; apply psafe_ret].
Qed.

Lemma psafe_deser_rows ncols count : psafe (deser_rows ncols count).
Proof.
  unfold deser_rows. destruct (ncols =? 0) eqn:E; [apply psafe_ret|]. apply N.eqb_neq in E.
  apply psafe_repeatN; unfold deser_row; [apply psafe_repeatS; auto with psafe|].
  apply consuming_repeatS; [exact E|apply consuming_read_bytes_opt].
Qed.

Lemma psafe_deser_rows_full ft : psafe (deser_rows_full custom ft).
Proof.
  unfold deser_rows_full. apply psafe_bind; [apply psafe_deser_rows_hdr|intros h].
  apply psafe_bind; [apply psafe_deser_rows_meta|intros [[id cols] rc]].
  apply psafe_bind; [apply psafe_deser_rows|intros; apply psafe_ret].
Qed.

Lemma psafe_deser_prepared_metadata : psafe (deser_prepared_metadata custom).
Proof.
  unfold deser_prepared_metadata. apply psafe_bind; [auto with psafe|intros flags].
  apply psafe_bind; [auto with psafe|intros cc]. apply psafe_bind; [auto with psafe|intros pkc].
  apply psafe_bind; [apply psafe_tick_alloc_capped|intros _].
  apply psafe_bind; [apply psafe_repeatN; [auto with psafe|apply consuming_read_short]|intros pk].
  apply psafe_bind; [apply psafe_if; [apply psafe_pmap, psafe_deser_table_spec|apply psafe_ret]|intros g].
  apply psafe_bind; [apply psafe_deser_col_specs|intros; apply psafe_ret].
Qed.

Lemma psafe_deser_result_metadata ft : psafe (deser_result_metadata custom ft).
Proof.
  unfold deser_result_metadata. apply psafe_bind; [auto with psafe|intros flags].
  apply psafe_if; [apply psafe_fail|]. apply psafe_bind; [auto with psafe|intros cc].
  apply psafe_bind; [psafe_tac|intros ps]. apply psafe_bind; [psafe_tac|intros _].
  apply psafe_bind; [|intros; apply psafe_ret]. apply psafe_if; [apply psafe_ret|].
  apply psafe_bind; [apply psafe_if; [apply psafe_pmap, psafe_deser_table_spec|apply psafe_ret]|intros g].
  apply psafe_deser_col_specs.
Qed.

Lemma psafe_deser_prepared ft : psafe (deser_prepared custom ft).
Proof.
  unfold deser_prepared. apply psafe_bind; [auto with psafe|intros id].
  apply psafe_bind; [psafe_tac|intros rmid].
  apply psafe_bind; [apply psafe_deser_prepared_metadata|intros [[[flags cc] pk] cols]].
  apply psafe_bind; [apply psafe_deser_result_metadata|intros [[[[g nomd] rcc] ps] rcols]].
  destruct ps; psafe_tac.
Qed.

Lemma psafe_deser_result ft : psafe (deser_result custom ft).
Proof.
  unfold deser_result. apply psafe_bind; [auto with psafe|intros kind].
  repeat apply psafe_if; try apply psafe_pmap; try solve [psafe_tac];
    try apply psafe_deser_rows_full; try apply psafe_deser_prepared.
Qed.

Lemma psafe_deser_response ft v2 op : psafe (deser_response custom ft v2 op).
Proof.
  unfold deser_response. pose proof (psafe_deser_error ft). pose proof (psafe_deser_result ft).
  pose proof (psafe_deser_event v2). repeat apply psafe_if; psafe_tac.
Qed.

Lemma psafe_deser_extensions flags : psafe (deser_extensions flags).
Proof. unfold deser_extensions. psafe_tac. Qed.

(* the whole uncompressed body: extensions, then the message *)
Definition deser_body (ft : features) (v2 : bool) (flags op : N) : parser (extensions * response) :=
  bind (deser_extensions flags) (fun x => bind (deser_response custom ft v2 op) (fun r => ret (x, r))).
Lemma psafe_deser_body ft v2 flags op : psafe (deser_body ft v2 flags op).
Proof.
  unfold deser_body. apply psafe_bind; [apply psafe_deser_extensions|intros x].
  apply psafe_bind; [apply psafe_deser_response|intros; apply psafe_ret].
Qed.

(* ---- fuel ------------------------------------------------------------------------------------ *)
Hypothesis custom_noof : forall s, fst (custom s) <> Err EOutOfFuel.

Lemma noof_deser_rows_meta h : noof (deser_rows_meta custom h).
Proof.
  unfold deser_rows_meta. apply noof_bind; [|intros md; noof_tac].
  apply noof_if; [apply noof_ret|].
  apply noof_bind; [noof_tac|intros id]. apply noof_bind; [|intros g].
  - apply noof_if; [apply noof_pmap, noof_deser_table_spec|apply noof_ret].
  - apply noof_bind; [apply noof_deser_col_specs; exact custom_noof|intros; apply noof_ret].
Qed.
Lemma noof_deser_rows ncols count : noof (deser_rows ncols count).
Proof.
  unfold deser_rows. destruct (ncols =? 0) eqn:E; [apply noof_ret|]. apply N.eqb_neq in E.
  apply noof_repeatN; unfold deser_row; [apply noof_repeatS; auto with noof|].
  apply consuming_repeatS; [exact E|apply consuming_read_bytes_opt].
Qed.
Lemma noof_deser_rows_full ft : noof (deser_rows_full custom ft).
Proof.
  unfold deser_rows_full. apply noof_bind; [apply noof_deser_rows_hdr|intros h].
  apply noof_bind; [apply noof_deser_rows_meta|intros [[id cols] rc]].
  apply noof_bind; [apply noof_deser_rows|intros; apply noof_ret].
Qed.
Lemma noof_deser_prepared ft : noof (deser_prepared custom ft).
Proof.
  unfold deser_prepared. apply noof_bind; [auto with noof|intros id].
  apply noof_bind; [noof_tac|intros rmid].
  apply noof_bind; [|intros [[[flags0 cc0] pk0] cols0]].
  { unfold deser_prepared_metadata. apply noof_bind; [auto with noof|intros flags].
    apply noof_bind; [auto with noof|intros cc]. apply noof_bind; [auto with noof|intros pkc].
    apply noof_bind; [apply noof_tick_alloc_capped|intros _].
    apply noof_bind; [apply noof_repeatN; [auto with noof|apply consuming_read_short]|intros pk].
    apply noof_bind; [apply noof_if; [apply noof_pmap, noof_deser_table_spec|apply noof_ret]|intros g].
    apply noof_bind; [apply noof_deser_col_specs; exact custom_noof|intros; apply noof_ret]. }
  apply noof_bind; [|intros [[[[g nomd] rcc] ps] rcols]; destruct ps; noof_tac].
  unfold deser_result_metadata. apply noof_bind; [auto with noof|intros flags].
  apply noof_if; [apply noof_fail; discriminate|]. apply noof_bind; [auto with noof|intros cc].
  apply noof_bind; [noof_tac|intros ps]. apply noof_bind; [noof_tac|intros _].
  apply noof_bind; [|intros; apply noof_ret]. apply noof_if; [apply noof_ret|].
  apply noof_bind; [apply noof_if; [apply noof_pmap, noof_deser_table_spec|apply noof_ret]|intros g].
  apply noof_deser_col_specs; exact custom_noof.
Qed.
Lemma noof_deser_response ft v2 op : noof (deser_response custom ft v2 op).
Proof.
  assert (R : noof (deser_result custom ft)).
  { unfold deser_result. apply noof_bind; [auto with noof|intros kind].
    pose proof (noof_deser_rows_full ft). pose proof (noof_deser_prepared ft).
    repeat apply noof_if; noof_tac. }
  unfold deser_response. pose proof (noof_deser_error ft). pose proof (noof_deser_event v2).
  repeat apply noof_if; noof_tac.
Qed.
Lemma noof_deser_extensions flags : noof (deser_extensions flags).
Proof. unfold deser_extensions. noof_tac. Qed.

End WithCustom.
