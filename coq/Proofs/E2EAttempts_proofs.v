(* Soundness of the end-to-end certificate checkers of Model/E2EAttempts.v against the
   execution-loop model [fiber] (Model/Fiber.v) and its theorems (Proofs/C06_proofs.v). *)
From SV Require Import Base.Prelude Model.Retry Model.Fiber Model.E2EAttempts.
From SV Require Import Proofs.Retry_proofs Proofs.Fiber_proofs Proofs.C06_proofs.
Open Scope N_scope.

(* ---- small list facts ------------------------------------------------------------------ *)
Lemma memN_In x l : memN x l = true <-> In x l.
Proof.
  unfold memN. rewrite existsb_exists. split.
  - intros [y [Hy He]]. apply N.eqb_eq in He. now subst.
  - intros H. exists x. split; [assumption|apply N.eqb_refl].
Qed.

Lemma nodupb_NoDup l : nodupb l = true -> NoDup l.
Proof.
  induction l as [|x r IH]; cbn [nodupb]; intros H; [constructor|].
  apply andb_true_iff in H as [Hx Hr]. constructor; [|auto].
  intros Hin. apply memN_In in Hin. rewrite Hin in Hx. discriminate.
Qed.

Lemma filter_split {A} (f : A -> bool) l l1 x l2 :
  filter f l = l1 ++ x :: l2 ->
  exists p1 p2, l = p1 ++ x :: p2 /\ filter f p1 = l1 /\ filter f p2 = l2.
Proof.
  revert l1. induction l as [|a l IH]; cbn [filter]; intros l1 H.
  - destruct l1; discriminate.
  - destruct (f a) eqn:Hfa.
    + destruct l1 as [|b l1]; cbn in H.
      * injection H as -> Hl. exists [], l. cbn. auto.
      * injection H as -> Hl. destruct (IH _ Hl) as [p1 [p2 [-> [H1 H2]]]].
        exists (b :: p1), p2. cbn [filter app]. rewrite Hfa, H1. auto.
    + destruct (IH _ H) as [p1 [p2 [-> [H1 H2]]]].
      exists (a :: p1), p2. cbn [filter app]. rewrite Hfa. auto.
Qed.

Lemma Forall2_length {A B} {R : A -> B -> Prop} {l l'} : Forall2 R l l' -> List.length l = List.length l'.
Proof. induction 1; cbn; congruence. Qed.

(* ---- the relation the checker establishes between an attempt and a frame ------------------ *)
Inductive ans_of : attempt_out -> answer -> Prop :=
| ans_ok : ans_of AOk AnsOk
| ans_err e d : ans_of (AErr e d) (AnsErr e).

(* the frame was sent to the attempt's target with the attempt's consistency and answered with
   the attempt's outcome *)
Definition ev_obs (ev : event N) (f : frame) : Prop :=
  exists o, ev = EvAttempt (f_node f) (f_cl f) o /\ ans_of o (f_ans f).
(* ... the answer left open *)
Definition ev_obs_free (ev : event N) (f : frame) : Prop :=
  exists o, ev = EvAttempt (f_node f) (f_cl f) o.

Lemma ev_matches_obs ev f : ev_matches false ev f = true -> ev_obs ev f.
Proof.
  unfold ev_matches, ev_obs. destruct ev as [t|t cl o]; [discriminate|].
  intros H. apply andb_true_iff in H as [H Ho]. apply andb_true_iff in H as [Ht Hc].
  apply N.eqb_eq in Ht. subst t.
  destruct (consistency_eq_dec cl (f_cl f)) as [->|]; [|discriminate].
  exists o. split; [reflexivity|].
  cbn in Ho. destruct o as [|e d]; destruct (f_ans f) as [| |e']; try discriminate; [constructor|].
  destruct (attempt_error_eq_dec e e') as [->|]; [constructor|discriminate].
Qed.

Lemma ev_matches_obs_free b ev f : ev_matches b ev f = true -> ev_obs_free ev f.
Proof.
  unfold ev_matches, ev_obs_free. destruct ev as [t|t cl o]; [discriminate|].
  intros H. apply andb_true_iff in H as [H _]. apply andb_true_iff in H as [Ht Hc].
  apply N.eqb_eq in Ht. subst t.
  destruct (consistency_eq_dec cl (f_cl f)) as [->|]; [|discriminate]. now exists o.
Qed.

Lemma match_frames_Forall2 evs frs :
  match_frames false evs frs = true -> Forall2 ev_obs evs frs.
Proof.
  revert frs. induction evs as [|ev evs IH]; intros [|f frs]; cbn [match_frames]; intros H;
    try discriminate; [constructor|].
  apply andb_true_iff in H as [H1 H2]. constructor; [|auto].
  now apply ev_matches_obs.
Qed.

(* cancelled fiber: every frame but the last is an attempt with its outcome, the last frame is an
   attempt of the model with the outcome left open *)
Lemma match_frames_free evs frs :
  match_frames true evs frs = true ->
  Forall2 ev_obs_free evs frs /\
  Forall2 ev_obs (removelast evs) (removelast frs).
Proof.
  revert frs. induction evs as [|ev evs IH]; intros [|f frs]; cbn [match_frames]; intros H;
    try discriminate; [split; constructor|].
  apply andb_true_iff in H as [H1 H2]. destruct (IH _ H2) as [IH1 IH2]. split.
  - constructor; [|assumption]. eapply ev_matches_obs_free; eassumption.
  - pose proof (Forall2_length IH1) as Hlen.
    destruct frs as [|g frs]; destruct evs as [|ev2 evs]; try discriminate Hlen.
    + cbn. constructor.
    + cbn [removelast]. cbn [removelast] in IH2. constructor; [|exact IH2].
      cbn [is_nil andb] in H1. now apply ev_matches_obs.
Qed.

Lemma Forall2_split_r {A B} (R : A -> B -> Prop) l pre f post :
  Forall2 R l (pre ++ f :: post) ->
  exists lp e lq, l = lp ++ e :: lq /\ Forall2 R lp pre /\ R e f /\ Forall2 R lq post.
Proof.
  intros H. apply Forall2_app_inv_r in H as [lp [l2 [Hp [H2 ->]]]].
  inversion H2 as [|e f' lq post' Hr Hq]; subst. exists lp, e, lq. auto.
Qed.

(* ---- sequential frames -------------------------------------------------------------------- *)
Lemma seq_ok_pair pre f g post :
  seq_ok (pre ++ f :: g :: post) = true ->
  answered f = true /\ f_arr f <= f_done f /\ f_done f <= f_arr g.
Proof.
  induction pre as [|a pre IH]; cbn [app seq_ok].
  - intros H. apply andb_true_iff in H as [H _]. apply andb_true_iff in H as [H H3].
    apply andb_true_iff in H as [H1 H2]. repeat split; [assumption| |]; now apply N.leb_le.
  - destruct (pre ++ f :: g :: post) eqn:E; [destruct pre; discriminate|].
    intros H. apply andb_true_iff in H as [_ H]. auto.
Qed.

Lemma seq_ok_tail f rest : seq_ok (f :: rest) = true -> seq_ok rest = true.
Proof.
  cbn [seq_ok]. destruct rest; [reflexivity|]. intros H. now apply andb_true_iff in H as [_ H].
Qed.

(* every later frame arrives after the answer of an earlier one was logged *)
Lemma seq_ok_later f rest :
  seq_ok (f :: rest) = true -> Forall (fun g => f_done f <= f_arr g) rest.
Proof.
  revert f. induction rest as [|g rest IH]; intros f H; [constructor|].
  pose proof (seq_ok_pair [] f g rest H) as [_ [_ Hfg]].
  pose proof (seq_ok_tail _ _ H) as Ht.
  constructor; [assumption|].
  destruct rest as [|h rest]; [constructor|].
  pose proof (seq_ok_pair [] g h rest Ht) as [_ [Hgg Hgh]].
  specialize (IH g Ht). eapply Forall_impl; [|exact IH]. cbn. intros x Hx. lia.
Qed.

(* gate closed: never two frames of the request in flight at the same instant *)
Lemma seq_ok_in_flight frs t :
  seq_ok frs = true -> (List.length (in_flight t frs) <= 1)%nat.
Proof.
  induction frs as [|f rest IH]; intros H; [cbn; lia|].
  unfold in_flight. cbn [filter]. fold (in_flight t rest).
  destruct (open_at t f) eqn:Ho; [|exact (IH (seq_ok_tail _ _ H))].
  enough (in_flight t rest = []) as -> by (cbn; lia).
  destruct rest as [|g rest]; [reflexivity|].
  pose proof (seq_ok_pair [] f g rest H) as [Ha _].
  pose proof (seq_ok_later _ _ H) as Hl.
  unfold open_at in Ho. rewrite Ha in Ho. cbn [negb orb] in Ho.
  apply andb_true_iff in Ho as [_ Ho]. apply N.ltb_lt in Ho.
  unfold in_flight. clear - Hl Ho.
  induction Hl as [|x l Hx _ IH]; [reflexivity|].
  cbn [filter]. unfold open_at at 1.
  replace (f_arr x <=? t) with false by (symmetry; apply N.leb_gt; lia). cbn [andb]. exact IH.
Qed.

(* ---- fiber_check -------------------------------------------------------------------------- *)
Lemma fiber_check_Some p idem cl0 down c frs r :
  fiber_check p idem cl0 down c frs = Some r ->
  exists tr, fiber p idem cl0 (c_plan c) (c_outs c) = (tr, r)
             /\ match_frames (c_free c) (attempts tr) frs = true
             /\ seq_ok frs = true
             /\ (forall t, In t (conn_fail_targets tr) -> In t down).
Proof.
  unfold fiber_check. destruct (fiber p idem cl0 (c_plan c) (c_outs c)) as [tr r'] eqn:E.
  destruct (match_frames (c_free c) (attempts tr) frs && seq_ok frs && shards_ok down frs
            && forallb (fun t => memN t down) (conn_fail_targets tr)) eqn:B; [|discriminate].
  intros H. injection H as <-. apply andb_true_iff in B as [B B3]. apply andb_true_iff in B as [B _].
  apply andb_true_iff in B as [B1 B2].
  exists tr. repeat split; try assumption.
  intros t Ht. rewrite forallb_forall in B3. apply memN_In. auto.
Qed.

(* same-target retries stay on the shard *)
Lemma fiber_check_shards p idem cl0 down c frs r :
  fiber_check p idem cl0 down c frs = Some r -> shards_ok down frs = true.
Proof.
  unfold fiber_check. destruct (fiber p idem cl0 (c_plan c) (c_outs c)) as [tr r'].
  destruct (match_frames (c_free c) (attempts tr) frs && seq_ok frs && shards_ok down frs
            && forallb (fun t => memN t down) (conn_fail_targets tr)) eqn:B; [|discriminate].
  intros _. apply andb_true_iff in B as [B _]. now apply andb_true_iff in B as [_ B].
Qed.

Lemma plan_wf_spec nodes plan : plan_wf nodes plan = true -> NoDup plan /\ incl plan nodes.
Proof.
  unfold plan_wf. intros H. apply andb_true_iff in H as [H1 H2]. split; [now apply nodupb_NoDup|].
  intros t Ht. rewrite forallb_forall in H2. apply memN_In. auto.
Qed.

Lemma plan_covers_spec nodes down plan :
  plan_covers nodes down plan = true -> forall n, In n nodes -> In n plan \/ In n down.
Proof.
  unfold plan_covers. rewrite forallb_forall. intros H n Hn. specialize (H n Hn).
  apply orb_true_iff in H as [H|H]; apply memN_In in H; auto.
Qed.

Lemma res_match_not_pending r o : res_match r o = true -> r <> RPending.
Proof. intros H ->. destruct o; discriminate. Qed.

(* ---- gate closed: one fiber ------------------------------------------------------------------ *)
(* Acceptance exhibits a run of the model: the certificate's plan consists of distinct nodes of the
   cluster and contains every node whose connection was not cut; the frames are exactly the
   attempts of [fiber] on that plan (same targets, same consistencies, same outcomes, in order);
   targets skipped without an attempt are nodes whose connection was cut; the caller got the
   model's result. *)
Lemma single_sound p idem cl0 nodes down c frs tret o co :
  check_single p idem cl0 nodes down c frs tret o co = true ->
  exists tr r,
    fiber p idem cl0 (c_plan c) (c_outs c) = (tr, r)
    /\ Forall2 ev_obs (attempts tr) frs
    /\ res_match r o = true /\ r <> RPending
    /\ seq_ok frs = true
    /\ NoDup (c_plan c) /\ incl (c_plan c) nodes
    /\ (forall n, In n nodes -> In n (c_plan c) \/ In n down)
    /\ (forall t, In t (conn_fail_targets tr) -> In t down)
    /\ coord_match co r = true.
Proof.
  unfold check_single. intros H.
  apply andb_true_iff in H as [H H5]. apply andb_true_iff in H as [H H4].
  apply andb_true_iff in H as [H H3]. apply andb_true_iff in H as [H1 H2].
  destruct (fiber_check p idem cl0 down c frs) as [r|] eqn:E; [|discriminate].
  apply andb_true_iff in H5 as [H5 H6].
  destruct (fiber_check_Some _ _ _ _ _ _ _ E) as [tr [Hf [Hm [Hs Hd]]]].
  apply negb_true_iff in H1. rewrite H1 in Hm.
  destruct (plan_wf_spec _ _ H2) as [Hnd Hincl].
  exists tr, r. repeat split; try assumption.
  - now apply match_frames_Forall2.
  - now apply res_match_not_pending with o.
  - now apply plan_covers_spec.
Qed.

Lemma attempts_split (tr : list (event N)) l1 x l2 :
  attempts tr = l1 ++ x :: l2 ->
  exists p1 p2, tr = p1 ++ x :: p2 /\ attempts p1 = l1 /\ attempts p2 = l2.
Proof. apply filter_split. Qed.

(* THE PROPERTY, end to end, gate closed (in particular: every request that is not idempotent).
   Whenever a frame of the request is followed by another frame, the first one had been answered
   with an error before the second one arrived; if the request is not idempotent that error is
   one of Unavailable / IsBootstrapping / ReadTimeout (UnableToAllocStreamId never reaches a
   node). *)
Lemma single_resend p idem cl0 nodes down c frs tret o co :
  check_single p idem cl0 nodes down c frs tret o co = true ->
  forall pre f g post, frs = pre ++ f :: g :: post ->
  (exists e, f_ans f = AnsErr e /\ (idem = false -> safe_errorb e = true))
  /\ f_arr f <= f_done f /\ f_done f <= f_arr g.
Proof.
  intros H pre f g post ->.
  destruct (single_sound _ _ _ _ _ _ _ _ _ _ H) as [tr [r [Hf [Ho [_ [_ [Hs _]]]]]]].
  destruct (seq_ok_pair _ _ _ _ Hs) as [_ [Ha Hb]]. split; [|auto].
  destruct (Forall2_split_r _ _ _ _ _ Ho) as [lp [e [lq [Hatt [_ [[oc [-> Hans]] Hq]]]]]].
  inversion Hq as [|e2 g' lq' post' _ _]; subst.
  destruct (attempts_split _ _ _ _ Hatt) as [p1 [p2 [-> [_ Hp2]]]].
  assert (Hne : p2 <> []) by (intros ->; discriminate Hp2).
  inversion Hans as [Hoc Hf'|e' d Hoc Hf']; subst oc.
  - (* nothing follows a successful attempt *)
    pose proof (fiber_terminal _ _ _ _ _ _ _ Hf p1 _ _ AOk p2 eq_refl) as [Hnil _].
    contradiction.
  - exists e'. split; [now symmetry|]. intros ->.
    exact (fiber_safe_resend _ _ _ _ _ _ Hf p1 _ _ e' d p2 eq_refl Hne).
Qed.

(* ... after a broken connection, an overloaded / server / truncate error or a write timeout a
   request that is not idempotent is never sent again, and the caller gets that error *)
Lemma single_unsafe_final p cl0 nodes down c frs tret o co :
  check_single p false cl0 nodes down c frs tret o co = true ->
  forall pre f post e, frs = pre ++ f :: post -> f_ans f = AnsErr e -> named_unsafe_errorb e = true ->
  post = [] /\ o = OFailed (LAttempt e).
Proof.
  intros H pre f post e -> Hfa Hu.
  destruct (single_sound _ _ _ _ _ _ _ _ _ _ H) as [tr [r [Hf [Ho [Hr _]]]]].
  destruct (Forall2_split_r _ _ _ _ _ Ho) as [lp [ev [lq [Hatt [_ [[oc [-> Hans]] Hq]]]]]].
  destruct (attempts_split _ _ _ _ Hatt) as [p1 [p2 [-> [_ Hp2]]]].
  rewrite Hfa in Hans. inversion Hans as [|e' d Hoc He']. subst oc e'.
  destruct (fiber_unsafe_final _ _ _ _ _ _ Hf p1 _ _ e d p2 eq_refl Hu) as [_ [Hp2nil Hrr]].
  subst p2 r. cbn in Hp2. subst lq. inversion Hq. split; [reflexivity|].
  cbn in Hr. destruct o as [| | |le|]; try discriminate.
  destruct le as [|e2]; [discriminate|].
  destruct (attempt_error_eq_dec e e2) as [->|]; [reflexivity|discriminate].
Qed.

Lemma NoDup_incl_len (l l' : list N) : NoDup l -> incl l l' -> (List.length l <= List.length l')%nat.
Proof. apply NoDup_incl_length. Qed.

(* the number of frames of one logical request is bounded by the number of nodes plus the
   policy's fixed number of same-node retries *)
Lemma single_bound p idem cl0 nodes down c frs tret o co :
  check_single p idem cl0 nodes down c frs tret o co = true ->
  (List.length frs <= List.length nodes + same_target_budget p)%nat.
Proof.
  intros H.
  destruct (single_sound _ _ _ _ _ _ _ _ _ _ H) as [tr [r [Hf [Ho [_ [_ [_ [Hnd [Hincl _]]]]]]]]].
  pose proof (fiber_bound _ _ _ _ _ _ _ Hf) as Hb.
  pose proof (Forall2_length Ho) as Hl.
  pose proof (NoDup_incl_len _ _ Hnd Hincl). lia.
Qed.

(* the consistency: the first frame carries the request's, every later one what the previous
   decision carried; Default and Fallthrough never change it *)
Lemma Forall2_attempt_cls evs frs :
  Forall2 ev_obs evs frs -> attempt_cls evs = map f_cl frs.
Proof.
  induction 1 as [|ev f evs frs [o [-> _]] _ IH]; [reflexivity|]. cbn. now rewrite IH.
Qed.

Lemma attempt_cls_attempts (tr : list (event N)) : attempt_cls (attempts tr) = attempt_cls tr.
Proof.
  induction tr as [|[t|t cl o] tr IH]; cbn; [reflexivity|exact IH|].
  unfold attempts in IH. now rewrite IH.
Qed.

Lemma single_cl p idem cl0 nodes down c frs tret o co :
  check_single p idem cl0 nodes down c frs tret o co = true ->
  (forall f rest, frs = f :: rest -> f_cl f = cl0)
  /\ (p <> PDowngrading -> Forall (fun f => f_cl f = cl0) frs).
Proof.
  intros H.
  destruct (single_sound _ _ _ _ _ _ _ _ _ _ H) as [tr [r [Hf [Ho _]]]].
  pose proof (Forall2_attempt_cls _ _ Ho) as Hc. rewrite attempt_cls_attempts in Hc. split.
  - intros f rest ->. cbn in Hc. exact (fiber_first_cl _ _ _ _ _ _ _ Hf _ _ Hc).
  - intros Hp. pose proof (fiber_cl_const _ _ _ _ _ _ _ Hf Hp) as Hall. rewrite Hc in Hall.
    clear - Hall. induction frs as [|f frs IH]; [constructor|].
    inversion Hall; subst. constructor; [now symmetry|auto].
Qed.

(* Default at SERIAL / LOCAL_SERIAL: one frame *)
Lemma single_serial_default idem cl0 nodes down c frs tret o co :
  check_single PDefault idem cl0 nodes down c frs tret o co = true -> is_serial cl0 = true ->
  (List.length frs <= 1)%nat.
Proof.
  intros H Hs.
  destruct (single_sound _ _ _ _ _ _ _ _ _ _ H) as [tr [r [Hf [Ho _]]]].
  pose proof (fiber_serial_default_one _ _ _ _ _ _ Hf Hs). pose proof (Forall2_length Ho). lia.
Qed.

(* gate closed: never two frames in flight *)
Lemma single_in_flight p idem cl0 nodes down c frs tret o co t :
  check_single p idem cl0 nodes down c frs tret o co = true ->
  (List.length (in_flight t frs) <= 1)%nat.
Proof.
  intros H. destruct (single_sound _ _ _ _ _ _ _ _ _ _ H) as [tr [r [_ [_ [_ [_ [Hs _]]]]]]].
  now apply seq_ok_in_flight.
Qed.

(* "no more attempts than the policy decided", on the frames of one fiber *)
Lemma Exec_frames_follow idem frs : forall (plan : list N) s cl last outs tr r,
  Exec decide idem plan s cl last outs tr r -> Forall2 ev_obs (attempts tr) frs ->
  frames_follow idem s frs = true.
Proof.
  induction frs as [|f rest IH]; intros plan s cl last outs tr r He Ho; [reflexivity|].
  cbn [frames_follow]. destruct rest as [|g rest]; [reflexivity|].
  inversion Ho as [|ev f' evs rest' [o [Hev Hans]] Hrest Heq]; subst f' rest'.
  symmetry in Heq.
  assert (Hne : evs <> []) by (intros ->; inversion Hrest).
  inversion Hans as [Ho1 Ha1|e d Ho1 Ha1]; subst o.
  - rewrite Hev in Heq. pose proof (Exec_attempt_ok_last _ _ _ _ _ _ _ _ He _ _ _ Heq). contradiction.
  - rewrite Hev in Heq.
    destruct (Exec_attempt_decisions _ _ _ _ _ _ _ _ He _ _ _ _ _ Heq) as [s' [Hd Hr]].
    rewrite Hd. destruct (Hr Hne) as [Hretry [plan' [cl' [last' [outs' [tr' [He' Ha']]]]]]].
    rewrite Hretry. cbn [andb]. eapply IH; [exact He'|]. now rewrite Ha'.
Qed.

Lemma match_frames_length b evs frs :
  match_frames b evs frs = true -> List.length evs = List.length frs.
Proof.
  revert frs. induction evs as [|ev evs IH]; intros [|f frs]; cbn [match_frames]; intros H;
    try discriminate; [reflexivity|].
  apply andb_true_iff in H as [_ H]. cbn. f_equal. auto.
Qed.

(* the predicate the driver evaluates on rejected observations holds of every accepted one *)
Lemma resend_ok_frames_intro p idem frs :
  (forall pre f g post, frs = pre ++ f :: g :: post ->
     (exists e, f_ans f = AnsErr e /\ (idem = false -> safe_errorb e = true))
     /\ f_done f <= f_arr g
     /\ (p = PDefault -> is_serial (f_cl f) = false)) ->
  resend_ok_frames p idem frs = true.
Proof.
  induction frs as [|f rest IH]; intros H; [reflexivity|].
  cbn [resend_ok_frames]. destruct rest as [|g rest]; [reflexivity|].
  destruct (H [] f g rest eq_refl) as [[e [He Hsafe]] [Hd Hser]].
  rewrite He. apply andb_true_iff. split.
  - apply andb_true_iff. split.
    + apply andb_true_iff. split; [|now apply N.leb_le].
      destruct idem; [reflexivity|]. cbn. now apply Hsafe.
    + apply negb_true_iff. destruct p; try reflexivity. now apply Hser.
  - apply IH. intros pre f' g' post Heq. apply (H (f :: pre) f' g' post). cbn. now rewrite Heq.
Qed.

Lemma single_prop_frames p idem spec cl0 nodes down c frs tret o co :
  check_single p idem cl0 nodes down c frs tret o co = true ->
  gate_open idem spec = None ->
  prop_frames p idem spec (List.length nodes) frs = true.
Proof.
  intros H Hg. unfold prop_frames. rewrite Hg. apply orb_true_iff. right.
  destruct (single_sound _ _ _ _ _ _ _ _ _ _ H) as [tr [r [Hf [Ho _]]]].
  apply andb_true_iff. split; [apply andb_true_iff; split|].
  - apply resend_ok_frames_intro. intros pre f g post Heq.
    destruct (single_resend _ _ _ _ _ _ _ _ _ _ H _ _ _ _ Heq) as [He [_ Hd]].
    split; [assumption|]. split; [assumption|].
    intros ->. destruct (is_serial (f_cl f)) eqn:Hser; [exfalso|reflexivity].
    subst frs.
    destruct (Forall2_split_r _ _ _ _ _ Ho) as [lp [ev [lq [Hatt [_ [[oc [-> Hans]] Hq]]]]]].
    inversion Hq as [|e2 g' lq' post' _ _]; subst.
    destruct (attempts_split _ _ _ _ Hatt) as [p1 [p2 [-> [_ Hp2]]]].
    destruct He as [e [He _]]. rewrite He in Hans. inversion Hans as [|e' d]; subst.
    destruct (fiber_serial_default _ _ _ _ _ _ Hf p1 _ _ e d p2 eq_refl Hser) as [_ [-> _]].
    discriminate Hp2.
  - apply fiber_Exec in Hf. eapply Exec_frames_follow; eassumption.
  - apply Nat.leb_le. pose proof (Forall2_length Ho) as Hl. unfold frame_bound.
    destruct p.
    + pose proof (single_bound _ _ _ _ _ _ _ _ _ _ H). cbn in *. lia.
    + pose proof (single_bound _ _ _ _ _ _ _ _ _ _ H). cbn in *. lia.
    + pose proof (fiber_fallthrough_one _ _ _ _ _ _ Hf). lia.
Qed.

(* ---- gate open --------------------------------------------------------------------------------- *)
Lemma indexed_from_nth {A} (l : list A) k i x :
  nth_error l i = Some x -> In ((k + i)%nat, x) (indexed_from k l).
Proof.
  revert k i. induction l as [|a l IH]; intros k [|i] H; cbn in H; try discriminate.
  - injection H as ->. cbn. left. f_equal. lia.
  - cbn. right. replace (k + S i)%nat with (S k + i)%nat by lia. now apply IH.
Qed.

(* every fiber of an accepted observation is a run of the model -- to its end, or up to the moment
   it was cancelled (pending model run, or last frame still in flight) -- on its own part of the
   plan; the parts are pairwise disjoint sets of distinct nodes of the cluster; at most 1 + max
   fibers *)
Lemma multi_sound p idem cl0 nodes down max cs assign frs :
  multi_ok p idem cl0 nodes down max cs assign frs = true ->
  (1 <= List.length cs <= 1 + max)%nat
  /\ NoDup (concat (map c_plan cs)) /\ incl (concat (map c_plan cs)) nodes
  /\ forall i c, nth_error cs i = Some c ->
       exists tr r, fiber p idem cl0 (c_plan c) (c_outs c) = (tr, r)
                    /\ match_frames (c_free c) (attempts tr) (sub_frames i assign frs) = true
                    /\ seq_ok (sub_frames i assign frs) = true
                    /\ (forall t, In t (conn_fail_targets tr) -> In t down)
                    /\ shards_ok down (sub_frames i assign frs) = true
                    /\ fiber_check p idem cl0 down c (sub_frames i assign frs) = Some r.
Proof.
  unfold multi_ok. intros H.
  apply andb_true_iff in H as [H _]. apply andb_true_iff in H as [H H6].
  apply andb_true_iff in H as [H H5]. apply andb_true_iff in H as [H H4].
  apply andb_true_iff in H as [H H3]. apply andb_true_iff in H as [_ _].
  apply Nat.leb_le in H3. apply Nat.leb_le in H4.
  destruct (plan_wf_spec _ _ H5) as [Hnd Hincl].
  split; [lia|]. split; [assumption|]. split; [assumption|].
  intros i c Hi. rewrite forallb_forall in H6.
  pose proof (indexed_from_nth cs 0 i c Hi) as Hin. cbn in Hin.
  specialize (H6 (i, c, fiber_check p idem cl0 down c (sub_frames i assign frs))).
  unfold fiber_results in H6. rewrite in_map_iff in H6.
  assert (Hs : is_some (fiber_check p idem cl0 down c (sub_frames i assign frs)) = true).
  { apply H6. exists (i, c). split; [reflexivity|exact Hin]. }
  destruct (fiber_check p idem cl0 down c (sub_frames i assign frs)) as [r|] eqn:E; [|discriminate].
  destruct (fiber_check_Some _ _ _ _ _ _ _ E) as [tr [Ha [Hb [Hc Hd]]]]. exists tr, r.
  repeat split; try assumption. exact (fiber_check_shards _ _ _ _ _ _ _ E).
Qed.

(* the gate: a request that is not idempotent (or a profile without a speculative policy) is only
   accepted as ONE fiber run to its end *)
Lemma e2e_check_closed p idem spec cl0 nodes down cs assign frs tret o co :
  e2e_check p idem spec cl0 nodes down cs assign frs tret o co = true ->
  gate_open idem spec = None ->
  exists c, cs = [c] /\ check_single p idem cl0 nodes down c frs tret o co = true.
Proof.
  unfold e2e_check. intros H Hg. rewrite Hg in H.
  destruct cs as [|c [|c2 cs]]; try discriminate. now exists c.
Qed.

Lemma e2e_check_open p idem spec cl0 nodes down cs assign frs tret o co max :
  e2e_check p idem spec cl0 nodes down cs assign frs tret o co = true ->
  gate_open idem spec = Some max ->
  multi_ok p idem cl0 nodes down max cs assign frs = true.
Proof.
  unfold e2e_check. intros H Hg. rewrite Hg in H. unfold check_multi in H.
  now apply andb_true_iff in H as [H _].
Qed.

Lemma gate_open_nonidem spec : gate_open false spec = None.
Proof. reflexivity. Qed.

Lemma e2e_gate p idem spec cl0 nodes down cs assign frs tret o co :
  e2e_check p idem spec cl0 nodes down cs assign frs tret o co = true ->
  (idem = false \/ spec = None) ->
  exists c, cs = [c] /\ check_single p idem cl0 nodes down c frs tret o co = true
            /\ forall t, (List.length (in_flight t frs) <= 1)%nat.
Proof.
  intros H Hg.
  assert (Hc : gate_open idem spec = None) by (destruct Hg as [-> | ->]; [reflexivity|now destruct idem]).
  destruct (e2e_check_closed _ _ _ _ _ _ _ _ _ _ _ _ H Hc) as [c [-> Hs]].
  exists c. split; [reflexivity|]. split; [assumption|].
  intros t. exact (single_in_flight _ _ _ _ _ _ _ _ _ _ t Hs).
Qed.

Lemma e2e_fibers p spec cl0 nodes down cs assign frs tret o co max :
  e2e_check p true spec cl0 nodes down cs assign frs tret o co = true -> spec = Some max ->
  (1 <= List.length cs <= 1 + max)%nat
  /\ NoDup (concat (map c_plan cs)) /\ incl (concat (map c_plan cs)) nodes
  /\ forall i c, nth_error cs i = Some c ->
       exists tr r, fiber p true cl0 (c_plan c) (c_outs c) = (tr, r)
                    /\ match_frames (c_free c) (attempts tr) (sub_frames i assign frs) = true
                    /\ seq_ok (sub_frames i assign frs) = true
                    /\ (forall t, In t (conn_fail_targets tr) -> In t down)
                    /\ shards_ok down (sub_frames i assign frs) = true
                    /\ fiber_check p true cl0 down c (sub_frames i assign frs) = Some r.
Proof.
  intros H ->.
  exact (multi_sound _ _ _ _ _ _ _ _ _ (e2e_check_open _ _ _ _ _ _ _ _ _ _ _ _ _ H eq_refl)).
Qed.

Lemma match_frames_spec evs frs :
  (match_frames false evs frs = true -> Forall2 ev_obs evs frs) /\
  (match_frames true evs frs = true ->
     Forall2 ev_obs_free evs frs /\ Forall2 ev_obs (removelast evs) (removelast frs)).
Proof. split; [apply match_frames_Forall2|apply match_frames_free]. Qed.

(* ---- frames in flight: the sweep over arrival instants bounds every instant ------------------- *)
Lemma filter_impl {A} (P Q : A -> bool) l :
  (forall x, In x l -> P x = true -> Q x = true) -> filter P l = filter P (filter Q l).
Proof.
  induction l as [|a l IH]; intros H; [reflexivity|]. cbn [filter].
  destruct (P a) eqn:Pa.
  - rewrite (H a (or_introl eq_refl) Pa). cbn [filter]. rewrite Pa. f_equal. apply IH. intros; apply H; auto. now right.
  - destruct (Q a); cbn [filter]; [rewrite Pa|]; apply IH; intros; apply H; auto; now right.
Qed.

Lemma filter_length_le {A} (P : A -> bool) l : (List.length (filter P l) <= List.length l)%nat.
Proof. induction l as [|a l IH]; cbn; [lia|]. destruct (P a); cbn; lia. Qed.

Lemma NoDup_map_filter {A B} (g : A -> B) (P : A -> bool) l :
  NoDup (map g l) -> NoDup (map g (filter P l)).
Proof.
  induction l as [|a l IH]; cbn; intros H; [constructor|].
  inversion H as [|x r Hx Hr]; subst. destruct (P a); cbn; [|auto].
  constructor; [|auto]. intros Hin. apply Hx. apply in_map_iff in Hin as [y [Hy Hyin]].
  apply filter_In in Hyin as [Hyin _]. apply in_map_iff. now exists y.
Qed.

(* a frame of a nonempty list with the latest arrival *)
Lemma max_arrival (l : list frame) :
  l <> [] -> exists g, In g l /\ forall f, In f l -> f_arr f <= f_arr g.
Proof.
  induction l as [|a l IH]; intros H; [contradiction|].
  destruct l as [|b l].
  - exists a. split; [now left|]. intros f [<-|[]]. lia.
  - destruct IH as [g [Hg Hmax]]; [discriminate|].
    destruct (N.le_gt_cases (f_arr a) (f_arr g)).
    + exists g. split; [now right|]. intros f [<-|Hf]; [assumption|auto].
    + exists a. split; [now left|]. intros f [<-|Hf]; [lia|]. specialize (Hmax f Hf). lia.
Qed.

Lemma overlap_ok_sound bound frs :
  overlap_ok bound frs = true ->
  forall t, (List.length (in_flight t frs) <= bound)%nat /\ NoDup (map f_node (in_flight t frs)).
Proof.
  intros H t. unfold overlap_ok in H. rewrite forallb_forall in H.
  destruct (in_flight t frs) as [|x xs] eqn:E; [cbn; split; [lia|constructor]|].
  destruct (max_arrival (in_flight t frs)) as [g [Hg Hmax]]; [rewrite E; discriminate|].
  rewrite <- E.
  unfold in_flight in Hg. apply filter_In in Hg as [Hgin Hgo].
  specialize (H g Hgin). cbn zeta in H. apply andb_true_iff in H as [H1 H2].
  apply Nat.leb_le in H1. apply nodupb_NoDup in H2.
  assert (Heq : in_flight t frs = filter (open_at t) (in_flight (f_arr g) frs)).
  { unfold in_flight. apply filter_impl. intros f Hf Hfo.
    assert (Hfa : f_arr f <= f_arr g) by (apply Hmax; unfold in_flight; apply filter_In; auto).
    unfold open_at in *. apply andb_true_iff in Hfo as [_ Hfo]. apply andb_true_iff in Hgo as [Hga _].
    apply N.leb_le in Hga. apply andb_true_iff. split; [now apply N.leb_le|].
    apply orb_true_iff in Hfo as [Hfo|Hfo]; apply orb_true_iff; [now left|right].
    apply N.ltb_lt in Hfo. apply N.ltb_lt. lia. }
  rewrite Heq. split.
  - pose proof (filter_length_le (open_at t) (in_flight (f_arr g) frs)). lia.
  - now apply NoDup_map_filter.
Qed.

(* ---- the number of frames of a whole request with speculative fibers ---------------------------- *)
Lemma list_sum_cons a l : list_sum (a :: l) = (a + list_sum l)%nat.
Proof. reflexivity. Qed.

Lemma list_sum_const {A} (c : nat) (l : list A) : list_sum (map (fun _ => c) l) = (List.length l * c)%nat.
Proof.
  induction l as [|a l IH]; [reflexivity|].
  change (c + list_sum (map (fun _ : A => c) l) = S (List.length l) * c)%nat. rewrite IH. lia.
Qed.

Lemma list_sum_const0 {A} (l : list A) : list_sum (map (fun _ => 0%nat) l) = 0%nat.
Proof. rewrite (list_sum_const 0%nat l). lia. Qed.

Lemma list_sum_add {A} (g h : A -> nat) l :
  list_sum (map (fun i => (g i + h i)%nat) l) = (list_sum (map g l) + list_sum (map h l))%nat.
Proof. induction l as [|a l IH]; [reflexivity|]. cbn [map]. rewrite !list_sum_cons, IH. lia. Qed.

Lemma list_sum_le {A} (g h : A -> nat) l :
  (forall i, In i l -> (g i <= h i)%nat) -> (list_sum (map g l) <= list_sum (map h l))%nat.
Proof.
  induction l as [|a l IH]; intros H; [cbn; lia|]. cbn [map]. rewrite !list_sum_cons.
  pose proof (H a (or_introl eq_refl)). assert (H1 : forall i, In i l -> (g i <= h i)%nat) by (intros; apply H; now right).
  specialize (IH H1). lia.
Qed.

Lemma sum_indicator a n : forall k,
  list_sum (map (fun i => if Nat.eqb a i then 1%nat else 0%nat) (seq k n))
  = if ((k <=? a)%nat && (a <? k + n)%nat)%bool then 1%nat else 0%nat.
Proof.
  induction n as [|n IH]; intros k; cbn [seq map]; [|rewrite list_sum_cons].
  - cbn [list_sum fold_right].
    destruct ((k <=? a)%nat && (a <? k + 0)%nat)%bool eqn:E; [|reflexivity].
    apply andb_true_iff in E as [E1 E2]. apply Nat.leb_le in E1. apply Nat.ltb_lt in E2. lia.
  - rewrite IH.
    destruct (Nat.eqb_spec a k); destruct (Nat.leb_spec (S k) a); destruct (Nat.ltb_spec a (S k + n));
      destruct (Nat.leb_spec k a); destruct (Nat.ltb_spec a (k + S n)); cbn [andb];
      try reflexivity; lia.
Qed.

Definition count_idx {A} (i : nat) (l : list (nat * A)) : nat :=
  List.length (filter (fun x => Nat.eqb (fst x) i) l).

Lemma sum_count {A} (l : list (nat * A)) n :
  (forall x, In x l -> (fst x < n)%nat) ->
  list_sum (map (fun i => count_idx i l) (seq 0 n)) = List.length l.
Proof.
  induction l as [|[a f] l IH]; intros H.
  - unfold count_idx. cbn. apply list_sum_const0.
  - assert (Ha : (a < n)%nat) by (apply (H (a, f)); now left).
    assert (Hl : forall x, In x l -> (fst x < n)%nat) by (intros; apply H; now right).
    specialize (IH Hl).
    assert (E : forall i, count_idx i ((a, f) :: l) = ((if Nat.eqb a i then 1 else 0) + count_idx i l)%nat).
    { intros i. unfold count_idx. cbn [filter fst]. destruct (Nat.eqb a i); reflexivity. }
    rewrite (map_ext _ _ E), list_sum_add, IH, sum_indicator. cbn [Nat.leb andb Nat.add].
    replace (a <? n)%nat with true by (symmetry; now apply Nat.ltb_lt). cbn. reflexivity.
Qed.

Lemma sub_frames_count i assign frs :
  List.length (sub_frames i assign frs) = count_idx i (combine assign frs).
Proof. unfold sub_frames, count_idx. now rewrite map_length. Qed.

Lemma map_nth_seq {A} (l : list A) d : map (fun i => nth i l d) (seq 0 (List.length l)) = l.
Proof.
  induction l as [|a l IH]; [reflexivity|]. cbn [List.length seq map nth]. f_equal.
  rewrite <- seq_shift, map_map. exact IH.
Qed.

Lemma length_concat_sum {A} (ls : list (list A)) :
  List.length (concat ls) = list_sum (map (@List.length A) ls).
Proof. induction ls as [|l ls IH]; cbn; [reflexivity|]. now rewrite app_length, IH. Qed.

(* the whole request: at most |nodes| + (1 + max) * k frames; Fallthrough: at most 1 + max *)
Lemma multi_bound p idem cl0 nodes down max cs assign frs :
  multi_ok p idem cl0 nodes down max cs assign frs = true ->
  (List.length frs <= frame_bound p (1 + max) (List.length nodes))%nat.
Proof.
  intros H. pose proof (multi_sound _ _ _ _ _ _ _ _ _ H) as [Hn [Hnd [Hincl Hf]]].
  unfold multi_ok in H.
  apply andb_true_iff in H as [H _]. apply andb_true_iff in H as [H _].
  apply andb_true_iff in H as [H _]. apply andb_true_iff in H as [H _].
  apply andb_true_iff in H as [H _]. apply andb_true_iff in H as [Hlen Hidx].
  apply Nat.eqb_eq in Hlen. rewrite forallb_forall in Hidx.
  set (n := List.length cs) in *.
  assert (Hsum : list_sum (map (fun i => List.length (sub_frames i assign frs)) (seq 0 n)) = List.length frs).
  { rewrite (map_ext _ _ (fun i => sub_frames_count i assign frs)).
    rewrite sum_count; [now rewrite combine_length, Hlen, Nat.min_id|].
    intros [a f] Hin. cbn. apply in_combine_l in Hin. apply Nat.ltb_lt. now apply Hidx. }
  set (d := mkCert [] [] false).
  assert (Hper : forall i, In i (seq 0 n) ->
            (List.length (sub_frames i assign frs)
             <= match p with PFallthrough => 1 | _ => List.length (c_plan (nth i cs d)) + same_target_budget p end)%nat).
  { intros i Hi. apply in_seq in Hi. assert (Hlt : (i < n)%nat) by lia.
    destruct (nth_error cs i) as [c|] eqn:E; [|apply nth_error_None in E; unfold n in *; lia].
    rewrite (nth_error_nth _ _ d E).
    destruct (Hf i c E) as [tr [r [Hfib [Hm _]]]].
    pose proof (match_frames_length _ _ _ Hm) as Hl.
    pose proof (fiber_bound _ _ _ _ _ _ _ Hfib) as Hb.
    destruct p.
    - lia.
    - lia.
    - pose proof (fiber_fallthrough_one _ _ _ _ _ _ Hfib). lia. }
  rewrite <- Hsum. etransitivity; [apply list_sum_le; exact Hper|].
  assert (Hplans : list_sum (map (fun i => List.length (c_plan (nth i cs d))) (seq 0 n))
                   = List.length (concat (map c_plan cs))).
  { rewrite <- (map_map (fun i => nth i cs d) (fun c => List.length (c_plan c))).
    unfold n. now rewrite map_nth_seq, <- map_map, <- length_concat_sum. }
  pose proof (NoDup_incl_len _ _ Hnd Hincl) as Hpl.
  assert (Hk : forall c : nat, list_sum (map (fun _ : nat => c) (seq 0 n)) = (n * c)%nat).
  { intros c. rewrite list_sum_const, seq_length. reflexivity. }
  unfold frame_bound. destruct p.
  - rewrite list_sum_add, Hplans, Hk. nia.
  - rewrite list_sum_add, Hplans, Hk. nia.
  - rewrite Hk. lia.
Qed.

(* the predicate the driver evaluates on rejected observations holds of every accepted one, gate
   closed or open *)
Lemma e2e_prop_frames p idem spec cl0 nodes down cs assign frs tret o co :
  e2e_check p idem spec cl0 nodes down cs assign frs tret o co = true ->
  prop_frames p idem spec (List.length nodes) frs = true.
Proof.
  intros H. destruct (gate_open idem spec) as [max|] eqn:Hg.
  - pose proof (e2e_check_open _ _ _ _ _ _ _ _ _ _ _ _ _ H Hg) as Hm.
    unfold prop_frames. rewrite Hg. apply orb_true_iff. right. apply Nat.leb_le.
    eapply multi_bound; eassumption.
  - destruct (e2e_check_closed _ _ _ _ _ _ _ _ _ _ _ _ H Hg) as [c [-> Hs]].
    eapply single_prop_frames; eassumption.
Qed.

Lemma e2e_request_bound p idem spec cl0 nodes down cs assign frs tret o co :
  e2e_check p idem spec cl0 nodes down cs assign frs tret o co = true ->
  (List.length frs
   <= frame_bound p (match gate_open idem spec with Some max => 1 + max | None => 1 end)
                  (List.length nodes))%nat.
Proof.
  intros H. destruct (gate_open idem spec) as [max|] eqn:Hg.
  - eapply multi_bound. eapply e2e_check_open; eassumption.
  - destruct (e2e_check_closed _ _ _ _ _ _ _ _ _ _ _ _ H Hg) as [c [-> Hs]].
    pose proof (single_prop_frames _ _ spec _ _ _ _ _ _ _ _ Hs Hg) as Hp.
    unfold prop_frames in Hp. rewrite Hg in Hp.
    destruct (single_sound _ _ _ _ _ _ _ _ _ _ Hs) as [tr [r [Hf [Ho _]]]].
    pose proof (Forall2_length Ho) as Hl. unfold frame_bound. destruct p.
    + pose proof (single_bound _ _ _ _ _ _ _ _ _ _ Hs). cbn in *. lia.
    + pose proof (single_bound _ _ _ _ _ _ _ _ _ _ Hs). cbn in *. lia.
    + pose proof (fiber_fallthrough_one _ _ _ _ _ _ Hf). lia.
Qed.

Lemma single_no_more p idem cl0 nodes down c frs tret o co :
  check_single p idem cl0 nodes down c frs tret o co = true ->
  frames_follow idem (new_session p) frs = true.
Proof.
  intros H. destruct (single_sound _ _ _ _ _ _ _ _ _ _ H) as [tr [r [Hf [Ho _]]]].
  apply fiber_Exec in Hf. exact (Exec_frames_follow _ _ _ _ _ _ _ _ _ Hf Ho).
Qed.

(* a request that ended with the client-side timeout *)
Lemma timeout_sound p idem spec cl0 nodes down cs assign frs t0 tmo tret margin smargin :
  check_timeout p idem spec cl0 nodes down cs assign frs t0 tmo tret margin smargin = true ->
  let max := match gate_open idem spec with Some m => m | None => 0%nat end in
  (1 <= List.length cs <= 1 + max)%nat
  /\ NoDup (concat (map c_plan cs)) /\ incl (concat (map c_plan cs)) nodes
  /\ (forall i c, nth_error cs i = Some c ->
       exists tr r, fiber p idem cl0 (c_plan c) (c_outs c) = (tr, r)
                    /\ match_frames (c_free c) (attempts tr) (sub_frames i assign frs) = true
                    /\ seq_ok (sub_frames i assign frs) = true
                    /\ (forall t, In t (conn_fail_targets tr) -> In t down)
                    /\ shards_ok down (sub_frames i assign frs) = true
                    /\ free_answer_ok t0 tmo smargin c (sub_frames i assign frs) = true
                    /\ (gate_open idem spec = None -> fiber_finished c r = false))
  /\ (List.length frs <= frame_bound p (1 + max) (List.length nodes))%nat
  /\ t0 + tmo <= tret
  /\ (forall f, In f frs -> f_arr f <= tret + margin).
Proof.
  unfold check_timeout. intros H. cbv zeta.
  apply andb_true_iff in H as [H H4]. apply andb_true_iff in H as [H H5].
  apply andb_true_iff in H as [H H3]. apply andb_true_iff in H as [H1 H2].
  destruct (multi_sound _ _ _ _ _ _ _ _ _ H1) as [Ha [Hb [Hc Hd]]].
  split; [assumption|]. split; [assumption|]. split; [assumption|]. split.
  - intros i c Hi. destruct (Hd i c Hi) as [tr [r [Hf [Hm [Hs [Hcf [Hsh Hfc]]]]]]].
    pose proof (indexed_from_nth cs 0 i c Hi) as Hin. cbn in Hin.
    exists tr, r. repeat split; try assumption.
    + rewrite forallb_forall in H5. exact (H5 (i, c) Hin).
    + intros Hg. rewrite Hg in H4. rewrite forallb_forall in H4.
      specialize (H4 (i, c, fiber_check p idem cl0 down c (sub_frames i assign frs))).
      unfold fiber_results in H4. rewrite in_map_iff in H4.
      assert (Hx : match fiber_check p idem cl0 down c (sub_frames i assign frs) with
                   | Some r0 => negb (fiber_finished c r0) | None => false end = true).
      { apply H4. exists (i, c). split; [reflexivity|exact Hin]. }
      rewrite Hfc in Hx. now apply negb_true_iff.
  - split; [eapply multi_bound; eassumption|]. split; [now apply N.leb_le|].
    intros f Hf. unfold late_frames_ok in H3. rewrite forallb_forall in H3. apply N.leb_le. auto.
Qed.

(* the boolean the driver evaluates on a rejected timed-out request: a projection of the third conjunct
   of check_timeout (all frames) onto the frames after the first *)
Lemma timeout_prop_frames p idem spec cl0 nodes down cs assign frs t0 tmo tret margin smargin :
  check_timeout p idem spec cl0 nodes down cs assign frs t0 tmo tret margin smargin = true ->
  prop_timeout_frames tret margin frs = true.
Proof.
  unfold check_timeout. intros H. apply andb_true_iff in H as [H _]. apply andb_true_iff in H as [H _].
  apply andb_true_iff in H as [_ H]. unfold prop_timeout_frames. destruct frs as [|f rest]; [reflexivity|].
  unfold late_frames_ok in *. cbn [forallb] in H. now apply andb_true_iff in H as [_ H].
Qed.

Lemma shards_ok_pair down pre f g post :
  shards_ok down (pre ++ f :: g :: post) = true -> f_node g = f_node f -> ~ In (f_node f) down ->
  f_shard g = f_shard f.
Proof.
  induction pre as [|a pre IH]; cbn [app shards_ok].
  - intros H Hn Hd. apply andb_true_iff in H as [H _].
    apply orb_true_iff in H as [H|H]; [|apply memN_In in H; contradiction].
    apply orb_true_iff in H as [H|H]; [|now apply N.eqb_eq].
    rewrite Hn, N.eqb_refl in H. discriminate.
  - destruct (pre ++ f :: g :: post) eqn:E; [destruct pre; discriminate|].
    intros H. apply andb_true_iff in H as [_ H]. auto.
Qed.

Lemma single_shards p idem cl0 nodes down c frs tret o co :
  check_single p idem cl0 nodes down c frs tret o co = true ->
  forall pre f g post, frs = pre ++ f :: g :: post -> f_node g = f_node f -> ~ In (f_node f) down ->
  f_shard g = f_shard f.
Proof.
  unfold check_single. intros H pre f g post -> Hn Hd.
  apply andb_true_iff in H as [_ H].
  destruct (fiber_check p idem cl0 down c (pre ++ f :: g :: post)) as [r|] eqn:E; [|discriminate].
  exact (shards_ok_pair _ _ _ _ _ (fiber_check_shards _ _ _ _ _ _ _ E) Hn Hd).
Qed.

(* ---- completeness: the checkers accept exactly what they are proved sound for ---------------------- *)
Lemma In_memN x l : In x l -> memN x l = true.
Proof. intros H. now apply memN_In. Qed.

Lemma NoDup_nodupb l : NoDup l -> nodupb l = true.
Proof.
  induction 1 as [|x l Hx _ IH]; [reflexivity|]. cbn [nodupb]. rewrite IH, andb_true_r.
  apply negb_true_iff. destruct (memN x l) eqn:E; [|reflexivity]. apply memN_In in E. contradiction.
Qed.

Lemma ev_obs_matches ev f : ev_obs ev f -> ev_matches false ev f = true.
Proof.
  intros [o [-> Hans]]. unfold ev_matches. rewrite N.eqb_refl.
  destruct (consistency_eq_dec (f_cl f) (f_cl f)); [|contradiction]. cbn [andb orb].
  inversion Hans as [Ho Ha|e0 d Ho Ha]; [reflexivity|].
  destruct (attempt_error_eq_dec e0 e0); [reflexivity|contradiction].
Qed.

Lemma Forall2_match_frames evs frs : Forall2 ev_obs evs frs -> match_frames false evs frs = true.
Proof.
  induction 1 as [|ev f evs frs H _ IH]; [reflexivity|]. cbn [match_frames andb].
  rewrite (ev_obs_matches _ _ H). exact IH.
Qed.

(* completeness of the one-fiber checker: it accepts every observation of a run of the model *)
Lemma single_complete p idem cl0 nodes down plan outs tr r frs tret o co :
  fiber p idem cl0 plan outs = (tr, r) ->
  Forall2 ev_obs (attempts tr) frs ->
  res_match r o = true -> coord_match co r = true ->
  seq_ok frs = true -> shards_ok down frs = true -> last_done_by tret frs = true ->
  NoDup plan -> incl plan nodes ->
  (forall n, In n nodes -> In n plan \/ In n down) ->
  (forall t, In t (conn_fail_targets tr) -> In t down) ->
  check_single p idem cl0 nodes down (mkCert plan outs false) frs tret o co = true.
Proof.
  intros Hf Ho Hr Hc Hs Hsh Hl Hnd Hincl Hcov Hcf.
  unfold check_single. cbn [c_free c_plan negb andb].
  assert (Hwf : plan_wf nodes plan = true).
  { unfold plan_wf. rewrite (NoDup_nodupb _ Hnd). cbn [andb]. apply forallb_forall.
    intros t Ht. apply In_memN. auto. }
  assert (Hpc : plan_covers nodes down plan = true).
  { unfold plan_covers. apply forallb_forall. intros n Hn.
    destruct (Hcov n Hn) as [H|H]; rewrite (In_memN _ _ H); [reflexivity|apply orb_true_r]. }
  rewrite Hwf, Hpc, Hl. cbn [andb].
  unfold fiber_check. cbn [c_plan c_outs c_free]. rewrite Hf.
  rewrite (Forall2_match_frames _ _ Ho), Hs, Hsh. cbn [andb].
  assert (Hd : forallb (fun t => memN t down) (conn_fail_targets tr) = true).
  { apply forallb_forall. intros t Ht. apply In_memN. auto. }
  rewrite Hd, Hr, Hc. reflexivity.
Qed.

Lemma check_single_extra p idem cl0 nodes down c frs tret o co :
  check_single p idem cl0 nodes down c frs tret o co = true ->
  c_free c = false /\ shards_ok down frs = true /\ last_done_by tret frs = true.
Proof.
  unfold check_single. intros H.
  apply andb_true_iff in H as [H H5]. apply andb_true_iff in H as [H H4].
  apply andb_true_iff in H as [H _]. apply andb_true_iff in H as [H1 _].
  apply negb_true_iff in H1. split; [assumption|]. split; [|assumption].
  destruct (fiber_check p idem cl0 down c frs) as [r|] eqn:E; [|discriminate].
  exact (fiber_check_shards _ _ _ _ _ _ _ E).
Qed.

(* the one-fiber checker accepts EXACTLY the observations of runs of the model *)
Lemma single_iff p idem cl0 nodes down c frs tret o co :
  check_single p idem cl0 nodes down c frs tret o co = true <->
  (c_free c = false /\
   exists tr r,
     fiber p idem cl0 (c_plan c) (c_outs c) = (tr, r)
     /\ Forall2 ev_obs (attempts tr) frs
     /\ res_match r o = true /\ coord_match co r = true
     /\ seq_ok frs = true /\ shards_ok down frs = true /\ last_done_by tret frs = true
     /\ NoDup (c_plan c) /\ incl (c_plan c) nodes
     /\ (forall n, In n nodes -> In n (c_plan c) \/ In n down)
     /\ (forall t, In t (conn_fail_targets tr) -> In t down)).
Proof.
  split.
  - intros H. destruct (check_single_extra _ _ _ _ _ _ _ _ _ _ H) as [Hfree [Hsh Hl]].
    destruct (single_sound _ _ _ _ _ _ _ _ _ _ H) as [tr [r [Hf [Ho [Hr [_ [Hs [Hnd [Hi [Hcov [Hcf Hco]]]]]]]]]]].
    split; [assumption|]. exists tr, r. repeat split; assumption.
  - intros [Hfree [tr [r [Hf [Ho [Hr [Hco [Hs [Hsh [Hl [Hnd [Hi [Hcov Hcf]]]]]]]]]]]]].
    destruct c as [plan outs free]. cbn in *. subst free.
    eapply single_complete; eassumption.
Qed.

Lemma overlap_ok_complete bound frs :
  (forall t, (List.length (in_flight t frs) <= bound)%nat /\ NoDup (map f_node (in_flight t frs))) ->
  overlap_ok bound frs = true.
Proof.
  intros H. unfold overlap_ok. apply forallb_forall. intros f _. cbv zeta.
  destruct (H (f_arr f)) as [H1 H2]. apply andb_true_iff. split; [now apply Nat.leb_le|now apply NoDup_nodupb].
Qed.

Lemma overlap_ok_iff bound frs :
  overlap_ok bound frs = true <->
  forall t, (List.length (in_flight t frs) <= bound)%nat /\ NoDup (map f_node (in_flight t frs)).
Proof. split; [apply overlap_ok_sound|apply overlap_ok_complete]. Qed.
