(* Proofs about Model/Derive.v (property C16). *)
From SV Require Import Base.Prelude Base.Bytes Model.Derive Model.DeriveSpec.
From Coq Require Import Ascii String Permutation.
Open Scope N_scope.

(* ------------------------------------------------------------ generic helpers *)

Lemma eqb_refl' s : String.eqb s s = true.
Proof. apply String.eqb_refl. Qed.

Lemma mem_In n l : mem n l = true <-> In n l.
Proof.
  unfold mem. rewrite existsb_exists. split.
  - intros [x [Hx E]]. apply String.eqb_eq in E. now subst.
  - intros H. exists n. split; [assumption|apply String.eqb_refl].
Qed.

Lemma nodupb_NoDup l : nodupb l = true <-> NoDup l.
Proof.
  induction l as [|x l IH]; simpl.
  - split; [constructor|reflexivity].
  - rewrite andb_true_iff, negb_true_iff, IH. split.
    + intros [H1 H2]. constructor; [|assumption].
      intros Hin. apply mem_In in Hin. unfold mem in Hin. congruence.
    + intros H. inversion H as [|? ? Hn Hd]; subst. split; [|assumption].
      destruct (existsb (String.eqb x) l) eqn:E; [|reflexivity].
      exfalso. apply Hn. apply mem_In. exact E.
Qed.

(* ------------------------------------------------------------ the specification's own null rule and padding
   agree with the model's (the spec is written from the documentation, Model/Derive.v) *)
Lemma doc_null_rule_v f v : doc_null_rule (vf_dwn f) (vf_ty f) v = deser_with_default f v.
Proof. unfold doc_null_rule, deser_with_default. destruct v, (vf_dwn f); reflexivity. Qed.
Lemma doc_null_rule_r f v : doc_null_rule (rl_dwn f) (rl_ty f) v = rdeser_with_default f v.
Proof. unfold doc_null_rule, rdeser_with_default. destruct v, (rl_dwn f); reflexivity. Qed.

Definition doc_field_value_m (f : vfield) (its : list (dbfield * cell)) : option cell :=
  if vf_skip f then Some (default_cell (vf_ty f))
  else match db_cell (vf_name f) its with
       | None => Some (default_cell (vf_ty f))
       | Some v => deser_with_default f v
       end.
Definition doc_row_field_value_m (f : rleaf) (its : list (dbfield * cell)) : option cell :=
  if rl_skip f then Some (default_cell (rl_ty f))
  else match db_cell (rl_name f) its with
       | None => None
       | Some v => rdeser_with_default f v
       end.
Lemma doc_field_value_eq f its : doc_field_value f its = doc_field_value_m f its.
Proof.
  unfold doc_field_value, doc_field_value_m. destruct (vf_skip f); [reflexivity|].
  destruct (db_cell (vf_name f) its); [apply doc_null_rule_v|reflexivity].
Qed.
Lemma doc_row_field_value_eq f its : doc_row_field_value f its = doc_row_field_value_m f its.
Proof.
  unfold doc_row_field_value, doc_row_field_value_m. destruct (rl_skip f); [reflexivity|].
  destruct (db_cell (rl_name f) its); [apply doc_null_rule_r|reflexivity].
Qed.

Lemma spec_items_udt db : forall cells, spec_items db cells = udt_items db cells.
Proof.
  unfold spec_items. induction db as [|c db IH]; intros cells; [now destruct cells|].
  destruct cells as [|v cells]; cbn [udt_items List.length Nat.sub app combine].
  - cbn [repeat combine]. f_equal. specialize (IH []). cbn [List.length app] in IH. now rewrite Nat.sub_0_r in IH.
  - f_equal. apply IH.
Qed.

(* ------------------------------------------------------------ value fields: lookup *)

Definition vbound (n : string) (f : vfield) : bool := negb (vf_skip f) && String.eqb (vf_name f) n.

Lemma vfind_nonskipped n fs : vfind n (nonskipped fs) = vfind n fs.
Proof.
  unfold vfind, nonskipped. induction fs as [|f fs IH]; [reflexivity|].
  cbn [filter find]. destruct (vf_skip f) eqn:S; cbn [negb andb].
  - exact IH.
  - cbn [find]. rewrite S. cbn [negb andb]. destruct (String.eqb (vf_name f) n); [reflexivity|exact IH].
Qed.

Lemma nonskipped_all fs : forallb (fun f => negb (vf_skip f)) (nonskipped fs) = true.
Proof.
  unfold nonskipped. apply forallb_forall. intros x Hx. apply filter_In in Hx. tauto.
Qed.

(* the per-field state after the arm for [n] ran: every entry whose field is bound to [n] gets [nw] *)
Fixpoint vmark {S : Type} (n : string) (fs : list vfield) (st : list S) (nw : S) : list S :=
  match fs, st with
  | f :: fs', s :: st' => (if vbound n f then nw else s) :: vmark n fs' st' nw
  | _, _ => []
  end.

Lemma vmark_length {S} n fs (st : list S) nw : List.length st = List.length fs ->
  List.length (vmark n fs st nw) = List.length fs.
Proof.
  revert st; induction fs as [|f fs IH]; intros [|s st] H; simpl in *; try congruence.
  f_equal. apply IH. congruence.
Qed.

(* names of the non-skipped fields are pairwise different *)
Definition vnodup (fs : list vfield) : Prop := NoDup (map vf_name (nonskipped fs)).

Lemma vnodup_tail f fs : vnodup (f :: fs) -> vnodup fs.
Proof.
  unfold vnodup, nonskipped. cbn [filter]. destruct (negb (vf_skip f)); [|tauto].
  cbn [map]. intros H. now inversion H.
Qed.

Lemma vnodup_head_unique f fs n : vnodup (f :: fs) -> vbound n f = true ->
  forall g, In g fs -> vbound n g = false.
Proof.
  unfold vnodup, nonskipped, vbound. cbn [filter].
  intros H Hb g Hg. apply andb_true_iff in Hb as [Hs Hn]. rewrite Hs in H. cbn [map] in H.
  inversion H as [|? ? Hnot _]; subst.
  destruct (vf_skip g) eqn:Sg; [reflexivity|]. cbn [negb andb].
  destruct (String.eqb (vf_name g) n) eqn:E; [|reflexivity].
  exfalso. apply Hnot. apply String.eqb_eq in Hn, E. rewrite Hn, <- E.
  apply in_map. apply filter_In. split; [assumption|]. now rewrite Sg.
Qed.

Lemma vmark_nobound {S} n fs (st : list S) nw : List.length st = List.length fs ->
  (forall g, In g fs -> vbound n g = false) -> vmark n fs st nw = st.
Proof.
  revert st; induction fs as [|f fs IH]; intros [|s st] H Hn; simpl in *; try congruence.
  rewrite (Hn f) by now left. f_equal. apply IH; [congruence|]. intros g Hg. apply Hn. now right.
Qed.

Lemma vfind_none n fs : vfind n fs = None <-> (forall g, In g fs -> vbound n g = false).
Proof.
  unfold vfind. split.
  - intros H g Hg. apply (find_none _ _ H g Hg).
  - intros H. induction fs as [|f fs IH]; [reflexivity|]. cbn [find].
    fold (vbound n f). rewrite (H f) by now left. apply IH. intros g Hg. apply H. now right.
Qed.

(* vmatch agrees with vfind and, under name uniqueness, with vmark *)
Lemma vmatch_none {S} n fs (st : list S) nw : List.length st = List.length fs ->
  (vmatch n fs st nw = None <-> vfind n fs = None).
Proof.
  unfold vfind. revert st; induction fs as [|f fs IH]; intros [|s st] H; simpl in *; try congruence.
  - tauto.
  - fold (vbound n f). destruct (vbound n f) eqn:B.
    + split; discriminate.
    + specialize (IH st ltac:(congruence)). destruct (vmatch n fs st nw) as [[[g s0] st'']|].
      * split; [discriminate|]. intros E. apply IH in E. discriminate.
      * tauto.
Qed.

Fixpoint vstate {S : Type} (n : string) (fs : list vfield) (st : list S) : option S :=
  match fs, st with
  | f :: fs', s :: st' => if vbound n f then Some s else vstate n fs' st'
  | _, _ => None
  end.

Lemma vmatch_some {S} n fs (st : list S) nw f s st' : List.length st = List.length fs -> vnodup fs ->
  vmatch n fs st nw = Some (f, s, st') ->
  vfind n fs = Some f /\ vstate n fs st = Some s /\ st' = vmark n fs st nw /\ vbound n f = true.
Proof.
  unfold vfind. revert st st'; induction fs as [|g fs IH]; intros [|s0 st] st' H Hnd; simpl in *; try congruence.
  fold (vbound n g). destruct (vbound n g) eqn:B.
  - intros E. injection E as <- <- <-. repeat split; try assumption.
    f_equal. symmetry. apply vmark_nobound; [congruence|].
    apply (vnodup_head_unique g fs n Hnd B).
  - destruct (vmatch n fs st nw) as [[[g' s1] st'']|] eqn:M; [|discriminate].
    intros E. inversion E; subst.
    destruct (IH st st'' ltac:(congruence) (vnodup_tail _ _ Hnd) M) as (A1 & A2 & A3 & A4).
    repeat split; try assumption. now subst.
Qed.
(* ------------------------------------------------------------ SerializeValue, match_by_name *)

Definition count_false (l : list bool) : nat := List.length (filter negb l).

Lemma vmark_count n fs flags : List.length flags = List.length fs -> vnodup fs ->
  match vstate n fs flags with
  | Some false => count_false flags = S (count_false (vmark n fs flags true))
  | Some true => vmark n fs flags true = flags
  | None => vmark n fs flags true = flags
  end.
Proof.
  revert flags; induction fs as [|f fs IH]; intros [|b flags] H Hnd; simpl in *; try congruence; try reflexivity.
  destruct (vbound n f) eqn:B.
  - rewrite (vmark_nobound n fs flags true) by (congruence || apply (vnodup_head_unique f fs n Hnd B)).
    destruct b; [reflexivity|]. unfold count_false. simpl. reflexivity.
  - specialize (IH flags ltac:(congruence) (vnodup_tail _ _ Hnd)).
    destruct (vstate n fs flags) as [[|]|].
    + now rewrite IH.
    + unfold count_false in *. simpl. destruct b; simpl; rewrite IH; reflexivity.
    + now rewrite IH.
Qed.

Definition cellof (fs : list vfield) (c : dbfield) : cell :=
  match vfind (fst c) fs with
  | Some f => match ser_field (vf_ty f) (vf_val f) (snd c) with Some cl => cl | None => None end
  | None => None
  end.
Definition ser_fails (fs : list vfield) (c : dbfield) : bool :=
  match vfind (fst c) fs with
  | Some f => match ser_field (vf_ty f) (vf_val f) (snd c) with None => true | Some _ => false end
  | None => false
  end.
Definition unbound (fs : list vfield) (c : dbfield) : bool :=
  match vfind (fst c) fs with None => true | Some _ => false end.

Fixpoint emit (forbid : bool) (fs : list vfield) (db : list dbfield) (out : list cell) (sk : nat)
  : list cell * nat :=
  match db with
  | [] => (out, sk)
  | c :: db' =>
      if unbound fs c then emit forbid fs db' out (S sk)
      else emit forbid fs db' ((if forbid then out else out ++ repeat None sk) ++ [cellof fs c])
                (if forbid then sk else O)
  end.

Fixpoint marks (fs : list vfield) (flags : list bool) (names : list string) : list bool :=
  match names with
  | [] => flags
  | n :: r => marks fs (vmark n fs flags true) r
  end.

Lemma marks_length fs flags names : List.length flags = List.length fs ->
  List.length (marks fs flags names) = List.length fs.
Proof.
  revert flags; induction names as [|n r IH]; intros flags H; simpl; [assumption|].
  apply IH. now apply vmark_length.
Qed.

Definition sv_bad (forbid : bool) (fs : list vfield) (c : dbfield) : bool :=
  (forbid && unbound fs c) || ser_fails fs c.

Lemma sv_loop_char forbid fs db : vnodup fs -> forall st,
  List.length (sv_flags st) = List.length fs ->
  sv_remaining st = count_false (sv_flags st) ->
  if existsb (sv_bad forbid fs) db
  then exists e, sv_loop forbid fs st db = Err e /\ e <> EPanic
  else sv_loop forbid fs st db =
       Ok {| sv_flags := marks fs (sv_flags st) (map fst db);
             sv_remaining := count_false (marks fs (sv_flags st) (map fst db));
             sv_skipped := snd (emit forbid fs db (sv_out st) (sv_skipped st));
             sv_out := fst (emit forbid fs db (sv_out st) (sv_skipped st)) |}.
Proof.
  intros Hnd. induction db as [|[n ty] db IH]; intros st Hl Hr.
  - simpl. destruct st; simpl in *. now subst.
  - cbn [existsb sv_loop sv_step]. unfold sv_bad at 1, unbound, ser_fails. cbn [fst snd].
    destruct (vmatch n fs (sv_flags st) true) as [[[f was] flags']|] eqn:M.
    + destruct (vmatch_some _ _ _ _ _ _ _ Hl Hnd M) as (F & Vs & -> & B).
      rewrite F. rewrite andb_false_r. cbn [orb].
      destruct (ser_field (vf_ty f) (vf_val f) ty) as [cl|] eqn:SF.
      * cbn [orb].
        pose proof (vmark_count n fs (sv_flags st) Hl Hnd) as C. rewrite Vs in C.
        assert (E : unbound fs (n, ty) = false) by (unfold unbound; cbn [fst]; now rewrite F).
        assert (Ec : cellof fs (n, ty) = cl) by (unfold cellof; cbn [fst snd]; now rewrite F, SF).
        destruct was.
        -- specialize (IH {| sv_flags := vmark n fs (sv_flags st) true; sv_remaining := sv_remaining st;
                             sv_skipped := if forbid then sv_skipped st else 0%nat;
                             sv_out := (if forbid then sv_out st else sv_out st ++ repeat None (sv_skipped st)) ++ [cl] |}).
           cbn [sv_flags sv_remaining sv_skipped sv_out] in IH.
           specialize (IH ltac:(now apply vmark_length) ltac:(now rewrite C)).
           cbn [map fst marks emit]. rewrite E, Ec. exact IH.
        -- rewrite Hr, C. cbn [dec].
           specialize (IH {| sv_flags := vmark n fs (sv_flags st) true;
                             sv_remaining := count_false (vmark n fs (sv_flags st) true);
                             sv_skipped := if forbid then sv_skipped st else 0%nat;
                             sv_out := (if forbid then sv_out st else sv_out st ++ repeat None (sv_skipped st)) ++ [cl] |}).
           cbn [sv_flags sv_remaining sv_skipped sv_out] in IH.
           specialize (IH ltac:(now apply vmark_length) eq_refl).
           cbn [map fst marks emit]. rewrite E, Ec. exact IH.
      * cbn [orb]. eexists. split; [reflexivity|discriminate].
    + apply (vmatch_none n fs (sv_flags st) true Hl) in M. rewrite M.
      rewrite andb_true_r, orb_false_r.
      destruct forbid.
      * cbn [orb]. eexists. split; [reflexivity|discriminate].
      * cbn [orb].
        assert (Hm : vmark n fs (sv_flags st) true = sv_flags st).
        { apply vmark_nobound; [assumption|]. now apply vfind_none. }
        specialize (IH {| sv_flags := sv_flags st; sv_remaining := sv_remaining st;
                          sv_skipped := S (sv_skipped st); sv_out := sv_out st |}).
        cbn [sv_flags sv_remaining sv_skipped sv_out] in IH. specialize (IH Hl Hr).
        cbn [map fst marks emit]. unfold unbound at 1 2. cbn [fst]. rewrite M, Hm. exact IH.
Qed.
Lemma vmark_map n fs flags : List.length flags = List.length fs ->
  vmark n fs flags true = map (fun fb => if vbound n (fst fb) then true else snd fb) (combine fs flags).
Proof.
  revert flags; induction fs as [|f fs IH]; intros [|b flags] H; simpl in *; try congruence.
  f_equal. apply IH. congruence.
Qed.

Definition flags_spec (fs : list vfield) (flags : list bool) (names : list string) : list bool :=
  map (fun fb => snd fb || (negb (vf_skip (fst fb)) && mem (vf_name (fst fb)) names)) (combine fs flags).

Lemma flags_spec_nil fs flags : List.length flags = List.length fs -> flags_spec fs flags [] = flags.
Proof.
  unfold flags_spec. revert flags. induction fs as [|f fs IHf]; intros [|b flags] H; simpl in *; try congruence.
  rewrite andb_false_r, orb_false_r. f_equal. apply IHf. congruence.
Qed.

Lemma flags_spec_cons fs flags n r : List.length flags = List.length fs ->
  flags_spec fs (vmark n fs flags true) r = flags_spec fs flags (n :: r).
Proof.
  unfold flags_spec. revert flags. induction fs as [|f fs IHf]; intros [|b flags] H; simpl in *; try congruence.
  f_equal; [|apply IHf; congruence].
  unfold vbound. rewrite String.eqb_sym.
  destruct (vf_skip f); cbn [negb andb]; [reflexivity|].
  destruct (String.eqb n (vf_name f)); cbn [orb]; [now rewrite orb_true_r|reflexivity].
Qed.

Lemma marks_spec fs names : forall flags, List.length flags = List.length fs ->
  marks fs flags names = flags_spec fs flags names.
Proof.
  induction names as [|n r IH]; intros flags H.
  - cbn [marks]. now rewrite flags_spec_nil.
  - cbn [marks]. rewrite IH by now apply vmark_length. now apply flags_spec_cons.
Qed.
Lemma count_false_0 l : count_false l = O -> forallb (fun b => b) l = true.
Proof.
  unfold count_false. induction l as [|b l IH]; simpl; [reflexivity|].
  destruct b; simpl; [exact IH|discriminate].
Qed.

Lemma sv_first_missing_all_true fs flags : forallb (fun b => b) flags = true -> sv_first_missing fs flags = None.
Proof.
  revert flags; induction fs as [|f fs IH]; intros [|b flags] H; simpl in *; try reflexivity.
  apply andb_true_iff in H as [-> H]. cbn [negb andb]. now apply IH.
Qed.

(* the final check on the flags left by a loop over DB names [names], all fields non-skipped *)
Lemma sv_first_missing_spec fs names :
  forallb (fun f => negb (vf_skip f)) fs = true ->
  (sv_first_missing fs (flags_spec fs (map (fun _ => false) fs) names) = None <->
   existsb (fun f => vf_required f && negb (mem (vf_name f) names)) fs = false).
Proof.
  unfold flags_spec. induction fs as [|f fs IH]; intros Hs; simpl in *; [tauto|].
  apply andb_true_iff in Hs as [Hf Hs]. unfold vf_required at 1. rewrite Hf. cbn [andb orb].
  destruct (mem (vf_name f) names); cbn [negb andb orb].
  - rewrite andb_false_r. cbn [orb]. now apply IH.
  - rewrite andb_true_r. destruct (vf_am f); cbn [negb orb]; [now apply IH|]. split; discriminate.
Qed.

Lemma unbound_dtu_nil fs db : drop_trailing_unbound fs db = [] -> forallb (unbound fs) db = true.
Proof.
  induction db as [|c db IH]; simpl; [reflexivity|].
  destruct (drop_trailing_unbound fs db) eqn:E; [|discriminate].
  unfold unbound at 1. destruct (vfind (fst c) fs); [discriminate|]. intros _. now rewrite IH.
Qed.

Lemma emit_all_unbound forbid fs db out sk : forallb (unbound fs) db = true ->
  emit forbid fs db out sk = (out, (sk + List.length db)%nat).
Proof.
  revert sk; induction db as [|c db IH]; intros sk H; simpl in *.
  - f_equal. lia.
  - apply andb_true_iff in H as [-> H]. rewrite IH by assumption. f_equal. lia.
Qed.

Lemma repeat_snoc {A} (x : A) k : repeat x (S k) = repeat x k ++ [x].
Proof. induction k as [|k IH]; [reflexivity|]. simpl in *. now rewrite <- IH. Qed.

(* pending NULLs + "not sent at all at the end" = dropping the trailing unbound DB fields *)
Lemma emit_dtu fs db : forall out sk,
  fst (emit false fs db out sk) =
  match drop_trailing_unbound fs db with
  | [] => out
  | r => out ++ repeat None sk ++ map (cellof fs) r
  end.
Proof.
  induction db as [|c db IH]; intros out sk; [reflexivity|].
  cbn [emit drop_trailing_unbound]. unfold unbound at 1.
  destruct (vfind (fst c) fs) as [f|] eqn:F.
  - rewrite IH. destruct (drop_trailing_unbound fs db) as [|x r] eqn:E.
    + cbn [map]. now rewrite <- app_assoc.
    + cbn [repeat app map]. now rewrite <- !app_assoc.
  - rewrite IH. destruct (drop_trailing_unbound fs db) as [|x r] eqn:E; [reflexivity|].
    assert (Ec : cellof fs c = None) by (unfold cellof; now rewrite F).
    rewrite repeat_snoc. cbn [map]. rewrite Ec. now rewrite <- !app_assoc.
Qed.

Lemma dtu_all_bound fs db : existsb (unbound fs) db = false -> drop_trailing_unbound fs db = db.
Proof.
  induction db as [|c db IH]; simpl; [reflexivity|].
  intros H. apply orb_false_iff in H as [H1 H2]. rewrite IH by assumption.
  unfold unbound in H1. destruct (vfind (fst c) fs); [|discriminate]. now destruct db.
Qed.

Lemma emit_forbid fs db : existsb (unbound fs) db = false -> forall out sk,
  emit true fs db out sk = (out ++ map (cellof fs) db, sk).
Proof.
  induction db as [|c db IH]; intros H out sk; simpl in *; [now rewrite app_nil_r|].
  apply orb_false_iff in H as [-> H]. rewrite IH by assumption. now rewrite <- app_assoc.
Qed.

Lemma nonskipped_idem fs : nonskipped (nonskipped fs) = nonskipped fs.
Proof.
  unfold nonskipped. induction fs as [|f fs IH]; simpl; [reflexivity|].
  destruct (negb (vf_skip f)) eqn:S; simpl; [rewrite S; now f_equal|exact IH].
Qed.

Lemma nonskipped_vnodup fs : vnodup fs -> vnodup (nonskipped fs).
Proof. unfold vnodup. now rewrite nonskipped_idem. Qed.

Lemma existsb_ext' {A} (f g : A -> bool) l : (forall x, f x = g x) -> existsb f l = existsb g l.
Proof. intros H. induction l as [|x l IH]; simpl; [reflexivity|]. now rewrite H, IH. Qed.

Lemma existsb_nonskipped (p : vfield -> bool) fs :
  existsb (fun f => negb (vf_skip f) && p f) fs = existsb (fun f => negb (vf_skip f) && p f) (nonskipped fs).
Proof.
  unfold nonskipped. induction fs as [|f fs IH]; simpl; [reflexivity|].
  destruct (vf_skip f) eqn:S; simpl; [exact IH|]. rewrite S. simpl. now rewrite IH.
Qed.

Lemma sv_bad_split forbid fs db :
  existsb (sv_bad forbid fs) db = (forbid && existsb (unbound fs) db) || existsb (ser_fails fs) db.
Proof.
  unfold sv_bad. induction db as [|c db IH]; simpl; [now rewrite andb_false_r|].
  rewrite IH. destruct forbid, (unbound fs c), (ser_fails fs c), (existsb (unbound fs) db), (existsb (ser_fails fs) db); reflexivity.
Qed.

Theorem ser_value_by_name_doc d db : vnodup (vd_fields d) ->
  outcome_of (gen_ser_value_by_name d db) = doc_ser_value_by_name d db.
Proof.
  intros Hnd0. unfold gen_ser_value_by_name, doc_ser_value_by_name. cbv zeta.
  set (fs0 := vd_fields d). set (fs := nonskipped fs0).
  assert (Hnd : vnodup fs) by now apply nonskipped_vnodup.
  set (st0 := {| sv_flags := map (fun _ => false) fs; sv_remaining := List.length fs;
                 sv_skipped := 0%nat; sv_out := [] |}).
  assert (Hl : List.length (sv_flags st0) = List.length fs) by (cbn; apply map_length).
  assert (Hr : sv_remaining st0 = count_false (sv_flags st0)).
  { cbn. unfold count_false. clear. induction fs; simpl; congruence. }
  pose proof (sv_loop_char (vd_forbid d) fs db Hnd st0 Hl Hr) as L.
  (* the three checks of the documentation, phrased on fs *)
  assert (Emiss : existsb (fun f => vf_required f && negb (mem (vf_name f) (map fst db))) fs0
                  = existsb (fun f => vf_required f && negb (mem (vf_name f) (map fst db))) fs).
  { unfold vf_required.
    rewrite (existsb_ext' _ (fun f => negb (vf_skip f) && (negb (vf_am f) && negb (mem (vf_name f) (map fst db)))))
      by (intros; now rewrite andb_assoc).
    rewrite existsb_nonskipped. apply existsb_ext'. intros; now rewrite andb_assoc. }
  assert (Eunb : forall c, match vfind (fst c) fs0 with None => true | Some _ => false end = unbound fs c).
  { intros c. unfold unbound, fs. now rewrite vfind_nonskipped. }
  assert (Efail : forall c, match vfind (fst c) fs0 with
                            | Some f => match ser_field (vf_ty f) (vf_val f) (snd c) with None => true | Some _ => false end
                            | None => false end = ser_fails fs c).
  { intros c. unfold ser_fails, fs. now rewrite vfind_nonskipped. }
  assert (Ecell : forall c, match vfind (fst c) fs0 with
                            | Some f => match ser_field (vf_ty f) (vf_val f) (snd c) with Some cl => cl | None => None end
                            | None => None end = cellof fs c).
  { intros c. unfold cellof, fs. now rewrite vfind_nonskipped. }
  rewrite Emiss.
  rewrite (existsb_ext' (fun c : string * dty => match vfind (fst c) fs0 with Some _ => false | None => true end)
             (unbound fs) db Eunb).
  rewrite (existsb_ext' (fun c : string * dty => match vfind (fst c) fs0 with
             | Some f => match ser_field (vf_ty f) (vf_val f) (snd c) with Some _ => false | None => true end
             | None => false end) (ser_fails fs) db Efail).
  rewrite (map_ext _ _ Ecell).
  assert (Edtu : drop_trailing_unbound fs0 db = drop_trailing_unbound fs db).
  { clear -fs. induction db as [|c db IH]; simpl; [reflexivity|]. unfold fs at 2. now rewrite IH, vfind_nonskipped. }
  rewrite Edtu.
  rewrite sv_bad_split in L.
  change (@existsb (string * dty)%type) with (@existsb dbfield).
  destruct (existsb (fun f => vf_required f && negb (mem (vf_name f) (map fst db))) fs) eqn:Miss.
  - (* a required field is missing: rejected either in the loop or by the final check *)
    destruct ((vd_forbid d && existsb (unbound fs) db) || existsb (ser_fails fs) db) eqn:Bad.
    + destruct L as [e [-> _]]. reflexivity.
    + rewrite L. cbn [sv_remaining sv_flags sv_out sv_skipped].
      rewrite marks_spec by (cbn; apply map_length). cbn [sv_flags sv_out sv_skipped st0].
      pose proof (sv_first_missing_spec fs (map fst db) (nonskipped_all fs0)) as FM.
      destruct (0 <? _)%nat eqn:G.
      * destruct (sv_first_missing fs _) as [nm|] eqn:SM; [reflexivity|].
        rewrite (proj1 FM eq_refl) in Miss. discriminate.
      * exfalso. apply Nat.ltb_ge in G.
        assert (SM : sv_first_missing fs (flags_spec fs (map (fun _ => false) fs) (map fst db)) = None).
        { apply sv_first_missing_all_true, count_false_0. lia. }
        apply FM in SM. congruence.
  - destruct (vd_forbid d && existsb (unbound fs) db) eqn:B1.
    + cbn [orb] in L. destruct L as [e [-> _]]. reflexivity.
    + cbn [orb] in L. destruct (existsb (ser_fails fs) db) eqn:B2.
      * destruct L as [e [-> _]]. reflexivity.
      * rewrite L. cbn [sv_remaining sv_flags sv_out sv_skipped].
        rewrite marks_spec by (cbn; apply map_length). cbn [sv_flags sv_out sv_skipped st0].
        pose proof (sv_first_missing_spec fs (map fst db) (nonskipped_all fs0)) as FM.
        rewrite (proj2 FM Miss).
        assert (Eout : fst (emit (vd_forbid d) fs db [] 0) = map (cellof fs) (drop_trailing_unbound fs db)).
        { destruct (vd_forbid d); cbn [andb] in B1.
          - rewrite emit_forbid by assumption. cbn [fst app]. now rewrite dtu_all_bound.
          - rewrite emit_dtu. destruct (drop_trailing_unbound fs db); reflexivity. }
        rewrite Eout. now destruct (0 <? _)%nat.
Qed.
(* ------------------------------------------------------------ DeserializeValue, match_by_name: type_check *)

Lemma vbound_name' n f : vbound n f = true -> vf_name f = n /\ vf_skip f = false.
Proof.
  unfold vbound. intros H. apply andb_true_iff in H as [H1 H2].
  apply String.eqb_eq in H2. apply negb_true_iff in H1. tauto.
Qed.

Lemma vstate_vmark {S} m n fs (st : list S) nw : List.length st = List.length fs ->
  vstate m fs (vmark n fs st nw) =
  match vstate m fs st with
  | Some s => if String.eqb m n then Some nw else Some s
  | None => None
  end.
Proof.
  revert st; induction fs as [|f fs IH]; intros [|s st] H; simpl in *; try congruence; try reflexivity.
  destruct (vbound m f) eqn:Bm.
  - destruct (vbound_name' _ _ Bm) as [Hn Hs]. unfold vbound. rewrite Hs, Hn. cbn [negb andb].
    destruct (String.eqb m n); reflexivity.
  - apply IH. congruence.
Qed.

Lemma vstate_some_iff {S} n fs (st : list S) : List.length st = List.length fs ->
  (vstate n fs st = None <-> vfind n fs = None).
Proof.
  unfold vfind. revert st; induction fs as [|f fs IH]; intros [|s st] H; simpl in *; try congruence; try tauto.
  fold (vbound n f). destruct (vbound n f); [split; discriminate|]. apply IH. congruence.
Qed.

Lemma vfind_bound n fs f : vfind n fs = Some f -> vbound n f = true /\ In f fs.
Proof. unfold vfind. intros H. apply find_some in H. tauto. Qed.

Lemma vbound_name n f : vbound n f = true -> vf_name f = n /\ vf_skip f = false.
Proof.
  unfold vbound. intros H. apply andb_true_iff in H as [H1 H2].
  apply String.eqb_eq in H2. apply negb_true_iff in H1. tauto.
Qed.

Lemma vfind_self fs f : vnodup fs -> In f fs -> vf_skip f = false -> vfind (vf_name f) fs = Some f.
Proof.
  unfold vfind. induction fs as [|g fs IH]; intros Hnd Hin Hs; [contradiction|].
  cbn [find]. fold (vbound (vf_name f) g). destruct (vbound (vf_name f) g) eqn:B.
  - destruct Hin as [->|Hin]; [reflexivity|].
    pose proof (vnodup_head_unique g fs _ Hnd B f Hin) as X.
    unfold vbound in X. rewrite Hs, String.eqb_refl in X. discriminate.
  - destruct Hin as [->|Hin].
    + unfold vbound in B. rewrite Hs, String.eqb_refl in B. discriminate.
    + apply IH; try assumption. now apply vnodup_tail in Hnd.
Qed.

(* number of required fields not yet visited *)
Fixpoint count_req (fs : list vfield) (flags : list bool) : nat :=
  match fs, flags with
  | f :: fs', b :: flags' => ((if vf_required f && negb b then 1 else 0) + count_req fs' flags')%nat
  | _, _ => O
  end.

Lemma count_req_vmark n fs flags f : List.length flags = List.length fs -> vnodup fs ->
  vfind n fs = Some f -> vstate n fs flags = Some false ->
  count_req fs flags = ((if vf_required f then 1 else 0) + count_req fs (vmark n fs flags true))%nat.
Proof.
  unfold vfind. revert flags; induction fs as [|g fs IH]; intros [|b flags] H Hnd F V; simpl in *; try congruence.
  fold (vbound n g) in *. destruct (vbound n g) eqn:B.
  - injection F as ->. injection V as ->.
    rewrite (vmark_nobound n fs flags true) by (congruence || apply (vnodup_head_unique f fs n Hnd B)).
    cbn [negb]. rewrite andb_true_r, andb_false_r. lia.
  - rewrite (IH flags ltac:(congruence) (vnodup_tail _ _ Hnd) F V). lia.
Qed.

Definition tv_cond (forbid : bool) (fs : list vfield) (flags : list bool) (c : dbfield) : bool :=
  match vfind (fst c) fs with
  | Some f => match vstate (fst c) fs flags with Some false => accepts (vf_ty f) (snd c) | _ => false end
  | None => negb forbid
  end.

Fixpoint tv_okb (forbid : bool) (fs : list vfield) (flags : list bool) (db : list dbfield) : bool :=
  match db with
  | [] => true
  | c :: db' => tv_cond forbid fs flags c && tv_okb forbid fs (vmark (fst c) fs flags true) db'
  end.

Lemma tv_loop_char forbid fs db : vnodup fs -> forall st,
  List.length (tv_flags st) = List.length fs ->
  tv_remaining st = count_req fs (tv_flags st) ->
  if tv_okb forbid fs (tv_flags st) db
  then tv_loop forbid fs st db =
       Ok {| tv_flags := marks fs (tv_flags st) (map fst db);
             tv_remaining := count_req fs (marks fs (tv_flags st) (map fst db)) |}
  else exists e, tv_loop forbid fs st db = Err e /\ e <> EPanic.
Proof.
  intros Hnd. induction db as [|[n ty] db IH]; intros st Hl Hr.
  - simpl. destruct st; simpl in *. now subst.
  - cbn [tv_okb tv_loop tv_step fst snd map marks]. unfold tv_cond. cbn [fst snd].
    destruct (vmatch n fs (tv_flags st) true) as [[[f was] flags']|] eqn:M.
    + destruct (vmatch_some _ _ _ _ _ _ _ Hl Hnd M) as (F & Vs & -> & B).
      rewrite F, Vs. destruct was.
      * cbn [andb]. eexists. split; [reflexivity|discriminate].
      * destruct (accepts (vf_ty f) ty) eqn:A.
        -- cbn [andb].
           pose proof (count_req_vmark n fs (tv_flags st) f Hl Hnd F Vs) as C.
           destruct (vf_required f) eqn:R.
           ++ rewrite Hr, C. cbn [dec Nat.add].
              specialize (IH {| tv_flags := vmark n fs (tv_flags st) true;
                                tv_remaining := count_req fs (vmark n fs (tv_flags st) true) |}).
              cbn [tv_flags tv_remaining] in IH.
              exact (IH ltac:(now apply vmark_length) eq_refl).
           ++ specialize (IH {| tv_flags := vmark n fs (tv_flags st) true;
                                tv_remaining := tv_remaining st |}).
              cbn [tv_flags tv_remaining] in IH.
              exact (IH ltac:(now apply vmark_length) ltac:(rewrite Hr, C; reflexivity)).
        -- cbn [andb]. eexists. split; [reflexivity|discriminate].
    + apply (vmatch_none n fs (tv_flags st) true Hl) in M. rewrite M.
      destruct forbid; cbn [negb andb].
      * eexists. split; [reflexivity|discriminate].
      * assert (Hm : vmark n fs (tv_flags st) true = tv_flags st).
        { apply vmark_nobound; [assumption|]. now apply vfind_none. }
        rewrite Hm. exact (IH st Hl Hr).
Qed.
Definition dupfree (fs : list vfield) (flags : list bool) (db : list dbfield) : Prop :=
  forall f, In f fs -> vf_skip f = false ->
    match vstate (vf_name f) fs flags with
    | Some true => count_name (vf_name f) db = O
    | _ => (count_name (vf_name f) db <= 1)%nat
    end.

Definition all_bound (fs : list vfield) (db : list dbfield) : bool :=
  forallb (fun c => match vfind (fst c) fs with Some _ => true | None => false end) db.
Definition all_accept (fs : list vfield) (db : list dbfield) : bool :=
  forallb (fun c => match vfind (fst c) fs with Some f => accepts (vf_ty f) (snd c) | None => true end) db.

Lemma count_name_cons n c db :
  count_name n (c :: db) = ((if String.eqb (fst c) n then 1 else 0) + count_name n db)%nat.
Proof. unfold count_name. simpl. destruct (String.eqb (fst c) n); reflexivity. Qed.

Lemma tv_okb_spec forbid fs db : vnodup fs -> forall flags, List.length flags = List.length fs ->
  (tv_okb forbid fs flags db = true <->
   dupfree fs flags db /\ (negb forbid || all_bound fs db = true) /\ all_accept fs db = true).
Proof.
  intros Hnd. induction db as [|[n ty] db IH]; intros flags Hl.
  - cbn [tv_okb all_bound all_accept forallb]. rewrite orb_true_r. split; [|reflexivity].
    intros _. repeat split. intros f Hf Hs. unfold count_name. simpl. destruct (vstate _ _ _) as [[|]|]; lia.
  - cbn [tv_okb]. rewrite andb_true_iff, (IH (vmark n fs flags true)) by now apply vmark_length.
    unfold tv_cond. cbn [fst snd all_bound all_accept forallb].
    fold (all_bound fs db). fold (all_accept fs db).
    destruct (vfind n fs) as [g|] eqn:F.
    + destruct (vfind_bound _ _ _ F) as [Bg Ing]. destruct (vbound_name' _ _ Bg) as [Ng Sg].
      cbn [andb].
      assert (Step : (vstate n fs flags = Some false /\ dupfree fs (vmark n fs flags true) db)
                     <-> dupfree fs flags ((n, ty) :: db)).
      { unfold dupfree. split.
        - intros [V D] f Hf Hs. specialize (D f Hf Hs). rewrite count_name_cons. cbn [fst].
          rewrite vstate_vmark in D by assumption.
          destruct (String.eqb n (vf_name f)) eqn:E.
          + apply String.eqb_eq in E. rewrite <- E in *. rewrite V in *. rewrite String.eqb_refl in D. lia.
          + rewrite String.eqb_sym in E. rewrite E in D. destruct (vstate (vf_name f) fs flags) as [[|]|]; lia.
        - intros D. assert (V : vstate n fs flags = Some false).
          { specialize (D g Ing Sg). rewrite Ng, count_name_cons in D. cbn [fst] in D.
            rewrite String.eqb_refl in D.
            destruct (vstate n fs flags) as [[|]|] eqn:V; [lia|reflexivity|].
            apply vstate_some_iff in V; [congruence|assumption]. }
          split; [assumption|]. intros f Hf Hs. specialize (D f Hf Hs).
          rewrite count_name_cons in D. cbn [fst] in D. rewrite vstate_vmark by assumption.
          destruct (String.eqb n (vf_name f)) eqn:E.
          + apply String.eqb_eq in E. rewrite <- E in *. rewrite V in *. rewrite String.eqb_refl. lia.
          + rewrite String.eqb_sym in E. rewrite E. destruct (vstate (vf_name f) fs flags) as [[|]|]; lia. }
      rewrite <- Step.
      destruct (vstate n fs flags) as [[|]|]; try (split; [intros [X _]; discriminate | intros [[X _] _]; discriminate]).
      rewrite andb_true_iff. tauto.
    + cbn [andb]. rewrite orb_false_r.
      assert (Hm : vmark n fs flags true = flags).
      { apply vmark_nobound; [assumption|]. now apply vfind_none. }
      rewrite Hm.
      assert (Step : dupfree fs flags db <-> dupfree fs flags ((n, ty) :: db)).
      { unfold dupfree. split; intros D f Hf Hs; specialize (D f Hf Hs);
          rewrite count_name_cons in *; cbn [fst] in *.
        - destruct (String.eqb n (vf_name f)) eqn:E; [|exact D].
          apply String.eqb_eq in E. subst n. rewrite vfind_self in F by assumption. discriminate.
        - destruct (String.eqb n (vf_name f)) eqn:E; [|exact D].
          apply String.eqb_eq in E. subst n. rewrite vfind_self in F by assumption. discriminate. }
      rewrite <- Step. destruct forbid; cbn [negb orb]; intuition congruence.
Qed.

Lemma vstate_allfalse fs f : In f fs -> vf_skip f = false ->
  vstate (vf_name f) fs (map (fun _ => false) fs) = Some false.
Proof.
  induction fs as [|g fs IH]; intros Hin Hs; [contradiction|]. simpl.
  destruct (vbound (vf_name f) g) eqn:B; [reflexivity|].
  destruct Hin as [->|Hin]; [|now apply IH].
  unfold vbound in B. rewrite Hs, String.eqb_refl in B. discriminate.
Qed.

Lemma count_req_spec fs names : forall flags, List.length flags = List.length fs ->
  (count_req fs (flags_spec fs flags names) = O <->
   forallb (fun fb => negb (vf_required (fst fb)) || snd fb || mem (vf_name (fst fb)) names) (combine fs flags) = true).
Proof.
  unfold flags_spec. induction fs as [|f fs IH]; intros [|b flags] H; simpl in *; try congruence; try tauto.
  rewrite andb_true_iff, <- IH by congruence. unfold vf_required.
  destruct (vf_skip f), (vf_am f), b, (mem (vf_name f) names); cbn [negb andb orb]; split; try lia; try tauto; intros [? ?]; try discriminate; lia.
Qed.

Theorem typeck_value_by_name_doc d db : vnodup (vd_fields d) ->
  (gen_typeck_value_by_name d db = Ok tt <-> doc_typeck_value_by_name d db = true) /\
  gen_typeck_value_by_name d db <> Err EPanic.
Proof.
  intros Hnd. unfold gen_typeck_value_by_name, doc_typeck_value_by_name. cbv zeta.
  set (fs := vd_fields d).
  set (st0 := {| tv_flags := map (fun _ => false) fs; tv_remaining := List.length (filter vf_required fs) |}).
  assert (Hl : List.length (tv_flags st0) = List.length fs) by (cbn; apply map_length).
  assert (Hr : tv_remaining st0 = count_req fs (tv_flags st0)).
  { cbn. clear. induction fs as [|f fs IH]; simpl; [reflexivity|].
    destruct (vf_required f); simpl; lia. }
  pose proof (tv_loop_char (vd_forbid d) fs db Hnd st0 Hl Hr) as L.
  pose proof (tv_okb_spec (vd_forbid d) fs db Hnd (tv_flags st0) Hl) as S.
  fold (all_bound fs db). fold (all_accept fs db).
  assert (Dup : dupfree fs (tv_flags st0) db <->
                forallb (fun f => vf_skip f || (count_name (vf_name f) db <=? 1)%nat) fs = true).
  { unfold dupfree. rewrite forallb_forall. split.
    - intros D f Hf. destruct (vf_skip f) eqn:Sk; [reflexivity|]. cbn [orb].
      specialize (D f Hf Sk). cbn [tv_flags st0] in D. rewrite vstate_allfalse in D by assumption.
      now apply Nat.leb_le.
    - intros D f Hf Sk. cbn [tv_flags st0]. rewrite vstate_allfalse by assumption.
      specialize (D f Hf). rewrite Sk in D. now apply Nat.leb_le in D. }
  assert (Miss : count_req fs (flags_spec fs (map (fun _ => false) fs) (map fst db)) = O <->
                 forallb (fun f => negb (vf_required f) || mem (vf_name f) (map fst db)) fs = true).
  { rewrite count_req_spec by apply map_length. clear. induction fs as [|f fs IH]; simpl; [tauto|].
    rewrite !andb_true_iff, IH, orb_false_r. tauto. }
  destruct (tv_okb (vd_forbid d) fs (tv_flags st0) db) eqn:Okb.
  - rewrite L. cbn [tv_remaining tv_flags st0]. rewrite marks_spec by apply map_length.
    destruct (proj1 S eq_refl) as (D1 & D2 & D3).
    rewrite (proj1 Dup D1), D2, D3, !andb_true_r.
    destruct (0 <? _)%nat eqn:G.
    + split; [|discriminate]. split; [discriminate|]. intros A. apply Miss in A. apply Nat.ltb_lt in G. lia.
    + split; [|discriminate]. split; [|reflexivity]. intros _. apply Miss. apply Nat.ltb_ge in G. lia.
  - destruct L as [e [-> Ne]]. split; [|congruence]. split; [discriminate|].
    intros A. apply andb_true_iff in A as [A A4]. apply andb_true_iff in A as [A A3].
    apply andb_true_iff in A as [A1 A2].
    assert (X : false = true).
    { apply S. repeat split; [now apply Dup|assumption|assumption]. }
    discriminate.
Qed.
(* ------------------------------------------------------------ DeserializeValue, match_by_name: deserialize *)

Lemma udt_items_fst db cells : map fst (udt_items db cells) = db.
Proof.
  revert cells; induction db as [|c db IH]; intros cells; [reflexivity|].
  destruct cells; simpl; now rewrite IH.
Qed.

Definition item_ok (fs : list vfield) (it : dbfield * cell) : bool :=
  match vfind (fst (fst it)) fs with
  | Some f => match deser_with_default f (snd it) with Some _ => true | None => false end
  | None => true
  end.

Definition slotfree (fs : list vfield) (slots : list (option cell)) (db : list dbfield) : Prop :=
  forall f, In f fs -> vf_skip f = false ->
    match vstate (vf_name f) fs slots with
    | Some (Some _) => count_name (vf_name f) db = O
    | _ => (count_name (vf_name f) db <= 1)%nat
    end.

Definition slot_after (f : vfield) (old : option (option cell)) (its : list (dbfield * cell))
  : option (option cell) :=
  match old with
  | Some (Some x) => Some (Some x)
  | Some None => Some (match db_cell (vf_name f) its with Some v => deser_with_default f v | None => None end)
  | None => None
  end.

Lemma dv_loop_char fs : vnodup fs -> forall its slots,
  List.length slots = List.length fs -> slotfree fs slots (map fst its) ->
  if forallb (item_ok fs) its
  then exists slots', dv_loop fs slots its = Ok slots' /\ List.length slots' = List.length fs /\
         forall f, In f fs -> vf_skip f = false ->
           vstate (vf_name f) fs slots' = slot_after f (vstate (vf_name f) fs slots) its
  else exists n, dv_loop fs slots its = Err (EFieldDeserializationFailed n).
Proof.
  intros Hnd. induction its as [|[[n ty] v] its IH]; intros slots Hl Free.
  - cbn. exists slots. repeat split; try assumption. intros f Hf Hs. unfold slot_after. cbn.
    destruct (vstate (vf_name f) fs slots) as [[x|]|]; reflexivity.
  - cbn [forallb dv_loop dv_step map fst]. unfold item_ok at 1. cbn [fst snd].
    destruct (vmatch n fs slots None) as [[[f old] sl0]|] eqn:M.
    + destruct (vmatch_some _ _ _ _ _ _ _ Hl Hnd M) as (F & Vs & _ & B).
      destruct (vfind_bound _ _ _ F) as [_ Inf]. destruct (vbound_name' _ _ B) as [Nf Sf].
      rewrite F.
      assert (old = None) as ->.
      { specialize (Free f Inf Sf). rewrite Nf, Vs in Free. cbn [map fst] in Free.
        rewrite count_name_cons in Free. cbn [fst] in Free. rewrite String.eqb_refl in Free.
        destruct old; [lia|reflexivity]. }
      destruct (deser_with_default f v) as [x|] eqn:Dx; cbn [andb].
      * destruct (vmatch n fs slots (Some x)) as [[[f' old'] slots1]|] eqn:M1.
        2:{ apply (vmatch_none n fs slots (Some x) Hl) in M1. congruence. }
        destruct (vmatch_some _ _ _ _ _ _ _ Hl Hnd M1) as (_ & _ & -> & _).
        assert (Hl1 : List.length (vmark n fs slots (Some x)) = List.length fs) by now apply vmark_length.
        assert (Free1 : slotfree fs (vmark n fs slots (Some x)) (map fst its)).
        { intros g Hg Sg. specialize (Free g Hg Sg). cbn [map fst] in Free.
          rewrite count_name_cons in Free. cbn [fst] in Free.
          rewrite vstate_vmark by assumption.
          destruct (String.eqb n (vf_name g)) eqn:E.
          - apply String.eqb_eq in E. rewrite <- E in *. rewrite Vs in *. rewrite String.eqb_refl. lia.
          - rewrite String.eqb_sym in E. rewrite E.
            destruct (vstate (vf_name g) fs slots) as [[y|]|]; lia. }
        specialize (IH _ Hl1 Free1).
        destruct (forallb (item_ok fs) its); [|exact IH].
        destruct IH as (slots' & L & Hl' & Sp). exists slots'. repeat split; try assumption.
        intros g Hg Sg. rewrite (Sp g Hg Sg). rewrite vstate_vmark by assumption.
        unfold slot_after. cbn [db_cell].
        destruct (String.eqb n (vf_name g)) eqn:E.
        -- apply String.eqb_eq in E.
           assert (g = f) as ->.
           { rewrite E in F. rewrite vfind_self in F by assumption. congruence. }
           rewrite Nf, Vs, String.eqb_refl. now rewrite Dx.
        -- rewrite String.eqb_sym in E. rewrite E.
           destruct (vstate (vf_name g) fs slots) as [[y|]|]; reflexivity.
      * eexists. reflexivity.
    + apply (vmatch_none n fs slots None Hl) in M. rewrite M.
      assert (Free1 : slotfree fs slots (map fst its)).
      { intros g Hg Sg. specialize (Free g Hg Sg). cbn [map fst] in Free.
        rewrite count_name_cons in Free. cbn [fst] in Free.
        destruct (String.eqb n (vf_name g)) eqn:E; [|exact Free].
        apply String.eqb_eq in E. rewrite E, vfind_self in M by assumption. discriminate. }
      specialize (IH _ Hl Free1). cbn [andb].
      destruct (forallb (item_ok fs) its); [|exact IH].
      destruct IH as (slots' & L & Hl' & Sp). exists slots'. repeat split; try assumption.
      intros g Hg Sg. rewrite (Sp g Hg Sg). unfold slot_after. cbn [db_cell].
      destruct (String.eqb n (vf_name g)) eqn:E; [|reflexivity].
      apply String.eqb_eq in E. rewrite E, vfind_self in M by assumption. discriminate.
Qed.

(* generate_finalize_field as a function of the field's final slot *)
Definition vfin (f : vfield) (o : option (option cell)) : result err cell :=
  if vf_skip f then Ok (default_cell (vf_ty f))
  else if vf_am f then Ok (match o with Some (Some x) => x | _ => default_cell (vf_ty f) end)
  else match o with Some (Some x) => Ok x | _ => Err EPanic end.

Fixpoint sequence {A} (l : list (result err A)) : result err (list A) :=
  match l with
  | [] => Ok []
  | Err e :: _ => Err e
  | Ok x :: r => match sequence r with Err e => Err e | Ok xs => Ok (x :: xs) end
  end.

Lemma dv_finalize_by_name fs : vnodup fs -> forall slots, List.length slots = List.length fs ->
  dv_finalize fs slots = sequence (map (fun f => vfin f (vstate (vf_name f) fs slots)) fs).
Proof.
  induction fs as [|g fs IH]; intros Hnd [|s slots] Hl; simpl in *; try congruence; try reflexivity.
  assert (Tail : map (fun f => vfin f (if vbound (vf_name f) g then Some s else vstate (vf_name f) fs slots)) fs
                 = map (fun f => vfin f (vstate (vf_name f) fs slots)) fs).
  { apply map_ext_in. intros f Hf. unfold vfin. destruct (vf_skip f) eqn:Sf; [reflexivity|].
    destruct (vbound (vf_name f) g) eqn:B; [|reflexivity].
    pose proof (vnodup_head_unique g fs _ Hnd B f Hf) as X. unfold vbound in X.
    rewrite Sf, String.eqb_refl in X. discriminate. }
  rewrite Tail, <- (IH (vnodup_tail _ _ Hnd) slots) by congruence.
  unfold vfin at 1. destruct (vf_skip g) eqn:Sg.
  - reflexivity.
  - unfold vbound. rewrite Sg, String.eqb_refl. cbn [negb andb].
    destruct (vf_am g); [reflexivity|]. destruct s; reflexivity.
Qed.

Lemma vstate_allnone fs f : In f fs -> vf_skip f = false ->
  vstate (vf_name f) fs (map (fun _ => @None cell) fs) = Some None.
Proof.
  induction fs as [|g fs IH]; intros Hin Hs; [contradiction|]. simpl.
  destruct (vbound (vf_name f) g) eqn:B; [reflexivity|].
  destruct Hin as [->|Hin]; [|now apply IH].
  unfold vbound in B. rewrite Hs, String.eqb_refl in B. discriminate.
Qed.

Lemma db_cell_none n its : db_cell n its = None <-> mem n (map fst (map fst its)) = false.
Proof.
  unfold mem. induction its as [|[[m ty] v] its IH]; cbn [map fst existsb db_cell]; [tauto|].
  rewrite (String.eqb_sym n m). destruct (String.eqb m n); cbn [orb]; [split; discriminate|exact IH].
Qed.

Lemma db_cell_unique n its ty v : (count_name n (map fst its) <= 1)%nat -> In ((n, ty), v) its ->
  db_cell n its = Some v.
Proof.
  induction its as [|[[m t0] v0] its IH]; intros C Hin; [contradiction|].
  cbn [map fst] in C. rewrite count_name_cons in C. cbn [fst] in C. cbn [db_cell].
  destruct Hin as [E|Hin].
  - injection E as -> -> ->. now rewrite String.eqb_refl.
  - destruct (String.eqb m n) eqn:E.
    + exfalso. assert (count_name n (map fst its) >= 1)%nat; [|lia].
      clear -Hin. induction its as [|[[m1 t1] v1] its IH]; [contradiction|].
      cbn [map fst]. rewrite count_name_cons. cbn [fst]. destruct Hin as [E|Hin].
      * injection E as -> -> ->. rewrite String.eqb_refl. lia.
      * specialize (IH Hin). lia.
    + apply IH; [lia|assumption].
Qed.

Lemma sequence_all_some {A} (l : list (result err A)) (m : list (option A)) :
  Forall2 (fun r o => match r, o with Ok x, Some y => x = y | Err _, None => True | _, _ => False end) l m ->
  outcome_of (sequence l) = match all_some m with Some vs => Accept vs | None => Reject end.
Proof.
  induction 1 as [|r o l m H _ IH]; [reflexivity|].
  destruct r as [x|e], o as [y|]; try contradiction; cbn [sequence all_some]; [|reflexivity].
  subst y. destruct (sequence l), (all_some m); cbn [outcome_of] in *; congruence.
Qed.

Lemma Forall2_map_same {A B C} (R : B -> C -> Prop) (f : A -> B) (g : A -> C) l :
  (forall x, In x l -> R (f x) (g x)) -> Forall2 R (map f l) (map g l).
Proof.
  induction l as [|x l IH]; intros H; simpl; constructor.
  - apply H. now left.
  - apply IH. intros y Hy. apply H. now right.
Qed.

Lemma sequence_not_panic {A} (l : list (result err A)) :
  Forall (fun r => r <> Err EPanic) l -> sequence l <> Err EPanic.
Proof.
  induction 1 as [|r l H _ IH]; simpl; [discriminate|].
  destruct r as [x|e]; [|intros E; apply H; congruence]. destruct (sequence l); [discriminate|exact IH].
Qed.

Theorem deser_value_by_name_doc d db cells : vnodup (vd_fields d) ->
  doc_typeck_value_by_name d db = true ->
  outcome_of (gen_deser_value_by_name d db cells) =
    match all_some (map (fun f => doc_field_value_m f (udt_items db cells)) (vd_fields d)) with
    | Some vs => Accept vs
    | None => Reject
    end /\
  gen_deser_value_by_name d db cells <> Err EPanic.
Proof.
  intros Hnd T. unfold gen_deser_value_by_name. cbv zeta. set (fs := vd_fields d) in *.
  set (its := udt_items db cells).
  unfold doc_typeck_value_by_name in T. cbv zeta in T. fold fs in T.
  apply andb_true_iff in T as [T T4]. apply andb_true_iff in T as [T T3]. apply andb_true_iff in T as [T1 T2].
  assert (Hl : List.length (map (fun _ => @None cell) fs) = List.length fs) by apply map_length.
  assert (Names : map fst its = db) by apply udt_items_fst.
  assert (Free : slotfree fs (map (fun _ => None) fs) (map fst its)).
  { rewrite Names. intros f Hf Sf. rewrite vstate_allnone by assumption.
    rewrite forallb_forall in T2. specialize (T2 f Hf). rewrite Sf in T2. now apply Nat.leb_le in T2. }
  pose proof (dv_loop_char fs Hnd its _ Hl Free) as L.
  destruct (forallb (item_ok fs) its) eqn:Ok.
  - destruct L as (slots' & -> & Hl' & Sp).
    rewrite dv_finalize_by_name by assumption. split.
    + apply sequence_all_some. apply Forall2_map_same. intros f Hf.
      unfold vfin, doc_field_value_m. destruct (vf_skip f) eqn:Sf; [reflexivity|].
      rewrite (Sp f Hf Sf), vstate_allnone by assumption. unfold slot_after.
      destruct (db_cell (vf_name f) its) as [v|] eqn:Dc.
      * (* the field is present: its item deserialized successfully *)
        assert (Hin : exists ty, In ((vf_name f, ty), v) its).
        { clear -Dc. induction its as [|[[m t0] v0] its IH]; [discriminate|]. cbn [db_cell] in Dc.
          destruct (String.eqb m (vf_name f)) eqn:E.
          - apply String.eqb_eq in E. injection Dc as ->. subst m. exists t0. now left.
          - destruct (IH Dc) as [ty H]. exists ty. now right. }
        destruct Hin as [ty Hin]. rewrite forallb_forall in Ok. specialize (Ok _ Hin).
        unfold item_ok in Ok. cbn [fst snd] in Ok. rewrite vfind_self in Ok by assumption.
        destruct (deser_with_default f v) as [x|]; [|discriminate].
        destruct (vf_am f); reflexivity.
      * (* absent: only possible for an allow_missing field *)
        apply db_cell_none in Dc. rewrite Names in Dc.
        rewrite forallb_forall in T1. specialize (T1 f Hf). unfold vf_required in T1.
        rewrite Sf, Dc in T1. cbn [negb andb orb] in T1. rewrite orb_false_r in T1.
        apply negb_true_iff in T1. apply negb_false_iff in T1. now rewrite T1.
    + apply sequence_not_panic. apply Forall_map. apply Forall_forall. intros f Hf.
      unfold vfin. destruct (vf_skip f) eqn:Sf; [discriminate|]. destruct (vf_am f) eqn:Am; [discriminate|].
      rewrite (Sp f Hf Sf), vstate_allnone by assumption. unfold slot_after.
      destruct (db_cell (vf_name f) its) as [v|] eqn:Dc.
      * assert (Hin : exists ty, In ((vf_name f, ty), v) its).
        { clear -Dc. induction its as [|[[m t0] v0] its IH]; [discriminate|]. cbn [db_cell] in Dc.
          destruct (String.eqb m (vf_name f)) eqn:E.
          - apply String.eqb_eq in E. injection Dc as ->. subst m. exists t0. now left.
          - destruct (IH Dc) as [ty H]. exists ty. now right. }
        destruct Hin as [ty Hin]. rewrite forallb_forall in Ok. specialize (Ok _ Hin).
        unfold item_ok in Ok. cbn [fst snd] in Ok. rewrite vfind_self in Ok by assumption.
        destruct (deser_with_default f v) as [x|]; [discriminate|discriminate].
      * exfalso. apply db_cell_none in Dc. rewrite Names in Dc.
        rewrite forallb_forall in T1. specialize (T1 f Hf). unfold vf_required in T1.
        rewrite Sf, Am, Dc in T1. discriminate.
  - destruct L as [n ->]. split; [|discriminate]. cbn [outcome_of].
    (* some bound item does not deserialize: the documented value of its field is an error *)
    assert (Bad : exists it, In it its /\ item_ok fs it = false).
    { clear -Ok. induction its as [|it its IH]; [discriminate|]. cbn [forallb] in Ok.
      destruct (item_ok fs it) eqn:E.
      - destruct (IH Ok) as [x [Hx Hb]]. exists x. split; [now right|assumption].
      - exists it. split; [now left|assumption]. }
    destruct Bad as ([[m ty] v] & Hin & Hb). unfold item_ok in Hb. cbn [fst snd] in Hb.
    destruct (vfind m fs) as [f|] eqn:F; [|discriminate].
    destruct (vfind_bound _ _ _ F) as [B Inf]. destruct (vbound_name' _ _ B) as [Nf Sf].
    assert (Dv : doc_field_value_m f its = None).
    { unfold doc_field_value_m. rewrite Sf.
      rewrite forallb_forall in T2. specialize (T2 f Inf). rewrite Sf in T2. apply Nat.leb_le in T2.
      rewrite <- Names in T2.
      assert (Dc : db_cell m its = Some v).
      { apply (db_cell_unique m its ty v); [rewrite <- Nf; exact T2 | exact Hin]. }
      rewrite Nf, Dc.
      destruct (deser_with_default f v); [discriminate|reflexivity]. }
    assert (X : all_some (map (fun f => doc_field_value_m f its) fs) = None).
    { clear -Inf Dv. induction fs as [|g fs IH]; [contradiction|]. cbn [map all_some].
      destruct Inf as [->|Inf].
      - now rewrite Dv.
      - destruct (doc_field_value_m g its); [|reflexivity]. now rewrite (IH Inf). }
    now rewrite X.
Qed.
(* ------------------------------------------------------------ by-name values: placement and round trip *)

Lemma ser_field_some t v d cl : ser_field t v d = Some cl -> cl = v.
Proof. unfold ser_field. destruct v; [destruct (accepts t d)|]; congruence. Qed.

Lemma deser_back f : val_ok (vf_ty f) (vf_val f) = true -> deser_with_default f (vf_val f) = Some (vf_val f).
Proof.
  unfold deser_with_default, deser_field, val_ok.
  destruct (vf_val f) as [p|]; intros H.
  - rewrite H. now destruct (vf_dwn f).
  - rewrite H. destruct (vf_dwn f); [|reflexivity]. destruct (vf_ty f); try discriminate; reflexivity.
Qed.

Lemma dtu_prefix fs db : exists rest, db = drop_trailing_unbound fs db ++ rest /\ forallb (unbound fs) rest = true.
Proof.
  induction db as [|c db IH]; [exists []; split; reflexivity|].
  destruct IH as (rest & E & U). cbn [drop_trailing_unbound].
  destruct (drop_trailing_unbound fs db) as [|x r] eqn:D.
  - destruct (vfind (fst c) fs) eqn:F.
    + exists rest. cbn [app] in *. split; [now f_equal|assumption].
    + exists (c :: rest). cbn [app] in *. split; [now f_equal|]. cbn [forallb]. unfold unbound at 1. now rewrite F.
  - exists rest. split; [|assumption]. cbn [app]. now f_equal.
Qed.

Lemma udt_items_app (g : dbfield -> cell) D rest :
  udt_items (D ++ rest) (map g D) = map (fun c => (c, g c)) D ++ map (fun c => (c, None)) rest.
Proof.
  induction D as [|c D IH]; simpl.
  - induction rest as [|c rest IH]; simpl; [reflexivity|]. now rewrite IH.
  - now rewrite IH.
Qed.

Lemma db_cell_app_l n l1 l2 v : db_cell n l1 = Some v -> db_cell n (l1 ++ l2) = Some v.
Proof.
  induction l1 as [|[[m t] x] l1 IH]; [discriminate|]. simpl. destruct (String.eqb m n); [tauto|exact IH].
Qed.

Lemma db_cell_app_r n l1 l2 : db_cell n l1 = None -> db_cell n (l1 ++ l2) = db_cell n l2.
Proof.
  induction l1 as [|[[m t] x] l1 IH]; [reflexivity|]. simpl. destruct (String.eqb m n); [discriminate|exact IH].
Qed.

Lemma roundtrip_field_value d db f : vnodup (vd_fields d) -> In f (vd_fields d) ->
  val_ok (vf_ty f) (vf_val f) = true ->
  doc_ser_value_by_name d db = Accept (map (cellof (vd_fields d)) (drop_trailing_unbound (vd_fields d) db)) ->
  existsb (ser_fails (vd_fields d)) db = false ->
  doc_field_value_m f (udt_items db (map (cellof (vd_fields d)) (drop_trailing_unbound (vd_fields d) db)))
  = Some (back_value (map fst db) f).
Proof.
  intros Hnd Hf Hv _ NoFail. set (fs := vd_fields d) in *.
  unfold doc_field_value_m, back_value. destruct (vf_skip f) eqn:Sf; [reflexivity|].
  destruct (dtu_prefix fs db) as (rest & E & U).
  set (D := drop_trailing_unbound fs db) in *.
  rewrite E at 1. rewrite udt_items_app.
  destruct (mem (vf_name f) (map fst db)) eqn:M.
  - (* present: the first field of that name is within the sent prefix and carries the value *)
    assert (X : db_cell (vf_name f) (map (fun c => (c, cellof fs c)) D) = Some (vf_val f)).
    { assert (MD : mem (vf_name f) (map fst D) = true).
      { rewrite E, map_app in M. apply mem_In in M. apply in_app_or in M as [M|M]; [now apply mem_In|].
        exfalso. apply in_map_iff in M as (c & Hc & Inc). rewrite forallb_forall in U. specialize (U c Inc).
        unfold unbound in U. rewrite Hc, vfind_self in U by assumption. discriminate. }
      assert (NF : existsb (ser_fails fs) D = false).
      { rewrite E, existsb_app in NoFail. now apply orb_false_iff in NoFail as [? _]. }
      clear -MD NF Hnd Hf Sf. induction D as [|c D IH]; [discriminate|].
      cbn [map db_cell]. destruct c as [m t]. cbn [fst]. unfold mem in MD. cbn [map fst existsb] in MD, NF.
      apply orb_false_iff in NF as [NF1 NF2].
      destruct (String.eqb m (vf_name f)) eqn:Em.
      - apply String.eqb_eq in Em. subst m. f_equal. unfold cellof, ser_fails in *. cbn [fst snd] in *.
        rewrite vfind_self in * by assumption.
        destruct (ser_field (vf_ty f) (vf_val f) t) as [cl|] eqn:S; [|discriminate].
        now apply ser_field_some in S.
      - rewrite String.eqb_sym, Em in MD. cbn [orb] in MD. now apply IH. }
    rewrite (db_cell_app_l _ _ _ _ X). now apply deser_back.
  - assert (X : db_cell (vf_name f) (map (fun c => (c, cellof fs c)) D ++ map (fun c => (c, None)) rest) = None).
    { apply db_cell_none. rewrite !map_app, !map_map. cbn [fst]. rewrite <- map_app, <- E. exact M. }
    now rewrite X.
Qed.
Lemma all_some_map {A B} (g : A -> option B) (h : A -> B) l :
  (forall x, In x l -> g x = Some (h x)) -> all_some (map g l) = Some (map h l).
Proof.
  induction l as [|x l IH]; intros H; [reflexivity|]. cbn [map all_some].
  rewrite (H x) by now left. rewrite IH; [reflexivity|]. intros y Hy. apply H. now right.
Qed.

Lemma outcome_accept {A} (r : result err A) a : outcome_of r = Accept a -> r = Ok a.
Proof. destruct r; cbn; congruence. Qed.

Theorem roundtrip_value_by_name d db cells : vnodup (vd_fields d) -> vvals_ok d = true ->
  gen_ser_value_by_name d db = Ok cells -> gen_typeck_value_by_name d db = Ok tt ->
  gen_deser_value_by_name d db cells = Ok (map (back_value (map fst db)) (vd_fields d)).
Proof.
  intros Hnd Hv Hs Ht.
  pose proof (ser_value_by_name_doc d db Hnd) as S. rewrite Hs in S. cbn [outcome_of] in S.
  apply (proj1 (typeck_value_by_name_doc d db Hnd)) in Ht.
  destruct (deser_value_by_name_doc d db cells Hnd Ht) as [D _].
  apply outcome_accept. rewrite D.
  assert (Hc : cells = map (cellof (vd_fields d)) (drop_trailing_unbound (vd_fields d) db) /\
               existsb (ser_fails (vd_fields d)) db = false).
  { unfold doc_ser_value_by_name in S. cbv zeta in S.
    repeat match type of S with
           | context [if ?b then _ else _] => destruct b eqn:?; try discriminate S
           end.
    split; [injection S as S; exact S | assumption]. }
  destruct Hc as [-> NF].
  rewrite (all_some_map _ (back_value (map fst db))); [reflexivity|].
  intros f Hf. apply roundtrip_field_value; try assumption.
  - unfold vvals_ok in Hv. rewrite forallb_forall in Hv. now apply Hv.
  - symmetry. exact S.
Qed.

(* values placed in the database's order *)
Definition value_of (fs : list vfield) (n : string) : cell :=
  match vfind n fs with Some f => vf_val f | None => None end.

Theorem by_name_ser_value d db : vnodup (vd_fields d) ->
  Permutation (map fst db) (map vf_name (nonskipped (vd_fields d))) ->
  (forall c f, In c db -> vfind (fst c) (vd_fields d) = Some f -> accepts (vf_ty f) (snd c) = true) ->
  gen_ser_value_by_name d db = Ok (map (fun c => value_of (vd_fields d) (fst c)) db).
Proof.
  intros Hnd P Acc. apply outcome_accept. rewrite ser_value_by_name_doc by assumption.
  unfold doc_ser_value_by_name. cbv zeta. set (fs := vd_fields d) in *.
  assert (Bound : forall c, In c db -> exists f, vfind (fst c) fs = Some f /\ In f fs /\ vf_skip f = false).
  { intros c Hc. assert (In (fst c) (map vf_name (nonskipped fs))).
    { eapply Permutation_in; [exact P|]. now apply in_map. }
    apply in_map_iff in H as (f & Nf & Inf). unfold nonskipped in Inf. apply filter_In in Inf as [Inf Sf].
    apply negb_true_iff in Sf. exists f. rewrite <- Nf. split; [now apply vfind_self|tauto]. }
  assert (E1 : existsb (fun f => vf_required f && negb (mem (vf_name f) (map fst db))) fs = false).
  { apply not_true_is_false. intros H. apply existsb_exists in H as (f & Hf & H).
    apply andb_true_iff in H as [R M]. apply negb_true_iff in M.
    unfold vf_required in R. apply andb_true_iff in R as [Sf _].
    assert (In (vf_name f) (map fst db)).
    { eapply Permutation_in; [apply Permutation_sym; exact P|]. apply in_map. unfold nonskipped.
      apply filter_In. tauto. }
    apply mem_In in H. congruence. }
  assert (E2 : existsb (fun c : string * dty => match vfind (fst c) fs with None => true | Some _ => false end) db = false).
  { apply not_true_is_false. intros H. apply existsb_exists in H as (c & Hc & H).
    destruct (Bound c Hc) as (f & F & _). now rewrite F in H. }
  assert (E3 : existsb (fun c : string * dty => match vfind (fst c) fs with
             | Some f => match ser_field (vf_ty f) (vf_val f) (snd c) with Some _ => false | None => true end
             | None => false end) db = false).
  { apply not_true_is_false. intros H. apply existsb_exists in H as (c & Hc & H).
    destruct (Bound c Hc) as (f & F & _). rewrite F in H.
    unfold ser_field in H. rewrite (Acc c f Hc F) in H. now destruct (vf_val f). }
  rewrite E1, E2, E3, andb_false_r.
  rewrite dtu_all_bound by exact E2. f_equal. apply map_ext_in. intros c Hc.
  destruct (Bound c Hc) as (f & F & _). unfold value_of. rewrite F.
  unfold ser_field. rewrite (Acc c f Hc F). now destruct (vf_val f).
Qed.
(* ------------------------------------------------------------ enforce_order, UDT values *)

(* svo_loop without the accumulator *)
Fixpoint svo' (snc : bool) (fs : list vfield) (db : list dbfield) : result err (list cell * list dbfield) :=
  match fs with
  | [] => Ok ([], db)
  | f :: fs' =>
      match db with
      | (n, ty) :: db' =>
          if snc || String.eqb n (vf_name f) then
            match ser_field (vf_ty f) (vf_val f) ty with
            | None => Err (EFieldSerializationFailed n)
            | Some cl => match svo' snc fs' db' with
                         | Err e => Err e
                         | Ok (cs, rest) => Ok (cl :: cs, rest)
                         end
            end
          else if negb (vf_am f) then Err (EFieldNameMismatch (vf_name f) n)
          else svo' snc fs' db
      | [] =>
          if negb (vf_am f) then Err (EValueMissingForUdtField (vf_name f))
          else svo' snc fs' []
      end
  end.

Lemma svo_loop_acc snc fs : forall db out,
  svo_loop snc fs db out =
  match svo' snc fs db with Err e => Err e | Ok (cs, rest) => Ok (out ++ cs, rest) end.
Proof.
  induction fs as [|f fs IH]; intros db out; cbn [svo_loop svo']; [now rewrite app_nil_r|].
  destruct db as [|[n ty] db].
  - destruct (negb (vf_am f)); [reflexivity|apply IH].
  - destruct (snc || String.eqb n (vf_name f)).
    + destruct (ser_field (vf_ty f) (vf_val f) ty) as [cl|]; [|reflexivity].
      rewrite IH. destruct (svo' snc fs db) as [[cs rest]|e]; [|reflexivity]. now rewrite <- app_assoc.
    + destruct (negb (vf_am f)); [reflexivity|apply IH].
Qed.

Definition ser_pair (fc : vfield * dbfield) : option cell :=
  ser_field (vf_ty (fst fc)) (vf_val (fst fc)) (snd (snd fc)).

(* with names checked and no allow_missing field, the loop accepts exactly the declared order *)
Lemma svo_plain fs : forallb (fun f => negb (vf_am f)) fs = true -> forall db,
  outcome_of (svo' false fs db) =
  match names_prefix (map vf_name fs) db with
  | None => Reject
  | Some (p, rest) => match all_some (map ser_pair (combine fs p)) with
                      | Some cs => Accept (cs, rest)
                      | None => Reject
                      end
  end.
Proof.
  induction fs as [|f fs IH]; intros Ham db; [reflexivity|].
  cbn [forallb] in Ham. apply andb_true_iff in Ham as [Hf Ham].
  cbn [svo' map names_prefix]. destruct db as [|[n ty] db]; [now rewrite Hf|].
  cbn [orb]. destruct (String.eqb n (vf_name f)) eqn:E; [|now rewrite Hf].
  specialize (IH Ham db).
  destruct (names_prefix (map vf_name fs) db) as [[p rest]|].
  - cbn [combine map all_some]. unfold ser_pair at 1. cbn [fst snd].
    destruct (ser_field (vf_ty f) (vf_val f) ty) as [cl|]; [|reflexivity].
    destruct (svo' false fs db) as [[cs r]|e]; cbn [outcome_of] in *.
    + destruct (all_some (map ser_pair (combine fs p))); [|discriminate]. now injection IH as -> ->.
    + destruct (all_some (map ser_pair (combine fs p))); [discriminate|reflexivity].
  - destruct (ser_field (vf_ty f) (vf_val f) ty) as [cl|]; [|reflexivity].
    destruct (svo' false fs db) as [[cs r]|e]; cbn [outcome_of] in *; [discriminate|reflexivity].
Qed.

Lemma nonskipped_am fs : forallb (fun f => vf_skip f || negb (vf_am f)) fs = true ->
  forallb (fun f => negb (vf_am f)) (nonskipped fs) = true.
Proof.
  unfold nonskipped. induction fs as [|f fs IH]; simpl; [reflexivity|].
  intros H. apply andb_true_iff in H as [H1 H2]. destruct (vf_skip f); simpl in *; [now apply IH|].
  rewrite H1. now apply IH.
Qed.

Lemma doc_ser_value_ordered_eq d db : doc_ser_value_ordered d db =
  match names_prefix (map vf_name (nonskipped (vd_fields d))) db with
  | None => Reject
  | Some (p, rest) =>
      if vd_forbid d && negb (is_nil rest) then Reject
      else match all_some (map ser_pair (combine (nonskipped (vd_fields d)) p)) with
           | Some cs => Accept cs
           | None => Reject
           end
  end.
Proof. reflexivity. Qed.

Theorem ser_value_ordered_doc d db : vordered_plain d = true ->
  outcome_of (gen_ser_value_ordered d db) = doc_ser_value_ordered d db.
Proof.
  rewrite doc_ser_value_ordered_eq. unfold vordered_plain, gen_ser_value_ordered. intros H.
  apply andb_true_iff in H as [Hs Ha]. apply negb_true_iff in Hs. rewrite Hs.
  rewrite svo_loop_acc. pose proof (svo_plain _ (nonskipped_am _ Ha) db) as P.
  destruct (names_prefix (map vf_name (nonskipped (vd_fields d))) db) as [[p rest]|].
  - destruct (svo' false (nonskipped (vd_fields d)) db) as [[cs r]|e]; cbn [outcome_of] in P.
    + destruct (all_some (map ser_pair (combine (nonskipped (vd_fields d)) p))) as [cs'|]; [|discriminate].
      injection P as -> ->. cbn [app]. destruct (vd_forbid d); cbn [andb]; [|reflexivity].
      destruct rest as [|[n t] rest]; reflexivity.
    + destruct (all_some (map ser_pair (combine (nonskipped (vd_fields d)) p))); [discriminate|].
      cbn [outcome_of]. now destruct (vd_forbid d && negb (is_nil rest)).
  - destruct (svo' false (nonskipped (vd_fields d)) db) as [[cs r]|e]; cbn [outcome_of] in P; [discriminate|reflexivity].
Qed.

(* what names_prefix says *)
Lemma names_prefix_spec ns db p rest : names_prefix ns db = Some (p, rest) ->
  db = p ++ rest /\ map fst p = ns.
Proof.
  revert db p rest; induction ns as [|n ns IH]; intros db p rest H; cbn [names_prefix] in H.
  - injection H as <- <-. split; reflexivity.
  - destruct db as [|[m ty] db]; [discriminate|]. destruct (String.eqb m n) eqn:E; [|discriminate].
    destruct (names_prefix ns db) as [[p' r']|] eqn:N; [|discriminate]. injection H as <- <-.
    destruct (IH _ _ _ N) as [-> <-]. apply String.eqb_eq in E. subst m. split; reflexivity.
Qed.

Lemma names_prefix_complete p rest : names_prefix (map fst p) (p ++ rest) = Some (p, rest).
Proof.
  induction p as [|[m ty] p IH]; [reflexivity|]. cbn [map fst app names_prefix].
  now rewrite String.eqb_refl, IH.
Qed.

(* type_check, enforce_order *)
Definition acc_pair (fc : vfield * dbfield) : bool := accepts (vf_ty (fst fc)) (snd (snd fc)).

Lemma tvo_plain fs : forallb (fun f => vf_skip f || negb (vf_am f)) fs = true -> forall idx db,
  match tvo_loop false idx fs db with Ok rest => Some rest | Err _ => None end =
  match names_prefix (map vf_name (nonskipped fs)) db with
  | Some (p, rest) => if forallb acc_pair (combine (nonskipped fs) p) then Some rest else None
  | None => None
  end.
Proof.
  unfold nonskipped. induction fs as [|f fs IH]; intros Ham idx db; [reflexivity|].
  cbn [forallb] in Ham. apply andb_true_iff in Ham as [Hf Ham].
  cbn [tvo_loop filter]. destruct (vf_skip f) eqn:Sf; cbn [negb]; [apply IH; assumption|].
  cbn [orb] in Hf. cbn [map names_prefix]. apply negb_true_iff in Hf. rewrite Hf.
  destruct db as [|[n ty] db]; [reflexivity|]. cbn [negb andb].
  rewrite String.eqb_sym. destruct (String.eqb n (vf_name f)) eqn:E; cbn [negb]; [|reflexivity].
  specialize (IH Ham (S idx) db).
  destruct (names_prefix _ db) as [[p rest]|].
  - cbn [combine forallb]. unfold acc_pair at 1. cbn [fst snd].
    destruct (accepts (vf_ty f) ty); [exact IH|reflexivity].
  - destruct (accepts (vf_ty f) ty); [exact IH|reflexivity].
Qed.

Lemma doc_typeck_value_ordered_eq d db : doc_typeck_value_ordered d db =
  match names_prefix (map vf_name (nonskipped (vd_fields d))) db with
  | None => false
  | Some (p, rest) =>
      (negb (vd_forbid d) || is_nil rest) && forallb acc_pair (combine (nonskipped (vd_fields d)) p)
  end.
Proof. reflexivity. Qed.

Theorem typeck_value_ordered_doc d db : vordered_plain d = true ->
  (gen_typeck_value_ordered d db = Ok tt <-> doc_typeck_value_ordered d db = true).
Proof.
  rewrite doc_typeck_value_ordered_eq. unfold vordered_plain, gen_typeck_value_ordered. intros H.
  apply andb_true_iff in H as [Hs Ha]. apply negb_true_iff in Hs. rewrite Hs. cbv zeta.
  pose proof (tvo_plain _ Ha O db) as P.
  assert (Hreq : filter vf_required (vd_fields d) = nonskipped (vd_fields d)).
  { clear -Ha. unfold nonskipped, vf_required. induction (vd_fields d) as [|f fs IH]; [reflexivity|].
    cbn [forallb filter] in *. apply andb_true_iff in Ha as [H1 H2].
    destruct (vf_skip f); cbn [negb andb orb] in *; [now apply IH|]. rewrite H1. now rewrite IH. }
  rewrite Hreq.
  destruct (names_prefix (map vf_name (nonskipped (vd_fields d))) db) as [[p rest]|] eqn:N.
  - destruct (names_prefix_spec _ _ _ _ N) as [Edb Ep].
    assert (Hlen : (List.length db <? List.length (nonskipped (vd_fields d)))%nat = false).
    { apply Nat.ltb_ge.
      assert (Hp : List.length (nonskipped (vd_fields d)) = List.length p).
      { rewrite <- (map_length vf_name (nonskipped (vd_fields d))), <- Ep. apply map_length. }
      rewrite Hp, Edb, app_length. lia. }
    rewrite Hlen.
    destruct (tvo_loop false 0 (vd_fields d) db) as [r|e].
    + destruct (forallb acc_pair (combine (nonskipped (vd_fields d)) p)); [|discriminate].
      injection P as ->. rewrite andb_true_r.
      destruct (vd_forbid d); cbn [negb orb]; [|tauto].
      destruct rest as [|[n t] rest]; cbn [is_nil]; split; congruence.
    + destruct (forallb acc_pair (combine (nonskipped (vd_fields d)) p)); [discriminate|].
      rewrite andb_false_r. split; discriminate.
  - destruct (List.length db <? _)%nat; [split; discriminate|].
    destruct (tvo_loop false 0 (vd_fields d) db); [discriminate|]. split; discriminate.
Qed.

(* round trip, enforce_order (any descriptor: allow_missing and skip_name_checks included) *)
Definition rt_ok (f : vfield) (x : cell) : Prop :=
  if vf_skip f then x = default_cell (vf_ty f)
  else x = vf_val f \/ (vf_am f = true /\ x = default_cell (vf_ty f)).

Lemma ordered_lockstep snc fs : forallb (fun f => val_ok (vf_ty f) (vf_val f)) fs = true ->
  forall db cs rest, svo' snc (nonskipped fs) db = Ok (cs, rest) ->
  exists xs, dvo_loop snc fs (udt_items db cs) = Ok xs /\ Forall2 rt_ok fs xs.
Proof.
  unfold nonskipped. induction fs as [|f fs IH]; intros Hv db cs rest H.
  - exists []. split; [reflexivity|constructor].
  - cbn [forallb] in Hv. apply andb_true_iff in Hv as [Hvf Hv]. cbn [filter] in H. cbn [dvo_loop].
    destruct (vf_skip f) eqn:Sf; cbn [negb] in H.
    + destruct (IH Hv _ _ _ H) as (xs & -> & F). eexists. split; [reflexivity|].
      constructor; [|assumption]. unfold rt_ok. now rewrite Sf.
    + cbn [svo'] in H. destruct db as [|[n ty] db].
      * destruct (vf_am f) eqn:Am; cbn [negb] in H; [|discriminate].
        destruct (IH Hv _ _ _ H) as (xs & L & F).
        assert (cs = []) as ->.
        { clear -H. revert H. generalize (filter (fun f => negb (vf_skip f)) fs). intros l.
          induction l as [|g l IHl]; cbn [svo']; [congruence|]. destruct (negb (vf_am g)); [discriminate|exact IHl]. }
        cbn [udt_items] in *. rewrite L. eexists. split; [reflexivity|].
        constructor; [|assumption]. unfold rt_ok. rewrite Sf. right. tauto.
      * destruct (snc || String.eqb n (vf_name f)) eqn:M.
        -- destruct (ser_field (vf_ty f) (vf_val f) ty) as [cl|] eqn:SF; [|discriminate].
           destruct (svo' snc _ db) as [[cs' r']|] eqn:R; [|discriminate]. injection H as <- <-.
           apply ser_field_some in SF. subst cl. cbn [udt_items].
           rewrite (String.eqb_sym (vf_name f) n), M. rewrite deser_back by assumption.
           destruct (IH Hv _ _ _ R) as (xs & -> & F). eexists. split; [reflexivity|].
           constructor; [|assumption]. unfold rt_ok. rewrite Sf. now left.
        -- destruct (vf_am f) eqn:Am; cbn [negb] in H; [|discriminate].
           destruct (IH Hv _ _ _ H) as (xs & L & F).
           destruct cs as [|c0 cs]; cbn [udt_items] in *;
             rewrite (String.eqb_sym (vf_name f) n), M, L;
             (eexists; split; [reflexivity|]; constructor; [|assumption]; unfold rt_ok; rewrite Sf; right; tauto).
Qed.

Theorem roundtrip_value_ordered d db cells : vvals_ok d = true ->
  gen_ser_value_ordered d db = Ok cells ->
  exists xs, gen_deser_value_ordered d db cells = Ok xs /\ Forall2 rt_ok (vd_fields d) xs.
Proof.
  unfold gen_ser_value_ordered, gen_deser_value_ordered, vvals_ok. intros Hv H.
  rewrite svo_loop_acc in H.
  destruct (svo' (vd_snc d) (nonskipped (vd_fields d)) db) as [[cs rest]|e] eqn:S; [|discriminate].
  cbn [app] in H.
  assert (cells = cs) as ->.
  { destruct (vd_forbid d); [|congruence]. destruct rest as [|[n t] r]; congruence. }
  exact (ordered_lockstep _ _ Hv _ _ _ S).
Qed.

(* for a descriptor without allow_missing the values come back exactly *)
Lemma rt_ok_plain fs xs : forallb (fun f => vf_skip f || negb (vf_am f)) fs = true ->
  Forall2 rt_ok fs xs -> xs = map (fun f => if vf_skip f then default_cell (vf_ty f) else vf_val f) fs.
Proof.
  intros Ha F. induction F as [|f x fs xs R _ IH]; [reflexivity|].
  cbn [forallb] in Ha. apply andb_true_iff in Ha as [H1 H2]. cbn [map]. rewrite <- (IH H2). f_equal.
  unfold rt_ok in R. destruct (vf_skip f); [assumption|]. cbn [orb] in H1.
  destruct R as [R|[Am _]]; [assumption|]. rewrite Am in H1. discriminate.
Qed.
(* ------------------------------------------------------------ rows: DeserializeRow reduces to the UDT case *)

(* a row field seen as a UDT field (never allow_missing); type_check of a row = type_check of a
   UDT value with forbid_excess_udt_fields, up to the error class *)
Definition emb (l : rleaf) : vfield :=
  {| vf_ident := rl_ident l; vf_rename := rl_rename l; vf_skip := rl_skip l; vf_am := false;
     vf_dwn := rl_dwn l; vf_ty := rl_ty l; vf_val := rl_val l |}.

Lemma emb_name l : vf_name (emb l) = rl_name l.
Proof. reflexivity. Qed.

Lemma rmatch_vmatch {S} n ls (st : list S) nw :
  vmatch n (map emb ls) st nw =
  match rmatch n ls st nw with Some (f, s, st') => Some (emb f, s, st') | None => None end.
Proof.
  revert st; induction ls as [|l ls IH]; intros [|s st]; try reflexivity.
  cbn [map vmatch rmatch]. change (vf_skip (emb l)) with (rl_skip l). rewrite emb_name.
  destruct (negb (rl_skip l) && String.eqb (rl_name l) n); [reflexivity|].
  rewrite IH. destruct (rmatch n ls st nw) as [[[f s0] st']|]; reflexivity.
Qed.

Lemma rmatch_nonskipped {S} n ls (st : list S) nw f s st' :
  rmatch n ls st nw = Some (f, s, st') -> rl_skip f = false.
Proof.
  revert st st'; induction ls as [|l ls IH]; intros [|s0 st] st' M; cbn [rmatch] in M; try discriminate.
  destruct (negb (rl_skip l) && String.eqb (rl_name l) n) eqn:B.
  - injection M as <- _ _. apply andb_true_iff in B as [B _]. now apply negb_true_iff in B.
  - destruct (rmatch n ls st nw) as [[[g s1] st'']|] eqn:M'; [|discriminate].
    injection M as <- <- _. exact (IH _ _ M').
Qed.

Definition same_class (e1 e2 : err) : Prop := (e1 = EPanic <-> e2 = EPanic).

Lemma tr_tv_sim ls : forall cols flags rem idx,
  match tr_loop ls {| tr_flags := flags; tr_remaining := rem |} idx cols,
        tv_loop true (map emb ls) {| tv_flags := flags; tv_remaining := rem |} cols with
  | Ok a, Ok b => tr_flags a = tv_flags b /\ tr_remaining a = tv_remaining b
  | Err e1, Err e2 => same_class e1 e2
  | _, _ => False
  end.
Proof.
  induction cols as [|[n ty] cols IH]; intros flags rem idx.
  - cbn. tauto.
  - cbn [tr_loop tv_loop tr_step tv_step tr_flags tv_flags tr_remaining tv_remaining].
    rewrite rmatch_vmatch.
    destruct (rmatch n ls flags true) as [[[f was] flags']|] eqn:M.
    + destruct was; [unfold same_class; split; discriminate|].
      change (vf_ty (emb f)) with (rl_ty f).
      destruct (accepts (rl_ty f) ty); [|unfold same_class; split; discriminate].
      assert (R : vf_required (emb f) = true).
      { unfold vf_required. cbn. rewrite (rmatch_nonskipped _ _ _ _ _ _ _ M). reflexivity. }
      rewrite R. destruct (dec rem) as [r|]; [apply IH|unfold same_class; tauto].
    + unfold same_class; split; discriminate.
Qed.

Definition rdesc_as_vdesc (ls : list rleaf) : vdesc :=
  {| vd_ordered := false; vd_forbid := true; vd_snc := false; vd_fields := map emb ls |}.

Lemma filter_emb ls : List.length (filter vf_required (map emb ls)) = List.length (filter (fun f => negb (rl_skip f)) ls).
Proof.
  induction ls as [|l ls IH]; [reflexivity|]. cbn [map filter]. unfold vf_required at 1. cbn.
  rewrite andb_true_r. destruct (negb (rl_skip l)); simpl; now rewrite IH.
Qed.

Lemma typeck_row_as_value ls cols :
  (gen_typeck_row_by_name ls cols = Ok tt <-> gen_typeck_value_by_name (rdesc_as_vdesc ls) cols = Ok tt) /\
  (gen_typeck_row_by_name ls cols = Err EPanic <-> gen_typeck_value_by_name (rdesc_as_vdesc ls) cols = Err EPanic).
Proof.
  unfold gen_typeck_row_by_name, gen_typeck_value_by_name. cbn [rdesc_as_vdesc vd_fields vd_forbid].
  rewrite filter_emb, map_map.
  pose proof (tr_tv_sim ls cols (map (fun _ => false) ls) (List.length (filter (fun f => negb (rl_skip f)) ls)) O) as S.
  destruct (tr_loop _ _ _ _) as [a|e1], (tv_loop _ _ _ _) as [b|e2]; try contradiction.
  - destruct S as [_ ->]. destruct (0 <? tv_remaining b)%nat; split; split; congruence.
  - unfold same_class in S. split; split; try discriminate; intros H; injection H as ->; f_equal; tauto.
Qed.

Lemma mem_count n db : mem n (map fst db) = true <-> (1 <= count_name n db)%nat.
Proof.
  induction db as [|c db IH]; [cbn; split; [discriminate|lia]|].
  unfold mem in *. cbn [map existsb]. rewrite count_name_cons, orb_true_iff, IH.
  rewrite (String.eqb_sym n (fst c)). destruct (String.eqb (fst c) n); split; intros H; try lia; try tauto.
  all: try (destruct H as [H|H]; [discriminate|lia]).
  all: try (right; lia).
Qed.

Lemma vfind_emb n ls : vfind n (map emb ls) = option_map emb (rfind n ls).
Proof.
  unfold vfind, rfind. induction ls as [|l ls IH]; [reflexivity|]. cbn [map find].
  change (vf_skip (emb l)) with (rl_skip l). rewrite emb_name.
  destruct (negb (rl_skip l) && String.eqb (rl_name l) n); [reflexivity|exact IH].
Qed.

Lemma forallb_map' {A B} (p : B -> bool) (g : A -> B) l : forallb p (map g l) = forallb (fun x => p (g x)) l.
Proof. induction l as [|x l IH]; simpl; [reflexivity|now rewrite IH]. Qed.

Lemma doc_typeck_row_as_value ls cols :
  doc_typeck_row_by_name ls cols = doc_typeck_value_by_name (rdesc_as_vdesc ls) cols.
Proof.
  unfold doc_typeck_row_by_name, doc_typeck_value_by_name. cbn [rdesc_as_vdesc vd_fields vd_forbid negb orb].
  rewrite !forallb_map'.
  (* both sides as a conjunction of the same four facts *)
  apply eq_true_iff_eq. rewrite !andb_true_iff, !forallb_forall. split.
  - intros [H1 H2]. repeat split.
    + intros l Hl. unfold vf_required. cbn. rewrite andb_true_r, negb_involutive.
      specialize (H2 l Hl). destruct (rl_skip l); [reflexivity|]. cbn [orb] in *.
      apply Nat.eqb_eq in H2. apply mem_count. rewrite emb_name. lia.
    + intros l Hl. specialize (H2 l Hl). change (vf_skip (emb l)) with (rl_skip l). rewrite emb_name.
      destruct (rl_skip l); [reflexivity|]. cbn [orb] in *. apply Nat.eqb_eq in H2. apply Nat.leb_le. lia.
    + intros c Hc. specialize (H1 c Hc). rewrite vfind_emb. destruct (rfind (fst c) ls); [reflexivity|discriminate].
    + intros c Hc. specialize (H1 c Hc). rewrite vfind_emb. destruct (rfind (fst c) ls); [exact H1|discriminate].
  - intros [[[H1 H2] H3] H4]. split.
    + intros c Hc. specialize (H3 c Hc). specialize (H4 c Hc). rewrite vfind_emb in *.
      destruct (rfind (fst c) ls); [exact H4|discriminate].
    + intros l Hl. specialize (H1 l Hl). specialize (H2 l Hl). unfold vf_required in H1. cbn in H1.
      rewrite andb_true_r, negb_involutive in H1. change (vf_skip (emb l)) with (rl_skip l) in H2.
      rewrite emb_name in *. destruct (rl_skip l); [reflexivity|]. cbn [orb] in *.
      apply mem_count in H1. apply Nat.leb_le in H2. apply Nat.eqb_eq. lia.
Qed.

Definition rnodup (ls : list rleaf) : Prop := NoDup (map rl_name (filter (fun f => negb (rl_skip f)) ls)).

Lemma rnodup_vnodup ls : rnodup ls -> vnodup (map emb ls).
Proof.
  unfold rnodup, vnodup, nonskipped. intros H.
  assert (E : map vf_name (filter (fun f => negb (vf_skip f)) (map emb ls))
              = map rl_name (filter (fun f => negb (rl_skip f)) ls)).
  { clear. induction ls as [|l ls IH]; [reflexivity|]. cbn [map filter].
    change (vf_skip (emb l)) with (rl_skip l). destruct (negb (rl_skip l)); cbn [map]; now rewrite IH. }
  now rewrite E.
Qed.

Theorem typeck_row_by_name_doc ls cols : rnodup ls ->
  (gen_typeck_row_by_name ls cols = Ok tt <-> doc_typeck_row_by_name ls cols = true) /\
  gen_typeck_row_by_name ls cols <> Err EPanic.
Proof.
  intros Hnd. destruct (typeck_row_as_value ls cols) as [A B].
  destruct (typeck_value_by_name_doc (rdesc_as_vdesc ls) cols (rnodup_vnodup _ Hnd)) as [C D].
  rewrite doc_typeck_row_as_value. split; [now rewrite A|]. intros H. apply B in H. contradiction.
Qed.
Lemma vmatch_length {S} n fs (st : list S) nw f s st' :
  vmatch n fs st nw = Some (f, s, st') -> List.length st' = List.length st.
Proof.
  revert st st'; induction fs as [|g fs IH]; intros [|s0 st] st' M; cbn [vmatch] in M; try discriminate.
  destruct (negb (vf_skip g) && String.eqb (vf_name g) n).
  - injection M as _ _ <-. reflexivity.
  - destruct (vmatch n fs st nw) as [[[g' s1] st'']|] eqn:M'; [|discriminate].
    injection M as <- <- <-. cbn. f_equal. exact (IH _ _ M').
Qed.

Lemma dr_dv_sim ls : forall its slots, List.length slots = List.length ls ->
  (forall it, In it its -> rfind (fst (fst it)) ls <> None) ->
  match dr_loop ls slots its, dv_loop (map emb ls) slots its with
  | Ok a, Ok b => a = b
  | Err e1, Err e2 => same_class e1 e2
  | _, _ => False
  end.
Proof.
  induction its as [|[[n ty] v] its IH]; intros slots Hl Hk; [reflexivity|].
  cbn [dr_loop dv_loop dr_step dv_step].
  assert (Hl' : List.length slots = List.length (map emb ls)) by now rewrite map_length.
  destruct (vmatch n (map emb ls) slots None) as [[[f old] sl0]|] eqn:M.
  - rewrite rmatch_vmatch in M.
    destruct (rmatch n ls slots None) as [[[f0 old0] sl00]|] eqn:M0; [|discriminate]. injection M as <- <- <-.
    destruct old0; [unfold same_class; tauto|].
    change (deser_with_default (emb f0) v) with (rdeser_with_default f0 v).
    destruct (rdeser_with_default f0 v) as [x|]; [|unfold same_class; split; discriminate].
    destruct (vmatch n (map emb ls) slots (Some x)) as [[[f' old'] sl1]|] eqn:M1.
    + pose proof (vmatch_length _ _ _ _ _ _ _ M1) as L1. rewrite rmatch_vmatch in M1.
      destruct (rmatch n ls slots (Some x)) as [[[f1 old1] sl11]|]; [|discriminate]. injection M1 as _ _ <-.
      apply IH; [congruence|]. intros it Hit. apply Hk. now right.
    + rewrite rmatch_vmatch in M1. destruct (rmatch n ls slots (Some x)) as [[[f1 old1] sl11]|]; [discriminate|].
      unfold same_class; tauto.
  - exfalso. apply (vmatch_none n (map emb ls) slots None Hl') in M. rewrite vfind_emb in M.
    apply (Hk ((n, ty), v)); [now left|]. cbn [fst]. destruct (rfind n ls); [discriminate|reflexivity].
Qed.

Lemma dr_dv_finalize ls : forall slots, dr_finalize ls slots = dv_finalize (map emb ls) slots.
Proof.
  induction ls as [|l ls IH]; intros [|s slots]; try reflexivity.
  cbn [map dr_finalize dv_finalize]. change (vf_skip (emb l)) with (rl_skip l).
  change (vf_am (emb l)) with false. change (vf_ty (emb l)) with (rl_ty l). now rewrite IH.
Qed.

Lemma udt_items_combine cols : forall cells, List.length cells = List.length cols ->
  udt_items cols cells = combine cols cells.
Proof.
  induction cols as [|c cols IH]; intros [|v cells] H; simpl in *; try congruence.
  f_equal. apply IH. congruence.
Qed.

Theorem deser_row_by_name_doc ls cols cells : rnodup ls -> List.length cells = List.length cols ->
  doc_typeck_row_by_name ls cols = true ->
  outcome_of (gen_deser_row_by_name ls cols cells) =
    match all_some (map (fun f => doc_row_field_value_m f (combine cols cells)) ls) with
    | Some vs => Accept vs
    | None => Reject
    end /\
  gen_deser_row_by_name ls cols cells <> Err EPanic.
Proof.
  intros Hnd Hlen T. pose proof T as T'. rewrite doc_typeck_row_as_value in T'.
  destruct (deser_value_by_name_doc (rdesc_as_vdesc ls) cols cells (rnodup_vnodup _ Hnd) T') as [D P].
  unfold gen_deser_value_by_name in D, P. cbn [rdesc_as_vdesc vd_fields] in D, P.
  rewrite udt_items_combine in D, P by assumption. rewrite map_map in D, P.
  unfold gen_deser_row_by_name.
  assert (Known : forall it, In it (combine cols cells) -> rfind (fst (fst it)) ls <> None).
  { intros [c v] Hit. apply in_combine_l in Hit. cbn [fst].
    unfold doc_typeck_row_by_name in T. apply andb_true_iff in T as [T1 _].
    rewrite forallb_forall in T1. specialize (T1 c Hit). destruct (rfind (fst c) ls); [discriminate|discriminate]. }
  pose proof (dr_dv_sim ls (combine cols cells) (map (fun _ => None) ls) (map_length _ _) Known) as S.
  assert (Edoc : map (fun f => doc_row_field_value_m f (combine cols cells)) ls
                 = map (fun f => doc_field_value_m (emb f) (combine cols cells)) ls).
  { apply map_ext_in. intros f Hf. unfold doc_row_field_value_m, doc_field_value_m.
    change (vf_skip (emb f)) with (rl_skip f). destruct (rl_skip f) eqn:Sf; [reflexivity|].
    rewrite emb_name. destruct (db_cell (rl_name f) (combine cols cells)) eqn:Dc; [reflexivity|].
    exfalso. apply db_cell_none in Dc.
    unfold doc_typeck_row_by_name in T. apply andb_true_iff in T as [_ T2].
    rewrite forallb_forall in T2. specialize (T2 f Hf). rewrite Sf in T2. cbn [orb] in T2. apply Nat.eqb_eq in T2.
    assert (E : map fst (combine cols cells) = cols).
    { clear -Hlen. revert cells Hlen. induction cols as [|c cols IH]; intros [|v cells] H; simpl in *; try congruence.
      f_equal. apply IH. congruence. }
    rewrite E in Dc. assert (mem (rl_name f) (map fst cols) = true) by (apply mem_count; lia). congruence. }
  rewrite Edoc, <- (map_map emb (fun g => doc_field_value_m g (combine cols cells))).
  destruct (dr_loop ls (map (fun _ => None) ls) (combine cols cells)) as [a|e1],
           (dv_loop (map emb ls) (map (fun _ => None) ls) (combine cols cells)) as [b|e2]; try contradiction.
  - subst b. rewrite dr_dv_finalize. split; assumption.
  - cbn [outcome_of] in *. split; [assumption|]. unfold same_class in S. intros H. injection H as ->.
    apply P. f_equal. tauto.
Qed.
(* ------------------------------------------------------------ SerializeRow, match_by_name (with flatten) *)

Fixpoint pnode_ind' (P : pnode -> Prop)
  (Hl : forall nm ty v vis, P (PLeaf nm ty v vis))
  (Hf : forall vis sub rem, Forall P sub -> P (PFlat vis sub rem)) (p : pnode) : P p :=
  match p with
  | PLeaf nm ty v vis => Hl nm ty v vis
  | PFlat vis sub rem =>
      Hf vis sub rem ((fix go (l : list pnode) : Forall P l :=
                         match l with
                         | [] => Forall_nil P
                         | x :: r => Forall_cons x (pnode_ind' P Hl Hf x) (go r)
                         end) sub)
  end.

Definition pleaf := (string * rty * cell * bool)%type.
Definition lname (x : pleaf) : string := fst (fst (fst x)).
Definition lvis (x : pleaf) : bool := snd x.

(* all leaves below a partial, in declaration order *)
Fixpoint pleaves (p : pnode) : list pleaf :=
  match p with
  | PLeaf nm ty v vis => [(nm, ty, v, vis)]
  | PFlat _ sub _ => flat_map pleaves sub
  end.

Definition lmark (n : string) (x : pleaf) : pleaf :=
  let '(nm, ty, v, vis) := x in (nm, ty, v, vis || String.eqb nm n).
Definition pmark (n : string) (ls : list pleaf) : list pleaf := map (lmark n) ls.
Definition lfind_p (n : string) (ls : list pleaf) : option pleaf :=
  find (fun x => String.eqb (lname x) n) ls.

Definition child_unvisited (x : pnode) : bool :=
  match x with PLeaf _ _ _ vis => negb vis | PFlat vis _ _ => negb vis end.
Definition child_ok0 (x : pnode) : Prop :=
  match x with PFlat xv _ xrem => (xv = true -> xrem = O) | _ => True end.

Fixpoint pwf (p : pnode) : Prop :=
  match p with
  | PLeaf _ _ _ _ => True
  | PFlat _ sub rem =>
      rem = List.length (filter child_unvisited sub) /\
      (fix all (l : list pnode) : Prop :=
         match l with [] => True | x :: r => (pwf x /\ child_ok0 x) /\ all r end) sub
  end.

Definition child_ok (x : pnode) : Prop := pwf x /\ child_ok0 x.

Lemma pwf_flat vis sub rem :
  pwf (PFlat vis sub rem) <-> rem = List.length (filter child_unvisited sub) /\ Forall child_ok sub.
Proof.
  cbn [pwf]. split; intros [H1 H2]; (split; [assumption|]).
  - clear H1. induction sub as [|x r IH]; [constructor|]. destruct H2 as [Hx Hr]. constructor; [exact Hx|now apply IH].
  - clear H1. induction sub as [|x r IH]; [exact I|]. inversion H2; subst. split; [assumption|now apply IH].
Qed.

Definition pdone (p : pnode) : Prop :=
  match p with PLeaf _ _ _ vis => vis = true | PFlat _ _ rem => rem = O end.

Lemma filter_nil_iff {A} (f : A -> bool) l : List.length (filter f l) = O <-> forall x, In x l -> f x = false.
Proof.
  induction l as [|a l IH]; simpl; [split; [intros _ x []|reflexivity]|].
  destruct (f a) eqn:E; simpl.
  - split; [discriminate|]. intros H. specialize (H a (or_introl eq_refl)). congruence.
  - rewrite IH. split; intros H x; [intros [<-|Hx]; [assumption|now apply H]|intros Hx; apply H; now right].
Qed.

Lemma pdone_imp p : pwf p -> pdone p -> forall l, In l (pleaves p) -> lvis l = true.
Proof.
  induction p as [nm ty v vis|vis sub rem IH] using pnode_ind'; intros W.
  - cbn. intros -> l [<-|[]]. reflexivity.
  - apply pwf_flat in W as [-> Ok]. cbn [pdone pleaves]. rewrite filter_nil_iff.
    rewrite Forall_forall in IH, Ok.
    intros H l Hl. apply in_flat_map in Hl as (x & Hx & Hl). specialize (H x Hx).
    destruct (Ok x Hx) as [Wx Cx]. apply (IH x Hx Wx); [|assumption].
    destruct x as [nm ty v xv|xv xsub xrem]; cbn in *; [now apply negb_false_iff in H|].
    apply negb_false_iff in H. now apply Cx.
Qed.

Definition is_leaf_named (n : string) (x : pnode) : bool :=
  match x with PLeaf nm _ _ _ => String.eqb nm n | PFlat _ _ _ => false end.

Lemma leaf_visit_none n sub : leaf_visit n sub = None <-> forallb (fun x => negb (is_leaf_named n x)) sub = true.
Proof.
  induction sub as [|x r IH]; [cbn; tauto|]. cbn [leaf_visit forallb].
  destruct x as [nm ty v vis|xv xs xr]; cbn [is_leaf_named].
  - destruct (String.eqb nm n); cbn [negb andb]; [split; discriminate|].
    destruct (leaf_visit n r) as [[[[t0 v0] w0] r']|]; [split; [discriminate|]|tauto].
    intros H. apply IH in H. discriminate.
  - cbn [negb andb]. destruct (leaf_visit n r) as [[[[t0 v0] w0] r']|]; [split; [discriminate|]|tauto].
    intros H. apply IH in H. discriminate.
Qed.

Lemma leaf_visit_some n sub t0 v0 was sub' : leaf_visit n sub = Some (t0, v0, was, sub') ->
  exists pre post, sub = pre ++ PLeaf n t0 v0 was :: post /\ sub' = pre ++ PLeaf n t0 v0 true :: post /\
                   forallb (fun x => negb (is_leaf_named n x)) pre = true.
Proof.
  revert sub'; induction sub as [|x r IH]; intros sub' H; [discriminate|]. cbn [leaf_visit] in H.
  destruct x as [nm ty v vis|xv xs xr].
  - destruct (String.eqb nm n) eqn:E.
    + apply String.eqb_eq in E. subst nm. injection H as <- <- <- <-. exists [], r. repeat split.
    + destruct (leaf_visit n r) as [[[[t1 v1] w1] r']|] eqn:L; [|discriminate]. injection H as <- <- <- <-.
      destruct (IH _ eq_refl) as (pre & post & -> & -> & Hp).
      exists (PLeaf nm ty v vis :: pre), post. repeat split. cbn [forallb is_leaf_named]. now rewrite E.
  - destruct (leaf_visit n r) as [[[[t1 v1] w1] r']|] eqn:L; [|discriminate]. injection H as <- <- <- <-.
    destruct (IH _ eq_refl) as (pre & post & -> & -> & Hp).
    exists (PFlat xv xs xr :: pre), post. repeat split. exact Hp.
Qed.
Lemma lfind_p_app n a b : lfind_p n (a ++ b) = match lfind_p n a with Some x => Some x | None => lfind_p n b end.
Proof. unfold lfind_p. induction a as [|x a IH]; [reflexivity|]. cbn [app find]. now destruct (String.eqb (lname x) n). Qed.

Lemma lfind_p_none n ls : lfind_p n ls = None <-> ~ In n (map lname ls).
Proof.
  unfold lfind_p. induction ls as [|x ls IH]; cbn [find map In]; [tauto|].
  destruct (String.eqb (lname x) n) eqn:E.
  - apply String.eqb_eq in E. split; [discriminate|]. intros H. exfalso. apply H. now left.
  - apply String.eqb_neq in E. rewrite IH. tauto.
Qed.

Lemma lfind_p_some n ls x : lfind_p n ls = Some x -> In x ls /\ lname x = n.
Proof. unfold lfind_p. intros H. apply find_some in H as [H1 H2]. apply String.eqb_eq in H2. tauto. Qed.

Lemma pmark_notin n ls : ~ In n (map lname ls) -> pmark n ls = ls.
Proof.
  unfold pmark. induction ls as [|[[[nm ty] v] vis] ls IH]; intros H; [reflexivity|]. cbn [map lmark].
  cbn [map In lname fst] in H. rewrite IH by tauto. f_equal.
  destruct (String.eqb nm n) eqn:E; [apply String.eqb_eq in E; tauto|]. now rewrite orb_false_r.
Qed.

Lemma NoDup_app_notin {A} (a b : list A) x : NoDup (a ++ b) -> In x a -> ~ In x b.
Proof.
  induction a as [|y a IH]; intros H Hin; [contradiction|]. cbn in H. inversion H as [|? ? Hn Hd]; subst.
  destruct Hin as [->|Hin]; [|now apply IH]. intros Hb. apply Hn. apply in_or_app. now right.
Qed.

Lemma NoDup_app_l {A} (a b : list A) : NoDup (a ++ b) -> NoDup a.
Proof. induction a as [|y a IH]; intros H; [constructor|]. cbn in H. inversion H; subst. constructor; [|now apply IH]. intros Hin. apply H2. apply in_or_app. now left. Qed.
Lemma NoDup_app_r {A} (a b : list A) : NoDup (a ++ b) -> NoDup b.
Proof. induction a as [|y a IH]; intros H; [assumption|]. cbn in H. inversion H; subst. now apply IH. Qed.

Lemma pmark_vis_mono n ls : (forall l, In l ls -> lvis l = true) -> forall l, In l (pmark n ls) -> lvis l = true.
Proof.
  unfold pmark. intros H l Hl. apply in_map_iff in Hl as ([[[nm ty] v] vis] & <- & Hx).
  specialize (H _ Hx). cbn in *. now rewrite H.
Qed.

Definition sf_spec (p : pnode) (n : string) (ty : dty) : Prop :=
  match p with
  | PLeaf _ _ _ _ => True
  | PFlat vis sub rem =>
      match lfind_p n (flat_map pleaves sub) with
      | None => serialize_field p n ty = Ok (NotUsed, p, None)
      | Some (_, t0, v0, _) =>
          match ser_field t0 v0 ty with
          | None => serialize_field p n ty = Err (EColumnSerializationFailed n)
          | Some cl => exists sub' rem',
              serialize_field p n ty = Ok (status_of rem', PFlat vis sub' rem', Some cl) /\
              pwf (PFlat vis sub' rem') /\ flat_map pleaves sub' = pmark n (flat_map pleaves sub) /\
              (rem' <= rem)%nat
          end
      end
  end.

Definition cnt (l : list pnode) : nat := List.length (filter child_unvisited l).

Lemma try_spec n ty l :
  Forall (fun x => pwf x -> NoDup (map lname (pleaves x)) -> sf_spec x n ty) l ->
  Forall child_ok l -> NoDup (map lname (flat_map pleaves l)) ->
  forallb (fun x => negb (is_leaf_named n x)) l = true ->
  match lfind_p n (flat_map pleaves l) with
  | None => try_flattened (fun x => serialize_field x n ty) l = Ok None
  | Some (_, t0, v0, _) =>
      match ser_field t0 v0 ty with
      | None => try_flattened (fun x => serialize_field x n ty) l = Err (EColumnSerializationFailed n)
      | Some cl => exists dn nv l',
          try_flattened (fun x => serialize_field x n ty) l = Ok (Some (dn, nv, l', Some cl)) /\
          Forall child_ok l' /\ flat_map pleaves l' = pmark n (flat_map pleaves l) /\
          (cnt l' + (if nv then 1 else 0) = cnt l)%nat /\
          (dn = false -> nv = false /\ (1 <= cnt l')%nat)
      end
  end.
Proof.
  induction l as [|x r IH]; intros HS HC HN HL; [reflexivity|].
  inversion HS as [|? ? HSx HSr]; subst. inversion HC as [|? ? HCx HCr]; subst.
  cbn [forallb] in HL. apply andb_true_iff in HL as [HLx HLr].
  cbn [flat_map] in *. rewrite map_app in HN. rewrite lfind_p_app.
  specialize (IH HSr HCr (NoDup_app_r _ _ HN) HLr).
  destruct x as [nm t1 v1 vis1|xv xs xr].
  - (* a plain field: not this column (leaf_visit found none) *)
    cbn [is_leaf_named] in HLx. apply negb_true_iff in HLx.
    cbn [pleaves lfind_p find lname fst]. rewrite HLx. cbn [try_flattened].
    change (find (fun x => String.eqb (lname x) n) (flat_map pleaves r)) with (lfind_p n (flat_map pleaves r)).
    destruct (lfind_p n (flat_map pleaves r)) as [[[[nm0 t0] v0] w0]|] eqn:LF.
    + destruct (ser_field t0 v0 ty) as [cl|]; [|now rewrite IH].
      destruct IH as (dn & nv & l' & -> & C' & P' & K' & D').
      exists dn, nv, (PLeaf nm t1 v1 vis1 :: l'). repeat split.
      * constructor; assumption.
      * cbn [flat_map pleaves app pmark map lmark]. rewrite HLx, orb_false_r. f_equal. exact P'.
      * unfold cnt in *. cbn [filter child_unvisited]. destruct (negb vis1); cbn [List.length]; lia.
      * now apply D'.
      * unfold cnt in *. cbn [filter child_unvisited]. destruct (negb vis1); cbn [List.length]; destruct (D' H); lia.
    + now rewrite IH.
  - (* a flattened field *)
    destruct HCx as [Wx Cx]. specialize (HSx Wx (NoDup_app_l _ _ HN)). cbn [sf_spec pleaves] in HSx.
    cbn [pleaves try_flattened].
    destruct (lfind_p n (flat_map pleaves xs)) as [[[[nm0 t0] v0] w0]|] eqn:LF.
    + (* the column belongs to this flattened struct; no later field has it *)
      assert (Nr : ~ In n (map lname (flat_map pleaves r))).
      { apply lfind_p_some in LF as [Hin <-]. apply (NoDup_app_notin _ _ _ HN). now apply in_map. }
      destruct (ser_field t0 v0 ty) as [cl|]; [|now rewrite HSx].
      destruct HSx as (sub' & rem' & -> & W' & P' & LE).
      assert (Cr : pmark n (flat_map pleaves r) = flat_map pleaves r) by now apply pmark_notin.
      destruct rem' as [|k]; cbn [status_of].
      * exists true, (negb xv), (PFlat true sub' 0 :: r). repeat split.
        -- constructor; [|assumption]. split; [|cbn; tauto]. apply pwf_flat. now apply pwf_flat in W'.
        -- cbn [flat_map pleaves]. unfold pmark in *. now rewrite map_app, P', Cr.
        -- unfold cnt. cbn [filter child_unvisited negb]. destruct (negb xv); cbn [List.length]; lia.
        -- discriminate.
        -- discriminate.
      * (* NotDone: the struct cannot have been finished before *)
        assert (Hxv : xv = false).
        { destruct xv; [|reflexivity]. exfalso. cbn [child_ok0] in Cx.
          assert (xr = O) by now apply Cx. lia. }
        subst xv. exists false, false, (PFlat false sub' (S k) :: r). repeat split.
        -- constructor; [|assumption]. split; [assumption|]. cbn. discriminate.
        -- cbn [flat_map pleaves]. unfold pmark in *. now rewrite map_app, P', Cr.
        -- unfold cnt. cbn [filter child_unvisited negb List.length]. lia.
        -- unfold cnt. cbn [filter child_unvisited negb List.length]. lia.
    + rewrite HSx.
      destruct (lfind_p n (flat_map pleaves r)) as [[[[nm0 t0] v0] w0]|] eqn:LFr.
      * destruct (ser_field t0 v0 ty) as [cl|]; [|now rewrite IH].
        destruct IH as (dn & nv & l' & -> & C' & P' & K' & D').
        exists dn, nv, (PFlat xv xs xr :: l'). repeat split.
        -- constructor; [split|]; assumption.
        -- cbn [flat_map pleaves]. unfold pmark in *. rewrite map_app, P'. f_equal.
           apply lfind_p_none in LF. symmetry. now apply pmark_notin.
        -- unfold cnt in *. cbn [filter child_unvisited]. destruct (negb xv); cbn [List.length]; lia.
        -- now apply D'.
        -- unfold cnt in *. cbn [filter child_unvisited]. destruct (negb xv); cbn [List.length]; destruct (D' H); lia.
      * now rewrite IH.
Qed.
Lemma cnt_app a b : cnt (a ++ b) = (cnt a + cnt b)%nat.
Proof. unfold cnt. now rewrite filter_app, app_length. Qed.

Lemma sf_correct p : forall n ty, pwf p -> NoDup (map lname (pleaves p)) -> sf_spec p n ty.
Proof.
  induction p as [nm t1 v1 vis1|vis sub rem IH] using pnode_ind'; intros n ty W HN; [exact I|].
  cbn [sf_spec]. pose proof W as W0. apply pwf_flat in W as [Hrem HC]. cbn [pleaves] in HN.
  cbn [serialize_field].
  destruct (leaf_visit n sub) as [[[[t0 v0] was] sub']|] eqn:LV.
  - (* one of the struct's own columns *)
    destruct (leaf_visit_some _ _ _ _ _ _ LV) as (pre & post & -> & -> & Hpre).
    rewrite flat_map_app in *. cbn [flat_map pleaves app] in *. rewrite map_app in HN. cbn [map lname fst] in HN.
    assert (Npre : ~ In n (map lname (flat_map pleaves pre))).
    { intros Hin. apply (NoDup_app_notin _ _ n HN Hin). now left. }
    rewrite lfind_p_app. rewrite (proj2 (lfind_p_none _ _) Npre).
    cbn [lfind_p find lname fst]. rewrite String.eqb_refl.
    destruct (ser_field t0 v0 ty) as [cl|]; [|reflexivity].
    assert (Npost : ~ In n (map lname (flat_map pleaves post))).
    { apply NoDup_app_r in HN. now inversion HN. }
    assert (HC' : Forall child_ok (pre ++ PLeaf n t0 v0 true :: post)).
    { apply Forall_app in HC as [C1 C2]. inversion C2; subst. apply Forall_app. split; [assumption|].
      constructor; [split; exact I|assumption]. }
    assert (HP : flat_map pleaves pre ++ (n, t0, v0, true) :: flat_map pleaves post
                 = pmark n (flat_map pleaves pre ++ (n, t0, v0, was) :: flat_map pleaves post)).
    { unfold pmark. rewrite map_app. cbn [map lmark]. rewrite String.eqb_refl, orb_true_r.
      fold (pmark n (flat_map pleaves pre)). fold (pmark n (flat_map pleaves post)).
      now rewrite !pmark_notin by assumption. }
    change (rem = cnt (pre ++ PLeaf n t0 v0 was :: post)) in Hrem. rewrite cnt_app in Hrem.
    assert (Ecnt : forall w, cnt (PLeaf n t0 v0 w :: post) = ((if w then 0 else 1) + cnt post)%nat).
    { intros w. unfold cnt. cbn [filter child_unvisited]. now destruct w. }
    rewrite Ecnt in Hrem.
    assert (Wnew : pwf (PFlat vis (pre ++ PLeaf n t0 v0 true :: post) (cnt pre + cnt post))).
    { apply pwf_flat. split; [|assumption]. change (List.length (filter child_unvisited (pre ++ PLeaf n t0 v0 true :: post)))
        with (cnt (pre ++ PLeaf n t0 v0 true :: post)). rewrite cnt_app, Ecnt. lia. }
    destruct was.
    + assert (rem = cnt pre + cnt post)%nat as -> by lia.
      exists (pre ++ PLeaf n t0 v0 true :: post), (cnt pre + cnt post)%nat.
      split; [reflexivity|]. split; [exact Wnew|]. split; [rewrite flat_map_app; exact HP|lia].
    + assert (rem = S (cnt pre + cnt post))%nat as -> by lia. cbn [dec].
      exists (pre ++ PLeaf n t0 v0 true :: post), (cnt pre + cnt post)%nat.
      split; [reflexivity|]. split; [exact Wnew|]. split; [rewrite flat_map_app; exact HP|lia].
  - (* a column of a flattened struct, or none *)
    apply leaf_visit_none in LV.
    pose proof (try_spec n ty sub) as T.
    assert (HS : Forall (fun x => pwf x -> NoDup (map lname (pleaves x)) -> sf_spec x n ty) sub).
    { rewrite Forall_forall in IH |- *. intros x Hx Wx Nx. now apply IH. }
    specialize (T HS HC HN LV).
    destruct (lfind_p n (flat_map pleaves sub)) as [[[[nm0 t0] v0] w0]|].
    + destruct (ser_field t0 v0 ty) as [cl|]; [|now rewrite T].
      destruct T as (dn & nv & l' & -> & C' & P' & K' & D'). change (rem = cnt sub) in Hrem.
      destruct dn.
      * destruct nv.
        -- rewrite Hrem, <- K'. replace (cnt l' + 1)%nat with (S (cnt l')) by lia. cbn [dec].
           exists l', (cnt l'). split; [reflexivity|]. split; [|split; [assumption|lia]]. apply pwf_flat. split; [reflexivity|assumption].
        -- exists l', rem. split; [reflexivity|]. split; [|split; [assumption|lia]]. apply pwf_flat. split; [|assumption]. fold (cnt l'). lia.
      * destruct (D' eq_refl) as [-> K1]. exists l', rem. split.
        -- assert (E : status_of rem = NotDone) by (destruct rem; [lia|reflexivity]). now rewrite E.
        -- split; [|split; [assumption|lia]]. apply pwf_flat. split; [|assumption]. fold (cnt l'). lia.
    + now rewrite T.
Qed.
Definition cm_spec (p : pnode) : Prop :=
  match p with
  | PLeaf _ _ _ _ => True
  | PFlat _ _ _ =>
      (check_missing p = Ok tt <-> forall l, In l (pleaves p) -> lvis l = true) /\
      (check_missing p = Ok tt \/ exists nm, check_missing p = Err (ENoColumnWithName nm))
  end.

Lemma first_unvisited_leaf_none l : first_unvisited_leaf l = None ->
  forall nm ty v vis, In (PLeaf nm ty v vis) l -> vis = true.
Proof.
  induction l as [|x r IH]; intros H nm ty v vis Hin; [contradiction|].
  destruct x as [nm0 ty0 v0 vis0|xv xs xr]; cbn [first_unvisited_leaf] in H.
  - destruct vis0; [|discriminate]. destruct Hin as [E|Hin]; [now injection E as _ _ _ <-|eauto].
  - destruct Hin as [E|Hin]; [discriminate|eauto].
Qed.

Lemma first_unvisited_leaf_some l nm : first_unvisited_leaf l = Some nm ->
  exists ty v, In (PLeaf nm ty v false) l.
Proof.
  induction l as [|x r IH]; intros H; [discriminate|].
  destruct x as [nm0 ty0 v0 vis0|xv xs xr]; cbn [first_unvisited_leaf] in H.
  - destruct vis0.
    + destruct (IH H) as (ty & v & Hin). exists ty, v. now right.
    + injection H as <-. exists ty0, v0. now left.
  - destruct (IH H) as (ty & v & Hin). exists ty, v. now right.
Qed.

Lemma check_unvisited_flats_spec l :
  Forall (fun x => pwf x -> cm_spec x) l -> Forall child_ok l -> first_unvisited_leaf l = None ->
  (check_unvisited_flats check_missing l = Ok tt <-> forall lf, In lf (flat_map pleaves l) -> lvis lf = true) /\
  (check_unvisited_flats check_missing l = Ok tt \/
   exists nm, check_unvisited_flats check_missing l = Err (ENoColumnWithName nm)).
Proof.
  induction l as [|x r IH]; intros HI HC HL.
  - cbn. split; [split; [intros _ lf []|reflexivity]|now left].
  - inversion HI as [|? ? HIx HIr]; subst. inversion HC as [|? ? HCx HCr]; subst.
    destruct x as [nm ty v vis|xv xs xr]; cbn [first_unvisited_leaf check_unvisited_flats flat_map pleaves] in *.
    + destruct vis; [|discriminate]. destruct (IH HIr HCr HL) as [I1 I2]. split; [|assumption].
      rewrite I1. split; intros H lf Hin.
      * destruct Hin as [<-|Hin]; [reflexivity|now apply H].
      * apply H. now right.
    + destruct HCx as [Wx Cx]. destruct (IH HIr HCr HL) as [I1 I2]. cbn [child_ok0] in Cx.
      assert (App : forall Q : pleaf -> Prop, (forall lf, In lf (flat_map pleaves xs ++ flat_map pleaves r) -> Q lf) <->
                    (forall lf, In lf (flat_map pleaves xs) -> Q lf) /\ (forall lf, In lf (flat_map pleaves r) -> Q lf)).
      { intros Q. split.
        - intros H. split; intros lf Hin; apply H; apply in_or_app; tauto.
        - intros [H1 H2] lf Hin. apply in_app_or in Hin as [Hin|Hin]; auto. }
      rewrite App. destruct xv.
      * assert (Vx : forall lf, In lf (flat_map pleaves xs) -> lvis lf = true).
        { apply (pdone_imp _ Wx). cbn. now apply Cx. }
        split; [|assumption]. rewrite I1. tauto.
      * destruct (HIx Wx) as [X1 X2]. cbn [pleaves] in X1.
        destruct X2 as [X2|[nm X2]]; rewrite X2.
        -- split; [|assumption]. rewrite I1. pose proof (proj1 X1 X2). tauto.
        -- split; [|right; now exists nm]. split; [discriminate|]. intros [H _]. apply X1 in H. congruence.
Qed.

Lemma check_missing_spec p : pwf p -> cm_spec p.
Proof.
  induction p as [nm t1 v1 vis1|vis sub rem IH] using pnode_ind'; intros W; [exact I|].
  cbn [cm_spec]. pose proof W as W0. apply pwf_flat in W as [Hrem HC].
  destruct rem as [|k].
  - cbn [check_missing]. split; [|now left]. split; [|reflexivity]. intros _.
    apply (pdone_imp _ W0). reflexivity.
  - cbn [check_missing pleaves]. destruct (first_unvisited_leaf sub) as [nm|] eqn:FL.
    + split; [|right; now exists nm]. split; [discriminate|]. intros H. exfalso.
      destruct (first_unvisited_leaf_some _ _ FL) as (ty & v & Hin).
      assert (X : lvis (nm, ty, v, false) = true).
      { apply H. apply in_flat_map. exists (PLeaf nm ty v false). split; [assumption|now left]. }
      discriminate X.
    + now apply check_unvisited_flats_spec.
Qed.

(* the initial partial of a struct *)
Fixpoint rfield_ind' (P : rfield -> Prop)
  (Hl : forall l, P (RLeaf l))
  (Hf : forall s snc sub, Forall P sub -> P (RFlat s snc sub)) (f : rfield) : P f :=
  match f with
  | RLeaf l => Hl l
  | RFlat s snc sub =>
      Hf s snc sub ((fix go (l : list rfield) : Forall P l :=
                       match l with
                       | [] => Forall_nil P
                       | x :: r => Forall_cons x (rfield_ind' P Hl Hf x) (go r)
                       end) sub)
  end.

Definition lv (ls : list rleaf) (seen : list string) : list pleaf :=
  map (fun l => (rl_name l, rl_ty l, rl_val l, mem (rl_name l) seen)) ls.

Lemma lv_app a b seen : lv (a ++ b) seen = lv a seen ++ lv b seen.
Proof. unfold lv. apply map_app. Qed.

Lemma partial_fields_spec sub :
  Forall (fun x => rf_skip x = false ->
                   child_ok (mk_partial x) /\ child_unvisited (mk_partial x) = true /\
                   pleaves (mk_partial x) = lv (leaves_of x) []) sub ->
  let ps := partial_fields mk_partial sub in
  Forall child_ok ps /\ cnt ps = List.length ps /\ flat_map pleaves ps = lv (flat_map leaves_of sub) [].
Proof.
  induction sub as [|x r IH]; intros HI; [cbn; repeat split; constructor|].
  inversion HI as [|? ? HIx HIr]; subst.
  destruct (IH HIr) as (C & K & L). cbn [partial_fields flat_map]. fold (partial_fields mk_partial r).
  destruct (rf_skip x) eqn:Sx.
  - cbv zeta. repeat split; try assumption. rewrite lv_app, <- L.
    assert (E : leaves_of x = []).
    { destruct x as [l|s snc sub]; cbn [leaves_of rf_skip] in *; now rewrite Sx. }
    now rewrite E.
  - destruct (HIx eq_refl) as (Cx & Ux & Lx). cbv zeta. repeat split.
    + constructor; assumption.
    + unfold cnt in *. cbn [filter]. rewrite Ux. cbn [List.length]. now rewrite K.
    + cbn [flat_map]. now rewrite lv_app, Lx, L.
Qed.

Lemma mk_partial_spec f : rf_skip f = false ->
  child_ok (mk_partial f) /\ child_unvisited (mk_partial f) = true /\
  pleaves (mk_partial f) = lv (leaves_of f) [].
Proof.
  induction f as [l|s snc sub IH] using rfield_ind'; intros HS.
  - cbn [rf_skip] in HS. cbn [mk_partial leaves_of]. rewrite HS. repeat split.
  - cbn [rf_skip] in HS. subst s. cbn [mk_partial leaves_of].
    destruct (partial_fields_spec sub IH) as (C & K & L). cbv zeta in C, K, L.
    split; [|split; [reflexivity|exact L]].
    split.
    + apply pwf_flat. split; [now rewrite <- K|assumption].
    + cbn [child_ok0]. discriminate.
Qed.

Lemma mk_partial_top fields :
  pwf (mk_partial (RFlat false false fields)) /\
  pleaves (mk_partial (RFlat false false fields)) = lv (flat_map leaves_of fields) [].
Proof.
  destruct (mk_partial_spec (RFlat false false fields) eq_refl) as ([W _] & _ & L). split; assumption.
Qed.

Definition rcellof (ls : list rleaf) (c : dbfield) : cell :=
  match lfind (fst c) ls with
  | Some l => match ser_field (rl_ty l) (rl_val l) (snd c) with Some cl => cl | None => None end
  | None => None
  end.
Notation col_ok := rcol_ok.

Lemma lfind_lv n ls seen :
  lfind_p n (lv ls seen) = option_map (fun l => (rl_name l, rl_ty l, rl_val l, mem (rl_name l) seen)) (lfind n ls).
Proof.
  unfold lfind_p, lfind, lv. induction ls as [|l ls IH]; [reflexivity|]. cbn [map find lname fst].
  destruct (String.eqb (rl_name l) n); [reflexivity|exact IH].
Qed.

Lemma pmark_lv n ls seen : pmark n (lv ls seen) = lv ls (seen ++ [n]).
Proof.
  unfold pmark, lv. rewrite map_map. apply map_ext. intros l. cbn [lmark]. f_equal.
  unfold mem. rewrite existsb_app. cbn [existsb]. now rewrite orb_false_r.
Qed.

Lemma lv_names ls seen : map lname (lv ls seen) = map rl_name ls.
Proof. unfold lv. rewrite map_map. reflexivity. Qed.

Lemma byname_loop_char ls : NoDup (map rl_name ls) -> forall cols p out seen,
  pwf p -> pleaves p = lv ls seen -> (exists vis sub rem, p = PFlat vis sub rem) ->
  if forallb (col_ok ls) cols
  then exists p', byname_loop p cols out = Ok (p', out ++ map (rcellof ls) cols) /\ pwf p' /\
                  pleaves p' = lv ls (seen ++ map fst cols) /\ (exists vis sub rem, p' = PFlat vis sub rem)
  else exists e, byname_loop p cols out = Err e /\ e <> EPanic.
Proof.
  intros HN. induction cols as [|[n ty] cols IH]; intros p out seen W L (vis & sub & rem & ->).
  - cbn [forallb byname_loop map]. exists (PFlat vis sub rem). rewrite !app_nil_r.
    split; [reflexivity|]. split; [assumption|]. split; [assumption|]. now exists vis, sub, rem.
  - cbn [forallb byname_loop]. unfold rcol_ok at 1. cbn [fst snd].
    pose proof (sf_correct (PFlat vis sub rem) n ty W) as S. rewrite L, lv_names in S. specialize (S HN).
    cbn [sf_spec] in S. cbn [pleaves] in L. rewrite L, lfind_lv in S.
    destruct (lfind n ls) as [l|] eqn:F; cbn [option_map] in S.
    + destruct (ser_field (rl_ty l) (rl_val l) ty) as [cl|] eqn:SF.
      * destruct S as (sub' & rem' & -> & W' & P' & _). cbn [andb].
        assert (St : forall X Y : result err (pnode * list cell),
                   match status_of rem' with NotUsed => X | _ => Y end = Y) by (intros; now destruct rem').
        assert (Ecl : rcellof ls (n, ty) = cl) by (unfold rcellof; cbn [fst snd]; now rewrite F, SF).
        specialize (IH (PFlat vis sub' rem') (out ++ [cl]) (seen ++ [n]) W').
        rewrite pmark_lv in P'. specialize (IH P' ltac:(now exists vis, sub', rem')).
        destruct (status_of rem') eqn:Est; try (destruct rem'; discriminate).
        -- destruct (forallb (col_ok ls) cols).
           ++ destruct IH as (p' & -> & Wp & Lp & Fp). exists p'.
              split; [|split; [assumption|split; [|assumption]]].
              ** cbn [map]. rewrite Ecl. now rewrite <- app_assoc.
              ** cbn [map fst]. now rewrite <- app_assoc in Lp.
           ++ exact IH.
        -- destruct (forallb (col_ok ls) cols).
           ++ destruct IH as (p' & -> & Wp & Lp & Fp). exists p'.
              split; [|split; [assumption|split; [|assumption]]].
              ** cbn [map]. rewrite Ecl. now rewrite <- app_assoc.
              ** cbn [map fst]. now rewrite <- app_assoc in Lp.
           ++ exact IH.
      * rewrite S. cbn [andb]. eexists. split; [reflexivity|discriminate].
    + rewrite S. eexists. split; [reflexivity|discriminate].
Qed.

Lemma existsb_negb {A} (p : A -> bool) l : existsb (fun x => negb (p x)) l = negb (forallb p l).
Proof. induction l as [|x l IH]; [reflexivity|]. cbn [existsb forallb]. rewrite IH. now destruct (p x). Qed.

Lemma doc_ser_row_by_name_eq d cols : doc_ser_row_by_name d cols =
  let ls := rd_leaves d in
  if negb (forallb (fun c : dbfield => match lfind (fst c) ls with Some _ => true | None => false end) cols) then Reject
  else if negb (forallb (fun l => mem (rl_name l) (map fst cols)) ls) then Reject
  else if negb (forallb (col_ok ls) cols) then Reject
  else Accept (map (rcellof ls) cols).
Proof.
  unfold doc_ser_row_by_name. cbv zeta. set (ls := rd_leaves d).
  assert (E1 : existsb (fun c : string * dty => match lfind (fst c) ls with None => true | Some _ => false end) cols
               = negb (forallb (fun c : dbfield => match lfind (fst c) ls with Some _ => true | None => false end) cols)).
  { induction cols as [|c cols IH]; [reflexivity|]. cbn [existsb forallb]. rewrite IH.
    destruct (lfind (fst c) ls); cbn; [reflexivity|reflexivity]. }
  assert (E2 : existsb (fun l => negb (mem (rl_name l) (map fst cols))) ls
               = negb (forallb (fun l => mem (rl_name l) (map fst cols)) ls)).
  { apply existsb_negb. }
  rewrite E1, E2.
  destruct (forallb (fun c : dbfield => match lfind (fst c) ls with Some _ => true | None => false end) cols) eqn:K; [|reflexivity].
  cbn [negb]. destruct (forallb (fun l => mem (rl_name l) (map fst cols)) ls); [|reflexivity]. cbn [negb].
  assert (E3 : existsb (fun c : string * dty => match lfind (fst c) ls with
                 | Some l => match ser_field (rl_ty l) (rl_val l) (snd c) with None => true | Some _ => false end
                 | None => false end) cols = negb (forallb (col_ok ls) cols)).
  { clear -K. induction cols as [|c cols IH]; [reflexivity|]. cbn [existsb forallb] in *.
    apply andb_true_iff in K as [K1 K2]. rewrite (IH K2).
    destruct (lfind (fst c) ls) as [l|] eqn:F; [|discriminate K1].
    assert (Ec : col_ok ls c = match ser_field (rl_ty l) (rl_val l) (snd c) with Some _ => true | None => false end)
      by (unfold rcol_ok; now rewrite F).
    rewrite Ec. destruct (ser_field (rl_ty l) (rl_val l) (snd c)); reflexivity. }
  rewrite E3. reflexivity.
Qed.

Theorem ser_row_by_name_doc d cols : rdesc_wf d = true ->
  outcome_of (gen_ser_row_by_name d cols) = doc_ser_row_by_name d cols /\
  gen_ser_row_by_name d cols <> Err EPanic.
Proof.
  unfold rdesc_wf. intros HN. apply nodupb_NoDup in HN.
  rewrite doc_ser_row_by_name_eq. cbv zeta. unfold gen_ser_row_by_name.
  set (ls := rd_leaves d) in *.
  destruct (mk_partial_top (rd_fields d)) as [W0 L0]. fold (rd_leaves d) in L0. fold ls in L0.
  pose proof (byname_loop_char ls HN cols (mk_partial (RFlat false false (rd_fields d))) [] [] W0 L0) as B.
  specialize (B ltac:(cbn [mk_partial]; eauto)).
  assert (Known : forallb (col_ok ls) cols = true ->
                  forallb (fun c : dbfield => match lfind (fst c) ls with Some _ => true | None => false end) cols = true).
  { clear. induction cols as [|c cols IH]; [reflexivity|]. cbn [forallb]. intros H.
    apply andb_true_iff in H as [H1 H2]. rewrite (IH H2). unfold rcol_ok in H1.
    destruct (lfind (fst c) ls); [reflexivity|discriminate]. }
  destruct (forallb (col_ok ls) cols) eqn:OK.
  - destruct B as (p' & -> & Wp & Lp & (vis & sub & rem & ->)). cbn [app] in *.
    rewrite (Known eq_refl). cbn [negb].
    destruct (check_missing_spec _ Wp) as [CM1 CM2]. rewrite Lp in CM1.
    assert (Vis : check_missing (PFlat vis sub rem) = Ok tt <->
                  forallb (fun l => mem (rl_name l) (map fst cols)) ls = true).
    { rewrite CM1, forallb_forall. unfold lv. split.
      - intros A l Hl. apply (A (rl_name l, rl_ty l, rl_val l, mem (rl_name l) (map fst cols))).
        apply in_map_iff. now exists l.
      - intros A x Hx. apply in_map_iff in Hx as (l & <- & Hl). cbn. now apply A. }
    destruct CM2 as [CM2|[nm CM2]]; rewrite CM2.
    + rewrite (proj1 Vis CM2). cbn [negb outcome_of]. split; [reflexivity|discriminate].
    + destruct (forallb (fun l => mem (rl_name l) (map fst cols)) ls) eqn:V.
      * exfalso. rewrite (proj2 Vis eq_refl) in CM2. discriminate.
      * cbn [negb outcome_of]. split; [reflexivity|discriminate].
  - destruct B as (e & -> & Ne). cbn [outcome_of negb]. split; [|congruence].
    destruct (negb (forallb _ cols)); [reflexivity|]. now destruct (negb (forallb _ ls)).
Qed.

(* ------------------------------------------------------------ rows by name: placement and round trip *)

Definition rvalue_of (ls : list rleaf) (n : string) : cell :=
  match lfind n ls with Some l => rl_val l | None => None end.

Lemma lfind_self ls l : NoDup (map rl_name ls) -> In l ls -> lfind (rl_name l) ls = Some l.
Proof.
  unfold lfind. induction ls as [|g ls IH]; intros HN Hin; [contradiction|]. cbn [find map] in *.
  inversion HN as [|? ? Hn Hd]; subst. destruct Hin as [->|Hin]; [now rewrite String.eqb_refl|].
  destruct (String.eqb (rl_name g) (rl_name l)) eqn:E; [|now apply IH].
  exfalso. apply String.eqb_eq in E. apply Hn. rewrite E. now apply in_map.
Qed.

Theorem by_name_ser_row d cols : rdesc_wf d = true ->
  Permutation (map fst cols) (map rl_name (rd_leaves d)) ->
  (forall c l, In c cols -> lfind (fst c) (rd_leaves d) = Some l -> accepts (rl_ty l) (snd c) = true) ->
  gen_ser_row_by_name d cols = Ok (map (fun c => rvalue_of (rd_leaves d) (fst c)) cols).
Proof.
  intros W P Acc. apply outcome_accept. rewrite (proj1 (ser_row_by_name_doc d cols W)).
  rewrite doc_ser_row_by_name_eq. cbv zeta. set (ls := rd_leaves d) in *.
  pose proof W as HN. unfold rdesc_wf in HN. apply nodupb_NoDup in HN. fold ls in HN.
  assert (Bound : forall c, In c cols -> exists l, lfind (fst c) ls = Some l).
  { intros c Hc. assert (H : In (fst c) (map rl_name ls)) by (eapply Permutation_in; [exact P|now apply in_map]).
    apply in_map_iff in H as (l & <- & Hl). exists l. now apply lfind_self. }
  assert (E1 : forallb (fun c : dbfield => match lfind (fst c) ls with Some _ => true | None => false end) cols = true).
  { apply forallb_forall. intros c Hc. destruct (Bound c Hc) as [l ->]. reflexivity. }
  assert (E2 : forallb (fun l => mem (rl_name l) (map fst cols)) ls = true).
  { apply forallb_forall. intros l Hl. apply mem_In. eapply Permutation_in; [apply Permutation_sym; exact P|now apply in_map]. }
  assert (E3 : forallb (col_ok ls) cols = true).
  { apply forallb_forall. intros c Hc. destruct (Bound c Hc) as [l F]. unfold rcol_ok. rewrite F.
    unfold ser_field. rewrite (Acc c l Hc F). now destruct (rl_val l). }
  rewrite E1, E2, E3. cbn [negb]. f_equal. apply map_ext_in. intros c Hc.
  destruct (Bound c Hc) as [l F]. unfold rcellof, rvalue_of. rewrite F.
  unfold ser_field. rewrite (Acc c l Hc F). now destruct (rl_val l).
Qed.

Lemma leaves_only_leaves fs ls : leaves_only fs = Some ls ->
  flat_map leaves_of fs = filter (fun l => negb (rl_skip l)) ls.
Proof.
  revert ls; induction fs as [|f fs IH]; intros ls H; cbn [leaves_only] in H.
  - now injection H as <-.
  - destruct f as [l|s snc sub]; [|discriminate].
    destruct (leaves_only fs) as [ls'|]; [|discriminate]. injection H as <-.
    cbn [flat_map leaves_of filter]. rewrite (IH _ eq_refl). now destruct (rl_skip l).
Qed.

Lemma lfind_filter n ls : lfind n (filter (fun l => negb (rl_skip l)) ls) = rfind n ls.
Proof.
  unfold lfind, rfind. induction ls as [|l ls IH]; [reflexivity|]. cbn [filter find].
  destruct (rl_skip l); cbn [negb andb find]; [exact IH|]. destruct (String.eqb (rl_name l) n); [reflexivity|exact IH].
Qed.

Lemma rdeser_back f : val_ok (rl_ty f) (rl_val f) = true -> rdeser_with_default f (rl_val f) = Some (rl_val f).
Proof. exact (deser_back (emb f)). Qed.

Theorem roundtrip_row_by_name d ls cols cells : rdesc_wf d = true -> leaves_only (rd_fields d) = Some ls ->
  forallb (fun l => val_ok (rl_ty l) (rl_val l)) ls = true ->
  gen_ser_row_by_name d cols = Ok cells -> gen_typeck_row_by_name ls cols = Ok tt ->
  gen_deser_row_by_name ls cols cells = Ok (map rback_value ls).
Proof.
  intros W LO Hv Hs Ht.
  destruct (ser_row_by_name_doc d cols W) as [S _]. rewrite Hs, doc_ser_row_by_name_eq in S. cbv zeta in S.
  cbn [outcome_of] in S. unfold rd_leaves in S. rewrite (leaves_only_leaves _ _ LO) in S.
  set (nls := filter (fun l => negb (rl_skip l)) ls) in *.
  assert (Hnd : rnodup ls).
  { unfold rnodup. fold nls. pose proof W as HN. unfold rdesc_wf in HN. apply nodupb_NoDup in HN.
    unfold rd_leaves in HN. now rewrite (leaves_only_leaves _ _ LO) in HN. }
  destruct (negb (forallb _ cols)); [discriminate S|].
  destruct (negb (forallb _ nls)); [discriminate S|].
  destruct (forallb (col_ok nls) cols) eqn:OK; cbn [negb] in S; [|discriminate S]. injection S as ->.
  apply (proj1 (typeck_row_by_name_doc ls cols Hnd)) in Ht.
  assert (Hlen : List.length (map (rcellof nls) cols) = List.length cols) by apply map_length.
  destruct (deser_row_by_name_doc ls cols _ Hnd Hlen Ht) as [D _].
  apply outcome_accept. rewrite D.
  rewrite (all_some_map _ rback_value); [reflexivity|].
  intros f Hf. unfold doc_row_field_value_m, rback_value. destruct (rl_skip f) eqn:Sf; [reflexivity|].
  (* the column named like the field carries the field's value *)
  assert (Pres : mem (rl_name f) (map fst cols) = true).
  { unfold doc_typeck_row_by_name in Ht. apply andb_true_iff in Ht as [_ T2]. rewrite forallb_forall in T2.
    specialize (T2 f Hf). rewrite Sf in T2. cbn [orb] in T2. apply Nat.eqb_eq in T2. apply mem_count. lia. }
  assert (X : db_cell (rl_name f) (combine cols (map (rcellof nls) cols)) = Some (rl_val f)).
  { assert (Fn : lfind (rl_name f) nls = Some f).
    { unfold nls. rewrite lfind_filter. unfold rfind.
      clear -Hnd Hf Sf. unfold rnodup in Hnd. induction ls as [|g ls IH]; [contradiction|]. cbn [find filter map] in *.
      destruct (rl_skip g) eqn:Sg; cbn [negb andb] in *.
      - destruct Hf as [->|Hf]; [congruence|]. now apply IH.
      - cbn [map] in Hnd. inversion Hnd as [|? ? Hn Hd]; subst.
        destruct Hf as [->|Hf]; [now rewrite String.eqb_refl|].
        destruct (String.eqb (rl_name g) (rl_name f)) eqn:E; [|now apply IH].
        exfalso. apply String.eqb_eq in E. apply Hn. rewrite E. apply in_map. apply filter_In. now rewrite Sf. }
    clear -Pres OK Fn. induction cols as [|[m t] cols IH]; [discriminate|].
    cbn [map combine db_cell forallb] in *. apply andb_true_iff in OK as [O1 O2].
    unfold mem in Pres. cbn [map fst existsb] in Pres.
    destruct (String.eqb m (rl_name f)) eqn:E.
    - apply String.eqb_eq in E. subst m. f_equal. unfold rcellof, rcol_ok in *. cbn [fst snd] in *. rewrite Fn in *.
      destruct (ser_field (rl_ty f) (rl_val f) t) as [cl|] eqn:SF; [|discriminate]. now apply ser_field_some in SF.
    - rewrite String.eqb_sym, E in Pres. cbn [orb] in Pres. now apply IH. }
  rewrite X. apply rdeser_back. rewrite forallb_forall in Hv. now apply Hv.
Qed.
(* ------------------------------------------------------------ enforce_order, rows *)

Fixpoint io_flat (ls : list (bool * rleaf)) (cols : list dbfield) (out : list cell)
  : result err (list cell * list dbfield) :=
  match ls with
  | [] => Ok (out, cols)
  | (snc, l) :: r =>
      match in_order_field snc (RLeaf l) cols out with
      | Err e => Err e
      | Ok (out', cols') => io_flat r cols' out'
      end
  end.

Lemma io_flat_app a b cols out :
  io_flat (a ++ b) cols out =
  match io_flat a cols out with Err e => Err e | Ok (out', cols') => io_flat b cols' out' end.
Proof.
  revert cols out; induction a as [|[snc l] a IH]; intros cols out; [reflexivity|].
  cbn [app io_flat]. destruct (in_order_field snc (RLeaf l) cols out) as [[o c]|e]; [apply IH|reflexivity].
Qed.

Lemma in_order_flat f : forall snc cols out, in_order_field snc f cols out = io_flat (oleaves snc f) cols out.
Proof.
  induction f as [l|s snc' sub IH] using rfield_ind'; intros snc cols out.
  - cbn [oleaves io_flat]. now destruct (in_order_field snc (RLeaf l) cols out) as [[o c]|e].
  - cbn [in_order_field oleaves]. revert cols out. induction sub as [|x r IHr]; intros cols out; [reflexivity|].
    inversion IH as [|? ? IHx IHrest]; subst. cbn [in_order_fields flat_map].
    destruct (rf_skip x); [now apply IHr|]. rewrite io_flat_app, <- IHx.
    destruct (in_order_field snc' x cols out) as [[o c]|e]; [now apply IHr|reflexivity].
Qed.

Definition rser_pair (lc : rleaf * dbfield) : option cell :=
  ser_field (rl_ty (fst lc)) (rl_val (fst lc)) (snd (snd lc)).

Lemma io_plain ls : forall cols out,
  outcome_of (io_flat (map (pair false) ls) cols out) =
  match names_prefix (map rl_name ls) cols with
  | None => Reject
  | Some (p, rest) => match all_some (map rser_pair (combine ls p)) with
                      | Some cs => Accept (out ++ cs, rest)
                      | None => Reject
                      end
  end.
Proof.
  induction ls as [|l ls IH]; intros cols out; [cbn; now rewrite app_nil_r|].
  cbn [map io_flat in_order_field names_prefix negb andb].
  destruct cols as [|[n ty] cols]; [reflexivity|].
  destruct (String.eqb n (rl_name l)); cbn [negb]; [|reflexivity].
  destruct (names_prefix (map rl_name ls) cols) as [[p rest]|] eqn:N.
  - cbn [combine map all_some]. unfold rser_pair at 1. cbn [fst snd].
    destruct (ser_field (rl_ty l) (rl_val l) ty) as [cl|]; [|reflexivity].
    rewrite IH, N. destruct (all_some (map rser_pair (combine ls p))); [|reflexivity]. now rewrite <- app_assoc.
  - destruct (ser_field (rl_ty l) (rl_val l) ty) as [cl|]; [|reflexivity]. now rewrite IH, N.
Qed.

Lemma oleaves_plain f : rf_plain f = true -> rf_skip f = false ->
  oleaves false f = map (pair false) (leaves_of f).
Proof.
  induction f as [l|s snc' sub IH] using rfield_ind'; intros HP HS.
  - cbn [rf_skip] in HS. cbn [oleaves leaves_of]. now rewrite HS.
  - cbn [rf_skip] in HS. subst s. cbn [rf_plain] in HP. apply andb_true_iff in HP as [H1 H2].
    apply negb_true_iff in H1. subst snc'. cbn [oleaves leaves_of].
    induction sub as [|x r IHr]; [reflexivity|]. inversion IH as [|? ? IHx IHrest]; subst.
    cbn [forallb] in H2. apply andb_true_iff in H2 as [H2x H2r]. cbn [flat_map]. rewrite map_app.
    rewrite (IHr IHrest H2r). f_equal. destruct (rf_skip x) eqn:Sx.
    + destruct x as [l|s0 snc0 sub0]; cbn [leaves_of rf_skip] in *; now rewrite Sx.
    + now apply IHx.
Qed.

Lemma doc_ser_row_ordered_eq d cols : doc_ser_row_ordered d cols =
  match names_prefix (map rl_name (rd_leaves d)) cols with
  | Some (p, []) => match all_some (map rser_pair (combine (rd_leaves d) p)) with
                    | Some cs => Accept cs
                    | None => Reject
                    end
  | _ => Reject
  end.
Proof. reflexivity. Qed.

Theorem ser_row_ordered_doc d cols : rordered_plain d = true ->
  outcome_of (gen_ser_row_ordered d cols) = doc_ser_row_ordered d cols.
Proof.
  unfold rordered_plain. intros H. apply andb_true_iff in H as [H1 H2]. apply negb_true_iff in H1.
  rewrite doc_ser_row_ordered_eq. unfold gen_ser_row_ordered. rewrite H1, in_order_flat.
  assert (E : oleaves false (RFlat false false (rd_fields d)) = map (pair false) (rd_leaves d)).
  { apply (oleaves_plain (RFlat false false (rd_fields d))); [cbn [rf_plain negb andb]; exact H2|reflexivity]. }
  rewrite E. pose proof (io_plain (rd_leaves d) cols []) as P.
  destruct (names_prefix (map rl_name (rd_leaves d)) cols) as [[p rest]|].
  - destruct (io_flat _ cols []) as [[o c]|e]; cbn [outcome_of] in P.
    + destruct (all_some (map rser_pair (combine (rd_leaves d) p))) as [cs|]; [|discriminate].
      injection P as -> ->. cbn [app]. destruct rest as [|[n t] rest]; reflexivity.
    + destruct (all_some (map rser_pair (combine (rd_leaves d) p))); [discriminate|]. now destruct rest.
  - destruct (io_flat _ cols []) as [[o c]|e]; cbn [outcome_of] in P; [discriminate|reflexivity].
Qed.

(* type_check, enforce_order, rows *)
Definition racc_pair (lc : rleaf * dbfield) : bool := accepts (rl_ty (fst lc)) (snd (snd lc)).

Lemma tro_plain ls : forall fidx cidx cols,
  List.length cols = List.length (filter (fun f => negb (rl_skip f)) ls) ->
  (tro_loop false fidx cidx ls cols = Ok tt <->
   exists p, names_prefix (map rl_name (filter (fun f => negb (rl_skip f)) ls)) cols = Some (p, []) /\
             forallb racc_pair (combine (filter (fun f => negb (rl_skip f)) ls) p) = true) /\
  tro_loop false fidx cidx ls cols <> Err EPanic.
Proof.
  induction ls as [|l ls IH]; intros fidx cidx cols Hlen.
  - destruct cols; [|discriminate]. cbn. split; [|discriminate]. split; [|reflexivity]. intros _. exists []. split; reflexivity.
  - cbn [tro_loop filter] in *. destruct (rl_skip l) eqn:Sl; cbn [negb] in *; [now apply IH|].
    cbn [List.length map names_prefix] in *. destruct cols as [|[n ty] cols]; [discriminate|].
    cbn [negb andb]. destruct (String.eqb n (rl_name l)) eqn:E; cbn [negb].
    + destruct (accepts (rl_ty l) ty) eqn:A.
      * destruct (IH (S fidx) (S cidx) cols ltac:(cbn in Hlen; congruence)) as [I1 I2]. split; [|assumption].
        rewrite I1. split.
        -- intros (p & N & F). exists ((n, ty) :: p). rewrite N. split; [reflexivity|].
           cbn [combine forallb]. unfold racc_pair at 1. cbn [fst snd]. now rewrite A, F.
        -- intros (p & N & F). destruct (names_prefix _ cols) as [[p' r']|]; [|discriminate].
           injection N as <- ->. exists p'. split; [reflexivity|]. cbn [combine forallb] in F.
           now apply andb_true_iff in F as [_ F].
      * split; [|discriminate]. split; [discriminate|]. intros (p & N & F).
        destruct (names_prefix _ cols) as [[p' r']|]; [|discriminate]. injection N as <- ->.
        cbn [combine forallb] in F. unfold racc_pair at 1 in F. cbn [fst snd] in F. rewrite A in F. discriminate.
    + split; [|discriminate]. split; [discriminate|]. intros (p & N & F). discriminate.
Qed.

Theorem typeck_row_ordered_doc ls cols :
  (gen_typeck_row_ordered false ls cols = Ok tt <-> doc_typeck_row_ordered ls cols = true) /\
  gen_typeck_row_ordered false ls cols <> Err EPanic.
Proof.
  unfold gen_typeck_row_ordered, doc_typeck_row_ordered. cbv zeta.
  set (nls := filter (fun f => negb (rl_skip f)) ls).
  change (fun lc : rleaf * (string * dty) => accepts (rl_ty (fst lc)) (snd (snd lc))) with racc_pair.
  destruct (List.length cols =? List.length nls)%nat eqn:L.
  - apply Nat.eqb_eq in L. destruct (tro_plain ls O O cols L) as [T P]. fold nls in T. split; [|assumption].
    rewrite T. split.
    + intros (p & -> & F). exact F.
    + destruct (names_prefix (map rl_name nls) cols) as [[p [|x r]]|]; try discriminate. intros F. now exists p.
  - split; [|discriminate]. split; [discriminate|].
    destruct (names_prefix (map rl_name nls) cols) as [[p [|x r]]|] eqn:N; try discriminate.
    intros _. exfalso. destruct (names_prefix_spec _ _ _ _ N) as [E1 E2]. apply Nat.eqb_neq in L. apply L.
    rewrite E1, app_nil_r, <- (map_length rl_name nls), <- E2. now rewrite map_length.
Qed.

(* round trip, enforce_order, rows (any skip_name_checks) *)
Lemma ro_lockstep snc ls : forallb (fun l => val_ok (rl_ty l) (rl_val l)) ls = true ->
  forall cols out out' rest,
  in_order_fields (in_order_field snc) (map RLeaf ls) cols out = Ok (out', rest) ->
  exists cs, out' = out ++ cs /\
    forall fidx tl, dro_loop snc fidx ls (combine cols (cs ++ tl)) = Ok (map rback_value ls).
Proof.
  induction ls as [|l ls IH]; intros Hv cols out out' rest H.
  - cbn in H. injection H as <- <-. exists []. split; [now rewrite app_nil_r|]. reflexivity.
  - cbn [forallb] in Hv. apply andb_true_iff in Hv as [Hvl Hv].
    cbn [map in_order_fields rf_skip] in H. cbn [dro_loop map]. unfold rback_value at 1.
    destruct (rl_skip l) eqn:Sl.
    + destruct (IH Hv _ _ _ _ H) as (cs & -> & D). exists cs. split; [reflexivity|]. intros fidx tl. now rewrite D.
    + cbn [in_order_field] in H. destruct cols as [|[n ty] cols]; [discriminate|].
      destruct (negb snc && negb (String.eqb n (rl_name l))) eqn:NC; [discriminate|].
      destruct (ser_field (rl_ty l) (rl_val l) ty) as [cl|] eqn:SF; [|discriminate].
      apply ser_field_some in SF. subst cl.
      destruct (IH Hv _ _ _ _ H) as (cs & -> & D). exists (rl_val l :: cs). split; [now rewrite <- app_assoc|].
      intros fidx tl. cbn [app combine]. rewrite NC, rdeser_back by assumption. now rewrite D.
Qed.

Theorem roundtrip_row_ordered d ls cols cells : leaves_only (rd_fields d) = Some ls ->
  forallb (fun l => val_ok (rl_ty l) (rl_val l)) ls = true ->
  gen_ser_row_ordered d cols = Ok cells ->
  gen_deser_row_ordered (rd_snc d) ls cols cells = Ok (map rback_value ls).
Proof.
  intros LO Hv H. unfold gen_ser_row_ordered in H. cbn [in_order_field] in H.
  assert (E : rd_fields d = map RLeaf ls).
  { clear -LO. revert ls LO. induction (rd_fields d) as [|f fs IH]; intros ls LO; cbn [leaves_only] in LO.
    - now injection LO as <-.
    - destruct f as [l|]; [|discriminate]. destruct (leaves_only fs) as [ls'|]; [|discriminate].
      injection LO as <-. cbn [map]. f_equal. now apply IH. }
  rewrite E in H.
  destruct (in_order_fields (in_order_field (rd_snc d)) (map RLeaf ls) cols []) as [[out rest]|e] eqn:S; [|discriminate].
  destruct rest as [|[n t] rest]; [|discriminate]. injection H as ->.
  destruct (ro_lockstep _ _ Hv _ _ _ _ S) as (cs & -> & D). cbn [app].
  unfold gen_deser_row_ordered. specialize (D O []). now rewrite app_nil_r in D.
Qed.
(* "accepts exactly the declared order", spelled out *)
Theorem ordered_exact_value d db : vordered_plain d = true ->
  (gen_typeck_value_ordered d db = Ok tt <->
   exists p rest, db = p ++ rest /\ map fst p = map vf_name (nonskipped (vd_fields d)) /\
                  (vd_forbid d = true -> rest = []) /\
                  forallb acc_pair (combine (nonskipped (vd_fields d)) p) = true).
Proof.
  intros HP. rewrite (typeck_value_ordered_doc d db HP), doc_typeck_value_ordered_eq. split.
  - destruct (names_prefix _ db) as [[p rest]|] eqn:N; [|discriminate]. intros H.
    apply andb_true_iff in H as [H1 H2]. destruct (names_prefix_spec _ _ _ _ N) as [E1 E2].
    exists p, rest. repeat split; try assumption. intros Fb. rewrite Fb in H1. cbn [negb orb] in H1.
    now destruct rest.
  - intros (p & rest & -> & E & Fb & Acc). rewrite <- E, names_prefix_complete, Acc, andb_true_r.
    destruct (vd_forbid d); [|reflexivity]. now rewrite (Fb eq_refl).
Qed.

Theorem ordered_exact_row ls cols :
  (gen_typeck_row_ordered false ls cols = Ok tt <->
   map fst cols = map rl_name (filter (fun f => negb (rl_skip f)) ls) /\
   forallb racc_pair (combine (filter (fun f => negb (rl_skip f)) ls) cols) = true).
Proof.
  rewrite (proj1 (typeck_row_ordered_doc ls cols)). unfold doc_typeck_row_ordered. cbv zeta.
  change (fun lc : rleaf * (string * dty) => accepts (rl_ty (fst lc)) (snd (snd lc))) with racc_pair.
  set (nls := filter (fun f => negb (rl_skip f)) ls). split.
  - destruct (names_prefix (map rl_name nls) cols) as [[p [|x r]]|] eqn:N; try discriminate. intros H.
    destruct (names_prefix_spec _ _ _ _ N) as [E1 E2]. rewrite app_nil_r in E1. subst p. tauto.
  - intros [E Acc]. rewrite <- E. rewrite <- (app_nil_r cols) at 2. rewrite names_prefix_complete. exact Acc.
Qed.
(* ------------------------------------------------------------ enforce_order: deserialize = documented values *)

Definition vdoc_val (its : list (dbfield * cell)) (f : vfield) : option cell := doc_field_value_m f its.

Lemma dvo_plain fs : forallb (fun f => vf_skip f || negb (vf_am f)) fs = true -> vnodup fs ->
  forall its, map (fun it => fst (fst it)) (firstn (List.length (nonskipped fs)) its) = map vf_name (nonskipped fs) ->
  outcome_of (dvo_loop false fs its) =
    match all_some (map (vdoc_val its) fs) with Some vs => Accept vs | None => Reject end /\
  dvo_loop false fs its <> Err EPanic.
Proof.
  unfold nonskipped. induction fs as [|f fs IH]; intros Ham Hnd its Hn; [split; [reflexivity|discriminate]|].
  cbn [forallb] in Ham. apply andb_true_iff in Ham as [Hf Ham].
  cbn [dvo_loop map all_some]. unfold vdoc_val at 1, doc_field_value_m.
  cbn [filter] in Hn. destruct (vf_skip f) eqn:Sf; cbn [negb] in Hn.
  - destruct (IH Ham (vnodup_tail _ _ Hnd) its Hn) as [I1 I2]. split.
    + destruct (dvo_loop false fs its), (all_some (map (vdoc_val its) fs)); cbn [outcome_of] in *; congruence.
    + destruct (dvo_loop false fs its); [discriminate|]. congruence.
  - cbn [List.length firstn map] in Hn. destruct its as [|[[n ty] v] its]; [discriminate|].
    cbn [firstn map fst] in Hn. injection Hn as Hn0 Hn. subst n. cbn [orb]. rewrite String.eqb_refl.
    cbn [db_cell]. rewrite String.eqb_refl.
    destruct (deser_with_default f v) as [x|]; [|split; [reflexivity|discriminate]].
    destruct (IH Ham (vnodup_tail _ _ Hnd) its Hn) as [I1 I2].
    assert (E : map (vdoc_val (((vf_name f, ty), v) :: its)) fs = map (vdoc_val its) fs).
    { apply map_ext_in. intros g Hg. unfold vdoc_val, doc_field_value_m. destruct (vf_skip g) eqn:Sg; [reflexivity|].
      cbn [db_cell]. destruct (String.eqb (vf_name f) (vf_name g)) eqn:E; [|reflexivity].
      exfalso. assert (B : vbound (vf_name g) f = true) by (unfold vbound; now rewrite Sf, E).
      pose proof (vnodup_head_unique f fs _ Hnd B g Hg) as X. unfold vbound in X.
      rewrite Sg, String.eqb_refl in X. discriminate. }
    rewrite E. split.
    + destruct (dvo_loop false fs its), (all_some (map (vdoc_val its) fs)); cbn [outcome_of] in *; congruence.
    + destruct (dvo_loop false fs its); [discriminate|]. congruence.
Qed.

Theorem deser_value_ordered_doc d db cells : vordered_plain d = true -> vnodup (vd_fields d) ->
  doc_typeck_value_ordered d db = true ->
  outcome_of (gen_deser_value_ordered d db cells) =
    match all_some (map (fun f => doc_field_value_m f (udt_items db cells)) (vd_fields d)) with
    | Some vs => Accept vs
    | None => Reject
    end /\
  gen_deser_value_ordered d db cells <> Err EPanic.
Proof.
  unfold vordered_plain, gen_deser_value_ordered. intros HP Hnd T.
  apply andb_true_iff in HP as [Hs Ha]. apply negb_true_iff in Hs. rewrite Hs.
  rewrite doc_typeck_value_ordered_eq in T.
  destruct (names_prefix (map vf_name (nonskipped (vd_fields d))) db) as [[p rest]|] eqn:N; [|discriminate].
  destruct (names_prefix_spec _ _ _ _ N) as [E1 E2].
  apply (dvo_plain _ Ha Hnd).
  assert (Hp : List.length (nonskipped (vd_fields d)) = List.length p).
  { rewrite <- (map_length vf_name (nonskipped (vd_fields d))), <- E2. apply map_length. }
  rewrite Hp, <- E2.
  transitivity (map fst (map fst (firstn (List.length p) (udt_items db cells)))); [now rewrite map_map|].
  rewrite <- firstn_map, udt_items_fst, E1, firstn_app, Nat.sub_diag, firstn_all. cbn [firstn]. now rewrite app_nil_r.
Qed.

(* rows *)
Lemma dro_plain ls : rnodup ls -> forall fidx its,
  map (fun it => fst (fst it)) (firstn (List.length (filter (fun f => negb (rl_skip f)) ls)) its)
    = map rl_name (filter (fun f => negb (rl_skip f)) ls) ->
  outcome_of (dro_loop false fidx ls its) =
    match all_some (map (fun f => doc_row_field_value_m f its) ls) with Some vs => Accept vs | None => Reject end /\
  dro_loop false fidx ls its <> Err EPanic.
Proof.
  unfold rnodup. induction ls as [|f ls IH]; intros Hnd fidx its Hn; [split; [reflexivity|discriminate]|].
  cbn [dro_loop map all_some]. unfold doc_row_field_value_m at 1.
  cbn [filter] in Hn, Hnd. destruct (rl_skip f) eqn:Sf; cbn [negb] in Hn, Hnd.
  - destruct (IH Hnd (S fidx) its Hn) as [I1 I2]. split.
    + destruct (dro_loop false (S fidx) ls its), (all_some (map (fun f => doc_row_field_value_m f its) ls)); cbn [outcome_of] in *; congruence.
    + destruct (dro_loop false (S fidx) ls its); [discriminate|]. congruence.
  - cbn [List.length firstn map] in Hn, Hnd. destruct its as [|[[n ty] v] its]; [discriminate|].
    cbn [firstn map fst] in Hn. injection Hn as Hn0 Hn. subst n. cbn [negb andb]. rewrite String.eqb_refl. cbn [negb].
    cbn [db_cell]. rewrite String.eqb_refl. inversion Hnd as [|? ? Hnot Hnd']; subst.
    destruct (rdeser_with_default f v) as [x|]; [|split; [reflexivity|discriminate]].
    destruct (IH Hnd' (S fidx) its Hn) as [I1 I2].
    assert (E : map (fun g => doc_row_field_value_m g (((rl_name f, ty), v) :: its)) ls
                = map (fun g => doc_row_field_value_m g its) ls).
    { apply map_ext_in. intros g Hg. unfold doc_row_field_value_m. destruct (rl_skip g) eqn:Sg; [reflexivity|].
      cbn [db_cell]. destruct (String.eqb (rl_name f) (rl_name g)) eqn:E; [|reflexivity].
      exfalso. apply String.eqb_eq in E. apply Hnot. rewrite E. apply in_map. apply filter_In. now rewrite Sg. }
    rewrite E. split.
    + destruct (dro_loop false (S fidx) ls its), (all_some (map (fun f => doc_row_field_value_m f its) ls)); cbn [outcome_of] in *; congruence.
    + destruct (dro_loop false (S fidx) ls its); [discriminate|]. congruence.
Qed.

Theorem deser_row_ordered_doc ls cols cells : rnodup ls -> List.length cells = List.length cols ->
  doc_typeck_row_ordered ls cols = true ->
  outcome_of (gen_deser_row_ordered false ls cols cells) =
    match all_some (map (fun f => doc_row_field_value_m f (combine cols cells)) ls) with
    | Some vs => Accept vs
    | None => Reject
    end /\
  gen_deser_row_ordered false ls cols cells <> Err EPanic.
Proof.
  unfold gen_deser_row_ordered, doc_typeck_row_ordered. cbv zeta. intros Hnd Hlen T.
  set (nls := filter (fun f => negb (rl_skip f)) ls) in *.
  destruct (names_prefix (map rl_name nls) cols) as [[p [|x r]]|] eqn:N; try discriminate.
  destruct (names_prefix_spec _ _ _ _ N) as [E1 E2]. rewrite app_nil_r in E1. subst p.
  apply (dro_plain ls Hnd). fold nls.
  assert (Hp : List.length nls = List.length cols).
  { rewrite <- (map_length rl_name nls), <- E2. apply map_length. }
  assert (Ec : map fst (combine cols cells) = cols).
  { clear -Hlen. revert cells Hlen. induction cols as [|c cols IH]; intros [|v cells] H; simpl in *; try congruence.
    f_equal. apply IH. congruence. }
  rewrite Hp, <- E2.
  transitivity (map fst (map fst (firstn (List.length cols) (combine cols cells)))); [now rewrite map_map|].
  now rewrite <- firstn_map, Ec, firstn_all.
Qed.
(* ------------------------------------------------------------ enforce_order with allow_missing: soundness *)

(* [used] is a subsequence of [fs] *)
Inductive subseq {A} : list A -> list A -> Prop :=
| subseq_nil : subseq [] []
| subseq_take x l m : subseq l m -> subseq (x :: l) (x :: m)
| subseq_skip x l m : subseq l m -> subseq l (x :: m).

(* whatever the ordered serializer accepts (names checked) is: the values of a subsequence of the
   struct's fields that contains every field not marked allow_missing, matched one to one and in
   order against a prefix of the DB fields *)
Theorem ser_value_ordered_sound fs : forall db cs rest, svo' false fs db = Ok (cs, rest) ->
  exists used p, subseq used fs /\ (forall f, In f fs -> ~ In f used -> vf_am f = true) /\
                 db = p ++ rest /\ map fst p = map vf_name used /\ cs = map vf_val used.
Proof.
  induction fs as [|f fs IH]; intros db cs rest H; cbn [svo'] in H.
  - injection H as <- <-. exists [], []. repeat split; try constructor. intros f [].
  - destruct db as [|[n ty] db].
    + destruct (vf_am f) eqn:Am; cbn [negb] in H; [|discriminate].
      destruct (IH _ _ _ H) as (used & p & S & M & E & N & C).
      exists used, p. repeat split; try assumption; [now constructor|].
      intros g [<-|Hg] Hn; [assumption|now apply M].
    + cbn [orb] in H. destruct (String.eqb n (vf_name f)) eqn:En.
      * destruct (ser_field (vf_ty f) (vf_val f) ty) as [cl|] eqn:SF; [|discriminate].
        destruct (svo' false fs db) as [[cs' r']|] eqn:R; [|discriminate]. injection H as <- <-.
        destruct (IH _ _ _ R) as (used & p & S & M & E & N & C).
        apply ser_field_some in SF. apply String.eqb_eq in En. subst cl n.
        exists (f :: used), ((vf_name f, ty) :: p). repeat split.
        -- now constructor.
        -- intros g [<-|Hg] Hn; [exfalso; apply Hn; now left|]. apply M; [assumption|]. intros X. apply Hn. now right.
        -- cbn [app]. now rewrite E.
        -- cbn [map fst]. now rewrite N.
        -- cbn [map]. now rewrite C.
      * destruct (vf_am f) eqn:Am; cbn [negb] in H; [|discriminate].
        destruct (IH _ _ _ H) as (used & p & S & M & E & N & C).
        exists used, p. repeat split; try assumption; [now constructor|].
        intros g [<-|Hg] Hn; [assumption|now apply M].
Qed.

Theorem ser_value_ordered_am_sound d db cells : vd_snc d = false ->
  gen_ser_value_ordered d db = Ok cells ->
  exists used p rest, subseq used (nonskipped (vd_fields d)) /\
    (forall f, In f (nonskipped (vd_fields d)) -> ~ In f used -> vf_am f = true) /\
    db = p ++ rest /\ map fst p = map vf_name used /\ cells = map vf_val used /\
    (vd_forbid d = true -> rest = []).
Proof.
  unfold gen_ser_value_ordered. intros Hs H. rewrite Hs, svo_loop_acc in H.
  destruct (svo' false (nonskipped (vd_fields d)) db) as [[cs rest]|e] eqn:S; [|discriminate].
  destruct (ser_value_ordered_sound _ _ _ _ S) as (used & p & A1 & A2 & A3 & A4 & A5).
  cbn [app] in H. exists used, p, rest. destruct (vd_forbid d).
  - destruct rest as [|[n t] rest]; [|discriminate]. injection H as <-. repeat split; assumption || reflexivity.
  - injection H as <-. repeat split; try assumption. discriminate.
Qed.

(* ------------------------------------------------------------ statements with the specification's own functions *)

Theorem deser_value_by_name_spec d db cells : vnodup (vd_fields d) ->
  doc_typeck_value_by_name d db = true ->
  outcome_of (gen_deser_value_by_name d db cells) =
    match all_some (map (fun f => doc_field_value f (spec_items db cells)) (vd_fields d)) with
    | Some vs => Accept vs
    | None => Reject
    end /\
  gen_deser_value_by_name d db cells <> Err EPanic.
Proof.
  intros Hnd T. rewrite spec_items_udt.
  rewrite (map_ext _ _ (fun f => doc_field_value_eq f (udt_items db cells))).
  now apply deser_value_by_name_doc.
Qed.

Theorem deser_row_by_name_spec ls cols cells : rnodup ls -> List.length cells = List.length cols ->
  doc_typeck_row_by_name ls cols = true ->
  outcome_of (gen_deser_row_by_name ls cols cells) =
    match all_some (map (fun f => doc_row_field_value f (combine cols cells)) ls) with
    | Some vs => Accept vs
    | None => Reject
    end /\
  gen_deser_row_by_name ls cols cells <> Err EPanic.
Proof.
  intros. rewrite (map_ext _ _ (fun f => doc_row_field_value_eq f (combine cols cells))).
  now apply deser_row_by_name_doc.
Qed.

Theorem deser_value_ordered_spec d db cells : vordered_plain d = true -> vnodup (vd_fields d) ->
  doc_typeck_value_ordered d db = true ->
  outcome_of (gen_deser_value_ordered d db cells) =
    match all_some (map (fun f => doc_field_value f (spec_items db cells)) (vd_fields d)) with
    | Some vs => Accept vs
    | None => Reject
    end /\
  gen_deser_value_ordered d db cells <> Err EPanic.
Proof.
  intros. rewrite spec_items_udt.
  rewrite (map_ext _ _ (fun f => doc_field_value_eq f (udt_items db cells))).
  now apply deser_value_ordered_doc.
Qed.

Theorem deser_row_ordered_spec ls cols cells : rnodup ls -> List.length cells = List.length cols ->
  doc_typeck_row_ordered ls cols = true ->
  outcome_of (gen_deser_row_ordered false ls cols cells) =
    match all_some (map (fun f => doc_row_field_value f (combine cols cells)) ls) with
    | Some vs => Accept vs
    | None => Reject
    end /\
  gen_deser_row_ordered false ls cols cells <> Err EPanic.
Proof.
  intros. rewrite (map_ext _ _ (fun f => doc_row_field_value_eq f (combine cols cells))).
  now apply deser_row_ordered_doc.
Qed.

(* ------------------------------------------------------------ skip_name_checks: positional binding *)

Lemma svo_snc fs : forall db,
  outcome_of (svo' true fs db) =
  if forallb vf_am (skipn (List.length db) fs)
  then match all_some (map ser_pair (combine fs db)) with
       | Some cs => Accept (cs, skipn (List.length fs) db)
       | None => Reject
       end
  else Reject.
Proof.
  induction fs as [|f fs IH]; intros db.
  - cbn. now destruct db.
  - cbn [svo' orb]. destruct db as [|[n ty] db].
    + cbn [List.length skipn forallb combine map all_some].
      destruct (vf_am f); cbn [negb andb]; [|reflexivity].
      rewrite IH. cbn [List.length skipn combine map all_some].
      destruct (forallb vf_am fs); [|reflexivity]. now destruct fs.
    + cbn [List.length skipn combine map all_some]. unfold ser_pair at 1. cbn [fst snd].
      destruct (ser_field (vf_ty f) (vf_val f) ty) as [cl|].
      * specialize (IH db). destruct (svo' true fs db) as [[cs r]|e]; cbn [outcome_of] in *.
        -- destruct (forallb vf_am (skipn (List.length db) fs)); [|discriminate].
           destruct (all_some (map ser_pair (combine fs db))); [|discriminate]. now injection IH as -> ->.
        -- destruct (forallb vf_am (skipn (List.length db) fs)); [|reflexivity].
           destruct (all_some (map ser_pair (combine fs db))); [discriminate|reflexivity].
      * now destruct (forallb vf_am (skipn (List.length db) fs)).
Qed.

Lemma skipn_nil_iff {A} (l : list A) k : is_nil (skipn k l) = (List.length l <=? k)%nat.
Proof.
  revert k; induction l as [|x l IH]; intros k; [now destruct k|].
  destruct k; [reflexivity|]. cbn [skipn List.length]. apply IH.
Qed.

Lemma doc_ser_value_snc_eq d db : doc_ser_value_snc d db =
  if doc_snc_shape_ok d db then
    match all_some (map ser_pair (combine (nonskipped (vd_fields d)) db)) with
    | Some cs => Accept cs
    | None => Reject
    end
  else Reject.
Proof. reflexivity. Qed.
Lemma doc_typeck_value_snc_eq d db : doc_typeck_value_snc d db =
  doc_snc_shape_ok d db && forallb acc_pair (combine (nonskipped (vd_fields d)) db).
Proof. reflexivity. Qed.

Theorem ser_value_snc_doc d db : vd_snc d = true ->
  outcome_of (gen_ser_value_ordered d db) = doc_ser_value_snc d db.
Proof.
  rewrite doc_ser_value_snc_eq. unfold gen_ser_value_ordered, doc_snc_shape_ok. intros Hs. rewrite Hs. cbv zeta.
  rewrite svo_loop_acc. pose proof (svo_snc (nonskipped (vd_fields d)) db) as P.
  set (fs := nonskipped (vd_fields d)) in *.
  destruct (forallb vf_am (skipn (List.length db) fs)); cbn [andb].
  - destruct (svo' true fs db) as [[cs r]|e]; cbn [outcome_of] in P.
    + destruct (all_some (map ser_pair (combine fs db))) as [cs'|]; [|discriminate].
      injection P as -> ->. cbn [app].
      destruct (vd_forbid d); cbn [negb orb].
      * rewrite <- skipn_nil_iff. destruct (skipn (List.length fs) db) as [|[n t] r]; reflexivity.
      * reflexivity.
    + destruct (all_some (map ser_pair (combine fs db))); [discriminate|].
      cbn [outcome_of]. now destruct (negb (vd_forbid d) || _).
  - destruct (svo' true fs db) as [[cs r]|e]; cbn [outcome_of] in P; [discriminate|reflexivity].
Qed.

Lemma tvo_snc fs : forall idx db,
  match tvo_loop true idx fs db with Ok rest => Some rest | Err _ => None end =
  if forallb vf_am (skipn (List.length db) (nonskipped fs)) && forallb acc_pair (combine (nonskipped fs) db)
  then Some (skipn (List.length (nonskipped fs)) db) else None.
Proof.
  unfold nonskipped. induction fs as [|f fs IH]; intros idx db.
  - cbn. now destruct db.
  - cbn [tvo_loop filter]. destruct (vf_skip f) eqn:Sf; cbn [negb]; [apply IH|].
    destruct db as [|[n ty] db].
    + cbn [List.length skipn forallb combine andb].
      destruct (vf_am f); cbn [andb]; [|reflexivity].
      rewrite IH. cbn [List.length skipn combine forallb]. rewrite !andb_true_r.
      destruct (forallb vf_am _); [|reflexivity]. now destruct (filter _ fs).
    + cbn [negb andb List.length skipn combine forallb]. unfold acc_pair at 1. cbn [fst snd].
      destruct (accepts (vf_ty f) ty); cbn [andb]; [apply IH|]. now rewrite andb_false_r.
Qed.

Theorem typeck_value_snc_doc d db : vd_snc d = true ->
  (gen_typeck_value_ordered d db = Ok tt <-> doc_typeck_value_snc d db = true).
Proof.
  rewrite doc_typeck_value_snc_eq. unfold gen_typeck_value_ordered, doc_snc_shape_ok. intros Hs. rewrite Hs. cbv zeta.
  pose proof (tvo_snc (vd_fields d) O db) as P.
  set (fs := nonskipped (vd_fields d)) in *.
  (* the TooFewFields pre-check is implied by the shape condition *)
  assert (Pre : forallb vf_am (skipn (List.length db) fs) = true ->
                (List.length db <? List.length (filter vf_required (vd_fields d)))%nat = false).
  { intros A. apply Nat.ltb_ge.
    assert (E : List.length (filter vf_required (vd_fields d)) = List.length (filter (fun f => negb (vf_am f)) fs)).
    { unfold fs, nonskipped, vf_required. clear. induction (vd_fields d) as [|f l IH]; [reflexivity|].
      cbn [filter]. destruct (vf_skip f); cbn [negb andb]; [exact IH|].
      cbn [filter]. destruct (negb (vf_am f)); cbn [List.length]; now rewrite IH. }
    rewrite E. clear -A. revert A. generalize (List.length db) as k. induction fs as [|f fs IH]; intros k A; [cbn; lia|].
    destruct k; cbn [skipn] in A.
    - cbn [forallb] in A. apply andb_true_iff in A as [A1 A2]. cbn [filter]. rewrite A1. cbn [negb].
      apply (IH O). now destruct fs.
    - cbn [filter]. specialize (IH k A). destruct (negb (vf_am f)); cbn [List.length]; lia. }
  destruct (forallb vf_am (skipn (List.length db) fs)) eqn:A; cbn [andb] in *.
  - rewrite (Pre eq_refl).
    destruct (tvo_loop true 0 (vd_fields d) db) as [r|e].
    + destruct (forallb acc_pair (combine fs db)); [|discriminate]. injection P as ->.
      destruct (vd_forbid d); cbn [negb orb andb]; [|tauto].
      rewrite <- skipn_nil_iff, andb_true_r. destruct (skipn (List.length fs) db) as [|[n t] r]; cbn [is_nil]; split; congruence.
    + destruct (forallb acc_pair (combine fs db)); [discriminate|]. rewrite andb_false_r. split; discriminate.
  - destruct (List.length db <? _)%nat; [split; discriminate|].
    destruct (tvo_loop true 0 (vd_fields d) db); [discriminate|]. split; discriminate.
Qed.

Lemma dvo_snc fs : forall its,
  forallb vf_am (skipn (List.length its) (nonskipped fs)) = true ->
  outcome_of (dvo_loop true fs its) =
    match all_some (doc_positional fs its) with Some vs => Accept vs | None => Reject end /\
  dvo_loop true fs its <> Err EPanic.
Proof.
  unfold nonskipped. induction fs as [|f fs IH]; intros its A; [split; [reflexivity|discriminate]|].
  cbn [dvo_loop doc_positional filter] in *. destruct (vf_skip f) eqn:Sf; cbn [negb] in A.
  - destruct (IH its A) as [I1 I2]. cbn [all_some]. split.
    + destruct (dvo_loop true fs its), (all_some (doc_positional fs its)); cbn [outcome_of] in *; congruence.
    + destruct (dvo_loop true fs its); [discriminate|congruence].
  - destruct its as [|[[n ty] v] its].
    + cbn [List.length skipn forallb] in A. apply andb_true_iff in A as [A1 A2]. rewrite A1.
      destruct (IH [] ltac:(cbn; now destruct (filter _ fs))) as [I1 I2]. cbn [all_some]. split.
      * destruct (dvo_loop true fs []), (all_some (doc_positional fs [])); cbn [outcome_of] in *; congruence.
      * destruct (dvo_loop true fs []); [discriminate|congruence].
    + cbn [orb List.length skipn] in *. rewrite doc_null_rule_v. cbn [all_some].
      destruct (deser_with_default f v) as [x|]; [|split; [reflexivity|discriminate]].
      destruct (IH its A) as [I1 I2]. split.
      * destruct (dvo_loop true fs its), (all_some (doc_positional fs its)); cbn [outcome_of] in *; congruence.
      * destruct (dvo_loop true fs its); [discriminate|congruence].
Qed.

Theorem deser_value_snc_doc d db cells : vd_snc d = true -> doc_typeck_value_snc d db = true ->
  outcome_of (gen_deser_value_ordered d db cells) =
    match all_some (doc_positional (vd_fields d) (spec_items db cells)) with
    | Some vs => Accept vs
    | None => Reject
    end /\
  gen_deser_value_ordered d db cells <> Err EPanic.
Proof.
  unfold gen_deser_value_ordered, doc_typeck_value_snc, doc_snc_shape_ok. intros Hs T. rewrite Hs, spec_items_udt.
  apply dvo_snc. apply andb_true_iff in T as [T _]. apply andb_true_iff in T as [T _].
  assert (E : List.length (udt_items db cells) = List.length db).
  { rewrite <- (map_length fst), udt_items_fst. reflexivity. }
  now rewrite E.
Qed.

(* ------------------------------------------------------------ rows, enforce_order, any skip_name_checks mix *)

Definition oser (lc : (bool * rleaf) * dbfield) : option cell :=
  ser_field (rl_ty (snd (fst lc))) (rl_val (snd (fst lc))) (snd (snd lc)).

Lemma io_gen ls : forall cols out,
  outcome_of (io_flat ls cols out) =
  if (List.length ls <=? List.length cols)%nat && forallb oname_ok (combine ls cols)
  then match all_some (map oser (combine ls cols)) with
       | Some cs => Accept (out ++ cs, skipn (List.length ls) cols)
       | None => Reject
       end
  else Reject.
Proof.
  induction ls as [|[snc l] ls IH]; intros cols out; [cbn; now rewrite app_nil_r|].
  cbn [io_flat in_order_field List.length]. destruct cols as [|[n ty] cols]; [reflexivity|].
  cbn [List.length combine forallb map all_some skipn]. unfold oname_ok at 1, oser at 1. cbn [fst snd].
  change (S (List.length ls) <=? S (List.length cols))%nat with (List.length ls <=? List.length cols)%nat.
  destruct snc; cbn [negb andb orb].
  - destruct (ser_field (rl_ty l) (rl_val l) ty) as [cl|].
    + rewrite IH. destruct ((List.length ls <=? List.length cols)%nat && _); [|reflexivity].
      destruct (all_some (map oser (combine ls cols))); [|reflexivity]. now rewrite <- app_assoc.
    + now destruct ((List.length ls <=? List.length cols)%nat && _).
  - destruct (String.eqb n (rl_name l)); cbn [negb andb].
    + destruct (ser_field (rl_ty l) (rl_val l) ty) as [cl|].
      * rewrite IH. destruct ((List.length ls <=? List.length cols)%nat && _); [|reflexivity].
        destruct (all_some (map oser (combine ls cols))); [|reflexivity]. now rewrite <- app_assoc.
      * now destruct ((List.length ls <=? List.length cols)%nat && _).
    + now rewrite andb_false_r.
Qed.

Lemma doc_ser_row_ordered_gen_eq d cols : doc_ser_row_ordered_gen d cols =
  if (List.length cols =? List.length (rd_oleaves d))%nat && forallb oname_ok (combine (rd_oleaves d) cols) then
    match all_some (map oser (combine (rd_oleaves d) cols)) with
    | Some cs => Accept cs
    | None => Reject
    end
  else Reject.
Proof. reflexivity. Qed.

Theorem ser_row_ordered_gen_doc d cols :
  outcome_of (gen_ser_row_ordered d cols) = doc_ser_row_ordered_gen d cols.
Proof.
  rewrite doc_ser_row_ordered_gen_eq. unfold gen_ser_row_ordered. rewrite in_order_flat.
  fold (rd_oleaves d). set (ls := rd_oleaves d). pose proof (io_gen ls cols []) as P.
  destruct (io_flat ls cols []) as [[o c]|e]; cbn [outcome_of] in P.
  - destruct (List.length ls <=? List.length cols)%nat eqn:L1; cbn [andb] in P; [|discriminate].
    destruct (forallb oname_ok (combine ls cols)) eqn:N; [|discriminate].
    destruct (all_some (map oser (combine ls cols))) as [cs|]; [|discriminate].
    injection P as -> ->. cbn [app]. rewrite andb_true_r.
    pose proof (skipn_nil_iff cols (List.length ls)) as SN.
    destruct (skipn (List.length ls) cols) as [|[n t] r]; cbn [is_nil] in SN.
    + symmetry in SN. apply Nat.leb_le in SN, L1.
      assert (E : (List.length cols =? List.length ls)%nat = true) by (apply Nat.eqb_eq; lia). now rewrite E.
    + symmetry in SN. apply Nat.leb_gt in SN.
      assert (E : (List.length cols =? List.length ls)%nat = false) by (apply Nat.eqb_neq; lia). now rewrite E.
  - destruct (List.length cols =? List.length ls)%nat eqn:E; [|reflexivity]. apply Nat.eqb_eq in E.
    rewrite E, Nat.leb_refl in P. cbn [andb] in *.
    destruct (forallb oname_ok (combine ls cols)); [|reflexivity].
    destruct (all_some (map oser (combine ls cols))); [discriminate|reflexivity].
Qed.

Lemma tro_snc ls : forall fidx cidx cols,
  List.length cols = List.length (filter (fun f => negb (rl_skip f)) ls) ->
  (tro_loop true fidx cidx ls cols = Ok tt <->
   forallb racc_pair (combine (filter (fun f => negb (rl_skip f)) ls) cols) = true) /\
  tro_loop true fidx cidx ls cols <> Err EPanic.
Proof.
  induction ls as [|l ls IH]; intros fidx cidx cols Hlen.
  - destruct cols; [|discriminate]. cbn. split; [tauto|discriminate].
  - cbn [tro_loop filter] in *. destruct (rl_skip l); cbn [negb] in *; [now apply IH|].
    cbn [List.length] in Hlen. destruct cols as [|[n ty] cols]; [discriminate|].
    cbn [negb andb combine forallb]. unfold racc_pair at 1. cbn [fst snd].
    destruct (accepts (rl_ty l) ty); cbn [andb].
    + apply IH. cbn in Hlen. congruence.
    + split; [split; discriminate|discriminate].
Qed.

Theorem typeck_row_snc_doc ls cols :
  (gen_typeck_row_ordered true ls cols = Ok tt <-> doc_typeck_row_snc ls cols = true) /\
  gen_typeck_row_ordered true ls cols <> Err EPanic.
Proof.
  unfold gen_typeck_row_ordered, doc_typeck_row_snc. cbv zeta.
  change (fun lc : rleaf * (string * dty) => accepts (rl_ty (fst lc)) (snd (snd lc))) with racc_pair.
  destruct (List.length cols =? _)%nat eqn:L; cbn [andb].
  - apply Nat.eqb_eq in L. exact (tro_snc ls O O cols L).
  - split; [split; discriminate|discriminate].
Qed.

Lemma dro_snc ls : forall fidx its,
  List.length its = List.length (filter (fun f => negb (rl_skip f)) ls) ->
  outcome_of (dro_loop true fidx ls its) =
    match all_some (doc_row_positional ls its) with Some vs => Accept vs | None => Reject end /\
  dro_loop true fidx ls its <> Err EPanic.
Proof.
  induction ls as [|f ls IH]; intros fidx its Hl; [split; [reflexivity|discriminate]|].
  cbn [dro_loop doc_row_positional filter] in *. destruct (rl_skip f); cbn [negb] in Hl.
  - destruct (IH (S fidx) its Hl) as [I1 I2]. cbn [all_some]. split.
    + destruct (dro_loop true (S fidx) ls its), (all_some (doc_row_positional ls its)); cbn [outcome_of] in *; congruence.
    + destruct (dro_loop true (S fidx) ls its); [discriminate|congruence].
  - destruct its as [|[[n ty] v] its]; [discriminate|]. cbn [negb andb]. rewrite doc_null_rule_r. cbn [all_some].
    destruct (rdeser_with_default f v) as [x|]; [|split; [reflexivity|discriminate]].
    destruct (IH (S fidx) its ltac:(cbn in Hl; congruence)) as [I1 I2]. split.
    + destruct (dro_loop true (S fidx) ls its), (all_some (doc_row_positional ls its)); cbn [outcome_of] in *; congruence.
    + destruct (dro_loop true (S fidx) ls its); [discriminate|congruence].
Qed.

Theorem deser_row_snc_doc ls cols cells : List.length cells = List.length cols ->
  doc_typeck_row_snc ls cols = true ->
  outcome_of (gen_deser_row_ordered true ls cols cells) =
    match all_some (doc_row_positional ls (combine cols cells)) with
    | Some vs => Accept vs
    | None => Reject
    end /\
  gen_deser_row_ordered true ls cols cells <> Err EPanic.
Proof.
  unfold gen_deser_row_ordered, doc_typeck_row_snc. cbv zeta. intros Hlen T.
  apply andb_true_iff in T as [T _]. apply Nat.eqb_eq in T.
  apply dro_snc. rewrite combine_length, Hlen, Nat.min_id. exact T.
Qed.

(* ------------------------------------------------------------ enforce_order + allow_missing: longest match *)

(* what the generated cursor loop binds, names only *)
Fixpoint gused (fs : list vfield) (db : list dbfield) : option (list vfield) :=
  match fs with
  | [] => Some []
  | f :: fs' =>
      match db with
      | (n, _) :: db' =>
          if String.eqb n (vf_name f) then option_map (cons f) (gused fs' db')
          else if vf_am f then gused fs' db else None
      | [] => if vf_am f then gused fs' [] else None
      end
  end.

Lemma subseq_In {A} (u l : list A) x : subseq u l -> In x u -> In x l.
Proof. induction 1; intros Hin; [assumption| |right; auto]. destruct Hin as [->|Hin]; [now left|right; auto]. Qed.

Lemma subseqs_spec {A} (l : list A) u : In u (subseqs l) <-> subseq u l.
Proof.
  revert u; induction l as [|x l IH]; intros u; cbn [subseqs].
  - split; [intros [<-|[]]; constructor|]. intros H. inversion H. now left.
  - rewrite in_app_iff, in_map_iff. split.
    + intros [(t & <- & Ht)|H]; [apply subseq_take; now apply IH|apply subseq_skip; now apply IH].
    + intros H. inversion H; subst; [left; eexists; split; [reflexivity|now apply IH]|right; now apply IH].
Qed.

Lemma names_prefix_some ns db p rest : names_prefix ns db = Some (p, rest) ->
  ns = map fst (firstn (List.length ns) db) /\ List.length p = List.length ns.
Proof.
  intros H. destruct (names_prefix_spec _ _ _ _ H) as [-> <-]. rewrite map_length, firstn_app, Nat.sub_diag, firstn_all.
  cbn [firstn]. now rewrite app_nil_r.
Qed.

Lemma gused_sound fs : forall db g, gused fs db = Some g ->
  subseq g fs /\ (forall f, In f fs -> ~ In f g -> vf_am f = true) /\
  exists p rest, names_prefix (map vf_name g) db = Some (p, rest).
Proof.
  induction fs as [|f fs IH]; intros db g H; cbn [gused] in H.
  - injection H as <-. repeat split; [constructor|intros f []|]. exists [], db. reflexivity.
  - assert (Skip : forall db0 g0, vf_am f = true -> gused fs db0 = Some g0 ->
             subseq g0 (f :: fs) /\ (forall h, In h (f :: fs) -> ~ In h g0 -> vf_am h = true) /\
             exists p rest, names_prefix (map vf_name g0) db0 = Some (p, rest)).
    { intros db0 g0 Am H0. destruct (IH _ _ H0) as (S & M & P). repeat split; [now constructor| |exact P].
      intros h [<-|Hh] Hn; [assumption|now apply M]. }
    destruct db as [|[n ty] db].
    + destruct (vf_am f) eqn:Am; [|discriminate]. now apply Skip.
    + destruct (String.eqb n (vf_name f)) eqn:E.
      * destruct (gused fs db) as [g'|] eqn:G; [|discriminate]. injection H as <-.
        destruct (IH _ _ G) as (S & M & p & rest & P). repeat split.
        -- now constructor.
        -- intros h [<-|Hh] Hn; [exfalso; apply Hn; now left|]. apply M; [assumption|]. intros X. apply Hn. now right.
        -- exists ((n, ty) :: p), rest. cbn [map names_prefix]. now rewrite E, P.
      * destruct (vf_am f) eqn:Am; [|discriminate]. now apply Skip.
Qed.

Lemma forallb_ext_in' {A} (p q : A -> bool) l : (forall x, In x l -> p x = q x) -> forallb p l = forallb q l.
Proof.
  induction l as [|x l IH]; intros H; [reflexivity|]. cbn [forallb]. rewrite (H x) by now left.
  f_equal. apply IH. intros y Hy. apply H. now right.
Qed.

Lemma covers_tail f fs (ns : list string) : ~ In (vf_name f) (map vf_name fs) ->
  forallb (fun g => vf_am g || mem (vf_name g) (vf_name f :: ns)) fs =
  forallb (fun g => vf_am g || mem (vf_name g) ns) fs.
Proof.
  intros Hn. apply forallb_ext_in'. intros g Hg. f_equal. unfold mem. cbn [existsb].
  destruct (String.eqb (vf_name g) (vf_name f)) eqn:E; [|reflexivity].
  exfalso. apply String.eqb_eq in E. apply Hn. rewrite <- E. now apply in_map.
Qed.

(* the cursor loop finds a selection at least as long as any admissible one *)
Lemma gused_complete fs : NoDup (map vf_name fs) -> forall u db, subseq u fs ->
  ordered_sel_ok fs u db = true -> exists g, gused fs db = Some g /\ (List.length u <= List.length g)%nat.
Proof.
  unfold ordered_sel_ok. induction fs as [|f fs IH]; intros HN u db S OK.
  - inversion S; subst. exists []. split; [reflexivity|cbn; lia].
  - cbn [map] in HN. inversion HN as [|? ? Hnot HN']; subst.
    apply andb_true_iff in OK as [C P]. cbn [forallb] in C. apply andb_true_iff in C as [Cf C].
    inversion S as [|x u' l' S'|x u0 l' S']; subst.
    + (* the selection takes f *)
      cbn [map] in P, C. rewrite covers_tail in C by assumption.
      cbn [names_prefix] in P. destruct db as [|[n ty] db]; [discriminate|].
      destruct (String.eqb n (vf_name f)) eqn:E; [|discriminate].
      destruct (names_prefix (map vf_name u') db) as [[p r]|] eqn:N; [|discriminate].
      destruct (IH HN' u' db S' ltac:(now rewrite C, N)) as (g' & G & L).
      exists (f :: g'). cbn [gused]. rewrite E, G. split; [reflexivity|cbn; lia].
    + (* the selection leaves f out: f is allow_missing *)
      assert (Am : vf_am f = true).
      { destruct (vf_am f); [reflexivity|]. cbn [orb] in Cf. apply mem_In in Cf. exfalso. apply Hnot.
        apply in_map_iff in Cf as (x & Ex & Hx). rewrite <- Ex. apply in_map. now apply (subseq_In _ _ _ S'). }
      cbn [gused]. destruct db as [|[n ty] db].
      * rewrite Am. apply IH; try assumption. now rewrite C, P.
      * destruct (String.eqb n (vf_name f)) eqn:E.
        -- (* the UDT has f here: an admissible selection without f must be empty *)
           assert (u = []) as ->.
           { destruct u as [|x u]; [reflexivity|]. exfalso. cbn [map names_prefix] in P.
             destruct (String.eqb n (vf_name x)) eqn:Ex; [|discriminate].
             apply String.eqb_eq in E, Ex. apply Hnot. rewrite <- E, Ex. apply in_map.
             apply (subseq_In _ _ _ S'). now left. }
           destruct (IH HN' [] db S' ltac:(rewrite C; reflexivity)) as (g' & G & _).
           exists (f :: g'). rewrite G. split; [reflexivity|cbn; lia].
        -- rewrite Am. apply IH; try assumption. now rewrite C, P.
Qed.

Lemma subseq_names_unique fs : NoDup (map vf_name fs) -> forall u u', subseq u fs -> subseq u' fs ->
  map vf_name u = map vf_name u' -> u = u'.
Proof.
  induction fs as [|f fs IH]; intros HN u u' S S' E.
  - inversion S; inversion S'; reflexivity.
  - cbn [map] in HN. inversion HN as [|? ? Hnot HN']; subst.
    inversion S as [|x t l St|x t l St]; inversion S' as [|x' t' l' St'|x' t' l' St']; subst.
    + cbn [map] in E. injection E as E. f_equal. now apply IH.
    + exfalso. destruct u' as [|y u']; [discriminate|]. cbn [map] in E. injection E as E1 _.
      apply Hnot. rewrite E1. apply in_map. apply (subseq_In _ _ _ St'). now left.
    + exfalso. destruct u as [|y u]; [discriminate|]. cbn [map] in E. injection E as E1 _.
      apply Hnot. rewrite <- E1. apply in_map. apply (subseq_In _ _ _ St). now left.
    + now apply IH.
Qed.

Lemma find_none' {A} (p : A -> bool) l : (forall x, In x l -> p x = false) -> find p l = None.
Proof.
  induction l as [|x l IH]; intros H; [reflexivity|]. cbn [find]. rewrite (H x) by now left.
  apply IH. intros y Hy. apply H. now right.
Qed.

Lemma sel_ok_of_gused fs db g : gused fs db = Some g -> ordered_sel_ok fs g db = true.
Proof.
  intros H. destruct (gused_sound _ _ _ H) as (S & M & p & rest & P). unfold ordered_sel_ok. rewrite P, andb_true_r.
  apply forallb_forall. intros f Hf. destruct (vf_am f) eqn:Am; [reflexivity|]. cbn [orb]. apply mem_In.
  destruct (in_dec string_dec (vf_name f) (map vf_name g)) as [I|N]; [exact I|].
  exfalso. assert (X : ~ In f g) by (intros X; apply N; now apply in_map). rewrite (M f Hf X) in Am. discriminate.
Qed.

Lemma doc_ordered_used_gused fs db : NoDup (map vf_name fs) -> doc_ordered_used fs db = gused fs db.
Proof.
  intros HN. unfold doc_ordered_used. cbv zeta.
  set (pred := fun u => ordered_sel_ok fs u db &&
                        forallb (fun u' => negb (ordered_sel_ok fs u' db) || (List.length u' <=? List.length u)%nat) (subseqs fs)).
  destruct (gused fs db) as [g|] eqn:G.
  - destruct (gused_sound _ _ _ G) as (Sg & _ & pg & rg & Pg).
    assert (Pg' : pred g = true).
    { unfold pred. rewrite (sel_ok_of_gused _ _ _ G). cbn [andb]. apply forallb_forall. intros u' Hu'.
      destruct (ordered_sel_ok fs u' db) eqn:OK; [|reflexivity]. cbn [negb orb]. apply Nat.leb_le.
      destruct (gused_complete fs HN u' db (proj1 (subseqs_spec _ _) Hu') OK) as (g2 & G2 & L). congruence. }
    destruct (find pred (subseqs fs)) as [u|] eqn:F.
    + apply find_some in F as [Hu Pu]. unfold pred in Pu. apply andb_true_iff in Pu as [OKu Mu].
      rewrite forallb_forall in Mu. specialize (Mu g (proj2 (subseqs_spec _ _) Sg)).
      rewrite (sel_ok_of_gused _ _ _ G) in Mu. cbn [negb orb] in Mu. apply Nat.leb_le in Mu.
      destruct (gused_complete fs HN u db (proj1 (subseqs_spec _ _) Hu) OKu) as (g2 & G2 & L).
      assert (g2 = g) by congruence. subst g2.
      assert (Len : List.length u = List.length g) by lia.
      f_equal. apply (subseq_names_unique fs HN); [now apply subseqs_spec|assumption|].
      unfold ordered_sel_ok in OKu. apply andb_true_iff in OKu as [_ Pu].
      destruct (names_prefix (map vf_name u) db) as [[pu ru]|] eqn:Nu; [|discriminate].
      destruct (names_prefix_some _ _ _ _ Nu) as [Eu _]. destruct (names_prefix_some _ _ _ _ Pg) as [Eg _].
      rewrite Eu, Eg, !map_length, Len. reflexivity.
    + exfalso. pose proof (find_none _ _ F g (proj2 (subseqs_spec _ _) Sg)) as X. cbv beta in X. congruence.
  - apply find_none'. intros u Hu. unfold pred. destruct (ordered_sel_ok fs u db) eqn:OK; [|reflexivity].
    destruct (gused_complete fs HN u db (proj1 (subseqs_spec _ _) Hu) OK) as (g2 & G2 & _). congruence.
Qed.

Lemma svo_am fs : forall db,
  outcome_of (svo' false fs db) =
  match gused fs db with
  | None => Reject
  | Some used =>
      match names_prefix (map vf_name used) db with
      | None => Reject
      | Some (p, rest) => match all_some (map ser_pair (combine used p)) with
                          | Some cs => Accept (cs, rest)
                          | None => Reject
                          end
      end
  end.
Proof.
  induction fs as [|f fs IH]; intros db; [reflexivity|]. cbn [svo' gused orb].
  destruct db as [|[n ty] db].
  - destruct (vf_am f); cbn [negb]; [apply IH|reflexivity].
  - destruct (String.eqb n (vf_name f)) eqn:E.
    + specialize (IH db). destruct (gused fs db) as [g|]; cbn [option_map].
      * cbn [map names_prefix]. rewrite E.
        destruct (names_prefix (map vf_name g) db) as [[p rest]|].
        -- cbn [combine map all_some]. unfold ser_pair at 1. cbn [fst snd].
           destruct (ser_field (vf_ty f) (vf_val f) ty) as [cl|]; [|reflexivity].
           destruct (svo' false fs db) as [[cs r]|e]; cbn [outcome_of] in *.
           ++ destruct (all_some (map ser_pair (combine g p))); [|discriminate]. now injection IH as -> ->.
           ++ destruct (all_some (map ser_pair (combine g p))); [discriminate|reflexivity].
        -- destruct (ser_field (vf_ty f) (vf_val f) ty) as [cl|]; [|reflexivity].
           destruct (svo' false fs db) as [[cs r]|e]; cbn [outcome_of] in *; [discriminate|reflexivity].
      * destruct (ser_field (vf_ty f) (vf_val f) ty) as [cl|]; [|reflexivity].
        destruct (svo' false fs db) as [[cs r]|e]; cbn [outcome_of] in *; [discriminate|reflexivity].
    + destruct (vf_am f); cbn [negb]; [apply IH|reflexivity].
Qed.

Lemma doc_ser_value_ordered_am_eq d db : doc_ser_value_ordered_am d db =
  match doc_ordered_used (nonskipped (vd_fields d)) db with
  | None => Reject
  | Some used =>
      match names_prefix (map vf_name used) db with
      | None => Reject
      | Some (p, rest) =>
          if vd_forbid d && negb (is_nil rest) then Reject
          else match all_some (map ser_pair (combine used p)) with
               | Some cs => Accept cs
               | None => Reject
               end
      end
  end.
Proof. reflexivity. Qed.

Theorem ser_value_ordered_am_doc d db : vd_snc d = false -> vnodup (vd_fields d) ->
  outcome_of (gen_ser_value_ordered d db) = doc_ser_value_ordered_am d db.
Proof.
  intros Hs Hnd. rewrite doc_ser_value_ordered_am_eq, (doc_ordered_used_gused _ _ Hnd).
  unfold gen_ser_value_ordered. rewrite Hs, svo_loop_acc.
  pose proof (svo_am (nonskipped (vd_fields d)) db) as P.
  destruct (gused (nonskipped (vd_fields d)) db) as [g|].
  - destruct (names_prefix (map vf_name g) db) as [[p rest]|].
    + destruct (svo' false _ db) as [[cs r]|e]; cbn [outcome_of] in P.
      * destruct (all_some (map ser_pair (combine g p))) as [cs'|]; [|discriminate]. injection P as -> ->.
        cbn [app]. destruct (vd_forbid d); cbn [andb]; [|reflexivity]. destruct rest as [|[n t] rest]; reflexivity.
      * destruct (all_some (map ser_pair (combine g p))); [discriminate|]. now destruct (vd_forbid d && _).
    + destruct (svo' false _ db) as [[cs r]|e]; cbn [outcome_of] in P; [discriminate|reflexivity].
  - destruct (svo' false _ db) as [[cs r]|e]; cbn [outcome_of] in P; [discriminate|reflexivity].
Qed.

(* type_check *)
Lemma tvo_am fs : forall idx db,
  match tvo_loop false idx fs db with Ok rest => Some rest | Err _ => None end =
  match gused (nonskipped fs) db with
  | None => None
  | Some used =>
      match names_prefix (map vf_name used) db with
      | None => None
      | Some (p, rest) => if forallb acc_pair (combine used p) then Some rest else None
      end
  end.
Proof.
  unfold nonskipped. induction fs as [|f fs IH]; intros idx db; [reflexivity|].
  cbn [tvo_loop filter]. destruct (vf_skip f); cbn [negb]; [apply IH|]. cbn [gused negb andb].
  destruct db as [|[n ty] db].
  - destruct (vf_am f); [apply IH|reflexivity].
  - rewrite (String.eqb_sym (vf_name f) n). destruct (String.eqb n (vf_name f)) eqn:E; cbn [negb].
    + specialize (IH (S idx) db). destruct (gused _ db) as [g|]; cbn [option_map].
      * cbn [map names_prefix]. rewrite E. destruct (names_prefix (map vf_name g) db) as [[p rest]|].
        -- cbn [combine forallb]. unfold acc_pair at 1. cbn [fst snd].
           destruct (accepts (vf_ty f) ty); [exact IH|reflexivity].
        -- destruct (accepts (vf_ty f) ty); [exact IH|reflexivity].
      * destruct (accepts (vf_ty f) ty); [exact IH|reflexivity].
    + destruct (vf_am f); [apply IH|reflexivity].
Qed.

Lemma gused_len fs : forall db g, gused fs db = Some g ->
  (List.length (filter (fun f => negb (vf_am f)) fs) <= List.length g)%nat /\ (List.length g <= List.length db)%nat.
Proof.
  induction fs as [|f fs IH]; intros db g H; cbn [gused] in H.
  - injection H as <-. cbn. lia.
  - destruct db as [|[n ty] db].
    + destruct (vf_am f) eqn:Am; [|discriminate]. cbn [filter]. rewrite Am. cbn [negb]. now apply IH.
    + destruct (String.eqb n (vf_name f)).
      * destruct (gused fs db) as [g'|] eqn:G; [|discriminate]. injection H as <-.
        destruct (IH _ _ G). cbn [filter List.length]. destruct (negb (vf_am f)); cbn [List.length] in *; lia.
      * destruct (vf_am f) eqn:Am; [|discriminate]. cbn [filter]. rewrite Am. cbn [negb].
        destruct (IH _ _ H). cbn [List.length] in *. lia.
Qed.

Lemma doc_typeck_value_ordered_am_eq d db : doc_typeck_value_ordered_am d db =
  match doc_ordered_used (nonskipped (vd_fields d)) db with
  | None => false
  | Some used =>
      match names_prefix (map vf_name used) db with
      | None => false
      | Some (p, rest) => (negb (vd_forbid d) || is_nil rest) && forallb acc_pair (combine used p)
      end
  end.
Proof. reflexivity. Qed.

Theorem typeck_value_ordered_am_doc d db : vd_snc d = false -> vnodup (vd_fields d) ->
  (gen_typeck_value_ordered d db = Ok tt <-> doc_typeck_value_ordered_am d db = true).
Proof.
  intros Hs Hnd. rewrite doc_typeck_value_ordered_am_eq, (doc_ordered_used_gused _ _ Hnd).
  unfold gen_typeck_value_ordered. rewrite Hs. cbv zeta.
  pose proof (tvo_am (vd_fields d) O db) as P.
  assert (Req : List.length (filter vf_required (vd_fields d))
                = List.length (filter (fun f => negb (vf_am f)) (nonskipped (vd_fields d)))).
  { unfold nonskipped, vf_required. clear. induction (vd_fields d) as [|f l IH]; [reflexivity|].
    cbn [filter]. destruct (vf_skip f); cbn [negb andb]; [exact IH|].
    cbn [filter]. destruct (negb (vf_am f)); cbn [List.length]; now rewrite IH. }
  destruct (gused (nonskipped (vd_fields d)) db) as [g|] eqn:G.
  - destruct (gused_len _ _ _ G) as [L1 L2].
    assert (Pre : (List.length db <? List.length (filter vf_required (vd_fields d)))%nat = false)
      by (apply Nat.ltb_ge; lia).
    rewrite Pre. destruct (names_prefix (map vf_name g) db) as [[p rest]|].
    + destruct (tvo_loop false 0 (vd_fields d) db) as [r|e].
      * destruct (forallb acc_pair (combine g p)); [|discriminate]. injection P as ->. rewrite andb_true_r.
        destruct (vd_forbid d); cbn [negb orb]; [|tauto].
        destruct rest as [|[n t] rest]; cbn [is_nil]; split; congruence.
      * destruct (forallb acc_pair (combine g p)); [discriminate|]. rewrite andb_false_r. split; discriminate.
    + destruct (tvo_loop false 0 (vd_fields d) db); [discriminate|]. split; discriminate.
  - destruct (List.length db <? _)%nat; [split; discriminate|].
    destruct (tvo_loop false 0 (vd_fields d) db); [discriminate|]. split; discriminate.
Qed.

(* deserialize *)
Lemma gused_names fs : forall db g, gused fs db = Some g ->
  map vf_name g = map fst (firstn (List.length g) db).
Proof.
  intros db g H. destruct (gused_sound _ _ _ H) as (_ & _ & p & rest & P).
  destruct (names_prefix_some _ _ _ _ P) as [E _]. now rewrite map_length in E.
Qed.

Lemma seq_cons_outcome (x : cell) (r : result err (list cell)) (o : option (list cell)) :
  outcome_of r = match o with Some vs => Accept vs | None => Reject end -> r <> Err EPanic ->
  outcome_of (match r with Err e => Err e | Ok xs => Ok (x :: xs) end) =
    match (match o with Some xs => Some (x :: xs) | None => None end) with Some vs => Accept vs | None => Reject end /\
  (match r with Err e => Err e | Ok xs => Ok (x :: xs) end) <> Err EPanic.
Proof.
  intros H1 H2. destruct r as [xs|e], o as [ys|]; cbn [outcome_of] in *; try discriminate.
  - injection H1 as ->. split; [reflexivity|discriminate].
  - split; [reflexivity|]. congruence.
Qed.

Lemma dvo_am fs : vnodup fs -> forall its g, gused (nonskipped fs) (map fst its) = Some g ->
  outcome_of (dvo_loop false fs its) =
    match all_some (map (fun f => doc_field_value_m f (firstn (List.length g) its)) fs) with
    | Some vs => Accept vs
    | None => Reject
    end /\
  dvo_loop false fs its <> Err EPanic.
Proof.
  unfold nonskipped. induction fs as [|f fs IH]; intros Hnd its g G; [split; [reflexivity|discriminate]|].
  cbn [dvo_loop map all_some filter] in *. unfold doc_field_value_m at 1.
  destruct (vf_skip f) eqn:Sf; cbn [negb] in G.
  - destruct (IH (vnodup_tail _ _ Hnd) its g G) as [I1 I2]. now apply seq_cons_outcome.
  - assert (Other : forall h, In h fs -> vf_skip h = false -> String.eqb (vf_name f) (vf_name h) = false).
    { intros h Hh Sh. destruct (String.eqb (vf_name f) (vf_name h)) eqn:E; [|reflexivity].
      assert (B : vbound (vf_name h) f = true) by (unfold vbound; now rewrite Sf, E).
      pose proof (vnodup_head_unique f fs _ Hnd B h Hh) as X. unfold vbound in X.
      rewrite Sh, String.eqb_refl in X. discriminate. }
    assert (Absent : forall g0 its0, gused (filter (fun f0 => negb (vf_skip f0)) fs) (map fst its0) = Some g0 ->
                     db_cell (vf_name f) (firstn (List.length g0) its0) = None).
    { intros g0 its0 G0. apply db_cell_none. apply not_true_is_false. intros M. apply mem_In in M.
      rewrite <- firstn_map, <- (gused_names _ _ _ G0) in M.
      destruct (gused_sound _ _ _ G0) as (S0 & _). apply in_map_iff in M as (h & Eh & Hh).
      pose proof (subseq_In _ _ _ S0 Hh) as Hf. apply filter_In in Hf as [Hf Sh]. apply negb_true_iff in Sh.
      pose proof (Other h Hf Sh) as X. rewrite Eh, String.eqb_refl in X. discriminate. }
    cbn [gused] in G. destruct its as [|[[n ty] v] its].
    + cbn [map] in G. destruct (vf_am f) eqn:Am; [|discriminate].
      erewrite Absent by exact G. destruct (IH (vnodup_tail _ _ Hnd) [] g G) as [I1 I2]. now apply seq_cons_outcome.
    + cbn [map fst orb] in G. rewrite (String.eqb_sym (vf_name f) n). cbn [orb].
      destruct (String.eqb n (vf_name f)) eqn:E.
      * destruct (gused _ (map fst its)) as [g'|] eqn:G'; [|discriminate]. injection G as <-.
        cbn [List.length firstn db_cell]. rewrite E.
        rewrite (map_ext_in _ (fun h => doc_field_value_m h (firstn (List.length g') its))).
        2:{ intros h Hh. unfold doc_field_value_m. destruct (vf_skip h) eqn:Sh; [reflexivity|].
            cbn [db_cell]. apply String.eqb_eq in E. subst n. now rewrite (Other h Hh Sh). }
        destruct (deser_with_default f v) as [x|]; [|split; [reflexivity|discriminate]].
        destruct (IH (vnodup_tail _ _ Hnd) its g' G') as [I1 I2]. now apply seq_cons_outcome.
      * destruct (vf_am f) eqn:Am; [|discriminate]. erewrite Absent by exact G.
        destruct (IH (vnodup_tail _ _ Hnd) (((n, ty), v) :: its) g G) as [I1 I2]. now apply seq_cons_outcome.
Qed.

Theorem deser_value_ordered_am_doc d db cells : vd_snc d = false -> vnodup (vd_fields d) ->
  doc_typeck_value_ordered_am d db = true ->
  outcome_of (gen_deser_value_ordered d db cells) = doc_deser_value_ordered_am d db cells /\
  gen_deser_value_ordered d db cells <> Err EPanic.
Proof.
  intros Hs Hnd T. unfold doc_deser_value_ordered_am. rewrite T.
  rewrite doc_typeck_value_ordered_am_eq in T. rewrite (doc_ordered_used_gused _ _ Hnd) in *.
  destruct (gused (nonskipped (vd_fields d)) db) as [g|] eqn:G; [|discriminate].
  unfold gen_deser_value_ordered. rewrite Hs.
  assert (G' : gused (nonskipped (vd_fields d)) (map fst (udt_items db cells)) = Some g) by now rewrite udt_items_fst.
  destruct (dvo_am _ Hnd _ _ G') as [D1 D2]. split; [|assumption]. rewrite D1.
  assert (E : firstn (List.length g) (udt_items db cells) = spec_items (firstn (List.length g) db) cells).
  { rewrite spec_items_udt. clear. revert db cells. induction (List.length g) as [|k IH]; intros db cells; [reflexivity|].
    destruct db as [|c db]; [reflexivity|]. destruct cells as [|v cells]; cbn [udt_items firstn]; f_equal; apply IH. }
  rewrite E. now rewrite (map_ext _ _ (fun f => doc_field_value_eq f (spec_items (firstn (List.length g) db) cells))).
Qed.


(* ------------------------------------------------------------ by-name SerializeValue never panics *)
Theorem ser_value_by_name_nopanic d db : vnodup (vd_fields d) -> gen_ser_value_by_name d db <> Err EPanic.
Proof.
  intros Hnd0. unfold gen_ser_value_by_name. cbv zeta.
  set (fs := nonskipped (vd_fields d)).
  assert (Hnd : vnodup fs) by now apply nonskipped_vnodup.
  set (st0 := {| sv_flags := map (fun _ => false) fs; sv_remaining := List.length fs;
                 sv_skipped := 0%nat; sv_out := [] |}).
  assert (Hl : List.length (sv_flags st0) = List.length fs) by (cbn; apply map_length).
  assert (Hr : sv_remaining st0 = count_false (sv_flags st0)).
  { cbn. unfold count_false. clear. induction fs; simpl; congruence. }
  pose proof (sv_loop_char (vd_forbid d) fs db Hnd st0 Hl Hr) as L.
  destruct (existsb (sv_bad (vd_forbid d) fs) db).
  - destruct L as [e [-> Ne]]. congruence.
  - rewrite L. cbn [sv_remaining sv_flags sv_out]. destruct (0 <? _)%nat; [|discriminate].
    destruct (sv_first_missing fs _); discriminate.
Qed.

(* ------------------------------------------------------------ enforce_order + allow_missing: the documented
   (strict) table and the finding *)
Theorem ser_value_ordered_strict_doc d db : vd_snc d = false -> vnodup (vd_fields d) ->
  ordered_am_drops d db = false ->
  outcome_of (gen_ser_value_ordered d db) = doc_ser_value_ordered_strict d db.
Proof. intros Hs Hnd K. unfold doc_ser_value_ordered_strict. rewrite K. now apply ser_value_ordered_am_doc. Qed.

Theorem typeck_value_ordered_strict_doc d db : vd_snc d = false -> vnodup (vd_fields d) ->
  ordered_am_drops d db = false ->
  (gen_typeck_value_ordered d db = Ok tt <-> doc_typeck_value_ordered_strict d db = true).
Proof.
  intros Hs Hnd K. unfold doc_typeck_value_ordered_strict. rewrite K. cbn [negb andb].
  now apply typeck_value_ordered_am_doc.
Qed.

Theorem deser_value_ordered_strict_doc d db cells : vd_snc d = false -> vnodup (vd_fields d) ->
  ordered_am_drops d db = false -> doc_typeck_value_ordered_strict d db = true ->
  outcome_of (gen_deser_value_ordered d db cells) = doc_deser_value_ordered_strict d db cells /\
  gen_deser_value_ordered d db cells <> Err EPanic.
Proof.
  intros Hs Hnd K T. unfold doc_typeck_value_ordered_strict, doc_deser_value_ordered_strict in *.
  rewrite K in *. cbn [negb andb] in T. now apply deser_value_ordered_am_doc.
Qed.

(* the witness: struct { #[allow_missing] a: i32 = -1, b: i32 = 7 }, enforce_order; UDT (b int, a int) *)
Definition ordered_am_witness : vdesc :=
  {| vd_ordered := true; vd_forbid := false; vd_snc := false;
     vd_fields := [ {| vf_ident := "a"; vf_rename := None; vf_skip := false; vf_am := true; vf_dwn := false;
                       vf_ty := RInt; vf_val := Some [255;255;255;255] |};
                    {| vf_ident := "b"; vf_rename := None; vf_skip := false; vf_am := false; vf_dwn := false;
                       vf_ty := RInt; vf_val := Some [0;0;0;7] |} ] |}.

Theorem ordered_precise_refuted : exists d db cells,
  vd_ordered d = true /\ vd_snc d = false /\ vdesc_valid d = true /\ vvals_ok d = true /\
  Permutation (map fst db) (map vf_name (nonskipped (vd_fields d))) /\
  map fst db <> map vf_name (nonskipped (vd_fields d)) /\
  ordered_am_drops d db = true /\
  gen_typeck_value_ordered d db = Ok tt /\ doc_typeck_value_ordered_strict d db = false /\
  gen_ser_value_ordered d db = Ok cells /\ doc_ser_value_ordered_strict d db = Reject /\
  gen_deser_value_ordered d db cells = Ok [Some [0;0;0;0]; Some [0;0;0;7]].
Proof.
  exists ordered_am_witness, [("b", DInt); ("a", DInt)]%string, [Some [0;0;0;7]].
  repeat split; try (vm_compute; reflexivity).
  - cbn. apply perm_swap.
  - cbn. discriminate.
Qed.

(* ------------------------------------------------------------ enforce_order, names checked: precise round trip *)
Definition ordered_back (used : list vfield) (f : vfield) : cell :=
  if vf_skip f then default_cell (vf_ty f)
  else if mem (vf_name f) (map vf_name used) then vf_val f else default_cell (vf_ty f).

Lemma db_cell_combine_used used : NoDup (map vf_name used) -> forall p f,
  map fst p = map vf_name used -> In f used ->
  db_cell (vf_name f) (combine p (map vf_val used)) = Some (vf_val f).
Proof.
  induction used as [|g used IH]; intros HN p f E Hin; [contradiction|].
  destruct p as [|[n t] p]; [discriminate|]. cbn [map fst] in E. injection E as En E. subst n.
  cbn [map combine db_cell]. cbn [map] in HN. inversion HN as [|? ? Hnot HN']; subst.
  destruct Hin as [->|Hin]; [now rewrite String.eqb_refl|].
  destruct (String.eqb (vf_name g) (vf_name f)) eqn:Eq; [|now apply IH].
  exfalso. apply String.eqb_eq in Eq. apply Hnot. rewrite Eq. now apply in_map.
Qed.

Theorem roundtrip_value_ordered_precise d db cells used : vd_snc d = false -> vnodup (vd_fields d) ->
  vvals_ok d = true -> doc_ordered_used (nonskipped (vd_fields d)) db = Some used ->
  gen_ser_value_ordered d db = Ok cells -> gen_typeck_value_ordered d db = Ok tt ->
  gen_deser_value_ordered d db cells = Ok (map (ordered_back used) (vd_fields d)).
Proof.
  intros Hs Hnd Hv U S T.
  pose proof (ser_value_ordered_am_doc d db Hs Hnd) as DS. rewrite S, doc_ser_value_ordered_am_eq, U in DS.
  cbn [outcome_of] in DS.
  apply (typeck_value_ordered_am_doc d db Hs Hnd) in T. pose proof T as T0.
  destruct (deser_value_ordered_am_doc d db cells Hs Hnd T) as [DD _].
  unfold doc_deser_value_ordered_am in DD. rewrite T0, U in DD. apply outcome_accept. rewrite DD. clear DD.
  rewrite (doc_ordered_used_gused _ _ Hnd) in U.
  destruct (gused_sound _ _ _ U) as (Sub & _ & _).
  destruct (names_prefix (map vf_name used) db) as [[p rest]|] eqn:N; [|discriminate DS].
  destruct (vd_forbid d && negb (is_nil rest)); [discriminate DS|].
  destruct (all_some (map ser_pair (combine used p))) as [cs|] eqn:AS; [|discriminate DS]. injection DS as ->.
  destruct (names_prefix_spec _ _ _ _ N) as [Edb Ep]. destruct (names_prefix_some _ _ _ _ N) as [_ Lp].
  rewrite map_length in Lp.
  (* the cells are the values of the bound fields *)
  assert (Ecs : cs = map vf_val used).
  { clear -AS Lp. revert p cs AS Lp. induction used as [|g used IH]; intros [|c p] cs AS Lp; try discriminate.
    - cbn in AS. now injection AS as <-.
    - cbn [combine map all_some] in AS. unfold ser_pair at 1 in AS. cbn [fst snd] in AS.
      destruct (ser_field (vf_ty g) (vf_val g) (snd c)) as [cl|] eqn:SF; [|discriminate].
      destruct (all_some (map ser_pair (combine used p))) as [cs'|] eqn:AS'; [|discriminate]. injection AS as <-.
      apply ser_field_some in SF. subst cl. cbn [map]. f_equal. apply (IH p); [assumption|cbn in Lp; congruence]. }
  subst cs.
  assert (Efirst : firstn (List.length used) db = p).
  { rewrite Edb, <- Lp, firstn_app, Nat.sub_diag, firstn_all. cbn [firstn]. now rewrite app_nil_r. }
  rewrite Efirst.
  assert (Eit : spec_items p (map vf_val used) = combine p (map vf_val used)).
  { unfold spec_items. rewrite map_length, Lp, Nat.sub_diag. cbn [repeat]. now rewrite app_nil_r. }
  rewrite Eit.
  assert (NDu : NoDup (map vf_name used)).
  { clear -Sub Hnd. unfold vnodup in Hnd. revert Sub Hnd. generalize (nonskipped (vd_fields d)) as fs.
    intros fs Sub. induction Sub as [|x l m S IH|x l m S IH]; intros HN; [constructor| |].
    - cbn [map] in *. inversion HN as [|? ? Hnot HN']; subst. constructor; [|now apply IH].
      intros Hin. apply Hnot. apply in_map_iff in Hin as (y & Ey & Hy). rewrite <- Ey. apply in_map.
      now apply (subseq_In _ _ _ S).
    - cbn [map] in HN. inversion HN; subst. now apply IH. }
  rewrite (all_some_map _ (ordered_back used)); [reflexivity|].
  intros f Hf. unfold doc_field_value, ordered_back. destruct (vf_skip f) eqn:Sf; [reflexivity|].
  destruct (mem (vf_name f) (map vf_name used)) eqn:M.
  - apply mem_In in M. apply in_map_iff in M as (g & Eg & Hg).
    assert (g = f).
    { pose proof (subseq_In _ _ _ Sub Hg) as Hgf. unfold nonskipped in Hgf. apply filter_In in Hgf as [Hgf Sg].
      apply negb_true_iff in Sg. pose proof (vfind_self _ _ Hnd Hgf Sg) as F1.
      pose proof (vfind_self _ _ Hnd Hf Sf) as F2. rewrite Eg in F1. congruence. }
    subst g. erewrite db_cell_combine_used by eassumption. rewrite doc_null_rule_v.
    apply deser_back. unfold vvals_ok in Hv. rewrite forallb_forall in Hv. now apply Hv.
  - assert (X : db_cell (vf_name f) (combine p (map vf_val used)) = None).
    { apply db_cell_none. apply not_true_is_false. intros M'. apply mem_In in M'.
      assert (E : map fst (map fst (combine p (map vf_val used))) = map fst p).
      { clear -Lp. revert p Lp. induction used as [|g used IH]; intros [|c p] Lp; try discriminate; [reflexivity|].
        cbn [map combine fst]. f_equal. apply IH. cbn in Lp. congruence. }
      rewrite E, Ep in M'. apply mem_In in M'. congruence. }
    now rewrite X.
Qed.

(* ------------------------------------------------------------ the documented relation = the strict table *)

Definition drops (fs : list vfield) (db : list dbfield) (u : list vfield) : bool :=
  existsb (fun f => vf_am f && mem (vf_name f) (map fst db) && negb (mem (vf_name f) (map vf_name u))) fs.

Lemma existsb_false_impl {A} (p q : A -> bool) l :
  (forall x, In x l -> p x = true -> q x = true) -> existsb q l = false -> existsb p l = false.
Proof.
  intros H Q. apply not_true_is_false. intros P. apply existsb_exists in P as (x & Hx & Px).
  assert (existsb q l = true) by (apply existsb_exists; exists x; auto). congruence.
Qed.

Lemma ord_bind_sound fs db u p rest : ord_bind fs db u p rest ->
  gused fs db = Some u /\ names_prefix (map vf_name u) db = Some (p, rest) /\ drops fs db u = false.
Proof.
  induction 1 as [rest|f fs ty db u p rest _ (G & N & D)|f fs db u p rest Am Nin _ (G & N & D)].
  - repeat split; destruct rest; reflexivity.
  - cbn [gused map names_prefix]. rewrite String.eqb_refl, G, N. repeat split.
    unfold drops in *. cbn [existsb map]. unfold mem at 2. cbn [existsb]. rewrite String.eqb_refl.
    cbn [orb negb]. rewrite andb_false_r. cbn [orb].
    revert D. apply existsb_false_impl. intros g _ T.
    apply andb_true_iff in T as [T T3]. apply andb_true_iff in T as [T1 T2]. apply negb_true_iff in T3.
    unfold mem in *. cbn [existsb fst] in *. apply orb_false_iff in T3 as [E T3]. rewrite E in T2. cbn [orb] in T2.
    now rewrite T1, T2, T3.
  - assert (G' : gused (f :: fs) db = Some u).
    { cbn [gused]. destruct db as [|[n ty] db]; [now rewrite Am|].
      destruct (String.eqb n (vf_name f)) eqn:E; [|now rewrite Am].
      exfalso. apply Nin. left. cbn. apply String.eqb_eq in E. now symmetry. }
    repeat split; try assumption. unfold drops in *. cbn [existsb]. rewrite D, orb_false_r.
    assert (M : mem (vf_name f) (map fst db) = false).
    { apply not_true_is_false. intros M. now apply mem_In in M. }
    now rewrite M, andb_false_r.
Qed.

Lemma ord_bind_complete fs : NoDup (map vf_name fs) -> forall db u,
  gused fs db = Some u -> drops fs db u = false -> exists p rest, ord_bind fs db u p rest.
Proof.
  induction fs as [|f fs IH]; intros HN db u G D.
  - cbn in G. injection G as <-. exists [], db. constructor.
  - cbn [map] in HN. inversion HN as [|? ? Hnot HN']; subst.
    unfold drops in D. cbn [existsb] in D. apply orb_false_iff in D as [Df D]. fold (drops fs db u) in D.
    (* a field passed over is absent from the UDT *)
    assert (Skip : vf_am f = true -> gused fs db = Some u -> exists p rest, ord_bind (f :: fs) db u p rest).
    { intros Am G'. destruct (IH HN' db u G' D) as (p & rest & B). exists p, rest.
      apply ob_missing; try assumption. intros Hin. apply mem_In in Hin. rewrite Am, Hin in Df. cbn [andb] in Df.
      apply negb_false_iff in Df. apply mem_In in Df. apply in_map_iff in Df as (g & Eg & Hg).
      destruct (gused_sound _ _ _ G') as (S & _). apply Hnot. rewrite <- Eg. apply in_map.
      now apply (subseq_In _ _ _ S). }
    cbn [gused] in G. destruct db as [|[n ty] db].
    + destruct (vf_am f) eqn:Am; [|discriminate]. now apply Skip.
    + destruct (String.eqb n (vf_name f)) eqn:E.
      * destruct (gused fs db) as [u'|] eqn:G'; [|discriminate]. injection G as <-.
        apply String.eqb_eq in E. subst n.
        assert (D' : drops fs db u' = false).
        { unfold drops in *. revert D. apply existsb_false_impl. intros g Hg T.
          apply andb_true_iff in T as [T T3]. apply andb_true_iff in T as [T1 T2]. apply negb_true_iff in T3.
          assert (Ne : String.eqb (vf_name g) (vf_name f) = false).
          { apply String.eqb_neq. intros Eq. apply Hnot. rewrite <- Eq. now apply in_map. }
          unfold mem in *. cbn [map fst existsb]. now rewrite T1, T2, Ne, T3, orb_true_r. }
        destruct (IH HN' db u' G' D') as (p & rest & B). exists ((vf_name f, ty) :: p), rest. now constructor.
      * destruct (vf_am f) eqn:Am; [|discriminate]. now apply Skip.
Qed.

Lemma ordered_am_drops_gused d db : vd_ordered d = true -> vd_snc d = false -> vnodup (vd_fields d) ->
  ordered_am_drops d db =
  match gused (nonskipped (vd_fields d)) db with
  | None => false
  | Some u => drops (nonskipped (vd_fields d)) db u
  end.
Proof.
  intros Ho Hs Hnd. unfold ordered_am_drops. cbv zeta. rewrite Ho, Hs, (doc_ordered_used_gused _ _ Hnd).
  reflexivity.
Qed.

Lemma forallb_combine_Forall2 {A B} (q : A * B -> bool) (l : list A) (m : list B) :
  List.length l = List.length m ->
  (forallb q (combine l m) = true <-> Forall2 (fun a b => q (a, b) = true) l m).
Proof.
  revert m; induction l as [|a l IH]; intros [|b m] H; cbn in *; try discriminate.
  - split; [constructor|reflexivity].
  - rewrite andb_true_iff, IH by congruence. split.
    + intros [H1 H2]. now constructor.
    + intros F. inversion F; subst. tauto.
Qed.

Lemma all_some_Forall2 {A B} (g : A -> option B) l cs :
  all_some (map g l) = Some cs <-> Forall2 (fun x c => g x = Some c) l cs.
Proof.
  revert cs; induction l as [|x l IH]; intros cs; cbn [map all_some].
  - split; [intros H; injection H as <-; constructor|intros F; now inversion F].
  - destruct (g x) as [y|] eqn:E.
    + destruct (all_some (map g l)) as [ys|] eqn:AS.
      * split; [intros H; injection H as <-; constructor; [assumption|now apply IH]|].
        intros F. inversion F as [|? c ? cs' Hc Hcs]; subst. apply IH in Hcs. congruence.
      * split; [discriminate|]. intros F. inversion F as [|? c ? cs' Hc Hcs]; subst. apply IH in Hcs. discriminate.
    + split; [discriminate|]. intros F. inversion F; subst. congruence.
Qed.

Lemma Forall2_length' {A B} (R : A -> B -> Prop) l m : Forall2 R l m -> List.length l = List.length m.
Proof. induction 1; cbn; congruence. Qed.

Theorem typeck_ordered_strict_rel d db : vd_ordered d = true -> vd_snc d = false -> vnodup (vd_fields d) ->
  (doc_typeck_value_ordered_strict d db = true <-> doc_rel_typeck_ordered d db).
Proof.
  intros Ho Hs Hnd. unfold doc_typeck_value_ordered_strict, doc_rel_typeck_ordered.
  rewrite (ordered_am_drops_gused d db Ho Hs Hnd), doc_typeck_value_ordered_am_eq, (doc_ordered_used_gused _ _ Hnd).
  set (fs := nonskipped (vd_fields d)) in *. unfold vnodup in Hnd. fold fs in Hnd. split.
  - destruct (gused fs db) as [u|] eqn:G; [|rewrite andb_false_r; discriminate].
    intros H. apply andb_true_iff in H as [D T]. apply negb_true_iff in D.
    destruct (names_prefix (map vf_name u) db) as [[p rest]|] eqn:N; [|discriminate].
    apply andb_true_iff in T as [X A].
    destruct (ord_bind_complete fs Hnd db u G D) as (p' & rest' & B).
    destruct (ord_bind_sound _ _ _ _ _ B) as (_ & N' & _). rewrite N in N'. injection N' as <- <-.
    exists u, p, rest. split; [assumption|]. split.
    + intros Fb. rewrite Fb in X. cbn [negb orb] in X. now destruct rest.
    + destruct (names_prefix_some _ _ _ _ N) as [_ L]. rewrite map_length in L.
      apply (forallb_combine_Forall2 acc_pair u p (eq_sym L)) in A. exact A.
  - intros (u & p & rest & B & X & A). destruct (ord_bind_sound _ _ _ _ _ B) as (G & N & D).
    rewrite G, D, N. cbn [negb andb]. apply andb_true_iff. split.
    + unfold excess_ok in X. destruct (vd_forbid d); [now rewrite (X eq_refl)|reflexivity].
    + apply (forallb_combine_Forall2 acc_pair u p (Forall2_length' _ _ _ A)). exact A.
Qed.

Theorem ser_ordered_strict_rel d db cells : vd_ordered d = true -> vd_snc d = false -> vnodup (vd_fields d) ->
  (doc_ser_value_ordered_strict d db = Accept cells <-> doc_rel_ser_ordered d db cells).
Proof.
  intros Ho Hs Hnd. unfold doc_ser_value_ordered_strict, doc_rel_ser_ordered.
  rewrite (ordered_am_drops_gused d db Ho Hs Hnd), doc_ser_value_ordered_am_eq, (doc_ordered_used_gused _ _ Hnd).
  set (fs := nonskipped (vd_fields d)) in *. unfold vnodup in Hnd. fold fs in Hnd. split.
  - destruct (gused fs db) as [u|] eqn:G; [|discriminate].
    destruct (drops fs db u) eqn:D; [discriminate|].
    destruct (names_prefix (map vf_name u) db) as [[p rest]|] eqn:N; [|discriminate].
    destruct (vd_forbid d && negb (is_nil rest)) eqn:X; [discriminate|].
    destruct (all_some (map ser_pair (combine u p))) as [cs|] eqn:AS; [|discriminate]. intros H. injection H as <-.
    destruct (ord_bind_complete fs Hnd db u G D) as (p' & rest' & B).
    destruct (ord_bind_sound _ _ _ _ _ B) as (_ & N' & _). rewrite N in N'. injection N' as <- <-.
    exists u, p, rest. split; [assumption|]. split.
    + intros Fb. rewrite Fb in X. cbn [andb] in X. apply negb_false_iff in X. now destruct rest.
    + now apply all_some_Forall2 in AS.
  - intros (u & p & rest & B & X & A). destruct (ord_bind_sound _ _ _ _ _ B) as (G & N & D).
    rewrite G, D, N.
    assert (E : vd_forbid d && negb (is_nil rest) = false).
    { unfold excess_ok in X. destruct (vd_forbid d); [now rewrite (X eq_refl)|reflexivity]. }
    rewrite E. apply (all_some_Forall2 ser_pair) in A. now rewrite A.
Qed.

(* what the generated type check accepts, without a class premise: the documented relation, or an
   input of the known class F24 *)
Theorem typeck_ordered_characterised d db : vd_ordered d = true -> vd_snc d = false -> vnodup (vd_fields d) ->
  (gen_typeck_value_ordered d db = Ok tt <->
   doc_rel_typeck_ordered d db \/ (ordered_am_drops d db = true /\ doc_typeck_value_ordered_am d db = true)).
Proof.
  intros Ho Hs Hnd. rewrite (typeck_value_ordered_am_doc d db Hs Hnd), <- (typeck_ordered_strict_rel d db Ho Hs Hnd).
  unfold doc_typeck_value_ordered_strict. destruct (ordered_am_drops d db), (doc_typeck_value_ordered_am d db); cbn; tauto.
Qed.

Theorem ser_ordered_documented d db : vd_ordered d = true -> vd_snc d = false -> vnodup (vd_fields d) ->
  ordered_am_drops d db = false ->
  forall cells, gen_ser_value_ordered d db = Ok cells <-> doc_rel_ser_ordered d db cells.
Proof.
  intros Ho Hs Hnd K cells. rewrite <- (ser_ordered_strict_rel d db cells Ho Hs Hnd).
  rewrite <- (ser_value_ordered_strict_doc d db Hs Hnd K).
  destruct (gen_ser_value_ordered d db); cbn [outcome_of]; split; congruence.
Qed.

Theorem ser_ordered_characterised d db cells : vd_ordered d = true -> vd_snc d = false -> vnodup (vd_fields d) ->
  (gen_ser_value_ordered d db = Ok cells <->
   doc_rel_ser_ordered d db cells \/ (ordered_am_drops d db = true /\ doc_ser_value_ordered_am d db = Accept cells)).
Proof.
  intros Ho Hs Hnd. rewrite <- (ser_ordered_strict_rel d db cells Ho Hs Hnd).
  pose proof (ser_value_ordered_am_doc d db Hs Hnd) as A. unfold doc_ser_value_ordered_strict.
  destruct (ordered_am_drops d db); destruct (gen_ser_value_ordered d db) as [cs|e]; cbn [outcome_of] in A; rewrite <- A; split.
  - intros H. injection H as ->. now right.
  - intros [H|[_ H]]; [discriminate|congruence].
  - discriminate.
  - intros [H|[_ H]]; discriminate.
  - intros H. injection H as ->. now left.
  - intros [H|[H _]]; [congruence|discriminate].
  - discriminate.
  - intros [H|[H _]]; discriminate.
Qed.

(* the documented binding is unique *)
Theorem ord_bind_unique fs db u p rest u' p' rest' :
  ord_bind fs db u p rest -> ord_bind fs db u' p' rest' -> u = u' /\ p = p' /\ rest = rest'.
Proof.
  intros B B'. destruct (ord_bind_sound _ _ _ _ _ B) as (G & N & _).
  destruct (ord_bind_sound _ _ _ _ _ B') as (G' & N' & _). rewrite G in G'. injection G' as <-.
  rewrite N in N'. injection N' as <- <-. repeat split.
Qed.
