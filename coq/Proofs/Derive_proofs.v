(* Proofs about Model/Derive.v (property C16). *)
From SV Require Import Base.Prelude Base.Bytes Model.Derive.
From Coq Require Import Ascii String Permutation.
Open Scope N_scope.

(* ------------------------------------------------------------ generic helpers *)

Lemma eqb_refl' s : String.eqb s s = true.
Proof. apply String.eqb_refl. Qed.

Lemma mem_In n l : mem n l = true <-> In n l.
Proof.
  unfold mem. rewrite existsb_exists. split.
  - intros [x [Hx E]]. apply String.eqb_eq in E. now subst.
  - intros H. exists n. split; [assumption|apply String.eqb_refl].
Qed.

Lemma nodupb_NoDup l : nodupb l = true <-> NoDup l.
Proof.
  induction l as [|x l IH]; simpl.
  - split; [constructor|reflexivity].
  - rewrite andb_true_iff, negb_true_iff, IH. split.
    + intros [H1 H2]. constructor; [|assumption].
      intros Hin. apply mem_In in Hin. unfold mem in Hin. congruence.
    + intros H. inversion H as [|? ? Hn Hd]; subst. split; [|assumption].
      destruct (existsb (String.eqb x) l) eqn:E; [|reflexivity].
      exfalso. apply Hn. apply mem_In. exact E.
Qed.

(* ------------------------------------------------------------ value fields: lookup *)

Definition vbound (n : string) (f : vfield) : bool := negb (vf_skip f) && String.eqb (vf_name f) n.

Lemma vfind_nonskipped n fs : vfind n (nonskipped fs) = vfind n fs.
Proof.
  unfold vfind, nonskipped. induction fs as [|f fs IH]; [reflexivity|].
  cbn [filter find]. destruct (vf_skip f) eqn:S; cbn [negb andb].
  - exact IH.
  - cbn [find]. rewrite S. cbn [negb andb]. destruct (String.eqb (vf_name f) n); [reflexivity|exact IH].
Qed.

Lemma nonskipped_all fs : forallb (fun f => negb (vf_skip f)) (nonskipped fs) = true.
Proof.
  unfold nonskipped. apply forallb_forall. intros x Hx. apply filter_In in Hx. tauto.
Qed.

(* the per-field state after the arm for [n] ran: every entry whose field is bound to [n] gets [nw] *)
Fixpoint vmark {S : Type} (n : string) (fs : list vfield) (st : list S) (nw : S) : list S :=
  match fs, st with
  | f :: fs', s :: st' => (if vbound n f then nw else s) :: vmark n fs' st' nw
  | _, _ => []
  end.

Lemma vmark_length {S} n fs (st : list S) nw : List.length st = List.length fs ->
  List.length (vmark n fs st nw) = List.length fs.
Proof.
  revert st; induction fs as [|f fs IH]; intros [|s st] H; simpl in *; try congruence.
  f_equal. apply IH. congruence.
Qed.

(* names of the non-skipped fields are pairwise different *)
Definition vnodup (fs : list vfield) : Prop := NoDup (map vf_name (nonskipped fs)).

Lemma vnodup_tail f fs : vnodup (f :: fs) -> vnodup fs.
Proof.
  unfold vnodup, nonskipped. cbn [filter]. destruct (negb (vf_skip f)); [|tauto].
  cbn [map]. intros H. now inversion H.
Qed.

Lemma vnodup_head_unique f fs n : vnodup (f :: fs) -> vbound n f = true ->
  forall g, In g fs -> vbound n g = false.
Proof.
  unfold vnodup, nonskipped, vbound. cbn [filter].
  intros H Hb g Hg. apply andb_true_iff in Hb as [Hs Hn]. rewrite Hs in H. cbn [map] in H.
  inversion H as [|? ? Hnot _]; subst.
  destruct (vf_skip g) eqn:Sg; [reflexivity|]. cbn [negb andb].
  destruct (String.eqb (vf_name g) n) eqn:E; [|reflexivity].
  exfalso. apply Hnot. apply String.eqb_eq in Hn, E. rewrite Hn, <- E.
  apply in_map. apply filter_In. split; [assumption|]. now rewrite Sg.
Qed.

Lemma vmark_nobound {S} n fs (st : list S) nw : List.length st = List.length fs ->
  (forall g, In g fs -> vbound n g = false) -> vmark n fs st nw = st.
Proof.
  revert st; induction fs as [|f fs IH]; intros [|s st] H Hn; simpl in *; try congruence.
  rewrite (Hn f) by now left. f_equal. apply IH; [congruence|]. intros g Hg. apply Hn. now right.
Qed.

Lemma vfind_none n fs : vfind n fs = None <-> (forall g, In g fs -> vbound n g = false).
Proof.
  unfold vfind. split.
  - intros H g Hg. apply (find_none _ _ H g Hg).
  - intros H. induction fs as [|f fs IH]; [reflexivity|]. cbn [find].
    fold (vbound n f). rewrite (H f) by now left. apply IH. intros g Hg. apply H. now right.
Qed.

(* vmatch agrees with vfind and, under name uniqueness, with vmark *)
Lemma vmatch_none {S} n fs (st : list S) nw : List.length st = List.length fs ->
  (vmatch n fs st nw = None <-> vfind n fs = None).
Proof.
  unfold vfind. revert st; induction fs as [|f fs IH]; intros [|s st] H; simpl in *; try congruence.
  - tauto.
  - fold (vbound n f). destruct (vbound n f) eqn:B.
    + split; discriminate.
    + specialize (IH st ltac:(congruence)). destruct (vmatch n fs st nw) as [[[g s0] st'']|].
      * split; [discriminate|]. intros E. apply IH in E. discriminate.
      * tauto.
Qed.

Fixpoint vstate {S : Type} (n : string) (fs : list vfield) (st : list S) : option S :=
  match fs, st with
  | f :: fs', s :: st' => if vbound n f then Some s else vstate n fs' st'
  | _, _ => None
  end.

Lemma vmatch_some {S} n fs (st : list S) nw f s st' : List.length st = List.length fs -> vnodup fs ->
  vmatch n fs st nw = Some (f, s, st') ->
  vfind n fs = Some f /\ vstate n fs st = Some s /\ st' = vmark n fs st nw /\ vbound n f = true.
Proof.
  unfold vfind. revert st st'; induction fs as [|g fs IH]; intros [|s0 st] st' H Hnd; simpl in *; try congruence.
  fold (vbound n g). destruct (vbound n g) eqn:B.
  - intros E. injection E as <- <- <-. repeat split; try assumption.
    f_equal. symmetry. apply vmark_nobound; [congruence|].
    apply (vnodup_head_unique g fs n Hnd B).
  - destruct (vmatch n fs st nw) as [[[g' s1] st'']|] eqn:M; [|discriminate].
    intros E. inversion E; subst.
    destruct (IH st st'' ltac:(congruence) (vnodup_tail _ _ Hnd) M) as (A1 & A2 & A3 & A4).
    repeat split; try assumption. now subst.
Qed.
(* ------------------------------------------------------------ SerializeValue, match_by_name *)

Definition count_false (l : list bool) : nat := List.length (filter negb l).

Lemma vmark_count n fs flags : List.length flags = List.length fs -> vnodup fs ->
  match vstate n fs flags with
  | Some false => count_false flags = S (count_false (vmark n fs flags true))
  | Some true => vmark n fs flags true = flags
  | None => vmark n fs flags true = flags
  end.
Proof.
  revert flags; induction fs as [|f fs IH]; intros [|b flags] H Hnd; simpl in *; try congruence; try reflexivity.
  destruct (vbound n f) eqn:B.
  - rewrite (vmark_nobound n fs flags true) by (congruence || apply (vnodup_head_unique f fs n Hnd B)).
    destruct b; [reflexivity|]. unfold count_false. simpl. reflexivity.
  - specialize (IH flags ltac:(congruence) (vnodup_tail _ _ Hnd)).
    destruct (vstate n fs flags) as [[|]|].
    + now rewrite IH.
    + unfold count_false in *. simpl. destruct b; simpl; rewrite IH; reflexivity.
    + now rewrite IH.
Qed.

Definition cellof (fs : list vfield) (c : dbfield) : cell :=
  match vfind (fst c) fs with
  | Some f => match ser_field (vf_ty f) (vf_val f) (snd c) with Some cl => cl | None => None end
  | None => None
  end.
Definition ser_fails (fs : list vfield) (c : dbfield) : bool :=
  match vfind (fst c) fs with
  | Some f => match ser_field (vf_ty f) (vf_val f) (snd c) with None => true | Some _ => false end
  | None => false
  end.
Definition unbound (fs : list vfield) (c : dbfield) : bool :=
  match vfind (fst c) fs with None => true | Some _ => false end.

Fixpoint emit (forbid : bool) (fs : list vfield) (db : list dbfield) (out : list cell) (sk : nat)
  : list cell * nat :=
  match db with
  | [] => (out, sk)
  | c :: db' =>
      if unbound fs c then emit forbid fs db' out (S sk)
      else emit forbid fs db' ((if forbid then out else out ++ repeat None sk) ++ [cellof fs c])
                (if forbid then sk else O)
  end.

Fixpoint marks (fs : list vfield) (flags : list bool) (names : list string) : list bool :=
  match names with
  | [] => flags
  | n :: r => marks fs (vmark n fs flags true) r
  end.

Lemma marks_length fs flags names : List.length flags = List.length fs ->
  List.length (marks fs flags names) = List.length fs.
Proof.
  revert flags; induction names as [|n r IH]; intros flags H; simpl; [assumption|].
  apply IH. now apply vmark_length.
Qed.

Definition sv_bad (forbid : bool) (fs : list vfield) (c : dbfield) : bool :=
  (forbid && unbound fs c) || ser_fails fs c.

Lemma sv_loop_char forbid fs db : vnodup fs -> forall st,
  List.length (sv_flags st) = List.length fs ->
  sv_remaining st = count_false (sv_flags st) ->
  if existsb (sv_bad forbid fs) db
  then exists e, sv_loop forbid fs st db = Err e
  else sv_loop forbid fs st db =
       Ok {| sv_flags := marks fs (sv_flags st) (map fst db);
             sv_remaining := count_false (marks fs (sv_flags st) (map fst db));
             sv_skipped := snd (emit forbid fs db (sv_out st) (sv_skipped st));
             sv_out := fst (emit forbid fs db (sv_out st) (sv_skipped st)) |}.
Proof.
  intros Hnd. induction db as [|[n ty] db IH]; intros st Hl Hr.
  - simpl. destruct st; simpl in *. now subst.
  - cbn [existsb sv_loop sv_step]. unfold sv_bad at 1, unbound, ser_fails. cbn [fst snd].
    destruct (vmatch n fs (sv_flags st) true) as [[[f was] flags']|] eqn:M.
    + destruct (vmatch_some _ _ _ _ _ _ _ Hl Hnd M) as (F & Vs & -> & B).
      rewrite F. rewrite andb_false_r. cbn [orb].
      destruct (ser_field (vf_ty f) (vf_val f) ty) as [cl|] eqn:SF.
      * cbn [orb].
        pose proof (vmark_count n fs (sv_flags st) Hl Hnd) as C. rewrite Vs in C.
        assert (E : unbound fs (n, ty) = false) by (unfold unbound; cbn [fst]; now rewrite F).
        assert (Ec : cellof fs (n, ty) = cl) by (unfold cellof; cbn [fst snd]; now rewrite F, SF).
        destruct was.
        -- specialize (IH {| sv_flags := vmark n fs (sv_flags st) true; sv_remaining := sv_remaining st;
                             sv_skipped := if forbid then sv_skipped st else 0%nat;
                             sv_out := (if forbid then sv_out st else sv_out st ++ repeat None (sv_skipped st)) ++ [cl] |}).
           cbn [sv_flags sv_remaining sv_skipped sv_out] in IH.
           specialize (IH ltac:(now apply vmark_length) ltac:(now rewrite C)).
           cbn [map fst marks emit]. rewrite E, Ec. exact IH.
        -- rewrite Hr, C. cbn [dec].
           specialize (IH {| sv_flags := vmark n fs (sv_flags st) true;
                             sv_remaining := count_false (vmark n fs (sv_flags st) true);
                             sv_skipped := if forbid then sv_skipped st else 0%nat;
                             sv_out := (if forbid then sv_out st else sv_out st ++ repeat None (sv_skipped st)) ++ [cl] |}).
           cbn [sv_flags sv_remaining sv_skipped sv_out] in IH.
           specialize (IH ltac:(now apply vmark_length) eq_refl).
           cbn [map fst marks emit]. rewrite E, Ec. exact IH.
      * cbn [orb]. eexists. reflexivity.
    + apply (vmatch_none n fs (sv_flags st) true Hl) in M. rewrite M.
      rewrite andb_true_r, orb_false_r.
      destruct forbid.
      * cbn [orb]. eexists. reflexivity.
      * cbn [orb].
        assert (Hm : vmark n fs (sv_flags st) true = sv_flags st).
        { apply vmark_nobound; [assumption|]. now apply vfind_none. }
        specialize (IH {| sv_flags := sv_flags st; sv_remaining := sv_remaining st;
                          sv_skipped := S (sv_skipped st); sv_out := sv_out st |}).
        cbn [sv_flags sv_remaining sv_skipped sv_out] in IH. specialize (IH Hl Hr).
        cbn [map fst marks emit]. unfold unbound at 1 2. cbn [fst]. rewrite M, Hm. exact IH.
Qed.
Lemma vmark_map n fs flags : List.length flags = List.length fs ->
  vmark n fs flags true = map (fun fb => if vbound n (fst fb) then true else snd fb) (combine fs flags).
Proof.
  revert flags; induction fs as [|f fs IH]; intros [|b flags] H; simpl in *; try congruence.
  f_equal. apply IH. congruence.
Qed.

Definition flags_spec (fs : list vfield) (flags : list bool) (names : list string) : list bool :=
  map (fun fb => snd fb || (negb (vf_skip (fst fb)) && mem (vf_name (fst fb)) names)) (combine fs flags).

Lemma flags_spec_nil fs flags : List.length flags = List.length fs -> flags_spec fs flags [] = flags.
Proof.
  unfold flags_spec. revert flags. induction fs as [|f fs IHf]; intros [|b flags] H; simpl in *; try congruence.
  rewrite andb_false_r, orb_false_r. f_equal. apply IHf. congruence.
Qed.

Lemma flags_spec_cons fs flags n r : List.length flags = List.length fs ->
  flags_spec fs (vmark n fs flags true) r = flags_spec fs flags (n :: r).
Proof.
  unfold flags_spec. revert flags. induction fs as [|f fs IHf]; intros [|b flags] H; simpl in *; try congruence.
  f_equal; [|apply IHf; congruence].
  unfold vbound. rewrite String.eqb_sym.
  destruct (vf_skip f); cbn [negb andb]; [reflexivity|].
  destruct (String.eqb n (vf_name f)); cbn [orb]; [now rewrite orb_true_r|reflexivity].
Qed.

Lemma marks_spec fs names : forall flags, List.length flags = List.length fs ->
  marks fs flags names = flags_spec fs flags names.
Proof.
  induction names as [|n r IH]; intros flags H.
  - cbn [marks]. now rewrite flags_spec_nil.
  - cbn [marks]. rewrite IH by now apply vmark_length. now apply flags_spec_cons.
Qed.
Lemma count_false_0 l : count_false l = O -> forallb (fun b => b) l = true.
Proof.
  unfold count_false. induction l as [|b l IH]; simpl; [reflexivity|].
  destruct b; simpl; [exact IH|discriminate].
Qed.

Lemma sv_first_missing_all_true fs flags : forallb (fun b => b) flags = true -> sv_first_missing fs flags = None.
Proof.
  revert flags; induction fs as [|f fs IH]; intros [|b flags] H; simpl in *; try reflexivity.
  apply andb_true_iff in H as [-> H]. cbn [negb andb]. now apply IH.
Qed.

(* the final check on the flags left by a loop over DB names [names], all fields non-skipped *)
Lemma sv_first_missing_spec fs names :
  forallb (fun f => negb (vf_skip f)) fs = true ->
  (sv_first_missing fs (flags_spec fs (map (fun _ => false) fs) names) = None <->
   existsb (fun f => vf_required f && negb (mem (vf_name f) names)) fs = false).
Proof.
  unfold flags_spec. induction fs as [|f fs IH]; intros Hs; simpl in *; [tauto|].
  apply andb_true_iff in Hs as [Hf Hs]. unfold vf_required at 1. rewrite Hf. cbn [andb orb].
  destruct (mem (vf_name f) names); cbn [negb andb orb].
  - rewrite andb_false_r. cbn [orb]. now apply IH.
  - rewrite andb_true_r. destruct (vf_am f); cbn [negb orb]; [now apply IH|]. split; discriminate.
Qed.

Lemma unbound_dtu_nil fs db : drop_trailing_unbound fs db = [] -> forallb (unbound fs) db = true.
Proof.
  induction db as [|c db IH]; simpl; [reflexivity|].
  destruct (drop_trailing_unbound fs db) eqn:E; [|discriminate].
  unfold unbound at 1. destruct (vfind (fst c) fs); [discriminate|]. intros _. now rewrite IH.
Qed.

Lemma emit_all_unbound forbid fs db out sk : forallb (unbound fs) db = true ->
  emit forbid fs db out sk = (out, (sk + List.length db)%nat).
Proof.
  revert sk; induction db as [|c db IH]; intros sk H; simpl in *.
  - f_equal. lia.
  - apply andb_true_iff in H as [-> H]. rewrite IH by assumption. f_equal. lia.
Qed.

Lemma repeat_snoc {A} (x : A) k : repeat x (S k) = repeat x k ++ [x].
Proof. induction k as [|k IH]; [reflexivity|]. simpl in *. now rewrite <- IH. Qed.

(* pending NULLs + "not sent at all at the end" = dropping the trailing unbound DB fields *)
Lemma emit_dtu fs db : forall out sk,
  fst (emit false fs db out sk) =
  match drop_trailing_unbound fs db with
  | [] => out
  | r => out ++ repeat None sk ++ map (cellof fs) r
  end.
Proof.
  induction db as [|c db IH]; intros out sk; [reflexivity|].
  cbn [emit drop_trailing_unbound]. unfold unbound at 1.
  destruct (vfind (fst c) fs) as [f|] eqn:F.
  - rewrite IH. destruct (drop_trailing_unbound fs db) as [|x r] eqn:E.
    + cbn [map]. now rewrite <- app_assoc.
    + cbn [repeat app map]. now rewrite <- !app_assoc.
  - rewrite IH. destruct (drop_trailing_unbound fs db) as [|x r] eqn:E; [reflexivity|].
    assert (Ec : cellof fs c = None) by (unfold cellof; now rewrite F).
    rewrite repeat_snoc. cbn [map]. rewrite Ec. now rewrite <- !app_assoc.
Qed.

Lemma dtu_all_bound fs db : existsb (unbound fs) db = false -> drop_trailing_unbound fs db = db.
Proof.
  induction db as [|c db IH]; simpl; [reflexivity|].
  intros H. apply orb_false_iff in H as [H1 H2]. rewrite IH by assumption.
  unfold unbound in H1. destruct (vfind (fst c) fs); [|discriminate]. now destruct db.
Qed.

Lemma emit_forbid fs db : existsb (unbound fs) db = false -> forall out sk,
  emit true fs db out sk = (out ++ map (cellof fs) db, sk).
Proof.
  induction db as [|c db IH]; intros H out sk; simpl in *; [now rewrite app_nil_r|].
  apply orb_false_iff in H as [-> H]. rewrite IH by assumption. now rewrite <- app_assoc.
Qed.

Lemma nonskipped_idem fs : nonskipped (nonskipped fs) = nonskipped fs.
Proof.
  unfold nonskipped. induction fs as [|f fs IH]; simpl; [reflexivity|].
  destruct (negb (vf_skip f)) eqn:S; simpl; [rewrite S; now f_equal|exact IH].
Qed.

Lemma nonskipped_vnodup fs : vnodup fs -> vnodup (nonskipped fs).
Proof. unfold vnodup. now rewrite nonskipped_idem. Qed.

Lemma existsb_ext' {A} (f g : A -> bool) l : (forall x, f x = g x) -> existsb f l = existsb g l.
Proof. intros H. induction l as [|x l IH]; simpl; [reflexivity|]. now rewrite H, IH. Qed.

Lemma existsb_nonskipped (p : vfield -> bool) fs :
  existsb (fun f => negb (vf_skip f) && p f) fs = existsb (fun f => negb (vf_skip f) && p f) (nonskipped fs).
Proof.
  unfold nonskipped. induction fs as [|f fs IH]; simpl; [reflexivity|].
  destruct (vf_skip f) eqn:S; simpl; [exact IH|]. rewrite S. simpl. now rewrite IH.
Qed.

Lemma sv_bad_split forbid fs db :
  existsb (sv_bad forbid fs) db = (forbid && existsb (unbound fs) db) || existsb (ser_fails fs) db.
Proof.
  unfold sv_bad. induction db as [|c db IH]; simpl; [now rewrite andb_false_r|].
  rewrite IH. destruct forbid, (unbound fs c), (ser_fails fs c), (existsb (unbound fs) db), (existsb (ser_fails fs) db); reflexivity.
Qed.

Theorem ser_value_by_name_doc d db : vnodup (vd_fields d) ->
  outcome_of (gen_ser_value_by_name d db) = doc_ser_value_by_name d db.
Proof.
  intros Hnd0. unfold gen_ser_value_by_name, doc_ser_value_by_name. cbv zeta.
  set (fs0 := vd_fields d). set (fs := nonskipped fs0).
  assert (Hnd : vnodup fs) by now apply nonskipped_vnodup.
  set (st0 := {| sv_flags := map (fun _ => false) fs; sv_remaining := List.length fs;
                 sv_skipped := 0%nat; sv_out := [] |}).
  assert (Hl : List.length (sv_flags st0) = List.length fs) by (cbn; apply map_length).
  assert (Hr : sv_remaining st0 = count_false (sv_flags st0)).
  { cbn. unfold count_false. clear. induction fs; simpl; congruence. }
  pose proof (sv_loop_char (vd_forbid d) fs db Hnd st0 Hl Hr) as L.
  (* the three checks of the documentation, phrased on fs *)
  assert (Emiss : existsb (fun f => vf_required f && negb (mem (vf_name f) (map fst db))) fs0
                  = existsb (fun f => vf_required f && negb (mem (vf_name f) (map fst db))) fs).
  { unfold vf_required.
    rewrite (existsb_ext' _ (fun f => negb (vf_skip f) && (negb (vf_am f) && negb (mem (vf_name f) (map fst db)))))
      by (intros; now rewrite andb_assoc).
    rewrite existsb_nonskipped. apply existsb_ext'. intros; now rewrite andb_assoc. }
  assert (Eunb : forall c, match vfind (fst c) fs0 with None => true | Some _ => false end = unbound fs c).
  { intros c. unfold unbound, fs. now rewrite vfind_nonskipped. }
  assert (Efail : forall c, match vfind (fst c) fs0 with
                            | Some f => match ser_field (vf_ty f) (vf_val f) (snd c) with None => true | Some _ => false end
                            | None => false end = ser_fails fs c).
  { intros c. unfold ser_fails, fs. now rewrite vfind_nonskipped. }
  assert (Ecell : forall c, match vfind (fst c) fs0 with
                            | Some f => match ser_field (vf_ty f) (vf_val f) (snd c) with Some cl => cl | None => None end
                            | None => None end = cellof fs c).
  { intros c. unfold cellof, fs. now rewrite vfind_nonskipped. }
  rewrite Emiss.
  rewrite (existsb_ext' (fun c : string * dty => match vfind (fst c) fs0 with Some _ => false | None => true end)
             (unbound fs) db Eunb).
  rewrite (existsb_ext' (fun c : string * dty => match vfind (fst c) fs0 with
             | Some f => match ser_field (vf_ty f) (vf_val f) (snd c) with Some _ => false | None => true end
             | None => false end) (ser_fails fs) db Efail).
  rewrite (map_ext _ _ Ecell).
  assert (Edtu : drop_trailing_unbound fs0 db = drop_trailing_unbound fs db).
  { clear -fs. induction db as [|c db IH]; simpl; [reflexivity|]. unfold fs at 2. now rewrite IH, vfind_nonskipped. }
  rewrite Edtu.
  rewrite sv_bad_split in L.
  change (@existsb (string * dty)%type) with (@existsb dbfield).
  destruct (existsb (fun f => vf_required f && negb (mem (vf_name f) (map fst db))) fs) eqn:Miss.
  - (* a required field is missing: rejected either in the loop or by the final check *)
    destruct ((vd_forbid d && existsb (unbound fs) db) || existsb (ser_fails fs) db) eqn:Bad.
    + destruct L as [e ->]. reflexivity.
    + rewrite L. cbn [sv_remaining sv_flags sv_out sv_skipped].
      rewrite marks_spec by (cbn; apply map_length). cbn [sv_flags sv_out sv_skipped st0].
      pose proof (sv_first_missing_spec fs (map fst db) (nonskipped_all fs0)) as FM.
      destruct (0 <? _)%nat eqn:G.
      * destruct (sv_first_missing fs _) as [nm|] eqn:SM; [reflexivity|].
        rewrite (proj1 FM eq_refl) in Miss. discriminate.
      * exfalso. apply Nat.ltb_ge in G.
        assert (SM : sv_first_missing fs (flags_spec fs (map (fun _ => false) fs) (map fst db)) = None).
        { apply sv_first_missing_all_true, count_false_0. lia. }
        apply FM in SM. congruence.
  - destruct (vd_forbid d && existsb (unbound fs) db) eqn:B1.
    + cbn [orb] in L. destruct L as [e ->]. reflexivity.
    + cbn [orb] in L. destruct (existsb (ser_fails fs) db) eqn:B2.
      * destruct L as [e ->]. reflexivity.
      * rewrite L. cbn [sv_remaining sv_flags sv_out sv_skipped].
        rewrite marks_spec by (cbn; apply map_length). cbn [sv_flags sv_out sv_skipped st0].
        pose proof (sv_first_missing_spec fs (map fst db) (nonskipped_all fs0)) as FM.
        rewrite (proj2 FM Miss).
        assert (Eout : fst (emit (vd_forbid d) fs db [] 0) = map (cellof fs) (drop_trailing_unbound fs db)).
        { destruct (vd_forbid d); cbn [andb] in B1.
          - rewrite emit_forbid by assumption. cbn [fst app]. now rewrite dtu_all_bound.
          - rewrite emit_dtu. destruct (drop_trailing_unbound fs db); reflexivity. }
        rewrite Eout. now destruct (0 <? _)%nat.
Qed.
(* ------------------------------------------------------------ DeserializeValue, match_by_name: type_check *)

Lemma vbound_name' n f : vbound n f = true -> vf_name f = n /\ vf_skip f = false.
Proof.
  unfold vbound. intros H. apply andb_true_iff in H as [H1 H2].
  apply String.eqb_eq in H2. apply negb_true_iff in H1. tauto.
Qed.

Lemma vstate_vmark {S} m n fs (st : list S) nw : List.length st = List.length fs ->
  vstate m fs (vmark n fs st nw) =
  match vstate m fs st with
  | Some s => if String.eqb m n then Some nw else Some s
  | None => None
  end.
Proof.
  revert st; induction fs as [|f fs IH]; intros [|s st] H; simpl in *; try congruence; try reflexivity.
  destruct (vbound m f) eqn:Bm.
  - destruct (vbound_name' _ _ Bm) as [Hn Hs]. unfold vbound. rewrite Hs, Hn. cbn [negb andb].
    destruct (String.eqb m n); reflexivity.
  - apply IH. congruence.
Qed.

Lemma vstate_some_iff {S} n fs (st : list S) : List.length st = List.length fs ->
  (vstate n fs st = None <-> vfind n fs = None).
Proof.
  unfold vfind. revert st; induction fs as [|f fs IH]; intros [|s st] H; simpl in *; try congruence; try tauto.
  fold (vbound n f). destruct (vbound n f); [split; discriminate|]. apply IH. congruence.
Qed.

Lemma vfind_bound n fs f : vfind n fs = Some f -> vbound n f = true /\ In f fs.
Proof. unfold vfind. intros H. apply find_some in H. tauto. Qed.

Lemma vbound_name n f : vbound n f = true -> vf_name f = n /\ vf_skip f = false.
Proof.
  unfold vbound. intros H. apply andb_true_iff in H as [H1 H2].
  apply String.eqb_eq in H2. apply negb_true_iff in H1. tauto.
Qed.

Lemma vfind_self fs f : vnodup fs -> In f fs -> vf_skip f = false -> vfind (vf_name f) fs = Some f.
Proof.
  unfold vfind. induction fs as [|g fs IH]; intros Hnd Hin Hs; [contradiction|].
  cbn [find]. fold (vbound (vf_name f) g). destruct (vbound (vf_name f) g) eqn:B.
  - destruct Hin as [->|Hin]; [reflexivity|].
    pose proof (vnodup_head_unique g fs _ Hnd B f Hin) as X.
    unfold vbound in X. rewrite Hs, String.eqb_refl in X. discriminate.
  - destruct Hin as [->|Hin].
    + unfold vbound in B. rewrite Hs, String.eqb_refl in B. discriminate.
    + apply IH; try assumption. now apply vnodup_tail in Hnd.
Qed.

(* number of required fields not yet visited *)
Fixpoint count_req (fs : list vfield) (flags : list bool) : nat :=
  match fs, flags with
  | f :: fs', b :: flags' => ((if vf_required f && negb b then 1 else 0) + count_req fs' flags')%nat
  | _, _ => O
  end.

Lemma count_req_vmark n fs flags f : List.length flags = List.length fs -> vnodup fs ->
  vfind n fs = Some f -> vstate n fs flags = Some false ->
  count_req fs flags = ((if vf_required f then 1 else 0) + count_req fs (vmark n fs flags true))%nat.
Proof.
  unfold vfind. revert flags; induction fs as [|g fs IH]; intros [|b flags] H Hnd F V; simpl in *; try congruence.
  fold (vbound n g) in *. destruct (vbound n g) eqn:B.
  - injection F as ->. injection V as ->.
    rewrite (vmark_nobound n fs flags true) by (congruence || apply (vnodup_head_unique f fs n Hnd B)).
    cbn [negb]. rewrite andb_true_r, andb_false_r. lia.
  - rewrite (IH flags ltac:(congruence) (vnodup_tail _ _ Hnd) F V). lia.
Qed.

Definition tv_cond (forbid : bool) (fs : list vfield) (flags : list bool) (c : dbfield) : bool :=
  match vfind (fst c) fs with
  | Some f => match vstate (fst c) fs flags with Some false => accepts (vf_ty f) (snd c) | _ => false end
  | None => negb forbid
  end.

Fixpoint tv_okb (forbid : bool) (fs : list vfield) (flags : list bool) (db : list dbfield) : bool :=
  match db with
  | [] => true
  | c :: db' => tv_cond forbid fs flags c && tv_okb forbid fs (vmark (fst c) fs flags true) db'
  end.

Lemma tv_loop_char forbid fs db : vnodup fs -> forall st,
  List.length (tv_flags st) = List.length fs ->
  tv_remaining st = count_req fs (tv_flags st) ->
  if tv_okb forbid fs (tv_flags st) db
  then tv_loop forbid fs st db =
       Ok {| tv_flags := marks fs (tv_flags st) (map fst db);
             tv_remaining := count_req fs (marks fs (tv_flags st) (map fst db)) |}
  else exists e, tv_loop forbid fs st db = Err e /\ e <> EPanic.
Proof.
  intros Hnd. induction db as [|[n ty] db IH]; intros st Hl Hr.
  - simpl. destruct st; simpl in *. now subst.
  - cbn [tv_okb tv_loop tv_step fst snd map marks]. unfold tv_cond. cbn [fst snd].
    destruct (vmatch n fs (tv_flags st) true) as [[[f was] flags']|] eqn:M.
    + destruct (vmatch_some _ _ _ _ _ _ _ Hl Hnd M) as (F & Vs & -> & B).
      rewrite F, Vs. destruct was.
      * cbn [andb]. eexists. split; [reflexivity|discriminate].
      * destruct (accepts (vf_ty f) ty) eqn:A.
        -- cbn [andb].
           pose proof (count_req_vmark n fs (tv_flags st) f Hl Hnd F Vs) as C.
           destruct (vf_required f) eqn:R.
           ++ rewrite Hr, C. cbn [dec Nat.add].
              specialize (IH {| tv_flags := vmark n fs (tv_flags st) true;
                                tv_remaining := count_req fs (vmark n fs (tv_flags st) true) |}).
              cbn [tv_flags tv_remaining] in IH.
              exact (IH ltac:(now apply vmark_length) eq_refl).
           ++ specialize (IH {| tv_flags := vmark n fs (tv_flags st) true;
                                tv_remaining := tv_remaining st |}).
              cbn [tv_flags tv_remaining] in IH.
              exact (IH ltac:(now apply vmark_length) ltac:(rewrite Hr, C; reflexivity)).
        -- cbn [andb]. eexists. split; [reflexivity|discriminate].
    + apply (vmatch_none n fs (tv_flags st) true Hl) in M. rewrite M.
      destruct forbid; cbn [negb andb].
      * eexists. split; [reflexivity|discriminate].
      * assert (Hm : vmark n fs (tv_flags st) true = tv_flags st).
        { apply vmark_nobound; [assumption|]. now apply vfind_none. }
        rewrite Hm. exact (IH st Hl Hr).
Qed.
Definition dupfree (fs : list vfield) (flags : list bool) (db : list dbfield) : Prop :=
  forall f, In f fs -> vf_skip f = false ->
    match vstate (vf_name f) fs flags with
    | Some true => count_name (vf_name f) db = O
    | _ => (count_name (vf_name f) db <= 1)%nat
    end.

Definition all_bound (fs : list vfield) (db : list dbfield) : bool :=
  forallb (fun c => match vfind (fst c) fs with Some _ => true | None => false end) db.
Definition all_accept (fs : list vfield) (db : list dbfield) : bool :=
  forallb (fun c => match vfind (fst c) fs with Some f => accepts (vf_ty f) (snd c) | None => true end) db.

Lemma count_name_cons n c db :
  count_name n (c :: db) = ((if String.eqb (fst c) n then 1 else 0) + count_name n db)%nat.
Proof. unfold count_name. simpl. destruct (String.eqb (fst c) n); reflexivity. Qed.

Lemma tv_okb_spec forbid fs db : vnodup fs -> forall flags, List.length flags = List.length fs ->
  (tv_okb forbid fs flags db = true <->
   dupfree fs flags db /\ (negb forbid || all_bound fs db = true) /\ all_accept fs db = true).
Proof.
  intros Hnd. induction db as [|[n ty] db IH]; intros flags Hl.
  - cbn [tv_okb all_bound all_accept forallb]. rewrite orb_true_r. split; [|reflexivity].
    intros _. repeat split. intros f Hf Hs. unfold count_name. simpl. destruct (vstate _ _ _) as [[|]|]; lia.
  - cbn [tv_okb]. rewrite andb_true_iff, (IH (vmark n fs flags true)) by now apply vmark_length.
    unfold tv_cond. cbn [fst snd all_bound all_accept forallb].
    fold (all_bound fs db). fold (all_accept fs db).
    destruct (vfind n fs) as [g|] eqn:F.
    + destruct (vfind_bound _ _ _ F) as [Bg Ing]. destruct (vbound_name' _ _ Bg) as [Ng Sg].
      cbn [andb].
      assert (Step : (vstate n fs flags = Some false /\ dupfree fs (vmark n fs flags true) db)
                     <-> dupfree fs flags ((n, ty) :: db)).
      { unfold dupfree. split.
        - intros [V D] f Hf Hs. specialize (D f Hf Hs). rewrite count_name_cons. cbn [fst].
          rewrite vstate_vmark in D by assumption.
          destruct (String.eqb n (vf_name f)) eqn:E.
          + apply String.eqb_eq in E. rewrite <- E in *. rewrite V in *. rewrite String.eqb_refl in D. lia.
          + rewrite String.eqb_sym in E. rewrite E in D. destruct (vstate (vf_name f) fs flags) as [[|]|]; lia.
        - intros D. assert (V : vstate n fs flags = Some false).
          { specialize (D g Ing Sg). rewrite Ng, count_name_cons in D. cbn [fst] in D.
            rewrite String.eqb_refl in D.
            destruct (vstate n fs flags) as [[|]|] eqn:V; [lia|reflexivity|].
            apply vstate_some_iff in V; [congruence|assumption]. }
          split; [assumption|]. intros f Hf Hs. specialize (D f Hf Hs).
          rewrite count_name_cons in D. cbn [fst] in D. rewrite vstate_vmark by assumption.
          destruct (String.eqb n (vf_name f)) eqn:E.
          + apply String.eqb_eq in E. rewrite <- E in *. rewrite V in *. rewrite String.eqb_refl. lia.
          + rewrite String.eqb_sym in E. rewrite E. destruct (vstate (vf_name f) fs flags) as [[|]|]; lia. }
      rewrite <- Step.
      destruct (vstate n fs flags) as [[|]|]; try (split; [intros [X _]; discriminate | intros [[X _] _]; discriminate]).
      rewrite andb_true_iff. tauto.
    + cbn [andb]. rewrite orb_false_r.
      assert (Hm : vmark n fs flags true = flags).
      { apply vmark_nobound; [assumption|]. now apply vfind_none. }
      rewrite Hm.
      assert (Step : dupfree fs flags db <-> dupfree fs flags ((n, ty) :: db)).
      { unfold dupfree. split; intros D f Hf Hs; specialize (D f Hf Hs);
          rewrite count_name_cons in *; cbn [fst] in *.
        - destruct (String.eqb n (vf_name f)) eqn:E; [|exact D].
          apply String.eqb_eq in E. subst n. rewrite vfind_self in F by assumption. discriminate.
        - destruct (String.eqb n (vf_name f)) eqn:E; [|exact D].
          apply String.eqb_eq in E. subst n. rewrite vfind_self in F by assumption. discriminate. }
      rewrite <- Step. destruct forbid; cbn [negb orb]; intuition congruence.
Qed.

Lemma vstate_allfalse fs f : In f fs -> vf_skip f = false ->
  vstate (vf_name f) fs (map (fun _ => false) fs) = Some false.
Proof.
  induction fs as [|g fs IH]; intros Hin Hs; [contradiction|]. simpl.
  destruct (vbound (vf_name f) g) eqn:B; [reflexivity|].
  destruct Hin as [->|Hin]; [|now apply IH].
  unfold vbound in B. rewrite Hs, String.eqb_refl in B. discriminate.
Qed.

Lemma count_req_spec fs names : forall flags, List.length flags = List.length fs ->
  (count_req fs (flags_spec fs flags names) = O <->
   forallb (fun fb => negb (vf_required (fst fb)) || snd fb || mem (vf_name (fst fb)) names) (combine fs flags) = true).
Proof.
  unfold flags_spec. induction fs as [|f fs IH]; intros [|b flags] H; simpl in *; try congruence; try tauto.
  rewrite andb_true_iff, <- IH by congruence. unfold vf_required.
  destruct (vf_skip f), (vf_am f), b, (mem (vf_name f) names); cbn [negb andb orb]; split; try lia; try tauto; intros [? ?]; try discriminate; lia.
Qed.

Theorem typeck_value_by_name_doc d db : vnodup (vd_fields d) ->
  (gen_typeck_value_by_name d db = Ok tt <-> doc_typeck_value_by_name d db = true) /\
  gen_typeck_value_by_name d db <> Err EPanic.
Proof.
  intros Hnd. unfold gen_typeck_value_by_name, doc_typeck_value_by_name. cbv zeta.
  set (fs := vd_fields d).
  set (st0 := {| tv_flags := map (fun _ => false) fs; tv_remaining := List.length (filter vf_required fs) |}).
  assert (Hl : List.length (tv_flags st0) = List.length fs) by (cbn; apply map_length).
  assert (Hr : tv_remaining st0 = count_req fs (tv_flags st0)).
  { cbn. clear. induction fs as [|f fs IH]; simpl; [reflexivity|].
    destruct (vf_required f); simpl; lia. }
  pose proof (tv_loop_char (vd_forbid d) fs db Hnd st0 Hl Hr) as L.
  pose proof (tv_okb_spec (vd_forbid d) fs db Hnd (tv_flags st0) Hl) as S.
  fold (all_bound fs db). fold (all_accept fs db).
  assert (Dup : dupfree fs (tv_flags st0) db <->
                forallb (fun f => vf_skip f || (count_name (vf_name f) db <=? 1)%nat) fs = true).
  { unfold dupfree. rewrite forallb_forall. split.
    - intros D f Hf. destruct (vf_skip f) eqn:Sk; [reflexivity|]. cbn [orb].
      specialize (D f Hf Sk). cbn [tv_flags st0] in D. rewrite vstate_allfalse in D by assumption.
      now apply Nat.leb_le.
    - intros D f Hf Sk. cbn [tv_flags st0]. rewrite vstate_allfalse by assumption.
      specialize (D f Hf). rewrite Sk in D. now apply Nat.leb_le in D. }
  assert (Miss : count_req fs (flags_spec fs (map (fun _ => false) fs) (map fst db)) = O <->
                 forallb (fun f => negb (vf_required f) || mem (vf_name f) (map fst db)) fs = true).
  { rewrite count_req_spec by apply map_length. clear. induction fs as [|f fs IH]; simpl; [tauto|].
    rewrite !andb_true_iff, IH, orb_false_r. tauto. }
  destruct (tv_okb (vd_forbid d) fs (tv_flags st0) db) eqn:Okb.
  - rewrite L. cbn [tv_remaining tv_flags st0]. rewrite marks_spec by apply map_length.
    destruct (proj1 S eq_refl) as (D1 & D2 & D3).
    rewrite (proj1 Dup D1), D2, D3, !andb_true_r.
    destruct (0 <? _)%nat eqn:G.
    + split; [|discriminate]. split; [discriminate|]. intros A. apply Miss in A. apply Nat.ltb_lt in G. lia.
    + split; [|discriminate]. split; [|reflexivity]. intros _. apply Miss. apply Nat.ltb_ge in G. lia.
  - destruct L as [e [-> Ne]]. split; [|congruence]. split; [discriminate|].
    intros A. apply andb_true_iff in A as [A A4]. apply andb_true_iff in A as [A A3].
    apply andb_true_iff in A as [A1 A2].
    assert (X : false = true).
    { apply S. repeat split; [now apply Dup|assumption|assumption]. }
    discriminate.
Qed.
(* ------------------------------------------------------------ DeserializeValue, match_by_name: deserialize *)

Lemma udt_items_fst db cells : map fst (udt_items db cells) = db.
Proof.
  revert cells; induction db as [|c db IH]; intros cells; [reflexivity|].
  destruct cells; simpl; now rewrite IH.
Qed.

Definition item_ok (fs : list vfield) (it : dbfield * cell) : bool :=
  match vfind (fst (fst it)) fs with
  | Some f => match deser_with_default f (snd it) with Some _ => true | None => false end
  | None => true
  end.

Definition slotfree (fs : list vfield) (slots : list (option cell)) (db : list dbfield) : Prop :=
  forall f, In f fs -> vf_skip f = false ->
    match vstate (vf_name f) fs slots with
    | Some (Some _) => count_name (vf_name f) db = O
    | _ => (count_name (vf_name f) db <= 1)%nat
    end.

Definition slot_after (f : vfield) (old : option (option cell)) (its : list (dbfield * cell))
  : option (option cell) :=
  match old with
  | Some (Some x) => Some (Some x)
  | Some None => Some (match db_cell (vf_name f) its with Some v => deser_with_default f v | None => None end)
  | None => None
  end.

Lemma dv_loop_char fs : vnodup fs -> forall its slots,
  List.length slots = List.length fs -> slotfree fs slots (map fst its) ->
  if forallb (item_ok fs) its
  then exists slots', dv_loop fs slots its = Ok slots' /\ List.length slots' = List.length fs /\
         forall f, In f fs -> vf_skip f = false ->
           vstate (vf_name f) fs slots' = slot_after f (vstate (vf_name f) fs slots) its
  else exists n, dv_loop fs slots its = Err (EFieldDeserializationFailed n).
Proof.
  intros Hnd. induction its as [|[[n ty] v] its IH]; intros slots Hl Free.
  - cbn. exists slots. repeat split; try assumption. intros f Hf Hs. unfold slot_after. cbn.
    destruct (vstate (vf_name f) fs slots) as [[x|]|]; reflexivity.
  - cbn [forallb dv_loop dv_step map fst]. unfold item_ok at 1. cbn [fst snd].
    destruct (vmatch n fs slots None) as [[[f old] sl0]|] eqn:M.
    + destruct (vmatch_some _ _ _ _ _ _ _ Hl Hnd M) as (F & Vs & _ & B).
      destruct (vfind_bound _ _ _ F) as [_ Inf]. destruct (vbound_name' _ _ B) as [Nf Sf].
      rewrite F.
      assert (old = None) as ->.
      { specialize (Free f Inf Sf). rewrite Nf, Vs in Free. cbn [map fst] in Free.
        rewrite count_name_cons in Free. cbn [fst] in Free. rewrite String.eqb_refl in Free.
        destruct old; [lia|reflexivity]. }
      destruct (deser_with_default f v) as [x|] eqn:Dx; cbn [andb].
      * destruct (vmatch n fs slots (Some x)) as [[[f' old'] slots1]|] eqn:M1.
        2:{ apply (vmatch_none n fs slots (Some x) Hl) in M1. congruence. }
        destruct (vmatch_some _ _ _ _ _ _ _ Hl Hnd M1) as (_ & _ & -> & _).
        assert (Hl1 : List.length (vmark n fs slots (Some x)) = List.length fs) by now apply vmark_length.
        assert (Free1 : slotfree fs (vmark n fs slots (Some x)) (map fst its)).
        { intros g Hg Sg. specialize (Free g Hg Sg). cbn [map fst] in Free.
          rewrite count_name_cons in Free. cbn [fst] in Free.
          rewrite vstate_vmark by assumption.
          destruct (String.eqb n (vf_name g)) eqn:E.
          - apply String.eqb_eq in E. rewrite <- E in *. rewrite Vs in *. rewrite String.eqb_refl. lia.
          - rewrite String.eqb_sym in E. rewrite E.
            destruct (vstate (vf_name g) fs slots) as [[y|]|]; lia. }
        specialize (IH _ Hl1 Free1).
        destruct (forallb (item_ok fs) its); [|exact IH].
        destruct IH as (slots' & L & Hl' & Sp). exists slots'. repeat split; try assumption.
        intros g Hg Sg. rewrite (Sp g Hg Sg). rewrite vstate_vmark by assumption.
        unfold slot_after. cbn [db_cell].
        destruct (String.eqb n (vf_name g)) eqn:E.
        -- apply String.eqb_eq in E.
           assert (g = f) as ->.
           { rewrite E in F. rewrite vfind_self in F by assumption. congruence. }
           rewrite Nf, Vs, String.eqb_refl. now rewrite Dx.
        -- rewrite String.eqb_sym in E. rewrite E.
           destruct (vstate (vf_name g) fs slots) as [[y|]|]; reflexivity.
      * eexists. reflexivity.
    + apply (vmatch_none n fs slots None Hl) in M. rewrite M.
      assert (Free1 : slotfree fs slots (map fst its)).
      { intros g Hg Sg. specialize (Free g Hg Sg). cbn [map fst] in Free.
        rewrite count_name_cons in Free. cbn [fst] in Free.
        destruct (String.eqb n (vf_name g)) eqn:E; [|exact Free].
        apply String.eqb_eq in E. rewrite E, vfind_self in M by assumption. discriminate. }
      specialize (IH _ Hl Free1). cbn [andb].
      destruct (forallb (item_ok fs) its); [|exact IH].
      destruct IH as (slots' & L & Hl' & Sp). exists slots'. repeat split; try assumption.
      intros g Hg Sg. rewrite (Sp g Hg Sg). unfold slot_after. cbn [db_cell].
      destruct (String.eqb n (vf_name g)) eqn:E; [|reflexivity].
      apply String.eqb_eq in E. rewrite E, vfind_self in M by assumption. discriminate.
Qed.

(* generate_finalize_field as a function of the field's final slot *)
Definition vfin (f : vfield) (o : option (option cell)) : result err cell :=
  if vf_skip f then Ok (default_cell (vf_ty f))
  else if vf_am f then Ok (match o with Some (Some x) => x | _ => default_cell (vf_ty f) end)
  else match o with Some (Some x) => Ok x | _ => Err EPanic end.

Fixpoint sequence {A} (l : list (result err A)) : result err (list A) :=
  match l with
  | [] => Ok []
  | Err e :: _ => Err e
  | Ok x :: r => match sequence r with Err e => Err e | Ok xs => Ok (x :: xs) end
  end.

Lemma dv_finalize_by_name fs : vnodup fs -> forall slots, List.length slots = List.length fs ->
  dv_finalize fs slots = sequence (map (fun f => vfin f (vstate (vf_name f) fs slots)) fs).
Proof.
  induction fs as [|g fs IH]; intros Hnd [|s slots] Hl; simpl in *; try congruence; try reflexivity.
  assert (Tail : map (fun f => vfin f (if vbound (vf_name f) g then Some s else vstate (vf_name f) fs slots)) fs
                 = map (fun f => vfin f (vstate (vf_name f) fs slots)) fs).
  { apply map_ext_in. intros f Hf. unfold vfin. destruct (vf_skip f) eqn:Sf; [reflexivity|].
    destruct (vbound (vf_name f) g) eqn:B; [|reflexivity].
    pose proof (vnodup_head_unique g fs _ Hnd B f Hf) as X. unfold vbound in X.
    rewrite Sf, String.eqb_refl in X. discriminate. }
  rewrite Tail, <- (IH (vnodup_tail _ _ Hnd) slots) by congruence.
  unfold vfin at 1. destruct (vf_skip g) eqn:Sg.
  - reflexivity.
  - unfold vbound. rewrite Sg, String.eqb_refl. cbn [negb andb].
    destruct (vf_am g); [reflexivity|]. destruct s; reflexivity.
Qed.

Lemma vstate_allnone fs f : In f fs -> vf_skip f = false ->
  vstate (vf_name f) fs (map (fun _ => @None cell) fs) = Some None.
Proof.
  induction fs as [|g fs IH]; intros Hin Hs; [contradiction|]. simpl.
  destruct (vbound (vf_name f) g) eqn:B; [reflexivity|].
  destruct Hin as [->|Hin]; [|now apply IH].
  unfold vbound in B. rewrite Hs, String.eqb_refl in B. discriminate.
Qed.

Lemma db_cell_none n its : db_cell n its = None <-> mem n (map fst (map fst its)) = false.
Proof.
  unfold mem. induction its as [|[[m ty] v] its IH]; cbn [map fst existsb db_cell]; [tauto|].
  rewrite (String.eqb_sym n m). destruct (String.eqb m n); cbn [orb]; [split; discriminate|exact IH].
Qed.

Lemma db_cell_unique n its ty v : (count_name n (map fst its) <= 1)%nat -> In ((n, ty), v) its ->
  db_cell n its = Some v.
Proof.
  induction its as [|[[m t0] v0] its IH]; intros C Hin; [contradiction|].
  cbn [map fst] in C. rewrite count_name_cons in C. cbn [fst] in C. cbn [db_cell].
  destruct Hin as [E|Hin].
  - injection E as -> -> ->. now rewrite String.eqb_refl.
  - destruct (String.eqb m n) eqn:E.
    + exfalso. assert (count_name n (map fst its) >= 1)%nat; [|lia].
      clear -Hin. induction its as [|[[m1 t1] v1] its IH]; [contradiction|].
      cbn [map fst]. rewrite count_name_cons. cbn [fst]. destruct Hin as [E|Hin].
      * injection E as -> -> ->. rewrite String.eqb_refl. lia.
      * specialize (IH Hin). lia.
    + apply IH; [lia|assumption].
Qed.

Lemma sequence_all_some {A} (l : list (result err A)) (m : list (option A)) :
  Forall2 (fun r o => match r, o with Ok x, Some y => x = y | Err _, None => True | _, _ => False end) l m ->
  outcome_of (sequence l) = match all_some m with Some vs => Accept vs | None => Reject end.
Proof.
  induction 1 as [|r o l m H _ IH]; [reflexivity|].
  destruct r as [x|e], o as [y|]; try contradiction; cbn [sequence all_some]; [|reflexivity].
  subst y. destruct (sequence l), (all_some m); cbn [outcome_of] in *; congruence.
Qed.

Lemma Forall2_map_same {A B C} (R : B -> C -> Prop) (f : A -> B) (g : A -> C) l :
  (forall x, In x l -> R (f x) (g x)) -> Forall2 R (map f l) (map g l).
Proof.
  induction l as [|x l IH]; intros H; simpl; constructor.
  - apply H. now left.
  - apply IH. intros y Hy. apply H. now right.
Qed.

Lemma sequence_not_panic {A} (l : list (result err A)) :
  Forall (fun r => r <> Err EPanic) l -> sequence l <> Err EPanic.
Proof.
  induction 1 as [|r l H _ IH]; simpl; [discriminate|].
  destruct r as [x|e]; [|intros E; apply H; congruence]. destruct (sequence l); [discriminate|exact IH].
Qed.

Theorem deser_value_by_name_doc d db cells : vnodup (vd_fields d) ->
  doc_typeck_value_by_name d db = true ->
  outcome_of (gen_deser_value_by_name d db cells) =
    match all_some (map (fun f => doc_field_value f (udt_items db cells)) (vd_fields d)) with
    | Some vs => Accept vs
    | None => Reject
    end /\
  gen_deser_value_by_name d db cells <> Err EPanic.
Proof.
  intros Hnd T. unfold gen_deser_value_by_name. cbv zeta. set (fs := vd_fields d) in *.
  set (its := udt_items db cells).
  unfold doc_typeck_value_by_name in T. cbv zeta in T. fold fs in T.
  apply andb_true_iff in T as [T T4]. apply andb_true_iff in T as [T T3]. apply andb_true_iff in T as [T1 T2].
  assert (Hl : List.length (map (fun _ => @None cell) fs) = List.length fs) by apply map_length.
  assert (Names : map fst its = db) by apply udt_items_fst.
  assert (Free : slotfree fs (map (fun _ => None) fs) (map fst its)).
  { rewrite Names. intros f Hf Sf. rewrite vstate_allnone by assumption.
    rewrite forallb_forall in T2. specialize (T2 f Hf). rewrite Sf in T2. now apply Nat.leb_le in T2. }
  pose proof (dv_loop_char fs Hnd its _ Hl Free) as L.
  destruct (forallb (item_ok fs) its) eqn:Ok.
  - destruct L as (slots' & -> & Hl' & Sp).
    rewrite dv_finalize_by_name by assumption. split.
    + apply sequence_all_some. apply Forall2_map_same. intros f Hf.
      unfold vfin, doc_field_value. destruct (vf_skip f) eqn:Sf; [reflexivity|].
      rewrite (Sp f Hf Sf), vstate_allnone by assumption. unfold slot_after.
      destruct (db_cell (vf_name f) its) as [v|] eqn:Dc.
      * (* the field is present: its item deserialized successfully *)
        assert (Hin : exists ty, In ((vf_name f, ty), v) its).
        { clear -Dc. induction its as [|[[m t0] v0] its IH]; [discriminate|]. cbn [db_cell] in Dc.
          destruct (String.eqb m (vf_name f)) eqn:E.
          - apply String.eqb_eq in E. injection Dc as ->. subst m. exists t0. now left.
          - destruct (IH Dc) as [ty H]. exists ty. now right. }
        destruct Hin as [ty Hin]. rewrite forallb_forall in Ok. specialize (Ok _ Hin).
        unfold item_ok in Ok. cbn [fst snd] in Ok. rewrite vfind_self in Ok by assumption.
        destruct (deser_with_default f v) as [x|]; [|discriminate].
        destruct (vf_am f); reflexivity.
      * (* absent: only possible for an allow_missing field *)
        apply db_cell_none in Dc. rewrite Names in Dc.
        rewrite forallb_forall in T1. specialize (T1 f Hf). unfold vf_required in T1.
        rewrite Sf, Dc in T1. cbn [negb andb orb] in T1. rewrite orb_false_r in T1.
        apply negb_true_iff in T1. apply negb_false_iff in T1. now rewrite T1.
    + apply sequence_not_panic. apply Forall_map. apply Forall_forall. intros f Hf.
      unfold vfin. destruct (vf_skip f) eqn:Sf; [discriminate|]. destruct (vf_am f) eqn:Am; [discriminate|].
      rewrite (Sp f Hf Sf), vstate_allnone by assumption. unfold slot_after.
      destruct (db_cell (vf_name f) its) as [v|] eqn:Dc.
      * assert (Hin : exists ty, In ((vf_name f, ty), v) its).
        { clear -Dc. induction its as [|[[m t0] v0] its IH]; [discriminate|]. cbn [db_cell] in Dc.
          destruct (String.eqb m (vf_name f)) eqn:E.
          - apply String.eqb_eq in E. injection Dc as ->. subst m. exists t0. now left.
          - destruct (IH Dc) as [ty H]. exists ty. now right. }
        destruct Hin as [ty Hin]. rewrite forallb_forall in Ok. specialize (Ok _ Hin).
        unfold item_ok in Ok. cbn [fst snd] in Ok. rewrite vfind_self in Ok by assumption.
        destruct (deser_with_default f v) as [x|]; [discriminate|discriminate].
      * exfalso. apply db_cell_none in Dc. rewrite Names in Dc.
        rewrite forallb_forall in T1. specialize (T1 f Hf). unfold vf_required in T1.
        rewrite Sf, Am, Dc in T1. discriminate.
  - destruct L as [n ->]. split; [|discriminate]. cbn [outcome_of].
    (* some bound item does not deserialize: the documented value of its field is an error *)
    assert (Bad : exists it, In it its /\ item_ok fs it = false).
    { clear -Ok. induction its as [|it its IH]; [discriminate|]. cbn [forallb] in Ok.
      destruct (item_ok fs it) eqn:E.
      - destruct (IH Ok) as [x [Hx Hb]]. exists x. split; [now right|assumption].
      - exists it. split; [now left|assumption]. }
    destruct Bad as ([[m ty] v] & Hin & Hb). unfold item_ok in Hb. cbn [fst snd] in Hb.
    destruct (vfind m fs) as [f|] eqn:F; [|discriminate].
    destruct (vfind_bound _ _ _ F) as [B Inf]. destruct (vbound_name' _ _ B) as [Nf Sf].
    assert (Dv : doc_field_value f its = None).
    { unfold doc_field_value. rewrite Sf.
      rewrite forallb_forall in T2. specialize (T2 f Inf). rewrite Sf in T2. apply Nat.leb_le in T2.
      rewrite <- Names in T2.
      assert (Dc : db_cell m its = Some v).
      { apply (db_cell_unique m its ty v); [rewrite <- Nf; exact T2 | exact Hin]. }
      rewrite Nf, Dc.
      destruct (deser_with_default f v); [discriminate|reflexivity]. }
    assert (X : all_some (map (fun f => doc_field_value f its) fs) = None).
    { clear -Inf Dv. induction fs as [|g fs IH]; [contradiction|]. cbn [map all_some].
      destruct Inf as [->|Inf].
      - now rewrite Dv.
      - destruct (doc_field_value g its); [|reflexivity]. now rewrite (IH Inf). }
    now rewrite X.
Qed.
(* ------------------------------------------------------------ by-name values: placement and round trip *)

Lemma ser_field_some t v d cl : ser_field t v d = Some cl -> cl = v.
Proof. unfold ser_field. destruct v; [destruct (accepts t d)|]; congruence. Qed.

Lemma deser_back f : val_ok (vf_ty f) (vf_val f) = true -> deser_with_default f (vf_val f) = Some (vf_val f).
Proof.
  unfold deser_with_default, deser_field, val_ok.
  destruct (vf_val f) as [p|]; intros H.
  - rewrite H. now destruct (vf_dwn f).
  - rewrite H. destruct (vf_dwn f); [|reflexivity]. destruct (vf_ty f); try discriminate; reflexivity.
Qed.

Lemma dtu_prefix fs db : exists rest, db = drop_trailing_unbound fs db ++ rest /\ forallb (unbound fs) rest = true.
Proof.
  induction db as [|c db IH]; [exists []; split; reflexivity|].
  destruct IH as (rest & E & U). cbn [drop_trailing_unbound].
  destruct (drop_trailing_unbound fs db) as [|x r] eqn:D.
  - destruct (vfind (fst c) fs) eqn:F.
    + exists rest. cbn [app] in *. split; [now f_equal|assumption].
    + exists (c :: rest). cbn [app] in *. split; [now f_equal|]. cbn [forallb]. unfold unbound at 1. now rewrite F.
  - exists rest. split; [|assumption]. cbn [app]. now f_equal.
Qed.

Lemma udt_items_app (g : dbfield -> cell) D rest :
  udt_items (D ++ rest) (map g D) = map (fun c => (c, g c)) D ++ map (fun c => (c, None)) rest.
Proof.
  induction D as [|c D IH]; simpl.
  - induction rest as [|c rest IH]; simpl; [reflexivity|]. now rewrite IH.
  - now rewrite IH.
Qed.

Lemma db_cell_app_l n l1 l2 v : db_cell n l1 = Some v -> db_cell n (l1 ++ l2) = Some v.
Proof.
  induction l1 as [|[[m t] x] l1 IH]; [discriminate|]. simpl. destruct (String.eqb m n); [tauto|exact IH].
Qed.

Lemma db_cell_app_r n l1 l2 : db_cell n l1 = None -> db_cell n (l1 ++ l2) = db_cell n l2.
Proof.
  induction l1 as [|[[m t] x] l1 IH]; [reflexivity|]. simpl. destruct (String.eqb m n); [discriminate|exact IH].
Qed.

Lemma roundtrip_field_value d db f : vnodup (vd_fields d) -> In f (vd_fields d) ->
  val_ok (vf_ty f) (vf_val f) = true ->
  doc_ser_value_by_name d db = Accept (map (cellof (vd_fields d)) (drop_trailing_unbound (vd_fields d) db)) ->
  existsb (ser_fails (vd_fields d)) db = false ->
  doc_field_value f (udt_items db (map (cellof (vd_fields d)) (drop_trailing_unbound (vd_fields d) db)))
  = Some (back_value (map fst db) f).
Proof.
  intros Hnd Hf Hv _ NoFail. set (fs := vd_fields d) in *.
  unfold doc_field_value, back_value. destruct (vf_skip f) eqn:Sf; [reflexivity|].
  destruct (dtu_prefix fs db) as (rest & E & U).
  set (D := drop_trailing_unbound fs db) in *.
  rewrite E at 1. rewrite udt_items_app.
  destruct (mem (vf_name f) (map fst db)) eqn:M.
  - (* present: the first field of that name is within the sent prefix and carries the value *)
    assert (X : db_cell (vf_name f) (map (fun c => (c, cellof fs c)) D) = Some (vf_val f)).
    { assert (MD : mem (vf_name f) (map fst D) = true).
      { rewrite E, map_app in M. apply mem_In in M. apply in_app_or in M as [M|M]; [now apply mem_In|].
        exfalso. apply in_map_iff in M as (c & Hc & Inc). rewrite forallb_forall in U. specialize (U c Inc).
        unfold unbound in U. rewrite Hc, vfind_self in U by assumption. discriminate. }
      assert (NF : existsb (ser_fails fs) D = false).
      { rewrite E, existsb_app in NoFail. now apply orb_false_iff in NoFail as [? _]. }
      clear -MD NF Hnd Hf Sf. induction D as [|c D IH]; [discriminate|].
      cbn [map db_cell]. destruct c as [m t]. cbn [fst]. unfold mem in MD. cbn [map fst existsb] in MD, NF.
      apply orb_false_iff in NF as [NF1 NF2].
      destruct (String.eqb m (vf_name f)) eqn:Em.
      - apply String.eqb_eq in Em. subst m. f_equal. unfold cellof, ser_fails in *. cbn [fst snd] in *.
        rewrite vfind_self in * by assumption.
        destruct (ser_field (vf_ty f) (vf_val f) t) as [cl|] eqn:S; [|discriminate].
        now apply ser_field_some in S.
      - rewrite String.eqb_sym, Em in MD. cbn [orb] in MD. now apply IH. }
    rewrite (db_cell_app_l _ _ _ _ X). now apply deser_back.
  - assert (X : db_cell (vf_name f) (map (fun c => (c, cellof fs c)) D ++ map (fun c => (c, None)) rest) = None).
    { apply db_cell_none. rewrite !map_app, !map_map. cbn [fst]. rewrite <- map_app, <- E. exact M. }
    now rewrite X.
Qed.
Lemma all_some_map {A B} (g : A -> option B) (h : A -> B) l :
  (forall x, In x l -> g x = Some (h x)) -> all_some (map g l) = Some (map h l).
Proof.
  induction l as [|x l IH]; intros H; [reflexivity|]. cbn [map all_some].
  rewrite (H x) by now left. rewrite IH; [reflexivity|]. intros y Hy. apply H. now right.
Qed.

Lemma outcome_accept {A} (r : result err A) a : outcome_of r = Accept a -> r = Ok a.
Proof. destruct r; cbn; congruence. Qed.

Theorem roundtrip_value_by_name d db cells : vnodup (vd_fields d) -> vvals_ok d = true ->
  gen_ser_value_by_name d db = Ok cells -> gen_typeck_value_by_name d db = Ok tt ->
  gen_deser_value_by_name d db cells = Ok (map (back_value (map fst db)) (vd_fields d)).
Proof.
  intros Hnd Hv Hs Ht.
  pose proof (ser_value_by_name_doc d db Hnd) as S. rewrite Hs in S. cbn [outcome_of] in S.
  apply (proj1 (typeck_value_by_name_doc d db Hnd)) in Ht.
  destruct (deser_value_by_name_doc d db cells Hnd Ht) as [D _].
  apply outcome_accept. rewrite D.
  assert (Hc : cells = map (cellof (vd_fields d)) (drop_trailing_unbound (vd_fields d) db) /\
               existsb (ser_fails (vd_fields d)) db = false).
  { unfold doc_ser_value_by_name in S. cbv zeta in S.
    repeat match type of S with
           | context [if ?b then _ else _] => destruct b eqn:?; try discriminate S
           end.
    split; [injection S as S; exact S | assumption]. }
  destruct Hc as [-> NF].
  rewrite (all_some_map _ (back_value (map fst db))); [reflexivity|].
  intros f Hf. apply roundtrip_field_value; try assumption.
  - unfold vvals_ok in Hv. rewrite forallb_forall in Hv. now apply Hv.
  - symmetry. exact S.
Qed.

(* values placed in the database's order *)
Definition value_of (fs : list vfield) (n : string) : cell :=
  match vfind n fs with Some f => vf_val f | None => None end.

Theorem by_name_ser_value d db : vnodup (vd_fields d) ->
  Permutation (map fst db) (map vf_name (nonskipped (vd_fields d))) ->
  (forall c f, In c db -> vfind (fst c) (vd_fields d) = Some f -> accepts (vf_ty f) (snd c) = true) ->
  gen_ser_value_by_name d db = Ok (map (fun c => value_of (vd_fields d) (fst c)) db).
Proof.
  intros Hnd P Acc. apply outcome_accept. rewrite ser_value_by_name_doc by assumption.
  unfold doc_ser_value_by_name. cbv zeta. set (fs := vd_fields d) in *.
  assert (Bound : forall c, In c db -> exists f, vfind (fst c) fs = Some f /\ In f fs /\ vf_skip f = false).
  { intros c Hc. assert (In (fst c) (map vf_name (nonskipped fs))).
    { eapply Permutation_in; [exact P|]. now apply in_map. }
    apply in_map_iff in H as (f & Nf & Inf). unfold nonskipped in Inf. apply filter_In in Inf as [Inf Sf].
    apply negb_true_iff in Sf. exists f. rewrite <- Nf. split; [now apply vfind_self|tauto]. }
  assert (E1 : existsb (fun f => vf_required f && negb (mem (vf_name f) (map fst db))) fs = false).
  { apply not_true_is_false. intros H. apply existsb_exists in H as (f & Hf & H).
    apply andb_true_iff in H as [R M]. apply negb_true_iff in M.
    unfold vf_required in R. apply andb_true_iff in R as [Sf _].
    assert (In (vf_name f) (map fst db)).
    { eapply Permutation_in; [apply Permutation_sym; exact P|]. apply in_map. unfold nonskipped.
      apply filter_In. tauto. }
    apply mem_In in H. congruence. }
  assert (E2 : existsb (fun c : string * dty => match vfind (fst c) fs with None => true | Some _ => false end) db = false).
  { apply not_true_is_false. intros H. apply existsb_exists in H as (c & Hc & H).
    destruct (Bound c Hc) as (f & F & _). now rewrite F in H. }
  assert (E3 : existsb (fun c : string * dty => match vfind (fst c) fs with
             | Some f => match ser_field (vf_ty f) (vf_val f) (snd c) with Some _ => false | None => true end
             | None => false end) db = false).
  { apply not_true_is_false. intros H. apply existsb_exists in H as (c & Hc & H).
    destruct (Bound c Hc) as (f & F & _). rewrite F in H.
    unfold ser_field in H. rewrite (Acc c f Hc F) in H. now destruct (vf_val f). }
  rewrite E1, E2, E3, andb_false_r.
  rewrite dtu_all_bound by exact E2. f_equal. apply map_ext_in. intros c Hc.
  destruct (Bound c Hc) as (f & F & _). unfold value_of. rewrite F.
  unfold ser_field. rewrite (Acc c f Hc F). now destruct (vf_val f).
Qed.
