(* C01, deepening round 4 (proof-only): characterising theorems for the boolean predicates that are
   extracted and decide a verdict in ocaml/c01/driver.ml but occurred in no theorem so far
   (conforms_ok, cell_okb, known_class_of, cells_hole, spec_vint via Vint_proofs, of_cell).  Statements in Props/C01.v.
   A separate file so that Proofs/Cql_proofs.v (imported by other slices) is not rebuilt. *)
From SV Require Import Base.Prelude Base.Bytes Model.Vint Model.Cql Model.CqlTyped Proofs.Vint_proofs Proofs.Cql_proofs Proofs.CqlTyped_proofs.
Open Scope N_scope.

Lemma bytes_eqb_iff a b : bytes_eqb a b = true <-> a = b.
Proof.
  unfold bytes_eqb. destruct (list_eq_dec N.eq_dec a b) as [E|E]; split; intros H; try assumption; try reflexivity.
  - discriminate H.
  - contradiction.
Qed.

Lemma conforms_ok_iff t c b : conforms_ok t c b = true <-> EncCell t c b.
Proof.
  unfold conforms_ok, EncCell. destruct (enc_cell_spec t c) as [e|].
  - rewrite bytes_eqb_iff. split; intros H; [subst; reflexivity|injection H as H; exact H].
  - split; intros H; discriminate H.
Qed.

Lemma conforms_ok_model t c b :
  wf_cell t c = true ->
  match c with CVal v => vector_hole t v = false | _ => True end ->
  ser_cell t c = Ok b -> conforms_ok t c b = true.
Proof. intros Hw Hk Hs. apply conforms_ok_iff. exact (conforms_cell t c b Hw Hk Hs). Qed.

Lemma cell_okb_iff e c : cell_okb e c = true <-> cell_ok e c.
Proof.
  destruct c as [| |v]; cbn [cell_okb cell_ok]; [tauto|tauto|].
  rewrite andb_true_iff, negb_true_iff. tauto.
Qed.

Lemma cells_okb_iff e cs : forallb (cell_okb e) cs = true <-> Forall (cell_ok e) cs.
Proof.
  rewrite forallb_forall, Forall_forall. split; intros H x Hx; apply cell_okb_iff, H, Hx.
Qed.

Lemma sequence_cells_decided e cs b :
  wf_type e = true -> forallb (cell_okb e) cs = true -> ser_sequence_cells e cs = Ok b ->
  enc_seq_cells_spec e cs = Some b /\
  exists body, b = framed body /\ blen body <= i32_max /\
               deser_listlike_cells e body = Ok (map (pad_cell e) cs).
Proof.
  intros Hw Hc Hs. apply cells_okb_iff in Hc. split.
  - exact (conforms_sequence_cells e cs b Hw Hc Hs).
  - exact (roundtrip_sequence_cells e cs b Hw Hc Hs).
Qed.

Lemma known_class_of_char t v :
  (known_class_of t v = None <-> known_class t v = false) /\
  (known_class_of t v = Some KA_vector_null_element <-> vector_hole t v = true) /\
  (known_class_of t v = Some KB_empty_tuple <-> vector_hole t v = false /\ empty_tuple_inside t v = true).
Proof.
  unfold known_class_of. rewrite known_class_split.
  destruct (vector_hole t v), (empty_tuple_inside t v); intuition congruence.
Qed.

Lemma cells_hole_char cs :
  cells_hole cs = false <-> exists vs, cs = map CVal vs /\ ~ In CEmpty vs.
Proof.
  unfold cells_hole. induction cs as [|c cs IH]; cbn [existsb].
  - split; [intros _; exists []; split; [reflexivity|intros []]|reflexivity].
  - rewrite orb_false_iff, IH. split.
    + intros [Hc (vs & -> & Hn)]. destruct c as [| |v]; try discriminate Hc.
      exists (v :: vs). split; [reflexivity|]. intros [E|E]; [subst v; discriminate Hc|exact (Hn E)].
    + intros (vs & E & Hn). destruct vs as [|v vs]; [discriminate E|]. cbn [map] in E. injection E as -> ->.
      split.
      * destruct v; try reflexivity. exfalso. apply Hn. left. reflexivity.
      * exists vs. split; [reflexivity|]. intros Hi. apply Hn. right. exact Hi.
Qed.

Lemma vector_cells_no_hole e d cs :
  cells_hole cs = false ->
  exists vs, cs = map CVal vs /\ ~ In CEmpty vs /\
             ser_vector_cells e d cs = ser_cell (TVector e d) (CVal (CVector vs)).
Proof.
  intros H. apply cells_hole_char in H as (vs & -> & Hn). exists vs. split; [reflexivity|]. split; [exact Hn|].
  apply ser_vector_cells_vals.
Qed.

(* of_cell (the driver rebuilds the model's carrier value from the cell of the case line with it) is a
   left inverse of embed on plain carriers, for cells that are already in padded form *)
Lemma plain_embed_not_unset k : plain k = true -> forall t v, embed k t v <> Some CUnset.
Proof.
  induction k as [l| |k IH|k IH|k IH|k IH|k IH|k IH|ka IHa kb IHb|ks]; cbn [plain embed]; intros Hp t v; try discriminate Hp.
  - destruct (leaf_embed l t v); cbn; discriminate.
  - apply andb_true_iff in Hp as [_ Hp]. destruct v; try discriminate. apply IH. exact Hp.
  - apply andb_true_iff in Hp as [_ Hp]. destruct (negb _); [discriminate|]. destruct v; try discriminate. apply IH. exact Hp.
  - destruct v; try discriminate. apply IH. exact Hp.
  - destruct v; try discriminate; destruct t; try discriminate; destruct (all_some _); discriminate.
  - destruct v; try discriminate; destruct t; try discriminate; destruct (all_some _); discriminate.
  - destruct v; try discriminate; destruct t; try discriminate; destruct (all_some _); discriminate.
  - destruct v; try discriminate; destruct t; try discriminate.
    match goal with |- option_map _ ?o <> _ => destruct o end; discriminate.
Qed.

Lemma of_cell_val_base k t x v :
  match k with KOption _ | KMaybeUnset _ | KMaybeEmpty _ | KPtr _ => False | _ => True end ->
  unembed k t x = Ok v -> of_cell k t (CVal x) = Some v.
Proof. intros Hk Hu. destruct k; try contradiction; cbn [of_cell]; rewrite Hu; reflexivity. Qed.

Lemma of_cell_embed k : plain k = true -> forall t v c,
  typed_check k t = true -> embed k t v = Some c -> pad_cell t c = c -> of_cell k t c = Some v.
Proof.
  induction k as [l| |k IH|k IH|k IH|k IH|k IH|k IH|ka IHa kb IHb|ks]; intros Hp t v c Hc He Hpad;
    try discriminate Hp.
  - (* leaf *) destruct c as [| |x]; [cbn [embed] in He; destruct (leaf_embed l t v); discriminate He
                                    |cbn [embed] in He; destruct (leaf_embed l t v); discriminate He|].
    apply of_cell_val_base; [exact I|]. cbn [pad_cell] in Hpad. injection Hpad as Hpad. rewrite <- Hpad.
    exact (unembed_pad_embed (KLeaf l) t v x Hp Hc He).
  - (* Option *)
    cbn [plain] in Hp. apply andb_true_iff in Hp as [Hn Hp]. apply negb_true_iff in Hn.
    cbn [typed_check] in Hc. cbn [embed] in He. destruct v; try discriminate He.
    + apply some_inj in He. subst c. reflexivity.
    + destruct c as [| |x].
      * exfalso. exact (nullable_embed k Hn t v He).
      * exfalso. exact (plain_embed_not_unset k Hp t v He).
      * cbn [of_cell]. rewrite (IH Hp t v (CVal x) Hc He Hpad). reflexivity.
  - (* MaybeEmpty *)
    cbn [plain] in Hp. apply andb_true_iff in Hp as [Hem Hp].
    cbn [typed_check] in Hc. apply andb_true_iff in Hc as [_ Hc].
    cbn [embed] in He. destruct (negb _); [discriminate He|].
    destruct k as [l| | | | | | | | |]; try discriminate Hem.
    destruct v; try discriminate He.
    + apply some_inj in He. subst c. reflexivity.
    + cbn [embed] in He. destruct (leaf_embed l t v) as [y|] eqn:E; [|discriminate He]. cbn in He.
      apply some_inj in He. subst c. pose proof (leaf_embed_not_empty l t v y E) as Hne.
      assert (Hin : of_cell (KLeaf l) t (CVal y) = Some v).
      { apply (IH Hp t v (CVal y) Hc); [cbn [embed]; rewrite E; reflexivity|exact Hpad]. }
      destruct y; try contradiction; cbn [of_cell] in *; rewrite Hin; reflexivity.
  - (* Ptr *)
    cbn [plain] in Hp. cbn [typed_check] in Hc. cbn [embed] in He. destruct v; try discriminate He.
    destruct c as [| |x]; cbn [of_cell]; rewrite (IH Hp t v _ Hc He Hpad); reflexivity.
  - (* Vec *)
    destruct c as [| |x]; [exfalso; exact (nullable_embed (KVec k) eq_refl t v He)
                          |exfalso; exact (plain_embed_not_unset (KVec k) Hp t v He)|].
    apply of_cell_val_base; [exact I|]. cbn [pad_cell] in Hpad. injection Hpad as Hpad. rewrite <- Hpad.
    exact (unembed_pad_embed (KVec k) t v x Hp Hc He).
  - destruct c as [| |x]; [exfalso; exact (nullable_embed (KSetC k) eq_refl t v He)
                          |exfalso; exact (plain_embed_not_unset (KSetC k) Hp t v He)|].
    apply of_cell_val_base; [exact I|]. cbn [pad_cell] in Hpad. injection Hpad as Hpad. rewrite <- Hpad.
    exact (unembed_pad_embed (KSetC k) t v x Hp Hc He).
  - destruct c as [| |x]; [exfalso; exact (nullable_embed (KMapC ka kb) eq_refl t v He)
                          |exfalso; exact (plain_embed_not_unset (KMapC ka kb) Hp t v He)|].
    apply of_cell_val_base; [exact I|]. cbn [pad_cell] in Hpad. injection Hpad as Hpad. rewrite <- Hpad.
    exact (unembed_pad_embed (KMapC ka kb) t v x Hp Hc He).
  - destruct c as [| |x]; [exfalso; exact (nullable_embed (KTuple ks) eq_refl t v He)
                          |exfalso; exact (plain_embed_not_unset (KTuple ks) Hp t v He)|].
    apply of_cell_val_base; [exact I|]. cbn [pad_cell] in Hpad. injection Hpad as Hpad. rewrite <- Hpad.
    exact (unembed_pad_embed (KTuple ks) t v x Hp Hc He).
Qed.
