(* Proofs about Model/Accept.v (property C17).  Statements are in Props/C17.v. *)
From SV Require Import Base.Prelude Base.Bytes Model.Vint Model.Cql Model.Accept Proofs.Cql_proofs.
From SV Require Model.Request Proofs.Request_proofs.
From Coq Require Import Permutation.
Open Scope N_scope.

(* ====================================================================================== *)
(* 1. Writers are append-only and independent of what the buffer already holds             *)
(* ====================================================================================== *)

Definition frame (w : writer) : Prop := forall buf, w buf = (buf ++ fst (w []), snd (w [])).

Lemma frame_ok : frame w_ok.
Proof. intros buf. unfold w_ok. simpl. now rewrite app_nil_r. Qed.
Lemma frame_fail e : frame (w_fail e).
Proof. intros buf. unfold w_fail. simpl. now rewrite app_nil_r. Qed.
Lemma frame_append c : frame (w_append c).
Proof. intros buf. reflexivity. Qed.

Lemma frame_then w k : frame w -> frame k -> frame (w_then w k).
Proof.
  intros Hw Hk buf. unfold w_then. rewrite (Hw buf).
  destruct (w []) as [o [e|]]; simpl.
  - reflexivity.
  - rewrite (Hk (buf ++ o)), (Hk o). simpl. now rewrite app_assoc.
Qed.

Lemma frame_loop {A} (f : A -> writer) l : (forall x, In x l -> frame (f x)) -> frame (w_loop f l).
Proof.
  induction l as [|x r IH]; intros H; simpl.
  - apply frame_ok.
  - apply frame_then; [apply H; now left|apply IH; intros y Hy; apply H; now right].
Qed.

Lemma frame_set_value ws c : frame (w_set_value ws c).
Proof.
  intros buf. unfold w_set_value. destruct (i32_max <? blen c); simpl; [now rewrite app_nil_r|reflexivity].
Qed.

Lemma frame_ext w w' : (forall buf, w buf = w' buf) -> frame w' -> frame w.
Proof. intros E H buf. rewrite !E. apply H. Qed.

Lemma frame_if (c : bool) w1 w2 : frame w1 -> frame w2 -> frame (if c then w1 else w2).
Proof. destruct c; auto. Qed.

Lemma firstn_app_exact {A} (a b : list A) : firstn (List.length a) (a ++ b) = a.
Proof. rewrite firstn_app, Nat.sub_diag, firstn_all. simpl. now rewrite app_nil_r. Qed.
Lemma skipn_app_plus {A} (a b : list A) n : skipn (List.length a + n) (a ++ b) = skipn n b.
Proof.
  rewrite skipn_app. replace (List.length a + n - List.length a)%nat with n by lia.
  rewrite skipn_all2 by lia. reflexivity.
Qed.

Lemma patch_app buf o four : patch (buf ++ o) (List.length buf) four = buf ++ four ++ skipn 4 o.
Proof. unfold patch. now rewrite firstn_app_exact, skipn_app_plus. Qed.

Definition builder_pre (ws : bool) : writer := if ws then w_append placeholder else w_ok.
Lemma frame_builder_pre ws : frame (builder_pre ws).
Proof. destruct ws; [apply frame_append|apply frame_ok]. Qed.

(* closed form of a value builder around an append-only body *)
Lemma builder_eq ws body buf : frame body ->
  w_builder ws body buf =
  match w_then (builder_pre ws) body [] with
  | (o, Some e) => (buf ++ o, Some e)
  | (o, None) =>
      if ws then
        if i32_max <? blen o - 4 then (buf ++ o, Some (KE SE_SizeOverflow))
        else (buf ++ be32 (blen o - 4) ++ skipn 4 o, None)
      else (buf ++ o, None)
  end.
Proof.
  intros Hb. unfold w_builder. fold (builder_pre ws).
  assert (Hpre : frame (w_then (builder_pre ws) body)) by (apply frame_then; [apply frame_builder_pre|exact Hb]).
  unfold w_then at 1. rewrite (Hpre buf).
  destruct (w_then (builder_pre ws) body []) as [o [e|]]; cbn [fst snd]; [reflexivity|].
  unfold w_finish. destruct ws; [|reflexivity].
  assert (E : blen (buf ++ o) - N.of_nat (List.length buf) - 4 = blen o - 4)
    by (rewrite blen_app; unfold blen; lia).
  rewrite E. destruct (i32_max <? blen o - 4); [reflexivity|].
  now rewrite patch_app.
Qed.

Lemma frame_builder ws body : frame body -> frame (w_builder ws body).
Proof.
  intros Hb buf. rewrite (builder_eq ws body buf Hb), (builder_eq ws body [] Hb).
  destruct (w_then (builder_pre ws) body []) as [o [e|]]; cbn [fst snd]; [reflexivity|].
  destruct ws; [|reflexivity]. destruct (i32_max <? blen o - 4); reflexivity.
Qed.

Lemma frame_var_elem w : frame (w_var_elem w).
Proof.
  intros buf. unfold w_var_elem. destruct (w []) as [eb [e|]]; cbn [fst snd].
  - now rewrite app_nil_r.
  - reflexivity.
Qed.

Lemma frame_sequence {A} ws (f : A -> writer) l :
  (forall x, In x l -> frame (f x)) -> frame (w_sequence ws f l).
Proof.
  intros H. unfold w_sequence. apply frame_builder.
  destruct (i32_max <? N.of_nat (List.length l)).
  - apply (frame_fail (KE SE_TooManyElements)).
  - apply (frame_then (w_append _) (w_loop f l)); [apply frame_append|apply frame_loop, H].
Qed.

Lemma frame_mapping {A B} ws (fk : A -> writer) (fv : B -> writer) l :
  (forall kv, In kv l -> frame (fk (fst kv)) /\ frame (fv (snd kv))) -> frame (w_mapping ws fk fv l).
Proof.
  intros H. unfold w_mapping. apply frame_builder.
  destruct (i32_max <? N.of_nat (List.length l)).
  - apply (frame_fail (KE SE_TooManyElements)).
  - apply (frame_then (w_append _)); [apply frame_append|].
    apply frame_loop. intros kv Hkv. destruct (H kv Hkv). now apply frame_then.
Qed.

Lemma frame_vector {A} ws fixed dim (f : A -> writer) l :
  (forall x, In x l -> frame (f x)) -> frame (w_vector ws fixed dim f l).
Proof.
  intros H. unfold w_vector. destruct (negb _); [apply frame_fail|].
  apply frame_builder, frame_loop. intros x Hx. destruct fixed; [now apply H|apply frame_var_elem].
Qed.

Lemma frame_ser_leaf b ws t x : frame (ser_leaf b ws t x).
Proof.
  unfold ser_leaf. destruct (negb _); [apply frame_fail|]. destruct (negb _); [apply frame_fail|].
  destruct (leaf_bytes x); [|apply frame_fail].
  destruct (uses_builder b); [apply frame_builder|]; destruct (value_overflow b x);
    try apply frame_fail; try apply frame_append; apply frame_set_value.
Qed.

(* ---- top-level twins of the nested loops of ser_dyn / ser_buf --------------------------- *)

Fixpoint dyn_udt_go (f : ctype -> cval -> writer) (fts : list (name * ctype)) (st : list (name * option cval)) : writer :=
  match fts with
  | [] => if is_nil st then w_ok else w_fail (KE SE_NoSuchFieldInUdt)
  | (fname, ft) :: r =>
      w_then (match udt_field_value fname st with
              | None => w_append null_marker
              | Some x => f ft x
              end)
             (dyn_udt_go f r (remove_name fname st))
  end.

Fixpoint dyn_tuple_go (f : ctype -> cval -> writer) (ts : list ctype) (l : list (option cval)) : writer :=
  match ts, l with
  | et :: ts', ox :: l' =>
      w_then (match ox with None => w_append null_marker | Some x => f et x end) (dyn_tuple_go f ts' l')
  | _, _ => w_ok
  end.

Fixpoint tuple_go (f : carrier -> ctype -> kval -> writer) (ks : list carrier) (ts : list ctype) (vs : list kval) : writer :=
  match ks, ts, vs with
  | [], _, [] => w_ok
  | k1 :: ks', t1 :: ts', v1 :: vs' => w_then (f k1 t1 v1) (tuple_go f ks' ts' vs')
  | _, _, _ => ill
  end.

Lemma ser_dyn_udt ws ks' nm' fts ks nm fields :
  ser_dyn ws (TUdt ks' nm' fts) (CUdt ks nm fields) =
  if negb (bytes_eqb ks ks' && bytes_eqb nm nm') then w_fail (KE SE_UdtNameMismatch)
  else w_builder ws (dyn_udt_go (ser_dyn true) fts fields).
Proof.
  cbn [ser_dyn]. destruct (negb _); [reflexivity|]. f_equal.
  revert fields. induction fts as [|[fname ft] r IH]; intros st; [reflexivity|].
  cbn [dyn_udt_go]. rewrite <- IH. reflexivity.
Qed.

Lemma ser_dyn_tuple ws ts l :
  ser_dyn ws (TTuple ts) (CTuple l) =
  if (List.length ts <? List.length l)%nat then w_fail (KE SE_TupleWrongCount)
  else w_builder ws (dyn_tuple_go (ser_dyn true) ts l).
Proof.
  cbn [ser_dyn]. destruct (_ <? _)%nat; [reflexivity|]. f_equal.
  revert l. induction ts as [|et ts' IH]; intros l; [reflexivity|].
  destruct l as [|ox l']; [reflexivity|]. cbn [dyn_tuple_go]. rewrite <- IH. reflexivity.
Qed.

Lemma ser_buf_tuple ks ws t vs :
  ser_buf (KTuple ks) ws t (VTup vs) =
  match t with
  | TTuple ts =>
      if (List.length ts <? List.length ks)%nat then w_fail (KE SE_TupleWrongCount)
      else w_builder ws (tuple_go (fun k => ser_buf k true) ks ts vs)
  | _ => w_fail (KE SE_NotTuple)
  end.
Proof.
  cbn [ser_buf]. destruct t; try reflexivity. destruct (_ <? _)%nat; [reflexivity|]. f_equal.
  revert ts vs. induction ks as [|k1 ks' IH]; intros ts vs; [reflexivity|].
  destruct ts as [|t1 ts']; [reflexivity|]. destruct vs as [|v1 vs']; [reflexivity|].
  cbn [tuple_go]. rewrite <- IH. reflexivity.
Qed.

Lemma frame_dyn_tuple_go (f : ctype -> cval -> writer) ts :
  Forall (fun et => forall x, frame (f et x)) ts -> forall l, frame (dyn_tuple_go f ts l).
Proof.
  induction 1 as [|et ts' Het _ IH]; intros l; [apply frame_ok|].
  destruct l as [|ox l']; [apply frame_ok|]. cbn [dyn_tuple_go]. apply frame_then; [|apply IH].
  destruct ox; [apply Het|apply frame_append].
Qed.

Lemma frame_dyn_udt_go (f : ctype -> cval -> writer) fts :
  Forall (fun ft => forall x, frame (f (snd ft) x)) fts -> forall st, frame (dyn_udt_go f fts st).
Proof.
  induction 1 as [|[fname ft] r Hft _ IH]; intros st; cbn [dyn_udt_go].
  - destruct (is_nil st); [apply frame_ok|apply frame_fail].
  - apply frame_then; [|apply IH]. destruct (udt_field_value fname st); [apply Hft|apply frame_append].
Qed.

Lemma frame_ser_dyn t : forall ws v, frame (ser_dyn ws t v).
Proof.
  induction t as [n|e IHe|e IHe|k e IHk IHe|ts IHts|ks' nm' fts IHfs|e d IHe] using ctype_ind'; intros ws v.
  all: destruct v;
    try (rewrite ser_dyn_tuple; destruct (_ <? _)%nat; [apply frame_fail|];
         apply frame_builder, frame_dyn_tuple_go; eapply Forall_impl; [|exact IHts]; intros a Ha x; apply Ha);
    try (rewrite ser_dyn_udt; destruct (negb _); [apply frame_fail|];
         apply frame_builder, frame_dyn_udt_go; eapply Forall_impl; [|exact IHfs]; intros a Ha x; apply Ha);
    cbn [ser_dyn];
    try apply frame_ser_leaf; try apply frame_fail;
    try (destruct (supports_empty _); [apply frame_set_value|apply frame_fail]);
    try (apply frame_sequence; intros; apply IHe);
    try (apply frame_vector; intros; apply IHe);
    try (apply frame_mapping; intros; split; [apply IHk|apply IHe]).
Qed.

(* ---- induction principle for carriers (nested through the list of a tuple) --------------- *)
Section carrier_ind'.
  Variable P : carrier -> Prop.
  Hypothesis HBase : forall b, P (KBase b).
  Hypothesis HCql : P KCqlValue.
  Hypothesis HOption : forall k, P k -> P (KOption k).
  Hypothesis HMaybeUnset : forall k, P k -> P (KMaybeUnset k).
  Hypothesis HMaybeEmpty : forall k, P k -> P (KMaybeEmpty k).
  Hypothesis HRef : forall k, P k -> P (KRef k).
  Hypothesis HBox : forall k, P k -> P (KBox k).
  Hypothesis HArc : forall k, P k -> P (KArc k).
  Hypothesis HCow : forall k, P k -> P (KCow k).
  Hypothesis HSecret08 : forall k, P k -> P (KSecret08 k).
  Hypothesis HSecretBox10 : forall k, P k -> P (KSecretBox10 k).
  Hypothesis HVec : forall k, P k -> P (KVec k).
  Hypothesis HSlice : forall k, P k -> P (KSlice k).
  Hypothesis HHashSet : forall k, P k -> P (KHashSet k).
  Hypothesis HBTreeSet : forall k, P k -> P (KBTreeSet k).
  Hypothesis HHashMap : forall a b, P a -> P b -> P (KHashMap a b).
  Hypothesis HBTreeMap : forall a b, P a -> P b -> P (KBTreeMap a b).
  Hypothesis HTuple : forall ks, Forall P ks -> P (KTuple ks).
  Hypothesis HSecretString : P KSecretString.
  Hypothesis HSecretSlice : forall k, P k -> P (KSecretSlice k).
  Hypothesis HListIter : forall k, P k -> P (KListIter k).
  Hypothesis HVecIter : forall k, P k -> P (KVecIter k).
  Hypothesis HMapIter : forall a b, P a -> P b -> P (KMapIter a b).
  Hypothesis HUdtIter : P KUdtIter.
  Hypothesis HFrameSlice : P KFrameSlice.

  Fixpoint carrier_ind' (k : carrier) : P k :=
    match k with
    | KBase b => HBase b
    | KCqlValue => HCql
    | KOption k => HOption k (carrier_ind' k)
    | KMaybeUnset k => HMaybeUnset k (carrier_ind' k)
    | KMaybeEmpty k => HMaybeEmpty k (carrier_ind' k)
    | KRef k => HRef k (carrier_ind' k)
    | KBox k => HBox k (carrier_ind' k)
    | KArc k => HArc k (carrier_ind' k)
    | KCow k => HCow k (carrier_ind' k)
    | KSecret08 k => HSecret08 k (carrier_ind' k)
    | KSecretBox10 k => HSecretBox10 k (carrier_ind' k)
    | KVec k => HVec k (carrier_ind' k)
    | KSlice k => HSlice k (carrier_ind' k)
    | KHashSet k => HHashSet k (carrier_ind' k)
    | KBTreeSet k => HBTreeSet k (carrier_ind' k)
    | KHashMap a b => HHashMap a b (carrier_ind' a) (carrier_ind' b)
    | KBTreeMap a b => HBTreeMap a b (carrier_ind' a) (carrier_ind' b)
    | KTuple ks =>
        HTuple ks ((fix go (ks : list carrier) : Forall P ks :=
                      match ks with
                      | [] => Forall_nil _
                      | x :: r => Forall_cons x (carrier_ind' x) (go r)
                      end) ks)
    | KSecretString => HSecretString
    | KSecretSlice k => HSecretSlice k (carrier_ind' k)
    | KListIter k => HListIter k (carrier_ind' k)
    | KVecIter k => HVecIter k (carrier_ind' k)
    | KMapIter a b => HMapIter a b (carrier_ind' a) (carrier_ind' b)
    | KUdtIter => HUdtIter
    | KFrameSlice => HFrameSlice
    end.
End carrier_ind'.

Lemma frame_ill : frame ill.
Proof. apply frame_fail. Qed.

Lemma frame_tuple_go (f : carrier -> ctype -> kval -> writer) ks :
  Forall (fun k => forall t v, frame (f k t v)) ks -> forall ts vs, frame (tuple_go f ks ts vs).
Proof.
  induction 1 as [|k1 ks' Hk _ IH]; intros ts vs.
  - destruct vs; [apply frame_ok|apply frame_ill]. 
  - destruct ts as [|t1 ts']; [apply frame_ill|]. destruct vs as [|v1 vs']; [apply frame_ill|].
    cbn [tuple_go]. apply frame_then; [apply Hk|apply IH].
Qed.

Theorem frame_ser_buf k : forall ws t v, frame (ser_buf k ws t v).
Proof.
  induction k using carrier_ind'; intros ws t v.
  all: try (destruct v; try apply frame_ill; rewrite ser_buf_tuple; destruct t; try apply frame_fail;
            destruct (_ <? _)%nat; [apply frame_fail|]; apply frame_builder, frame_tuple_go;
            eapply Forall_impl; [|eassumption]; intros a Ha t' v'; apply Ha).
  all: cbn [ser_buf]; try apply frame_ill.
  - destruct b; destruct v; try apply frame_ill; try apply frame_ser_leaf; apply frame_append.
  - destruct v; try apply frame_ill. apply frame_ser_dyn.
  - destruct v; try apply frame_ill; [apply frame_append|apply IHk].
  - destruct v; try apply frame_ill; [apply frame_append|apply IHk].
  - destruct (negb _); [apply frame_fail|]. destruct v; try apply frame_ill; [apply frame_set_value|apply IHk].
  - destruct v; try apply frame_ill; apply IHk.
  - destruct v; try apply frame_ill; apply IHk.
  - destruct v; try apply frame_ill; apply IHk.
  - destruct v; try apply frame_ill; apply IHk.
  - destruct v; try apply frame_ill; apply IHk.
  - destruct v; try apply frame_ill; apply IHk.
  - destruct v; try apply frame_ill. destruct t; try apply frame_fail;
      [apply frame_sequence|apply frame_sequence|apply frame_vector]; intros; apply IHk.
  - destruct v; try apply frame_ill. destruct t; try apply frame_fail;
      [apply frame_sequence|apply frame_sequence|apply frame_vector]; intros; apply IHk.
  - destruct v; try apply frame_ill. destruct t; try apply frame_fail; apply frame_sequence; intros; apply IHk.
  - destruct v; try apply frame_ill. destruct t; try apply frame_fail; apply frame_sequence; intros; apply IHk.
  - destruct v; try apply frame_ill. destruct t; try apply frame_fail. apply frame_mapping; intros; split; [apply IHk1|apply IHk2].
  - destruct v; try apply frame_ill. destruct t; try apply frame_fail. apply frame_mapping; intros; split; [apply IHk1|apply IHk2].
Qed.

(* ====================================================================================== *)
(* 2. What a sized (write_size = true) writer leaves behind when it succeeds: one [value]   *)
(* ====================================================================================== *)

Definition cell_out (o : bytes) : Prop :=
  o = null_marker \/ o = unset_marker \/ exists c, o = be32 (blen c) ++ c /\ blen c <= i32_max.

Definition sized_w (w : writer) : Prop := forall o, w [] = (o, None) -> cell_out o.

Lemma sized_fail e : sized_w (w_fail e).
Proof. intros o H. discriminate. Qed.

Lemma sized_set_value c : sized_w (w_set_value true c).
Proof.
  intros o. unfold w_set_value. destruct (i32_max <? blen c) eqn:E; [discriminate|].
  intros H. inversion H; subst. right; right. exists c. split; [reflexivity|]. apply N.ltb_ge in E. exact E.
Qed.

Lemma placeholder_length : List.length placeholder = 4%nat.
Proof. apply enc_signed_length. Qed.

Lemma sized_builder body : frame body -> sized_w (w_builder true body).
Proof.
  intros Hb o. rewrite (builder_eq true body [] Hb). cbn [builder_pre].
  unfold w_then at 1. cbn [w_append app]. rewrite (Hb placeholder).
  destruct (body []) as [x [e|]]; cbn [fst snd]; [discriminate|].
  destruct (i32_max <? blen (placeholder ++ x) - 4) eqn:E; [discriminate|].
  intros H. apply (f_equal fst) in H. cbn [fst] in H. subst o. right; right. exists x.
  assert (L : blen (placeholder ++ x) - 4 = blen x).
  { rewrite blen_app. unfold blen at 1. rewrite placeholder_length. lia. }
  rewrite L in *. split.
  - f_equal.
  - apply N.ltb_ge in E. exact E.
Qed.

Lemma sized_ser_leaf b t x : sized_w (ser_leaf b true t x).
Proof.
  unfold ser_leaf. destruct (negb _); [apply sized_fail|]. destruct (negb _); [apply sized_fail|].
  destruct (leaf_bytes x); [|apply sized_fail].
  destruct (uses_builder b).
  - apply sized_builder. destruct (value_overflow b x); [apply frame_fail|apply frame_append].
  - destruct (value_overflow b x); [apply sized_fail|apply sized_set_value].
Qed.

Lemma sized_sequence {A} (f : A -> writer) l : (forall x, In x l -> frame (f x)) -> sized_w (w_sequence true f l).
Proof.
  intros H. unfold w_sequence. apply sized_builder.
  destruct (i32_max <? N.of_nat (List.length l)).
  - apply (frame_fail (KE SE_TooManyElements)).
  - apply (frame_then (w_append _) (w_loop f l)); [apply frame_append|apply frame_loop, H].
Qed.

Lemma sized_mapping {A B} (fk : A -> writer) (fv : B -> writer) l :
  (forall kv, In kv l -> frame (fk (fst kv)) /\ frame (fv (snd kv))) -> sized_w (w_mapping true fk fv l).
Proof.
  intros H. unfold w_mapping. apply sized_builder.
  destruct (i32_max <? N.of_nat (List.length l)).
  - apply (frame_fail (KE SE_TooManyElements)).
  - apply (frame_then (w_append _)); [apply frame_append|].
    apply frame_loop. intros kv Hkv. destruct (H kv Hkv). now apply frame_then.
Qed.

Lemma sized_vector {A} fixed dim (f : A -> writer) l :
  (forall x, In x l -> frame (f x)) -> sized_w (w_vector true fixed dim f l).
Proof.
  intros H. unfold w_vector. destruct (negb _); [apply sized_fail|].
  apply sized_builder, frame_loop. intros x Hx. destruct fixed; [now apply H|apply frame_var_elem].
Qed.

Lemma sized_ser_dyn t v : sized_w (ser_dyn true t v).
Proof.
  destruct v;
    try (destruct t; try (cbn [ser_dyn]; apply sized_fail); rewrite ser_dyn_tuple; destruct (_ <? _)%nat; [apply sized_fail|];
         apply sized_builder, frame_dyn_tuple_go, Forall_forall; intros; apply frame_ser_dyn);
    try (destruct t; try (cbn [ser_dyn]; apply sized_fail); rewrite ser_dyn_udt; destruct (negb _); [apply sized_fail|];
         apply sized_builder, frame_dyn_udt_go, Forall_forall; intros; apply frame_ser_dyn);
    try (destruct t; cbn [ser_dyn]; try apply sized_fail; try apply sized_ser_leaf;
         try (destruct (supports_empty _); [apply sized_set_value|apply sized_fail]);
         try (apply sized_sequence; intros; apply frame_ser_dyn);
         try (apply sized_vector; intros; apply frame_ser_dyn);
         try (apply sized_mapping; intros; split; apply frame_ser_dyn)).
  all: cbn [ser_dyn]; try apply sized_ser_leaf;
       try (destruct (supports_empty _); [apply sized_set_value|apply sized_fail]).
Qed.

Lemma sized_append_null : sized_w (w_append null_marker).
Proof. intros o H. inversion H. now left. Qed.
Lemma sized_append_unset : sized_w (w_append unset_marker).
Proof. intros o H. inversion H. right; now left. Qed.

Theorem sized_ser_buf k : forall t v, sized_w (ser_buf k true t v).
Proof.
  induction k using carrier_ind'; intros t v.
  all: try (destruct v; try apply sized_fail; rewrite ser_buf_tuple; destruct t; try apply sized_fail;
            destruct (_ <? _)%nat; [apply sized_fail|]; apply sized_builder, frame_tuple_go, Forall_forall;
            intros; apply frame_ser_buf).
  all: cbn [ser_buf]; try apply sized_fail.
  - destruct b; destruct v; try apply sized_fail; try apply sized_ser_leaf; apply sized_append_unset.
  - destruct v; try apply sized_fail. apply sized_ser_dyn.
  - destruct v; try apply sized_fail; [apply sized_append_null|apply IHk].
  - destruct v; try apply sized_fail; [apply sized_append_unset|apply IHk].
  - destruct (negb _); [apply sized_fail|]. destruct v; try apply sized_fail; [apply sized_set_value|apply IHk].
  - destruct v; try apply sized_fail; apply IHk.
  - destruct v; try apply sized_fail; apply IHk.
  - destruct v; try apply sized_fail; apply IHk.
  - destruct v; try apply sized_fail; apply IHk.
  - destruct v; try apply sized_fail; apply IHk.
  - destruct v; try apply sized_fail; apply IHk.
  - destruct v; try apply sized_fail. destruct t; try apply sized_fail;
      [apply sized_sequence|apply sized_sequence|apply sized_vector]; intros; apply frame_ser_buf.
  - destruct v; try apply sized_fail. destruct t; try apply sized_fail;
      [apply sized_sequence|apply sized_sequence|apply sized_vector]; intros; apply frame_ser_buf.
  - destruct v; try apply sized_fail. destruct t; try apply sized_fail; apply sized_sequence; intros; apply frame_ser_buf.
  - destruct v; try apply sized_fail. destruct t; try apply sized_fail; apply sized_sequence; intros; apply frame_ser_buf.
  - destruct v; try apply sized_fail. destruct t; try apply sized_fail. apply sized_mapping; intros; split; apply frame_ser_buf.
  - destruct v; try apply sized_fail. destruct t; try apply sized_fail. apply sized_mapping; intros; split; apply frame_ser_buf.
Qed.

(* ====================================================================================== *)
(* 3. SerializedValues: rollback and count                                                 *)
(* ====================================================================================== *)

(* the serialiser as a function of the value alone: what it appends, and the error *)
Definition ser_out (k : carrier) (ws : bool) (t : ctype) (v : kval) : sout := ser_buf k ws t v [].

Lemma ser_buf_out k ws t v buf :
  ser_buf k ws t v buf = (buf ++ fst (ser_out k ws t v), snd (ser_out k ws t v)).
Proof. apply frame_ser_buf. Qed.

Lemma resize_app (b o : bytes) : resize (List.length b) (b ++ o) = b.
Proof.
  unfold resize. rewrite firstn_app_exact, app_length.
  replace (List.length b - (List.length b + List.length o))%nat with 0%nat by lia. simpl. apply app_nil_r.
Qed.

(* a failed add_value leaves bytes and count exactly as they were, whatever failed and however
   much had been written before the failure *)
Theorem add_value_rollback s k t v s' e : add_value s k t v = (s', Some e) -> s' = s.
Proof.
  unfold add_value. destruct (sv_count s =? u16_max); [intros H; inversion H; reflexivity|].
  rewrite ser_buf_out. destruct (ser_out k true t v) as [o [e'|]]; cbn [fst snd]; intros H; [|discriminate].
  apply (f_equal fst) in H. cbn [fst] in H. subst s'. rewrite resize_app. destruct s; reflexivity.
Qed.

(* a successful add_value appends exactly the bytes of the value and counts one more *)
Lemma add_value_ok s k t v s' : add_value s k t v = (s', None) ->
  exists o, ser_out k true t v = (o, None) /\ sv_count s <> u16_max /\
            s' = {| sv_bytes := sv_bytes s ++ o; sv_count := (sv_count s + 1) mod 65536 |}.
Proof.
  unfold add_value. destruct (sv_count s =? u16_max) eqn:E; [discriminate|].
  rewrite ser_buf_out. destruct (ser_out k true t v) as [o [e'|]]; cbn [fst snd]; intros H; [discriminate|].
  apply (f_equal fst) in H. cbn [fst] in H. subst s'. exists o. split; [reflexivity|]. split; [|reflexivity].
  apply N.eqb_neq, E.
Qed.

Definition raw_of (o : bytes) : rawvalue :=
  match read_value o with Some (x, _) => x | None => RNull end.

Lemma null_marker_signed : null_marker = enc_signed 4 (-1). Proof. reflexivity. Qed.

Lemma read_value_cell o r : cell_out o -> read_value (o ++ r) = Some (raw_of o, r).
Proof.
  assert (G : forall x, cell_out o -> read_value (o ++ x) = Some (fst (match read_value o with Some p => p | None => (RNull, []) end), x)).
  { intros x [-> | [-> | (c & -> & Hc)]].
    - unfold read_value. change null_marker with (enc_signed 4 (-1)). rewrite read_int_signed by reflexivity. reflexivity.
    - unfold read_value. change unset_marker with (enc_signed 4 (-2)). rewrite read_int_signed by reflexivity. reflexivity.
    - unfold read_value. rewrite <- !app_assoc, read_int_be32 by exact Hc.
      replace (be32 (blen c) ++ c) with (be32 (blen c) ++ c ++ []) by now rewrite app_nil_r.
      rewrite read_int_be32 by exact Hc.
      assert (Z.of_N (blen c) =? -2 = false)%Z as -> by lia.
      assert (Z.of_N (blen c) =? -1 = false)%Z as -> by lia.
      assert (0 <=? Z.of_N (blen c) = true)%Z as -> by lia.
      rewrite N2Z.id, !take_n_app. reflexivity. }
  intros H. rewrite (G r H). unfold raw_of. f_equal. f_equal.
  specialize (G [] H). rewrite app_nil_r in G. rewrite G. reflexivity.
Qed.

Lemma cell_out_length o : cell_out o -> (4 <= List.length o)%nat.
Proof.
  intros [-> | [-> | (c & -> & _)]].
  - rewrite null_marker_length. lia.
  - change unset_marker with (enc_signed 4 (-2)). rewrite enc_signed_length. lia.
  - rewrite app_length, be32_length. lia.
Qed.

Lemma sv_iter_go_chunks chunks : Forall cell_out chunks -> forall fuel,
  (List.length chunks <= fuel)%nat -> sv_iter_go fuel (concat chunks) = Some (map raw_of chunks).
Proof.
  induction 1 as [|o cs Ho _ IH]; intros fuel Hf.
  - destruct fuel; reflexivity.
  - cbn [concat map List.length] in *. destruct fuel as [|f]; [lia|].
    cbn [sv_iter_go]. assert (is_nil (o ++ concat cs) = false) as ->.
    { apply cell_out_length in Ho. destruct o; [simpl in Ho; lia|reflexivity]. }
    rewrite (read_value_cell o _ Ho), IH by lia. reflexivity.
Qed.

(* the invariant of every reachable SerializedValues *)
Definition sv_wf (s : svals) : Prop :=
  exists chunks : list bytes, sv_bytes s = concat chunks /\ Forall cell_out chunks /\
                 sv_count s = N.of_nat (List.length chunks) /\ sv_count s <= u16_max.

Lemma sv_wf_new : sv_wf sv_new.
Proof. exists []. repeat split; [constructor|unfold u16_max; simpl; lia]. Qed.

Lemma concat_snoc (l : list bytes) (x : bytes) : concat (l ++ [x]) = concat l ++ x.
Proof. rewrite concat_app. simpl. now rewrite app_nil_r. Qed.

Lemma add_value_wf s k t v : sv_wf s -> sv_wf (fst (add_value s k t v)).
Proof.
  intros (cs & Hb & Hc & Hn & Hmax). unfold add_value.
  destruct (sv_count s =? u16_max) eqn:E; [exists cs; auto|]. apply N.eqb_neq in E.
  rewrite ser_buf_out. destruct (ser_out k true t v) as [o [e'|]] eqn:Eo; cbn [fst snd sv_bytes sv_count].
  - rewrite resize_app. exists cs. auto.
  - exists (cs ++ [o]). cbn [sv_bytes sv_count]. split; [|split; [|split]].
    + rewrite concat_snoc, Hb. reflexivity.
    + apply Forall_app. split; [exact Hc|]. constructor; [|constructor].
      apply (sized_ser_buf k t v). exact Eo.
    + rewrite app_length. cbn [List.length]. rewrite N.mod_small by (unfold u16_max in *; lia). lia.
    + rewrite N.mod_small by (unfold u16_max in *; lia). lia.
Qed.

Lemma run_ops_wf_from ops : forall s, sv_wf s -> sv_wf (fold_left apply_op ops s).
Proof.
  induction ops as [|[[k t] v] r IH]; intros s H; [exact H|].
  cbn [fold_left apply_op]. apply IH, add_value_wf, H.
Qed.

Lemma sv_wf_iter s : sv_wf s ->
  exists cells, sv_iter s = Some cells /\ N.of_nat (List.length cells) = sv_count s /\ sv_count s <= u16_max.
Proof.
  intros (cs & Hb & Hc & Hn & Hmax). exists (map raw_of cs). unfold sv_iter. rewrite Hb.
  rewrite sv_iter_go_chunks; [|exact Hc|].
  - rewrite map_length. auto.
  - assert (G : forall l : list bytes, Forall cell_out l -> (List.length l <= List.length (concat l))%nat).
    { induction 1 as [|o l Ho _ IH]; [simpl; lia|]. cbn [concat List.length]. rewrite app_length.
      apply cell_out_length in Ho. lia. }
    specialize (G cs Hc). lia.
Qed.

(* for every operation sequence: iter() succeeds and yields exactly element_count() cells *)
Theorem run_ops_count ops :
  exists cells, sv_iter (run_ops ops) = Some cells /\
                N.of_nat (List.length cells) = sv_count (run_ops ops) /\ sv_count (run_ops ops) <= u16_max.
Proof. apply sv_wf_iter, run_ops_wf_from, sv_wf_new. Qed.


(* ====================================================================================== *)
(* 4. The acceptance matrices and the specification                                        *)
(* ====================================================================================== *)

Lemma all_bases_complete b : In b all_bases.
Proof. destruct b; unfold all_bases; simpl; tauto. Qed.
Lemma all_ntypes_complete n : In n all_ntypes.
Proof. destruct n; unfold all_ntypes; simpl; tauto. Qed.

(* the finite part: 35 leaf carriers x 20 native types, both directions, by computation *)
Lemma native_sweep_ser :
  forallb (fun b => forallb (fun n =>
    Bool.eqb (ser_accepts (KBase b) (TNative n)) (doc_compat Ser (KBase b) (TNative n))) all_ntypes) all_bases = true.
Proof. vm_compute. reflexivity. Qed.

Lemma native_sweep_deser :
  forallb (fun b => forallb (fun n =>
    implb (deser_impl (KBase b))
          (Bool.eqb (deser_accepts (KBase b) (TNative n)) (doc_compat De (KBase b) (TNative n)) &&
           implb (emptiable b && deser_accepts (KBase b) (TNative n)) (supports_empty (TNative n)))) all_ntypes) all_bases = true.
Proof. vm_compute. reflexivity. Qed.

Lemma native_ser b n : ser_accepts (KBase b) (TNative n) = doc_compat Ser (KBase b) (TNative n).
Proof.
  pose proof native_sweep_ser as H. rewrite forallb_forall in H. specialize (H b (all_bases_complete b)).
  rewrite forallb_forall in H. specialize (H n (all_ntypes_complete n)).
  apply Bool.eqb_prop in H. exact H.
Qed.

(* at a leaf carrier other than Unset the flags and the position do not matter *)
Lemma compat_base_any r r' d top top' b t : b <> BUnset ->
  compat r d top (KBase b) t = compat r' d top' (KBase b) t.
Proof. intros H. destruct b; try reflexivity. congruence. Qed.

Lemma base_code b t top : ser_accepts (KBase b) t = compat as_code Ser top (KBase b) t.
Proof.
  destruct b; try (destruct top; reflexivity);
    (rewrite (compat_base_any as_code docs_only Ser top true) by discriminate;
     destruct t as [n| | | | | |]; [apply native_ser|reflexivity..]).
Qed.

Lemma all2_ext {A B} (f g : A -> B -> bool) l : Forall (fun x => forall y, f x y = g x y) l ->
  forall m, all2 f l m = all2 g l m.
Proof.
  induction 1 as [|x l Hx _ IH]; intros m; [reflexivity|].
  destruct m as [|y m]; [reflexivity|]. cbn [all2]. now rewrite Hx, IH.
Qed.

Lemma all2_length {A B} (f : A -> B -> bool) l m : all2 f l m = true -> (List.length l <= List.length m)%nat.
Proof.
  revert m. induction l as [|x l IH]; intros m H; [simpl; lia|].
  destruct m as [|y m]; [discriminate|]. cbn [all2] in H. apply andb_prop in H as [_ H].
  apply IH in H. simpl. lia.
Qed.

Lemma all2_leb {A B} (f : A -> B -> bool) l m :
  all2 f l m = (List.length l <=? List.length m)%nat && all2 f l m.
Proof.
  destruct (all2 f l m) eqn:E; [|now rewrite andb_false_r].
  apply all2_length in E. apply Nat.leb_le in E. now rewrite E.
Qed.

Lemma all2_ext_cond {A B} (f g c : A -> B -> bool) l :
  Forall (fun x => forall y, c x y = false -> f x y = g x y) l ->
  forall m, any2 c l m = false -> all2 f l m = all2 g l m.
Proof.
  induction 1 as [|x l Hx _ IH]; intros m Hm; [reflexivity|].
  destruct m as [|y m]; [reflexivity|]. cbn [all2 any2] in *. apply orb_false_elim in Hm as [H1 H2].
  now rewrite Hx, IH.
Qed.

Lemma all2_impl {A B} (f g : A -> B -> bool) l :
  Forall (fun x => forall y, f x y = true -> g x y = true) l ->
  forall m, all2 f l m = true -> all2 g l m = true.
Proof.
  induction 1 as [|x l Hx _ IH]; intros m Hm; [reflexivity|].
  destruct m as [|y m]; [discriminate|]. cbn [all2] in *. apply andb_prop in Hm as [H1 H2].
  now rewrite (Hx y H1), (IH m H2).
Qed.

(* The code's serialisation matrix, WITHOUT any premise: it is the documentation plus the three
   concessions, minus the vector element rule (flag r_vec) - at every position, every depth *)
Theorem code_matrix k : forall top t, ser_accepts k t = compat as_code Ser top k t.
Proof.
  induction k using carrier_ind'; intros top t; [apply base_code|..];
    cbn [ser_accepts compat is_ser is_de negb andb orb as_code r_tuple r_set r_unset r_vec];
    rewrite ?orb_true_r; cbn [andb]; try reflexivity; try (apply (IHk top)).
  - now rewrite (IHk top).
  - destruct t; try reflexivity; rewrite ?andb_true_r; apply (IHk false).
  - destruct t; try reflexivity; rewrite ?andb_true_r; apply (IHk false).
  - destruct t; try reflexivity; apply (IHk false).
  - destruct t; try reflexivity; apply (IHk false).
  - destruct t; try reflexivity. now rewrite (IHk1 false), (IHk2 false).
  - destruct t; try reflexivity. now rewrite (IHk1 false), (IHk2 false).
  - destruct t; try reflexivity. rewrite (all2_leb ser_accepts). f_equal.
    apply all2_ext. eapply Forall_impl; [|exact H]. intros a Ha y. apply Ha.
Qed.

(* more concessions, or a position nearer the bind marker, only add pairs *)
Definition relax_le (r r' : relax) : Prop :=
  (r_tuple r = true -> r_tuple r' = true) /\ (r_set r = true -> r_set r' = true) /\
  (r_unset r = true -> r_unset r' = true) /\ (r_vec r = true -> r_vec r' = true).

Lemma implb_orb a b a' b' : (a = true -> a' = true) -> (b = true -> b' = true) -> a || b = true -> a' || b' = true.
Proof. intros Ha Hb H. apply orb_prop in H as [H|H]; [rewrite (Ha H); reflexivity|rewrite (Hb H); apply orb_true_r]. Qed.

Theorem compat_mono r r' d : relax_le r r' ->
  forall k top top' t, (top = true -> top' = true) -> compat r d top k t = true -> compat r' d top' k t = true.
Proof.
  intros (Ht & Hs & Hu & Hv). induction k using carrier_ind'; intros top top' t Htop Hc;
    cbn [compat] in *; try exact Hc; try (eapply IHk; eassumption).
  - destruct b; try exact Hc. apply andb_prop in Hc as [H1 H2]. rewrite H1. cbn [andb].
    revert H2. apply implb_orb; assumption.
  - apply andb_prop in Hc as [H1 H3]. apply andb_prop in H1 as [H1 H2]. rewrite H1. cbn [andb].
    rewrite (implb_orb _ _ _ _ Htop Hu H2). cbn [andb]. eapply IHk; eassumption.
  - apply andb_prop in Hc as [H1 H2]. rewrite H1. cbn [andb]. eapply IHk; eassumption.
  - destruct t; try discriminate; try (eapply IHk; [|exact Hc]; auto).
    apply andb_prop in Hc as [H1 H2]. rewrite (IHk false false _ (fun x => x) H1). cbn [andb].
    destruct (is_de d); [reflexivity|]. cbn [orb] in *.
    apply orb_prop in H2 as [H2|H2]; [rewrite (Hv H2); reflexivity|rewrite H2; apply orb_true_r].
  - apply andb_prop in Hc as [H0 Hc]. rewrite H0. cbn [andb].
    destruct t; try discriminate; try (eapply IHk; [|exact Hc]; auto).
    apply andb_prop in Hc as [H1 H2]. rewrite (IHk false false _ (fun x => x) H1). cbn [andb].
    apply orb_prop in H2 as [H2|H2]; [now rewrite (Hv H2)|rewrite H2; now rewrite orb_true_r].
  - destruct t; try discriminate.
    + apply andb_prop in Hc as [H1 H2]. apply andb_prop in H1 as [H0 H1]. rewrite (Hs H0), H1. cbn [andb].
      eapply IHk; [|exact H2]; auto.
    + eapply IHk; [|exact Hc]; auto.
  - destruct t; try discriminate.
    + apply andb_prop in Hc as [H1 H2]. apply andb_prop in H1 as [H0 H1]. rewrite (Hs H0), H1. cbn [andb].
      eapply IHk; [|exact H2]; auto.
    + eapply IHk; [|exact Hc]; auto.
  - destruct t; try discriminate. apply andb_prop in Hc as [H1 H2].
    rewrite (IHk1 false false _ (fun x => x) H1), (IHk2 false false _ (fun x => x) H2). reflexivity.
  - destruct t; try discriminate. apply andb_prop in Hc as [H1 H2].
    rewrite (IHk1 false false _ (fun x => x) H1), (IHk2 false false _ (fun x => x) H2). reflexivity.
  - destruct t; try discriminate. apply andb_prop in Hc as [H1 H2].
    assert (G : all2 (compat r' d false) ks ts = true).
    { apply (all2_impl (compat r d false)); [|exact H2]. eapply Forall_impl; [|exact H].
      intros a Ha y Hy. apply (Ha false false y (fun x => x) Hy). }
    rewrite G, andb_true_r.
    destruct (r_tuple r && is_ser d) eqn:E.
    + apply andb_prop in E as [E1 E2]. rewrite (Ht E1), E2. exact H1.
    + destruct (r_tuple r' && is_ser d); [|exact H1]. apply Nat.eqb_eq in H1. rewrite H1. apply Nat.leb_refl.
  - apply andb_prop in Hc as [H0 Hc]. rewrite H0. cbn [andb].
    destruct t; try discriminate; (eapply IHk; [|exact Hc]; auto).
  - apply andb_prop in Hc as [H0 Hc]. rewrite H0. cbn [andb].
    destruct t; try discriminate; (eapply IHk; [|exact Hc]; auto).
  - apply andb_prop in Hc as [H0 Hc]. rewrite H0. cbn [andb].
    destruct t; try discriminate; (eapply IHk; [|exact Hc]; auto).
  - apply andb_prop in Hc as [H0 Hc]. rewrite H0. cbn [andb]. destruct t; try discriminate.
    apply andb_prop in Hc as [H1 H2].
    rewrite (IHk1 false false _ (fun x => x) H1), (IHk2 false false _ (fun x => x) H2). reflexivity.
Qed.

Lemma le_docs_conceded : relax_le docs_only conceded.
Proof. repeat split; cbn; auto. Qed.
Lemma le_conceded_code : relax_le conceded as_code.
Proof. repeat split; cbn; auto. Qed.

Lemma doc_spec k t : doc_compat Ser k t = true -> spec_compat Ser k t = true.
Proof. apply (compat_mono docs_only conceded Ser le_docs_conceded k true true t); auto. Qed.
Lemma spec_code k t : spec_compat Ser k t = true -> ser_accepts k t = true.
Proof.
  intros H. rewrite (code_matrix k true t).
  apply (compat_mono conceded as_code Ser le_conceded_code k true true t); auto.
Qed.

(* Outside the known class serialisation accepts exactly the pairs of the specification *)
Theorem matrix_ser k t : known_class k t = false -> ser_accepts k t = spec_compat Ser k t.
Proof.
  unfold known_class. destruct (ser_accepts k t) eqn:Ea; cbn [andb].
  - intros H. apply negb_false_iff in H. now rewrite H.
  - intros _. destruct (spec_compat Ser k t) eqn:Es; [|reflexivity]. apply spec_code in Es. congruence.
Qed.

(* ... which is the documentation, or one of the three concessions *)
Theorem matrix_ser_doc k t : known_class k t = false -> ser_accepts k t = doc_compat Ser k t || relaxed k t.
Proof.
  intros H. rewrite (matrix_ser k t H). unfold relaxed.
  destruct (doc_compat Ser k t) eqn:Ed; cbn [orb negb].
  - now apply doc_spec.
  - now rewrite andb_true_r.
Qed.

(* where no nullable element carrier sits under a vector type the missing rule is not missed *)
Theorem hole_free k : forall top t, vector_elem_hole k t = false ->
  compat as_code Ser top k t = compat conceded Ser top k t.
Proof.
  induction k using carrier_ind'; intros top t Hh;
    cbn [compat vector_elem_hole is_ser is_de negb andb orb as_code conceded r_tuple r_set r_unset r_vec] in *;
    try reflexivity; try (apply IHk; exact Hh).
  - now rewrite IHk.
  - now rewrite IHk.
  - destruct t; try reflexivity; try (apply IHk; exact Hh).
    apply orb_false_elim in Hh as [H1 H2]. apply negb_false_iff in H1. rewrite H1. now rewrite IHk.
  - destruct t; try reflexivity; try (apply IHk; exact Hh).
    apply orb_false_elim in Hh as [H1 H2]. apply negb_false_iff in H1. rewrite H1. now rewrite IHk.
  - destruct t; try reflexivity; now rewrite IHk.
  - destruct t; try reflexivity; now rewrite IHk.
  - destruct t; try reflexivity. apply orb_false_elim in Hh as [H1 H2]. now rewrite IHk1, IHk2.
  - destruct t; try reflexivity. apply orb_false_elim in Hh as [H1 H2]. now rewrite IHk1, IHk2.
  - destruct t; try reflexivity. f_equal.
    apply all2_ext_cond with (c := vector_elem_hole); [|exact Hh].
    eapply Forall_impl; [|exact H]. intros a Ha y Hy. apply Ha, Hy.
Qed.

(* every pair of the known class has the shape of the defect *)
Theorem known_class_shape k t : known_class k t = true -> vector_elem_hole k t = true.
Proof.
  unfold known_class. intros H. apply andb_prop in H as [Ha Hs]. apply negb_true_iff in Hs.
  destruct (vector_elem_hole k t) eqn:Eh; [reflexivity|].
  rewrite (code_matrix k true t), (hole_free k true t Eh) in Ha. unfold spec_compat in Hs. congruence.
Qed.

Theorem doc_in_spec k t : doc_compat Ser k t = true -> spec_compat Ser k t = true /\ known_class k t = false.
Proof. intros H. apply doc_spec in H. split; [exact H|]. unfold known_class. rewrite H. now rewrite andb_false_r. Qed.

(* every pair the documentation lists is accepted *)
Theorem documented_accepted_ser k t : doc_compat Ser k t = true -> ser_accepts k t = true.
Proof. intros H. now apply spec_code, doc_spec. Qed.

(* ---- deserialization ---------------------------------------------------------------------- *)

Lemma native_deser b n : deser_impl (KBase b) = true ->
  deser_accepts (KBase b) (TNative n) = doc_compat De (KBase b) (TNative n) /\
  (emptiable b = true -> deser_accepts (KBase b) (TNative n) = true -> supports_empty (TNative n) = true).
Proof.
  intros Hi. pose proof native_sweep_deser as H. rewrite forallb_forall in H. specialize (H b (all_bases_complete b)).
  rewrite forallb_forall in H. specialize (H n (all_ntypes_complete n)).
  rewrite Hi in H. cbn [implb] in H. apply andb_prop in H as [H1 H2]. apply Bool.eqb_prop in H1. split; [exact H1|].
  intros He Ha. rewrite He, Ha in H2. exact H2.
Qed.

Lemma base_deser r top b t : deser_impl (KBase b) = true -> deser_accepts (KBase b) t = compat r De top (KBase b) t.
Proof.
  intros Hi. destruct b; try discriminate;
    (rewrite (compat_base_any r docs_only De top true) by discriminate;
     destruct t as [n| | | | | |]; [apply native_deser, Hi|reflexivity..]).
Qed.

Lemma deser_accepts_eq k t : deser_accepts k t = match deser_check k t with None => true | Some _ => false end.
Proof. reflexivity. Qed.

Fixpoint deser_tuple_go (ks : list carrier) (ts : list ctype) : tres :=
  match ks, ts with
  | k1 :: ks', t1 :: ts' => t_and (deser_check k1 t1) (deser_tuple_go ks' ts')
  | _, _ => None
  end.

Lemma deser_check_tuple ks t :
  deser_check (KTuple ks) t =
  match t with
  | TTuple ts => if negb (List.length ks =? List.length ts)%nat then Some TE_TupleWrongCount else deser_tuple_go ks ts
  | _ => Some TE_NotTuple
  end.
Proof. cbn [deser_check]. destruct t; reflexivity. Qed.

Lemma deser_tuple_go_all2 ks ts : List.length ks = List.length ts ->
  match deser_tuple_go ks ts with None => true | Some _ => false end = all2 deser_accepts ks ts.
Proof.
  revert ts. induction ks as [|k1 ks' IH]; intros ts Hl; [reflexivity|].
  destruct ts as [|t1 ts']; [discriminate|]. cbn [deser_tuple_go all2]. injection Hl as Hl.
  unfold deser_accepts at 1. destruct (deser_check k1 t1); cbn [t_and]; [reflexivity|]. now apply IH.
Qed.

Lemma t_and_ok a b : match t_and a b with None => true | Some _ => false end =
  (match a with None => true | Some _ => false end) && (match b with None => true | Some _ => false end).
Proof. destruct a, b; reflexivity. Qed.

Lemma is_str_inv k : is_str k = true -> k = KBase BStr.
Proof. destruct k as [b| | | | | | | | | | | | | | | | | | | | | | | |]; try discriminate. destruct b; try discriminate. reflexivity. Qed.
Lemma is_slice_u8_inv k : is_slice_u8 k = true -> k = KBase BSliceU8.
Proof. destruct k as [b| | | | | | | | | | | | | | | | | | | | | | | |]; try discriminate. destruct b; try discriminate. reflexivity. Qed.

Lemma str_check r top t : match t_native t string_types with None => true | Some _ => false end = compat r De top (KBase BStr) t.
Proof. destruct t as [n| | | | | |]; try reflexivity. destruct n; reflexivity. Qed.
Lemma blob_check r top t : match t_native t [NBlob] with None => true | Some _ => false end = compat r De top (KBase BSliceU8) t.
Proof. destruct t as [n| | | | | |]; try reflexivity. destruct n; reflexivity. Qed.

Lemma emptiable_carrier_inv k : emptiable_carrier k = true -> exists b, k = KBase b /\ emptiable b = true.
Proof. destruct k; try discriminate. intros H. eauto. Qed.

(* on the deserialization side no concession applies: for every flag set and position *)
Theorem matrix_deser_any r k : forall top t, deser_impl k = true -> deser_accepts k t = compat r De top k t.
Proof.
  induction k using carrier_ind'; intros top t Hi; [exact (base_deser r top b t Hi)|..];
    rewrite deser_accepts_eq;
    try (rewrite deser_check_tuple);
    cbn [deser_check compat deser_impl is_ser is_de negb andb orb] in *;
    try discriminate; try reflexivity;
    try (rewrite <- deser_accepts_eq; apply IHk; exact Hi).
  - (* MaybeEmpty *) apply andb_prop in Hi as [He Hi]. destruct (emptiable_carrier_inv _ He) as (b & -> & Hb).
    rewrite <- deser_accepts_eq, (IHk top t Hi).
    destruct (compat r De top (KBase b) t) eqn:Ec; [|now rewrite andb_false_r].
    rewrite andb_true_r. destruct t as [n| | | | | |]; try (destruct b; discriminate).
    symmetry. apply (native_deser b n Hi); [exact Hb|]. rewrite (IHk top _ Hi). exact Ec.
  - (* Ref *) apply is_str_inv in Hi. subst k. cbn [is_str]. apply str_check.
  - (* Box *) destruct (is_str k) eqn:Es.
    + apply is_str_inv in Es. subst k. apply str_check.
    + rewrite <- deser_accepts_eq. apply IHk. exact Hi.
  - (* Arc *) destruct (is_str k) eqn:Es.
    + apply is_str_inv in Es. subst k. apply str_check.
    + rewrite <- deser_accepts_eq. apply IHk. exact Hi.
  - (* Cow *) destruct (is_str k) eqn:Es.
    + apply is_str_inv in Es. subst k. apply str_check.
    + cbn [orb] in Hi. rewrite Hi. apply is_slice_u8_inv in Hi. subst k. apply blob_check.
  - (* Vec *) destruct t; try reflexivity; rewrite <- deser_accepts_eq, ?andb_true_r; apply IHk; exact Hi.
  - (* HashSet *) destruct t; try reflexivity; rewrite ?andb_false_r; try reflexivity; rewrite <- deser_accepts_eq; apply IHk; exact Hi.
  - (* BTreeSet *) destruct t; try reflexivity; rewrite ?andb_false_r; try reflexivity; rewrite <- deser_accepts_eq; apply IHk; exact Hi.
  - (* HashMap *) apply andb_prop in Hi as [H1 H2]. destruct t; try reflexivity.
    rewrite t_and_ok, <- !deser_accepts_eq, (IHk1 false), (IHk2 false) by assumption. reflexivity.
  - (* BTreeMap *) apply andb_prop in Hi as [H1 H2]. destruct t; try reflexivity.
    rewrite t_and_ok, <- !deser_accepts_eq, (IHk1 false), (IHk2 false) by assumption. reflexivity.
  - (* Tuple *) apply andb_prop in Hi as [_ Hi]. destruct t; try reflexivity. rewrite andb_false_r.
    destruct (List.length ks =? List.length ts)%nat eqn:El; cbn [negb andb]; [|reflexivity].
    apply Nat.eqb_eq in El. rewrite (deser_tuple_go_all2 ks ts El).
    apply all2_ext. rewrite forallb_forall in Hi. rewrite Forall_forall in *. intros x Hx y. apply H; [exact Hx|apply Hi, Hx].
  - (* SecretString *) destruct t as [n| | | | | |]; try reflexivity. destruct n; reflexivity.
  - (* SecretSlice *) destruct t; try reflexivity; rewrite <- deser_accepts_eq; apply IHk; exact Hi.
  - (* ListIter *) destruct t; try reflexivity; rewrite <- deser_accepts_eq; apply IHk; exact Hi.
  - (* VecIter *) destruct t; try reflexivity; rewrite <- deser_accepts_eq; apply IHk; exact Hi.
  - (* MapIter *) apply andb_prop in Hi as [H1 H2]. destruct t; try reflexivity.
    rewrite t_and_ok, <- !deser_accepts_eq, (IHk1 false), (IHk2 false) by assumption. reflexivity.
  - (* UdtIter *) destruct t; reflexivity.
Qed.

Theorem matrix_deser_doc k t : deser_impl k = true -> deser_accepts k t = doc_compat De k t.
Proof. intros H. apply matrix_deser_any, H. Qed.

(* TypedRowIterator::new: the row check is the conjunction of the column checks *)
Theorem row_accepts_spec ks cols : forallb deser_impl ks = true ->
  row_accepts ks cols = (List.length ks =? List.length cols)%nat && all2 (doc_compat De) ks cols.
Proof.
  intros Hi. unfold row_accepts. f_equal. apply all2_ext. rewrite forallb_forall in Hi.
  apply Forall_forall. intros k Hk t. apply matrix_deser_doc, Hi, Hk.
Qed.

Lemma row_cols_ok ks : forall i cols, List.length ks = List.length cols ->
  (row_cols i ks cols = RK_Ok <-> all2 deser_accepts ks cols = true).
Proof.
  induction ks as [|k ks IH]; intros i cols Hl; [destruct cols; [tauto|discriminate]|].
  destruct cols as [|t cols]; [discriminate|]. injection Hl as Hl. cbn [row_cols all2]. unfold deser_accepts at 1.
  destruct (deser_check k t); cbn [andb]; [split; discriminate|]. apply IH, Hl.
Qed.

Theorem row_check_ok ks cols : row_check ks cols = RK_Ok <-> row_accepts ks cols = true.
Proof.
  unfold row_check, row_accepts. destruct (List.length ks =? List.length cols)%nat eqn:E; cbn [andb].
  - apply row_cols_ok. now apply Nat.eqb_eq.
  - split; discriminate.
Qed.

Lemma all2_Forall2 {A B} (f : A -> B -> bool) l m : List.length l = List.length m -> all2 f l m = true ->
  Forall2 (fun x y => f x y = true) l m.
Proof.
  revert m. induction l as [|x l IH]; intros m Hl H; destruct m as [|y m]; try discriminate; [constructor|].
  cbn [all2] in H. apply andb_prop in H as [H1 H2]. injection Hl as Hl. constructor; [exact H1|now apply IH].
Qed.

(* the read side: a typed row iterator - the only way rows reach K::deserialize - exists only over
   columns whose types the documentation lists for the Rust types of the row *)
Theorem typed_rows_guard ks cols rows n : forallb deser_impl ks = true -> typed_rows ks cols rows = Ok n ->
  n = rows /\ Forall2 (fun k t => doc_compat De k t = true) ks cols.
Proof.
  intros Hi. unfold typed_rows. destruct (row_check ks cols) eqn:E; try discriminate. intros H. inversion H; subst.
  split; [reflexivity|]. apply row_check_ok in E. rewrite (row_accepts_spec ks cols Hi) in E.
  apply andb_prop in E as [El E]. apply Nat.eqb_eq in El. now apply all2_Forall2.
Qed.

Theorem typed_rows_refuses ks cols rows : row_accepts ks cols = false -> exists e, typed_rows ks cols rows = Err e /\ e <> RK_Ok.
Proof.
  intros H. unfold typed_rows. destruct (row_check ks cols) eqn:E.
  - apply row_check_ok in E. congruence.
  - eexists; split; [reflexivity|discriminate].
  - eexists; split; [reflexivity|discriminate].
Qed.
(* ====================================================================================== *)
(* 5. The type-level matrix is what serialisation does on values (static carriers)          *)
(* ====================================================================================== *)

Definition good (e : kerr) : Prop := is_typeck e = false /\ e <> KE_IllTyped.
Definition errs_good (w : writer) : Prop := forall e, snd (w []) = Some e -> good e.
Definition fails (w : writer) : Prop := exists e, snd (w []) = Some e.

Lemma snd_frame w buf : frame w -> snd (w buf) = snd (w []).
Proof. intros H. rewrite (H buf). reflexivity. Qed.

Lemma good_ok : errs_good w_ok. Proof. intros e H. discriminate. Qed.
Lemma good_append c : errs_good (w_append c). Proof. intros e H. discriminate. Qed.
Lemma good_fail e : good e -> errs_good (w_fail e).
Proof. intros H e' H'. cbn in H'. inversion H'. subst. exact H. Qed.
Lemma good_overflow : good (KE SE_SizeOverflow). Proof. split; [reflexivity|discriminate]. Qed.
Lemma good_toomany : good (KE SE_TooManyElements). Proof. split; [reflexivity|discriminate]. Qed.
Lemma good_veclen : good (KE SE_VectorLen). Proof. split; [reflexivity|discriminate]. Qed.

Lemma good_then w k : frame k -> errs_good w -> errs_good k -> errs_good (w_then w k).
Proof.
  intros Fk Hw Hk e. unfold w_then. destruct (w []) as [o [e'|]] eqn:E.
  - cbn [snd]. intros H. apply Hw. rewrite E. exact H.
  - rewrite (snd_frame k o Fk). apply Hk.
Qed.

Lemma good_loop {A} (f : A -> writer) l :
  (forall x, In x l -> frame (f x) /\ errs_good (f x)) -> errs_good (w_loop f l).
Proof.
  induction l as [|x r IH]; intros H; cbn [w_loop]; [apply good_ok|].
  apply good_then.
  - apply frame_loop. intros y Hy. apply H. now right.
  - apply H. now left.
  - apply IH. intros y Hy. apply H. now right.
Qed.

Lemma good_set_value ws c : errs_good (w_set_value ws c).
Proof.
  intros e. unfold w_set_value. destruct (i32_max <? blen c); cbn [snd]; [|discriminate].
  intros H. inversion H. apply good_overflow.
Qed.

Lemma good_builder ws body : frame body -> errs_good body -> errs_good (w_builder ws body).
Proof.
  intros Fb Hb e. rewrite (builder_eq ws body [] Fb).
  assert (G : errs_good (w_then (builder_pre ws) body)).
  { apply good_then; [exact Fb| |exact Hb]. destruct ws; [apply good_append|apply good_ok]. }
  destruct (w_then (builder_pre ws) body []) as [o [e'|]] eqn:E; cbn [snd].
  - intros H. apply G. rewrite E. exact H.
  - destruct ws; [|discriminate]. destruct (i32_max <? blen o - 4); cbn [snd]; [|discriminate].
    intros H. inversion H. apply good_overflow.
Qed.

Lemma good_sequence {A} ws (f : A -> writer) l :
  (forall x, In x l -> frame (f x) /\ errs_good (f x)) -> errs_good (w_sequence ws f l).
Proof.
  intros H. unfold w_sequence.
  destruct (i32_max <? N.of_nat (List.length l)).
  - apply good_builder; [apply (frame_fail (KE SE_TooManyElements))|apply (good_fail _ good_toomany)].
  - apply good_builder.
    + apply (frame_then (w_append _) (w_loop f l)); [apply frame_append|apply frame_loop; intros; now apply H].
    + apply (good_then (w_append _) (w_loop f l)); [apply frame_loop; intros; now apply H|apply good_append|apply good_loop, H].
Qed.

Lemma good_mapping {A B} ws (fk : A -> writer) (fv : B -> writer) l :
  (forall kv, In kv l -> (frame (fk (fst kv)) /\ errs_good (fk (fst kv))) /\ (frame (fv (snd kv)) /\ errs_good (fv (snd kv)))) ->
  errs_good (w_mapping ws fk fv l).
Proof.
  intros H. unfold w_mapping.
  assert (FL : frame (w_loop (fun kv => w_then (fk (fst kv)) (fv (snd kv))) l)).
  { apply frame_loop. intros kv Hkv. destruct (H kv Hkv) as [[? ?] [? ?]]. now apply frame_then. }
  destruct (i32_max <? N.of_nat (List.length l)).
  - apply good_builder; [apply (frame_fail (KE SE_TooManyElements))|apply (good_fail _ good_toomany)].
  - apply good_builder.
    + apply (frame_then (w_append _)); [apply frame_append|exact FL].
    + apply (good_then (w_append _)); [exact FL|apply good_append|].
      apply good_loop. intros kv Hkv. destruct (H kv Hkv) as [[? ?] [? ?]]. split; [now apply frame_then|now apply good_then].
Qed.

Lemma good_var_elem w : errs_good w -> errs_good (w_var_elem w).
Proof.
  intros H e. unfold w_var_elem. destruct (w []) as [eb [e'|]] eqn:E; cbn [snd]; [|discriminate].
  intros H'. apply H. rewrite E. exact H'.
Qed.

Lemma good_vector {A} ws fixed dim (f : A -> writer) l :
  (forall x, In x l -> frame (f x) /\ errs_good (f x)) -> errs_good (w_vector ws fixed dim f l).
Proof.
  intros H. unfold w_vector. destruct (negb _); [apply (good_fail _ good_veclen)|].
  apply good_builder.
  - apply frame_loop. intros x Hx. destruct fixed; [now apply H|apply frame_var_elem].
  - apply good_loop. intros x Hx. destruct fixed; [now apply H|]. split; [apply frame_var_elem|apply good_var_elem; now apply H].
Qed.

Lemma leaf_bytes_payload x : payload_kind x <> None -> leaf_bytes x <> None.
Proof. destruct x; cbn; congruence. Qed.

Lemma good_ser_leaf b ws t x : native_in t (ser_base_types b) = true -> base_payload b x = true ->
  errs_good (ser_leaf b ws t x).
Proof.
  intros Ht Hp. unfold ser_leaf. rewrite Ht, Hp. cbn [negb].
  destruct (leaf_bytes x) as [c|] eqn:E.
  - assert (Gv : good KE_ValueOverflow) by (split; [reflexivity|discriminate]).
    destruct (uses_builder b).
    + apply good_builder; destruct (value_overflow b x);
        try apply frame_fail; try apply frame_append; try (apply good_fail, Gv); apply good_append.
    + destruct (value_overflow b x); [apply good_fail, Gv|apply good_set_value].
  - exfalso. apply (leaf_bytes_payload x); [|exact E]. unfold base_payload in Hp. destruct (payload_kind x); congruence.
Qed.

Lemma good_tuple_go (f : carrier -> ctype -> kval -> writer) ks :
  (forall k t v, frame (f k t v)) ->
  forall ts vs, List.length ks = List.length vs -> (List.length ks <= List.length ts)%nat ->
  Forall2 (fun kt v => errs_good (f (fst kt) (snd kt) v)) (combine ks (firstn (List.length ks) ts)) vs ->
  errs_good (tuple_go f ks ts vs).
Proof.
  intros Ff. induction ks as [|k1 ks' IH]; intros ts vs Hl Hle HF.
  - destruct vs; [apply good_ok|discriminate].
  - destruct ts as [|t1 ts']; [simpl in Hle; lia|]. destruct vs as [|v1 vs']; [discriminate|].
    cbn [tuple_go]. cbn [List.length firstn combine] in *. inversion HF; subst.
    apply good_then.
    + apply frame_tuple_go. apply Forall_forall. intros; apply Ff.
    + assumption.
    + apply IH; [lia|lia|assumption].
Qed.

(* an accepted pair never produces a type-check error, whatever value of the carrier is bound *)
Theorem accept_sound k : forall ws t v, static k = true -> has_carrier k v = true -> ser_accepts k t = true ->
  errs_good (ser_buf k ws t v).
Proof.
  induction k using carrier_ind'; intros ws t v Hs Hv Ha;
    cbn [static has_carrier ser_accepts] in *; try discriminate.
  - (* base *) destruct b; destruct v; try discriminate; cbn [ser_buf];
      try (apply good_ser_leaf; assumption); apply good_append.
  - destruct v; try discriminate; cbn [ser_buf]; now apply IHk.
  - destruct v; try discriminate; cbn [ser_buf]; now apply IHk.
  - apply andb_prop in Ha as [He Ha]. cbn [ser_buf]. rewrite He. cbn [negb].
    destruct v; try discriminate; try apply good_set_value; now apply IHk.
  - destruct v; try discriminate; cbn [ser_buf]; now apply IHk.
  - destruct v; try discriminate; cbn [ser_buf]; now apply IHk.
  - destruct v; try discriminate; cbn [ser_buf]; now apply IHk.
  - destruct v; try discriminate; cbn [ser_buf]; now apply IHk.
  - destruct v; try discriminate; cbn [ser_buf]; now apply IHk.
  - destruct v; try discriminate; cbn [ser_buf]; now apply IHk.
  - destruct v; try discriminate. rewrite forallb_forall in Hv. cbn [ser_buf].
    destruct t; try discriminate; [apply good_sequence|apply good_sequence|apply good_vector];
      intros x Hx; (split; [apply frame_ser_buf|apply IHk; auto]).
  - destruct v; try discriminate. rewrite forallb_forall in Hv. cbn [ser_buf].
    destruct t; try discriminate; [apply good_sequence|apply good_sequence|apply good_vector];
      intros x Hx; (split; [apply frame_ser_buf|apply IHk; auto]).
  - destruct v; try discriminate. rewrite forallb_forall in Hv. cbn [ser_buf].
    destruct t; try discriminate; apply good_sequence; intros x Hx; (split; [apply frame_ser_buf|apply IHk; auto]).
  - destruct v; try discriminate. rewrite forallb_forall in Hv. cbn [ser_buf].
    destruct t; try discriminate; apply good_sequence; intros x Hx; (split; [apply frame_ser_buf|apply IHk; auto]).
  - apply andb_prop in Hs as [Hs1 Hs2]. destruct v; try discriminate. rewrite forallb_forall in Hv. cbn [ser_buf].
    destruct t; try discriminate. apply andb_prop in Ha as [Ha1 Ha2]. apply good_mapping. intros kv Hkv.
    specialize (Hv kv Hkv). apply andb_prop in Hv as [Hv1 Hv2].
    split; (split; [apply frame_ser_buf|]); [apply IHk1|apply IHk2]; auto.
  - apply andb_prop in Hs as [Hs1 Hs2]. destruct v; try discriminate. rewrite forallb_forall in Hv. cbn [ser_buf].
    destruct t; try discriminate. apply andb_prop in Ha as [Ha1 Ha2]. apply good_mapping. intros kv Hkv.
    specialize (Hv kv Hkv). apply andb_prop in Hv as [Hv1 Hv2].
    split; (split; [apply frame_ser_buf|]); [apply IHk1|apply IHk2]; auto.
  - (* tuple *) destruct v; try discriminate. rewrite ser_buf_tuple. destruct t; try discriminate.
    apply andb_prop in Hv as [Hl Hv]. apply Nat.eqb_eq in Hl.
    pose proof (all2_length _ _ _ Ha) as Hle.
    assert ((List.length ts <? List.length ks)%nat = false) as -> by (apply Nat.ltb_ge; exact Hle).
    apply good_builder; [apply frame_tuple_go, Forall_forall; intros; apply frame_ser_buf|].
    apply good_tuple_go; [intros; apply frame_ser_buf|exact Hl|exact Hle|].
    clear Hle. revert ts l Hl Hv Ha Hs. induction H as [|k1 ks' Hk1 _ IH]; intros ts vs Hl Hv Ha Hs.
    + destruct vs; [constructor|discriminate].
    + destruct vs as [|v1 vs']; [discriminate|]. destruct ts as [|t1 ts']; [discriminate|].
      cbn [all2 forallb List.length firstn combine] in *.
      apply andb_prop in Hv as [Hv1 Hv2]. apply andb_prop in Ha as [Ha1 Ha2]. apply andb_prop in Hs as [Hs1 Hs2].
      constructor; [cbn [fst snd]; now apply Hk1|]. apply IH; auto.
Qed.

(* ---- a rejected pair is refused on every populated value ---------------------------------- *)

Lemma fails_fail e : fails (w_fail e).
Proof. exists e. reflexivity. Qed.

Lemma fails_then_l w k : fails w -> fails (w_then w k).
Proof. intros [e He]. exists e. unfold w_then. destruct (w []) as [o [e'|]]; cbn [snd] in *; [exact He|discriminate]. Qed.

Lemma fails_then_r w k : frame k -> fails k -> fails (w_then w k).
Proof.
  intros Fk [e He]. unfold fails, w_then. destruct (w []) as [o [e'|]]; cbn [snd].
  - eauto.
  - rewrite (snd_frame k o Fk). eauto.
Qed.

Lemma fails_loop {A} (f : A -> writer) l x :
  (forall y, In y l -> frame (f y)) -> In x l -> fails (f x) -> fails (w_loop f l).
Proof.
  intros Ff. induction l as [|y r IH]; intros Hin Hx; [destruct Hin|]. cbn [w_loop].
  destruct Hin as [->|Hin].
  - now apply fails_then_l.
  - apply fails_then_r; [apply frame_loop; intros; apply Ff; now right|].
    apply IH; [intros; apply Ff; now right|exact Hin|exact Hx].
Qed.

Lemma fails_builder ws body : frame body -> fails body -> fails (w_builder ws body).
Proof.
  intros Fb Hb. unfold fails. rewrite (builder_eq ws body [] Fb).
  assert (G : fails (w_then (builder_pre ws) body)) by (apply fails_then_r; assumption).
  destruct G as [e He]. destruct (w_then (builder_pre ws) body []) as [o [e'|]]; cbn [snd] in *; [eauto|discriminate].
Qed.

Lemma fails_sequence {A} ws (f : A -> writer) l x :
  (forall y, In y l -> frame (f y)) -> In x l -> fails (f x) -> fails (w_sequence ws f l).
Proof.
  intros Ff Hin Hx. unfold w_sequence. destruct (i32_max <? N.of_nat (List.length l)).
  - apply fails_builder; [apply (frame_fail (KE SE_TooManyElements))|apply fails_fail].
  - apply fails_builder.
    + apply (frame_then (w_append _) (w_loop f l)); [apply frame_append|apply frame_loop, Ff].
    + apply (fails_then_r (w_append _) (w_loop f l)); [apply frame_loop, Ff|]. now apply fails_loop with x.
Qed.

Lemma fails_mapping {A B} ws (fk : A -> writer) (fv : B -> writer) l kv :
  (forall y, In y l -> frame (fk (fst y)) /\ frame (fv (snd y))) -> In kv l ->
  fails (fk (fst kv)) \/ fails (fv (snd kv)) -> fails (w_mapping ws fk fv l).
Proof.
  intros Ff Hin Hx. unfold w_mapping.
  assert (FL : forall y, In y l -> frame ((fun kv => w_then (fk (fst kv)) (fv (snd kv))) y)).
  { intros y Hy. destruct (Ff y Hy). now apply frame_then. }
  destruct (i32_max <? N.of_nat (List.length l)).
  - apply fails_builder; [apply (frame_fail (KE SE_TooManyElements))|apply fails_fail].
  - apply fails_builder.
    + apply (frame_then (w_append _)); [apply frame_append|apply frame_loop, FL].
    + apply (fails_then_r (w_append _)); [apply frame_loop, FL|].
      apply fails_loop with kv; [exact FL|exact Hin|]. destruct (Ff kv Hin) as [F1 F2].
      destruct Hx; [now apply fails_then_l|now apply fails_then_r].
Qed.

Lemma fails_var_elem w : fails w -> fails (w_var_elem w).
Proof. intros [e He]. exists e. unfold w_var_elem. destruct (w []) as [eb [e'|]]; cbn [snd] in *; [exact He|discriminate]. Qed.

Lemma fails_vector {A} ws fixed dim (f : A -> writer) l x :
  (forall y, In y l -> frame (f y)) -> In x l -> fails (f x) -> fails (w_vector ws fixed dim f l).
Proof.
  intros Ff Hin Hx. unfold w_vector. destruct (negb _); [apply fails_fail|].
  apply fails_builder.
  - apply frame_loop. intros y Hy. destruct fixed; [now apply Ff|apply frame_var_elem].
  - apply fails_loop with x.
    + intros y Hy. destruct fixed; [now apply Ff|apply frame_var_elem].
    + exact Hin.
    + destruct fixed; [exact Hx|now apply fails_var_elem].
Qed.

Lemma fails_ser_leaf b ws t x : native_in t (ser_base_types b) = false -> fails (ser_leaf b ws t x).
Proof. intros H. unfold ser_leaf. rewrite H. apply fails_fail. Qed.

Lemma nonempty_in {A} (l : list A) : is_nil l = false -> exists x, In x l.
Proof. destruct l; [discriminate|]. intros _. eexists. now left. Qed.

Lemma fails_tuple_go (f : carrier -> ctype -> kval -> writer) ks :
  (forall k t v, frame (f k t v)) ->
  forall ts vs, List.length ks = List.length vs -> (List.length ks <= List.length ts)%nat ->
  Exists (fun ktv => fails (f (fst (fst ktv)) (snd (fst ktv)) (snd ktv))) (combine (combine ks (firstn (List.length ks) ts)) vs) ->
  fails (tuple_go f ks ts vs).
Proof.
  intros Ff. induction ks as [|k1 ks' IH]; intros ts vs Hl Hle HE.
  - cbn in HE. inversion HE.
  - destruct ts as [|t1 ts']; [simpl in Hle; lia|]. destruct vs as [|v1 vs']; [discriminate|].
    cbn [tuple_go]. cbn [List.length firstn combine] in *. inversion HE; subst.
    + now apply fails_then_l.
    + apply fails_then_r; [apply frame_tuple_go, Forall_forall; intros; apply Ff|]. apply IH; [lia|lia|assumption].
Qed.

(* a pair the type-level matrix rejects is refused on EVERY populated value of the carrier
   (with a type-check error, or earlier by the vector length / element count check) *)
Theorem reject_complete k : forall ws t v, has_carrier k v = true -> populated v = true -> ser_accepts k t = false ->
  fails (ser_buf k ws t v).
Proof.
  induction k using carrier_ind'; intros ws t v Hv Hp Ha;
    cbn [has_carrier ser_accepts] in *; try discriminate.
  - destruct b; destruct v; try discriminate; cbn [ser_buf]; apply fails_ser_leaf; exact Ha.
  - destruct v; try discriminate; cbn [ser_buf populated] in *; now apply IHk.
  - destruct v; try discriminate; cbn [ser_buf populated] in *; now apply IHk.
  - cbn [ser_buf]. destruct (supports_empty t); cbn [negb andb] in *; [|apply fails_fail].
    destruct v; try discriminate; cbn [populated] in *; now apply IHk.
  - destruct v; try discriminate; cbn [ser_buf populated] in *; now apply IHk.
  - destruct v; try discriminate; cbn [ser_buf populated] in *; now apply IHk.
  - destruct v; try discriminate; cbn [ser_buf populated] in *; now apply IHk.
  - destruct v; try discriminate; cbn [ser_buf populated] in *; now apply IHk.
  - destruct v; try discriminate; cbn [ser_buf populated] in *; now apply IHk.
  - destruct v; try discriminate; cbn [ser_buf populated] in *; now apply IHk.
  - destruct v; try discriminate. cbn [ser_buf populated] in *. apply andb_prop in Hp as [Hn Hp].
    apply negb_true_iff, nonempty_in in Hn as [x Hx]. rewrite forallb_forall in Hv, Hp.
    destruct t; try apply fails_fail;
      [apply fails_sequence with x|apply fails_sequence with x|apply fails_vector with x];
      try (intros; apply frame_ser_buf); try exact Hx; apply IHk; auto.
  - destruct v; try discriminate. cbn [ser_buf populated] in *. apply andb_prop in Hp as [Hn Hp].
    apply negb_true_iff, nonempty_in in Hn as [x Hx]. rewrite forallb_forall in Hv, Hp.
    destruct t; try apply fails_fail;
      [apply fails_sequence with x|apply fails_sequence with x|apply fails_vector with x];
      try (intros; apply frame_ser_buf); try exact Hx; apply IHk; auto.
  - destruct v; try discriminate. cbn [ser_buf populated] in *. apply andb_prop in Hp as [Hn Hp].
    apply negb_true_iff, nonempty_in in Hn as [x Hx]. rewrite forallb_forall in Hv, Hp.
    destruct t; try apply fails_fail; apply fails_sequence with x;
      try (intros; apply frame_ser_buf); try exact Hx; apply IHk; auto.
  - destruct v; try discriminate. cbn [ser_buf populated] in *. apply andb_prop in Hp as [Hn Hp].
    apply negb_true_iff, nonempty_in in Hn as [x Hx]. rewrite forallb_forall in Hv, Hp.
    destruct t; try apply fails_fail; apply fails_sequence with x;
      try (intros; apply frame_ser_buf); try exact Hx; apply IHk; auto.
  - destruct v; try discriminate. cbn [ser_buf populated] in *. apply andb_prop in Hp as [Hn Hp].
    apply negb_true_iff, nonempty_in in Hn as [kv Hkv]. rewrite forallb_forall in Hv, Hp.
    destruct t; try apply fails_fail. apply fails_mapping with kv; [intros; split; apply frame_ser_buf|exact Hkv|].
    specialize (Hv kv Hkv). specialize (Hp kv Hkv). apply andb_prop in Hv as [Hv1 Hv2]. apply andb_prop in Hp as [Hp1 Hp2].
    apply andb_false_elim in Ha as [Ha|Ha]; [left; apply IHk1|right; apply IHk2]; auto.
  - destruct v; try discriminate. cbn [ser_buf populated] in *. apply andb_prop in Hp as [Hn Hp].
    apply negb_true_iff, nonempty_in in Hn as [kv Hkv]. rewrite forallb_forall in Hv, Hp.
    destruct t; try apply fails_fail. apply fails_mapping with kv; [intros; split; apply frame_ser_buf|exact Hkv|].
    specialize (Hv kv Hkv). specialize (Hp kv Hkv). apply andb_prop in Hv as [Hv1 Hv2]. apply andb_prop in Hp as [Hp1 Hp2].
    apply andb_false_elim in Ha as [Ha|Ha]; [left; apply IHk1|right; apply IHk2]; auto.
  - (* tuple *) destruct v; try discriminate. rewrite ser_buf_tuple. destruct t; try apply fails_fail.
    destruct (List.length ts <? List.length ks)%nat eqn:El; [apply fails_fail|]. apply Nat.ltb_ge in El.
    apply andb_prop in Hv as [Hl Hv]. apply Nat.eqb_eq in Hl. cbn [populated] in Hp.
    apply fails_builder; [apply frame_tuple_go, Forall_forall; intros; apply frame_ser_buf|].
    apply fails_tuple_go; [intros; apply frame_ser_buf|exact Hl|exact El|].
    revert ts l Hl Hv Hp Ha El. induction H as [|k1 ks' Hk1 _ IH]; intros ts vs Hl Hv Hp Ha El.
    + discriminate.
    + destruct vs as [|v1 vs']; [discriminate|]. destruct ts as [|t1 ts']; [simpl in El; lia|].
      cbn [all2 forallb List.length firstn combine] in *.
      apply andb_prop in Hv as [Hv1 Hv2]. apply andb_prop in Hp as [Hp1 Hp2].
      apply andb_false_elim in Ha as [Ha|Ha].
      * apply Exists_cons_hd. cbn [fst snd]. now apply Hk1.
      * apply Exists_cons_tl. apply IH; auto; lia.
Qed.
(* ====================================================================================== *)
(* 6. Rows, the cap, the chunked representation used by the driver                          *)
(* ====================================================================================== *)

Theorem add_value_cap s k t v : sv_count s = u16_max -> add_value s k t v = (s, Some RE_TooManyValues).
Proof. intros H. unfold add_value. rewrite H, N.eqb_refl. reflexivity. Qed.

(* whatever fails, the bytes that stay are the bytes that were there *)
Theorem add_value_no_bytes s k t v e : snd (ser_out k true t v) = Some e ->
  fst (add_value s k t v) = s.
Proof.
  intros H. unfold add_value. destruct (sv_count s =? u16_max); [reflexivity|].
  rewrite ser_buf_out, H. cbn [fst]. rewrite resize_app. destruct s; reflexivity.
Qed.

(* a type mismatch at the top level does not even touch the buffer *)
Lemma leaf_mismatch_untouched b ws t x buf : native_in t (ser_base_types b) = false ->
  ser_leaf b ws t x buf = (buf, Some (KE SE_MismatchedType)).
Proof. intros H. unfold ser_leaf. rewrite H. reflexivity. Qed.

Lemma chunks_bytes_acc (cs : list bytes) (acc : bytes) :
  fold_left (fun acc c => c ++ acc) cs acc = concat (rev cs) ++ acc.
Proof.
  revert acc. induction cs as [|c cs IH]; intros acc; [reflexivity|].
  cbn [fold_left rev]. rewrite IH, concat_snoc, <- app_assoc. reflexivity.
Qed.

Lemma chunks_bytes_rev cs : chunks_bytes cs = concat (rev cs).
Proof. unfold chunks_bytes. rewrite chunks_bytes_acc. apply app_nil_r. Qed.

Lemma add_value_chunks_eq cs cnt k t v :
  add_value {| sv_bytes := chunks_bytes cs; sv_count := cnt |} k t v =
  match add_value_chunks cs cnt k t v with
  | (cs', cnt', r) => ({| sv_bytes := chunks_bytes cs'; sv_count := cnt' |}, r)
  end.
Proof.
  unfold add_value, add_value_chunks. cbn [sv_bytes sv_count]. destruct (cnt =? u16_max); [reflexivity|].
  rewrite ser_buf_out. unfold ser_out. destruct (ser_buf k true t v []) as [o [e|]]; cbn [fst snd].
  - now rewrite resize_app.
  - rewrite !chunks_bytes_rev. cbn [rev]. now rewrite concat_snoc.
Qed.

Lemma row_write_spec cols : forall vals buf cnt b cnt' ,
  List.length cols = List.length vals ->
  row_write cols vals buf cnt = (b, cnt', None) ->
  exists chunks : list bytes, b = buf ++ concat chunks /\ Forall cell_out chunks /\
                 List.length chunks = List.length vals /\ cnt' = cnt + N.of_nat (List.length vals).
Proof.
  induction cols as [|t cols IH]; intros vals buf cnt b cnt' Hl H.
  - destruct vals; [|discriminate]. cbn in H. inversion H; subst. exists []. cbn. rewrite app_nil_r.
    repeat split; [constructor|lia].
  - destruct vals as [|[k v] vals]; [discriminate|]. cbn [row_write] in H. injection Hl as Hl.
    rewrite ser_buf_out in H. destruct (ser_out k true t v) as [o [e|]] eqn:Eo; cbn [fst snd] in H; [discriminate|].
    destruct (IH vals _ _ _ _ Hl H) as (cs & -> & Hc & Hn & ->). exists (o :: cs). cbn [concat List.length].
    split; [now rewrite app_assoc|]. split; [constructor; [apply (sized_ser_buf k t v), Eo|exact Hc]|]. split; lia.
Qed.

(* a SerializedValues built from a row holds exactly one well-formed cell per value *)
Theorem from_row_count cols vals s : from_row cols vals = Ok s ->
  exists cells, sv_iter s = Some cells /\ List.length cells = List.length vals /\
                sv_count s = N.of_nat (List.length vals) /\ sv_count s <= u16_max.
Proof.
  unfold from_row. destruct (negb _) eqn:El; [discriminate|]. apply negb_false_iff, Nat.eqb_eq in El.
  destruct (row_write cols vals [] 0) as [[b cnt] [e|]] eqn:E; [discriminate|].
  destruct (u16_max <? cnt) eqn:Ec; [discriminate|]. intros H. inversion H; subst. clear H.
  destruct (row_write_spec _ _ _ _ _ _ El E) as (cs & -> & Hc & Hn & ->). cbn [app] in *. apply N.ltb_ge in Ec.
  destruct (sv_wf_iter {| sv_bytes := concat cs; sv_count := 0 + N.of_nat (List.length vals) |}) as (cells & Hi & Hlen & Hmax).
  { exists cs. cbn [sv_bytes sv_count]. repeat split; auto; lia. }
  exists cells. cbn [sv_count] in *. repeat split; auto; lia.
Qed.

(* ... and no SerializedValues at all comes out of a row with a value that does not serialise *)
Lemma row_write_fails k t v : fails (ser_buf k true t v) ->
  forall cols vals i buf cnt, nth_error cols i = Some t -> nth_error vals i = Some (k, v) ->
  exists b c e, row_write cols vals buf cnt = (b, c, Some e).
Proof.
  intros [e0 Hf] cols. induction cols as [|t0 cols IH]; intros vals i buf cnt Hc Hv; [destruct i; discriminate|].
  destruct vals as [|[k0 v0] vals]; [destruct i; discriminate|]. cbn [row_write].
  destruct (ser_buf k0 true t0 v0 buf) as [b [e|]] eqn:E; [eauto|].
  destruct i as [|i].
  - cbn in Hc, Hv. inversion Hc; inversion Hv; subst.
    apply (f_equal snd) in E. rewrite (snd_frame _ buf (frame_ser_buf k true t v)) in E. cbn [snd] in E. congruence.
  - cbn in Hc, Hv. eapply IH; eauto.
Qed.

Theorem from_row_refuses cols vals k t v i : nth_error cols i = Some t -> nth_error vals i = Some (k, v) ->
  fails (ser_buf k true t v) -> exists e, from_row cols vals = Err e.
Proof.
  intros Hc Hv Hf. unfold from_row. destruct (negb _); [eauto|].
  destruct (row_write_fails k t v Hf cols vals i [] 0 Hc Hv) as (b & c & e & ->). eauto.
Qed.
(* ====================================================================================== *)
(* 7. The dynamic carrier: a CqlValue is accepted iff it is a value of the column type      *)
(* ====================================================================================== *)

Section errs_in.
  Variable Q : kerr -> Prop.
  Hypothesis Qov : Q (KE SE_SizeOverflow).
  Hypothesis Qtm : Q (KE SE_TooManyElements).

  Definition errs_in (w : writer) : Prop := forall e, snd (w []) = Some e -> Q e.

  Lemma in_ok : errs_in w_ok. Proof. intros e H. discriminate. Qed.
  Lemma in_append c : errs_in (w_append c). Proof. intros e H. discriminate. Qed.

  Lemma in_then w k : frame k -> errs_in w -> errs_in k -> errs_in (w_then w k).
  Proof.
    intros Fk Hw Hk e. unfold w_then. destruct (w []) as [o [e'|]] eqn:E.
    - cbn [snd]. intros H. apply Hw. rewrite E. exact H.
    - rewrite (snd_frame k o Fk). apply Hk.
  Qed.

  Lemma in_loop {A} (f : A -> writer) l :
    (forall x, In x l -> frame (f x) /\ errs_in (f x)) -> errs_in (w_loop f l).
  Proof.
    induction l as [|x r IH]; intros H; cbn [w_loop]; [apply in_ok|].
    apply in_then.
    - apply frame_loop. intros y Hy. apply H. now right.
    - apply H. now left.
    - apply IH. intros y Hy. apply H. now right.
  Qed.

  Lemma in_set_value ws c : errs_in (w_set_value ws c).
  Proof.
    intros e. unfold w_set_value. destruct (i32_max <? blen c); cbn [snd]; [|discriminate].
    intros H. inversion H. exact Qov.
  Qed.

  Lemma in_builder ws body : frame body -> errs_in body -> errs_in (w_builder ws body).
  Proof.
    intros Fb Hb e. rewrite (builder_eq ws body [] Fb).
    assert (G : errs_in (w_then (builder_pre ws) body)).
    { apply in_then; [exact Fb| |exact Hb]. destruct ws; [apply in_append|apply in_ok]. }
    destruct (w_then (builder_pre ws) body []) as [o [e'|]] eqn:E; cbn [snd].
    - intros H. apply G. rewrite E. exact H.
    - destruct ws; [|discriminate]. destruct (i32_max <? blen o - 4); cbn [snd]; [|discriminate].
      intros H. inversion H. exact Qov.
  Qed.

  Lemma in_fail_tm : errs_in (w_fail (KE SE_TooManyElements)).
  Proof. intros e H. cbn in H. inversion H. exact Qtm. Qed.

  Lemma in_sequence {A} ws (f : A -> writer) l :
    (forall x, In x l -> frame (f x) /\ errs_in (f x)) -> errs_in (w_sequence ws f l).
  Proof.
    intros H. unfold w_sequence.
    destruct (i32_max <? N.of_nat (List.length l)).
    - apply in_builder; [apply (frame_fail (KE SE_TooManyElements))|apply in_fail_tm].
    - apply in_builder.
      + apply (frame_then (w_append _) (w_loop f l)); [apply frame_append|apply frame_loop; intros; now apply H].
      + apply (in_then (w_append _) (w_loop f l)); [apply frame_loop; intros; now apply H|apply in_append|apply in_loop, H].
  Qed.

  Lemma in_mapping {A B} ws (fk : A -> writer) (fv : B -> writer) l :
    (forall kv, In kv l -> (frame (fk (fst kv)) /\ errs_in (fk (fst kv))) /\ (frame (fv (snd kv)) /\ errs_in (fv (snd kv)))) ->
    errs_in (w_mapping ws fk fv l).
  Proof.
    intros H. unfold w_mapping.
    assert (FL : frame (w_loop (fun kv => w_then (fk (fst kv)) (fv (snd kv))) l)).
    { apply frame_loop. intros kv Hkv. destruct (H kv Hkv) as [[? ?] [? ?]]. now apply frame_then. }
    destruct (i32_max <? N.of_nat (List.length l)).
    - apply in_builder; [apply (frame_fail (KE SE_TooManyElements))|apply in_fail_tm].
    - apply in_builder.
      + apply (frame_then (w_append _)); [apply frame_append|exact FL].
      + apply (in_then (w_append _)); [exact FL|apply in_append|].
        apply in_loop. intros kv Hkv. destruct (H kv Hkv) as [[? ?] [? ?]]. split; [now apply frame_then|now apply in_then].
  Qed.

  Lemma in_var_elem w : errs_in w -> errs_in (w_var_elem w).
  Proof.
    intros H e. unfold w_var_elem. destruct (w []) as [eb [e'|]] eqn:E; cbn [snd]; [|discriminate].
    intros H'. apply H. rewrite E. exact H'.
  Qed.

  (* a vector value with the right number of elements *)
  Lemma in_vector {A} ws fixed dim (f : A -> writer) l : (N.of_nat (List.length l) =? dim) = true ->
    (forall x, In x l -> frame (f x) /\ errs_in (f x)) -> errs_in (w_vector ws fixed dim f l).
  Proof.
    intros Hd H. unfold w_vector. rewrite Hd. cbn [negb].
    apply in_builder.
    - apply frame_loop. intros x Hx. destruct fixed; [now apply H|apply frame_var_elem].
    - apply in_loop. intros x Hx. destruct fixed; [now apply H|]. split; [apply frame_var_elem|apply in_var_elem; now apply H].
  Qed.

  Lemma in_ser_leaf b ws t x : native_in t (ser_base_types b) = true -> base_payload b x = true ->
    value_overflow b x = false -> errs_in (ser_leaf b ws t x).
  Proof.
    intros Ht Hp Ho. unfold ser_leaf. rewrite Ht, Hp, Ho. cbn [negb].
    destruct (leaf_bytes x) as [c|] eqn:E.
    - destruct (uses_builder b); [apply in_builder; [apply frame_append|apply in_append]|apply in_set_value].
    - exfalso. apply (leaf_bytes_payload x); [|exact E]. unfold base_payload in Hp. destruct (payload_kind x); congruence.
  Qed.
End errs_in.

Definition size_errs := errs_in (fun e => is_size_err e = true).

Fixpoint fits_udt_go (f : ctype -> cval -> bool) (fts : list (name * ctype)) (st : list (name * option cval)) : bool :=
  match fts with
  | [] => is_nil st
  | (fname, ft) :: r =>
      match udt_field_value fname st with None => true | Some x => f ft x end && fits_udt_go f r (remove_name fname st)
  end.
Fixpoint fits_tuple_go (f : ctype -> cval -> bool) (ts : list ctype) (l : list (option cval)) : bool :=
  match ts, l with
  | et :: ts', ox :: l' => match ox with None => true | Some x => f et x end && fits_tuple_go f ts' l'
  | _, _ => true
  end.

Lemma dyn_fits_udt s ks' nm' fts ks nm fields :
  dyn_fits_gen s (TUdt ks' nm' fts) (CUdt ks nm fields) =
  bytes_eqb ks ks' && bytes_eqb nm nm' && fits_udt_go (dyn_fits_gen s) fts fields.
Proof.
  cbn [dyn_fits_gen]. f_equal. revert fields. induction fts as [|[fname ft] r IH]; intros st; [reflexivity|].
  cbn [fits_udt_go]. rewrite <- IH. reflexivity.
Qed.
Lemma dyn_fits_tuple s ts l :
  dyn_fits_gen s (TTuple ts) (CTuple l) = (List.length l <=? List.length ts)%nat && fits_tuple_go (dyn_fits_gen s) ts l.
Proof.
  cbn [dyn_fits_gen]. f_equal. revert l. induction ts as [|et ts' IH]; intros l; [reflexivity|].
  destruct l as [|ox l']; [reflexivity|]. cbn [fits_tuple_go]. rewrite <- IH. reflexivity.
Qed.

Definition is_leaf (v : cval) : bool := match payload_kind v with Some _ => true | None => false end.

Lemma leaf_payload_ok v : is_leaf v = true -> base_payload (dyn_base v) v = true.
Proof. destruct v; try discriminate; reflexivity. Qed.
(* serialize_cql_value never dispatches to one of the two converting carriers *)
Lemma dyn_no_overflow v : value_overflow (dyn_base v) v = false.
Proof. destruct v; reflexivity. Qed.

Lemma ser_dyn_leaf ws t v : is_leaf v = true -> ser_dyn ws t v = ser_leaf (dyn_base v) ws t v.
Proof. destruct v; try discriminate; intros _; destruct t; reflexivity. Qed.

Lemma dyn_fits_leaf s t v : is_leaf v = true -> dyn_fits_gen s t v = native_in t (ser_base_types (dyn_base v)).
Proof.
  destruct v; try discriminate; intros _; destruct t as [n| | | | | |]; try reflexivity; destruct n; reflexivity.
Qed.

Lemma size_dyn_tuple_go (f : ctype -> cval -> writer) (g : ctype -> cval -> bool) ts :
  Forall (fun et => forall x, frame (f et x) /\ (g et x = true -> size_errs (f et x))) ts ->
  forall l, fits_tuple_go g ts l = true -> size_errs (dyn_tuple_go f ts l).
Proof.
  induction 1 as [|et ts' Het Hts IH]; intros l Hl; [apply in_ok|].
  destruct l as [|ox l']; [apply in_ok|]. cbn [dyn_tuple_go fits_tuple_go] in *. apply andb_prop in Hl as [H1 H2].
  apply in_then; [apply frame_dyn_tuple_go; eapply Forall_impl; [|exact Hts]; intros a Ha x; apply Ha| |now apply IH].
  destruct ox; [now apply Het|apply in_append].
Qed.

Lemma size_dyn_udt_go (f : ctype -> cval -> writer) (g : ctype -> cval -> bool) fts :
  Forall (fun ft => forall x, frame (f (snd ft) x) /\ (g (snd ft) x = true -> size_errs (f (snd ft) x))) fts ->
  forall st, fits_udt_go g fts st = true -> size_errs (dyn_udt_go f fts st).
Proof.
  induction 1 as [|[fname ft] r Hft Hr IH]; intros st Hs; cbn [dyn_udt_go fits_udt_go] in *.
  - rewrite Hs. apply in_ok.
  - apply andb_prop in Hs as [H1 H2].
    apply in_then; [apply frame_dyn_udt_go; eapply Forall_impl; [|exact Hr]; intros a Ha x; apply Ha| |now apply IH].
    destruct (udt_field_value fname st); [now apply Hft|apply in_append].
Qed.

(* a value of the type - with or without the vector element rule - is never refused by a type check
   (nor by the vector length check): what can still fail is a size beyond the i32 limits *)
Theorem dyn_accept_gen s t : forall ws v, dyn_fits_gen s t v = true -> size_errs (ser_dyn ws t v).
Proof.
  induction t as [n|e IHe|e IHe|k e IHk IHe|ts IHts|ks' nm' fts IHfs|e d IHe] using ctype_ind'; intros ws v Hf.
  all: destruct (is_leaf v) eqn:El;
    [rewrite ser_dyn_leaf by exact El; rewrite dyn_fits_leaf in Hf by exact El;
     apply in_ser_leaf; auto using leaf_payload_ok, dyn_no_overflow|].
  all: destruct v; try discriminate El; try discriminate Hf.
  all: try (cbn [ser_dyn dyn_fits_gen] in *; rewrite Hf; apply in_set_value; reflexivity).
  all: try (cbn [ser_dyn dyn_fits_gen] in *; rewrite forallb_forall in Hf; apply in_sequence; try reflexivity;
            intros x Hx; split; [apply frame_ser_dyn|apply IHe; auto]).
  - cbn [ser_dyn dyn_fits_gen] in *. rewrite forallb_forall in Hf. apply in_mapping; try reflexivity. intros kv Hkv.
    specialize (Hf kv Hkv). apply andb_prop in Hf as [H1 H2].
    split; (split; [apply frame_ser_dyn|]); [apply IHk|apply IHe]; auto.
  - rewrite ser_dyn_tuple. rewrite dyn_fits_tuple in Hf. apply andb_prop in Hf as [Hl Hf].
    assert ((List.length ts <? List.length l)%nat = false) as -> by (apply Nat.ltb_ge, Nat.leb_le, Hl).
    apply in_builder; try reflexivity.
    + apply frame_dyn_tuple_go, Forall_forall. intros; apply frame_ser_dyn.
    + apply size_dyn_tuple_go with (g := dyn_fits_gen s); [|exact Hf].
      eapply Forall_impl; [|exact IHts]. intros a Ha x. split; [apply frame_ser_dyn|apply Ha].
  - rewrite ser_dyn_udt. rewrite dyn_fits_udt in Hf. apply andb_prop in Hf as [Hn Hf]. rewrite Hn. cbn [negb].
    apply in_builder; try reflexivity.
    + apply frame_dyn_udt_go, Forall_forall. intros; apply frame_ser_dyn.
    + apply size_dyn_udt_go with (g := dyn_fits_gen s); [|exact Hf].
      eapply Forall_impl; [|exact IHfs]. intros a Ha x. split; [apply frame_ser_dyn|apply Ha].
  - cbn [ser_dyn dyn_fits_gen] in *. apply andb_prop in Hf as [Hd Hf]. apply andb_prop in Hd as [Hd _]. rewrite forallb_forall in Hf.
    apply in_vector; try reflexivity; [exact Hd|]. intros x Hx. split; [apply frame_ser_dyn|apply IHe; auto].
  - cbn [ser_dyn dyn_fits_gen] in *. apply andb_prop in Hf as [Hd Hf]. apply andb_prop in Hd as [Hd _]. rewrite forallb_forall in Hf.
    apply in_vector; try reflexivity; [exact Hd|]. intros x Hx. split; [apply frame_ser_dyn|apply IHe; auto].
  - cbn [ser_dyn dyn_fits_gen] in *. apply andb_prop in Hf as [Hd Hf]. apply andb_prop in Hd as [Hd _]. rewrite forallb_forall in Hf.
    apply in_vector; try reflexivity; [exact Hd|]. intros x Hx. split; [apply frame_ser_dyn|apply IHe; auto].
Qed.
Definition dyn_accept := dyn_accept_gen true.

Lemma forallb_false_ex {A} (f : A -> bool) l : forallb f l = false -> exists x, In x l /\ f x = false.
Proof.
  induction l as [|x r IH]; [discriminate|]. cbn [forallb]. intros H. apply andb_false_elim in H as [H|H].
  - exists x. split; [now left|exact H].
  - destruct (IH H) as (y & Hy & Hf). exists y. split; [now right|exact Hf].
Qed.

Lemma fails_dyn_tuple_go (f : ctype -> cval -> writer) (g : ctype -> cval -> bool) ts :
  Forall (fun et => forall x, frame (f et x) /\ (g et x = false -> fails (f et x))) ts ->
  forall l, fits_tuple_go g ts l = false -> fails (dyn_tuple_go f ts l).
Proof.
  induction 1 as [|et ts' Het Hts IH]; intros l Hl; [discriminate|].
  destruct l as [|ox l']; [discriminate|]. cbn [dyn_tuple_go fits_tuple_go] in *.
  apply andb_false_elim in Hl as [H1|H2].
  - apply fails_then_l. destruct ox; [now apply Het|discriminate].
  - apply fails_then_r; [|now apply IH]. apply frame_dyn_tuple_go. eapply Forall_impl; [|exact Hts]. intros a Ha x; apply Ha.
Qed.

Lemma fails_dyn_udt_go (f : ctype -> cval -> writer) (g : ctype -> cval -> bool) fts :
  Forall (fun ft => forall x, frame (f (snd ft) x) /\ (g (snd ft) x = false -> fails (f (snd ft) x))) fts ->
  forall st, fits_udt_go g fts st = false -> fails (dyn_udt_go f fts st).
Proof.
  induction 1 as [|[fname ft] r Hft Hr IH]; intros st Hs; cbn [dyn_udt_go fits_udt_go] in *.
  - rewrite Hs. apply fails_fail.
  - apply andb_false_elim in Hs as [H1|H2].
    + apply fails_then_l. destruct (udt_field_value fname st); [now apply Hft|discriminate].
    + apply fails_then_r; [|now apply IH]. apply frame_dyn_udt_go. eapply Forall_impl; [|exact Hr]. intros a Ha x; apply Ha.
Qed.

(* a CqlValue that is not a value of the column type even WITHOUT the vector element rule - at
   whatever depth the misfit sits - is refused.  No class premise: what the code lacks is exactly
   that one rule. *)
Theorem dyn_reject_lax t : forall ws v, dyn_lax t v = false -> fails (ser_dyn ws t v).
Proof.
  unfold dyn_lax.
  induction t as [n|e IHe|e IHe|k e IHk IHe|ts IHts|ks' nm' fts IHfs|e d IHe] using ctype_ind'; intros ws v Hf.
  all: destruct (is_leaf v) eqn:El;
    [rewrite ser_dyn_leaf by exact El; rewrite dyn_fits_leaf in Hf by exact El; apply fails_ser_leaf; exact Hf|].
  all: destruct v; try discriminate El; try discriminate Hf.
  all: try (cbn [ser_dyn dyn_fits_gen] in *; try rewrite Hf; apply fails_fail).
  all: try (cbn [ser_dyn dyn_fits_gen] in *; apply forallb_false_ex in Hf as (x & Hx & Hfx);
            apply fails_sequence with x; [intros; apply frame_ser_dyn|exact Hx|apply IHe, Hfx]).
  - cbn [ser_dyn dyn_fits_gen] in *. apply forallb_false_ex in Hf as (kv & Hkv & Hfx).
    apply fails_mapping with kv; [intros; split; apply frame_ser_dyn|exact Hkv|].
    apply andb_false_elim in Hfx as [H|H]; [left; apply IHk, H|right; apply IHe, H].
  - rewrite ser_dyn_tuple. rewrite dyn_fits_tuple in Hf.
    destruct (List.length ts <? List.length l)%nat eqn:E; [apply fails_fail|].
    apply Nat.ltb_ge, Nat.leb_le in E. rewrite E in Hf. cbn [andb] in Hf.
    apply fails_builder; [apply frame_dyn_tuple_go, Forall_forall; intros; apply frame_ser_dyn|].
    apply fails_dyn_tuple_go with (g := dyn_fits_gen false); [|exact Hf].
    eapply Forall_impl; [|exact IHts]. intros a Ha x. split; [apply frame_ser_dyn|apply Ha].
  - rewrite ser_dyn_udt. rewrite dyn_fits_udt in Hf.
    destruct (bytes_eqb ks ks' && bytes_eqb nm nm'); cbn [negb andb] in *; [|apply fails_fail].
    apply fails_builder; [apply frame_dyn_udt_go, Forall_forall; intros; apply frame_ser_dyn|].
    apply fails_dyn_udt_go with (g := dyn_fits_gen false); [|exact Hf].
    eapply Forall_impl; [|exact IHfs]. intros a Ha x. split; [apply frame_ser_dyn|apply Ha].
  - cbn [ser_dyn dyn_fits_gen andb negb] in *. destruct (N.of_nat (List.length l) =? d) eqn:Ed; cbn [andb] in *;
      [|unfold w_vector; rewrite Ed; apply fails_fail].
    apply forallb_false_ex in Hf as (x & Hx & Hfx).
    apply fails_vector with x; [intros; apply frame_ser_dyn|exact Hx|apply IHe, Hfx].
  - cbn [ser_dyn dyn_fits_gen andb negb] in *. destruct (N.of_nat (List.length l) =? d) eqn:Ed; cbn [andb] in *;
      [|unfold w_vector; rewrite Ed; apply fails_fail].
    apply forallb_false_ex in Hf as (x & Hx & Hfx).
    apply fails_vector with x; [intros; apply frame_ser_dyn|exact Hx|apply IHe, Hfx].
  - cbn [ser_dyn dyn_fits_gen andb negb] in *. destruct (N.of_nat (List.length l) =? d) eqn:Ed; cbn [andb] in *;
      [|unfold w_vector; rewrite Ed; apply fails_fail].
    apply forallb_false_ex in Hf as (x & Hx & Hfx).
    apply fails_vector with x; [intros; apply frame_ser_dyn|exact Hx|apply IHe, Hfx].
Qed.

(* the earlier form: not a value of the type and not of the known class *)
Lemma dyn_lax_of t v : dyn_fits t v = false -> dyn_known t v = false -> dyn_lax t v = false.
Proof. unfold dyn_known. intros -> H. cbn [negb] in H. now rewrite andb_true_r in H. Qed.
Theorem dyn_reject t ws v : dyn_fits t v = false -> dyn_known t v = false -> fails (ser_dyn ws t v).
Proof. intros H K. apply dyn_reject_lax, dyn_lax_of; assumption. Qed.

(* ====================================================================================== *)
(* 8. The buffer-level dynamic serialiser is Model/Cql.v's [ser_value]                      *)
(* ====================================================================================== *)
(* ... so the C01 theorems (conformance to the protocol, round trip, totality on values of the
   type) speak about the bytes that add_value appends for a CqlValue. *)

Definition out_of (ws : bool) (c : bytes) : bytes := if ws then framed c else c.

(* [r] is what the functional model returns, [w] the writer of the buffer model *)
Definition agrees (ws : bool) (r : sres) (w : writer) : Prop :=
  match r with
  | Ok c => w [] = (out_of ws c, None)
  | Err e => snd (w []) = Some (KE e)
  end.

(* IpAddr, Uuid, CqlTimeuuid hold 4 / 16 bytes in Rust; the dynamic value type of the model holds
   any byte string, and Cql.v does not bound it (the Rust code `unwrap`s set_value there) *)
Definition small_leaf (x : cval) : bool :=
  match x with CInet b | CUuid b | CTimeuuid b => blen b <=? i32_max | _ => true end.

Fixpoint all_leaves (P : cval -> bool) (v : cval) {struct v} : bool :=
  match v with
  | CList l | CSet l | CVector l => forallb (all_leaves P) l
  | CMap l => forallb (fun kv => all_leaves P (fst kv) && all_leaves P (snd kv)) l
  | CTuple l => forallb (fun ox => match ox with Some x => all_leaves P x | None => true end) l
  | CUdt _ _ fs => forallb (fun f => match snd f with Some x => all_leaves P x | None => true end) fs
  | _ => P v
  end.

Lemma builder_pre_body ws body : frame body ->
  w_then (builder_pre ws) body [] = ((if ws then placeholder else []) ++ fst (body []), snd (body [])).
Proof.
  intros Fb. unfold w_then. destruct ws; cbn [builder_pre w_append w_ok app].
  - rewrite (Fb placeholder). destruct (body []) as [o [e|]]; reflexivity.
  - destruct (body []) as [o [e|]]; reflexivity.
Qed.

Lemma agrees_builder ws r body : frame body -> agrees false r body ->
  agrees ws (rbind r (finish ws)) (w_builder ws body).
Proof.
  intros Fb Hr. unfold agrees in *. rewrite (builder_eq ws body [] Fb), (builder_pre_body ws body Fb).
  destruct r as [c|e]; cbn [rbind out_of] in *.
  - rewrite Hr. cbn [fst snd]. unfold finish. destruct ws; cbn [andb app]; [|reflexivity].
    assert (L : blen (placeholder ++ c) - 4 = blen c).
    { rewrite blen_app. unfold blen at 1. rewrite placeholder_length. lia. }
    rewrite L. destruct (i32_max <? blen c); reflexivity.
  - destruct (body []) as [o [e'|]]; cbn [fst snd] in *; [|discriminate]. rewrite Hr. reflexivity.
Qed.

Lemma agrees_loop {A} (g : A -> sres) (f : A -> writer) l :
  (forall x, In x l -> frame (f x) /\ agrees false (g x) (f x)) ->
  agrees false (ser_concat g l) (w_loop f l).
Proof.
  induction l as [|x r IH]; intros H; [reflexivity|].
  cbn [ser_concat w_loop]. destruct (H x (or_introl eq_refl)) as [Fx Hx].
  assert (IH' : agrees false (ser_concat g r) (w_loop f r)) by (apply IH; intros; apply H; now right).
  assert (FL : frame (w_loop f r)) by (apply frame_loop; intros; apply H; now right).
  unfold agrees, w_then in *. destruct (g x) as [b|e]; cbn [rbind out_of] in *.
  - rewrite Hx. rewrite (FL b). destruct (ser_concat g r) as [bs|e]; cbn [rbind out_of] in *.
    + rewrite IH'. reflexivity.
    + cbn [snd]. exact IH'.
  - destruct (f x []) as [o [e'|]]; cbn [snd] in *; [exact Hx|discriminate].
Qed.

Lemma agrees_sized g f x : agrees true (g x) (f x) -> agrees false (sub_sized g x) (f x).
Proof. unfold agrees, sub_sized. destruct (g x); cbn [rbind out_of]; auto. Qed.

Lemma agrees_sequence ws (g : cval -> sres) (f : cval -> writer) l :
  (forall x, In x l -> frame (f x) /\ agrees true (g x) (f x)) ->
  agrees ws (ser_sequence ws g l) (w_sequence ws f l).
Proof.
  intros H. unfold ser_sequence, w_sequence. destruct (i32_max <? N.of_nat (List.length l)) eqn:E.
  - apply (agrees_builder ws (Err SE_TooManyElements) (w_fail (KE SE_TooManyElements))); [apply frame_fail|reflexivity].
  - replace (rbind (ser_concat (sub_sized g) l) (fun bs => finish ws (be32 (N.of_nat (List.length l)) ++ bs)))
      with (rbind (rbind (ser_concat (sub_sized g) l) (fun bs => Ok (be32 (N.of_nat (List.length l)) ++ bs))) (finish ws))
      by (destruct (ser_concat (sub_sized g) l); reflexivity).
    apply agrees_builder.
    + apply (frame_then (w_append _) (w_loop f l)); [apply frame_append|apply frame_loop; intros; now apply H].
    + assert (G : agrees false (ser_concat (sub_sized g) l) (w_loop f l)).
      { apply agrees_loop. intros x Hx. destruct (H x Hx). split; [assumption|now apply agrees_sized]. }
      assert (FL : frame (w_loop f l)) by (apply frame_loop; intros; now apply H).
      unfold agrees, w_then, w_append in *. cbn [app]. rewrite (FL (be32 _)).
      destruct (ser_concat (sub_sized g) l) as [bs|e]; cbn [rbind out_of] in *.
      * rewrite G. reflexivity.
      * cbn [snd]. exact G.
Qed.

Lemma agrees_then_app r1 r2 w1 w2 : frame w2 -> agrees false r1 w1 -> agrees false r2 w2 ->
  agrees false (rbind r1 (fun a => rbind r2 (fun b => Ok (a ++ b)))) (w_then w1 w2).
Proof.
  intros F2 H1 H2. unfold agrees, w_then in *. destruct r1 as [a|e]; cbn [rbind out_of] in *.
  - rewrite H1, (F2 a). destruct r2 as [b|e]; cbn [rbind out_of] in *.
    + rewrite H2. reflexivity.
    + cbn [snd]. exact H2.
  - destruct (w1 []) as [o [e'|]]; cbn [snd] in *; [exact H1|discriminate].
Qed.

Lemma agrees_mapping ws (gk gv : cval -> sres) (fk fv : cval -> writer) l :
  (forall kv, In kv l -> (frame (fk (fst kv)) /\ agrees true (gk (fst kv)) (fk (fst kv))) /\
                         (frame (fv (snd kv)) /\ agrees true (gv (snd kv)) (fv (snd kv)))) ->
  agrees ws (ser_mapping ws gk gv l) (w_mapping ws fk fv l).
Proof.
  intros H. unfold ser_mapping, w_mapping. destruct (i32_max <? N.of_nat (List.length l)) eqn:E.
  - apply (agrees_builder ws (Err SE_TooManyElements) (w_fail (KE SE_TooManyElements))); [apply frame_fail|reflexivity].
  - set (g := fun kv : cval * cval => rbind (sub_sized gk (fst kv)) (fun a => rbind (sub_sized gv (snd kv)) (fun b => Ok (a ++ b)))).
    set (f := fun kv : cval * cval => w_then (fk (fst kv)) (fv (snd kv))).
    replace (rbind (ser_concat g l) (fun bs => finish ws (be32 (N.of_nat (List.length l)) ++ bs)))
      with (rbind (rbind (ser_concat g l) (fun bs => Ok (be32 (N.of_nat (List.length l)) ++ bs))) (finish ws))
      by (destruct (ser_concat g l); reflexivity).
    assert (FL : frame (w_loop f l)).
    { apply frame_loop. intros kv Hkv. destruct (H kv Hkv) as [[? ?] [? ?]]. unfold f. now apply frame_then. }
    apply agrees_builder.
    + apply (frame_then (w_append _)); [apply frame_append|exact FL].
    + assert (G : agrees false (ser_concat g l) (w_loop f l)).
      { apply agrees_loop. intros kv Hkv. destruct (H kv Hkv) as [[F1 H1] [F2 H2]]. split.
        - unfold f. now apply frame_then.
        - unfold g, f. apply agrees_then_app; [exact F2|now apply agrees_sized|now apply agrees_sized]. }
      unfold agrees, w_then, w_append in *. cbn [app]. rewrite (FL (be32 _)).
      destruct (ser_concat g l) as [bs|e]; cbn [rbind out_of] in *.
      * rewrite G. reflexivity.
      * cbn [snd]. exact G.
Qed.

Lemma agrees_var_elem g f x : agrees false (g x) (f x) -> agrees false (vec_var_elem g x) (w_var_elem (f x)).
Proof.
  unfold agrees, vec_var_elem, w_var_elem. destruct (g x) as [b|e]; cbn [rbind out_of]; intros H.
  - rewrite H. reflexivity.
  - destruct (f x []) as [o [e'|]]; cbn [snd] in *; [exact H|discriminate].
Qed.

Lemma agrees_vector ws fixed dim (g : cval -> sres) (f : cval -> writer) l :
  (forall x, In x l -> frame (f x) /\ agrees false (g x) (f x)) ->
  agrees ws (ser_vector ws fixed dim g l) (w_vector ws fixed dim f l).
Proof.
  intros H. unfold ser_vector, w_vector. destruct (negb _); [reflexivity|].
  apply agrees_builder.
  - apply frame_loop. intros x Hx. destruct fixed; [now apply H|apply frame_var_elem].
  - destruct fixed.
    + apply agrees_loop. exact H.
    + apply (agrees_loop (vec_var_elem g) (fun x => w_var_elem (f x))). intros x Hx. split; [apply frame_var_elem|].
      apply agrees_var_elem. now apply H.
Qed.

Lemma agrees_opt (g : cval -> sres) (f : cval -> writer) ox :
  (forall x, ox = Some x -> agrees true (g x) (f x)) ->
  agrees false (sub_sized_opt g ox) (match ox with None => w_append null_marker | Some x => f x end).
Proof.
  destruct ox as [x|]; intros H; [|reflexivity]. cbn [sub_sized_opt]. apply agrees_sized. now apply H.
Qed.

Lemma agrees_tuple_go ts : forall l,
  Forall (fun et => forall x, all_leaves small_leaf x = true -> agrees true (ser_value true et x) (ser_dyn true et x)) ts ->
  forallb (fun ox => match ox with Some x => all_leaves small_leaf x | None => true end) l = true ->
  agrees false (ser_tuple_go (ser_value true) ts l) (dyn_tuple_go (ser_dyn true) ts l).
Proof.
  induction ts as [|et ts' IH]; intros l HF Hl; [reflexivity|].
  destruct l as [|ox l']; [reflexivity|]. cbn [ser_tuple_go dyn_tuple_go forallb] in *.
  apply andb_prop in Hl as [H1 H2]. inversion HF as [|? ? Het Hts]; subst.
  apply agrees_then_app.
  - apply frame_dyn_tuple_go, Forall_forall. intros; apply frame_ser_dyn.
  - apply agrees_opt. intros x ->. now apply Het.
  - now apply IH.
Qed.

Lemma udt_field_value_in fname st x : udt_field_value fname st = Some x -> In (Some x) (map snd st).
Proof.
  unfold udt_field_value. destruct (lookup_last fname st) as [[y|]|] eqn:E; try discriminate. intros H. inversion H; subst.
  induction st as [|[m z] r IH]; [discriminate|]. cbn [lookup_last] in E. cbn [map snd In].
  destruct (lookup_last fname r) as [w|] eqn:E2.
  - right. apply IH. exact E.
  - destruct (bytes_eqb fname m); [|discriminate]. left. congruence.
Qed.

Lemma remove_name_incl fname (st : list (name * option cval)) y : In y (map snd (remove_name fname st)) -> In y (map snd st).
Proof.
  unfold remove_name. induction st as [|[m z] r IH]; [auto|]. cbn [filter fst].
  destruct (negb (bytes_eqb fname m)); cbn [map snd In]; intuition.
Qed.

Lemma agrees_udt_go fts : forall st,
  Forall (fun ft => forall x, all_leaves small_leaf x = true -> agrees true (ser_value true (snd ft) x) (ser_dyn true (snd ft) x)) fts ->
  (forall x, In (Some x) (map snd st) -> all_leaves small_leaf x = true) ->
  agrees false (ser_udt_go (ser_value true) fts st) (dyn_udt_go (ser_dyn true) fts st).
Proof.
  induction fts as [|[fname ft] r IH]; intros st HF Hst.
  - cbn [ser_udt_go dyn_udt_go]. destruct (is_nil st); reflexivity.
  - cbn [ser_udt_go dyn_udt_go]. inversion HF as [|? ? Hft Hr]; subst. apply agrees_then_app.
    + apply frame_dyn_udt_go, Forall_forall. intros; apply frame_ser_dyn.
    + apply agrees_opt. intros x Hx. apply Hft. apply Hst. now apply (udt_field_value_in fname).
    + apply IH; [exact Hr|]. intros x Hx. apply Hst. now apply (remove_name_incl fname).
Qed.


Lemma leaf_len_ok v c : is_leaf v = true -> small_leaf v = true -> leaf_bytes v = Some c ->
  match v with CAscii _ | CText _ | CBlob _ | CVarint _ | CDecimal _ _ => True | _ => blen c <= i32_max end.
Proof.
  unfold blen.
  destruct v; try discriminate; cbn [leaf_bytes small_leaf]; intros _ Hs Hc; apply some_inj in Hc; subst; auto.
  all: try (apply N.leb_le in Hs; exact Hs).
  all: try (rewrite ?enc_signed_length, ?be_enc_length; unfold i32_max; cbn [List.length]; lia).
  rewrite !app_length. pose proof (vint_encode_length months). pose proof (vint_encode_length days).
    pose proof (vint_encode_length nanos). unfold i32_max. lia.
Qed.

Lemma mismatch_value ws t v : is_leaf v = true -> native_in t (ser_base_types (dyn_base v)) = false ->
  ser_value ws t v = Err SE_MismatchedType.
Proof.
  destruct v; try discriminate; intros _; destruct t as [n| | | | | |]; try reflexivity; destruct n; try reflexivity; discriminate.
Qed.

Lemma agrees_set_value ws c : agrees ws (set_value c) (w_set_value ws c).
Proof.
  unfold agrees, set_value, w_set_value. destruct (i32_max <? blen c); [reflexivity|]. destruct ws; reflexivity.
Qed.
Lemma agrees_unchecked ws c : blen c <= i32_max -> agrees ws (Ok c) (w_set_value ws c).
Proof.
  intros H. unfold agrees, w_set_value. apply N.ltb_ge in H. rewrite H. destruct ws; reflexivity.
Qed.
Lemma agrees_decimal ws c : agrees ws (finish ws c) (w_builder ws (w_append c)).
Proof. apply (agrees_builder ws (Ok c) (w_append c)); [apply frame_append|reflexivity]. Qed.

Lemma agrees_leaf ws t v : is_leaf v = true -> small_leaf v = true ->
  agrees ws (ser_value ws t v) (ser_leaf (dyn_base v) ws t v).
Proof.
  intros Hl Hs. unfold ser_leaf. destruct (native_in t (ser_base_types (dyn_base v))) eqn:En; cbn [negb].
  2:{ rewrite (mismatch_value ws t v Hl En). reflexivity. }
  rewrite (leaf_payload_ok v Hl). cbn [negb].
  destruct (leaf_bytes v) as [c|] eqn:Ec; [|destruct v; discriminate].
  pose proof (leaf_len_ok v c Hl Hs Ec) as Hlen.
  destruct v; try discriminate Hl; destruct t as [n| | | | | |]; try discriminate En; destruct n; try discriminate En;
    cbn [leaf_bytes] in Ec; apply some_inj in Ec; subst c; cbn [ser_value dyn_base uses_builder];
    first [apply agrees_set_value | apply agrees_decimal | apply agrees_unchecked; exact Hlen].
Qed.

(* the bridge *)
Theorem ser_dyn_value t : forall ws v, all_leaves small_leaf v = true ->
  agrees ws (ser_value ws t v) (ser_dyn ws t v).
Proof.
  induction t as [n|e IHe|e IHe|k e IHk IHe|ts IHts|ks' nm' fts IHfs|e d IHe] using ctype_ind'; intros ws v Hv.
  all: destruct (is_leaf v) eqn:El;
    [rewrite ser_dyn_leaf by exact El; apply agrees_leaf; [exact El|destruct v; try discriminate El; exact Hv]|].
  all: destruct v; try discriminate El.
  all: try (cbn [ser_dyn ser_value]; destruct (supports_empty _); unfold agrees, w_set_value; cbn; destruct ws; reflexivity).
  all: try (cbn [ser_dyn ser_value]; reflexivity).
  all: cbn [all_leaves] in Hv.
  all: try (cbn [ser_dyn ser_value]; rewrite forallb_forall in Hv; apply agrees_sequence;
            intros x Hx; split; [apply frame_ser_dyn|apply IHe; auto]).
  all: try (cbn [ser_dyn ser_value]; rewrite forallb_forall in Hv;
            replace (match type_size e with Some _ => true | None => false end) with (is_some (type_size e)) by reflexivity;
            apply agrees_vector; intros x Hx; split; [apply frame_ser_dyn|apply IHe; auto]).
  - cbn [ser_dyn ser_value]. rewrite forallb_forall in Hv. apply agrees_mapping. intros kv Hkv.
    specialize (Hv kv Hkv). apply andb_prop in Hv as [H1 H2].
    split; (split; [apply frame_ser_dyn|]); [apply IHk|apply IHe]; auto.
  - rewrite ser_dyn_tuple, ser_value_tuple. destruct (_ <? _)%nat; [reflexivity|].
    apply agrees_builder; [apply frame_dyn_tuple_go, Forall_forall; intros; apply frame_ser_dyn|].
    apply agrees_tuple_go; [|exact Hv]. eapply Forall_impl; [|exact IHts]. intros a Ha x Hx. now apply Ha.
  - rewrite ser_dyn_udt, ser_value_udt. destruct (negb _); [reflexivity|].
    apply agrees_builder; [apply frame_dyn_udt_go, Forall_forall; intros; apply frame_ser_dyn|].
    apply agrees_udt_go; [eapply Forall_impl; [|exact IHfs]; intros a Ha x Hx; now apply Ha|].
    intros x Hx. rewrite forallb_forall in Hv. apply in_map_iff in Hx as ([m z] & Hz & Hin). cbn [snd] in Hz. subst z.
    exact (Hv _ Hin).
Qed.

(* ====================================================================================== *)
(* 9. Values of every carrier: accepted iff the bytes are a value of the column type        *)
(* ====================================================================================== *)

(* a tree that IS a value of the carrier never meets the model's "ill-typed" answer: every error
   is one of the real error kinds *)
Definition not_ill (e : kerr) : Prop := e <> KE_IllTyped.
Definition real_errs := errs_in not_ill.

Lemma ni_ov : not_ill (KE SE_SizeOverflow). Proof. discriminate. Qed.
Lemma ni_tm : not_ill (KE SE_TooManyElements). Proof. discriminate. Qed.
Lemma real_fail e : real_errs (w_fail (KE e)).
Proof. intros e' H. cbn in H. inversion H. discriminate. Qed.

Lemma real_vector {A} ws fixed dim (f : A -> writer) l :
  (forall x, In x l -> frame (f x) /\ real_errs (f x)) -> real_errs (w_vector ws fixed dim f l).
Proof.
  intros H. destruct (N.of_nat (List.length l) =? dim) eqn:E.
  - apply (in_vector not_ill ni_ov); assumption.
  - unfold w_vector. rewrite E. apply real_fail.
Qed.

Lemma real_ser_leaf b ws t x : base_payload b x = true -> real_errs (ser_leaf b ws t x).
Proof.
  intros Hp. destruct (native_in t (ser_base_types b)) eqn:E; [|unfold ser_leaf; rewrite E; apply real_fail].
  destruct (value_overflow b x) eqn:Eo; [|apply (in_ser_leaf not_ill ni_ov); assumption].
  assert (Gv : real_errs (w_fail KE_ValueOverflow)) by (intros e' H; cbn in H; inversion H; discriminate).
  unfold ser_leaf. rewrite E, Hp, Eo. cbn [negb].
  destruct (leaf_bytes x) eqn:Eb;
    [|exfalso; apply (leaf_bytes_payload x); [|exact Eb]; unfold base_payload in Hp; destruct (payload_kind x); congruence].
  destruct (uses_builder b); [apply (in_builder not_ill ni_ov); [apply frame_fail|exact Gv]|exact Gv].
Qed.

Lemma real_dyn_tuple_go (f : ctype -> cval -> writer) ts :
  Forall (fun et => forall x, frame (f et x) /\ real_errs (f et x)) ts -> forall l, real_errs (dyn_tuple_go f ts l).
Proof.
  induction 1 as [|et ts' Het Hts IH]; intros l; [apply in_ok|].
  destruct l as [|ox l']; [apply in_ok|]. cbn [dyn_tuple_go].
  apply in_then; [apply frame_dyn_tuple_go; eapply Forall_impl; [|exact Hts]; intros a Ha x; apply Ha| |apply IH].
  destruct ox; [apply Het|apply in_append].
Qed.

Lemma real_dyn_udt_go (f : ctype -> cval -> writer) fts :
  Forall (fun ft => forall x, frame (f (snd ft) x) /\ real_errs (f (snd ft) x)) fts -> forall st, real_errs (dyn_udt_go f fts st).
Proof.
  induction 1 as [|[fname ft] r Hft Hr IH]; intros st; cbn [dyn_udt_go].
  - destruct (is_nil st); [apply in_ok|apply real_fail].
  - apply in_then; [apply frame_dyn_udt_go; eapply Forall_impl; [|exact Hr]; intros a Ha x; apply Ha| |apply IH].
    destruct (udt_field_value fname st); [apply Hft|apply in_append].
Qed.

Lemma real_ser_dyn t : forall ws v, real_errs (ser_dyn ws t v).
Proof.
  induction t as [n|e IHe|e IHe|k e IHk IHe|ts IHts|ks' nm' fts IHfs|e d IHe] using ctype_ind'; intros ws v.
  all: destruct (is_leaf v) eqn:El; [rewrite ser_dyn_leaf by exact El; apply real_ser_leaf, leaf_payload_ok, El|].
  all: destruct v; try discriminate El;
    try (rewrite ser_dyn_tuple; destruct (_ <? _)%nat; [apply real_fail|];
         apply (in_builder not_ill ni_ov); [apply frame_dyn_tuple_go, Forall_forall; intros; apply frame_ser_dyn|];
         apply real_dyn_tuple_go; eapply Forall_impl; [|exact IHts]; intros a Ha x; split; [apply frame_ser_dyn|apply Ha]);
    try (rewrite ser_dyn_udt; destruct (negb _); [apply real_fail|];
         apply (in_builder not_ill ni_ov); [apply frame_dyn_udt_go, Forall_forall; intros; apply frame_ser_dyn|];
         apply real_dyn_udt_go; eapply Forall_impl; [|exact IHfs]; intros a Ha x; split; [apply frame_ser_dyn|apply Ha]);
    cbn [ser_dyn]; try apply real_fail;
    try (destruct (supports_empty _); [apply (in_set_value not_ill ni_ov)|apply real_fail]);
    try (apply (in_sequence not_ill ni_ov ni_tm); intros; split; [apply frame_ser_dyn|apply IHe]);
    try (apply real_vector; intros; split; [apply frame_ser_dyn|apply IHe]);
    try (apply (in_mapping not_ill ni_ov ni_tm); intros; split; (split; [apply frame_ser_dyn|]); [apply IHk|apply IHe]).
Qed.

Lemma in_tuple_go Q (f : carrier -> ctype -> kval -> writer) ks :
  (forall k t v, frame (f k t v)) ->
  forall ts vs, List.length ks = List.length vs -> (List.length ks <= List.length ts)%nat ->
  Forall2 (fun kt v => errs_in Q (f (fst kt) (snd kt) v)) (combine ks (firstn (List.length ks) ts)) vs ->
  errs_in Q (tuple_go f ks ts vs).
Proof.
  intros Ff. induction ks as [|k1 ks' IH]; intros ts vs Hl Hle HF.
  - destruct vs; [apply in_ok|discriminate].
  - destruct ts as [|t1 ts']; [simpl in Hle; lia|]. destruct vs as [|v1 vs']; [discriminate|].
    cbn [tuple_go]. cbn [List.length firstn combine] in *. inversion HF; subst.
    apply in_then.
    + apply frame_tuple_go. apply Forall_forall. intros; apply Ff.
    + assumption.
    + apply IH; [lia|lia|assumption].
Qed.

Theorem real_ser_buf k : forall ws t v, has_carrier k v = true -> real_errs (ser_buf k ws t v).
Proof.
  induction k using carrier_ind'; intros ws t v Hv; cbn [has_carrier] in Hv; try discriminate.
  - destruct b; destruct v; try discriminate; cbn [ser_buf]; try (apply real_ser_leaf; exact Hv); try apply in_append.
  - destruct v; try discriminate. cbn [ser_buf]. apply real_ser_dyn.
  - destruct v; try discriminate; cbn [ser_buf]; try apply in_append; try (now apply IHk).
  - destruct v; try discriminate; cbn [ser_buf]; try apply in_append; try (now apply IHk).
  - cbn [ser_buf]. destruct (negb _); [apply real_fail|].
    destruct v; try discriminate; try apply (in_set_value not_ill ni_ov); try (now apply IHk).
  - destruct v; try discriminate; cbn [ser_buf]; now apply IHk.
  - destruct v; try discriminate; cbn [ser_buf]; now apply IHk.
  - destruct v; try discriminate; cbn [ser_buf]; now apply IHk.
  - destruct v; try discriminate; cbn [ser_buf]; now apply IHk.
  - destruct v; try discriminate; cbn [ser_buf]; now apply IHk.
  - destruct v; try discriminate; cbn [ser_buf]; now apply IHk.
  - destruct v; try discriminate. rewrite forallb_forall in Hv. cbn [ser_buf].
    destruct t; try apply real_fail; [apply (in_sequence not_ill ni_ov ni_tm)|apply (in_sequence not_ill ni_ov ni_tm)|apply real_vector];
      intros x Hx; (split; [apply frame_ser_buf|apply IHk; auto]).
  - destruct v; try discriminate. rewrite forallb_forall in Hv. cbn [ser_buf].
    destruct t; try apply real_fail; [apply (in_sequence not_ill ni_ov ni_tm)|apply (in_sequence not_ill ni_ov ni_tm)|apply real_vector];
      intros x Hx; (split; [apply frame_ser_buf|apply IHk; auto]).
  - destruct v; try discriminate. rewrite forallb_forall in Hv. cbn [ser_buf].
    destruct t; try apply real_fail; apply (in_sequence not_ill ni_ov ni_tm); intros x Hx; (split; [apply frame_ser_buf|apply IHk; auto]).
  - destruct v; try discriminate. rewrite forallb_forall in Hv. cbn [ser_buf].
    destruct t; try apply real_fail; apply (in_sequence not_ill ni_ov ni_tm); intros x Hx; (split; [apply frame_ser_buf|apply IHk; auto]).
  - destruct v; try discriminate. rewrite forallb_forall in Hv. cbn [ser_buf].
    destruct t; try apply real_fail. apply (in_mapping not_ill ni_ov ni_tm). intros kv Hkv.
    specialize (Hv kv Hkv). apply andb_prop in Hv as [Hv1 Hv2].
    split; (split; [apply frame_ser_buf|]); [apply IHk1|apply IHk2]; auto.
  - destruct v; try discriminate. rewrite forallb_forall in Hv. cbn [ser_buf].
    destruct t; try apply real_fail. apply (in_mapping not_ill ni_ov ni_tm). intros kv Hkv.
    specialize (Hv kv Hkv). apply andb_prop in Hv as [Hv1 Hv2].
    split; (split; [apply frame_ser_buf|]); [apply IHk1|apply IHk2]; auto.
  - destruct v; try discriminate. rewrite ser_buf_tuple. destruct t; try apply real_fail.
    apply andb_prop in Hv as [Hl Hv]. apply Nat.eqb_eq in Hl.
    destruct (List.length ts <? List.length ks)%nat eqn:El; [apply real_fail|]. apply Nat.ltb_ge in El.
    apply (in_builder not_ill ni_ov); [apply frame_tuple_go, Forall_forall; intros; apply frame_ser_buf|].
    apply in_tuple_go; [intros; apply frame_ser_buf|exact Hl|exact El|].
    revert ts l Hl Hv El. induction H as [|k1 ks' Hk1 _ IH]; intros ts vs Hl Hv El.
    + destruct vs; [constructor|discriminate].
    + destruct vs as [|v1 vs']; [discriminate|]. cbn [all2 List.length] in *. apply andb_prop in Hv as [Hv1 Hv2].
      destruct ts as [|t1 ts']; [simpl in El; lia|]. cbn [firstn combine List.length] in *.
      constructor; [cbn [fst snd]; now apply Hk1|]. apply IH; auto; lia.
Qed.

Fixpoint vfits_go (f : carrier -> ctype -> kval -> bool) (ks : list carrier) (ts : list ctype) (vs : list kval) : bool :=
  match ks, ts, vs with
  | k1 :: ks', t1 :: ts', v1 :: vs' => f k1 t1 v1 && vfits_go f ks' ts' vs'
  | _, _, _ => true
  end.
Lemma val_fits_tuple s ks ts vs :
  val_fits_gen s (KTuple ks) (TTuple ts) (VTup vs) =
  (List.length ks <=? List.length ts)%nat && (List.length ks =? List.length vs)%nat && vfits_go (val_fits_gen s) ks ts vs.
Proof.
  cbn [val_fits_gen]. f_equal. revert ts vs. induction ks as [|k1 ks' IH]; intros ts vs; [reflexivity|].
  destruct ts as [|t1 ts']; [reflexivity|]. destruct vs as [|v1 vs']; [reflexivity|].
  cbn [vfits_go]. now rewrite <- IH.
Qed.
Lemma size_ov : is_size_err (KE SE_SizeOverflow) = true. Proof. reflexivity. Qed.
Lemma size_tm : is_size_err (KE SE_TooManyElements) = true. Proof. reflexivity. Qed.
Notation sizeQ := (fun e : kerr => is_size_err e = true).

(* the bytes-level property, accepted side: a value that is a value of the column type is never
   refused by a type check - for EVERY carrier (CqlValue at any position included) and every
   value, populated or not *)
Theorem val_accept_gen s k : forall ws t v, val_fits_gen s k t v = true -> size_errs (ser_buf k ws t v).
Proof.
  unfold size_errs.
  induction k using carrier_ind'; intros ws t v Hf; cbn [val_fits_gen] in Hf; try discriminate.
  - destruct b; destruct v; try discriminate; cbn [ser_buf]; try apply in_append;
      apply andb_prop in Hf as [H1 H3]; apply andb_prop in H1 as [H1 H2]; apply negb_true_iff in H3;
      apply (in_ser_leaf sizeQ size_ov); assumption.
  - destruct v; try discriminate. cbn [ser_buf]. now apply (dyn_accept_gen s).
  - destruct v; try discriminate; cbn [ser_buf]; try apply in_append; try (now apply IHk).
  - destruct v; try discriminate; cbn [ser_buf]; try apply in_append; try (now apply IHk).
  - apply andb_prop in Hf as [He Hf]. cbn [ser_buf]. rewrite He. cbn [negb].
    destruct v; try discriminate; try apply (in_set_value sizeQ size_ov); try (now apply IHk).
  - destruct v; try discriminate; cbn [ser_buf]; now apply IHk.
  - destruct v; try discriminate; cbn [ser_buf]; now apply IHk.
  - destruct v; try discriminate; cbn [ser_buf]; now apply IHk.
  - destruct v; try discriminate; cbn [ser_buf]; now apply IHk.
  - destruct v; try discriminate; cbn [ser_buf]; now apply IHk.
  - destruct v; try discriminate; cbn [ser_buf]; now apply IHk.
  - destruct v; try discriminate. cbn [ser_buf]. destruct t; try discriminate.
    + rewrite forallb_forall in Hf. apply (in_sequence sizeQ size_ov size_tm). intros x Hx. split; [apply frame_ser_buf|apply IHk; auto].
    + rewrite forallb_forall in Hf. apply (in_sequence sizeQ size_ov size_tm). intros x Hx. split; [apply frame_ser_buf|apply IHk; auto].
    + apply andb_prop in Hf as [Hd Hf]. rewrite forallb_forall in Hf. apply (in_vector sizeQ size_ov); [exact Hd|].
      intros x Hx. split; [apply frame_ser_buf|]. specialize (Hf x Hx). apply andb_prop in Hf as [_ Hf]. now apply IHk.
  - destruct v; try discriminate. cbn [ser_buf]. destruct t; try discriminate.
    + rewrite forallb_forall in Hf. apply (in_sequence sizeQ size_ov size_tm). intros x Hx. split; [apply frame_ser_buf|apply IHk; auto].
    + rewrite forallb_forall in Hf. apply (in_sequence sizeQ size_ov size_tm). intros x Hx. split; [apply frame_ser_buf|apply IHk; auto].
    + apply andb_prop in Hf as [Hd Hf]. rewrite forallb_forall in Hf. apply (in_vector sizeQ size_ov); [exact Hd|].
      intros x Hx. split; [apply frame_ser_buf|]. specialize (Hf x Hx). apply andb_prop in Hf as [_ Hf]. now apply IHk.
  - destruct v; try discriminate. cbn [ser_buf]. destruct t; try discriminate;
      rewrite forallb_forall in Hf; apply (in_sequence sizeQ size_ov size_tm); intros x Hx; (split; [apply frame_ser_buf|apply IHk; auto]).
  - destruct v; try discriminate. cbn [ser_buf]. destruct t; try discriminate;
      rewrite forallb_forall in Hf; apply (in_sequence sizeQ size_ov size_tm); intros x Hx; (split; [apply frame_ser_buf|apply IHk; auto]).
  - destruct v; try discriminate. cbn [ser_buf]. destruct t; try discriminate. rewrite forallb_forall in Hf.
    apply (in_mapping sizeQ size_ov size_tm). intros kv Hkv. specialize (Hf kv Hkv). apply andb_prop in Hf as [H1 H2].
    split; (split; [apply frame_ser_buf|]); [apply IHk1|apply IHk2]; auto.
  - destruct v; try discriminate. cbn [ser_buf]. destruct t; try discriminate. rewrite forallb_forall in Hf.
    apply (in_mapping sizeQ size_ov size_tm). intros kv Hkv. specialize (Hf kv Hkv). apply andb_prop in Hf as [H1 H2].
    split; (split; [apply frame_ser_buf|]); [apply IHk1|apply IHk2]; auto.
  - destruct v; try discriminate. destruct t; try discriminate. change (val_fits_gen s (KTuple ks) (TTuple ts) (VTup l) = true) in Hf.
    rewrite val_fits_tuple in Hf. apply andb_prop in Hf as [Hf Hg]. apply andb_prop in Hf as [Hle Hl].
    apply Nat.leb_le in Hle. apply Nat.eqb_eq in Hl. rewrite ser_buf_tuple.
    assert ((List.length ts <? List.length ks)%nat = false) as -> by (apply Nat.ltb_ge; exact Hle).
    apply (in_builder sizeQ size_ov); [apply frame_tuple_go, Forall_forall; intros; apply frame_ser_buf|].
    apply in_tuple_go; [intros; apply frame_ser_buf|exact Hl|exact Hle|].
    revert ts l Hl Hg Hle. induction H as [|k1 ks' Hk1 _ IH]; intros ts vs Hl Hg Hle.
    + destruct vs; [constructor|discriminate].
    + destruct vs as [|v1 vs']; [discriminate|]. destruct ts as [|t1 ts']; [simpl in Hle; lia|].
      cbn [vfits_go firstn combine List.length] in *. apply andb_prop in Hg as [G1 G2].
      constructor; [cbn [fst snd]; now apply Hk1|]. apply IH; auto; lia.
Qed.


Lemma fails_overflow b ws t x : native_in t (ser_base_types b) = true -> base_payload b x = true ->
  value_overflow b x = true -> fails (ser_leaf b ws t x).
Proof.
  intros Ht Hp Ho. unfold ser_leaf. rewrite Ht, Hp, Ho. cbn [negb].
  destruct (leaf_bytes x) eqn:Eb;
    [|exfalso; apply (leaf_bytes_payload x); [|exact Eb]; unfold base_payload in Hp; destruct (payload_kind x); congruence].
  destruct (uses_builder b); [apply fails_builder; [apply frame_fail|]|]; apply fails_fail.
Qed.

(* the bytes-level property, refused side: a value that is not a value of the column type even
   WITHOUT the vector element rule - the misfit at any depth, in any carrier - is refused.  No
   class premise. *)
Theorem val_reject_lax k : forall ws t v, has_carrier k v = true -> val_lax k t v = false -> fails (ser_buf k ws t v).
Proof.
  unfold val_lax.
  induction k using carrier_ind'; intros ws t v Hv Hf; cbn [has_carrier] in Hv; try discriminate.
  - destruct b; destruct v; try discriminate; cbn [ser_buf val_fits_gen] in *; try discriminate;
      rewrite Hv, andb_true_r in Hf;
      (destruct (native_in t (ser_base_types _)) eqn:En; [|apply fails_ser_leaf; exact En]);
      cbn [andb] in Hf; try discriminate Hf; apply negb_false_iff in Hf; apply fails_overflow; assumption.
  - destruct v; try discriminate. cbn [ser_buf val_fits_gen] in *. now apply dyn_reject_lax.
  - destruct v; try discriminate; cbn [ser_buf val_fits_gen] in *; try discriminate; now apply IHk.
  - destruct v; try discriminate; cbn [ser_buf val_fits_gen] in *; try discriminate; now apply IHk.
  - cbn [ser_buf val_fits_gen] in *. destruct (supports_empty t); cbn [negb andb] in *; [|apply fails_fail].
    destruct v; try discriminate; now apply IHk.
  - destruct v; try discriminate; cbn [ser_buf val_fits_gen] in *; now apply IHk.
  - destruct v; try discriminate; cbn [ser_buf val_fits_gen] in *; now apply IHk.
  - destruct v; try discriminate; cbn [ser_buf val_fits_gen] in *; now apply IHk.
  - destruct v; try discriminate; cbn [ser_buf val_fits_gen] in *; now apply IHk.
  - destruct v; try discriminate; cbn [ser_buf val_fits_gen] in *; now apply IHk.
  - destruct v; try discriminate; cbn [ser_buf val_fits_gen] in *; now apply IHk.
  - destruct v; try discriminate. rewrite forallb_forall in Hv. cbn [ser_buf val_fits_gen andb negb] in *.
    destruct t; try apply fails_fail.
    + apply forallb_false_ex in Hf as (x & Hx & Hfx). apply fails_sequence with x; [intros; apply frame_ser_buf|exact Hx|]. apply IHk; auto.
    + apply forallb_false_ex in Hf as (x & Hx & Hfx). apply fails_sequence with x; [intros; apply frame_ser_buf|exact Hx|]. apply IHk; auto.
    + destruct (N.of_nat (List.length l) =? dim) eqn:Ed; cbn [andb] in Hf; [|unfold w_vector; rewrite Ed; apply fails_fail].
      apply forallb_false_ex in Hf as (x & Hx & Hfx). cbn [negb andb] in Hfx.
      apply fails_vector with x; [intros; apply frame_ser_buf|exact Hx|]. apply IHk; auto.
  - destruct v; try discriminate. rewrite forallb_forall in Hv. cbn [ser_buf val_fits_gen andb negb] in *.
    destruct t; try apply fails_fail.
    + apply forallb_false_ex in Hf as (x & Hx & Hfx). apply fails_sequence with x; [intros; apply frame_ser_buf|exact Hx|]. apply IHk; auto.
    + apply forallb_false_ex in Hf as (x & Hx & Hfx). apply fails_sequence with x; [intros; apply frame_ser_buf|exact Hx|]. apply IHk; auto.
    + destruct (N.of_nat (List.length l) =? dim) eqn:Ed; cbn [andb] in Hf; [|unfold w_vector; rewrite Ed; apply fails_fail].
      apply forallb_false_ex in Hf as (x & Hx & Hfx). cbn [negb andb] in Hfx.
      apply fails_vector with x; [intros; apply frame_ser_buf|exact Hx|]. apply IHk; auto.
  - destruct v; try discriminate. rewrite forallb_forall in Hv. cbn [ser_buf val_fits_gen] in *.
    destruct t; try apply fails_fail;
      apply forallb_false_ex in Hf as (x & Hx & Hfx); (apply fails_sequence with x; [intros; apply frame_ser_buf|exact Hx|]);
      apply IHk; auto.
  - destruct v; try discriminate. rewrite forallb_forall in Hv. cbn [ser_buf val_fits_gen] in *.
    destruct t; try apply fails_fail;
      apply forallb_false_ex in Hf as (x & Hx & Hfx); (apply fails_sequence with x; [intros; apply frame_ser_buf|exact Hx|]);
      apply IHk; auto.
  - destruct v; try discriminate. rewrite forallb_forall in Hv. cbn [ser_buf val_fits_gen] in *.
    destruct t; try apply fails_fail. apply forallb_false_ex in Hf as (kv & Hkv & Hfx).
    specialize (Hv kv Hkv). apply andb_prop in Hv as [Hv1 Hv2].
    apply fails_mapping with kv; [intros; split; apply frame_ser_buf|exact Hkv|].
    apply andb_false_elim in Hfx as [H|H]; [left; apply IHk1|right; apply IHk2]; auto.
  - destruct v; try discriminate. rewrite forallb_forall in Hv. cbn [ser_buf val_fits_gen] in *.
    destruct t; try apply fails_fail. apply forallb_false_ex in Hf as (kv & Hkv & Hfx).
    specialize (Hv kv Hkv). apply andb_prop in Hv as [Hv1 Hv2].
    apply fails_mapping with kv; [intros; split; apply frame_ser_buf|exact Hkv|].
    apply andb_false_elim in Hfx as [H|H]; [left; apply IHk1|right; apply IHk2]; auto.
  - destruct v; try discriminate. rewrite ser_buf_tuple. destruct t; try apply fails_fail.
    rewrite val_fits_tuple in Hf.
    apply andb_prop in Hv as [Hl Hv]. rewrite Hl, andb_true_r in Hf. apply Nat.eqb_eq in Hl.
    destruct (List.length ts <? List.length ks)%nat eqn:El; [apply fails_fail|]. apply Nat.ltb_ge in El.
    assert ((List.length ks <=? List.length ts)%nat = true) as Hle by (apply Nat.leb_le; exact El).
    rewrite Hle in Hf. cbn [andb] in Hf.
    apply fails_builder; [apply frame_tuple_go, Forall_forall; intros; apply frame_ser_buf|].
    apply fails_tuple_go; [intros; apply frame_ser_buf|exact Hl|exact El|].
    clear Hle. revert ts l Hl Hv Hf El. induction H as [|k1 ks' Hk1 _ IH]; intros ts vs Hl Hv Hf El.
    + discriminate.
    + destruct vs as [|v1 vs']; [discriminate|]. destruct ts as [|t1 ts']; [simpl in El; lia|].
      cbn [all2 vfits_go List.length firstn combine] in *.
      apply andb_prop in Hv as [Hv1 Hv2].
      apply andb_false_elim in Hf as [Hf|Hf].
      * apply Exists_cons_hd. cbn [fst snd]. now apply Hk1.
      * apply Exists_cons_tl. apply IH; auto; lia.
Qed.

Lemma val_lax_of k t v : val_fits k t v = false -> val_known k t v = false -> val_lax k t v = false.
Proof. unfold val_known. intros -> H. cbn [negb] in H. now rewrite andb_true_r in H. Qed.
Definition val_accept := val_accept_gen true.
Theorem val_reject k ws t v : has_carrier k v = true -> val_fits k t v = false -> val_known k t v = false ->
  fails (ser_buf k ws t v).
Proof. intros Hv H K. apply val_reject_lax; [exact Hv|]. now apply val_lax_of. Qed.

(* the type-level matrix and the value level: a rejected pair does not fit on any populated value *)
Lemma all2_false_any {A B} (f : A -> B -> bool) l m : (List.length l <= List.length m)%nat -> all2 f l m = false ->
  exists i x y, nth_error l i = Some x /\ nth_error m i = Some y /\ f x y = false.
Proof.
  revert m. induction l as [|x l IH]; intros m Hl H; [discriminate|]. destruct m as [|y m]; [simpl in Hl; lia|].
  cbn [all2] in H. apply andb_false_elim in H as [H|H].
  - exists 0%nat, x, y. auto.
  - destruct (IH m ltac:(simpl in Hl; lia) H) as (i & a & b & ? & ? & ?). exists (S i), a, b. auto.
Qed.

(* ---- the invariant, exported: every way of building a SerializedValues establishes it ------ *)
Theorem from_row_wf cols vals s : from_row cols vals = Ok s -> sv_wf s.
Proof.
  unfold from_row. destruct (negb _) eqn:El; [discriminate|]. apply negb_false_iff, Nat.eqb_eq in El.
  destruct (row_write cols vals [] 0) as [[b cnt] [e|]] eqn:E; [discriminate|].
  destruct (u16_max <? cnt) eqn:Ec; [discriminate|]. intros H. inversion H; subst. clear H.
  destruct (row_write_spec _ _ _ _ _ _ El E) as (cs & -> & Hc & Hn & ->). cbn [app] in *. apply N.ltb_ge in Ec.
  exists cs. cbn [sv_bytes sv_count]. repeat split; auto; lia.
Qed.

Theorem wf_ops_count s ops : sv_wf s ->
  exists cells, sv_iter (fold_left apply_op ops s) = Some cells /\
                N.of_nat (List.length cells) = sv_count (fold_left apply_op ops s) /\
                sv_count (fold_left apply_op ops s) <= u16_max.
Proof. intros H. apply sv_wf_iter, run_ops_wf_from, H. Qed.

Theorem closure_count_ok parts n : closure_count parts = Ok n -> n = fold_left N.add parts 0 /\ n <= u16_max.
Proof.
  unfold closure_count. destruct (u16_max <? fold_left N.add parts 0) eqn:E; [discriminate|].
  intros H. inversion H; subst. split; [reflexivity|]. now apply N.ltb_ge in E.
Qed.

(* ====================================================================================== *)
(* 10. Which error: the causes of the two errors that can come before a type-check error     *)
(* ====================================================================================== *)

(* VectorLen only with a vector position of the wrong length (b1), TooManyElements only with a
   collection of more than i32::MAX elements (b2) *)
Definition cause (b1 b2 : bool) (e : kerr) : Prop :=
  (e = KE SE_VectorLen -> b1 = true) /\ (e = KE SE_TooManyElements -> b2 = true).

Lemma cause_ov b1 b2 : cause b1 b2 (KE SE_SizeOverflow). Proof. split; discriminate. Qed.
Lemma cause_other b1 b2 e : e <> KE SE_VectorLen -> e <> KE SE_TooManyElements -> cause b1 b2 e.
Proof. intros H1 H2. split; intros ->; congruence. Qed.
Lemma cause_weaken b1 b2 c1 c2 e : (b1 = true -> c1 = true) -> (b2 = true -> c2 = true) -> cause b1 b2 e -> cause c1 c2 e.
Proof. intros H1 H2 [A B]. split; auto. Qed.

Lemma errs_weaken (Q1 Q2 : kerr -> Prop) w : (forall e, Q1 e -> Q2 e) -> errs_in Q1 w -> errs_in Q2 w.
Proof. intros H H1 e He. apply H, H1, He. Qed.

Lemma c_fail b1 b2 e : e <> KE SE_VectorLen -> e <> KE SE_TooManyElements -> errs_in (cause b1 b2) (w_fail e).
Proof. intros H1 H2 e' H. cbn in H. inversion H; subst. now apply cause_other. Qed.

(* builders, loops and set_value with a TooManyElements-free Q: the generic lemmas need Q TooMany
   only in in_sequence / in_mapping, where the cause is at hand *)
Lemma c_builder b1 b2 ws body : frame body -> errs_in (cause b1 b2) body -> errs_in (cause b1 b2) (w_builder ws body).
Proof. apply in_builder, cause_ov. Qed.
Lemma c_set_value b1 b2 ws c : errs_in (cause b1 b2) (w_set_value ws c).
Proof. apply in_set_value, cause_ov. Qed.

Lemma c_ser_leaf b1 b2 b ws t x : errs_in (cause b1 b2) (ser_leaf b ws t x).
Proof.
  unfold ser_leaf. destruct (negb _); [apply c_fail; discriminate|]. destruct (negb _); [apply c_fail; discriminate|].
  destruct (leaf_bytes x); [|apply c_fail; discriminate].
  destruct (uses_builder b); [apply c_builder|]; destruct (value_overflow b x);
    try apply frame_fail; try apply frame_append; try (apply c_fail; discriminate); try apply in_append; apply c_set_value.
Qed.

Lemma existsb_true {A} (f : A -> bool) l x : In x l -> f x = true -> existsb f l = true.
Proof. intros Hx Hf. apply existsb_exists. eauto. Qed.

Lemma c_sequence {A} b1 b2 ws (f : A -> writer) l :
  (i32_max <? N.of_nat (List.length l) = true -> b2 = true) ->
  (forall x, In x l -> frame (f x) /\ errs_in (cause b1 b2) (f x)) -> errs_in (cause b1 b2) (w_sequence ws f l).
Proof.
  intros Hb H. unfold w_sequence. destruct (i32_max <? N.of_nat (List.length l)) eqn:E.
  - apply c_builder; [apply (frame_fail (KE SE_TooManyElements))|].
    intros e He. cbn in He. inversion He; subst. split; [discriminate|intros _; now apply Hb].
  - apply c_builder.
    + apply (frame_then (w_append _) (w_loop f l)); [apply frame_append|apply frame_loop; intros; now apply H].
    + apply (in_then _ (w_append _) (w_loop f l)); [apply frame_loop; intros; now apply H|apply in_append|apply in_loop, H].
Qed.

Lemma c_mapping {A B} b1 b2 ws (fk : A -> writer) (fv : B -> writer) l :
  (i32_max <? N.of_nat (List.length l) = true -> b2 = true) ->
  (forall kv, In kv l -> (frame (fk (fst kv)) /\ errs_in (cause b1 b2) (fk (fst kv))) /\
                         (frame (fv (snd kv)) /\ errs_in (cause b1 b2) (fv (snd kv)))) ->
  errs_in (cause b1 b2) (w_mapping ws fk fv l).
Proof.
  intros Hb H. unfold w_mapping.
  assert (FL : frame (w_loop (fun kv => w_then (fk (fst kv)) (fv (snd kv))) l)).
  { apply frame_loop. intros kv Hkv. destruct (H kv Hkv) as [[? ?] [? ?]]. now apply frame_then. }
  destruct (i32_max <? N.of_nat (List.length l)) eqn:E.
  - apply c_builder; [apply (frame_fail (KE SE_TooManyElements))|].
    intros e He. cbn in He. inversion He; subst. split; [discriminate|intros _; now apply Hb].
  - apply c_builder.
    + apply (frame_then (w_append _)); [apply frame_append|exact FL].
    + apply (in_then _ (w_append _)); [exact FL|apply in_append|].
      apply in_loop. intros kv Hkv. destruct (H kv Hkv) as [[? ?] [? ?]]. split; [now apply frame_then|now apply in_then].
Qed.

Lemma c_vector {A} b1 b2 ws fixed dim (f : A -> writer) l :
  (negb (N.of_nat (List.length l) =? dim) = true -> b1 = true) ->
  (forall x, In x l -> frame (f x) /\ errs_in (cause b1 b2) (f x)) -> errs_in (cause b1 b2) (w_vector ws fixed dim f l).
Proof.
  intros Hb H. destruct (N.of_nat (List.length l) =? dim) eqn:E.
  - apply (in_vector _ (cause_ov b1 b2)); assumption.
  - unfold w_vector. rewrite E. cbn [negb]. intros e He. cbn in He. inversion He; subst.
    split; [intros _; now apply Hb|discriminate].
Qed.

(* ---- the dynamic value ---- *)

Fixpoint lenmis_tuple_go (f : ctype -> cval -> bool) (ts : list ctype) (l : list (option cval)) : bool :=
  match ts, l with
  | et :: ts', ox :: l' => match ox with None => false | Some x => f et x end || lenmis_tuple_go f ts' l'
  | _, _ => false
  end.
Lemma dyn_len_mis_tuple ts l : dyn_len_mis (TTuple ts) (CTuple l) = lenmis_tuple_go dyn_len_mis ts l.
Proof.
  cbn [dyn_len_mis]. revert l. induction ts as [|et ts' IH]; intros l; [reflexivity|].
  destruct l as [|ox l']; [reflexivity|]. cbn [lenmis_tuple_go]. now rewrite <- IH.
Qed.

Lemma c_dyn_tuple_go (f : ctype -> cval -> writer) (m : ctype -> cval -> bool) ts :
  Forall (fun et => forall x, frame (f et x) /\ errs_in (cause (m et x) (cval_big x)) (f et x)) ts ->
  forall l, errs_in (cause (lenmis_tuple_go m ts l) (cval_big (CTuple l))) (dyn_tuple_go f ts l).
Proof.
  induction 1 as [|et ts' Het Hts IH]; intros l; [apply in_ok|].
  destruct l as [|ox l']; [apply in_ok|]. cbn [dyn_tuple_go lenmis_tuple_go cval_big existsb].
  apply in_then.
  - apply frame_dyn_tuple_go. eapply Forall_impl; [|exact Hts]. intros a Ha x. apply Ha.
  - destruct ox as [x|]; [|apply in_append].
    eapply errs_weaken; [|apply Het]. intros e. apply cause_weaken; intros ->; reflexivity.
  - eapply errs_weaken; [|apply IH]. intros e. apply cause_weaken; intros H0; cbn [cval_big] in *; rewrite H0; apply orb_true_r.
Qed.

Lemma udt_field_value_named fname (st : list (name * option cval)) x : udt_field_value fname st = Some x ->
  exists m, In (m, Some x) st /\ bytes_eqb fname m = true.
Proof.
  unfold udt_field_value. destruct (lookup_last fname st) as [[y|]|] eqn:E; try discriminate. intros H. inversion H; subst.
  induction st as [|[m z] r IH]; [discriminate|]. cbn [lookup_last] in E.
  destruct (lookup_last fname r) as [w|] eqn:E2.
  - destruct (IH E) as (m' & Hin & Hm). exists m'. split; [now right|exact Hm].
  - destruct (bytes_eqb fname m) eqn:Eb; [|discriminate]. exists m. split; [left; congruence|exact Eb].
Qed.

Lemma remove_name_sub fname (st : list (name * option cval)) y : In y (remove_name fname st) -> In y st.
Proof. unfold remove_name. intros H. apply filter_In in H. tauto. Qed.

Lemma c_dyn_udt_go (f : ctype -> cval -> writer) (m : ctype -> cval -> bool) (fields : list (name * option cval)) b1 b2 fts :
  Forall (fun ft => forall x, frame (f (snd ft) x) /\ errs_in (cause (m (snd ft) x) (cval_big x)) (f (snd ft) x)) fts ->
  (forall ft mm x, In ft fts -> In (mm, Some x) fields -> bytes_eqb (fst ft) mm = true -> m (snd ft) x = true -> b1 = true) ->
  (forall mm x, In (mm, Some x) fields -> cval_big x = true -> b2 = true) ->
  forall st : list (name * option cval), (forall y, In y st -> In y fields) -> errs_in (cause b1 b2) (dyn_udt_go f fts st).
Proof.
  intros HF. induction HF as [|[fname ft] r Hft Hr IH]; intros H1 H2 st Hst; cbn [dyn_udt_go].
  - destruct (is_nil st); [apply in_ok|apply c_fail; discriminate].
  - apply in_then.
    + apply frame_dyn_udt_go. eapply Forall_impl; [|exact Hr]. intros a Ha x. apply Ha.
    + destruct (udt_field_value fname st) as [x|] eqn:Ex; [|apply in_append].
      destruct (udt_field_value_named _ _ _ Ex) as (mm & Hin & Hm).
      eapply errs_weaken; [|apply (Hft x)]. intros e. apply cause_weaken.
      * intros Hmx. apply (H1 (fname, ft) mm x); [now left|apply Hst, Hin|exact Hm|exact Hmx].
      * intros Hb. apply (H2 mm x); [apply Hst, Hin|exact Hb].
    + apply IH; [intros ft0 mm x Hin; apply H1; now right|exact H2|].
      intros y Hy. apply Hst. now apply (remove_name_sub fname).
Qed.

Lemma ser_dyn_cause t : forall ws v, errs_in (cause (dyn_len_mis t v) (cval_big v)) (ser_dyn ws t v).
Proof.
  induction t as [n|e IHe|e IHe|k e IHk IHe|ts IHts|ks' nm' fts IHfs|e d IHe] using ctype_ind'; intros ws v.
  all: destruct (is_leaf v) eqn:El; [rewrite ser_dyn_leaf by exact El; apply c_ser_leaf|].
  all: destruct v; try discriminate El;
    try (rewrite ser_dyn_tuple, dyn_len_mis_tuple; destruct (_ <? _)%nat; [apply c_fail; discriminate|];
         apply c_builder; [apply frame_dyn_tuple_go, Forall_forall; intros; apply frame_ser_dyn|];
         apply c_dyn_tuple_go; eapply Forall_impl; [|exact IHts]; intros a Ha x; split; [apply frame_ser_dyn|apply Ha]);
    try (rewrite ser_dyn_udt; destruct (negb _); [apply c_fail; discriminate|];
         apply c_builder; [apply frame_dyn_udt_go, Forall_forall; intros; apply frame_ser_dyn|];
         apply c_dyn_udt_go with (m := dyn_len_mis) (fields := fields);
         [eapply Forall_impl; [|exact IHfs]; intros a Ha x; split; [apply frame_ser_dyn|apply Ha]
         |intros ft mm x Hft Hin Hm Hx; cbn [dyn_len_mis]; apply (existsb_true _ _ ft Hft); apply (existsb_true _ _ (mm, Some x) Hin);
          cbn [fst snd]; now rewrite Hm, Hx
         |intros mm x Hin Hb; cbn [cval_big]; apply (existsb_true _ _ (mm, Some x) Hin); exact Hb
         |auto]);
    cbn [ser_dyn dyn_len_mis cval_big]; try (apply c_fail; discriminate);
    try (destruct (supports_empty _); [apply c_set_value|apply c_fail; discriminate]).
  all: try (apply c_sequence; [intros ->; reflexivity|]; intros x Hx; split; [apply frame_ser_dyn|];
            eapply errs_weaken; [|apply IHe]; intros e0; apply cause_weaken; intros H0;
            [apply (existsb_true _ _ x Hx H0)|rewrite (existsb_true _ _ x Hx H0); apply orb_true_r]).
  - apply c_mapping; [intros ->; reflexivity|]. intros kv Hkv.
    split; (split; [apply frame_ser_dyn|]); (eapply errs_weaken; [|first [apply IHk|apply IHe]]); intros e0; apply cause_weaken; intros H0.
    + apply (existsb_true _ _ kv Hkv). now rewrite H0.
    + rewrite (existsb_true (fun kv => cval_big (fst kv) || cval_big (snd kv)) _ kv Hkv); [apply orb_true_r|now rewrite H0].
    + apply (existsb_true _ _ kv Hkv). rewrite H0. apply orb_true_r.
    + rewrite (existsb_true (fun kv => cval_big (fst kv) || cval_big (snd kv)) _ kv Hkv); [apply orb_true_r|rewrite H0; apply orb_true_r].
  - (* vector *) apply c_vector; [intros ->; reflexivity|]. intros x Hx. split; [apply frame_ser_dyn|].
    eapply errs_weaken; [|apply IHe]. intros e0. apply cause_weaken; intros H0;
      [rewrite (existsb_true _ _ x Hx H0); apply orb_true_r|rewrite (existsb_true _ _ x Hx H0); apply orb_true_r].
  - apply c_vector; [intros ->; reflexivity|]. intros x Hx. split; [apply frame_ser_dyn|].
    eapply errs_weaken; [|apply IHe]. intros e0. apply cause_weaken; intros H0;
      [rewrite (existsb_true _ _ x Hx H0); apply orb_true_r|rewrite (existsb_true _ _ x Hx H0); apply orb_true_r].
  - apply c_vector; [intros ->; reflexivity|]. intros x Hx. split; [apply frame_ser_dyn|].
    eapply errs_weaken; [|apply IHe]. intros e0. apply cause_weaken; intros H0;
      [rewrite (existsb_true _ _ x Hx H0); apply orb_true_r|rewrite (existsb_true _ _ x Hx H0); apply orb_true_r].
Qed.

(* ---- every carrier ---- *)

Fixpoint vlm_go (f : carrier -> ctype -> kval -> bool) (ks : list carrier) (ts : list ctype) (vs : list kval) : bool :=
  match ks, ts, vs with
  | k1 :: ks', t1 :: ts', v1 :: vs' => f k1 t1 v1 || vlm_go f ks' ts' vs'
  | _, _, _ => false
  end.
Lemma val_len_mis_tuple ks ts vs : val_len_mis (KTuple ks) (TTuple ts) (VTup vs) = vlm_go val_len_mis ks ts vs.
Proof.
  cbn [val_len_mis]. revert ts vs. induction ks as [|k1 ks' IH]; intros ts vs; [reflexivity|].
  destruct ts as [|t1 ts']; [reflexivity|]. destruct vs as [|v1 vs']; [reflexivity|].
  cbn [vlm_go]. now rewrite <- IH.
Qed.

Lemma c_tuple_go (f : carrier -> ctype -> kval -> writer) (m : carrier -> ctype -> kval -> bool) ks :
  Forall (fun k => forall t v, frame (f k t v) /\ errs_in (cause (m k t v) (kv_big v)) (f k t v)) ks ->
  forall ts vs, errs_in (cause (vlm_go m ks ts vs) (existsb kv_big vs)) (tuple_go f ks ts vs).
Proof.
  induction 1 as [|k1 ks' Hk Hks IH]; intros ts vs.
  - destruct vs; [apply in_ok|apply c_fail; discriminate].
  - destruct ts as [|t1 ts']; [apply c_fail; discriminate|]. destruct vs as [|v1 vs']; [apply c_fail; discriminate|].
    cbn [tuple_go vlm_go existsb]. apply in_then.
    + apply frame_tuple_go. eapply Forall_impl; [|exact Hks]. intros a Ha t v. apply Ha.
    + eapply errs_weaken; [|apply Hk]. intros e. apply cause_weaken; intros ->; reflexivity.
    + eapply errs_weaken; [|apply IH]. intros e. apply cause_weaken; intros ->; apply orb_true_r.
Qed.

Theorem ser_buf_cause k : forall ws t v, errs_in (cause (val_len_mis k t v) (kv_big v)) (ser_buf k ws t v).
Proof.
  induction k using carrier_ind'; intros ws t v.
  all: try (destruct v; try (apply c_fail; discriminate); rewrite ser_buf_tuple; destruct t; try (apply c_fail; discriminate);
            destruct (_ <? _)%nat; [apply c_fail; discriminate|]; rewrite val_len_mis_tuple; cbn [kv_big];
            apply c_builder; [apply frame_tuple_go, Forall_forall; intros; apply frame_ser_buf|];
            apply c_tuple_go; eapply Forall_impl; [|eassumption]; intros a Ha t' v'; split; [apply frame_ser_buf|apply Ha]).
  all: cbn [ser_buf]; try (apply c_fail; discriminate).
  - destruct b; destruct v; try (apply c_fail; discriminate); try apply c_ser_leaf; apply in_append.
  - destruct v; try (apply c_fail; discriminate). cbn [val_len_mis kv_big]. apply ser_dyn_cause.
  - destruct v; try (apply c_fail; discriminate); [apply in_append|cbn [val_len_mis kv_big]; apply IHk].
  - destruct v; try (apply c_fail; discriminate); [apply in_append|cbn [val_len_mis kv_big]; apply IHk].
  - destruct (negb _); [apply c_fail; discriminate|].
    destruct v; try (apply c_fail; discriminate); [apply c_set_value|cbn [val_len_mis kv_big]; apply IHk].
  - destruct v; try (apply c_fail; discriminate); cbn [val_len_mis kv_big]; apply IHk.
  - destruct v; try (apply c_fail; discriminate); cbn [val_len_mis kv_big]; apply IHk.
  - destruct v; try (apply c_fail; discriminate); cbn [val_len_mis kv_big]; apply IHk.
  - destruct v; try (apply c_fail; discriminate); cbn [val_len_mis kv_big]; apply IHk.
  - destruct v; try (apply c_fail; discriminate); cbn [val_len_mis kv_big]; apply IHk.
  - destruct v; try (apply c_fail; discriminate); cbn [val_len_mis kv_big]; apply IHk.
  - destruct v; try (apply c_fail; discriminate). cbn [val_len_mis kv_big]. destruct t; try (apply c_fail; discriminate).
    + apply c_sequence; [intros ->; reflexivity|]. intros x Hx. split; [apply frame_ser_buf|].
      eapply errs_weaken; [|apply IHk]. intros e0. apply cause_weaken; intros H0;
        [apply (existsb_true _ _ x Hx H0)|rewrite (existsb_true _ _ x Hx H0); apply orb_true_r].
    + apply c_sequence; [intros ->; reflexivity|]. intros x Hx. split; [apply frame_ser_buf|].
      eapply errs_weaken; [|apply IHk]. intros e0. apply cause_weaken; intros H0;
        [apply (existsb_true _ _ x Hx H0)|rewrite (existsb_true _ _ x Hx H0); apply orb_true_r].
    + apply c_vector; [intros ->; reflexivity|]. intros x Hx. split; [apply frame_ser_buf|].
      eapply errs_weaken; [|apply IHk]. intros e0. apply cause_weaken; intros H0;
        rewrite (existsb_true _ _ x Hx H0); apply orb_true_r.
  - destruct v; try (apply c_fail; discriminate). cbn [val_len_mis kv_big]. destruct t; try (apply c_fail; discriminate).
    + apply c_sequence; [intros ->; reflexivity|]. intros x Hx. split; [apply frame_ser_buf|].
      eapply errs_weaken; [|apply IHk]. intros e0. apply cause_weaken; intros H0;
        [apply (existsb_true _ _ x Hx H0)|rewrite (existsb_true _ _ x Hx H0); apply orb_true_r].
    + apply c_sequence; [intros ->; reflexivity|]. intros x Hx. split; [apply frame_ser_buf|].
      eapply errs_weaken; [|apply IHk]. intros e0. apply cause_weaken; intros H0;
        [apply (existsb_true _ _ x Hx H0)|rewrite (existsb_true _ _ x Hx H0); apply orb_true_r].
    + apply c_vector; [intros ->; reflexivity|]. intros x Hx. split; [apply frame_ser_buf|].
      eapply errs_weaken; [|apply IHk]. intros e0. apply cause_weaken; intros H0;
        rewrite (existsb_true _ _ x Hx H0); apply orb_true_r.
  - destruct v; try (apply c_fail; discriminate). cbn [val_len_mis kv_big]. destruct t; try (apply c_fail; discriminate);
      (apply c_sequence; [intros ->; reflexivity|]; intros x Hx; split; [apply frame_ser_buf|];
       eapply errs_weaken; [|apply IHk]; intros e0; apply cause_weaken; intros H0;
       [apply (existsb_true _ _ x Hx H0)|rewrite (existsb_true _ _ x Hx H0); apply orb_true_r]).
  - destruct v; try (apply c_fail; discriminate). cbn [val_len_mis kv_big]. destruct t; try (apply c_fail; discriminate);
      (apply c_sequence; [intros ->; reflexivity|]; intros x Hx; split; [apply frame_ser_buf|];
       eapply errs_weaken; [|apply IHk]; intros e0; apply cause_weaken; intros H0;
       [apply (existsb_true _ _ x Hx H0)|rewrite (existsb_true _ _ x Hx H0); apply orb_true_r]).
  - destruct v; try (apply c_fail; discriminate). cbn [val_len_mis kv_big]. destruct t; try (apply c_fail; discriminate).
    apply c_mapping; [intros ->; reflexivity|]. intros kv Hkv.
    split; (split; [apply frame_ser_buf|]); (eapply errs_weaken; [|first [apply IHk1|apply IHk2]]); intros e0; apply cause_weaken; intros H0.
    + apply (existsb_true _ _ kv Hkv). now rewrite H0.
    + rewrite (existsb_true (fun kv => kv_big (fst kv) || kv_big (snd kv)) _ kv Hkv); [apply orb_true_r|now rewrite H0].
    + apply (existsb_true _ _ kv Hkv). rewrite H0. apply orb_true_r.
    + rewrite (existsb_true (fun kv => kv_big (fst kv) || kv_big (snd kv)) _ kv Hkv); [apply orb_true_r|rewrite H0; apply orb_true_r].
  - destruct v; try (apply c_fail; discriminate). cbn [val_len_mis kv_big]. destruct t; try (apply c_fail; discriminate).
    apply c_mapping; [intros ->; reflexivity|]. intros kv Hkv.
    split; (split; [apply frame_ser_buf|]); (eapply errs_weaken; [|first [apply IHk1|apply IHk2]]); intros e0; apply cause_weaken; intros H0.
    + apply (existsb_true _ _ kv Hkv). now rewrite H0.
    + rewrite (existsb_true (fun kv => kv_big (fst kv) || kv_big (snd kv)) _ kv Hkv); [apply orb_true_r|now rewrite H0].
    + apply (existsb_true _ _ kv Hkv). rewrite H0. apply orb_true_r.
    + rewrite (existsb_true (fun kv => kv_big (fst kv) || kv_big (snd kv)) _ kv Hkv); [apply orb_true_r|rewrite H0; apply orb_true_r].
Qed.

(* ---- the refusal named: which error, and when one of the pre-empting checks can be the one ---- *)

(* the error by which a value is refused: a type-check error (or the failed conversion of a leaf);
   VectorLen - only if some vector position has the wrong length; TooManyElements - only if some
   collection has more than i32::MAX elements; SizeOverflow - a cell of more than i32::MAX bytes
   (set_value / finish; reachable from 2 GiB of data on).  The last three are checked before /
   between the element checks and can therefore pre-empt a type-check error further right. *)
Definition refusal_named (lenmis big : bool) (e : kerr) : Prop :=
  is_typeck e = true \/ e = KE_ValueOverflow \/ (e = KE SE_VectorLen /\ lenmis = true) \/
  (e = KE SE_TooManyElements /\ big = true) \/ e = KE SE_SizeOverflow.

Lemma name_refusal lenmis big e : e <> KE_IllTyped -> cause lenmis big e -> refusal_named lenmis big e.
Proof.
  intros Hn [C1 C2]. unfold refusal_named. destruct e as [se| |]; [|auto|congruence].
  destruct se; cbn; auto;
    try (right; right; right; right; reflexivity);
    try (right; right; right; left; split; [reflexivity|now apply C2]);
    try (right; right; left; split; [reflexivity|now apply C1]).
Qed.

Theorem val_reject_named k ws t v : has_carrier k v = true -> val_lax k t v = false ->
  exists e, snd (ser_buf k ws t v []) = Some e /\ refusal_named (val_len_mis k t v) (kv_big v) e.
Proof.
  intros Hv Hf. destruct (val_reject_lax k ws t v Hv Hf) as [e He]. exists e. split; [exact He|].
  apply name_refusal; [exact (real_ser_buf k ws t v Hv e He)|exact (ser_buf_cause k ws t v e He)].
Qed.

(* in particular: right lengths, no oversized collection, no 2 GiB cell - then a type-check error
   (or the failed conversion) it is *)
Corollary val_reject_typeck k ws t v e : has_carrier k v = true -> val_lax k t v = false ->
  val_len_mis k t v = false -> kv_big v = false -> snd (ser_buf k ws t v []) = Some e -> e <> KE SE_SizeOverflow ->
  is_typeck e = true \/ e = KE_ValueOverflow.
Proof.
  intros Hv Hf Hl Hb He Hs.
  pose proof (name_refusal _ _ e (real_ser_buf k ws t v Hv e He) (ser_buf_cause k ws t v e He)) as H.
  destruct H as [H|[H|[[_ H]|[[_ H]|H]]]]; auto; congruence.
Qed.

Theorem reject_complete_named k ws t v : has_carrier k v = true -> populated v = true -> ser_accepts k t = false ->
  exists e, snd (ser_buf k ws t v []) = Some e /\ refusal_named (val_len_mis k t v) (kv_big v) e.
Proof.
  intros Hv Hp Ha. destruct (reject_complete k ws t v Hv Hp Ha) as [e He]. exists e. split; [exact He|].
  apply name_refusal; [exact (real_ser_buf k ws t v Hv e He)|exact (ser_buf_cause k ws t v e He)].
Qed.

Theorem dyn_reject_named t ws v : dyn_lax t v = false ->
  exists e, snd (ser_dyn ws t v []) = Some e /\ refusal_named (dyn_len_mis t v) (cval_big v) e.
Proof.
  intros Hf. destruct (dyn_reject_lax t ws v Hf) as [e He]. exists e. split; [exact He|].
  apply name_refusal; [exact (real_ser_dyn t ws v e He)|exact (ser_dyn_cause t ws v e He)].
Qed.

(* ====================================================================================== *)
(* 11. Rows bound by name (C09's row model instantiated with the real value serialiser)      *)
(* ====================================================================================== *)

Lemma bytes_eqb_refl b : bytes_eqb b b = true.
Proof. unfold bytes_eqb. destruct (list_eq_dec N.eq_dec b b); congruence. Qed.
Lemma bytes_eqb_true a b : bytes_eqb a b = true -> a = b.
Proof. unfold bytes_eqb. destruct (list_eq_dec N.eq_dec a b); congruence. Qed.

Lemma be32_not_marker n c z : n <= i32_max -> (z = -1 \/ z = -2)%Z -> be32 n ++ c <> enc_signed 4 z.
Proof.
  intros Hn Hz H. assert (L : List.length (be32 n ++ c) = 4%nat) by (rewrite H; apply enc_signed_length).
  rewrite app_length, be32_length in L. destruct c; [|simpl in L; lia]. rewrite app_nil_r in H.
  apply (f_equal (fun b => read_int (b ++ []))) in H.
  rewrite read_int_be32 in H by exact Hn. rewrite read_int_signed in H by (destruct Hz; subst; reflexivity).
  inversion H. destruct Hz; lia.
Qed.

(* a well-formed [value] read as a cell and written back is itself *)
Lemma cell_wire_of_out o : cell_out o -> cell_wire (cell_of_out o) = o /\ cell_out (cell_wire (cell_of_out o)).
Proof.
  intros Ho. assert (E : cell_wire (cell_of_out o) = o).
  { destruct Ho as [-> | [-> | (c & -> & Hc)]].
    - unfold cell_of_out. now rewrite bytes_eqb_refl.
    - unfold cell_of_out. replace (bytes_eqb unset_marker null_marker) with false by reflexivity. now rewrite bytes_eqb_refl.
    - unfold cell_of_out.
      destruct (bytes_eqb (be32 (blen c) ++ c) null_marker) eqn:E1;
        [apply bytes_eqb_true in E1; exfalso; apply (be32_not_marker (blen c) c (-1)%Z Hc (or_introl eq_refl) E1)|].
      destruct (bytes_eqb (be32 (blen c) ++ c) unset_marker) eqn:E2;
        [apply bytes_eqb_true in E2; exfalso; apply (be32_not_marker (blen c) c (-2)%Z Hc (or_intror eq_refl) E2)|].
      cbn [cell_wire]. unfold framed.
      replace (skipn 4 (be32 (blen c) ++ c)) with c; [reflexivity|].
      replace 4%nat with (List.length (be32 (blen c)) + 0)%nat by (rewrite be32_length; reflexivity).
      now rewrite skipn_app_plus. }
  split; [exact E|now rewrite E].
Qed.

Lemma named_vser_some kv t c : named_vser kv t = Some c ->
  exists o, ser_out (fst kv) true t (snd kv) = (o, None) /\ cell_out o /\ c = cell_of_out o /\ cell_wire c = o.
Proof.
  unfold named_vser, ser_out. destruct (ser_buf (fst kv) true t (snd kv) []) as [o [e|]] eqn:E; [discriminate|].
  intros H. inversion H; subst. exists o. pose proof (sized_ser_buf (fst kv) t (snd kv) o E) as Ho.
  repeat split; auto. apply cell_wire_of_out, Ho.
Qed.

Lemma nth_all_Forall {A} (P : A -> Prop) (l : list A) :
  (forall i x, nth_error l i = Some x -> P x) -> Forall P l.
Proof.
  induction l as [|x l IH]; intros H; [constructor|]. constructor.
  - apply (H 0%nat x). reflexivity.
  - apply IH. intros i y Hy. apply (H (S i) y). exact Hy.
Qed.

(* Count and cells for rows bound by name (and the other built-in row types): a SerializedValues
   comes out only if every column found its value and every value serialised; then it holds one
   well-formed cell per column - the wire form of the value supplied for that column (by name for
   maps, by position for sequences) -, nothing supplied is left over, and the invariant of
   section 3 holds, so every later add_value sequence keeps count = cells *)
Theorem typed_row_ok (cols : list (bytes * ctype)) r s : from_typed_row cols r = Ok s ->
  sv_wf s /\ sv_count s = N.of_nat (List.length cols) /\
  Request.row_complete (carrier * kval) ctype cols r /\
  exists chunks : list bytes, sv_bytes s = concat chunks /\ List.length chunks = List.length cols /\
    forall i nm t, nth_error cols i = Some (nm, t) ->
      exists kv o, Request.supplied (carrier * kval) r i nm = Some kv /\
                   ser_out (fst kv) true t (snd kv) = (o, None) /\ nth_error chunks i = Some o.
Proof.
  unfold from_typed_row. destruct (Request.bind_row (carrier * kval) ctype named_vser cols r) as [cells|e] eqn:E; [|discriminate].
  intros H. inversion H; subst. clear H.
  destruct (Request_proofs.bind_row_ok _ _ named_vser cols r cells E) as ((Hlen & Hb) & Hc & Hlt).
  assert (HF : Forall cell_out (map cell_wire cells)).
  { apply Forall_map. apply nth_all_Forall. intros i c Hi.
    destruct (nth_error cols i) as [[nm t]|] eqn:Ec.
    - destruct (Hb i nm t Ec) as (kv & c' & _ & Hv & Hn). rewrite Hi in Hn. inversion Hn; subst.
      destruct (named_vser_some kv t c' Hv) as (o & _ & Ho & _ & Hw). now rewrite Hw.
    - apply nth_error_None in Ec. assert (i < List.length cells)%nat by (apply nth_error_Some; congruence). lia. }
  split; [|split; [|split]].
  - exists (map cell_wire cells). cbn [sv_of_cells sv_bytes sv_count]. rewrite map_length.
    repeat split; auto. unfold u16_max. lia.
  - cbn [sv_of_cells sv_count]. now rewrite Hlen.
  - exact Hc.
  - exists (map cell_wire cells). cbn [sv_of_cells sv_bytes]. split; [reflexivity|]. split; [now rewrite map_length|].
    intros i nm t Hi. destruct (Hb i nm t Hi) as (kv & c & Hs & Hv & Hn).
    destruct (named_vser_some kv t c Hv) as (o & Ho & _ & _ & Hw).
    exists kv, o. split; [exact Hs|]. split; [exact Ho|]. rewrite nth_error_map, Hn. cbn. now rewrite Hw.
Qed.

(* ... and nothing at all comes out when the value supplied for some column does not serialise *)
Theorem typed_row_refuses (cols : list (bytes * ctype)) r i nm t kv : nth_error cols i = Some (nm, t) ->
  Request.supplied (carrier * kval) r i nm = Some kv -> fails (ser_buf (fst kv) true t (snd kv)) ->
  exists e, from_typed_row cols r = Err e.
Proof.
  intros Hc Hs [e He]. unfold from_typed_row.
  destruct (Request.bind_row (carrier * kval) ctype named_vser cols r) as [cells|e'] eqn:E; [|eauto]. exfalso.
  destruct (Request_proofs.bind_row_ok _ _ named_vser cols r cells E) as ((_ & Hb) & _ & _).
  destruct (Hb i nm t Hc) as (kv' & c & Hs' & Hv & _). rewrite Hs in Hs'. inversion Hs'; subst kv'.
  unfold named_vser in Hv. destruct (ser_buf (fst kv) true t (snd kv) []) as [o [x|]]; cbn [snd] in He; congruence.
Qed.

(* a missing value for a column, or a key that names no column, refuses the row as well (C09) *)
Theorem typed_row_map_names (cols : list (bytes * ctype)) kvs s : from_typed_row cols (Request.RMap kvs) = Ok s ->
  (forall nm t, In (nm, t) cols -> exists kv, Request.assoc (carrier * kval) nm kvs = Some kv) /\
  (forall k, In k (map fst kvs) -> Request.col_named ctype cols k = true).
Proof.
  unfold from_typed_row. destruct (Request.bind_row (carrier * kval) ctype named_vser cols (Request.RMap kvs)) as [cells|e] eqn:E; [|discriminate].
  intros _. destruct (Request_proofs.bind_row_ok _ _ named_vser cols _ cells E) as ((_ & Hb) & Hc & _). split.
  - intros nm t Hin. apply In_nth_error in Hin as [i Hi]. destruct (Hb i nm t Hi) as (kv & c & Hs & _). cbn in Hs. eauto.
  - exact Hc.
Qed.

(* ====================================================================================== *)
(* Deepening round 3 (proof only)                                                          *)
(* ====================================================================================== *)

(* ---- section 12: rows bound by name do not depend on the order in which the map iterates ---- *)
Lemma req_eqb_eq a b : Request.bytes_eqb a b = true <-> a = b.
Proof. unfold Request.bytes_eqb. destruct (list_eq_dec N.eq_dec a b); split; congruence. Qed.

Section NamedOrder.
  Variable V : Type.
  Notation assoc := (Request.assoc V).

  Lemma assoc_notin k (kvs : list (bytes * V)) : ~ In k (map fst kvs) -> assoc k kvs = None.
  Proof.
    induction kvs as [|[k' v] r IH]; intros H; [reflexivity|]. cbn in *.
    destruct (Request.bytes_eqb k k') eqn:E.
    - apply req_eqb_eq in E. subst. tauto.
    - apply IH. tauto.
  Qed.
  (* with distinct keys, [assoc] is membership: THE value stored under the key *)
  Lemma assoc_in_nodup k v (kvs : list (bytes * V)) : NoDup (map fst kvs) -> In (k, v) kvs -> assoc k kvs = Some v.
  Proof.
    induction kvs as [|[k' v'] r IH]; intros Hn Hi; [destruct Hi|]. cbn in *. inversion Hn; subst.
    destruct Hi as [Hi|Hi].
    - inversion Hi; subst. replace (Request.bytes_eqb k k) with true; [reflexivity|].
      symmetry. now apply req_eqb_eq.
    - destruct (Request.bytes_eqb k k') eqn:E.
      + apply req_eqb_eq in E. subst. exfalso. apply H1. change k' with (fst (k', v)). now apply in_map.
      + now apply IH.
  Qed.
  Lemma assoc_in k v (kvs : list (bytes * V)) : assoc k kvs = Some v -> In (k, v) kvs.
  Proof.
    induction kvs as [|[k' v'] r IH]; [discriminate|]. cbn. destruct (Request.bytes_eqb k k') eqn:E.
    - apply req_eqb_eq in E. subst. intros H. inversion H. now left.
    - intros H. right. now apply IH.
  Qed.
  Lemma assoc_perm k (kvs kvs' : list (bytes * V)) : NoDup (map fst kvs) -> Permutation kvs kvs' ->
    assoc k kvs = assoc k kvs'.
  Proof.
    intros Hn Hp. assert (Hn' : NoDup (map fst kvs')).
    { eapply Permutation_NoDup; [|exact Hn]. now apply Permutation_map. }
    destruct (assoc k kvs) as [v|] eqn:E.
    - symmetry. apply assoc_in_nodup; [exact Hn'|]. eapply Permutation_in; [exact Hp|]. now apply assoc_in.
    - destruct (assoc k kvs') as [v|] eqn:E'; [|reflexivity].
      apply assoc_in in E'. apply Permutation_sym in Hp. apply (Permutation_in _ Hp) in E'.
      rewrite (assoc_in_nodup k v kvs Hn E') in E. discriminate.
  Qed.
End NamedOrder.

(* str's Ord as modelled by C09's [bytes_ltb] is a strict total order: what makes "the
   lexicographically first unused key" a function of the SET of keys *)
Lemma ltb_irrefl a : Request.bytes_ltb a a = false.
Proof. induction a as [|x a IH]; [reflexivity|]. cbn. rewrite IH, N.ltb_irrefl, N.eqb_refl. reflexivity. Qed.
Lemma ltb_total a : forall b, Request.bytes_ltb a b = false -> Request.bytes_ltb b a = false -> a = b.
Proof.
  induction a as [|x a IH]; intros [|y b] H1 H2; cbn in *; try reflexivity; try discriminate.
  apply orb_false_iff in H1 as [L1 R1]. apply orb_false_iff in H2 as [L2 R2].
  apply N.ltb_ge in L1, L2. assert (x = y) by lia. subst y. rewrite N.eqb_refl in R1, R2. cbn in R1, R2.
  f_equal. now apply IH.
Qed.
Lemma ltb_negtrans a : forall b c, Request.bytes_ltb a b = false -> Request.bytes_ltb b c = false -> Request.bytes_ltb a c = false.
Proof.
  induction a as [|x a IH]; intros [|y b] [|z c] H1 H2; cbn in *; try reflexivity; try discriminate.
  apply orb_false_iff in H1 as [L1 R1]. apply orb_false_iff in H2 as [L2 R2].
  apply N.ltb_ge in L1, L2. apply orb_false_iff. split; [apply N.ltb_ge; lia|].
  destruct (x =? z) eqn:E; [|reflexivity]. apply N.eqb_eq in E. subst z. assert (x = y) by lia. subst y.
  rewrite N.eqb_refl in R1, R2. cbn in *. now apply (IH b c).
Qed.
Lemma min_bytes_spec l m : Request.min_bytes l = Some m -> In m l /\ forall x, In x l -> Request.bytes_ltb x m = false.
Proof.
  revert m. induction l as [|x r IH]; intros m; [discriminate|]. cbn.
  destruct (Request.min_bytes r) as [m'|] eqn:E.
  - destruct (IH m' eq_refl) as [Hi Hm]. destruct (Request.bytes_ltb m' x) eqn:L; intros H; inversion H; subst.
    + split; [now right|]. intros y [Hy|Hy]; [subst y|now apply Hm].
      destruct (Request.bytes_ltb x m) eqn:L2; [|reflexivity].
      (* x < m and m < x: impossible *)
      assert (Request.bytes_ltb m m = true); [|rewrite ltb_irrefl in *; discriminate].
      destruct (Request.bytes_ltb m m) eqn:Q; [reflexivity|].
      (* use negative transitivity: m<x=true, so not (m !< m and m !< x) *)
      exfalso. clear -L L2. revert x L L2. induction m as [|a m IHm]; intros [|b x] L L2; cbn in *; try discriminate.
      apply orb_true_iff in L, L2. destruct L as [L|L], L2 as [L2|L2].
      * apply N.ltb_lt in L, L2. lia.
      * apply N.ltb_lt in L. apply andb_true_iff in L2 as [L2 _]. apply N.eqb_eq in L2. lia.
      * apply N.ltb_lt in L2. apply andb_true_iff in L as [L _]. apply N.eqb_eq in L. lia.
      * apply andb_true_iff in L as [_ L]. apply andb_true_iff in L2 as [_ L2]. eapply IHm; eauto.
    + split; [now left|]. intros y [Hy|Hy]; [subst y; apply ltb_irrefl|].
      eapply ltb_negtrans; [apply Hm, Hy|exact L].
  - intros H. inversion H; subst. apply Request_proofs.min_bytes_none in E. subst r.
    split; [now left|]. intros y [Hy|[]]. subst y. apply ltb_irrefl.
Qed.
Lemma min_bytes_perm l l' : Permutation l l' -> Request.min_bytes l = Request.min_bytes l'.
Proof.
  intros Hp. destruct (Request.min_bytes l) as [m|] eqn:E, (Request.min_bytes l') as [m'|] eqn:E'; try reflexivity.
  - destruct (min_bytes_spec _ _ E) as [I1 M1]. destruct (min_bytes_spec _ _ E') as [I2 M2].
    f_equal. apply ltb_total.
    + apply M2. eapply Permutation_in; eauto.
    + apply M1. eapply Permutation_in; [apply Permutation_sym|]; eauto.
  - apply Request_proofs.min_bytes_none in E'. subst l'. apply Permutation_sym, Permutation_nil in Hp. subst. discriminate.
  - apply Request_proofs.min_bytes_none in E. subst l. apply Permutation_nil in Hp. subst. discriminate.
Qed.

Lemma ser_by_name_perm V T vser (kvs kvs' : list (bytes * V)) (cols : list (bytes * T)) :
  NoDup (map fst kvs) -> Permutation kvs kvs' ->
  Request.ser_by_name V T vser kvs cols = Request.ser_by_name V T vser kvs' cols.
Proof.
  intros Hn Hp. induction cols as [|[nm t] cs IH]; [reflexivity|]. cbn.
  rewrite (assoc_perm V nm kvs kvs' Hn Hp), IH. reflexivity.
Qed.

Theorem typed_row_order (cols : list (bytes * ctype)) kvs kvs' : NoDup (map fst kvs) -> Permutation kvs kvs' ->
  from_typed_row cols (Request.RMap kvs) = from_typed_row cols (Request.RMap kvs').
Proof.
  intros Hn Hp. unfold from_typed_row, Request.bind_row. cbn [Request.row_serialize].
  rewrite (ser_by_name_perm _ _ named_vser kvs kvs' cols Hn Hp).
  rewrite (min_bytes_perm (filter (fun k => negb (Request.col_named ctype cols k)) (map fst kvs))
                          (filter (fun k => negb (Request.col_named ctype cols k)) (map fst kvs'))); [reflexivity|].
  (* filter and map preserve permutations *)
  assert (Hm : Permutation (map fst kvs) (map fst kvs')) by now apply Permutation_map.
  clear -Hm. induction Hm; cbn.
  - constructor.
  - destruct (negb _); [now constructor|assumption].
  - destruct (negb _), (negb _); try apply perm_swap; apply Permutation_refl.
  - eapply Permutation_trans; eauto.
Qed.

(* with distinct keys the cell of a column is the wire form of THE entry stored under the column's
   name - membership, no search order: a type-correct mis-binding is impossible *)
Theorem typed_row_unique (cols : list (bytes * ctype)) kvs s : NoDup (map fst kvs) ->
  from_typed_row cols (Request.RMap kvs) = Ok s ->
  exists chunks : list bytes, sv_bytes s = concat chunks /\ List.length chunks = List.length cols /\
    forall i nm t, nth_error cols i = Some (nm, t) ->
      exists kv o, In (nm, kv) kvs /\ (forall kv', In (nm, kv') kvs -> kv' = kv) /\
                   ser_out (fst kv) true t (snd kv) = (o, None) /\ nth_error chunks i = Some o.
Proof.
  intros Hn H. destruct (typed_row_ok cols _ s H) as (_ & _ & _ & chunks & Hb & Hl & Hc).
  exists chunks. split; [exact Hb|]. split; [exact Hl|]. intros i nm t Hi.
  destruct (Hc i nm t Hi) as (kv & o & Hs & Ho & Hn'). cbn in Hs. exists kv, o.
  split; [now apply assoc_in|]. split; [|tauto].
  intros kv' Hin. apply (assoc_in_nodup _ nm kv' kvs Hn) in Hin. congruence.
Qed.

(* ---- section 13: [dyn_fits] against an independent typing relation ---- *)
Inductive has_cql_type : ctype -> cval -> Prop :=
| HT_empty t : supports_empty t = true -> has_cql_type t CEmpty
| HT_native n m v : payload_kind v = Some m ->
    (n = m \/ (In n string_types /\ In m string_types)) -> has_cql_type (TNative n) v
| HT_list e v l : vec_elems v = Some l -> (forall x, In x l -> has_cql_type e x) -> has_cql_type (TList e) v
| HT_set e v l : vec_elems v = Some l -> (forall x, In x l -> has_cql_type e x) -> has_cql_type (TSet e) v
| HT_vector e d v l : vec_elems v = Some l -> N.of_nat (List.length l) = d ->
    (type_size e <> None -> ~ In CEmpty l) ->
    (forall x, In x l -> has_cql_type e x) -> has_cql_type (TVector e d) v
| HT_map k e l : (forall a b, In (a, b) l -> has_cql_type k a) -> (forall a b, In (a, b) l -> has_cql_type e b) ->
    has_cql_type (TMap k e) (CMap l)
| HT_tuple ts l : (List.length l <= List.length ts)%nat ->
    (forall i x et, nth_error l i = Some (Some x) -> nth_error ts i = Some et -> has_cql_type et x) ->
    has_cql_type (TTuple ts) (CTuple l)
| HT_udt ks nm fts fields :
    (forall f, In f (map fst fields) -> In f (map fst fts)) ->
    (forall fname ft x, lookup_first fname fts = Some ft -> udt_field_value fname fields = Some x -> has_cql_type ft x) ->
    has_cql_type (TUdt ks nm fts) (CUdt ks nm fields).

Ltac inv_ht H := inversion H as [? Hs|? m ? Hp Hd|? ? l Hv Hall|? ? l Hv Hall|? ? ? l Hv Hlen Hne Hall|? ? l Hk He|? l Hlen Hall|? ? ? ? Hn Hall]; subst.

Lemma ntype_eqb_eq n m : ntype_eqb n m = true <-> n = m.
Proof. destruct n, m; split; intros H; try reflexivity; try discriminate H. Qed.
Lemma in_string_types n : native_in (TNative n) string_types = true <-> In n string_types.
Proof. destruct n; cbn; split; intros H; try discriminate H; try tauto; repeat (destruct H as [H|H]; try discriminate H); destruct H. Qed.

Lemma fits_native s n v : dyn_fits_gen s (TNative n) v = true <-> has_cql_type (TNative n) v.
Proof.
  split.
  - intros H. destruct (payload_kind v) as [m|] eqn:E.
    + apply (HT_native n m v E).
      assert (G : ntype_eqb n m || (native_in (TNative n) string_types && native_in (TNative m) string_types) = true).
      { destruct v; cbn in E; try discriminate E; inversion E; subst m; exact H. }
      apply orb_true_iff in G as [G|G]; [left; now apply ntype_eqb_eq|].
      apply andb_true_iff in G as [G1 G2]. right. split; now apply in_string_types.
    + destruct v; cbn in E; try discriminate E; cbn in H; try discriminate H. now constructor.
  - intros H. inv_ht H.
    + exact Hs.
    + assert (G : ntype_eqb n m || (native_in (TNative n) string_types && native_in (TNative m) string_types) = true).
      { apply orb_true_iff. destruct Hd as [->|[A B]]; [left; now apply ntype_eqb_eq|].
        right. apply andb_true_iff. split; now apply in_string_types. }
      destruct v; cbn in Hp; try discriminate Hp; inversion Hp; subst m; exact G.
Qed.

Lemma fits_seq_shape s t v : (exists e, t = TList e \/ t = TSet e) ->
  dyn_fits_gen s t v = match vec_elems v, t with
                       | Some l, (TList e | TSet e) => forallb (dyn_fits_gen s e) l
                       | _, _ => false end.
Proof. intros [e [->| ->]]; destruct v; reflexivity. Qed.
Lemma fits_vec_shape s e d v :
  dyn_fits_gen s (TVector e d) v = match v with CEmpty => true | _ =>
    match vec_elems v with
    | Some l => (N.of_nat (List.length l) =? d) && negb (s && is_some (type_size e) && existsb is_cempty l) &&
                forallb (dyn_fits_gen s e) l
    | None => false end end.
Proof. destruct v; reflexivity. Qed.

Lemma existsb_cempty l : existsb is_cempty l = true <-> In CEmpty l.
Proof.
  rewrite existsb_exists. split.
  - intros [x [Hi Hx]]. destruct x; try discriminate Hx. exact Hi.
  - intros H. exists CEmpty. now split.
Qed.

(* the UDT clause: [fits_udt_go] walks the type's fields and consumes the value's entries; said
   without the walk: every entry names a field of the type, and the value the map holds for a
   field (the last entry of that name) fits the type the FIRST field of that name has *)
Lemma udt_value_remove_other n m st : n <> m -> udt_field_value n (remove_name m st) = udt_field_value n st.
Proof. intros H. unfold udt_field_value. now rewrite lookup_last_remove_other. Qed.
Lemma remove_name_names {A} m (st : list (name * A)) f : In f (map fst (remove_name m st)) <-> In f (map fst st) /\ f <> m.
Proof.
  unfold remove_name. rewrite !in_map_iff. split.
  - intros [[k x] [E Hi]]. cbn in E. subst k. apply filter_In in Hi as [Hi Hn]. cbn in Hn.
    apply negb_true_iff, bytes_eqb_neq in Hn. split; [exists (f, x); now split|congruence].
  - intros [[[k x] [E Hi]] Hn]. cbn in E. subst k. exists (f, x). split; [reflexivity|]. apply filter_In. split; [exact Hi|].
    cbn. apply negb_true_iff, bytes_eqb_neq. congruence.
Qed.
Lemma fits_udt_go_spec (f : ctype -> cval -> bool) fts : forall st,
  fits_udt_go f fts st = true <->
  (forall g, In g (map fst st) -> In g (map fst fts)) /\
  (forall fname ft x, lookup_first fname fts = Some ft -> udt_field_value fname st = Some x -> f ft x = true).
Proof.
  induction fts as [|[fn ft] r IH]; intros st; cbn [fits_udt_go].
  - split.
    + intros H. destruct st; [|discriminate H]. split; [intros g []|intros ? ? ? H1; discriminate H1].
    + intros [H _]. destruct st as [|[g y] st]; [reflexivity|]. destruct (H g). now left.
  - rewrite andb_true_iff, IH. cbn [map fst lookup_first]. split.
    + intros [A [B C]]. split.
      * intros g Hg. destruct (list_eq_dec N.eq_dec g fn) as [->|Hn]; [now left|]. right. apply B. apply remove_name_names. now split.
      * intros fname ft' x H1 H2. destruct (bytes_eqb fname fn) eqn:E.
        -- apply bytes_eqb_eq in E. subst fname. inversion H1; subst ft'. now rewrite H2 in A.
        -- apply bytes_eqb_neq in E. apply (C fname ft' x H1). now rewrite udt_value_remove_other.
    + intros [B C]. split; [|split].
      * destruct (udt_field_value fn st) as [x|] eqn:E; [|reflexivity]. apply (C fn ft x); [|exact E].
        replace (bytes_eqb fn fn) with true; [reflexivity|]. symmetry. now apply bytes_eqb_eq.
      * intros g Hg. apply remove_name_names in Hg as [Hg Hn]. destruct (B g Hg) as [Hx|Hx]; [congruence|exact Hx].
      * intros fname ft' x H1 H2.
        destruct (list_eq_dec N.eq_dec fname fn) as [->|Hn].
        -- exfalso. unfold udt_field_value in H2. rewrite lookup_last_none in H2; [discriminate|].
           intros Hin. apply remove_name_names in Hin. tauto.
        -- rewrite udt_value_remove_other in H2 by exact Hn. apply (C fname ft' x); [|exact H2].
           replace (bytes_eqb fname fn) with false; [exact H1|]. symmetry. now apply bytes_eqb_neq.
Qed.
Lemma fits_tuple_go_spec (f : ctype -> cval -> bool) ts : forall l,
  fits_tuple_go f ts l = true <->
  (forall i x et, nth_error l i = Some (Some x) -> nth_error ts i = Some et -> f et x = true).
Proof.
  induction ts as [|et ts IH]; intros l; cbn [fits_tuple_go].
  - split; [|reflexivity]. intros _ i x et' _ H. destruct i; discriminate H.
  - destruct l as [|ox l].
    + split; [|reflexivity]. intros _ i x et' H. destruct i; discriminate H.
    + rewrite andb_true_iff, IH. split.
      * intros [A B] [|i] x et' H1 H2; cbn in *.
        -- inversion H1; inversion H2; subst. exact A.
        -- eapply B; eauto.
      * intros H. split.
        -- destruct ox as [x|]; [|reflexivity]. apply (H 0%nat x et); reflexivity.
        -- intros i x et' H1 H2. apply (H (S i) x et'); assumption.
Qed.
Lemma lookup_first_in {A} n (l : list (name * A)) x : lookup_first n l = Some x -> In (n, x) l.
Proof.
  induction l as [|[m y] l IH]; [discriminate|]. cbn. destruct (bytes_eqb n m) eqn:E.
  - apply bytes_eqb_eq in E. subst. intros H. inversion H. now left.
  - intros H. right. now apply IH.
Qed.

Lemma vec_fwd e d l : (forall v, dyn_fits_gen true e v = true <-> has_cql_type e v) ->
  (N.of_nat (List.length l) =? d) && negb (true && is_some (type_size e) && existsb is_cempty l) &&
  forallb (dyn_fits_gen true e) l = true ->
  N.of_nat (List.length l) = d /\ (type_size e <> None -> ~ In CEmpty l) /\ (forall x, In x l -> has_cql_type e x).
Proof.
  intros IHe H. apply andb_true_iff in H as [H H3]. apply andb_true_iff in H as [H1 H2].
  apply N.eqb_eq in H1. rewrite forallb_forall in H3. split; [exact H1|]. split.
  - intros Hs Hin. apply existsb_cempty in Hin. rewrite Hin in H2. destruct (type_size e); [discriminate H2|congruence].
  - intros x Hx. apply IHe. now apply H3.
Qed.

Theorem dyn_fits_typing t : forall v, dyn_fits t v = true <-> has_cql_type t v.
Proof.
  unfold dyn_fits.
  induction t as [n|e IHe|e IHe|k e IHk IHe|ts IHts|ks' nm' fts IHfs|e d IHe] using ctype_ind'; intros v.
  - apply fits_native.
  - rewrite fits_seq_shape by eauto. split.
    + destruct (vec_elems v) as [l|] eqn:E; [|discriminate]. intros H. apply (HT_list e v l E).
      intros x Hx. apply IHe. rewrite forallb_forall in H. now apply H.
    + intros H. inv_ht H; [discriminate|]. rewrite Hv. apply forallb_forall. intros x Hx. apply IHe. now apply Hall.
  - rewrite fits_seq_shape by eauto. split.
    + destruct (vec_elems v) as [l|] eqn:E; [|discriminate]. intros H. apply (HT_set e v l E).
      intros x Hx. apply IHe. rewrite forallb_forall in H. now apply H.
    + intros H. inv_ht H; [discriminate|]. rewrite Hv. apply forallb_forall. intros x Hx. apply IHe. now apply Hall.
  - split.
    + destruct v; try discriminate. cbn [dyn_fits_gen]. intros H. rewrite forallb_forall in H.
      constructor; intros a b Hin; specialize (H (a, b) Hin); cbn in H; apply andb_true_iff in H as [H1 H2];
        [now apply IHk|now apply IHe].
    + intros H. inv_ht H; [discriminate|]. cbn [dyn_fits_gen]. apply forallb_forall. intros [a b] Hin. cbn.
      apply andb_true_iff. split; [apply IHk; eapply Hk; eauto|apply IHe; eapply He; eauto].
  - split.
    + destruct v; try discriminate; [intros _; now constructor|]. rewrite dyn_fits_tuple. intros H.
      apply andb_true_iff in H as [H1 H2]. apply Nat.leb_le in H1. constructor; [exact H1|].
      intros i x et Hl Ht. rewrite fits_tuple_go_spec in H2. specialize (H2 i x et Hl Ht).
      rewrite Forall_forall in IHts. apply (IHts et); [eapply nth_error_In; eauto|exact H2].
    + intros H. inv_ht H; [reflexivity|]. rewrite dyn_fits_tuple. apply andb_true_iff. split; [now apply Nat.leb_le|].
      apply fits_tuple_go_spec. intros i x et Hl Ht. rewrite Forall_forall in IHts.
      apply (IHts et); [eapply nth_error_In; eauto|]. eapply Hall; eauto.
  - split.
    + destruct v; try discriminate. rewrite dyn_fits_udt. intros H. apply andb_true_iff in H as [H H3].
      apply andb_true_iff in H as [H1 H2]. apply bytes_eqb_eq in H1, H2. subst.
      apply fits_udt_go_spec in H3 as [A B]. constructor; [exact A|].
      intros fname ft x Hf Hv. rewrite Forall_forall in IHfs.
      apply (IHfs (fname, ft)); [now apply lookup_first_in|]. eapply B; eauto.
    + intros H. inv_ht H; [discriminate|]. rewrite dyn_fits_udt.
      replace (bytes_eqb ks' ks') with true by (symmetry; now apply bytes_eqb_eq).
      replace (bytes_eqb nm' nm') with true by (symmetry; now apply bytes_eqb_eq). cbn [andb].
      apply fits_udt_go_spec. split; [assumption|]. intros fname ft x Hf Hv. rewrite Forall_forall in IHfs.
      apply (IHfs (fname, ft)); [now apply lookup_first_in|]. eapply Hall; eauto.
  - rewrite fits_vec_shape. split.
    + destruct v; try discriminate; try (intros _; constructor; reflexivity);
        cbn [vec_elems]; intros H; destruct (vec_fwd e d l IHe H) as (A & B & C);
        (eapply HT_vector with (l := l); [reflexivity|exact A|exact B|exact C]).
    + intros H. inv_ht H; [reflexivity|].
      assert (G : (N.of_nat (List.length l) =? N.of_nat (List.length l)) &&
                  negb (true && is_some (type_size e) && existsb is_cempty l) && forallb (dyn_fits_gen true e) l = true).
      { rewrite N.eqb_refl. cbn [andb]. apply andb_true_iff. split.
        - apply negb_true_iff. destruct (type_size e) eqn:Es; [|reflexivity]. cbn.
          destruct (existsb is_cempty l) eqn:Ex; [|reflexivity]. apply existsb_cempty in Ex. exfalso. apply Hne; [congruence|exact Ex].
        - apply forallb_forall. intros x Hx. apply IHe. now apply Hall. }
      destruct v; cbn in Hv; try discriminate Hv; inversion Hv; subst; exact G.
Qed.

(* ---- section 14: the one-line count model against the row models ---- *)
(* [closure_count] is complete: it refuses exactly the sums above u16::MAX, with TooManyValues,
   and depends on the parts as a multiset only *)
Lemma fold_add_perm l l' : Permutation l l' -> forall a, fold_left N.add l a = fold_left N.add l' a.
Proof. induction 1; intros a; cbn; auto; [f_equal; lia|congruence]. Qed.
Theorem closure_count_spec parts :
  (forall e, closure_count parts = Err e <-> e = RE_TooManyValues /\ u16_max < fold_left N.add parts 0) /\
  (forall n, closure_count parts = Ok n <-> n = fold_left N.add parts 0 /\ n <= u16_max) /\
  (forall parts', Permutation parts parts' -> closure_count parts = closure_count parts').
Proof.
  unfold closure_count. split; [|split].
  - intros e. destruct (u16_max <? fold_left N.add parts 0) eqn:E.
    + apply N.ltb_lt in E. split; [intros H; inversion H; now split|intros [-> _]; reflexivity].
    + apply N.ltb_ge in E. split; [discriminate|intros [_ H]; lia].
  - intros n. destruct (u16_max <? fold_left N.add parts 0) eqn:E.
    + apply N.ltb_lt in E. split; [discriminate|intros [-> H]; lia].
    + apply N.ltb_ge in E. split; [intros H; inversion H; now split|intros [-> _]; reflexivity].
  - intros parts' Hp. now rewrite (fold_add_perm _ _ Hp 0).
Qed.

(* the row models end in the same check: the count a row (by position or by name) leaves in a
   SerializedValues is the [closure_count] of its one part, and a row refused for its count is
   refused by [closure_count] *)
Theorem closure_count_rows :
  (forall cols vals s, from_row cols vals = Ok s ->
     closure_count [N.of_nat (List.length vals)] = Ok (sv_count s)) /\
  (forall cols vals, from_row cols vals = Err RE_TooManyValues ->
     closure_count [N.of_nat (List.length vals)] = Err RE_TooManyValues) /\
  (forall (cols : list (bytes * ctype)) r s, from_typed_row cols r = Ok s ->
     closure_count [N.of_nat (List.length cols)] = Ok (sv_count s)).
Proof.
  split; [|split].
  - intros cols vals s H. destruct (from_row_count cols vals s H) as (_ & _ & _ & Hc & Hm).
    unfold closure_count. cbn [fold_left]. rewrite N.add_0_l, <- Hc.
    destruct (u16_max <? sv_count s) eqn:E; [apply N.ltb_lt in E; lia|reflexivity].
  - intros cols vals. unfold from_row. destruct (negb _) eqn:El; [discriminate|]. apply negb_false_iff, Nat.eqb_eq in El.
    destruct (row_write cols vals [] 0) as [[b cnt] [e|]] eqn:E; [discriminate|].
    destruct (row_write_spec _ _ _ _ _ _ El E) as (cs & _ & _ & _ & ->).
    unfold closure_count. cbn [fold_left]. destruct (u16_max <? 0 + N.of_nat (List.length vals)); [reflexivity|discriminate].
  - intros cols r s H. destruct (typed_row_ok cols r s H) as ((chunks & _ & _ & _ & Hm) & Hc & _).
    unfold closure_count. cbn [fold_left]. rewrite N.add_0_l, <- Hc.
    destruct (u16_max <? sv_count s) eqn:E; [apply N.ltb_lt in E; lia|reflexivity].
Qed.
