(* Proofs about Model/Reprepare.v (property C14). *)
From SV Require Import Base.Prelude Base.Bytes Model.Reprepare.
Open Scope N_scope.

(* ---------------------------------------------------------------------------------- *)
(* basics                                                                               *)
(* ---------------------------------------------------------------------------------- *)

Lemma upd_same {A} (f : nat -> A) k v : upd f k v k = v.
Proof. unfold upd. now rewrite Nat.eqb_refl. Qed.

Lemma upd_other {A} (f : nat -> A) k v k' : k' <> k -> upd f k v k' = f k'.
Proof. intros H. unfold upd. apply Nat.eqb_neq in H. now rewrite H. Qed.

Lemma bytes_eqb_eq a b : bytes_eqb a b = true <-> a = b.
Proof. unfold bytes_eqb. destruct (list_eq_dec N.eq_dec a b); split; congruence. Qed.

Lemma bytes_eqb_refl a : bytes_eqb a a = true.
Proof. now apply bytes_eqb_eq. Qed.

Lemma bytes_eqb_neq a b : bytes_eqb a b = false <-> a <> b.
Proof. unfold bytes_eqb. destruct (list_eq_dec N.eq_dec a b); split; congruence. Qed.

Lemma obytes_eqb_eq a b : obytes_eqb a b = true <-> a = b.
Proof.
  destruct a as [x|], b as [y|]; simpl; try (split; congruence).
  rewrite bytes_eqb_eq. split; congruence.
Qed.

Lemma used_meta_err ext cached b e : used_meta ext cached b = Err e -> e = E_Parse.
Proof.
  unfold used_meta. destruct (rb_meta b) as [n|nid cols].
  - destruct cached; discriminate.
  - destruct nid, ext; try discriminate. congruence.
Qed.

(* [call_recv] tests [resp_parse_fails] first; that is what [outcome_of] says anyway *)
Lemma parse_fails_outcome ext cached r :
  resp_parse_fails ext cached r = true -> outcome_of ext cached r = O_err E_Parse.
Proof.
  destruct r; simpl; try discriminate.
  destruct (used_meta ext cached b) eqn:E; [discriminate|].
  intros _. now rewrite (used_meta_err _ _ _ _ E).
Qed.

Lemma parse_fails_not_unprepared ext cached r i :
  resp_parse_fails ext cached r = true -> r <> RUnprepared i.
Proof. destruct r; simpl; congruence. Qed.

(* the parts of an EXECUTE frame that do not depend on the cell *)
Lemma mk_exec_frame_core st ext a m m' :
  same_core (mk_exec_frame st ext a m) (mk_exec_frame st ext a m') = true.
Proof.
  unfold same_core, mk_exec_frame; simpl.
  rewrite !bytes_eqb_refl, N.eqb_refl. simpl.
  assert (HN : forall o : option N, opt_eqb N.eqb o o = true) by (intros [x|]; simpl; [apply N.eqb_refl|reflexivity]).
  assert (HZ : forall o : option Z, opt_eqb Z.eqb o o = true) by (intros [x|]; simpl; [apply Z.eqb_refl|reflexivity]).
  assert (HB : forall o : option bytes, obytes_eqb o o = true) by (intros o; now apply obytes_eqb_eq).
  now rewrite !HN, HZ, HB.
Qed.

(* ---------------------------------------------------------------------------------- *)
(* runs and the induction principle over them                                           *)
(* ---------------------------------------------------------------------------------- *)

Definition greach (ST : nat -> stmt) (init : nat -> meta) (st : gstate) : Prop :=
  exists ls, grun ST (ginit init) ls = Some st.

Lemma grun_app ST st ls1 ls2 :
  grun ST st (ls1 ++ ls2) = match grun ST st ls1 with Some st' => grun ST st' ls2 | None => None end.
Proof.
  revert st; induction ls1 as [|l r IH]; intros st; simpl; [reflexivity|].
  destruct (gstep ST st l); [apply IH|reflexivity].
Qed.

Lemma greach_step ST init st l st' :
  greach ST init st -> gstep ST st l = Some st' -> greach ST init st'.
Proof.
  intros [ls H] Hs. exists (ls ++ [l]). rewrite grun_app, H. simpl. now rewrite Hs.
Qed.

Lemma greach_ind ST init (P : gstate -> Prop) :
  P (ginit init) ->
  (forall st l st', greach ST init st -> P st -> gstep ST st l = Some st' -> P st') ->
  forall st, greach ST init st -> P st.
Proof.
  intros H0 Hstep st [ls Hrun].
  assert (G : forall ls2 ls1 s, grun ST (ginit init) ls1 = Some s -> P s ->
              grun ST s ls2 = Some st -> P st).
  { induction ls2 as [|l r IH]; intros ls1 s Hr Hp Hrun2; simpl in Hrun2.
    - now inversion Hrun2; subst.
    - destruct (gstep ST s l) as [s'|] eqn:E; [|discriminate].
      apply (IH (ls1 ++ [l]) s'); try assumption.
      + rewrite grun_app, Hr. simpl. now rewrite E.
      + apply (Hstep s l s'); try assumption. now exists ls1. }
  apply (G ls [] (ginit init)); auto.
Qed.

(* ---------------------------------------------------------------------------------- *)
(* the log of one EXECUTE call: every possible (requests sent, responses received, pc)   *)
(* ---------------------------------------------------------------------------------- *)

Section ExecLog.
Variable ST : nat -> stmt.
Variable ext : bool.
Variable a : xargs.

Let st := ST (xa_stmt a).
Let fr (m : meta) := (Q_execute (mk_exec_frame st ext a m), Some m).
Let cach (m : meta) := cp_cached ext (xa_use_cached a) m.
Let prep : request * option meta := (Q_prepare (s_text st), None).

(* what a PREPARE answer that does not continue the call turns into *)
Definition prep_fail_outcome (sid : bytes) (r : resp) : option outcome :=
  match r with
  | RPrepared id _ => if bytes_eqb id sid then None else Some (O_err E_IdChanged)
  | RDbError c => Some (O_err (E_Db c))
  | RUnprepared _ => Some (O_err E_Unprepared)
  | _ => Some (O_err E_Unexpected)
  end.

Definition is_unprepared (r : resp) : bool := match r with RUnprepared _ => true | _ => false end.

Inductive exec_log : list (request * option meta) -> list resp -> cstate -> Prop :=
| XL_exec1 m : exec_log [fr m] [] (CS_exec1 a m)
| XL_done1 m r : is_unprepared r = false ->
    exec_log [fr m] [r] (CS_done (outcome_of ext (cach m) r))
| XL_prep m i : exec_log [prep; fr m] [RUnprepared i] (CS_prep a)
| XL_prepfail m i r o : prep_fail_outcome (s_id st) r = Some o ->
    exec_log [prep; fr m] [r; RUnprepared i] (CS_done o)
| XL_resend m i pm : exec_log [prep; fr m] [RPrepared (s_id st) pm; RUnprepared i] (CS_resend a)
| XL_exec2 m i pm m2 :
    exec_log [fr m2; prep; fr m] [RPrepared (s_id st) pm; RUnprepared i] (CS_exec2 a m2)
| XL_done2 m i pm m2 r :
    exec_log [fr m2; prep; fr m] [r; RPrepared (s_id st) pm; RUnprepared i]
             (CS_done (outcome_of ext (cach m2) r)).
End ExecLog.

(* the log of one BATCH call *)
Section BatchLog.
Variable ST : nat -> stmt.
Variable ext : bool.
Variable b : bargs.
Let F : request * option meta := (Q_batch (mk_batch_frame ST b), None).

Definition batch_final (r : resp) : option outcome :=
  match r with
  | RUnprepared id => match find_prepared ST (ba_items b) id with
                      | Some _ => None | None => Some (O_err E_IdMissingInBatch) end
  | RDbError c => Some (O_err (E_Db c))
  | RRows _ => Some (outcome_of ext None r)
  | RVoid | ROtherResult | RPrepared _ _ => Some O_norows
  | ROther => Some (O_err E_Unexpected)
  end.

Inductive batch_log : list (request * option meta) -> list resp -> cstate -> Prop :=
| BL_start : batch_log [F] [] (CS_batch b)
| BL_unprep sent rcvd id p :
    batch_log sent rcvd (CS_batch b) -> find_prepared ST (ba_items b) id = Some p ->
    batch_log ((Q_prepare (s_text (ST p)), None) :: sent) (RUnprepared id :: rcvd) (CS_bprep b p)
| BL_reprep sent rcvd p pm :
    batch_log sent rcvd (CS_bprep b p) ->
    batch_log (F :: sent) (RPrepared (s_id (ST p)) pm :: rcvd) (CS_batch b)
| BL_done sent rcvd r o :
    batch_log sent rcvd (CS_batch b) -> batch_final r = Some o ->
    batch_log sent (r :: rcvd) (CS_done o)
| BL_prepfail sent rcvd p r o :
    batch_log sent rcvd (CS_bprep b p) -> prep_fail_outcome (s_id (ST p)) r = Some o ->
    batch_log sent (r :: rcvd) (CS_done o).
End BatchLog.

(* every call of a reachable state has one of these logs *)
Definition call_ok (ST : nat -> stmt) (k : crec) : Prop :=
  match k_x k with
  | Some a => exec_log ST (k_ext k) a (k_sent k) (k_rcvd k) (k_st k)
  | None => k = idle_call \/ exists b, batch_log ST (k_ext k) b (k_sent k) (k_rcvd k) (k_st k)
  end.

Lemma exec_log_recv ST ext a sent rcvd cs cells r sto cs' oq :
  exec_log ST ext a sent rcvd cs ->
  call_recv ST ext cells cs r = Some (sto, cs', oq) ->
  exec_log ST ext a (match oq with Some q => (q, snap_of cs') :: sent | None => sent end) (r :: rcvd) cs'.
Proof.
  intros HL HR. inversion HL; subst; simpl in HR.
  - (* exec1 *)
    destruct (resp_parse_fails ext (cp_cached ext (xa_use_cached a) m) r) eqn:PF.
    + inversion HR; subst. rewrite <- (parse_fails_outcome _ _ _ PF).
      apply XL_done1. destruct r; simpl in *; congruence.
    + destruct r; inversion HR; subst; simpl; try (apply XL_done1; reflexivity).
      apply XL_prep.
  - discriminate.
  - (* prep *)
    destruct r; inversion HR; subst; simpl; try (apply XL_prepfail; reflexivity).
    destruct (bytes_eqb id (s_id (ST (xa_stmt a)))) eqn:E; simpl in *.
    + inversion HR; subst. apply bytes_eqb_eq in E. subst id. apply XL_resend.
    + inversion HR; subst. apply XL_prepfail. simpl. now rewrite E.
  - discriminate.
  - discriminate.
  - (* exec2 *)
    destruct (resp_parse_fails ext (cp_cached ext (xa_use_cached a) m2) r) eqn:PF.
    + inversion HR; subst. rewrite <- (parse_fails_outcome _ _ _ PF). apply XL_done2.
    + inversion HR; subst. apply XL_done2.
  - discriminate.
Qed.

Lemma exec_log_tick ST ext a sent rcvd cs cells cs' q :
  exec_log ST ext a sent rcvd cs ->
  call_tick ST ext cells cs = Some (cs', q) ->
  exec_log ST ext a ((q, snap_of cs') :: sent) rcvd cs'.
Proof.
  intros HL HT. inversion HL; subst; simpl in HT; try discriminate.
  inversion HT; subst. simpl. apply XL_exec2.
Qed.

Lemma batch_log_recv ST ext b sent rcvd cs cells r sto cs' oq :
  batch_log ST ext b sent rcvd cs ->
  call_recv ST ext cells cs r = Some (sto, cs', oq) ->
  batch_log ST ext b (match oq with Some q => (q, snap_of cs') :: sent | None => sent end) (r :: rcvd) cs'.
Proof.
  intros HL HR.
  assert (Hcs : cs = CS_batch b \/ (exists p, cs = CS_bprep b p) \/ exists o, cs = CS_done o).
  { inversion HL; subst; eauto. }
  destruct Hcs as [-> | [[p ->] | [o ->]]]; simpl in HR; [| |discriminate].
  - destruct r; inversion HR; subst; simpl;
      try (eapply BL_done; [eassumption|reflexivity]).
    destruct (find_prepared ST (ba_items b) id) as [p|] eqn:FP; inversion HR; subst; simpl.
    + now apply BL_unprep.
    + eapply BL_done; [eassumption|]. simpl. now rewrite FP.
  - destruct r; inversion HR; subst; simpl;
      try (eapply BL_prepfail; [eassumption|reflexivity]).
    destruct (bytes_eqb id (s_id (ST p))) eqn:E; simpl in *; inversion HR; subst; simpl.
    + apply bytes_eqb_eq in E. subst id. now apply BL_reprep.
    + eapply BL_prepfail; [eassumption|]. simpl. now rewrite E.
Qed.

Lemma batch_log_no_tick ST ext b sent rcvd cs cells :
  batch_log ST ext b sent rcvd cs -> call_tick ST ext cells cs = None.
Proof. intros HL. inversion HL; subst; reflexivity. Qed.

Lemma batch_log_not_idle ST ext b sent rcvd cs : batch_log ST ext b sent rcvd cs -> cs <> CS_idle.
Proof. intros HL. inversion HL; subst; discriminate. Qed.

Lemma exec_log_not_idle ST ext a sent rcvd cs : exec_log ST ext a sent rcvd cs -> cs <> CS_idle.
Proof. intros HL. inversion HL; subst; discriminate. Qed.

Lemma gstep_call_ok ST st l st' :
  (forall c, call_ok ST (g_calls st c)) -> gstep ST st l = Some st' ->
  forall c, call_ok ST (g_calls st' c).
Proof.
  intros H Hs c. destruct l as [c0 ext a|c0 ext b|c0 r|c0]; simpl in Hs.
  - destruct (k_st (g_calls st c0)) eqn:E; try discriminate. inversion Hs; subst; simpl.
    destruct (Nat.eq_dec c c0) as [->|N]; [rewrite upd_same|rewrite upd_other by assumption; apply H].
    unfold call_ok; simpl. apply XL_exec1.
  - destruct (k_st (g_calls st c0)) eqn:E; try discriminate. inversion Hs; subst; simpl.
    destruct (Nat.eq_dec c c0) as [->|N]; [rewrite upd_same|rewrite upd_other by assumption; apply H].
    unfold call_ok; simpl. right. exists b. apply BL_start.
  - destruct (call_recv ST (k_ext (g_calls st c0)) (g_cells st) (k_st (g_calls st c0)) r)
      as [[[sto cs] oq]|] eqn:E; [|discriminate].
    destruct (apply_store st sto) as [cells ann]. inversion Hs; subst; simpl.
    destruct (Nat.eq_dec c c0) as [->|N]; [rewrite upd_same|rewrite upd_other by assumption; apply H].
    specialize (H c0). unfold call_ok in *; simpl.
    destruct (k_x (g_calls st c0)) as [a|].
    + eapply exec_log_recv; eassumption.
    + destruct H as [Hi|[b Hb]].
      * rewrite Hi in E. simpl in E. discriminate.
      * right. exists b. eapply batch_log_recv; eassumption.
  - destruct (call_tick ST (k_ext (g_calls st c0)) (g_cells st) (k_st (g_calls st c0)))
      as [[cs q]|] eqn:E; [|discriminate].
    inversion Hs; subst; simpl.
    destruct (Nat.eq_dec c c0) as [->|N]; [rewrite upd_same|rewrite upd_other by assumption; apply H].
    specialize (H c0). unfold call_ok in *; simpl.
    destruct (k_x (g_calls st c0)) as [a|].
    + eapply exec_log_tick; eassumption.
    + destruct H as [Hi|[b Hb]].
      * rewrite Hi in E. simpl in E. discriminate.
      * rewrite (batch_log_no_tick _ _ _ _ _ _ _ Hb) in E. discriminate.
Qed.

Lemma reach_call_ok ST init st : greach ST init st -> forall c, call_ok ST (g_calls st c).
Proof.
  revert st. apply (greach_ind ST init (fun st => forall c, call_ok ST (g_calls st c))).
  - intros c. unfold call_ok; simpl. now left.
  - intros st l st' _ IH Hs. eapply gstep_call_ok; eassumption.
Qed.

(* ---------------------------------------------------------------------------------- *)
(* consequences of the call logs: transparency, id change, skip_metadata                *)
(* ---------------------------------------------------------------------------------- *)

Lemma same_core_fields f g : same_core f g = true ->
  f_id f = f_id g /\ f_values f = f_values g /\ f_cons f = f_cons g /\ f_serial f = f_serial g /\
  f_page_size f = f_page_size g /\ f_paging f = f_paging g /\ f_ts f = f_ts g.
Proof.
  unfold same_core. rewrite !andb_true_iff. intros [[[[[[H1 H2] H3] H4] H5] H6] H7].
  apply bytes_eqb_eq in H1, H2. apply N.eqb_eq in H3. apply obytes_eqb_eq in H6.
  assert (HN : forall x y : option N, opt_eqb N.eqb x y = true -> x = y).
  { intros [x|] [y|]; simpl; try congruence. intros E; apply N.eqb_eq in E. congruence. }
  assert (HZ : forall x y : option Z, opt_eqb Z.eqb x y = true -> x = y).
  { intros [x|] [y|]; simpl; try congruence. intros E; apply Z.eqb_eq in E. congruence. }
  apply HN in H4, H5. apply HZ in H7. tauto.
Qed.

(* C14_transparent *)
Lemma transparent ST init st c a i pm r :
  greach ST init st ->
  let k := g_calls st c in
  let s := ST (xa_stmt a) in
  k_x k = Some a ->
  k_rcvd k = [r; RPrepared (s_id s) pm; RUnprepared i] ->
  exists m1 m2,
    let f1 := mk_exec_frame s (k_ext k) a m1 in
    let f2 := mk_exec_frame s (k_ext k) a m2 in
    k_sent k = [(Q_execute f2, Some m2); (Q_prepare (s_text s), None); (Q_execute f1, Some m1)] /\
    (f_id f2 = s_id s /\ f_id f2 = f_id f1 /\ f_values f2 = f_values f1 /\ f_cons f2 = f_cons f1 /\
     f_serial f2 = f_serial f1 /\ f_page_size f2 = f_page_size f1 /\ f_paging f2 = f_paging f1 /\
     f_ts f2 = f_ts f1) /\
    k_st k = CS_done (outcome_of (k_ext k) (cp_cached (k_ext k) (xa_use_cached a) m2) r).
Proof.
  intros HR k s Hx Hr. pose proof (reach_call_ok _ _ _ HR c) as H. unfold call_ok in H.
  fold k in H. rewrite Hx in H. rewrite Hr in H.
  inversion H; subst. exists m, m2. cbv zeta. split; [reflexivity|]. split; [|reflexivity].
  simpl. tauto.
Qed.

(* the answer to a first EXECUTE that is not UNPREPARED is turned into the caller's result by
   the same function: "the normal result" *)
Lemma direct ST init st c a r :
  greach ST init st ->
  let k := g_calls st c in
  k_x k = Some a -> k_rcvd k = [r] -> is_unprepared r = false ->
  exists m, k_sent k = [(Q_execute (mk_exec_frame (ST (xa_stmt a)) (k_ext k) a m), Some m)] /\
            k_st k = CS_done (outcome_of (k_ext k) (cp_cached (k_ext k) (xa_use_cached a) m) r).
Proof.
  intros HR k Hx Hr Hu. pose proof (reach_call_ok _ _ _ HR c) as H. unfold call_ok in H.
  fold k in H. rewrite Hx, Hr in H. inversion H; subst.
  - exists m. split; reflexivity.
  - discriminate.
Qed.

(* a finished call never moves again *)
Lemma done_final ST st l st' c o :
  gstep ST st l = Some st' -> k_st (g_calls st c) = CS_done o -> g_calls st' c = g_calls st c.
Proof.
  intros Hs Hd. destruct l as [c0 ext a|c0 ext b|c0 r|c0]; simpl in Hs.
  - destruct (k_st (g_calls st c0)) eqn:E; try discriminate. inversion Hs; subst; simpl.
    destruct (Nat.eq_dec c c0) as [->|N]; [congruence|now rewrite upd_other].
  - destruct (k_st (g_calls st c0)) eqn:E; try discriminate. inversion Hs; subst; simpl.
    destruct (Nat.eq_dec c c0) as [->|N]; [congruence|now rewrite upd_other].
  - destruct (call_recv ST (k_ext (g_calls st c0)) (g_cells st) (k_st (g_calls st c0)) r)
      as [[[sto cs] oq]|] eqn:E; [|discriminate].
    destruct (apply_store st sto) as [cells ann]. inversion Hs; subst; simpl.
    destruct (Nat.eq_dec c c0) as [->|N]; [|now rewrite upd_other].
    rewrite Hd in E. discriminate.
  - destruct (call_tick ST (k_ext (g_calls st c0)) (g_cells st) (k_st (g_calls st c0)))
      as [[cs q]|] eqn:E; [|discriminate].
    inversion Hs; subst; simpl.
    destruct (Nat.eq_dec c c0) as [->|N]; [|now rewrite upd_other].
    rewrite Hd in E. discriminate.
Qed.

Lemma done_final_run ST ls : forall st st' c o,
  grun ST st ls = Some st' -> k_st (g_calls st c) = CS_done o -> g_calls st' c = g_calls st c.
Proof.
  induction ls as [|l r IH]; intros st st' c o Hr Hd; simpl in Hr.
  - now inversion Hr.
  - destruct (gstep ST st l) as [s1|] eqn:E; [|discriminate].
    pose proof (done_final _ _ _ _ _ _ E Hd) as H1.
    rewrite <- H1. eapply IH; [eassumption|]. rewrite H1. eassumption.
Qed.

(* C14_id_changed: the PREPARED answer of the re-preparation carries another id => the caller gets
   RepreparedIdChanged and, whatever happens later, the call has sent exactly EXECUTE, PREPARE *)
Lemma id_changed ST init st c a i id pm :
  greach ST init st ->
  let k := g_calls st c in
  let s := ST (xa_stmt a) in
  k_x k = Some a ->
  k_rcvd k = [RPrepared id pm; RUnprepared i] -> id <> s_id s ->
  k_st k = CS_done (O_err E_IdChanged) /\
  forall ls st', grun ST st ls = Some st' ->
    exists m, k_sent (g_calls st' c) =
      [(Q_prepare (s_text s), None); (Q_execute (mk_exec_frame s (k_ext k) a m), Some m)].
Proof.
  intros HR k s Hx Hr Hne. pose proof (reach_call_ok _ _ _ HR c) as H. unfold call_ok in H.
  fold k in H. rewrite Hx, Hr in H.
  assert (Hd : k_st k = CS_done (O_err E_IdChanged) /\
               exists m, k_sent k = [(Q_prepare (s_text s), None); (Q_execute (mk_exec_frame s (k_ext k) a m), Some m)]).
  { inversion H; subst.
    - apply bytes_eqb_neq in Hne.
      match goal with HH : prep_fail_outcome _ _ = Some _ |- _ =>
        simpl in HH; fold s in HH; rewrite Hne in HH; inversion HH; subst end.
      split; [reflexivity|]. exists m. reflexivity.
    - exfalso. apply Hne. reflexivity.
    - exfalso. apply Hne. reflexivity. }
  destruct Hd as [Hd [m Hm]]. split; [assumption|].
  intros ls st' Hrun. exists m.
  rewrite (done_final_run _ _ _ _ _ _ Hrun Hd). exact Hm.
Qed.

(* the same for the batch loop *)
Lemma batch_log_frames ST ext b sent rcvd cs :
  batch_log ST ext b sent rcvd cs ->
  forall q om, In (q, om) sent ->
    om = None /\ (q = Q_batch (mk_batch_frame ST b) \/
                  exists p id, q = Q_prepare (s_text (ST p)) /\ find_prepared ST (ba_items b) id = Some p).
Proof.
  induction 1; intros q om HI.
  - destruct HI as [E|[]]. inversion E; subst. split; [reflexivity|now left].
  - destruct HI as [E|HI]; [|now apply IHbatch_log].
    inversion E; subst. split; [reflexivity|]. right. eauto.
  - destruct HI as [E|HI]; [|now apply IHbatch_log].
    inversion E; subst. split; [reflexivity|now left].
  - now apply IHbatch_log.
  - now apply IHbatch_log.
Qed.

Lemma batch_id_changed_log ST ext b sent rcvd cs id pm rest :
  batch_log ST ext b sent rcvd cs -> rcvd = RPrepared id pm :: rest ->
  (exists p sent', cs = CS_batch b /\ id = s_id (ST p) /\
                   sent = (Q_batch (mk_batch_frame ST b), None) :: sent') \/
  (cs = CS_done (O_err E_IdChanged) /\ exists p rest', sent = (Q_prepare (s_text (ST p)), None) :: rest' /\ id <> s_id (ST p)) \/
  (cs = CS_done O_norows).
Proof.
  intros HL E. destruct HL as [|sent rcvd id0 p HL FP|sent rcvd p pm0 HL|sent rcvd r o HL HF|sent rcvd p r o HL HF];
    try discriminate.
  - inversion E; subst. left. eauto.
  - inversion E; subst. simpl in HF. inversion HF; subst. right; right; reflexivity.
  - inversion E; subst. simpl in HF.
    destruct (bytes_eqb id (s_id (ST p))) eqn:EE; [discriminate|]. inversion HF; subst.
    right; left. split; [reflexivity|].
    assert (exists rest', sent = (Q_prepare (s_text (ST p)), None) :: rest') as [rest' ->].
    { inversion HL; subst. eauto. }
    exists p, rest'. split; [reflexivity|]. now apply bytes_eqb_neq.
Qed.

(* C14_never_skip_with_empty + the shape of every EXECUTE ever sent *)
Lemma exec_log_frames ST ext a sent rcvd cs :
  exec_log ST ext a sent rcvd cs ->
  forall q om, In (q, om) sent ->
    (q = Q_prepare (s_text (ST (xa_stmt a))) /\ om = None) \/
    exists m, om = Some m /\ q = Q_execute (mk_exec_frame (ST (xa_stmt a)) ext a m).
Proof.
  intros HL q om HI.
  inversion HL; subst; simpl in HI;
    repeat (destruct HI as [HI|HI]; [inversion HI; subst; eauto|]); try contradiction.
Qed.

Lemma cp_skip_nonempty ext uc m : cp_skip ext uc m = true -> m_count m <> 0.
Proof. unfold cp_skip. destruct (m_count m =? 0) eqn:E; [discriminate|]. intros _. now apply N.eqb_neq. Qed.

Lemma never_skip_with_empty ST init st c f om :
  greach ST init st ->
  In (Q_execute f, om) (k_sent (g_calls st c)) ->
  exists a m, k_x (g_calls st c) = Some a /\ om = Some m /\
              f = mk_exec_frame (ST (xa_stmt a)) (k_ext (g_calls st c)) a m /\
              (f_skip f = true -> m_count m <> 0 /\
                                  cp_cached (k_ext (g_calls st c)) (xa_use_cached a) m = Some m) /\
              (f_skip f = false -> cp_cached (k_ext (g_calls st c)) (xa_use_cached a) m = None).
Proof.
  intros HR HI. pose proof (reach_call_ok _ _ _ HR c) as H. unfold call_ok in H.
  destruct (k_x (g_calls st c)) as [a|] eqn:Hx.
  - destruct (exec_log_frames _ _ _ _ _ _ H _ _ HI) as [[E _]|[m [-> E]]]; [discriminate|].
    inversion E; subst. exists a, m. split; [reflexivity|]. split; [reflexivity|]. split; [reflexivity|].
    simpl. split; intros Hsk.
    + split; [now apply cp_skip_nonempty in Hsk|]. unfold cp_cached. now rewrite Hsk.
    + unfold cp_cached. now rewrite Hsk.
  - destruct H as [Hi|[b Hb]].
    + rewrite Hi in HI. destruct HI.
    + destruct (batch_log_frames _ _ _ _ _ _ Hb _ _ HI) as [_ [E|[p [id [E _]]]]]; discriminate.
Qed.

(* ---------------------------------------------------------------------------------- *)
(* the cell: always the most recently stored announcement; every stored value was        *)
(* announced by the server together with a metadata id; snapshots are cell values        *)
(* ---------------------------------------------------------------------------------- *)

(* the response carries result metadata m together with a metadata id *)
Definition carries (r : resp) (m : meta) : Prop :=
  (exists id, r = RPrepared id m) \/
  (exists b i cols, r = RRows b /\ rb_meta b = RM_full (Some i) cols /\ m = meta_of_cols (Some i) cols).

Definition concerns (k : crec) (s : nat) : Prop :=
  match k_x k with Some a => xa_stmt a = s | None => True end.

(* m is the metadata the statement was created with, or some call about s received it *)
Definition announced (init : nat -> meta) (st : gstate) (s : nat) (m : meta) : Prop :=
  m = init s \/ exists c r, In r (k_rcvd (g_calls st c)) /\ carries r m /\ concerns (g_calls st c) s.

Record cell_inv (init : nat -> meta) (st : gstate) : Prop := {
  ci_head : forall s, g_cells st s = hd (init s) (g_ann st s);
  ci_ann : forall s m, In m (g_ann st s) -> m_id m <> None /\ announced init st s m;
  ci_snap : forall c a q m, k_x (g_calls st c) = Some a -> In (q, Some m) (k_sent (g_calls st c)) ->
              m = init (xa_stmt a) \/ In m (g_ann st (xa_stmt a))
}.

Lemma handle_new_id_some cur u m : handle_new_id cur u = Some m -> m = u /\ m_id u <> None.
Proof.
  unfold handle_new_id. destruct (m_id u) eqn:E; [|discriminate].
  destruct (_ || _); [|discriminate]. intros H; inversion H; subst. split; [reflexivity|]. congruence.
Qed.

Lemma reprepare_update_some cur u m : reprepare_update cur u = Some m -> m = u /\ m_id u <> None.
Proof.
  unfold reprepare_update. destruct (m_id u) eqn:E; [|discriminate].
  destruct (negb _); [discriminate|]. destruct (negb _); [|discriminate].
  intros H; inversion H; subst. split; [reflexivity|]. congruence.
Qed.

(* only metadata that arrived WITH the response is ever stored *)
Lemma exec_store_carries ext cached cur r m :
  exec_store ext cached cur r = Some m -> m_id m <> None /\ carries r m.
Proof.
  destruct r; simpl; try discriminate.
  destruct (rb_meta b) as [n|nid cols] eqn:EM; [discriminate|].
  destruct (used_meta ext cached b) as [u|e] eqn:E; [|discriminate].
  intros H. apply handle_new_id_some in H. destruct H as [-> Hid]. split; [assumption|].
  unfold used_meta in E. rewrite EM in E. destruct nid as [i|].
  - destruct ext; inversion E; subst. right. exists b, i, cols. auto.
  - inversion E; subst. simpl in Hid. congruence.
Qed.

Lemma exec_store_some ext cached cur r m :
  exec_store ext cached cur r = Some m ->
  m_id m <> None /\ (carries r m \/ cached = Some m).
Proof. intros H. destruct (exec_store_carries _ _ _ _ _ H). auto. Qed.

(* where a store made by [call_recv] comes from *)
Lemma recv_store ST ext cells cs r s u cs' oq :
  call_recv ST ext cells cs r = Some (Some (s, u), cs', oq) ->
  m_id u <> None /\
  (carries r u \/ exists a, s = xa_stmt a /\ (cs = CS_exec1 a u \/ cs = CS_exec2 a u)) /\
  (forall a, (exists m, cs = CS_exec1 a m) \/ cs = CS_prep a \/ (exists m, cs = CS_exec2 a m) -> s = xa_stmt a).
Proof.
  intros H. destruct cs; simpl in H; try discriminate.
  - (* exec1 *)
    destruct (resp_parse_fails _ _ r); [discriminate|].
    assert (HS : option_map (fun m => (xa_stmt a, m)) (exec_store ext (cp_cached ext (xa_use_cached a) snap) (cells (xa_stmt a)) r) = Some (s, u)).
    { destruct r; inversion H; reflexivity. }
    destruct (exec_store _ _ _ r) as [m|] eqn:ES; [|discriminate]. inversion HS; subst.
    apply exec_store_some in ES. destruct ES as [Hid [Hc|Hc]].
    + split; [assumption|]. split; [now left|].
      intros a0 [[m' E]|[E|[m' E]]]; inversion E; reflexivity.
    + split; [assumption|]. split.
      * right. exists a. split; [reflexivity|]. left. unfold cp_cached in Hc.
        destruct (cp_skip _ _ _); inversion Hc; reflexivity.
      * intros a0 [[m E]|[E|[m E]]]; inversion E; reflexivity.
  - (* prep *)
    destruct r; try discriminate.
    destruct (negb _); [discriminate|]. inversion H; subst.
    destruct (reprepare_update (cells (xa_stmt a)) m) as [m'|] eqn:RU; [|discriminate].
    match goal with HH : option_map _ _ = Some _ |- _ => simpl in HH; inversion HH; subst end.
    apply reprepare_update_some in RU. destruct RU as [-> Hid].
    split; [assumption|]. split; [left; left; eauto|].
    intros a0 [[m' E]|[E|[m' E]]]; inversion E; reflexivity.
  - (* exec2 *)
    destruct (resp_parse_fails _ _ r); [discriminate|]. inversion H; subst.
    destruct (exec_store _ _ _ r) as [m|] eqn:ES; [|discriminate].
    match goal with HH : option_map _ _ = Some _ |- _ => simpl in HH; inversion HH; subst end.
    apply exec_store_some in ES. destruct ES as [Hid [Hc|Hc]].
    + split; [assumption|]. split; [now left|].
      intros a0 [[m E]|[E|[m E]]]; inversion E; reflexivity.
    + split; [assumption|]. split.
      * right. exists a. split; [reflexivity|]. right. unfold cp_cached in Hc.
        destruct (cp_skip _ _ _); inversion Hc; reflexivity.
      * intros a0 [[m E]|[E|[m E]]]; inversion E; reflexivity.
  - (* batch *)
    destruct r; try discriminate.
    destruct (find_prepared _ _ _); discriminate.
  - (* bprep *)
    destruct r; try discriminate.
    destruct (negb _); [discriminate|]. inversion H; subst.
    destruct (reprepare_update (cells p) m) as [m'|] eqn:RU; [|discriminate].
    match goal with HH : option_map _ _ = Some _ |- _ => simpl in HH; inversion HH; subst end.
    apply reprepare_update_some in RU. destruct RU as [-> Hid].
    split; [assumption|]. split; [left; left; eauto|].
    intros a0 [[m' E]|[E|[m' E]]]; discriminate.
Qed.

(* a response delivered by [call_recv] never makes the call send an EXECUTE *)
Lemma recv_no_snap ST ext cells cs r sto cs' oq :
  call_recv ST ext cells cs r = Some (sto, cs', oq) -> snap_of cs' = None.
Proof.
  intros H. destruct cs; simpl in H; try discriminate.
  - destruct (resp_parse_fails _ _ r); [inversion H; reflexivity|]. destruct r; inversion H; reflexivity.
  - destruct r; try (inversion H; reflexivity). destruct (negb _); inversion H; reflexivity.
  - destruct (resp_parse_fails _ _ r); inversion H; reflexivity.
  - destruct r; try (inversion H; reflexivity). destruct (find_prepared _ _ _); inversion H; reflexivity.
  - destruct r; try (inversion H; reflexivity). destruct (negb _); inversion H; reflexivity.
Qed.

Lemma exec_log_snap_in_sent ST ext a sent rcvd cs m :
  exec_log ST ext a sent rcvd cs -> snap_of cs = Some m -> exists q, In (q, Some m) sent.
Proof.
  intros HL HS. inversion HL; subst; simpl in HS; try discriminate; inversion HS; subst; eexists; simpl; eauto.
Qed.

Lemma idle_is_idle_call ST k : call_ok ST k -> k_st k = CS_idle -> k = idle_call.
Proof.
  unfold call_ok. intros H E. destruct (k_x k) as [a|].
  - exfalso. eapply exec_log_not_idle; eassumption.
  - destruct H as [H|[b H]]; [assumption|]. exfalso. eapply batch_log_not_idle; eassumption.
Qed.

(* announcements are never forgotten *)
Lemma announced_mono ST init st l st' s m :
  (forall c, call_ok ST (g_calls st c)) -> gstep ST st l = Some st' ->
  announced init st s m -> announced init st' s m.
Proof.
  intros HK Hs [E|[c [r [HI [HC HA]]]]]; [now left|]. right.
  assert (G : In r (k_rcvd (g_calls st' c)) /\ concerns (g_calls st' c) s); [|exists c, r; tauto].
  destruct l as [c0 ext a|c0 ext b|c0 r0|c0]; simpl in Hs.
  - destruct (k_st (g_calls st c0)) eqn:E; try discriminate. inversion Hs; subst; simpl.
    destruct (Nat.eq_dec c c0) as [->|N]; [|rewrite upd_other by assumption; tauto].
    rewrite (idle_is_idle_call _ _ (HK c0) E) in HI. destruct HI.
  - destruct (k_st (g_calls st c0)) eqn:E; try discriminate. inversion Hs; subst; simpl.
    destruct (Nat.eq_dec c c0) as [->|N]; [|rewrite upd_other by assumption; tauto].
    rewrite (idle_is_idle_call _ _ (HK c0) E) in HI. destruct HI.
  - destruct (call_recv ST (k_ext (g_calls st c0)) (g_cells st) (k_st (g_calls st c0)) r0)
      as [[[sto cs] oq]|] eqn:E; [|discriminate].
    destruct (apply_store st sto) as [cells ann]. inversion Hs; subst; simpl.
    destruct (Nat.eq_dec c c0) as [->|N]; [|rewrite upd_other by assumption; tauto].
    rewrite upd_same. simpl. split; [now right|]. exact HA.
  - destruct (call_tick ST (k_ext (g_calls st c0)) (g_cells st) (k_st (g_calls st c0)))
      as [[cs q]|] eqn:E; [|discriminate].
    inversion Hs; subst; simpl.
    destruct (Nat.eq_dec c c0) as [->|N]; [|rewrite upd_other by assumption; tauto].
    rewrite upd_same. simpl. tauto.
Qed.

Lemma hd_in_or {A} (d : A) l : hd d l = d \/ In (hd d l) l.
Proof. destruct l; simpl; auto. Qed.

Lemma gstep_cell_inv ST init st l st' :
  (forall c, call_ok ST (g_calls st c)) -> cell_inv init st -> gstep ST st l = Some st' -> cell_inv init st'.
Proof.
  intros HK [HB HA HC] Hs.
  pose proof (fun s m => announced_mono ST init st l st' s m HK Hs) as MONO.
  destruct l as [c0 ext a|c0 ext b|c0 r|c0]; simpl in Hs.
  - (* start exec *)
    destruct (k_st (g_calls st c0)) eqn:E; try discriminate. inversion Hs; subst; simpl in *.
    constructor; simpl; [exact HB| |].
    + intros s m HI. destruct (HA s m HI). split; [assumption|]. now apply MONO.
    + intros c a0 q m. destruct (Nat.eq_dec c c0) as [->|N].
      * rewrite upd_same. simpl. intros Ha [EE|[]]. inversion Ha; subst. inversion EE; subst.
        rewrite HB. apply hd_in_or.
      * rewrite upd_other by assumption. apply HC.
  - (* start batch *)
    destruct (k_st (g_calls st c0)) eqn:E; try discriminate. inversion Hs; subst; simpl in *.
    constructor; simpl; [exact HB| |].
    + intros s m HI. destruct (HA s m HI). split; [assumption|]. now apply MONO.
    + intros c a0 q m. destruct (Nat.eq_dec c c0) as [->|N].
      * rewrite upd_same. simpl. discriminate.
      * rewrite upd_other by assumption. apply HC.
  - (* response *)
    destruct (call_recv ST (k_ext (g_calls st c0)) (g_cells st) (k_st (g_calls st c0)) r)
      as [[[sto cs] oq]|] eqn:E; [|discriminate].
    pose proof (recv_no_snap _ _ _ _ _ _ _ _ E) as NS.
    destruct sto as [[s u]|]; simpl in Hs; inversion Hs; subst; clear Hs; simpl in *.
    + (* with a store *)
      destruct (recv_store _ _ _ _ _ _ _ _ _ E) as [Hid [Hsrc Hst]].
      assert (ANN : announced init
                 {| g_cells := upd (g_cells st) s u;
                    g_calls := upd (g_calls st) c0
                        {| k_ext := k_ext (g_calls st c0); k_x := k_x (g_calls st c0); k_st := cs;
                           k_sent := match oq with Some q => (q, snap_of cs) :: k_sent (g_calls st c0) | None => k_sent (g_calls st c0) end;
                           k_rcvd := r :: k_rcvd (g_calls st c0) |};
                    g_ann := upd (g_ann st) s (u :: g_ann st s) |} s u).
      { destruct Hsrc as [Hc|[a [-> Hcs]]].
        - right. exists c0, r. simpl. rewrite upd_same. simpl. split; [now left|]. split; [assumption|].
          unfold concerns; simpl. pose proof (HK c0) as K0. unfold call_ok in K0.
          destruct (k_x (g_calls st c0)) as [a|] eqn:Hx; [|exact I].
          symmetry. apply Hst. inversion K0; subst;
            match goal with HH : _ = k_st (g_calls st c0) |- _ => rewrite <- HH in E; simpl in E end;
            try discriminate; eauto.
        - (* the cached snapshot is stored back *)
          pose proof (HK c0) as K0. unfold call_ok in K0.
          destruct (k_x (g_calls st c0)) as [a0|] eqn:Hx.
          + assert (a0 = a) as ->.
            { inversion K0; subst;
                match goal with HH : _ = k_st (g_calls st c0) |- _ => rewrite <- HH in Hcs end;
                destruct Hcs as [Hcs|Hcs]; inversion Hcs; reflexivity. }
            assert (SN : snap_of (k_st (g_calls st c0)) = Some u) by (destruct Hcs as [-> | ->]; reflexivity).
            destruct (exec_log_snap_in_sent _ _ _ _ _ _ _ K0 SN) as [q HI].
            destruct (HC c0 a q u Hx HI) as [EE|HI2]; [now left|].
            apply MONO. now apply HA.
          + destruct K0 as [K0|[b K0]].
            * rewrite K0 in Hcs. simpl in Hcs. destruct Hcs; discriminate.
            * inversion K0; subst;
                match goal with HH : _ = k_st (g_calls st c0) |- _ => rewrite <- HH in Hcs end;
                destruct Hcs; discriminate. }
      constructor; simpl.
      * intros s'. unfold upd. destruct (Nat.eqb s' s) eqn:EE; [reflexivity|apply HB].
      * intros s' m. unfold upd at 1. destruct (Nat.eqb s' s) eqn:EE.
        -- apply Nat.eqb_eq in EE. subst s'. intros [<-|HI].
           ++ split; assumption.
           ++ destruct (HA s m HI). split; [assumption|]. now apply MONO.
        -- intros HI. destruct (HA s' m HI). split; [assumption|]. now apply MONO.
      * intros c a q m. destruct (Nat.eq_dec c c0) as [->|N].
        -- rewrite upd_same. simpl. intros Hx HI.
           assert (HI' : In (q, Some m) (k_sent (g_calls st c0))).
           { destruct oq as [q0|]; [|assumption]. destruct HI as [EE|HI]; [|assumption].
             rewrite NS in EE. discriminate. }
           destruct (HC c0 a q m Hx HI') as [EE|HI2]; [now left|]. right.
           unfold upd. destruct (Nat.eqb (xa_stmt a) s) eqn:EQS; [|assumption].
           apply Nat.eqb_eq in EQS. rewrite <- EQS. now right.
        -- rewrite upd_other by assumption. intros Hx HI.
           destruct (HC c a q m Hx HI) as [EE|HI2]; [now left|]. right.
           unfold upd. destruct (Nat.eqb (xa_stmt a) s) eqn:EQS; [|assumption].
           apply Nat.eqb_eq in EQS. rewrite <- EQS. now right.
    + (* without a store *)
      constructor; simpl; [exact HB| |].
      * intros s m HI. destruct (HA s m HI). split; [assumption|]. now apply MONO.
      * intros c a q m. destruct (Nat.eq_dec c c0) as [->|N].
        -- rewrite upd_same. simpl. intros Hx HI. apply (HC c0 a q m Hx).
           destruct oq as [q0|]; [|assumption]. destruct HI as [EE|HI]; [|assumption].
           rewrite NS in EE. discriminate.
        -- rewrite upd_other by assumption. apply HC.
  - (* tick *)
    destruct (call_tick ST (k_ext (g_calls st c0)) (g_cells st) (k_st (g_calls st c0)))
      as [[cs q]|] eqn:E; [|discriminate].
    inversion Hs; subst; clear Hs; simpl in *.
    constructor; simpl; [exact HB| |].
    + intros s m HI. destruct (HA s m HI). split; [assumption|]. now apply MONO.
    + intros c a q0 m. destruct (Nat.eq_dec c c0) as [->|N].
      * rewrite upd_same. simpl. intros Hx [EE|HI]; [|now apply (HC c0 a q0 m Hx)].
        destruct (k_st (g_calls st c0)) eqn:ECS; simpl in E; try discriminate.
        inversion E; subst. simpl in EE. inversion EE; subst.
        pose proof (HK c0) as K0. unfold call_ok in K0. rewrite Hx in K0.
        assert (a0 = a) as ->.
        { inversion K0; subst; match goal with HH : _ = k_st (g_calls st c0) |- _ => rewrite <- HH in ECS end;
            inversion ECS; reflexivity. }
        rewrite HB. apply hd_in_or.
      * rewrite upd_other by assumption. apply HC.
Qed.

Lemma reach_cell_inv ST init st : greach ST init st -> cell_inv init st.
Proof.
  revert st. apply (greach_ind ST init (cell_inv init)).
  - constructor; simpl; [reflexivity| |].
    + intros s m [].
    + intros c a q m. discriminate.
  - intros st l st' HR IH Hs. eapply gstep_cell_inv; try eassumption.
    now apply (reach_call_ok ST init).
Qed.

(* ---------------------------------------------------------------------------------- *)
(* C14_next_id: every EXECUTE is built from the cell as it is when the frame is sent     *)
(* ---------------------------------------------------------------------------------- *)

Lemma recv_no_exec ST ext cells cs r sto cs' q f :
  call_recv ST ext cells cs r = Some (sto, cs', Some q) -> q <> Q_execute f.
Proof.
  intros H. destruct cs; simpl in H; try discriminate.
  - destruct (resp_parse_fails _ _ r); [discriminate|]. destruct r; inversion H; discriminate.
  - destruct r; try discriminate. destruct (negb _); discriminate.
  - destruct (resp_parse_fails _ _ r); discriminate.
  - destruct r; try discriminate. destruct (find_prepared _ _ _); inversion H; discriminate.
  - destruct r; try discriminate. destruct (negb _); inversion H; discriminate.
Qed.

Lemma list_neq_cons {A} (x : A) l : l <> x :: l.
Proof. intros E. apply (f_equal (@List.length A)) in E. simpl in E. lia. Qed.

Lemma next_id ST init st l st' c f om :
  greach ST init st -> gstep ST st l = Some st' ->
  k_sent (g_calls st' c) = (Q_execute f, om) :: k_sent (g_calls st c) ->
  exists a, k_x (g_calls st' c) = Some a /\
    let s := xa_stmt a in
    let cur := hd (init s) (g_ann st' s) in
    g_cells st' s = cur /\ om = Some cur /\
    f = mk_exec_frame (ST s) (k_ext (g_calls st' c)) a cur.
Proof.
  intros HR Hs Hsent.
  pose proof (reach_cell_inv _ _ _ (greach_step _ _ _ _ _ HR Hs)) as [HB' _ _].
  pose proof (reach_call_ok _ _ _ HR) as HK.
  destruct l as [c0 ext a|c0 ext b|c0 r|c0]; simpl in Hs.
  - destruct (k_st (g_calls st c0)) eqn:E; try discriminate. inversion Hs; subst; simpl in *.
    destruct (Nat.eq_dec c c0) as [->|N].
    + rewrite upd_same in *. simpl in *. inversion Hsent; subst. exists a. split; [reflexivity|].
      cbv zeta. rewrite <- HB'. simpl. auto.
    + rewrite upd_other in Hsent by assumption. exfalso. eapply list_neq_cons. eassumption.
  - destruct (k_st (g_calls st c0)) eqn:E; try discriminate. inversion Hs; subst; simpl in *.
    destruct (Nat.eq_dec c c0) as [->|N].
    + rewrite upd_same in *. simpl in *. discriminate.
    + rewrite upd_other in Hsent by assumption. exfalso. eapply list_neq_cons. eassumption.
  - destruct (call_recv ST (k_ext (g_calls st c0)) (g_cells st) (k_st (g_calls st c0)) r)
      as [[[sto cs] oq]|] eqn:E; [|discriminate].
    destruct (apply_store st sto) as [cells ann]. inversion Hs; subst; simpl in *.
    destruct (Nat.eq_dec c c0) as [->|N].
    + rewrite upd_same in *. simpl in *. destruct oq as [q|].
      * inversion Hsent; subst. exfalso. eapply recv_no_exec; [eassumption|reflexivity].
      * exfalso. eapply list_neq_cons. eassumption.
    + rewrite upd_other in Hsent by assumption. exfalso. eapply list_neq_cons. eassumption.
  - destruct (call_tick ST (k_ext (g_calls st c0)) (g_cells st) (k_st (g_calls st c0)))
      as [[cs q]|] eqn:E; [|discriminate].
    inversion Hs; subst; simpl in *.
    destruct (Nat.eq_dec c c0) as [->|N].
    + rewrite upd_same in *. simpl in *. inversion Hsent; subst.
      destruct (k_st (g_calls st c0)) eqn:ECS; simpl in E; try discriminate. inversion E; subst.
      pose proof (HK c0) as K0. unfold call_ok in K0.
      destruct (k_x (g_calls st c0)) as [a0|] eqn:Hx.
      * assert (a0 = a) as ->.
        { inversion K0; subst; match goal with HH : _ = k_st (g_calls st c0) |- _ => rewrite <- HH in ECS end;
            inversion ECS; reflexivity. }
        exists a. split; [reflexivity|]. cbv zeta. rewrite <- HB'. simpl. auto.
      * destruct K0 as [K0|[b K0]].
        -- rewrite K0 in ECS. discriminate.
        -- inversion K0; subst; match goal with HH : _ = k_st (g_calls st c0) |- _ => rewrite <- HH in ECS end;
             discriminate.
    + rewrite upd_other in Hsent by assumption. exfalso. eapply list_neq_cons. eassumption.
Qed.

(* what an EXECUTE built from metadata that has columns and an id presents on a connection
   with the extension *)
Lemma frame_presents_id st a m y :
  m_count m <> 0 -> m_id m = Some y ->
  f_rmid (mk_exec_frame st true a m) = Some y /\ f_skip (mk_exec_frame st true a m) = true.
Proof.
  intros Hc Hy. unfold mk_exec_frame; simpl. unfold cp_rmid, cp_cached, cp_skip.
  apply N.eqb_neq in Hc. rewrite Hc. rewrite orb_true_r. now rewrite Hy.
Qed.

(* without the extension no id is ever sent *)
Lemma frame_no_ext st a m : f_rmid (mk_exec_frame st false a m) = None.
Proof. unfold mk_exec_frame; simpl. unfold cp_rmid. destruct (cp_cached _ _ _); reflexivity. Qed.

(* ---------------------------------------------------------------------------------- *)
(* C14_decode_meta                                                                       *)
(* ---------------------------------------------------------------------------------- *)

Lemma outcome_rows ext cached r u pg nr cl :
  outcome_of ext cached r = O_rows u pg nr cl ->
  exists b, r = RRows b /\ used_meta ext cached b = Ok u /\ pg = rb_paging b /\ nr = rb_nrows b /\ cl = rb_cells b.
Proof.
  destruct r; simpl; try discriminate.
  destruct (used_meta ext cached b) eqn:E; [|discriminate].
  intros H; inversion H; subst. exists b. auto.
Qed.

Lemma decode_meta ST init st c a used pg nr cl :
  greach ST init st ->
  let k := g_calls st c in
  let s := xa_stmt a in
  k_x k = Some a -> k_st k = CS_done (O_rows used pg nr cl) ->
  exists m b rest_sent rest_rcvd,
    let f := mk_exec_frame (ST s) (k_ext k) a m in
    k_sent k = (Q_execute f, Some m) :: rest_sent /\ k_rcvd k = RRows b :: rest_rcvd /\
    pg = rb_paging b /\ nr = rb_nrows b /\ cl = rb_cells b /\
    (m = init s \/ In m (g_ann st s)) /\
    match rb_meta b with
    | RM_full nid cols => used = meta_of_cols nid cols
    | RM_none _ => if f_skip f then used = m /\ m_count m <> 0 else used = mock_empty
    end.
Proof.
  intros HR k s Hx Hd.
  pose proof (reach_call_ok _ _ _ HR c) as H. unfold call_ok in H. fold k in H. rewrite Hx in H.
  pose proof (reach_cell_inv _ _ _ HR) as [_ _ HC].
  assert (G : exists m r rs rr, k_sent k = (Q_execute (mk_exec_frame (ST s) (k_ext k) a m), Some m) :: rs /\
                                k_rcvd k = r :: rr /\
                                outcome_of (k_ext k) (cp_cached (k_ext k) (xa_use_cached a) m) r = O_rows used pg nr cl).
  { rewrite Hd in H. inversion H; subst.
    - exists m, r. eauto.
    - match goal with HH : prep_fail_outcome _ _ = Some _ |- _ => rename HH into PF end.
      destruct r; simpl in PF; try (inversion PF; fail).
      destruct (bytes_eqb id (s_id (ST (xa_stmt a)))); inversion PF.
    - exists m2, r. eauto. }
  destruct G as [m [r [rs [rr [Hs [Hr Ho]]]]]].
  destruct (outcome_rows _ _ _ _ _ _ _ Ho) as [b [-> [Hu [-> [-> ->]]]]].
  exists m, b, rs, rr. cbv zeta. repeat split; try assumption.
  - apply (HC c a (Q_execute (mk_exec_frame (ST s) (k_ext k) a m)) m Hx). fold k. rewrite Hs. now left.
  - unfold used_meta in Hu. destruct (rb_meta b) as [n|nid cols].
    + simpl. unfold cp_cached in Hu. destruct (cp_skip (k_ext k) (xa_use_cached a) m) eqn:SK.
      * inversion Hu; subst. split; [reflexivity|]. now apply cp_skip_nonempty in SK.
      * now inversion Hu.
    + destruct nid as [i|]; [destruct (k_ext k)|]; now inversion Hu.
Qed.

(* ---------------------------------------------------------------------------------- *)
(* the specification system: rows are decoded with the columns the node encoded them     *)
(* with — for all histories of events, calls and interleavings                           *)
(* ---------------------------------------------------------------------------------- *)

Section Spec.
Variable D : schema.
Variable ST : nat -> stmt.
Variable ns : nat.
Variable init : nat -> meta.

(* the metadata id is a digest of the columns; ids are never empty; statement ids / texts are
   digests / the texts themselves: distinct statements have distinct ones *)
Hypothesis mid_cols : forall s v v', mid_of D s v = mid_of D s v' -> cols_of D s v = cols_of D s v'.
Hypothesis mid_nonempty : forall s v, mid_of D s v <> [].
Hypothesis ids_inj : forall s s', s_id (ST s) = s_id (ST s') -> s = s'.
Hypothesis text_inj : forall s s', s_text (ST s) = s_text (ST s') -> s = s'.

(* metadata that is safe to hold for statement s: no columns (never used for decoding), or no id
   (never confirmed by a node), or exactly what the database defines for that id *)
Definition meta_ok (s : nat) (m : meta) : Prop :=
  m_count m = 0 \/ m_id m = None \/ exists v, m_id m = Some (mid_of D s v) /\ m_cols m = cols_of D s v.

Hypothesis init_ok : forall s, meta_ok s (init s).

Definition target (cs : cstate) : option nat :=
  match cs with
  | CS_exec1 a _ | CS_prep a | CS_exec2 a _ => Some (xa_stmt a)
  | CS_bprep _ p => Some p
  | _ => None
  end.

Definition faithful_resp (ext uc : bool) (m : meta) (r : resp) (enc : list col) (p : payload) : Prop :=
  forall b u, r = RRows b -> used_meta ext (cp_cached ext uc m) b = Ok u ->
    m_cols u = enc /\ rb_paging b = p_paging p /\ rb_nrows b = p_nrows p /\ rb_cells b = p_cells p.

Definition inbox_ok (k : crec) (r : resp) (enc : list col) (p : payload) : Prop :=
  (forall m, carries r m -> exists s, target (k_st k) = Some s /\ meta_ok s m) /\
  (forall a m, k_x k = Some a -> snap_of (k_st k) = Some m ->
               (k_ext k = true \/ xa_use_cached a = false) ->
               faithful_resp (k_ext k) (xa_use_cached a) m r enc p).

Record sinv (st : sstate) : Prop := {
  si_reach : greach ST init (s_g st);
  si_cells : forall s, meta_ok s (g_cells (s_g st) s);
  si_snaps : forall c a q m, k_x (g_calls (s_g st) c) = Some a ->
               In (q, Some m) (k_sent (g_calls (s_g st) c)) -> meta_ok (xa_stmt a) m;
  si_out : forall c q, s_out st c = Some q ->
             s_inbox st c = None /\ waiting (k_st (g_calls (s_g st) c)) = true /\ last_sent (s_g st) c = Some q;
  si_inbox : forall c r enc p, s_inbox st c = Some (r, enc, p) ->
             s_out st c = None /\ waiting (k_st (g_calls (s_g st) c)) = true /\
             inbox_ok (g_calls (s_g st) c) r enc p;
  si_quiet : forall c, waiting (k_st (g_calls (s_g st) c)) = false -> s_out st c = None /\ s_inbox st c = None;
  si_ext : forall c, k_st (g_calls (s_g st) c) <> CS_idle ->
             k_ext (g_calls (s_g st) c) = n_ext (s_nodes st (s_route st c));
  si_done : forall c a u pg nr cl, k_x (g_calls (s_g st) c) = Some a ->
             k_st (g_calls (s_g st) c) = CS_done (O_rows u pg nr cl) ->
             (k_ext (g_calls (s_g st) c) = true \/ xa_use_cached a = false) ->
             exists enc p, s_enc st c = Some (enc, p) /\ m_cols u = enc /\
                           pg = p_paging p /\ nr = p_nrows p /\ cl = p_cells p
}.

Lemma stmt_of_id_sound k id s : stmt_of_id ST k id = Some s -> s_id (ST s) = id.
Proof.
  induction k as [|k IH]; simpl; [discriminate|].
  destruct (bytes_eqb (s_id (ST k)) id) eqn:E; [|exact IH].
  intros H; inversion H; subst. now apply bytes_eqb_eq.
Qed.

Lemma stmt_of_text_sound k t s : stmt_of_text ST k t = Some s -> s_text (ST s) = t.
Proof.
  induction k as [|k IH]; simpl; [discriminate|].
  destruct (N.eqb (s_text (ST k)) t) eqn:E; [|exact IH].
  intros H; inversion H; subst. now apply N.eqb_eq.
Qed.

Lemma node_answer_ext n q p n' r enc : node_answer D ST ns n q p = (n', r, enc) -> n_ext n' = n_ext n.
Proof.
  destruct q as [f|t|bf]; simpl.
  - destruct (stmt_of_id ST ns (f_id f)) as [s|]; [|intros H; now inversion H].
    destruct (negb (n_prep n s)); [intros H; now inversion H|].
    destruct (cols_of D s (n_ver n s)); [intros H; now inversion H|].
    destruct (n_ext n) eqn:EN.
    + destruct (f_rmid f); [|intros H; inversion H; subst; assumption].
      destruct (bytes_eqb _ _); intros H; inversion H; subst; assumption.
    + intros H; inversion H; subst; assumption.
  - destruct (stmt_of_text ST ns t); intros H; inversion H; reflexivity.
  - destruct (batch_unprepared ST ns n (bf_items bf)); intros H; now inversion H.
Qed.

Lemma node_event_ext n e : n_ext (node_event n e) = n_ext n.
Proof. destruct e; reflexivity. Qed.

(* what the last request of a waiting call is *)
Lemma last_sent_waiting k :
  call_ok ST k -> waiting (k_st k) = true ->
  match k_st k with
  | CS_exec1 a m | CS_exec2 a m =>
      k_x k = Some a /\ exists rest, k_sent k = (Q_execute (mk_exec_frame (ST (xa_stmt a)) (k_ext k) a m), Some m) :: rest
  | CS_prep a => k_x k = Some a /\ exists rest, k_sent k = (Q_prepare (s_text (ST (xa_stmt a))), None) :: rest
  | CS_batch b => k_x k = None /\ exists rest, k_sent k = (Q_batch (mk_batch_frame ST b), None) :: rest
  | CS_bprep b p => k_x k = None /\ exists rest, k_sent k = (Q_prepare (s_text (ST p)), None) :: rest
  | _ => False
  end.
Proof.
  unfold call_ok. intros H W. destruct (k_x k) as [a|] eqn:Hx.
  - destruct (k_st k) eqn:ECS; simpl in W; try discriminate W; inversion H; subst; simpl; eauto.
  - destruct H as [H|[b H]]; [rewrite H in W; discriminate|].
    destruct (k_st k) eqn:ECS; simpl in W; try discriminate W; inversion H; subst; simpl; eauto.
Qed.

(* the answer of a specification node is sound for the call that asked *)
Lemma node_answer_ok k n q p n' r enc :
  call_ok ST k -> waiting (k_st k) = true ->
  (exists rest om, k_sent k = (q, om) :: rest) ->
  k_ext k = n_ext n ->
  (forall a m, k_x k = Some a -> snap_of (k_st k) = Some m -> meta_ok (xa_stmt a) m) ->
  node_answer D ST ns n q p = (n', r, enc) ->
  inbox_ok k r enc p.
Proof.
  intros HK W [rest [om Hsent]] Hext Hsnap HA. unfold inbox_ok, faithful_resp.
  pose proof (last_sent_waiting k HK W) as LS.
  destruct (k_st k) as [|a m|a|a|a m|b|b pp|o] eqn:ECS; try contradiction.
  - (* exec1 *) destruct LS as [Hx [rest' Hs']]. rewrite Hs' in Hsent. inversion Hsent; subst q om rest'.
    clear Hsent. simpl in HA.
    destruct (stmt_of_id ST ns (s_id (ST (xa_stmt a)))) as [s|] eqn:SI.
    2:{ inversion HA; subst. split; [intros m0 [[id E]|[b [i [cols [E _]]]]]; discriminate|].
        intros a0 m0 _ _ _ b u E; discriminate. }
    assert (s = xa_stmt a) as -> by (apply ids_inj; now apply stmt_of_id_sound in SI).
    destruct (negb (n_prep n (xa_stmt a))).
    { inversion HA; subst. split; [intros m0 [[id E]|[b [i [cols [E _]]]]]; discriminate|].
      intros a0 m0 _ _ _ b u E; discriminate. }
    destruct (cols_of D (xa_stmt a) (n_ver n (xa_stmt a))) as [|c0 cr] eqn:EC.
    { inversion HA; subst. split; [intros m0 [[id E]|[b [i [cols [E _]]]]]; discriminate|].
      intros a0 m0 _ _ _ b u E; discriminate. }
    specialize (Hsnap a m Hx eq_refl).
    rewrite <- Hext in HA. destruct (k_ext k) eqn:EXT.
    + (* node with the extension *)
      assert (RM : cp_rmid true (xa_use_cached a) m = Some (match m_id m with Some i => i | None => [] end) \/
                   (cp_rmid true (xa_use_cached a) m = Some [] /\ cp_skip true (xa_use_cached a) m = false)).
      { unfold cp_rmid, cp_cached. destruct (cp_skip true (xa_use_cached a) m); auto. }
      destruct (cp_rmid true (xa_use_cached a) m) as [i|] eqn:ERM; [|destruct RM as [RM|[RM _]]; discriminate].
      destruct (bytes_eqb i (mid_of D (xa_stmt a) (n_ver n (xa_stmt a)))) eqn:EI.
      * apply bytes_eqb_eq in EI. subst i.
        destruct (cp_skip true (xa_use_cached a) m) eqn:SK.
        -- inversion HA; subst. split; [intros m0 [[id E]|[b [i [cols [E [E2 _]]]]]]; [discriminate|inversion E; subst; discriminate]|].
           intros a0 m0 Hx0 Hm0 _ b u E Hu. rewrite Hx in Hx0. inversion Hx0; subst a0. simpl in Hm0; inversion Hm0; subst m0.
           inversion E; subst b. simpl. unfold used_meta in Hu. simpl in Hu. unfold cp_cached in Hu. rewrite SK in Hu.
           inversion Hu; subst u. repeat split; try reflexivity.
           destruct RM as [RM|[_ RM]]; [|discriminate].
           inversion RM as [RM']. destruct (m_id m) as [i|] eqn:EID.
           ++ destruct Hsnap as [Hz|[Hn|[v [Hv Hc]]]].
              ** apply cp_skip_nonempty in SK. contradiction.
              ** congruence.
              ** rewrite Hc, <- EC. apply mid_cols. congruence.
           ++ exfalso. eapply mid_nonempty. eassumption.
        -- inversion HA; subst. split; [intros m0 [[id E]|[b [i [cols [E [E2 _]]]]]]; [discriminate|inversion E; subst; discriminate]|].
           intros a0 m0 Hx0 Hm0 _ b u E Hu. inversion E; subst b. unfold used_meta in Hu. simpl in Hu.
           inversion Hu; subst u. simpl. repeat split; reflexivity.
      * inversion HA; subst. split.
        -- intros m0 [[id E]|[b [i' [cols [E [E2 E3]]]]]]; [discriminate|]. inversion E; subst b. simpl in E2.
           inversion E2; subst. exists (xa_stmt a). split; [reflexivity|]. right; right.
           eexists. simpl. split; [reflexivity|]. now rewrite EC.
        -- intros a0 m0 Hx0 Hm0 _ b u E Hu. inversion E; subst b. unfold used_meta in Hu. simpl in Hu.
           inversion Hu; subst u. simpl. repeat split; reflexivity.
    + (* node without the extension *)
      inversion HA; subst. split.
      * intros m0 [[id E]|[b [i [cols [E [E2 _]]]]]]; [discriminate|]. inversion E; subst b. simpl in E2.
        destruct (cp_skip false (xa_use_cached a) m); discriminate.
      * intros a0 m0 Hx0 Hm0 Hf b u E Hu. rewrite Hx in Hx0. inversion Hx0; subst a0.
        destruct Hf as [Hf|Hf]; [discriminate|].
        assert (SK : cp_skip false (xa_use_cached a) m = false).
        { unfold cp_skip. rewrite Hf. destruct (m_count m =? 0); reflexivity. }
        rewrite SK in E. inversion E; subst b. unfold used_meta in Hu. simpl in Hu. inversion Hu; subst u.
        simpl. repeat split; reflexivity.
  - (* prep *) destruct LS as [Hx [rest' Hs']]. rewrite Hs' in Hsent. inversion Hsent; subst q om rest'.
    simpl in HA. destruct (stmt_of_text ST ns (s_text (ST (xa_stmt a)))) as [s|] eqn:SI.
    2:{ inversion HA; subst. split; [intros m0 [[id E]|[b [i [cols [E _]]]]]; discriminate|].
        intros a0 m0 _ Hm0; discriminate. }
    assert (s = xa_stmt a) as -> by (apply text_inj; now apply stmt_of_text_sound in SI).
    inversion HA; subst. split; [|intros a0 m0 _ Hm0; discriminate].
    intros m0 [[id E]|[b [i [cols [E _]]]]]; [|discriminate]. inversion E; subst.
    exists (xa_stmt a). split; [reflexivity|].
    destruct (late D (xa_stmt a)); [left; reflexivity|].
    destruct (n_ext n); [|right; left; reflexivity].
    right; right. eexists. simpl. split; reflexivity.
  - (* exec2 *) destruct LS as [Hx [rest' Hs']]. rewrite Hs' in Hsent. inversion Hsent; subst q om rest'.
    clear Hsent. simpl in HA.
    destruct (stmt_of_id ST ns (s_id (ST (xa_stmt a)))) as [s|] eqn:SI.
    2:{ inversion HA; subst. split; [intros m0 [[id E]|[b [i [cols [E _]]]]]; discriminate|].
        intros a0 m0 _ _ _ b u E; discriminate. }
    assert (s = xa_stmt a) as -> by (apply ids_inj; now apply stmt_of_id_sound in SI).
    destruct (negb (n_prep n (xa_stmt a))).
    { inversion HA; subst. split; [intros m0 [[id E]|[b [i [cols [E _]]]]]; discriminate|].
      intros a0 m0 _ _ _ b u E; discriminate. }
    destruct (cols_of D (xa_stmt a) (n_ver n (xa_stmt a))) as [|c0 cr] eqn:EC.
    { inversion HA; subst. split; [intros m0 [[id E]|[b [i [cols [E _]]]]]; discriminate|].
      intros a0 m0 _ _ _ b u E; discriminate. }
    specialize (Hsnap a m Hx eq_refl).
    rewrite <- Hext in HA. destruct (k_ext k) eqn:EXT.
    + assert (RM : cp_rmid true (xa_use_cached a) m = Some (match m_id m with Some i => i | None => [] end) \/
                   (cp_rmid true (xa_use_cached a) m = Some [] /\ cp_skip true (xa_use_cached a) m = false)).
      { unfold cp_rmid, cp_cached. destruct (cp_skip true (xa_use_cached a) m); auto. }
      destruct (cp_rmid true (xa_use_cached a) m) as [i|] eqn:ERM; [|destruct RM as [RM|[RM _]]; discriminate].
      destruct (bytes_eqb i (mid_of D (xa_stmt a) (n_ver n (xa_stmt a)))) eqn:EI.
      * apply bytes_eqb_eq in EI. subst i.
        destruct (cp_skip true (xa_use_cached a) m) eqn:SK.
        -- inversion HA; subst. split; [intros m0 [[id E]|[b [i [cols [E [E2 _]]]]]]; [discriminate|inversion E; subst; discriminate]|].
           intros a0 m0 Hx0 Hm0 _ b u E Hu. rewrite Hx in Hx0. inversion Hx0; subst a0. simpl in Hm0; inversion Hm0; subst m0.
           inversion E; subst b. simpl. unfold used_meta in Hu. simpl in Hu. unfold cp_cached in Hu. rewrite SK in Hu.
           inversion Hu; subst u. repeat split; try reflexivity.
           destruct RM as [RM|[_ RM]]; [|discriminate].
           inversion RM as [RM']. destruct (m_id m) as [i|] eqn:EID.
           ++ destruct Hsnap as [Hz|[Hn|[v [Hv Hc]]]].
              ** apply cp_skip_nonempty in SK. contradiction.
              ** congruence.
              ** rewrite Hc, <- EC. apply mid_cols. congruence.
           ++ exfalso. eapply mid_nonempty. eassumption.
        -- inversion HA; subst. split; [intros m0 [[id E]|[b [i [cols [E [E2 _]]]]]]; [discriminate|inversion E; subst; discriminate]|].
           intros a0 m0 Hx0 Hm0 _ b u E Hu. inversion E; subst b. unfold used_meta in Hu. simpl in Hu.
           inversion Hu; subst u. simpl. repeat split; reflexivity.
      * inversion HA; subst. split.
        -- intros m0 [[id E]|[b [i' [cols [E [E2 E3]]]]]]; [discriminate|]. inversion E; subst b. simpl in E2.
           inversion E2; subst. exists (xa_stmt a). split; [reflexivity|]. right; right.
           eexists. simpl. split; [reflexivity|]. now rewrite EC.
        -- intros a0 m0 Hx0 Hm0 _ b u E Hu. inversion E; subst b. unfold used_meta in Hu. simpl in Hu.
           inversion Hu; subst u. simpl. repeat split; reflexivity.
    + inversion HA; subst. split.
      * intros m0 [[id E]|[b [i [cols [E [E2 _]]]]]]; [discriminate|]. inversion E; subst b. simpl in E2.
        destruct (cp_skip false (xa_use_cached a) m); discriminate.
      * intros a0 m0 Hx0 Hm0 Hf b u E Hu. rewrite Hx in Hx0. inversion Hx0; subst a0.
        destruct Hf as [Hf|Hf]; [discriminate|].
        assert (SK : cp_skip false (xa_use_cached a) m = false).
        { unfold cp_skip. rewrite Hf. destruct (m_count m =? 0); reflexivity. }
        rewrite SK in E. inversion E; subst b. unfold used_meta in Hu. simpl in Hu. inversion Hu; subst u.
        simpl. repeat split; reflexivity.
  - (* batch *) destruct LS as [Hx [rest' Hs']]. rewrite Hs' in Hsent. inversion Hsent; subst q om rest'.
    simpl in HA. destruct (batch_unprepared ST ns n _); inversion HA; subst;
      (split; [intros m0 [[id E]|[bb [i [cols [E _]]]]]; discriminate | intros a0 m0 _ Hm0; discriminate]).
  - (* bprep *) destruct LS as [Hx [rest' Hs']]. rewrite Hs' in Hsent. inversion Hsent; subst q om rest'.
    simpl in HA. destruct (stmt_of_text ST ns (s_text (ST pp))) as [s|] eqn:SI.
    2:{ inversion HA; subst. split; [intros m0 [[id E]|[bb [i [cols [E _]]]]]; discriminate|].
        intros a0 m0 _ Hm0; discriminate. }
    assert (s = pp) as -> by (apply text_inj; now apply stmt_of_text_sound in SI).
    inversion HA; subst. split; [|intros a0 m0 _ Hm0; discriminate].
    intros m0 [[id E]|[bb [i [cols [E _]]]]]; [|discriminate]. inversion E; subst.
    exists pp. split; [reflexivity|].
    destruct (late D pp); [left; reflexivity|].
    destruct (n_ext n); [|right; left; reflexivity].
    right; right. eexists. simpl. split; reflexivity.
Qed.

(* ---- helper facts about one delivered response ---- *)
Lemma recv_store_target ext cells cs r s u cs' oq :
  call_recv ST ext cells cs r = Some (Some (s, u), cs', oq) -> target cs = Some s.
Proof.
  intros H. destruct cs; simpl in H; try discriminate; simpl.
  - destruct (resp_parse_fails _ _ r); [discriminate|].
    assert (HS : option_map (fun m => (xa_stmt a, m)) (exec_store ext (cp_cached ext (xa_use_cached a) snap) (cells (xa_stmt a)) r) = Some (s, u))
      by (destruct r; inversion H; reflexivity).
    destruct (exec_store _ _ _ r); inversion HS; reflexivity.
  - destruct r; try discriminate. destruct (negb _); [discriminate|]. inversion H.
    destruct (reprepare_update _ _); simpl in *; [|discriminate].
    match goal with HH : Some _ = Some _ |- _ => inversion HH; reflexivity end.
  - destruct (resp_parse_fails _ _ r); [discriminate|]. inversion H.
    destruct (exec_store _ _ _ r); simpl in *; [|discriminate].
    match goal with HH : Some _ = Some _ |- _ => inversion HH; reflexivity end.
  - destruct r; try discriminate. destruct (find_prepared _ _ _); discriminate.
  - destruct r; try discriminate. destruct (negb _); [discriminate|]. inversion H.
    destruct (reprepare_update _ _); simpl in *; [|discriminate].
    match goal with HH : Some _ = Some _ |- _ => inversion HH; reflexivity end.
Qed.

Lemma recv_sends_waiting ext cells cs r sto cs' q :
  call_recv ST ext cells cs r = Some (sto, cs', Some q) -> waiting cs' = true.
Proof.
  intros H. destruct cs; simpl in H; try discriminate.
  - destruct (resp_parse_fails _ _ r); [discriminate|]. destruct r; inversion H; reflexivity.
  - destruct r; try discriminate. destruct (negb _); discriminate.
  - destruct (resp_parse_fails _ _ r); discriminate.
  - destruct r; try discriminate. destruct (find_prepared _ _ _); inversion H; reflexivity.
  - destruct r; try discriminate. destruct (negb _); inversion H; reflexivity.
Qed.

Lemma recv_done_rows ext cells cs r sto u pg nr cl oq :
  call_recv ST ext cells cs r = Some (sto, CS_done (O_rows u pg nr cl), oq) ->
  (exists a m, (cs = CS_exec1 a m \/ cs = CS_exec2 a m) /\
               outcome_of ext (cp_cached ext (xa_use_cached a) m) r = O_rows u pg nr cl) \/
  (exists b, cs = CS_batch b).
Proof.
  intros H. destruct cs; simpl in H; try discriminate.
  - destruct (resp_parse_fails _ _ r); [inversion H|].
    left. exists a, snap. split; [now left|]. destruct r; inversion H; reflexivity.
  - destruct r; try (inversion H; fail). destruct (negb _); inversion H.
  - destruct (resp_parse_fails _ _ r); [inversion H|].
    left. exists a, snap. split; [now right|]. inversion H; reflexivity.
  - right. eauto.
  - destruct r; try (inversion H; fail). destruct (negb _); inversion H.
Qed.

Lemma waiting_not_idle cs : waiting cs = true -> cs <> CS_idle.
Proof. destruct cs; simpl; congruence. Qed.

Lemma exec_log_state_args ext a sent rcvd cs :
  exec_log ST ext a sent rcvd cs ->
  forall a' m, cs = CS_exec1 a' m \/ cs = CS_exec2 a' m -> a' = a.
Proof. intros HL a' m [E|E]; subst; inversion HL; reflexivity. Qed.

(* ---- preservation, label by label ---- *)
Lemma sinv_event st nd e st' : sinv st -> sstep D ST ns st (SL_event nd e) = Some st' -> sinv st'.
Proof.
  intros [R C S O I Q X Dn] H. simpl in H. inversion H; subst; clear H.
  constructor; simpl; try assumption.
  intros c Hc. rewrite (X c Hc). unfold upd. destruct (Nat.eqb (s_route st c) nd) eqn:E; [|reflexivity].
  apply Nat.eqb_eq in E. subst nd. now rewrite node_event_ext.
Qed.

Lemma sinv_serve st c p st' : sinv st -> sstep D ST ns st (SL_serve c p) = Some st' -> sinv st'.
Proof.
  intros [R C S O I Q X Dn] H. simpl in H.
  destruct (s_out st c) as [q|] eqn:EO; [|discriminate].
  destruct (node_answer D ST ns (s_nodes st (s_route st c)) q p) as [[n' r] enc] eqn:NA.
  inversion H; subst; clear H.
  destruct (O c q EO) as [Oi [Ow Ol]].
  pose proof (reach_call_ok _ _ _ R) as HK.
  constructor; simpl; try assumption.
  - intros c' q'. unfold upd. destruct (Nat.eqb c' c) eqn:E; [discriminate|]. apply O.
  - intros c' r' enc' p'. unfold upd at 1 2. destruct (Nat.eqb c' c) eqn:E.
    + apply Nat.eqb_eq in E. subst c'. intros HH; inversion HH; subst.
      split; [reflexivity|]. split; [assumption|].
      eapply node_answer_ok; try eassumption.
      * apply HK.
      * unfold last_sent in Ol. destruct (k_sent (g_calls (s_g st) c)) as [|[q0 om] rest]; [discriminate|].
        inversion Ol; subst. eauto.
      * apply X. now apply waiting_not_idle.
      * intros a m Hx Hm.
        pose proof (HK c) as K0. unfold call_ok in K0. rewrite Hx in K0.
        destruct (exec_log_snap_in_sent _ _ _ _ _ _ _ K0 Hm) as [q0 HI]. eapply S; eassumption.
    + apply I.
  - intros c' W. unfold upd. destruct (Nat.eqb c' c) eqn:E.
    + apply Nat.eqb_eq in E. subst c'. congruence.
    + now apply Q.
  - intros c' Hc. rewrite (X c' Hc). unfold upd.
    destruct (Nat.eqb (s_route st c') (s_route st c)) eqn:E; [|reflexivity].
    apply Nat.eqb_eq in E. rewrite E. symmetry. eapply node_answer_ext. eassumption.
Qed.

Lemma sinv_tick st c st' : sinv st -> sstep D ST ns st (SL_tick c) = Some st' -> sinv st'.
Proof.
  intros [R C S O I Q X Dn] H. simpl in H.
  destruct (call_tick ST (k_ext (g_calls (s_g st) c)) (g_cells (s_g st)) (k_st (g_calls (s_g st) c)))
    as [[cs q]|] eqn:E; [|discriminate].
  assert (HG : gstep ST (s_g st) (GL_tick c) = Some
            (mkG (g_cells (s_g st))
                 (upd (g_calls (s_g st)) c
                    (mkC (k_ext (g_calls (s_g st) c)) (k_x (g_calls (s_g st) c)) cs
                         ((q, snap_of cs) :: k_sent (g_calls (s_g st) c)) (k_rcvd (g_calls (s_g st) c))))
                 (g_ann (s_g st)))) by (simpl; now rewrite E).
  inversion H; subst; clear H.
  destruct (k_st (g_calls (s_g st) c)) eqn:ECS; simpl in E; try discriminate. inversion E; subst cs q; clear E.
  assert (NW : waiting (k_st (g_calls (s_g st) c)) = false) by now rewrite ECS.
  destruct (Q c NW) as [Qo Qi].
  pose proof (reach_call_ok _ _ _ R c) as K0. unfold call_ok in K0.
  constructor; simpl.
  - eapply greach_step; eassumption.
  - exact C.
  - intros c' a' q' m'. unfold upd. destruct (Nat.eqb c' c) eqn:E.
    + apply Nat.eqb_eq in E. subst c'. simpl. intros Hx [EE|HI]; [|eapply S; eassumption].
      inversion EE; subst. rewrite Hx in K0.
      assert (a = a') as -> by (rewrite ECS in K0; inversion K0; reflexivity). apply C.
    + apply S.
  - intros c' q'. unfold upd. destruct (Nat.eqb c' c) eqn:E.
    + apply Nat.eqb_eq in E. subst c'. unfold last_sent. simpl. rewrite Nat.eqb_refl. simpl.
      intros HH. split; [assumption|]. split; [reflexivity|assumption].
    + intros HH. destruct (O c' q' HH) as [A [B Cc]]. split; [assumption|]. split; [assumption|].
      unfold last_sent in *. simpl. unfold upd. now rewrite E.
  - intros c' r' enc' p' HH. unfold upd. destruct (Nat.eqb c' c) eqn:E.
    + apply Nat.eqb_eq in E. subst c'. congruence.
    + apply I. assumption.
  - intros c'. unfold upd. destruct (Nat.eqb c' c) eqn:E; simpl; [discriminate|apply Q].
  - intros c'. unfold upd at 1 2. destruct (Nat.eqb c' c) eqn:E; simpl; [|apply X].
    apply Nat.eqb_eq in E. subst c'. intros _. apply X. rewrite ECS. discriminate.
  - intros c' a' u pg nr cl. unfold upd. destruct (Nat.eqb c' c) eqn:E; simpl; [discriminate|apply Dn].
Qed.

Lemma sinv_start st c nd (x : xargs + bargs) st' :
  sinv st ->
  sstep D ST ns st (match x with inl a => SL_exec c nd a | inr b => SL_batch c nd b end) = Some st' ->
  sinv st'.
Proof.
  intros [R C S O I Q X Dn] H.
  pose proof (reach_call_ok _ _ _ R c) as K0.
  set (ext := n_ext (s_nodes st nd)) in *.
  assert (G : exists cs q, k_st (g_calls (s_g st) c) = CS_idle /\
            (forall m, snap_of cs = Some m -> exists a, x = inl a /\ m = g_cells (s_g st) (xa_stmt a)) /\
            waiting cs = true /\ cs <> CS_idle /\ (forall o, cs <> CS_done o) /\
            let g' := mkG (g_cells (s_g st))
                       (upd (g_calls (s_g st)) c
                          (mkC ext (match x with inl a => Some a | inr _ => None end) cs [(q, snap_of cs)] []))
                       (g_ann (s_g st)) in
            gstep ST (s_g st) (match x with inl a => GL_exec c ext a | inr b => GL_batch c ext b end) = Some g' /\
            st' = mkS g' (s_nodes st) (upd (s_route st) c nd) (upd (s_out st) c (Some q))
                      (upd (s_inbox st) c None) (upd (s_enc st) c None)).
  { destruct x as [a|b]; simpl in H; fold ext in H.
    - destruct (k_st (g_calls (s_g st) c)) eqn:E; try discriminate. simpl in H.
      exists (CS_exec1 a (g_cells (s_g st) (xa_stmt a))),
             (Q_execute (mk_exec_frame (ST (xa_stmt a)) ext a (g_cells (s_g st) (xa_stmt a)))).
      split; [reflexivity|]. split; [simpl; intros m EE; inversion EE; subst; eauto|].
      split; [reflexivity|]. split; [discriminate|]. split; [discriminate|].
      split; [simpl; rewrite E; reflexivity|].
      unfold last_sent in H. simpl in H. rewrite upd_same in H. simpl in H. inversion H. reflexivity.
    - destruct (k_st (g_calls (s_g st) c)) eqn:E; try discriminate. simpl in H.
      exists (CS_batch b), (Q_batch (mk_batch_frame ST b)).
      split; [reflexivity|]. split; [simpl; discriminate|].
      split; [reflexivity|]. split; [discriminate|]. split; [discriminate|].
      split; [simpl; rewrite E; reflexivity|].
      unfold last_sent in H. simpl in H. rewrite upd_same in H. simpl in H. inversion H. reflexivity. }
  destruct G as [cs [q [Eidle [Hsn [W [NI [ND [HG ->]]]]]]]]. clear H.
  constructor; simpl.
  - eapply greach_step; eassumption.
  - exact C.
  - intros c' a' q' m'. unfold upd. destruct (Nat.eqb c' c) eqn:E; [|apply S].
    simpl. intros Hx [EE|[]]. inversion EE as [[Eq Esn]].
    destruct (Hsn m' Esn) as [a [-> ->]]. inversion Hx; subst. apply C.
  - intros c' q'. unfold upd. destruct (Nat.eqb c' c) eqn:E.
    + intros HH; inversion HH; subst. split; [reflexivity|]. split; [assumption|].
      unfold last_sent; simpl. unfold upd. rewrite E. reflexivity.
    + intros HH. destruct (O c' q' HH) as [A [B Cc]]. split; [assumption|]. split; [assumption|].
      unfold last_sent in *; simpl. unfold upd. now rewrite E.
  - intros c' r' enc' p'. unfold upd. destruct (Nat.eqb c' c) eqn:E; [discriminate|apply I].
  - intros c'. unfold upd. destruct (Nat.eqb c' c) eqn:E; simpl; [congruence|apply Q].
  - intros c'. unfold upd. destruct (Nat.eqb c' c) eqn:E; simpl; [reflexivity|apply X].
  - intros c' a' u pg nr cl. unfold upd. destruct (Nat.eqb c' c) eqn:E; simpl; [|apply Dn].
    intros _ EE. exfalso. eapply ND. eassumption.
Qed.

Lemma sinv_recv st c st' : sinv st -> sstep D ST ns st (SL_recv c) = Some st' -> sinv st'.
Proof.
  intros [R C S O I Q X Dn] H. unfold sstep in H.
  destruct (s_inbox st c) as [[[r enc] p]|] eqn:EI; [|discriminate].
  destruct (I c r enc p EI) as [Io [Iw [Iann Ifaith]]].
  set (k := g_calls (s_g st) c) in *.
  destruct (call_recv ST (k_ext k) (g_cells (s_g st)) (k_st k) r) as [[[sto cs] oq]|] eqn:E.
  2:{ assert (HN : gstep ST (s_g st) (GL_resp c r) = None) by (simpl; fold k; now rewrite E).
      rewrite HN in H. discriminate. }
  pose proof (reach_call_ok _ _ _ R c) as K0. fold k in K0.
  pose proof (recv_no_snap _ _ _ _ _ _ _ _ E) as NS.
  set (cells' := fst (apply_store (s_g st) sto)).
  set (ann' := snd (apply_store (s_g st) sto)).
  set (k' := mkC (k_ext k) (k_x k) cs
               (match oq with Some q => (q, snap_of cs) :: k_sent k | None => k_sent k end) (r :: k_rcvd k)).
  set (g' := mkG cells' (upd (g_calls (s_g st)) c k') ann').
  assert (HG : gstep ST (s_g st) (GL_resp c r) = Some g').
  { simpl. fold k. rewrite E. unfold g', cells', ann'. destruct (apply_store (s_g st) sto); reflexivity. }
  rewrite HG in H. inversion H; subst st'; clear H.
  assert (NR : new_request (s_g st) g' c = oq).
  { unfold new_request, last_sent, g'. simpl. rewrite upd_same. fold k. unfold k'. simpl.
    destruct oq as [q|]; simpl.
    - destruct (length (k_sent k)) as [|n0] eqn:EL; [reflexivity|].
      destruct (Nat.eqb (Datatypes.S n0) n0) eqn:EE; [apply Nat.eqb_eq in EE; lia|reflexivity].
    - now rewrite Nat.eqb_refl. }
  rewrite NR.
  (* the cells after the step are safe *)
  assert (C' : forall s, meta_ok s (cells' s)).
  { intros s. unfold cells'. destruct sto as [[s0 u]|]; simpl; [|apply C].
    unfold upd. destruct (Nat.eqb s s0) eqn:EE; [|apply C]. apply Nat.eqb_eq in EE. subst s0.
    pose proof (recv_store_target _ _ _ _ _ _ _ _ E) as TG.
    destruct (recv_store _ _ _ _ _ _ _ _ _ E) as [_ [[Hc|[a [-> Hcs]]] _]].
    - destruct (Iann u Hc) as [s' [T' Hok]]. fold k in T'. rewrite TG in T'. inversion T' as [Es]. exact Hok.
    - unfold call_ok in K0. destruct (k_x k) as [a0|] eqn:Hx.
      + assert (a = a0) as -> by (eapply exec_log_state_args; eassumption).
        assert (SN : snap_of (k_st k) = Some u) by (destruct Hcs as [-> | ->]; reflexivity).
        destruct (exec_log_snap_in_sent _ _ _ _ _ _ _ K0 SN) as [q HI]. eapply (S c); eassumption.
      + destruct K0 as [K0|[b K0]].
        * rewrite K0 in Hcs. destruct Hcs; discriminate.
        * destruct Hcs as [Hcs|Hcs]; rewrite Hcs in K0; inversion K0. }
  constructor; simpl.
  - eapply greach_step; eassumption.
  - exact C'.
  - intros c' a' q' m'. unfold upd. destruct (Nat.eqb c' c) eqn:EE; [|apply S].
    apply Nat.eqb_eq in EE. subst c'. unfold k'. simpl. fold k. intros Hx HI. apply (S c a' q' m').
    + exact Hx.
    + fold k. destruct oq as [q0|]; [|exact HI]. destruct HI as [E0|HI]; [|exact HI].
      rewrite NS in E0. discriminate.
  - intros c' q'. unfold upd at 1 2. destruct (Nat.eqb c' c) eqn:EE.
    + apply Nat.eqb_eq in EE. subst c'. intros ->. split; [reflexivity|].
      unfold last_sent. simpl. rewrite upd_same. unfold k'. simpl.
      split; [eapply recv_sends_waiting; eassumption|reflexivity].
    + intros HH. destruct (O c' q' HH) as [A [B Cc]]. split; [assumption|].
      unfold last_sent in *. simpl. unfold upd. rewrite EE. tauto.
  - intros c' r' enc' p'. unfold upd at 1 2. destruct (Nat.eqb c' c) eqn:EE; [discriminate|].
    intros HH. destruct (I c' r' enc' p' HH) as [A [B Cc]]. unfold upd. rewrite EE. tauto.
  - intros c'. unfold upd. destruct (Nat.eqb c' c) eqn:EE; [|apply Q].
    unfold k'. simpl. intros W. split; [|reflexivity].
    destruct oq as [q|]; [|reflexivity]. rewrite (recv_sends_waiting _ _ _ _ _ _ _ E) in W. discriminate.
  - intros c'. unfold upd. destruct (Nat.eqb c' c) eqn:EE; [|apply X].
    apply Nat.eqb_eq in EE. subst c'. unfold k'. simpl. intros _. apply X. fold k.
    now apply waiting_not_idle.
  - intros c' a' u pg nr cl. unfold upd. destruct (Nat.eqb c' c) eqn:EE; [|apply Dn].
    apply Nat.eqb_eq in EE. subst c'. unfold k'. simpl. intros Hx Hd Hf. subst cs.
    destruct (recv_done_rows _ _ _ _ _ _ _ _ _ _ E) as [[a [m [Hcs Ho]]]|[b Hb]].
    + unfold call_ok in K0. rewrite Hx in K0.
      assert (a = a') as -> by (eapply exec_log_state_args; eassumption).
      assert (SN : snap_of (k_st k) = Some m) by (destruct Hcs as [-> | ->]; reflexivity).
      destruct (outcome_rows _ _ _ _ _ _ _ Ho) as [b [-> [Hu [-> [-> ->]]]]].
      destruct (Ifaith a' m Hx SN Hf b u eq_refl Hu) as [F1 [F2 [F3 F4]]].
      exists enc, p. auto.
    + unfold call_ok in K0. rewrite Hx in K0. rewrite Hb in K0. inversion K0.
Qed.

Lemma sstep_sinv st l st' : sinv st -> sstep D ST ns st l = Some st' -> sinv st'.
Proof.
  intros HI H. destruct l as [c nd a|c nd b|c p|c|c|nd e].
  - eapply (sinv_start st c nd (inl a)); eassumption.
  - eapply (sinv_start st c nd (inr b)); eassumption.
  - eapply sinv_serve; eassumption.
  - eapply sinv_recv; eassumption.
  - eapply sinv_tick; eassumption.
  - eapply sinv_event; eassumption.
Qed.

Lemma sinit_sinv nodes : sinv (sinit init nodes).
Proof.
  constructor; simpl.
  - exists []. reflexivity.
  - exact init_ok.
  - intros c a q m H. discriminate.
  - intros c q H. discriminate.
  - intros c r enc p H. discriminate.
  - auto.
  - intros c H. exfalso. now apply H.
  - intros c a u pg nr cl H. discriminate.
Qed.

Lemma srun_sinv ls : forall st st', sinv st -> srun D ST ns st ls = Some st' -> sinv st'.
Proof.
  induction ls as [|l r IH]; intros st st' HI H; simpl in H.
  - now inversion H; subst.
  - destruct (sstep D ST ns st l) as [s1|] eqn:E; [|discriminate].
    eapply IH; [|eassumption]. eapply sstep_sinv; eassumption.
Qed.

(* C14_faithful *)
Lemma faithful nodes ls st c a u pg nr cl :
  srun D ST ns (sinit init nodes) ls = Some st ->
  let k := g_calls (s_g st) c in
  k_x k = Some a -> k_st k = CS_done (O_rows u pg nr cl) ->
  (k_ext k = true \/ xa_use_cached a = false) ->
  exists enc p, s_enc st c = Some (enc, p) /\ m_cols u = enc /\
                pg = p_paging p /\ nr = p_nrows p /\ cl = p_cells p.
Proof.
  intros HR k Hx Hd Hf. pose proof (srun_sinv ls _ _ (sinit_sinv nodes) HR) as [_ _ _ _ _ _ _ Dn].
  eapply Dn; eassumption.
Qed.

(* every run of the specification system projects to a run of the generic system: all the
   generic theorems apply to it *)
Lemma srun_greach nodes ls st :
  srun D ST ns (sinit init nodes) ls = Some st -> greach ST init (s_g st).
Proof. intros HR. now destruct (srun_sinv ls _ _ (sinit_sinv nodes) HR). Qed.
End Spec.

(* ---------------------------------------------------------------------------------- *)
(* the batch loop, on reachable states                                                   *)
(* ---------------------------------------------------------------------------------- *)

Lemma batch_resend ST init st c :
  greach ST init st ->
  let k := g_calls st c in
  k_x k = None -> k_st k <> CS_idle ->
  exists b, forall q om, In (q, om) (k_sent k) ->
    om = None /\ (q = Q_batch (mk_batch_frame ST b) \/
                  exists p id, q = Q_prepare (s_text (ST p)) /\ find_prepared ST (ba_items b) id = Some p).
Proof.
  intros HR k Hx Hi. pose proof (reach_call_ok _ _ _ HR c) as H. unfold call_ok in H. fold k in H.
  rewrite Hx in H. destruct H as [H|[b H]].
  - rewrite H in Hi. exfalso. now apply Hi.
  - exists b. eapply batch_log_frames. eassumption.
Qed.

Lemma batch_id_changed ST init st c id pm rest :
  greach ST init st ->
  let k := g_calls st c in
  k_x k = None -> k_rcvd k = RPrepared id pm :: rest ->
  exists b,
  (exists p sent', k_st k = CS_batch b /\ id = s_id (ST p) /\
                   k_sent k = (Q_batch (mk_batch_frame ST b), None) :: sent') \/
  (k_st k = CS_done (O_err E_IdChanged) /\
   exists p rest', id <> s_id (ST p) /\
     forall ls st', grun ST st ls = Some st' ->
       k_sent (g_calls st' c) = (Q_prepare (s_text (ST p)), None) :: rest') \/
  k_st k = CS_done O_norows.
Proof.
  intros HR k Hx Hr. pose proof (reach_call_ok _ _ _ HR c) as H. unfold call_ok in H. fold k in H.
  rewrite Hx in H. destruct H as [H|[b H]].
  - rewrite H in Hr. discriminate.
  - exists b. destruct (batch_id_changed_log _ _ _ _ _ _ _ _ _ H Hr) as [[p [s' [A [B C]]]]|[[A [p [r' [B C]]]]|A]].
    + left. eauto.
    + right; left. split; [assumption|]. exists p, r'. split; [assumption|].
      intros ls st' Hrun. fold k in A. rewrite (done_final_run _ _ _ _ _ _ Hrun A). exact B.
    + right; right. assumption.
Qed.

(* ---------------------------------------------------------------------------------- *)
(* the acceptors: an accepted trace IS a run of the system, with the observed responses  *)
(* delivered, the observed requests sent and the observed outcome reached                *)
(* ---------------------------------------------------------------------------------- *)

Lemma g_tick_run ST st c : exists ls, grun ST st ls = Some (g_tick_if_needed ST st c).
Proof.
  unfold g_tick_if_needed. destruct (k_st (g_calls st c)); try (exists []; reflexivity).
  destruct (gstep ST st (GL_tick c)) as [st'|] eqn:E; [|exists []; reflexivity].
  exists [GL_tick c]. cbn [grun]. now rewrite E.
Qed.

(* what the steps taken inside [g_feed] do to the log of call c *)
Definition extends (k k' : crec) (r : resp) : Prop :=
  k_x k' = k_x k /\ k_ext k' = k_ext k /\ k_rcvd k' = r :: k_rcvd k /\
  (forall e, In e (k_sent k) -> In e (k_sent k')).

Lemma gstep_resp_extends ST st c r st' :
  gstep ST st (GL_resp c r) = Some st' -> extends (g_calls st c) (g_calls st' c) r.
Proof.
  simpl. destruct (call_recv _ _ _ _ r) as [[[sto cs] oq]|]; [|discriminate].
  destruct (apply_store st sto). intros H; inversion H; subst; simpl. rewrite upd_same. unfold extends; simpl.
  repeat split; try reflexivity. intros e HI. destruct oq; [now right|assumption].
Qed.

Lemma g_tick_keeps ST st c :
  let k := g_calls st c in let k' := g_calls (g_tick_if_needed ST st c) c in
  k_x k' = k_x k /\ k_ext k' = k_ext k /\ k_rcvd k' = k_rcvd k /\ (forall e, In e (k_sent k) -> In e (k_sent k')).
Proof.
  cbv zeta. unfold g_tick_if_needed.
  destruct (k_st (g_calls st c)) eqn:E; try (split; [|split; [|split]]; auto; fail).
  destruct (gstep ST st (GL_tick c)) as [st'|] eqn:G; [|split; [|split; [|split]]; auto].
  simpl in G. destruct (call_tick _ _ _ _) as [[cs q]|]; [|discriminate]. inversion G; subst; simpl.
  rewrite upd_same; simpl. split; [|split; [|split]]; auto.
Qed.

Definition seen (k : crec) (x : xchg) : Prop :=
  exists q om, In (q, om) (k_sent k) /\ request_eqb q (x_req x) = true.

Lemma g_feed_sound ST : forall xs st c pos out st',
  g_feed ST st c pos xs out = V_ok st' ->
  (exists ls, grun ST st ls = Some st') /\
  let k := g_calls st c in let k' := g_calls st' c in
  k_x k' = k_x k /\ k_ext k' = k_ext k /\
  k_rcvd k' = rev (map x_resp xs) ++ k_rcvd k /\
  (forall e, In e (k_sent k) -> In e (k_sent k')) /\
  Forall (seen k') xs /\
  exists o, k_st k' = CS_done o /\ obs_out_eqb (obs_of_outcome o) out = true.
Proof.
  induction xs as [|x r IH]; intros st c pos out st' H; cbn [g_feed] in H.
  - destruct (k_st (g_calls st c)) eqn:E; simpl in H; try discriminate.
    destruct (obs_out_eqb (obs_of_outcome o) out) eqn:EO; [|discriminate]. inversion H; subst.
    split; [exists []; reflexivity|]. cbv zeta. repeat split; auto. eauto.
  - destruct (negb (waiting (k_st (g_calls st c)))); [discriminate|].
    destruct (last_sent st c) as [q|] eqn:LS; [|discriminate].
    destruct (request_eqb q (x_req x)) eqn:RQ; [|discriminate].
    destruct (gstep ST st (GL_resp c (x_resp x))) as [st1|] eqn:G; [|discriminate].
    destruct (IH _ _ _ _ _ H) as [[ls2 Hrun2] [A [B [C [Dd [F O]]]]]].
    destruct (g_tick_run ST st1 c) as [ls1 Hrun1].
    destruct (gstep_resp_extends _ _ _ _ _ G) as [E1 [E2 [E3 E4]]].
    destruct (g_tick_keeps ST st1 c) as [T1 [T2 [T3 T4]]].
    split.
    + exists (GL_resp c (x_resp x) :: ls1 ++ ls2). cbn [grun]. rewrite G. rewrite grun_app, Hrun1. exact Hrun2.
    + cbv zeta. split; [congruence|]. split; [congruence|]. split.
      * rewrite C, T3, E3. simpl. rewrite <- app_assoc. reflexivity.
      * split; [auto|]. split; [|exact O].
        constructor; [|exact F].
        unfold last_sent in LS. destruct (k_sent (g_calls st c)) as [|[q0 om] rest] eqn:KS; [discriminate|].
        inversion LS; subst q0. exists q, om. split; [|exact RQ].
        apply Dd, T4, E4. now left.
Qed.

(* what an accepted client operation leaves in the final state *)
Definition op_matches (st : gstate) (c : nat) (o : top) : Prop :=
  let k := g_calls st c in
  match o with
  | TO_exec _ ext a xs out =>
      k_x k = Some a /\ k_ext k = ext /\ k_rcvd k = rev (map x_resp xs) /\ Forall (seen k) xs /\
      exists oc, k_st k = CS_done oc /\ obs_out_eqb (obs_of_outcome oc) out = true
  | TO_batch _ ext b xs out =>
      k_x k = None /\ k_ext k = ext /\ k_rcvd k = rev (map x_resp xs) /\ Forall (seen k) xs /\
      exists oc, k_st k = CS_done oc /\ obs_out_eqb (obs_of_outcome oc) out = true
  | TO_event _ _ => True
  end.

Lemma g_accept_op_sound ST st c o st' :
  g_accept_op ST st c o = V_ok st' ->
  (exists ls, grun ST st ls = Some st') /\ op_matches st' c o.
Proof.
  destruct o as [nd ext a xs out|nd ext b xs out|nd e]; simpl.
  - destruct (k_st (g_calls st c)) eqn:E; try discriminate.
    set (st1 := mkG (g_cells st) (upd (g_calls st) c _) (g_ann st)).
    intros H. destruct (g_feed_sound ST _ _ _ _ _ _ H) as [[ls Hrun] [A [B [C [Dd [F O]]]]]].
    split.
    + exists (GL_exec c ext a :: ls). simpl. rewrite E. exact Hrun.
    + unfold op_matches. unfold st1 in *. simpl in *. rewrite upd_same in *. simpl in *.
      rewrite app_nil_r in C. auto.
  - destruct (k_st (g_calls st c)) eqn:E; try discriminate.
    set (st1 := mkG (g_cells st) (upd (g_calls st) c _) (g_ann st)).
    intros H. destruct (g_feed_sound ST _ _ _ _ _ _ H) as [[ls Hrun] [A [B [C [Dd [F O]]]]]].
    split.
    + exists (GL_batch c ext b :: ls). simpl. rewrite E. exact Hrun.
    + unfold op_matches. unfold st1 in *. simpl in *. rewrite upd_same in *. simpl in *.
      rewrite app_nil_r in C. auto.
  - intros H; inversion H; subst. split; [exists []; reflexivity|exact I].
Qed.

Lemma op_matches_done st c o : op_matches st c o ->
  match o with TO_event _ _ => True | _ => exists oc, k_st (g_calls st c) = CS_done oc end.
Proof. destruct o; simpl; try tauto; intros [_ [_ [_ [_ [oc [H _]]]]]]; eauto. Qed.

Lemma op_matches_stable ST st ls st' c o :
  grun ST st ls = Some st' -> op_matches st c o -> op_matches st' c o.
Proof.
  intros Hrun HM. pose proof (op_matches_done _ _ _ HM) as Hd.
  destruct o; try exact I; destruct Hd as [oc Hd];
    unfold op_matches in *; rewrite (done_final_run _ _ _ _ _ _ Hrun Hd); exact HM.
Qed.

(* C14_accept_sound *)
Lemma g_accept_sound ST : forall tr st c c' st',
  g_accept ST st c tr = (c', V_ok st') ->
  (exists ls, grun ST st ls = Some st') /\
  forall i o, nth_error tr i = Some o -> op_matches st' (c + i) o.
Proof.
  induction tr as [|o r IH]; intros st c c' st' H; simpl in H.
  - inversion H; subst. split; [exists []; reflexivity|]. intros [|i] o HH; discriminate.
  - destruct (g_accept_op ST st c o) as [st1| | | |] eqn:E; try (inversion H; fail).
    destruct (g_accept_op_sound _ _ _ _ _ E) as [[ls1 Hrun1] HM].
    destruct (IH _ _ _ _ H) as [[ls2 Hrun2] HR].
    split.
    + exists (ls1 ++ ls2). rewrite grun_app, Hrun1. exact Hrun2.
    + intros [|i] o' Hn; simpl in Hn.
      * inversion Hn; subst o'. rewrite Nat.add_0_r. eapply op_matches_stable; eassumption.
      * replace (c + Datatypes.S i)%nat with (Datatypes.S c + i)%nat by lia. now apply HR.
Qed.

(* the specification acceptor builds a run of the specification system *)
Lemma s_tick_run D ST ns st c : exists ls, srun D ST ns st ls = Some (s_tick_if_needed D ST ns st c).
Proof.
  unfold s_tick_if_needed. destruct (k_st (g_calls (s_g st) c)); try (exists []; reflexivity).
  destruct (sstep D ST ns st (SL_tick c)) as [st'|] eqn:E; [|exists []; reflexivity].
  exists [SL_tick c]. cbn [srun]. now rewrite E.
Qed.

Lemma srun_app D ST ns st ls1 ls2 :
  srun D ST ns st (ls1 ++ ls2) = match srun D ST ns st ls1 with Some st' => srun D ST ns st' ls2 | None => None end.
Proof.
  revert st; induction ls1 as [|l r IH]; intros st; simpl; [reflexivity|].
  destruct (sstep D ST ns st l); [apply IH|reflexivity].
Qed.

Lemma s_feed_run D ST ns : forall xs st c pos out st',
  s_feed D ST ns st c pos xs out = V_ok st' -> exists ls, srun D ST ns st ls = Some st'.
Proof.
  induction xs as [|x r IH]; intros st c pos out st' H; cbn [s_feed] in H.
  - destruct (k_st (g_calls (s_g st) c)); simpl in H; try discriminate.
    destruct (obs_out_eqb _ _); [|discriminate]. inversion H; subst. exists []; reflexivity.
  - destruct (s_out st c) as [q|]; [|discriminate].
    destruct (request_eqb q (x_req x)); [|discriminate].
    destruct (sstep D ST ns st (SL_serve c (x_pay x))) as [st1|] eqn:E1; [|discriminate].
    destruct (s_inbox st1 c) as [[[rs enc] p]|]; [|discriminate].
    destruct (_ && _); [|discriminate].
    destruct (sstep D ST ns st1 (SL_recv c)) as [st2|] eqn:E2; [|discriminate].
    destruct (IH _ _ _ _ _ H) as [ls3 H3]. destruct (s_tick_run D ST ns st2 c) as [ls2 H2].
    exists (SL_serve c (x_pay x) :: SL_recv c :: ls2 ++ ls3). cbn [srun]. rewrite E1, E2, srun_app, H2. exact H3.
Qed.

Lemma s_accept_sound D ST ns : forall tr st c c' st',
  s_accept D ST ns st c tr = (c', V_ok st') -> exists ls, srun D ST ns st ls = Some st'.
Proof.
  induction tr as [|o r IH]; intros st c c' st' H; simpl in H.
  - inversion H; subst. exists []; reflexivity.
  - destruct (s_accept_op D ST ns st c o) as [st1| | | |] eqn:E; try (inversion H; fail).
    destruct (IH _ _ _ _ H) as [ls2 H2].
    assert (exists ls1, srun D ST ns st ls1 = Some st1) as [ls1 H1].
    { destruct o as [nd ext a xs out|nd ext b xs out|nd e]; cbn [s_accept_op] in E.
      - destruct (negb _); [discriminate|].
        destruct (sstep D ST ns st (SL_exec c nd a)) as [s1|] eqn:E1; [|discriminate].
        destruct (s_feed_run _ _ _ _ _ _ _ _ _ E) as [ls Hl].
        exists (SL_exec c nd a :: ls). cbn [srun]. now rewrite E1.
      - destruct (negb _); [discriminate|].
        destruct (sstep D ST ns st (SL_batch c nd b)) as [s1|] eqn:E1; [|discriminate].
        destruct (s_feed_run _ _ _ _ _ _ _ _ _ E) as [ls Hl].
        exists (SL_batch c nd b :: ls). cbn [srun]. now rewrite E1.
      - destruct (sstep D ST ns st (SL_event nd e)) as [s1|] eqn:E1; [|discriminate].
        inversion E; subst. exists [SL_event nd e]. cbn [srun]. now rewrite E1. }
    exists (ls1 ++ ls2). rewrite srun_app, H1. exact H2.
Qed.

(* ---------------------------------------------------------------------------------- *)
(* an evicted statement recovers: EXECUTE -> UNPREPARED -> PREPARE -> resend -> rows      *)
(* ---------------------------------------------------------------------------------- *)

Section Recover.
Variable D : schema.
Variable ST : nat -> stmt.
Variable ns : nat.

(* what one step of the specification system does, as far as call c and its node are concerned *)
Lemma serve_spec st c q p n' r enc :
  s_out st c = Some q ->
  node_answer D ST ns (s_nodes st (s_route st c)) q p = (n', r, enc) ->
  exists st1, sstep D ST ns st (SL_serve c p) = Some st1 /\
    s_g st1 = s_g st /\ s_inbox st1 c = Some (r, enc, p) /\ s_out st1 c = None /\
    s_route st1 = s_route st /\ s_nodes st1 (s_route st c) = n' /\ s_enc st1 = s_enc st.
Proof.
  intros HO HA. unfold sstep. rewrite HO, HA. eexists. split; [reflexivity|]. simpl.
  rewrite !upd_same. repeat split; reflexivity.
Qed.

Lemma recv_spec st c r enc p sto cs oq :
  s_inbox st c = Some (r, enc, p) ->
  call_recv ST (k_ext (g_calls (s_g st) c)) (g_cells (s_g st)) (k_st (g_calls (s_g st) c)) r = Some (sto, cs, oq) ->
  exists st1, sstep D ST ns st (SL_recv c) = Some st1 /\
    k_st (g_calls (s_g st1) c) = cs /\ k_ext (g_calls (s_g st1) c) = k_ext (g_calls (s_g st) c) /\
    k_x (g_calls (s_g st1) c) = k_x (g_calls (s_g st) c) /\
    s_out st1 c = oq /\ s_inbox st1 c = None /\ s_nodes st1 = s_nodes st /\ s_route st1 = s_route st /\
    g_cells (s_g st1) = fst (apply_store (s_g st) sto) /\ s_enc st1 c = Some (enc, p).
Proof.
  intros HI HR. unfold sstep. rewrite HI.
  assert (HG : gstep ST (s_g st) (GL_resp c r) =
          Some (mkG (fst (apply_store (s_g st) sto))
                    (upd (g_calls (s_g st)) c
                       (mkC (k_ext (g_calls (s_g st) c)) (k_x (g_calls (s_g st) c)) cs
                            (match oq with Some q => (q, snap_of cs) :: k_sent (g_calls (s_g st) c) | None => k_sent (g_calls (s_g st) c) end)
                            (r :: k_rcvd (g_calls (s_g st) c))))
                    (snd (apply_store (s_g st) sto)))).
  { simpl. rewrite HR. destruct (apply_store (s_g st) sto). reflexivity. }
  rewrite HG. eexists. split; [reflexivity|]. simpl. rewrite !upd_same. simpl.
  repeat split; try reflexivity.
  unfold new_request, last_sent. simpl. rewrite upd_same. simpl. destruct oq as [q|]; simpl.
  - destruct (List.length (k_sent (g_calls (s_g st) c))) as [|n0]; [reflexivity|].
    destruct (Nat.eqb (Datatypes.S n0) n0) eqn:EE; [apply Nat.eqb_eq in EE; lia|reflexivity].
  - now rewrite Nat.eqb_refl.
Qed.

Lemma tick_spec st c a :
  k_st (g_calls (s_g st) c) = CS_resend a ->
  exists st1, sstep D ST ns st (SL_tick c) = Some st1 /\
    k_st (g_calls (s_g st1) c) = CS_exec2 a (g_cells (s_g st) (xa_stmt a)) /\
    k_ext (g_calls (s_g st1) c) = k_ext (g_calls (s_g st) c) /\
    k_x (g_calls (s_g st1) c) = k_x (g_calls (s_g st) c) /\
    s_out st1 c = Some (Q_execute (mk_exec_frame (ST (xa_stmt a)) (k_ext (g_calls (s_g st) c)) a (g_cells (s_g st) (xa_stmt a)))) /\
    s_inbox st1 = s_inbox st /\ s_nodes st1 = s_nodes st /\ s_route st1 = s_route st /\
    g_cells (s_g st1) = g_cells (s_g st) /\ s_enc st1 = s_enc st.
Proof.
  intros HS. unfold sstep. simpl. rewrite HS. simpl. eexists. split; [reflexivity|]. simpl.
  rewrite !upd_same. simpl. unfold last_sent. simpl. rewrite upd_same. simpl. repeat split; reflexivity.
Qed.

Lemma recovers st c a m s p0 p1 p :
  let nd := s_nodes st (s_route st c) in
  let k := g_calls (s_g st) c in
  stmt_of_id ST ns (s_id (ST s)) = Some s -> stmt_of_text ST ns (s_text (ST s)) = Some s ->
  sid D s 0 = s_id (ST s) ->
  k_x k = Some a -> xa_stmt a = s -> k_st k = CS_exec1 a m ->
  s_out st c = Some (Q_execute (mk_exec_frame (ST s) (k_ext k) a m)) -> s_inbox st c = None ->
  k_ext k = n_ext nd ->
  n_prep nd s = false -> n_salt nd s = 0 -> cols_of D s (n_ver nd s) <> [] ->
  exists st' u,
    srun D ST ns st [SL_serve c p0; SL_recv c; SL_serve c p1; SL_recv c; SL_tick c; SL_serve c p; SL_recv c] = Some st' /\
    k_x (g_calls (s_g st') c) = Some a /\ k_ext (g_calls (s_g st') c) = k_ext k /\
    k_st (g_calls (s_g st') c) = CS_done (O_rows u (p_paging p) (p_nrows p) (p_cells p)) /\
    s_enc st' c = Some (cols_of D s (n_ver nd s), p).
Proof.
  intros nd k Hid Htx Hsid Hx Hs Hst Hout Hin Hext Hprep Hsalt Hcols. subst s.
  set (s := xa_stmt a) in *. set (ext := k_ext k) in *.
  (* 1. the node has evicted the statement: UNPREPARED *)
  assert (A1 : node_answer D ST ns nd (Q_execute (mk_exec_frame (ST s) ext a m)) p0 = (nd, RUnprepared (s_id (ST s)), [])).
  { simpl. rewrite Hid, Hprep. reflexivity. }
  destruct (serve_spec st c _ p0 _ _ _ Hout A1) as [st1 [S1 [G1 [I1 [O1 [R1 [N1 E1]]]]]]].
  (* 2. the client re-prepares *)
  assert (C2 : call_recv ST (k_ext (g_calls (s_g st1) c)) (g_cells (s_g st1)) (k_st (g_calls (s_g st1) c)) (RUnprepared (s_id (ST s)))
               = Some (None, CS_prep a, Some (Q_prepare (s_text (ST s))))).
  { rewrite G1. fold k. rewrite Hst. simpl. reflexivity. }
  destruct (recv_spec st1 c _ _ _ _ _ _ I1 C2) as [st2 [S2 [K2 [X2 [KX2 [O2 [I2 [N2 [R2 [CE2 E2]]]]]]]]]].
  (* 3. the node prepares it again, under the same id *)
  assert (ND2 : s_nodes st2 (s_route st2 c) = nd).
  { rewrite N2, R2, R1. exact N1. }
  set (v := n_ver nd s) in *.
  set (pm := meta_of_cols (if n_ext nd then Some (mid_of D s v) else None) (if late D s then [] else cols_of D s v)).
  set (nd' := mkNode (n_ext nd) (upd (n_prep nd) s true) (n_ver nd) (n_salt nd)).
  assert (A3 : node_answer D ST ns (s_nodes st2 (s_route st2 c)) (Q_prepare (s_text (ST s))) p1 = (nd', RPrepared (s_id (ST s)) pm, [])).
  { rewrite ND2. simpl. rewrite Htx. fold v. rewrite Hsalt, Hsid. reflexivity. }
  destruct (serve_spec st2 c _ p1 _ _ _ O2 A3) as [st3 [S3 [G3 [I3 [O3 [R3 [N3 E3]]]]]]].
  (* 4. same id: reprepare returns Ok, possibly after updating the cell *)
  assert (C4 : call_recv ST (k_ext (g_calls (s_g st3) c)) (g_cells (s_g st3)) (k_st (g_calls (s_g st3) c)) (RPrepared (s_id (ST s)) pm)
               = Some (option_map (fun m' => (s, m')) (reprepare_update (g_cells (s_g st3) s) pm), CS_resend a, None)).
  { rewrite G3, K2. simpl. fold s. rewrite bytes_eqb_refl. reflexivity. }
  destruct (recv_spec st3 c _ _ _ _ _ _ I3 C4) as [st4 [S4 [K4 [X4 [KX4 [O4 [I4 [N4 [R4 [CE4 E4]]]]]]]]]].
  (* 5. reload the cell, resend *)
  destruct (tick_spec st4 c a K4) as [st5 [S5 [K5 [X5 [KX5 [O5 [I5 [N5 [R5 [CE5 E5]]]]]]]]]].
  set (m2 := g_cells (s_g st4) s) in *.
  assert (EXT5 : k_ext (g_calls (s_g st4) c) = ext).
  { rewrite X4, G3, X2, G1. reflexivity. }
  rewrite EXT5 in O5.
  (* 6. the node answers with rows *)
  assert (ND5 : s_nodes st5 (s_route st5 c) = nd').
  { rewrite N5, R5, N4, R4, R3. exact N3. }
  assert (EXTN : ext = n_ext nd') by exact Hext.
  assert (A6 : exists rm, node_answer D ST ns (s_nodes st5 (s_route st5 c)) (Q_execute (mk_exec_frame (ST s) ext a m2)) p
                 = (nd', RRows (mkRows rm (p_paging p) (p_nrows p) (p_cells p)), cols_of D s v) /\
               (forall i, rm = RM_full (Some i) (cols_of D s v) -> ext = true) /\
               (rm = RM_none (N.of_nat (List.length (cols_of D s v))) \/ exists nid, rm = RM_full nid (cols_of D s v))).
  { rewrite ND5. simpl. rewrite Hid. unfold nd' at 1. simpl. rewrite upd_same. simpl.
    fold v. destruct (cols_of D s v) as [|c0 cr] eqn:EC; [now exfalso|].
    unfold nd' at 1. simpl. destruct (n_ext nd) eqn:EN.
    - destruct (cp_rmid ext (xa_use_cached a) m2) as [i|] eqn:ERM.
      + destruct (bytes_eqb i (mid_of D s v)).
        * destruct (cp_skip ext (xa_use_cached a) m2); eexists; (split; [reflexivity|]); (split; [intros i0 HH; discriminate|]); eauto.
        * eexists. split; [reflexivity|]. split; [intros i0 _; exact Hext|]. eauto.
      + exfalso. rewrite Hext in ERM. unfold cp_rmid in ERM.
        destruct (cp_cached true (xa_use_cached a) m2); discriminate.
    - destruct (cp_skip ext (xa_use_cached a) m2); eexists; (split; [reflexivity|]); (split; [intros i0 HH; discriminate|]); eauto. }
  destruct A6 as [rm [A6 [RMext RMshape]]].
  destruct (serve_spec st5 c _ p _ _ _ O5 A6) as [st6 [S6 [G6 [I6 [O6 [R6 [N6 E6]]]]]]].
  (* 7. the caller gets the rows *)
  set (body := mkRows rm (p_paging p) (p_nrows p) (p_cells p)) in *.
  assert (UM : exists u, used_meta ext (cp_cached ext (xa_use_cached a) m2) body = Ok u).
  { unfold used_meta. simpl. destruct RMshape as [->|[nid ->]].
    - destruct (cp_cached ext (xa_use_cached a) m2); eauto.
    - destruct nid as [i|]; [|eauto]. rewrite (RMext i eq_refl). eauto. }
  destruct UM as [u UM].
  assert (C7 : call_recv ST (k_ext (g_calls (s_g st6) c)) (g_cells (s_g st6)) (k_st (g_calls (s_g st6) c)) (RRows body)
               = Some (option_map (fun m' => (s, m')) (exec_store ext (cp_cached ext (xa_use_cached a) m2) (g_cells (s_g st6) s) (RRows body)),
                       CS_done (O_rows u (p_paging p) (p_nrows p) (p_cells p)), None)).
  { rewrite G6, K5, X5, EXT5. simpl. fold s. fold m2. rewrite UM. reflexivity. }
  destruct (recv_spec st6 c _ _ _ _ _ _ I6 C7) as [st7 [S7 [K7 [X7 [KX7 [O7 [I7 [N7 [R7 [CE7 E7]]]]]]]]]].
  exists st7, u. split.
  - cbn [srun]. rewrite S1, S2, S3, S4, S5, S6, S7. reflexivity.
  - split; [rewrite KX7, G6, KX5, KX4, G3, KX2, G1; exact Hx|].
    split; [rewrite X7, G6, X5; exact EXT5|]. split; [exact K7|exact E7].
Qed.
End Recover.

(* the two together: from any reachable state of the specification system *)
Lemma recovers_faithful (D : schema) (ST : nat -> stmt) (ns : nat) (init : nat -> meta) :
  (forall s v v', mid_of D s v = mid_of D s v' -> cols_of D s v = cols_of D s v') ->
  (forall s v, mid_of D s v <> []) ->
  (forall s s', s_id (ST s) = s_id (ST s') -> s = s') ->
  (forall s s', s_text (ST s) = s_text (ST s') -> s = s') ->
  (forall s, meta_ok D s (init s)) ->
  forall nodes ls st c a m s p0 p1 p,
  srun D ST ns (sinit init nodes) ls = Some st ->
  let nd := s_nodes st (s_route st c) in
  let k := g_calls (s_g st) c in
  stmt_of_id ST ns (s_id (ST s)) = Some s -> stmt_of_text ST ns (s_text (ST s)) = Some s ->
  sid D s 0 = s_id (ST s) ->
  k_x k = Some a -> xa_stmt a = s -> k_st k = CS_exec1 a m ->
  s_out st c = Some (Q_execute (mk_exec_frame (ST s) (k_ext k) a m)) -> s_inbox st c = None ->
  k_ext k = n_ext nd ->
  n_prep nd s = false -> n_salt nd s = 0 -> cols_of D s (n_ver nd s) <> [] ->
  exists st' u,
    srun D ST ns st [SL_serve c p0; SL_recv c; SL_serve c p1; SL_recv c; SL_tick c; SL_serve c p; SL_recv c] = Some st' /\
    k_st (g_calls (s_g st') c) = CS_done (O_rows u (p_paging p) (p_nrows p) (p_cells p)) /\
    ((k_ext k = true \/ xa_use_cached a = false) -> m_cols u = cols_of D s (n_ver nd s)).
Proof.
  intros H1 H2 H3 H4 H5 nodes ls st c a m s p0 p1 p HR nd k Hid Htx Hsid Hx Hs Hst Hout Hin Hext Hprep Hsalt Hcols.
  destruct (recovers D ST ns st c a m s p0 p1 p Hid Htx Hsid Hx Hs Hst Hout Hin Hext Hprep Hsalt Hcols)
    as [st' [u [Hrun [Hx' [Hext' [Hd Henc]]]]]].
  exists st', u. split; [exact Hrun|]. split; [exact Hd|].
  intros Hf.
  assert (HR' : srun D ST ns (sinit init nodes)
                  (ls ++ [SL_serve c p0; SL_recv c; SL_serve c p1; SL_recv c; SL_tick c; SL_serve c p; SL_recv c]) = Some st').
  { rewrite srun_app, HR. exact Hrun. }
  assert (Hf' : k_ext (g_calls (s_g st') c) = true \/ xa_use_cached a = false).
  { fold k in Hext'. rewrite Hext'. exact Hf. }
  destruct (faithful D ST ns init H1 H2 H3 H4 H5 nodes _ st' c a u _ _ _ HR' Hx' Hd Hf') as [enc [p' [E1 [E2 _]]]].
  fold nd in Henc. rewrite Henc in E1. inversion E1 as [[Ee Ep]]. rewrite Ee. exact E2.
Qed.

(* ---------------------------------------------------------------------------------- *)
(* the quadrant "no extension, cached metadata" and the known-finding class F17           *)
(* ---------------------------------------------------------------------------------- *)

Lemma not_quadrant ext uc : ~ Quadrant ext uc -> ext = true \/ uc = false.
Proof.
  unfold Quadrant. destruct ext, uc; intros H; try (left; reflexivity); try (right; reflexivity).
  exfalso. apply H. split; reflexivity.
Qed.

Lemma quadrantb_spec ext uc : quadrantb ext uc = true <-> Quadrant ext uc.
Proof.
  unfold quadrantb, Quadrant. destruct ext, uc; simpl; split; intros H;
    try discriminate H; try (destruct H; discriminate); auto.
Qed.

Lemma faithful_outside_quadrant (D : schema) (ST : nat -> stmt) (ns : nat) (init : nat -> meta) :
  (forall s v v', mid_of D s v = mid_of D s v' -> cols_of D s v = cols_of D s v') ->
  (forall s v, mid_of D s v <> []) ->
  (forall s s', s_id (ST s) = s_id (ST s') -> s = s') ->
  (forall s s', s_text (ST s) = s_text (ST s') -> s = s') ->
  (forall s, meta_ok D s (init s)) ->
  forall nodes ls st c a u pg nr cl,
  srun D ST ns (sinit init nodes) ls = Some st ->
  let k := g_calls (s_g st) c in
  k_x k = Some a -> k_st k = CS_done (O_rows u pg nr cl) ->
  ~ Quadrant (k_ext k) (xa_use_cached a) ->
  exists enc p, s_enc st c = Some (enc, p) /\ m_cols u = enc /\
                pg = p_paging p /\ nr = p_nrows p /\ cl = p_cells p.
Proof.
  intros H1 H2 H3 H4 H5 nodes ls st c a u pg nr cl HR k Hx Hd HK.
  eapply faithful; try eassumption. now apply not_quadrant.
Qed.

Lemma recovers_outside_quadrant (D : schema) (ST : nat -> stmt) (ns : nat) (init : nat -> meta) :
  (forall s v v', mid_of D s v = mid_of D s v' -> cols_of D s v = cols_of D s v') ->
  (forall s v, mid_of D s v <> []) ->
  (forall s s', s_id (ST s) = s_id (ST s') -> s = s') ->
  (forall s s', s_text (ST s) = s_text (ST s') -> s = s') ->
  (forall s, meta_ok D s (init s)) ->
  forall nodes ls st c a m s p0 p1 p,
  srun D ST ns (sinit init nodes) ls = Some st ->
  let nd := s_nodes st (s_route st c) in
  let k := g_calls (s_g st) c in
  stmt_of_id ST ns (s_id (ST s)) = Some s -> stmt_of_text ST ns (s_text (ST s)) = Some s ->
  sid D s 0 = s_id (ST s) ->
  k_x k = Some a -> xa_stmt a = s -> k_st k = CS_exec1 a m ->
  s_out st c = Some (Q_execute (mk_exec_frame (ST s) (k_ext k) a m)) -> s_inbox st c = None ->
  k_ext k = n_ext nd ->
  n_prep nd s = false -> n_salt nd s = 0 -> cols_of D s (n_ver nd s) <> [] ->
  exists st' u,
    srun D ST ns st [SL_serve c p0; SL_recv c; SL_serve c p1; SL_recv c; SL_tick c; SL_serve c p; SL_recv c] = Some st' /\
    k_st (g_calls (s_g st') c) = CS_done (O_rows u (p_paging p) (p_nrows p) (p_cells p)) /\
    (~ Quadrant (k_ext k) (xa_use_cached a) -> m_cols u = cols_of D s (n_ver nd s)).
Proof.
  intros H1 H2 H3 H4 H5 nodes ls st c a m s p0 p1 p HR nd k Hid Htx Hsid Hx Hs Hst Hout Hin Hext Hprep Hsalt Hcols.
  destruct (recovers_faithful D ST ns init H1 H2 H3 H4 H5 nodes ls st c a m s p0 p1 p HR Hid Htx Hsid Hx Hs Hst Hout Hin Hext Hprep Hsalt Hcols)
    as [st' [u [A [B C]]]].
  exists st', u. split; [exact A|]. split; [exact B|]. intros HK. apply C. now apply not_quadrant.
Qed.

(* the computed class is the class *)
Lemma any_call_true n f : any_call n f = true -> exists c', f c' = true.
Proof.
  induction n as [|n IH]; simpl; [discriminate|]. intros H. apply orb_true_iff in H.
  destruct H as [H|H]; [eauto|auto].
Qed.

Lemma list_eqb_col_eq a b : list_eqb col_eqb a b = true -> a = b.
Proof.
  revert b; induction a as [|x a IH]; intros [|y b]; simpl; try discriminate; [reflexivity|].
  intros H. apply andb_true_iff in H. destruct H as [H1 H2]. f_equal; [|now apply IH].
  unfold col_eqb in H1. apply andb_true_iff in H1. destruct H1 as [E1 E2].
  apply N.eqb_eq in E1. destruct x as [n1 t1], y as [n2 t2]; simpl in *. subst.
  f_equal. destruct t1, t2; simpl in E2; try discriminate; reflexivity.
Qed.

Lemma known_classb_sound ST st n c cols : known_classb ST st n c cols = true -> KnownClass ST st c cols.
Proof.
  unfold known_classb, KnownClass. destruct (k_x (g_calls st c)) as [a|]; [|discriminate].
  intros H. apply andb_true_iff in H. destruct H as [Q A]. apply quadrantb_spec in Q. destruct Q as [Q1 Q2].
  exists a. split; [reflexivity|]. split; [assumption|]. split; [assumption|].
  apply any_call_true in A. destruct A as [c' A]. apply existsb_exists in A. destruct A as [r [HI HR]].
  destruct r; simpl in HR; try discriminate.
  apply andb_true_iff in HR. destruct HR as [HR H3]. apply andb_true_iff in HR. destruct HR as [H1 H2].
  exists c', id, m. split; [assumption|]. split; [now apply bytes_eqb_eq|]. split.
  - destruct (m_cols m); [discriminate|discriminate].
  - intros E. rewrite E in H3. clear -H3. induction cols as [|x r IH]; simpl in H3; [discriminate|].
    assert (col_eqb x x = true).
    { unfold col_eqb. rewrite N.eqb_refl. destruct (c_type x); reflexivity. }
    rewrite H in H3. simpl in H3. now apply IH.
Qed.

(* ---- without the extension nothing is ever stored: the cell stays what preparation announced ---- *)
Definition noext_label (l : glabel) : Prop :=
  match l with
  | GL_exec _ ext _ | GL_batch _ ext _ => ext = false
  | GL_resp _ (RPrepared _ m) => m_id m = None      (* no extension negotiated: PREPARED has no metadata id *)
  | _ => True
  end.

Record noext_inv (init : nat -> meta) (st : gstate) : Prop := {
  ne_cells : forall s, g_cells st s = init s;
  ne_ann : forall s, g_ann st s = [];
  ne_ext : forall c, k_ext (g_calls st c) = false;
  ne_snap : forall c m, snap_of (k_st (g_calls st c)) = Some m ->
            exists a, (k_st (g_calls st c) = CS_exec1 a m \/ k_st (g_calls st c) = CS_exec2 a m) /\ m = init (xa_stmt a)
}.

Lemma recv_store_noext ST cells cs r s u cs' oq :
  call_recv ST false cells cs r = Some (Some (s, u), cs', oq) ->
  m_id u <> None /\ ((exists id, r = RPrepared id u) \/ snap_of cs = Some u).
Proof.
  intros H. destruct (recv_store _ _ _ _ _ _ _ _ _ H) as [Hid [[Hc|[a [_ Hcs]]] _]].
  - split; [assumption|]. destruct Hc as [[id E]|[b [i [cols [E [EM Eu]]]]]]; [left; eauto|].
    exfalso. subst r. destruct cs; simpl in H; try discriminate.
    + unfold used_meta in H. rewrite EM in H. simpl in H. discriminate.
    + unfold used_meta in H. rewrite EM in H. simpl in H. discriminate.
  - split; [assumption|]. right. destruct Hcs as [-> | ->]; reflexivity.
Qed.

Lemma gstep_noext ST init st l st' :
  (forall s, m_id (init s) = None) -> noext_label l -> noext_inv init st ->
  gstep ST st l = Some st' -> noext_inv init st'.
Proof.
  intros Hinit HL [HC HA HE HS] Hs.
  destruct l as [c0 ext a|c0 ext b|c0 r|c0]; simpl in Hs.
  - destruct (k_st (g_calls st c0)); try discriminate. inversion Hs; subst; clear Hs. simpl in HL. subst ext.
    constructor; simpl; auto.
    + intros c. unfold upd. destruct (Nat.eqb c c0); [reflexivity|apply HE].
    + intros c m. unfold upd. destruct (Nat.eqb c c0); [|apply HS]. simpl. intros E. inversion E; subst.
      exists a. split; [left; reflexivity|apply HC].
  - destruct (k_st (g_calls st c0)); try discriminate. inversion Hs; subst; clear Hs. simpl in HL. subst ext.
    constructor; simpl; auto.
    + intros c. unfold upd. destruct (Nat.eqb c c0); [reflexivity|apply HE].
    + intros c m. unfold upd. destruct (Nat.eqb c c0); [|apply HS]. simpl. discriminate.
  - rewrite (HE c0) in Hs.
    destruct (call_recv ST false (g_cells st) (k_st (g_calls st c0)) r) as [[[sto cs] oq]|] eqn:E; [|discriminate].
    pose proof (recv_no_snap _ _ _ _ _ _ _ _ E) as NS.
    assert (sto = None) as ->.
    { destruct sto as [[s u]|]; [|reflexivity]. exfalso.
      destruct (recv_store_noext _ _ _ _ _ _ _ _ E) as [Hid [[id ->]|Hsn]].
      - simpl in HL. contradiction.
      - destruct (HS c0 u Hsn) as [a [_ ->]]. apply Hid. apply Hinit. }
    simpl in Hs. inversion Hs; subst; clear Hs.
    constructor; simpl; auto.
    + intros c. unfold upd. destruct (Nat.eqb c c0); [reflexivity|apply HE].
    + intros c m. unfold upd. destruct (Nat.eqb c c0); [|apply HS]. simpl. rewrite NS. discriminate.
  - destruct (call_tick ST (k_ext (g_calls st c0)) (g_cells st) (k_st (g_calls st c0))) as [[cs q]|] eqn:E; [|discriminate].
    inversion Hs; subst; clear Hs.
    constructor; simpl; auto.
    + intros c. unfold upd. destruct (Nat.eqb c c0); [apply HE|apply HE].
    + intros c m. unfold upd. destruct (Nat.eqb c c0); [|apply HS]. simpl.
      destruct (k_st (g_calls st c0)); simpl in E; try discriminate. inversion E; subst. simpl.
      intros EE; inversion EE; subst. exists a. split; [right; reflexivity|apply HC].
Qed.

Lemma grun_noext ST init : (forall s, m_id (init s) = None) ->
  forall ls st st', Forall noext_label ls -> noext_inv init st -> grun ST st ls = Some st' -> noext_inv init st'.
Proof.
  intros Hinit. induction ls as [|l r IH]; intros st st' HF HI HR; simpl in HR.
  - now inversion HR; subst.
  - destruct (gstep ST st l) as [s1|] eqn:E; [|discriminate]. inversion HF; subst.
    eapply IH; [eassumption| |eassumption]. eapply gstep_noext; eassumption.
Qed.

Lemma col_list_eq_dec (a b : list col) : {a = b} + {a <> b}.
Proof. decide equality. decide equality; [decide equality|apply N.eq_dec]. Qed.

(* C14_announced_in_quadrant *)
Lemma announced_in_quadrant ST init ls st c a u pg nr cl :
  (forall s, m_id (init s) = None) -> Forall noext_label ls ->
  grun ST (ginit init) ls = Some st ->
  let k := g_calls st c in
  let s := xa_stmt a in
  k_x k = Some a -> k_st k = CS_done (O_rows u pg nr cl) ->
  (forall s', g_cells st s' = init s' /\ g_ann st s' = []) /\
  (exists b rest, k_rcvd k = RRows b :: rest /\
     match rb_meta b with
     | RM_full nid cols => u = meta_of_cols nid cols
     | RM_none _ => m_cols u = m_cols (init s) \/ u = mock_empty
     end).
Proof.
  intros Hinit HF HR k s Hx Hd.
  assert (HI : noext_inv init st).
  { eapply (grun_noext ST init Hinit ls); try eassumption. constructor; simpl; auto. intros c0 m0 HH; discriminate. }
  destruct HI as [HC HA HE HS].
  assert (GR : greach ST init st) by (exists ls; assumption).
  destruct (decode_meta ST init st c a u pg nr cl GR Hx Hd) as [m [b [rs [rr [Hs [Hr [_ [_ [_ [Hm Hu]]]]]]]]]].
  split; [intros s'; split; [apply HC|apply HA]|].
  exists b, rr. split; [exact Hr|]. destruct (rb_meta b) as [n|nid cols]; [|exact Hu].
  destruct (f_skip _); [|now right]. left. destruct Hu as [-> _].
  destruct Hm as [->|HI]; [reflexivity|]. fold s in HI. rewrite HA in HI. destruct HI.
Qed.

(* ---- the concurrent-trace search builds runs too ---- *)
Lemma pstep_run ST st p st' op' : pstep ST st p = Some (st', op') -> exists ls, grun ST st ls = Some st'.
Proof.
  unfold pstep. destruct (negb (pc_started p)).
  - destruct (gstep ST st (GL_exec (pc_id p) (pc_ext p) (pc_args p))) as [s1|] eqn:E; [|discriminate].
    intros H; inversion H; subst. exists [GL_exec (pc_id p) (pc_ext p) (pc_args p)]. cbn [grun]. now rewrite E.
  - destruct (pc_xs p) as [|x r].
    + destruct (k_st (g_calls st (pc_id p))); try discriminate.
      destruct (obs_out_eqb _ _); [|discriminate]. intros H; inversion H; subst. exists []. reflexivity.
    + destruct (negb (waiting _)); [discriminate|].
      destruct (last_sent st (pc_id p)) as [q|]; [|discriminate].
      destruct (request_eqb q (x_req x)); [|discriminate].
      destruct (gstep ST st (GL_resp (pc_id p) (x_resp x))) as [s1|] eqn:E; [|discriminate].
      intros H; inversion H; subst. destruct (g_tick_run ST s1 (pc_id p)) as [ls Hl].
      exists (GL_resp (pc_id p) (x_resp x) :: ls). cbn [grun]. now rewrite E.
Qed.

Lemma g_par_sound ST ok : forall fuel st pre post st',
  g_par fuel ST ok st pre post = Some st' -> (exists ls, grun ST st ls = Some st') /\ ok st' = true.
Proof.
  induction fuel as [|k IH]; intros st pre post st' H; simpl in H; [discriminate|].
  destruct post as [|p rest].
  - destruct pre; [|discriminate]. destruct (ok st) eqn:EO; [|discriminate]. inversion H; subst.
    split; [exists []; reflexivity|assumption].
  - destruct (pstep ST st p) as [[s1 op']|] eqn:E; [|eapply IH; eassumption].
    destruct (g_par k ST ok s1 [] _) as [r|] eqn:E2; [|eapply IH; eassumption].
    inversion H; subst. destruct (pstep_run _ _ _ _ _ E) as [l1 H1]. destruct (IH _ _ _ _ E2) as [[l2 H2] HO].
    split; [|exact HO]. exists (l1 ++ l2). rewrite grun_app, H1. exact H2.
Qed.

(* ---------------------------------------------------------------------------------- *)
(* after repo 75c6d7e: the cell only ever moves to metadata the server announced in the  *)
(* response being processed — never back to a caller's snapshot — for every interleaving *)
(* ---------------------------------------------------------------------------------- *)

Lemma recv_store_carries ST ext cells cs r s u cs' oq :
  call_recv ST ext cells cs r = Some (Some (s, u), cs', oq) -> m_id u <> None /\ carries r u.
Proof.
  intros H. destruct cs; simpl in H; try discriminate.
  - destruct (resp_parse_fails _ _ r); [discriminate|].
    assert (HS : option_map (fun m => (xa_stmt a, m)) (exec_store ext (cp_cached ext (xa_use_cached a) snap) (cells (xa_stmt a)) r) = Some (s, u))
      by (destruct r; inversion H; reflexivity).
    destruct (exec_store _ _ _ r) as [m|] eqn:ES; [|discriminate]. inversion HS; subst.
    eapply exec_store_carries; eassumption.
  - destruct r; try discriminate. destruct (negb _); [discriminate|]. inversion H; subst.
    destruct (reprepare_update (cells (xa_stmt a)) m) as [m'|] eqn:RU; [|discriminate].
    match goal with HH : option_map _ _ = Some _ |- _ => simpl in HH; inversion HH; subst end.
    apply reprepare_update_some in RU. destruct RU as [-> Hid]. split; [assumption|left; eauto].
  - destruct (resp_parse_fails _ _ r); [discriminate|]. inversion H; subst.
    destruct (exec_store _ _ _ r) as [m|] eqn:ES; [|discriminate].
    match goal with HH : option_map _ _ = Some _ |- _ => simpl in HH; inversion HH; subst end.
    eapply exec_store_carries; eassumption.
  - destruct r; try discriminate. destruct (find_prepared _ _ _); discriminate.
  - destruct r; try discriminate. destruct (negb _); [discriminate|]. inversion H; subst.
    destruct (reprepare_update (cells p) m) as [m'|] eqn:RU; [|discriminate].
    match goal with HH : option_map _ _ = Some _ |- _ => simpl in HH; inversion HH; subst end.
    apply reprepare_update_some in RU. destruct RU as [-> Hid]. split; [assumption|left; eauto].
Qed.

(* every change of a cell is the store of metadata carried, with an id, by the response just delivered *)
Lemma store_announced ST st l st' s :
  gstep ST st l = Some st' ->
  (g_ann st' s = g_ann st s /\ g_cells st' s = g_cells st s) \/
  exists c r m, l = GL_resp c r /\ carries r m /\ m_id m <> None /\
                g_ann st' s = m :: g_ann st s /\ g_cells st' s = m.
Proof.
  intros Hs. destruct l as [c0 ext a|c0 ext b|c0 r|c0]; simpl in Hs.
  - destruct (k_st (g_calls st c0)); try discriminate. inversion Hs; subst. now left.
  - destruct (k_st (g_calls st c0)); try discriminate. inversion Hs; subst. now left.
  - destruct (call_recv ST (k_ext (g_calls st c0)) (g_cells st) (k_st (g_calls st c0)) r)
      as [[[sto cs] oq]|] eqn:E; [|discriminate].
    destruct sto as [[s0 u]|]; simpl in Hs; inversion Hs; subst; simpl; [|now left].
    destruct (recv_store_carries _ _ _ _ _ _ _ _ _ E) as [Hid Hc].
    unfold upd. destruct (Nat.eqb s s0) eqn:EE; [|now left].
    apply Nat.eqb_eq in EE. subst s0. right. exists c0, r, u. auto.
  - destruct (call_tick _ _ _ _) as [[cs q]|]; [|discriminate]. inversion Hs; subst. now left.
Qed.

(* a Rows answer announcing a metadata id to an execute on a connection with the extension:
   afterwards the cell holds that id, whatever happened concurrently *)
Lemma cell_follows_rows ST st c st' a m b i cols :
  gstep ST st (GL_resp c (RRows b)) = Some st' ->
  k_st (g_calls st c) = CS_exec1 a m \/ k_st (g_calls st c) = CS_exec2 a m ->
  k_ext (g_calls st c) = true -> rb_meta b = RM_full (Some i) cols ->
  m_id (g_cells st' (xa_stmt a)) = Some i.
Proof.
  intros Hs Hst Hext HM. simpl in Hs. rewrite Hext in Hs.
  assert (HR : call_recv ST true (g_cells st) (k_st (g_calls st c)) (RRows b) =
               Some (option_map (fun u => (xa_stmt a, u))
                       (handle_new_id (g_cells st (xa_stmt a)) (meta_of_cols (Some i) cols)),
                     CS_done (O_rows (meta_of_cols (Some i) cols) (rb_paging b) (rb_nrows b) (rb_cells b)), None)).
  { destruct Hst as [-> | ->]; simpl; unfold used_meta; rewrite HM; simpl; reflexivity. }
  rewrite HR in Hs. clear HR.
  destruct (handle_new_id (g_cells st (xa_stmt a)) (meta_of_cols (Some i) cols)) as [u|] eqn:EH;
    simpl in Hs; inversion Hs; subst; simpl.
  - rewrite upd_same. apply handle_new_id_some in EH. destruct EH as [-> _]. reflexivity.
  - unfold handle_new_id in EH. simpl in EH.
    destruct (obytes_eqb (Some i) (m_id (g_cells st (xa_stmt a)))) eqn:EU.
    + apply obytes_eqb_eq in EU. now symmetry.
    + unfold obytes_eqb in EU. rewrite EU in EH. simpl in EH. discriminate EH.
Qed.

(* ---------------------------------------------------------------------------------- *)
(* deepening: the acceptor's comparisons are equalities; accepted => the recorded        *)
(* requests ARE the requests of the model's call, in order                               *)
(* ---------------------------------------------------------------------------------- *)

Lemma opt_eqb_eq {A} (eqb : A -> A -> bool) : (forall x y, eqb x y = true -> x = y) ->
  forall a b, opt_eqb eqb a b = true -> a = b.
Proof. intros H [x|] [y|]; simpl; try discriminate; auto. intros E. f_equal. auto. Qed.

Lemma list_eqb_eq {A} (eqb : A -> A -> bool) : (forall x y, eqb x y = true -> x = y) ->
  forall a b, list_eqb eqb a b = true -> a = b.
Proof.
  intros H. induction a as [|x a IH]; intros [|y b]; simpl; try discriminate; [reflexivity|].
  intros E. apply andb_true_iff in E. destruct E as [E1 E2]. f_equal; auto.
Qed.

Lemma N_eqb_eq' x y : N.eqb x y = true -> x = y. Proof. apply N.eqb_eq. Qed.
Lemma Z_eqb_eq' x y : Z.eqb x y = true -> x = y. Proof. apply Z.eqb_eq. Qed.
Lemma bytes_eqb_eq' x y : bytes_eqb x y = true -> x = y. Proof. apply bytes_eqb_eq. Qed.
Lemma obytes_eqb_eq' x y : obytes_eqb x y = true -> x = y. Proof. apply obytes_eqb_eq. Qed.
Lemma bool_eqb_eq' x y : Bool.eqb x y = true -> x = y. Proof. apply Bool.eqb_prop. Qed.

Lemma exec_frame_eqb_eq a b : exec_frame_eqb a b = true -> a = b.
Proof.
  unfold exec_frame_eqb. rewrite !andb_true_iff. intros [[[[[[[[H1 H2] H3] H4] H5] H6] H7] H8] H9].
  destruct a, b; simpl in *.
  apply bytes_eqb_eq' in H1, H3. apply obytes_eqb_eq' in H2, H7. apply N_eqb_eq' in H4.
  apply (opt_eqb_eq _ N_eqb_eq') in H5, H6. apply (opt_eqb_eq _ Z_eqb_eq') in H8. apply bool_eqb_eq' in H9.
  congruence.
Qed.

Lemma bfitem_eqb_eq a b : bfitem_eqb a b = true -> a = b.
Proof.
  destruct a, b; simpl; try discriminate.
  - intros H. apply andb_true_iff in H. destruct H as [H1 H2]. apply bytes_eqb_eq' in H1, H2. congruence.
  - intros H. apply N_eqb_eq' in H. congruence.
Qed.

Lemma request_eqb_eq a b : request_eqb a b = true -> a = b.
Proof.
  destruct a, b; simpl; try discriminate.
  - intros H. f_equal. now apply exec_frame_eqb_eq.
  - intros H. f_equal. now apply N_eqb_eq'.
  - unfold batch_frame_eqb. rewrite !andb_true_iff. intros [[[[H1 H2] H3] H4] H5].
    destruct f, f0; simpl in *. apply (list_eqb_eq _ bfitem_eqb_eq) in H1. apply N_eqb_eq' in H2, H3.
    apply (opt_eqb_eq _ N_eqb_eq') in H4. apply (opt_eqb_eq _ Z_eqb_eq') in H5. congruence.
Qed.

(* one delivered response (and the reload that may follow) makes the call send exactly one request
   if it is waiting afterwards, none otherwise *)
Lemma recv_push ST ext cells cs r sto cs' oq :
  call_recv ST ext cells cs r = Some (sto, cs', oq) ->
  (waiting cs' = true /\ exists q, oq = Some q) \/ (waiting cs' = false /\ oq = None).
Proof.
  intros H. destruct cs; simpl in H; try discriminate.
  - destruct (resp_parse_fails _ _ r); [inversion H; subst; right; auto|].
    destruct r; inversion H; subst; simpl; eauto.
  - destruct r; try (inversion H; subst; right; auto; fail).
    destruct (negb _); inversion H; subst; right; auto.
  - destruct (resp_parse_fails _ _ r); inversion H; subst; right; auto.
  - destruct r; try (inversion H; subst; right; auto; fail).
    destruct (find_prepared _ _ _); inversion H; subst; simpl; eauto.
  - destruct r; try (inversion H; subst; right; auto; fail).
    destruct (negb _); inversion H; subst; simpl; eauto.
Qed.

Lemma resp_tick_push ST st c r st1 :
  gstep ST st (GL_resp c r) = Some st1 ->
  let st2 := g_tick_if_needed ST st1 c in
  (waiting (k_st (g_calls st2 c)) = true /\ exists e, k_sent (g_calls st2 c) = e :: k_sent (g_calls st c)) \/
  (waiting (k_st (g_calls st2 c)) = false /\ k_sent (g_calls st2 c) = k_sent (g_calls st c)).
Proof.
  simpl. destruct (call_recv ST (k_ext (g_calls st c)) (g_cells st) (k_st (g_calls st c)) r) as [[[sto cs] oq]|] eqn:E; [|discriminate].
  destruct (apply_store st sto) as [cells ann]. intros H; inversion H; subst; clear H.
  unfold g_tick_if_needed. cbn [g_calls k_st]. rewrite upd_same. cbn [k_st].
  destruct (recv_push _ _ _ _ _ _ _ _ E) as [[W [q ->]]|[W ->]].
  - destruct cs; simpl in W; try discriminate; cbn [g_calls k_st k_sent]; rewrite ?upd_same; cbn [k_st k_sent]; left; split; eauto.
  - destruct cs; simpl in W; try discriminate; cbn [g_calls k_st k_sent]; rewrite ?upd_same; cbn [k_st k_sent]; try (right; split; reflexivity).
    (* CS_resend: the tick sends the second EXECUTE *)
    simpl. rewrite !upd_same. simpl. rewrite !upd_same. simpl. left. split; eauto.
Qed.

Lemma g_feed_positional ST : forall xs st c pos out st',
  g_feed ST st c pos xs out = V_ok st' ->
  match xs with
  | [] => k_sent (g_calls st' c) = k_sent (g_calls st c)
  | x :: r =>
      exists q om rest new,
        k_sent (g_calls st c) = (q, om) :: rest /\ q = x_req x /\
        k_sent (g_calls st' c) = new ++ k_sent (g_calls st c) /\
        rev (map fst new) = map x_req r
  end.
Proof.
  induction xs as [|x r IH]; intros st c pos out st' H; cbn [g_feed] in H.
  - destruct (k_st (g_calls st c)) eqn:E; simpl in H; try discriminate.
    destruct (obs_out_eqb _ _); [|discriminate]. now inversion H.
  - destruct (negb (waiting (k_st (g_calls st c)))); [discriminate|].
    destruct (last_sent st c) as [q|] eqn:LS; [|discriminate].
    destruct (request_eqb q (x_req x)) eqn:RQ; [|discriminate].
    destruct (gstep ST st (GL_resp c (x_resp x))) as [st1|] eqn:G; [|discriminate].
    unfold last_sent in LS. destruct (k_sent (g_calls st c)) as [|[q0 om] rest] eqn:KS; [discriminate|].
    inversion LS; subst q0. apply request_eqb_eq in RQ.
    pose proof (resp_tick_push _ _ _ _ _ G) as PUSH. cbv zeta in PUSH. rewrite KS in PUSH.
    specialize (IH _ _ _ _ _ H).
    exists q, om, rest.
    destruct r as [|y r'].
    + (* no further exchange: the call is finished, nothing more was sent *)
      rewrite IH.
      assert (ND : waiting (k_st (g_calls (g_tick_if_needed ST st1 c) c)) = false).
      { cbn [g_feed] in H. destruct (k_st (g_calls (g_tick_if_needed ST st1 c) c)); simpl in H; try discriminate; reflexivity. }
      destruct PUSH as [[W _]|[_ E]]; [congruence|]. exists []. rewrite E. auto.
    + destruct IH as [q1 [om1 [rest1 [new1 [K1 [Q1 [K' R']]]]]]].
      destruct PUSH as [[_ [e E]]|[_ E]].
      * rewrite E in K1. inversion K1; subst e rest1. exists (new1 ++ [(q1, om1)]).
        split; [reflexivity|]. split; [assumption|]. split.
        -- rewrite K', E, <- app_assoc. reflexivity.
        -- rewrite map_app, rev_app_distr. simpl. rewrite R', Q1. reflexivity.
      * (* nothing was sent although the call goes on: the acceptor would compare the same request
           again, but then the call is not waiting *)
        exfalso. cbn [g_feed] in H.
        assert (W : waiting (k_st (g_calls (g_tick_if_needed ST st1 c) c)) = true).
        { destruct (negb (waiting (k_st (g_calls (g_tick_if_needed ST st1 c) c)))) eqn:EW; [discriminate|].
          now apply negb_false_iff in EW. }
        pose proof (resp_tick_push _ _ _ _ _ G) as P2. cbv zeta in P2. rewrite KS in P2.
        destruct P2 as [[_ [e2 E2]]|[W2 _]]; [|congruence].
        rewrite E2 in E. apply (f_equal (@List.length _)) in E. simpl in E. lia.
Qed.

Definition op_requests (st : gstate) (c : nat) (o : top) : Prop :=
  match o with
  | TO_exec _ _ _ xs _ | TO_batch _ _ _ xs _ => map fst (k_sent (g_calls st c)) = rev (map x_req xs)
  | TO_event _ _ => True
  end.

Lemma g_feed_fresh_requests ST st c q0 om0 xs out st' :
  k_sent (g_calls st c) = [(q0, om0)] -> waiting (k_st (g_calls st c)) = true ->
  g_feed ST st c O xs out = V_ok st' ->
  map fst (k_sent (g_calls st' c)) = rev (map x_req xs).
Proof.
  intros KS W H. pose proof (g_feed_positional ST xs st c O out st' H) as P.
  destruct xs as [|x r].
  - exfalso. cbn [g_feed] in H. destruct (k_st (g_calls st c)); simpl in W, H; discriminate.
  - destruct P as [q [om [rest [new [K1 [Q1 [K' R']]]]]]]. rewrite KS in K1. inversion K1; subst.
    rewrite K', KS, map_app. simpl. rewrite <- R', rev_involutive. reflexivity.
Qed.

Lemma g_accept_op_requests ST st c o st' :
  g_accept_op ST st c o = V_ok st' -> op_requests st' c o.
Proof.
  destruct o as [nd ext a xs out|nd ext b xs out|nd e]; simpl; [| |auto].
  - destruct (k_st (g_calls st c)) eqn:E; try discriminate. intros H.
    eapply g_feed_fresh_requests; [| |exact H]; simpl; rewrite upd_same; reflexivity.
  - destruct (k_st (g_calls st c)) eqn:E; try discriminate. intros H.
    eapply g_feed_fresh_requests; [| |exact H]; simpl; rewrite upd_same; reflexivity.
Qed.

Lemma g_accept_requests ST : forall tr st c c' st',
  g_accept ST st c tr = (c', V_ok st') ->
  forall i o, nth_error tr i = Some o -> op_requests st' (c + i) o.
Proof.
  induction tr as [|o r IH]; intros st c c' st' H; simpl in H.
  - intros [|i] o HH; discriminate.
  - destruct (g_accept_op ST st c o) as [st1| | | |] eqn:E; try (inversion H; fail).
    destruct (g_accept_op_sound _ _ _ _ _ E) as [_ HM]. pose proof (g_accept_op_requests _ _ _ _ _ E) as HQ.
    destruct (g_accept_sound ST _ _ _ _ _ H) as [[ls2 Hrun2] _].
    intros [|i] o' Hn; simpl in Hn.
    + inversion Hn; subst o'. rewrite Nat.add_0_r.
      pose proof (op_matches_done _ _ _ HM) as Hd.
      destruct o; try exact I; destruct Hd as [oc Hd]; unfold op_requests in *;
        rewrite (done_final_run _ _ _ _ _ _ Hrun2 Hd); exact HQ.
    + replace (c + Datatypes.S i)%nat with (Datatypes.S c + i)%nat by lia. eapply IH; eassumption.
Qed.

(* C14_ok_sound: what an accepted history says about the RECORDED requests, responses and outcomes *)
Lemma accepted_sentences ST init tr c' st' :
  g_accept ST (ginit init) O tr = (c', V_ok st') ->
  forall i nd ext a xs out, nth_error tr i = Some (TO_exec nd ext a xs out) ->
  let s := ST (xa_stmt a) in
  (forall i0 pm r, map x_resp xs = [RUnprepared i0; RPrepared (s_id s) pm; r] ->
     exists m1 m2,
       let f1 := mk_exec_frame s ext a m1 in
       let f2 := mk_exec_frame s ext a m2 in
       map x_req xs = [Q_execute f1; Q_prepare (s_text s); Q_execute f2] /\
       (f_id f2 = s_id s /\ f_id f2 = f_id f1 /\ f_values f2 = f_values f1 /\ f_cons f2 = f_cons f1 /\
        f_serial f2 = f_serial f1 /\ f_page_size f2 = f_page_size f1 /\ f_paging f2 = f_paging f1 /\
        f_ts f2 = f_ts f1) /\
       obs_out_eqb (obs_of_outcome (outcome_of ext (cp_cached ext (xa_use_cached a) m2) r)) out = true) /\
  (forall i0 id pm, map x_resp xs = [RUnprepared i0; RPrepared id pm] -> id <> s_id s ->
     obs_out_eqb (OB_err E_IdChanged) out = true /\
     exists m, map x_req xs = [Q_execute (mk_exec_frame s ext a m); Q_prepare (s_text s)]) /\
  (forall f, In (Q_execute f) (map x_req xs) ->
     exists m, f = mk_exec_frame s ext a m /\ (m = init (xa_stmt a) \/ In m (g_ann st' (xa_stmt a))) /\
               (f_skip f = true -> m_count m <> 0)) /\
  (forall cols pg rows t, out = OB_rows cols pg rows t ->
     exists m b pre,
       map x_resp xs = pre ++ [RRows b] /\
       (m = init (xa_stmt a) \/ In m (g_ann st' (xa_stmt a))) /\
       last (map x_req xs) (Q_prepare 0) = Q_execute (mk_exec_frame s ext a m) /\
       match rb_meta b with
       | RM_full _ sent => cols = sent
       | RM_none _ => if f_skip (mk_exec_frame s ext a m) then cols = m_cols m else cols = []
       end).
Proof.
  intros H i nd ext a xs out Hn s.
  destruct (g_accept_sound ST _ _ _ _ _ H) as [[ls Hrun] HM].
  pose proof (HM i _ Hn) as M. pose proof (g_accept_requests ST _ _ _ _ _ H i _ Hn) as Q.
  simpl in M, Q. destruct M as [Hx [He [Hr [_ [oc [Hd Ho]]]]]].
  assert (GR : greach ST init st') by (exists ls; exact Hrun).
  set (k := g_calls st' i) in *.
  assert (RQ : map x_req xs = rev (map fst (k_sent k))) by (rewrite Q, rev_involutive; reflexivity).
  assert (RR : map x_resp xs = rev (k_rcvd k)) by (rewrite Hr, rev_involutive; reflexivity).
  split; [|split; [|split]].
  - intros i0 pm r E. rewrite RR in E. apply (f_equal (@rev resp)) in E. rewrite rev_involutive in E. simpl in E.
    destruct (transparent ST init st' i a i0 pm r GR Hx E) as [m1 [m2 [S1 [S2 S3]]]]. fold k in S1, S2, S3.
    rewrite He in S1, S2, S3. exists m1, m2. cbv zeta. split; [rewrite RQ, S1; reflexivity|]. split; [exact S2|].
    rewrite S3 in Hd. inversion Hd; subst oc. exact Ho.
  - intros i0 id pm E Hne. rewrite RR in E. apply (f_equal (@rev resp)) in E. rewrite rev_involutive in E. simpl in E.
    destruct (id_changed ST init st' i a i0 id pm GR Hx E Hne) as [S1 S2]. fold k in S1.
    rewrite S1 in Hd. inversion Hd; subst oc. split; [exact Ho|].
    destruct (S2 [] st' eq_refl) as [m Hm]. fold k in Hm. rewrite He in Hm. exists m. rewrite RQ, Hm. reflexivity.
  - intros f HI. rewrite RQ in HI. apply in_rev in HI. apply in_map_iff in HI. destruct HI as [[q om] [E HI]].
    simpl in E. subst q. fold k in HI.
    destruct (never_skip_with_empty ST init st' i f om GR HI) as [a' [m [Hx' [-> [Hf [Hs _]]]]]].
    fold k in Hx'. rewrite Hx in Hx'. inversion Hx'; subst a'. fold k in Hf. rewrite He in Hf.
    exists m. split; [exact Hf|]. split.
    + pose proof (reach_cell_inv _ _ _ GR) as [_ _ HC]. eapply (HC i a); eassumption.
    + intros SK. apply (Hs SK).
  - intros cols pg rows t ->.
    destruct oc as [u pg' nr cl| |e]; simpl in Ho; try discriminate.
    destruct (decode_meta ST init st' i a u pg' nr cl GR Hx Hd) as [m [b [rs [rr [Hs [Hrc [_ [_ [_ [Hm Hu]]]]]]]]]].
    fold k in Hs, Hrc, Hu. rewrite He in Hs, Hu. fold s in Hu.
    apply andb_true_iff in Ho. destruct Ho as [Ho _]. apply andb_true_iff in Ho. destruct Ho as [Ho _].
    apply andb_true_iff in Ho. destruct Ho as [Ho _]. apply list_eqb_col_eq in Ho.
    exists m, b, (rev rr). split; [rewrite RR, Hrc; reflexivity|]. split; [exact Hm|]. split.
    + rewrite RQ, Hs. simpl. rewrite last_last. reflexivity.
    + destruct (rb_meta b) as [n|nid sent].
      * destruct (f_skip _).
        -- destruct Hu as [-> _]. now symmetry.
        -- subst u. now symmetry.
      * subst u. now symmetry.
Qed.

(* every step of the specification system leaves the generic part alone or is one generic step *)
Lemma sstep_g D ST ns st l st' :
  sstep D ST ns st l = Some st' ->
  s_g st' = s_g st \/ exists gl, gstep ST (s_g st) gl = Some (s_g st').
Proof.
  destruct l as [c nd a|c nd b|c p|c|c|nd e]; unfold sstep.
  - destruct (gstep ST (s_g st) (GL_exec c (n_ext (s_nodes st nd)) a)) eqn:E; [|discriminate].
    intros H; inversion H; subst; simpl. right; eauto.
  - destruct (gstep ST (s_g st) (GL_batch c (n_ext (s_nodes st nd)) b)) eqn:E; [|discriminate].
    intros H; inversion H; subst; simpl. right; eauto.
  - destruct (s_out st c); [|discriminate]. destruct (node_answer _ _ _ _ _ _) as [[n' r0] enc].
    intros H; inversion H; subst; simpl. now left.
  - destruct (s_inbox st c) as [[[r0 enc] p0]|]; [|discriminate].
    destruct (gstep ST (s_g st) (GL_resp c r0)) eqn:E; [|discriminate].
    intros H; inversion H; subst; simpl. right; eauto.
  - destruct (gstep ST (s_g st) (GL_tick c)) eqn:E; [|discriminate].
    intros H; inversion H; subst; simpl. right; eauto.
  - intros H; inversion H; subst; simpl. now left.
Qed.

Lemma srun_g D ST ns init : forall ls st st',
  srun D ST ns st ls = Some st' -> greach ST init (s_g st) -> greach ST init (s_g st').
Proof.
  induction ls as [|l r IH]; intros st st' H HG; simpl in H.
  - now inversion H; subst.
  - destruct (sstep D ST ns st l) as [s1|] eqn:E; [|discriminate].
    eapply IH; [eassumption|]. destruct (sstep_g _ _ _ _ _ _ E) as [->|[gl G]]; [assumption|].
    eapply greach_step; eassumption.
Qed.

Lemma s_accept_sound2 D ST ns init nodes tr c' st' :
  s_accept D ST ns (sinit init nodes) O tr = (c', V_ok st') ->
  (exists ls, srun D ST ns (sinit init nodes) ls = Some st') /\ greach ST init (s_g st').
Proof.
  intros H. destruct (s_accept_sound _ _ _ _ _ _ _ _ H) as [ls Hl]. split; [eauto|].
  eapply srun_g; [eassumption|]. exists []. reflexivity.
Qed.

(* ---------------------------------------------------------------------------------- *)
(* liveness caveat of the batch loop, as a statement about the model: for every n there  *)
(* is a schedule in which one BATCH call has sent n+1 BATCH frames and is still running   *)
(* ---------------------------------------------------------------------------------- *)
Fixpoint evict_forever (c : nat) (id : bytes) (pm : meta) (n : nat) : list glabel :=
  match n with
  | O => []
  | Datatypes.S k => GL_resp c (RUnprepared id) :: GL_resp c (RPrepared id pm) :: evict_forever c id pm k
  end.

Lemma batch_loop_unbounded ST init c ext s v pm n :
  let b := mkB [BI_prep s v] 0 1 None None in
  exists st,
    grun ST (ginit init) (GL_batch c ext b :: evict_forever c (s_id (ST s)) pm n) = Some st /\
    k_st (g_calls st c) = CS_batch b /\
    List.length (filter (fun e => match fst e with Q_batch _ => true | _ => false end) (k_sent (g_calls st c))) = Datatypes.S n.
Proof.
  intros b.
  assert (G : forall n st, k_st (g_calls st c) = CS_batch b ->
            exists st', grun ST st (evict_forever c (s_id (ST s)) pm n) = Some st' /\
              k_st (g_calls st' c) = CS_batch b /\
              List.length (filter (fun e => match fst e with Q_batch _ => true | _ => false end) (k_sent (g_calls st' c))) =
              (n + List.length (filter (fun e => match fst e with Q_batch _ => true | _ => false end) (k_sent (g_calls st c))))%nat).
  { induction n0 as [|k IH]; intros st Hst.
    - exists st. simpl. auto.
    - cbn [evict_forever grun].
      assert (S1 : exists st1, gstep ST st (GL_resp c (RUnprepared (s_id (ST s)))) = Some st1 /\
                   k_st (g_calls st1 c) = CS_bprep b s /\
                   k_sent (g_calls st1 c) = (Q_prepare (s_text (ST s)), None) :: k_sent (g_calls st c)).
      { simpl. rewrite Hst. simpl. rewrite bytes_eqb_refl. eexists. split; [reflexivity|]. simpl. rewrite upd_same. simpl. auto. }
      destruct S1 as [st1 [G1 [K1 S1]]]. rewrite G1.
      assert (S2 : exists st2, gstep ST st1 (GL_resp c (RPrepared (s_id (ST s)) pm)) = Some st2 /\
                   k_st (g_calls st2 c) = CS_batch b /\
                   k_sent (g_calls st2 c) = (Q_batch (mk_batch_frame ST b), None) :: k_sent (g_calls st1 c)).
      { simpl. rewrite K1. simpl. rewrite bytes_eqb_refl. simpl.
        destruct (apply_store st1 _) as [cells ann]. eexists. split; [reflexivity|]. simpl. rewrite upd_same. simpl. auto. }
      destruct S2 as [st2 [G2 [K2 S2]]]. rewrite G2.
      destruct (IH st2 K2) as [st' [R [K L]]]. exists st'. split; [exact R|]. split; [exact K|].
      rewrite L, S2, S1. simpl. lia. }
  cbn [grun]. simpl. destruct (G n (mkG init (upd (fun _ => idle_call) c (mkC ext None (CS_batch b) [(Q_batch (mk_batch_frame ST b), None)] [])) (fun _ => [])))
    as [st' [R [K L]]].
  { simpl. rewrite upd_same. reflexivity. }
  exists st'. split; [exact R|]. split; [exact K|]. rewrite L. simpl. rewrite upd_same. simpl. lia.
Qed.

(* ---------------------------------------------------------------------------------- *)
(* Session::prepare                                                                      *)
(* ---------------------------------------------------------------------------------- *)
Lemma first_prepared_in rs id m : first_prepared rs = Some (id, m) -> In (RPrepared id m) rs.
Proof.
  induction rs as [|r rs IH]; simpl; [discriminate|].
  destruct r; try (intros H; right; now apply IH). intros H; inversion H; subst. now left.
Qed.

Lemma first_prepared_none rs : first_prepared rs = None <-> forall id m, ~ In (RPrepared id m) rs.
Proof.
  induction rs as [|r rs IH]; simpl.
  - split; [intros _ id m []|reflexivity].
  - destruct r; try (rewrite IH; split; [intros H id0 m0 [E|HI]; [discriminate|now apply (H id0 m0)] | intros H id0 m0 HI; apply (H id0 m0); now right]).
    split; [discriminate|]. intros H. exfalso. apply (H id m). now left.
Qed.

(* the statement returned is one a node announced, and every node that prepared it did so under
   that id; different ids => PreparedStatementIdsMismatch; nobody => AllAttemptsFailed *)
Lemma prepare_on_all_spec rs :
  match prepare_on_all rs with
  | Ok (id, m) => In (RPrepared id m) rs /\ forall id' m', In (RPrepared id' m') rs -> id' = id
  | Err PE_AllFailed => forall id m, ~ In (RPrepared id m) rs
  | Err PE_IdsMismatch => exists id m id' m', In (RPrepared id m) rs /\ In (RPrepared id' m') rs /\ id <> id'
  end.
Proof.
  unfold prepare_on_all. destruct (first_prepared rs) as [[id m]|] eqn:E.
  - pose proof (first_prepared_in _ _ _ E) as HI.
    destruct (forallb (same_prepared_id id) rs) eqn:F.
    + split; [assumption|]. intros id' m' HI'. rewrite forallb_forall in F. specialize (F _ HI'). simpl in F.
      now apply bytes_eqb_eq in F.
    + assert (exists r, In r rs /\ same_prepared_id id r = false) as [r [Hr Hf]].
      { clear -F. induction rs as [|x rs IH]; simpl in F; [discriminate|].
        apply andb_false_iff in F. destruct F as [F|F]; [exists x; split; [now left|assumption]|].
        destruct (IH F) as [r [A B]]. exists r. split; [now right|assumption]. }
      destruct r; simpl in Hf; try discriminate. exists id, m, id0, m0. repeat split; try assumption.
      intros EE. subst. now rewrite bytes_eqb_refl in Hf.
  - now apply first_prepared_none.
Qed.

(* the acceptor: the observation is what [prepare_on_all] returns for the recorded answers with an
   accepted answer moved to the front (an order the connection iterator may have had) *)
Lemma prep_accept_sound rs o : prep_accept rs o = true ->
  match o with
  | PO_ok id cols => exists m, In (RPrepared id m) rs /\ m_cols m = cols /\
                               prepare_on_all (RPrepared id m :: rs) = Ok (id, m)
  | PO_err e => prepare_on_all rs = Err e
  end.
Proof.
  destruct o as [id cols|[|]]; simpl.
  - intros H. apply andb_true_iff in H. destruct H as [H1 H2]. apply existsb_exists in H1.
    destruct H1 as [r [HI Hr]]. destruct r; try discriminate. apply andb_true_iff in Hr. destruct Hr as [A B].
    apply bytes_eqb_eq in A. subst id0. apply list_eqb_col_eq in B. exists m. split; [assumption|]. split; [assumption|].
    unfold prepare_on_all. simpl. rewrite bytes_eqb_refl, H2. reflexivity.
  - unfold prepare_on_all. destruct (first_prepared rs) as [[i m]|]; [discriminate|reflexivity].
  - unfold prepare_on_all. destruct (first_prepared rs) as [[i m]|]; [|discriminate].
    intros H. apply negb_true_iff in H. now rewrite H.
Qed.

Lemma session_prep_accept_sound rs1 rs2 o : session_prep_accept rs1 rs2 o = true ->
  match rs2, o with
  | None, PO_ok id cols => exists m, In (RPrepared id m) rs1 /\ m_cols m = cols /\
                                     forall r2, session_prepare (RPrepared id m :: rs1) r2 = Ok (id, m)
  | None, PO_err _ => False
  | Some r2, PO_ok id cols => exists e m, prepare_on_all rs1 = Err e /\ In (RPrepared id m) r2 /\ m_cols m = cols /\
                                          session_prepare rs1 (RPrepared id m :: r2) = Ok (id, m)
  | Some r2, PO_err e => exists e1, prepare_on_all rs1 = Err e1 /\ session_prepare rs1 r2 = Err e
  end.
Proof.
  unfold session_prep_accept, session_prepare. destruct rs2 as [r2|].
  - intros H. apply andb_true_iff in H. destruct H as [H1 H2].
    assert (E1 : exists e1, prepare_on_all rs1 = Err e1).
    { apply orb_true_iff in H1. destruct H1 as [H1|H1]; apply prep_accept_sound in H1; eauto. }
    destruct E1 as [e1 E1]. pose proof (prep_accept_sound _ _ H2) as S2. destruct o as [id cols|e].
    + destruct S2 as [m [A [B C]]]. exists e1, m. rewrite E1. auto.
    + exists e1. rewrite E1. auto.
  - destruct o as [id cols|e]; [|discriminate]. intros H. destruct (prep_accept_sound _ _ H) as [m [A [B C]]].
    exists m. split; [assumption|]. split; [assumption|]. intros r2. now rewrite C.
Qed.

(* the re-preparation counterpart of [cell_follows_rows]: a PREPARED with the statement's id that
   announces a metadata id, delivered to a call that is re-preparing (execute or batch): afterwards
   the cell holds that id — unless the announcement has no columns while the cell has some (the
   non-destructive rule), in which case the cell is untouched *)
Lemma cell_follows_reprepare ST st c st' s pm i :
  gstep ST st (GL_resp c (RPrepared (s_id (ST s)) pm)) = Some st' ->
  (exists a, k_st (g_calls st c) = CS_prep a /\ xa_stmt a = s) \/ (exists b, k_st (g_calls st c) = CS_bprep b s) ->
  m_id pm = Some i ->
  (m_count (g_cells st s) = 0 \/ m_count pm <> 0 -> m_id (g_cells st' s) = Some i) /\
  (m_count (g_cells st s) <> 0 -> m_count pm = 0 -> g_cells st' s = g_cells st s).
Proof.
  intros Hs Hst Hid. simpl in Hs.
  assert (HR : exists cs oq, call_recv ST (k_ext (g_calls st c)) (g_cells st) (k_st (g_calls st c)) (RPrepared (s_id (ST s)) pm) =
               Some (option_map (fun m' => (s, m')) (reprepare_update (g_cells st s) pm), cs, oq)).
  { destruct Hst as [[a [-> <-]]|[b ->]]; simpl; rewrite bytes_eqb_refl; simpl; eauto. }
  destruct HR as [cs [oq HR]]. rewrite HR in Hs. clear HR.
  unfold reprepare_update in Hs. rewrite Hid in Hs.
  destruct (m_count (g_cells st s) =? 0) eqn:E0; destruct (m_count pm =? 0) eqn:E1; simpl in Hs.
  - (* both empty *)
    split.
    + intros _. destruct (negb (obytes_eqb (m_id (g_cells st s)) (Some i))) eqn:EU; simpl in Hs; inversion Hs; subst; simpl.
      * rewrite upd_same. exact Hid.
      * apply negb_false_iff in EU. now apply obytes_eqb_eq in EU.
    + intros H. apply N.eqb_eq in E0. contradiction.
  - split.
    + intros _. destruct (negb (obytes_eqb (m_id (g_cells st s)) (Some i))) eqn:EU; simpl in Hs; inversion Hs; subst; simpl.
      * rewrite upd_same. exact Hid.
      * apply negb_false_iff in EU. now apply obytes_eqb_eq in EU.
    + intros H. apply N.eqb_eq in E0. contradiction.
  - (* destructive: ignored *)
    inversion Hs; subst; simpl. split.
    + intros [H|H]; [apply N.eqb_neq in E0; contradiction|apply N.eqb_eq in E1; contradiction].
    + intros _ _. reflexivity.
  - split.
    + intros _. destruct (negb (obytes_eqb (m_id (g_cells st s)) (Some i))) eqn:EU; simpl in Hs; inversion Hs; subst; simpl.
      * rewrite upd_same. exact Hid.
      * apply negb_false_iff in EU. now apply obytes_eqb_eq in EU.
    + intros _ H. apply N.eqb_neq in E1. contradiction.
Qed.

Lemma known_class_prepb_spec pa ext uc cols : known_class_prepb pa ext uc cols = true -> KnownClassPrep pa ext uc cols.
Proof.
  unfold known_class_prepb, KnownClassPrep. intros H. apply andb_true_iff in H. destruct H as [Q E].
  apply quadrantb_spec in Q. split; [assumption|]. apply existsb_exists in E. destruct E as [c' [HI H]].
  apply andb_true_iff in H. destruct H as [H1 H2]. exists c'. split; [assumption|]. split.
  - destruct c'; [discriminate|discriminate].
  - intros EE. subst c'. clear -H2. induction cols as [|x r IH]; simpl in H2; [discriminate|].
    assert (col_eqb x x = true) by (unfold col_eqb; rewrite N.eqb_refl; destruct (c_type x); reflexivity).
    rewrite H in H2. simpl in H2. now apply IH.
Qed.

(* ---------------------------------------------------------------------------------- *)
(* deepening round 3: the bookkeeping that decides the F17 / F25 tags rests on theorems  *)
(* ---------------------------------------------------------------------------------- *)
Definition op_xs (o : top) : list xchg :=
  match o with TO_exec _ _ _ xs _ | TO_batch _ _ _ xs _ => xs | TO_event _ _ => [] end.

(* exchange x is a re-preparation of statement s that announced the (non-empty) columns [cols] *)
Definition reprep_in (ST : nat -> stmt) (ns : nat) (s : nat) (cols : list col) (x : xchg) : Prop :=
  exists t pm, x_req x = Q_prepare t /\ stmt_of_text ST ns t = Some s /\
               x_resp x = RPrepared (s_id (ST s)) pm /\ m_cols pm = cols /\ cols <> [].

Lemma col_eqb_refl x : col_eqb x x = true.
Proof. unfold col_eqb. rewrite N.eqb_refl. destruct (c_type x); reflexivity. Qed.
Lemma list_eqb_col_refl l : list_eqb col_eqb l l = true.
Proof. induction l as [|x r IH]; simpl; [reflexivity|]. now rewrite col_eqb_refl, IH. Qed.
Lemma is_nil_false {A} (l : list A) : is_nil l = false -> l <> [].
Proof. destruct l; simpl; congruence. Qed.

Section StaleSound.
Variable ST : nat -> stmt.
Variable ns : nat.
Variable full : list top.

(* where the "latest announcement was a re-preparation" flag comes from *)
Definition sinv_an (bound : nat) (an : ann_state) : Prop :=
  forall s, an_reprep an s = true ->
    exists j o x, (j < bound)%nat /\ nth_error full j = Some o /\ In x (op_xs o) /\
                  reprep_in ST ns s (an_latest an s) x.

Lemma sinv_an_mono b b' an : (b <= b')%nat -> sinv_an b an -> sinv_an b' an.
Proof. intros L H s Hs. destruct (H s Hs) as [j [o [x [A B]]]]. exists j, o, x. split; [lia|exact B]. Qed.

Lemma ann_xchg_inv i0 o an x :
  nth_error full i0 = Some o -> In x (op_xs o) -> sinv_an (S i0) an -> sinv_an (S i0) (ann_xchg ST ns an x).
Proof.
  intros Hn Hx HI. unfold ann_xchg.
  destruct (x_req x) as [f|t|bf] eqn:EQ; try exact HI.
  - destruct (x_resp x) as [b| | | | | |] eqn:ER; try exact HI.
    destruct (rb_meta b) as [n|[i|] cols]; try exact HI.
    destruct (stmt_of_id ST ns (f_id f)) as [s|]; [|exact HI].
    intros s' Hs'. simpl in Hs'. unfold upd in Hs'. simpl. unfold upd.
    destruct (Nat.eqb s' s); [discriminate|]. apply HI. exact Hs'.
  - destruct (x_resp x) as [| | | |id m| |] eqn:ER; try exact HI.
    destruct (stmt_of_text ST ns t) as [s|] eqn:ET; [|exact HI].
    destruct (bytes_eqb id (s_id (ST s)) && negb (is_nil (m_cols m))) eqn:EC; [|exact HI].
    apply andb_true_iff in EC. destruct EC as [E1 E2]. apply bytes_eqb_eq in E1. subst id.
    apply negb_true_iff in E2. apply is_nil_false in E2.
    intros s' Hs'. simpl in *. unfold upd in *. destruct (Nat.eqb s' s) eqn:EE.
    + apply Nat.eqb_eq in EE. subst s'. exists i0, o, x. split; [lia|]. split; [exact Hn|]. split; [exact Hx|].
      exists t, m. auto.
    + apply HI. exact Hs'.
Qed.

Lemma fold_ann_inv i0 o : nth_error full i0 = Some o ->
  forall xs an, (forall x, In x xs -> In x (op_xs o)) -> sinv_an (S i0) an ->
  sinv_an (S i0) (fold_left (ann_xchg ST ns) xs an).
Proof.
  intros Hn. induction xs as [|x r IH]; intros an Hsub HI; simpl; [exact HI|].
  apply IH; [intros y Hy; apply Hsub; now right|].
  apply (ann_xchg_inv i0 o an x Hn); [apply Hsub; now left|exact HI].
Qed.

(* what a hit tagged "in class" means on the trace *)
Definition stale_evidence (i : nat) : Prop :=
  exists nd a xs cols pg rows t,
    nth_error full i = Some (TO_exec nd false a xs (OB_rows cols pg rows t)) /\
    xa_use_cached a = true /\
    (exists x f b n, last (map Some xs) None = Some x /\ x_req x = Q_execute f /\ f_skip f = true /\
                     x_resp x = RRows b /\ rb_meta b = RM_none n) /\
    exists j o x c', (j <= i)%nat /\ nth_error full j = Some o /\ In x (op_xs o) /\
                     reprep_in ST ns (xa_stmt a) c' x /\ c' <> cols.

Lemma stale_op_true an ext a xs out :
  stale_op ST ns an ext a xs out = Some true ->
  ext = false /\ xa_use_cached a = true /\ an_reprep an (xa_stmt a) = true /\
  exists cols pg rows t, out = OB_rows cols pg rows t /\ an_latest an (xa_stmt a) <> cols /\
    exists x f b n, last (map Some xs) None = Some x /\ x_req x = Q_execute f /\ f_skip f = true /\
                    x_resp x = RRows b /\ rb_meta b = RM_none n.
Proof.
  unfold stale_op. destruct (last (map Some xs) None) as [x|] eqn:EL; [|discriminate].
  destruct out as [cols pg rows t| |e]; try discriminate.
  destruct (x_req x) as [f| |] eqn:EQ; try discriminate.
  destruct (x_resp x) as [b| | | | | |] eqn:ER; try discriminate.
  destruct (rb_meta b) as [n|nid c] eqn:EM; [|discriminate].
  destruct (f_skip f && negb (list_eqb col_eqb cols (an_latest an (xa_stmt a)))) eqn:EC; [|discriminate].
  intros H. injection H as HQ. apply andb_true_iff in HQ. destruct HQ as [Q R].
  unfold quadrantb in Q. apply andb_true_iff in Q. destruct Q as [Q1 Q2]. apply negb_true_iff in Q1.
  apply andb_true_iff in EC. destruct EC as [SK NE]. apply negb_true_iff in NE.
  split; [assumption|]. split; [assumption|]. split; [assumption|].
  exists cols, pg, rows, t. split; [reflexivity|]. split.
  - intros E. rewrite E in NE. rewrite list_eqb_col_refl in NE. discriminate.
  - exists x, f, b, n. auto.
Qed.

Lemma stale_check_tag_trace cp : forall tr i0 an,
  (forall k o, nth_error tr k = Some o -> nth_error full (i0 + k) = Some o) ->
  sinv_an i0 an ->
  forall i, In (i, Some true) (stale_check ST ns cp an i0 tr) -> stale_evidence i.
Proof.
  induction tr as [|o r IH]; intros i0 an Hfull HI i Hin; simpl in Hin; [destruct Hin|].
  assert (Hn0 : nth_error full i0 = Some o) by (rewrite <- (Nat.add_0_r i0); apply Hfull; reflexivity).
  assert (Hfull' : forall k o', nth_error r k = Some o' -> nth_error full (S i0 + k) = Some o').
  { intros k o' Hk. replace (S i0 + k)%nat with (i0 + S k)%nat by lia. apply Hfull. exact Hk. }
  destruct o as [nd ext a xs out|nd ext b xs out|nd e].
  - set (an' := fold_left (ann_xchg ST ns) xs an) in *.
    assert (HI' : sinv_an (S i0) an').
    { apply (fold_ann_inv i0 _ Hn0); [intros x Hx; exact Hx|]. eapply sinv_an_mono; [|exact HI]. lia. }
    assert (Hrest : In (i, Some true) (stale_check ST ns cp an' (S i0) r) -> stale_evidence i)
      by (apply IH; assumption).
    assert (Hop : In (i, Some true)
                    (match stale_op ST ns an' ext a xs out with
                     | Some cl => (i0, Some cl) :: stale_check ST ns cp an' (S i0) r
                     | None => stale_check ST ns cp an' (S i0) r end) -> stale_evidence i).
    { destruct (stale_op ST ns an' ext a xs out) as [cl|] eqn:ES; [|exact Hrest].
      intros [E|Hr]; [|now apply Hrest]. inversion E; subst i cl.
      destruct (stale_op_true _ _ _ _ _ ES) as [-> [Huc [Hrp [cols [pg [rows [t [-> [NE LX]]]]]]]]].
      destruct (HI' _ Hrp) as [j [o [x [Hj [Hnj [Hxj RP]]]]]].
      exists nd, a, xs, cols, pg, rows, t. split; [exact Hn0|]. split; [exact Huc|]. split; [exact LX|].
      exists j, o, x, (an_latest an' (xa_stmt a)). split; [lia|]. auto. }
    destruct (cp && negb (present_op ST ns an ext a xs)).
    + destruct Hin as [E|Hin]; [discriminate E|]. now apply Hop.
    + now apply Hop.
  - apply (IH (S i0) (fold_left (ann_xchg ST ns) xs an)); try assumption.
    apply (fold_ann_inv i0 _ Hn0); [intros x Hx; exact Hx|]. eapply sinv_an_mono; [|exact HI]. lia.
  - apply (IH (S i0) an); try assumption. eapply sinv_an_mono; [|exact HI]. lia.
Qed.
End StaleSound.

(* with the acceptor: the tag implies the class, on the final state of the accepted run *)
Lemma stale_check_tag_sound ST ns init tr c' st' cp an0 i :
  g_accept ST (ginit init) O tr = (c', V_ok st') ->
  (forall s, an_reprep an0 s = false) ->
  In (i, Some true) (stale_check ST ns cp an0 O tr) ->
  exists nd a xs cols pg rows t,
    nth_error tr i = Some (TO_exec nd false a xs (OB_rows cols pg rows t)) /\
    KnownClass ST st' i cols.
Proof.
  intros HA H0 Hin.
  destruct (g_accept_sound ST _ _ _ _ _ HA) as [_ HM].
  assert (EV : stale_evidence ST ns tr i).
  { eapply (stale_check_tag_trace ST ns tr cp tr O an0); [intros k o Hk; exact Hk| |exact Hin].
    intros s Hs. rewrite H0 in Hs. discriminate. }
  destruct EV as (nd & a & xs & cols & pg & rows & t & Hn & Huc & _ & j & o & x & c0 & Hj & Hnj & Hx & RP & NE).
  exists nd, a, xs, cols, pg, rows, t. split; [exact Hn|].
  pose proof (HM i _ Hn) as Mi. simpl in Mi. destruct Mi as [Hxi [Hei _]].
  exists a. split; [exact Hxi|]. split; [exact Hei|]. split; [exact Huc|].
  destruct RP as (tx & pm & RQ & _ & RR & RC & RN).
  assert (HR : In (RPrepared (s_id (ST (xa_stmt a))) pm) (k_rcvd (g_calls st' j))).
  { pose proof (HM j _ Hnj) as Mj. destruct o as [nd' e' a' xs' out'|nd' e' b' xs' out'|nd' e']; simpl in Hx; [| |destruct Hx].
    - simpl in Mj. destruct Mj as [_ [_ [Hr _]]]. rewrite Hr. apply in_rev. rewrite rev_involutive.
      rewrite <- RR. now apply in_map.
    - simpl in Mj. destruct Mj as [_ [_ [Hr _]]]. rewrite Hr. apply in_rev. rewrite rev_involutive.
      rewrite <- RR. now apply in_map. }
  exists j, (s_id (ST (xa_stmt a))), pm. split; [exact HR|]. split; [reflexivity|]. rewrite RC. auto.
Qed.

(* ---- the per-node bookkeeping of the nodes without the extension ---- *)
Lemma last_some_in {A} (l : list A) x : last (map Some l) None = Some x -> In x l.
Proof.
  induction l as [|y r IH]; simpl; [discriminate|].
  destruct r as [|z r']; simpl in *; [intros H; inversion H; now left|]. intros H. right. apply IH. exact H.
Qed.

Lemma cp_skip_noext uc m : cp_skip false uc m = true -> uc = true.
Proof. unfold cp_skip. destruct (m_count m =? 0); [discriminate|]. now rewrite orb_false_r. Qed.

Section PlainSound.
Variable ST : nat -> stmt.
Variable ns : nat.
Variable full : list top.
Variable prep : nat -> nat -> list col.      (* what node nd announced for statement s at preparation *)

Definition pinv_an (bound : nat) (an : nat -> nat -> list col * bool) : Prop :=
  forall nd s,
    (snd (an nd s) = false -> fst (an nd s) = prep nd s) /\
    (snd (an nd s) = true ->
       exists j o x, (j < bound)%nat /\ nth_error full j = Some o /\ In x (op_xs o) /\
                     reprep_in ST ns s (fst (an nd s)) x).

Lemma pinv_an_mono b b' an : (b <= b')%nat -> pinv_an b an -> pinv_an b' an.
Proof.
  intros L H nd s. destruct (H nd s) as [A B]. split; [exact A|]. intros Hs.
  destruct (B Hs) as [j [o [x [C Dd]]]]. exists j, o, x. split; [lia|exact Dd].
Qed.

Lemma pn_xchg_inv i0 o nd an x :
  nth_error full i0 = Some o -> In x (op_xs o) -> pinv_an (S i0) an -> pinv_an (S i0) (pn_xchg ST ns nd an x).
Proof.
  intros Hn Hx HI. unfold pn_xchg.
  destruct (x_req x) as [f|t|bf] eqn:EQ; try exact HI.
  destruct (x_resp x) as [| | | |id m| |] eqn:ER; try exact HI.
  destruct (stmt_of_text ST ns t) as [s|] eqn:ET; [|exact HI].
  destruct (bytes_eqb id (s_id (ST s)) && negb (is_nil (m_cols m))) eqn:EC; [|exact HI].
  apply andb_true_iff in EC. destruct EC as [E1 E2]. apply bytes_eqb_eq in E1. subst id.
  apply negb_true_iff in E2. apply is_nil_false in E2.
  intros nd' s'. unfold upd. destruct (Nat.eqb nd' nd) eqn:EN; [|apply HI].
  destruct (Nat.eqb s' s) eqn:EE; [|apply Nat.eqb_eq in EN; subst nd'; apply HI].
  apply Nat.eqb_eq in EE. subst s'. simpl. split; [discriminate|]. intros _.
  exists i0, o, x. split; [lia|]. split; [exact Hn|]. split; [exact Hx|]. exists t, m. auto.
Qed.

Lemma fold_pn_inv i0 o nd : nth_error full i0 = Some o ->
  forall xs an, (forall x, In x xs -> In x (op_xs o)) -> pinv_an (S i0) an ->
  pinv_an (S i0) (fold_left (pn_xchg ST ns nd) xs an).
Proof.
  intros Hn. induction xs as [|x r IH]; intros an Hsub HI; simpl; [exact HI|].
  apply IH; [intros y Hy; apply Hsub; now right|].
  apply (pn_xchg_inv i0 o nd an x Hn); [apply Hsub; now left|exact HI].
Qed.

(* what a hit means on the trace: rows that came without metadata (as requested) from a node without the
   extension were decoded with [cols], while that node's latest announcement — its answer at preparation
   (flag false) or one of its re-preparations recorded earlier in the trace (flag true) — had other,
   non-empty columns *)
Definition plain_evidence (i : nat) (from_reprep : bool) : Prop :=
  exists nd a xs cols pg rows t,
    nth_error full i = Some (TO_exec nd false a xs (OB_rows cols pg rows t)) /\
    (exists x f b n, In x xs /\ x_req x = Q_execute f /\ f_skip f = true /\
                     x_resp x = RRows b /\ rb_meta b = RM_none n) /\
    if from_reprep then
      exists j o x c', (j <= i)%nat /\ nth_error full j = Some o /\ In x (op_xs o) /\
                       reprep_in ST ns (xa_stmt a) c' x /\ c' <> cols
    else prep nd (xa_stmt a) <> [] /\ prep nd (xa_stmt a) <> cols.

Lemma plain_node_check_trace : forall tr i0 an,
  (forall k o, nth_error tr k = Some o -> nth_error full (i0 + k) = Some o) ->
  pinv_an i0 an ->
  forall i r, In (i, r) (plain_node_check ST ns an i0 tr) -> plain_evidence i r.
Proof.
  induction tr as [|o r IH]; intros i0 an Hfull HI i fr Hin; simpl in Hin; [destruct Hin|].
  assert (Hn0 : nth_error full i0 = Some o) by (rewrite <- (Nat.add_0_r i0); apply Hfull; reflexivity).
  assert (Hfull' : forall k o', nth_error r k = Some o' -> nth_error full (S i0 + k) = Some o').
  { intros k o' Hk. replace (S i0 + k)%nat with (i0 + S k)%nat by lia. apply Hfull. exact Hk. }
  assert (HIS : pinv_an (S i0) an) by (eapply pinv_an_mono; [|exact HI]; lia).
  destruct o as [nd ext a xs out|nd ext b xs out|nd e].
  - destruct ext.
    + apply (IH (S i0) an); assumption.
    + set (an' := fold_left (pn_xchg ST ns nd) xs an) in *.
      assert (HI' : pinv_an (S i0) an') by (apply (fold_pn_inv i0 _ nd Hn0); [intros x Hx; exact Hx|exact HIS]).
      assert (Hrest : In (i, fr) (plain_node_check ST ns an' (S i0) r) -> plain_evidence i fr) by (apply IH; assumption).
      destruct (last (map Some xs) None) as [x|] eqn:EL; [|now apply Hrest].
      destruct out as [cols pg rows t| |e]; try (now apply Hrest).
      destruct (x_req x) as [f| |] eqn:EQ; try (now apply Hrest).
      destruct (x_resp x) as [b| | | | | |] eqn:ER; try (now apply Hrest).
      destruct (rb_meta b) as [n|nid c] eqn:EM; [|now apply Hrest].
      destruct (f_skip f && negb (is_nil (fst (an' nd (xa_stmt a)))) &&
                negb (list_eqb col_eqb cols (fst (an' nd (xa_stmt a))))) eqn:EC; [|now apply Hrest].
      destruct Hin as [E|Hin]; [|now apply Hrest]. inversion E; subst i fr. clear E.
      apply andb_true_iff in EC. destruct EC as [EC NE]. apply andb_true_iff in EC. destruct EC as [SK NN].
      apply negb_true_iff in NE. apply negb_true_iff in NN. apply is_nil_false in NN.
      assert (NEQ : fst (an' nd (xa_stmt a)) <> cols).
      { intros E. rewrite E in NE. rewrite list_eqb_col_refl in NE. discriminate. }
      exists nd, a, xs, cols, pg, rows, t. split; [exact Hn0|]. split.
      { exists x, f, b, n. split; [now apply last_some_in|]. auto. }
      destruct (HI' nd (xa_stmt a)) as [A B].
      destruct (snd (an' nd (xa_stmt a))) eqn:ES.
      * destruct (B eq_refl) as [j [o [x0 [Hj [Hnj [Hxj RP]]]]]].
        exists j, o, x0, (fst (an' nd (xa_stmt a))). split; [lia|]. auto.
      * rewrite <- (A eq_refl). split; assumption.
  - destruct ext.
    + apply (IH (S i0) an); assumption.
    + apply (IH (S i0) (fold_left (pn_xchg ST ns nd) xs an)); try assumption.
      apply (fold_pn_inv i0 _ nd Hn0); [intros x Hx; exact Hx|exact HIS].
  - apply (IH (S i0) an); assumption.
Qed.
End PlainSound.

(* with the acceptor: a hit is in the class of its shape *)
Lemma plain_node_check_sound ST ns init tr c' st' prep i fr :
  g_accept ST (ginit init) O tr = (c', V_ok st') ->
  In (i, fr) (plain_node_check ST ns (fun nd s => (prep nd s, false)) O tr) ->
  exists nd a xs cols pg rows t,
    nth_error tr i = Some (TO_exec nd false a xs (OB_rows cols pg rows t)) /\
    if fr then KnownClass ST st' i cols
    else forall pa, In (prep nd (xa_stmt a)) pa -> KnownClassPrep pa false (xa_use_cached a) cols.
Proof.
  intros HA Hin.
  destruct (g_accept_sound ST _ _ _ _ _ HA) as [_ HM].
  assert (EV : plain_evidence ST ns tr prep i fr).
  { eapply (plain_node_check_trace ST ns tr prep tr O); [intros k o Hk; exact Hk| |exact Hin].
    intros nd s. simpl. split; [reflexivity|discriminate]. }
  destruct EV as (nd & a & xs & cols & pg & rows & t & Hn & (x & f & b & n & Hx & HQ & HS & _) & EV).
  exists nd, a, xs, cols, pg, rows, t. split; [exact Hn|].
  (* cached metadata was requested: the recorded frame is the model's, built without the extension *)
  assert (Huc : xa_use_cached a = true).
  { destruct (accepted_sentences ST init tr c' st' HA i nd false a xs _ Hn) as [_ [_ [H3 _]]].
    destruct (H3 f) as [m [Hf _]]; [rewrite <- HQ; now apply in_map|].
    rewrite Hf in HS. simpl in HS. now apply cp_skip_noext in HS. }
  pose proof (HM i _ Hn) as Mi. simpl in Mi. destruct Mi as [Hxi [Hei _]].
  destruct fr.
  - destruct EV as (j & o & x0 & c0 & Hj & Hnj & Hx0 & RP & NE).
    exists a. split; [exact Hxi|]. split; [exact Hei|]. split; [exact Huc|].
    destruct RP as (tx & pm & RQ & _ & RR & RC & RN).
    assert (HR : In (RPrepared (s_id (ST (xa_stmt a))) pm) (k_rcvd (g_calls st' j))).
    { pose proof (HM j _ Hnj) as Mj. destruct o as [nd' e' a' xs' out'|nd' e' b' xs' out'|nd' e']; simpl in Hx0; [| |destruct Hx0].
      - simpl in Mj. destruct Mj as [_ [_ [Hr _]]]. rewrite Hr. apply in_rev. rewrite rev_involutive.
        rewrite <- RR. now apply in_map.
      - simpl in Mj. destruct Mj as [_ [_ [Hr _]]]. rewrite Hr. apply in_rev. rewrite rev_involutive.
        rewrite <- RR. now apply in_map. }
    exists j, (s_id (ST (xa_stmt a))), pm. split; [exact HR|]. split; [reflexivity|]. rewrite RC. auto.
  - destruct EV as [N1 N2]. intros pa Hpa. split; [split; [reflexivity|exact Huc]|].
    exists (prep nd (xa_stmt a)). auto.
Qed.

(* ---- plain_node_check = its positional specification (both directions) ---- *)
Definition pn_step (ST : nat -> stmt) (ns : nat) (an : nat -> nat -> list col * bool) (o : top) :=
  match o with
  | TO_exec nd false _ xs _ | TO_batch nd false _ xs _ => fold_left (pn_xchg ST ns nd) xs an
  | _ => an
  end.
Definition pn_fold (ST : nat -> stmt) (ns : nat) (an : nat -> nat -> list col * bool) (tr : list top) :=
  fold_left (pn_step ST ns) tr an.

(* operation k of the history is a hit with flag fr, given the bookkeeping of everything recorded up to and
   including it *)
Definition pn_hit (ST : nat -> stmt) (ns : nat) (an : nat -> nat -> list col * bool) (tr : list top) (k : nat) (fr : bool) : Prop :=
  exists nd a xs cols pg rows t x f b n,
    nth_error tr k = Some (TO_exec nd false a xs (OB_rows cols pg rows t)) /\
    last (map Some xs) None = Some x /\ x_req x = Q_execute f /\ x_resp x = RRows b /\ rb_meta b = RM_none n /\
    f_skip f = true /\
    let e := pn_fold ST ns an (firstn (S k) tr) nd (xa_stmt a) in
    fst e <> [] /\ fst e <> cols /\ fr = snd e.

Lemma list_eqb_col_false a b : list_eqb col_eqb a b = false <-> a <> b.
Proof.
  split.
  - intros H E. subst. rewrite list_eqb_col_refl in H. discriminate.
  - intros N. destruct (list_eqb col_eqb a b) eqn:E; [|reflexivity]. exfalso. apply N. now apply list_eqb_col_eq.
Qed.
Lemma is_nil_iff {A} (l : list A) : is_nil l = false <-> l <> [].
Proof. destruct l; simpl; split; congruence. Qed.

Lemma plain_node_check_spec ST ns : forall tr an i0 i fr,
  In (i, fr) (plain_node_check ST ns an i0 tr) <-> exists k, i = (i0 + k)%nat /\ pn_hit ST ns an tr k fr.
Proof.
  induction tr as [|o r IH]; intros an i0 i fr.
  - simpl. split; [intros []|]. intros [k [_ H]]. destruct H as (nd & a & xs & cols & pg & rows & t & x & f & b & n & Hn & _).
    destruct k; discriminate Hn.
  - (* shifting the positional statement by one operation *)
    assert (SH : forall an', an' = pn_step ST ns an o ->
              ((exists k, i = (S i0 + k)%nat /\ pn_hit ST ns an' r k fr) <->
               (exists k, i = (i0 + S k)%nat /\ pn_hit ST ns an (o :: r) (S k) fr))).
    { intros an' ->. split; intros [k [E H]]; exists k; (split; [lia|]);
        destruct H as (nd & a & xs & cols & pg & rows & t & x & f & b & n & Hn & H1 & H2 & H3 & H4 & H5 & H6);
        exists nd, a, xs, cols, pg, rows, t, x, f, b, n; repeat (split; [assumption|]); exact H6. }
    assert (TAIL : forall an', an' = pn_step ST ns an o ->
              (In (i, fr) (plain_node_check ST ns an' (S i0) r) <->
               exists k, i = (i0 + S k)%nat /\ pn_hit ST ns an (o :: r) (S k) fr)).
    { intros an' E. rewrite IH. now apply SH. }
    (* a hit at position 0 needs this operation to be an execute on a node without the extension *)
    assert (NOHEAD : (forall nd a xs out, o <> TO_exec nd false a xs out) ->
              ((exists k, i = (i0 + k)%nat /\ pn_hit ST ns an (o :: r) k fr) <->
               (exists k, i = (i0 + S k)%nat /\ pn_hit ST ns an (o :: r) (S k) fr))).
    { intros NO. split.
      - intros [[|k] [E H]]; [|eauto]. exfalso.
        destruct H as (nd & a & xs & cols & pg & rows & t & x & f & b & n & Hn & _). simpl in Hn. inversion Hn. eapply NO; eauto.
      - intros [k [E H]]. eauto. }
    destruct o as [nd ext a xs out|nd ext b xs out|nd e].
    + destruct ext.
      * simpl. rewrite (TAIL an eq_refl). symmetry. apply NOHEAD. intros; discriminate.
      * cbn [plain_node_check]. set (an' := fold_left (pn_xchg ST ns nd) xs an).
        assert (EA : an' = pn_step ST ns an (TO_exec nd false a xs out)) by reflexivity.
        (* is position 0 a hit? *)
        assert (HEAD : forall fr0, pn_hit ST ns an (TO_exec nd false a xs out :: r) 0 fr0 <->
                  exists cols pg rows t x f b n, out = OB_rows cols pg rows t /\ last (map Some xs) None = Some x /\
                    x_req x = Q_execute f /\ x_resp x = RRows b /\ rb_meta b = RM_none n /\ f_skip f = true /\
                    fst (an' nd (xa_stmt a)) <> [] /\ fst (an' nd (xa_stmt a)) <> cols /\ fr0 = snd (an' nd (xa_stmt a))).
        { intros fr0. split.
          - intros (nd0 & a0 & xs0 & cols & pg & rows & t & x & f & b & n & Hn & H1 & H2 & H3 & H4 & H5 & H6).
            simpl in Hn. inversion Hn; subst. exists cols, pg, rows, t, x, f, b, n. repeat (split; [assumption||reflexivity|]). exact H6.
          - intros (cols & pg & rows & t & x & f & b & n & -> & H1 & H2 & H3 & H4 & H5 & H6).
            exists nd, a, xs, cols, pg, rows, t, x, f, b, n. split; [reflexivity|]. repeat (split; [assumption|]). exact H6. }
        assert (SPLIT : (exists k, i = (i0 + k)%nat /\ pn_hit ST ns an (TO_exec nd false a xs out :: r) k fr) <->
                        ((i = i0 /\ pn_hit ST ns an (TO_exec nd false a xs out :: r) 0 fr) \/
                         exists k, i = (i0 + S k)%nat /\ pn_hit ST ns an (TO_exec nd false a xs out :: r) (S k) fr)).
        { split.
          - intros [[|k] [E H]]; [left; split; [lia|exact H]|right; eauto].
          - intros [[E H]|[k [E H]]]; [exists O; split; [lia|exact H]|eauto]. }
        rewrite SPLIT, <- (TAIL an' EA), HEAD. clear SPLIT HEAD TAIL SH NOHEAD.
        destruct (last (map Some xs) None) as [x|] eqn:EL.
        2:{ split; [now right|]. intros [[_ (c & p & ro & t & x & f & b & n & _ & H & _)]|H]; [discriminate|exact H]. }
        destruct out as [cols pg rows t| |e].
        2:{ split; [now right|]. intros [[_ (c & p & ro & t & x0 & f & b & n & H & _)]|H]; [discriminate|exact H]. }
        2:{ split; [now right|]. intros [[_ (c & p & ro & t & x0 & f & b & n & H & _)]|H]; [discriminate|exact H]. }
        destruct (x_req x) as [f| |] eqn:EQ.
        2:{ split; [now right|]. intros [[_ (c & p & ro & t0 & x0 & f0 & b0 & n0 & _ & H1 & H2 & _)]|H]; [inversion H1; subst; congruence|exact H]. }
        2:{ split; [now right|]. intros [[_ (c & p & ro & t0 & x0 & f0 & b0 & n0 & _ & H1 & H2 & _)]|H]; [inversion H1; subst; congruence|exact H]. }
        destruct (x_resp x) as [b| | | | | |] eqn:ER;
          try (split; [now right|]; intros [[_ (c & p & ro & t0 & x0 & f0 & b0 & n & _ & H1 & _ & H3 & _)]|H]; [inversion H1; subst; congruence|exact H]).
        destruct (rb_meta b) as [n|nid c] eqn:EM.
        2:{ split; [now right|]. intros [[_ (c0 & p & ro & t0 & x0 & f0 & b0 & n & _ & H1 & _ & H3 & H4 & _)]|H]; [inversion H1; subst; rewrite ER in H3; inversion H3; subst; congruence|exact H]. }
        destruct (f_skip f && negb (is_nil (fst (an' nd (xa_stmt a)))) &&
                  negb (list_eqb col_eqb cols (fst (an' nd (xa_stmt a))))) eqn:EC.
        -- apply andb_true_iff in EC. destruct EC as [EC NE]. apply andb_true_iff in EC. destruct EC as [SK NN].
           apply negb_true_iff in NE. apply negb_true_iff in NN. apply is_nil_iff in NN.
           assert (NEQ : fst (an' nd (xa_stmt a)) <> cols).
           { intros E. rewrite E in NE. rewrite list_eqb_col_refl in NE. discriminate. }
           split.
           ++ intros [E|H]; [|now right]. inversion E; subst. left. split; [reflexivity|].
              exists cols, pg, rows, t, x, f, b, n. repeat (split; [reflexivity||assumption|]). reflexivity.
           ++ intros [[-> (c0 & p & ro & t0 & x0 & f0 & b0 & n0 & H0 & H1 & H2 & H3 & H4 & H5 & H6 & H7 & H8)]|H]; [|now right].
              left. rewrite H8. reflexivity.
        -- split; [now right|]. intros [[_ (c0 & p & ro & t0 & x0 & f0 & b0 & n0 & H0 & H1 & H2 & H3 & H4 & H5 & H6 & H7 & _)]|H]; [|exact H].
           exfalso. inversion H0; subst. inversion H1; subst. rewrite EQ in H2. inversion H2; subst.
           rewrite H5 in EC. apply is_nil_iff in H6. rewrite H6 in EC.
           assert (list_eqb col_eqb c0 (fst (an' nd (xa_stmt a))) = false) by (apply list_eqb_col_false; intros EE; now apply H7).
           rewrite H in EC. discriminate.
    + destruct ext.
      * simpl. rewrite (TAIL an eq_refl). symmetry. apply NOHEAD. intros; discriminate.
      * simpl. rewrite (TAIL _ eq_refl). symmetry. apply NOHEAD. intros; discriminate.
    + simpl. rewrite (TAIL an eq_refl). symmetry. apply NOHEAD. intros; discriminate.
Qed.
