(* Proofs about Model/Spec.v (property C13). *)
From SV Require Import Base.Prelude Model.Spec.
From Coq Require Import Ascii String Permutation.
Open Scope nat_scope.

(* ---------------- tables ---------------- *)

Lemma can_be_ignored_spec r : can_be_ignored r = is_ignorable (Some r).
Proof.
  destruct r as [v|e]; [reflexivity|].
  destruct e as [| | |a]; try reflexivity.
  destruct a as [| | | | | | |d| | | |]; try reflexivity.
  destruct d; reflexivity.
Qed.

Lemma is_real_ignorable_exhausted o :
  is_real o = negb (is_ignorable o) && negb (is_exhausted o).
Proof.
  unfold is_real, is_ignorable, is_exhausted, classify.
  destruct o as [[v|e]|]; try reflexivity. destruct (spec_transient e); reflexivity.
Qed.

Lemma all_request_errors_complete e : In e all_request_errors.
Proof.
  destruct e as [| | |a]; [vm_compute; tauto..|].
  destruct a as [| | | | | | |d| | | |]; try (vm_compute; tauto).
  destruct d; vm_compute; tauto.
Qed.

Lemma request_error_of_name_name e : request_error_of_name (request_error_name e) = Some e.
Proof.
  destruct e as [| | |a]; [vm_compute; reflexivity..|].
  destruct a as [| | | | | | |d| | | |]; try (vm_compute; reflexivity).
  destruct d; vm_compute; reflexivity.
Qed.

(* ---------------- lists ---------------- *)

Lemma mem_In f l : mem f l = true <-> In f l.
Proof.
  unfold mem. rewrite existsb_exists. split.
  - intros [x [Hx He]]. apply Nat.eqb_eq in He. subst. exact Hx.
  - intros H. exists f. split; [exact H|apply Nat.eqb_refl].
Qed.

Lemma remove_In f l g : In g (remove f l) <-> In g l /\ g <> f.
Proof.
  unfold remove. rewrite filter_In. rewrite negb_true_iff, Nat.eqb_neq. intuition congruence.
Qed.

Lemma remove_NoDup f l : NoDup l -> NoDup (remove f l).
Proof. apply NoDup_filter. Qed.

Lemma remove_length f l : NoDup l -> In f l -> S (List.length (remove f l)) = List.length l.
Proof.
  induction l as [|x l IH]; intros Hnd Hin; [destruct Hin|].
  inversion Hnd as [|? ? Hx Hnd']; subst. cbn [remove filter].
  destruct (Nat.eqb_spec f x) as [->|Hne]; cbn [negb].
  - assert (Hid : forall m, ~ In x m -> filter (fun g => negb (x =? g)) m = m).
    { induction m as [|y m IHm]; intros Hy; [reflexivity|]. cbn [filter].
      destruct (Nat.eqb_spec x y) as [->|Hxy]; [exfalso; apply Hy; left; reflexivity|].
      cbn [negb]. f_equal. apply IHm. intros H; apply Hy; right; exact H. }
    rewrite Hid by exact Hx. reflexivity.
  - cbn [List.length]. f_equal. apply IH; [exact Hnd'|].
    destruct Hin as [->|Hin]; [congruence|exact Hin].
Qed.

Lemma remove_length_le f l : List.length (remove f l) <= List.length l.
Proof.
  unfold remove. induction l as [|x l IH]; [apply le_n|]. cbn [filter].
  destruct (negb (f =? x)); cbn [List.length]; lia.
Qed.

Lemma remove_length_lt f l : In f l -> List.length (remove f l) < List.length l.
Proof.
  induction l as [|x l IH]; intros Hin; [destruct Hin|]. cbn [remove filter].
  destruct (Nat.eqb_spec f x) as [->|Hne]; cbn [negb List.length].
  - pose proof (remove_length_le x l). unfold remove in *. lia.
  - destruct Hin as [->|Hin]; [congruence|]. specialize (IH Hin). unfold remove in *. lia.
Qed.

Lemma NoDup_snoc {A} (l : list A) x : NoDup l -> ~ In x l -> NoDup (l ++ [x]).
Proof.
  induction l as [|y l IH]; intros Hnd Hx; cbn [app].
  - constructor; [intros []|constructor].
  - inversion Hnd as [|? ? Hy Hnd']; subst. constructor.
    + intros Hin. apply in_app_or in Hin. destruct Hin as [Hin|[<-|[]]]; [exact (Hy Hin)|].
      apply Hx. left; reflexivity.
    + apply IH; [exact Hnd'|]. intros H; apply Hx; right; exact H.
Qed.

(* ---------------- schedules ---------------- *)

Lemma run_app s a b :
  run s (a ++ b) = match run s a with Some s' => run s' b | None => None end.
Proof.
  revert s; induction a as [|l a IH]; intros s; [reflexivity|].
  cbn [app run]. destruct (step s l); [apply IH|reflexivity].
Qed.

Lemma run_snoc s a l :
  run s (a ++ [l]) = match run s a with Some s' => step s' l | None => None end.
Proof. rewrite run_app. destruct (run s a) as [s'|]; [|reflexivity]. cbn [run]. destruct (step s' l); reflexivity. Qed.

Lemma completions_app a b : completions (a ++ b) = completions a ++ completions b.
Proof. unfold completions. apply flat_map_app. Qed.

Lemma is_real_some o : is_real o = true -> exists r, o = Some r.
Proof. destruct o as [r|]; [eauto|discriminate]. Qed.

Lemma first_real_app a b :
  first_real (a ++ b) = match first_real a with Some r => Some r | None => first_real b end.
Proof.
  induction a as [|o a IH]; [reflexivity|]. cbn [app first_real].
  destruct (is_real o) eqn:Hr; [|exact IH].
  destruct (is_real_some _ Hr) as [r ->]. reflexivity.
Qed.

Lemma first_real_some cs r : first_real cs = Some r -> In (Some r) cs /\ is_real (Some r) = true.
Proof.
  induction cs as [|o cs IH]; [discriminate|]. cbn [first_real].
  destruct (is_real o) eqn:Hr.
  - intros ->. split; [left; reflexivity|exact Hr].
  - intros H. destruct (IH H). split; [right; assumption|assumption].
Qed.

Lemma first_real_none cs : first_real cs = None <-> forall o, In o cs -> is_real o = false.
Proof.
  induction cs as [|o cs IH]; cbn [first_real].
  - split; [intros _ o []|reflexivity].
  - destruct (is_real o) eqn:Hr.
    + destruct (is_real_some _ Hr) as [r ->]. split; [discriminate|].
      intros H. specialize (H (Some r) (or_introl eq_refl)). congruence.
    + rewrite IH. split.
      * intros H o' [<-|Hin]; [exact Hr|apply H; exact Hin].
      * intros H o' Hin. apply H. right; exact Hin.
Qed.

Lemma last_ignorable_from_app acc a b :
  last_ignorable_from acc (a ++ b) = last_ignorable_from (last_ignorable_from acc a) b.
Proof. revert acc; induction a as [|o a IH]; intros acc; [reflexivity|]. cbn [app last_ignorable_from]. apply IH. Qed.

Lemma last_ignorable_snoc cs o :
  last_ignorable (cs ++ [o]) = if is_ignorable o then o else last_ignorable cs.
Proof. unfold last_ignorable. rewrite last_ignorable_from_app. reflexivity. Qed.

Lemma existsb_snoc {A} (p : A -> bool) l x : existsb p (l ++ [x]) = existsb p l || p x.
Proof. rewrite existsb_app. cbn [existsb]. rewrite orb_false_r. reflexivity. Qed.

(* ---------------- the invariant of execute ---------------- *)

Record Inv (max : nat) (ls : list label) (s : state) : Prop := mkInv {
  inv_nodup : NoDup (running s);
  inv_lt : forall f, In f (running s) -> f < started s;
  inv_bound : started s + retries s <= 1 + max;
  inv_bound_eq : existsb is_exhausted (completions ls) = false -> started s + retries s = 1 + max;
  inv_exh : existsb is_exhausted (completions ls) = true -> retries s = 0;
  inv_count : List.length (completions ls) + List.length (running s) = started s;
  inv_live : returned s = None ->
             (retries s > 0 -> sleep s = Armed) /\ (running s = [] -> retries s > 0);
  inv_pending : returned s = None ->
             first_real (completions ls) = None /\ last_error s = last_ignorable (completions ls);
  inv_ret : forall r, returned s = Some r ->
             first_real (completions ls) = Some r \/
             (first_real (completions ls) = None /\ running s = [] /\ retries s = 0 /\
              r = or_empty_plan (last_ignorable (completions ls)))
}.

Lemma inv_init max : Inv max [] (init max).
Proof.
  constructor; cbn.
  - repeat constructor. intros [].
  - intros f [<-|[]]. lia.
  - lia.
  - intros _. lia.
  - discriminate.
  - reflexivity.
  - intros _. split; [reflexivity|discriminate].
  - intros _. split; reflexivity.
  - discriminate.
Qed.

Lemma inv_timer max ls s s' :
  Inv max ls s -> returned s = None -> on_timer s = Some s' -> Inv max (ls ++ [Timer]) s'.
Proof.
  intros I Hret H. unfold on_timer in H.
  destruct (sleep s) eqn:Hsl; [|discriminate].
  assert (Hc : completions (ls ++ [Timer]) = completions ls).
  { rewrite completions_app. cbn. apply app_nil_r. }
  destruct I as [Ind Ilt Ib Ibe Iex Ic Il Ip Ir].
  destruct (Il Hret) as [Il1 Il2]. destruct (Ip Hret) as [Ip1 Ip2].
  destruct (retries s) as [|r] eqn:Hr; inversion H; subst s'; clear H;
    constructor; rewrite ?Hc; cbn [running retries sleep started returned last_error].
  - exact Ind.
  - exact Ilt.
  - lia.
  - exact Ibe.
  - intros _; reflexivity.
  - exact Ic.
  - intros _. split; [lia|]. intros Hrun. specialize (Il2 Hrun). lia.
  - intros _. split; assumption.
  - intros r0 Hr0. congruence.
  - apply NoDup_snoc; [exact Ind|]. intros Hin. specialize (Ilt _ Hin). lia.
  - intros f Hin. apply in_app_or in Hin. destruct Hin as [Hin|[<-|[]]]; [specialize (Ilt _ Hin)|]; lia.
  - lia.
  - intros He. specialize (Ibe He). lia.
  - intros He. specialize (Iex He). discriminate.
  - rewrite app_length. cbn [List.length]. lia.
  - intros _. split; [reflexivity|]. intros Hnil. destruct (running s); discriminate.
  - intros _. split; assumption.
  - intros r0 Hr0. congruence.
Qed.

Lemma inv_finish max ls m :
  returned m = None ->
  NoDup (running m) ->
  (forall f, In f (running m) -> f < started m) ->
  started m + retries m <= 1 + max ->
  (existsb is_exhausted (completions ls) = false -> started m + retries m = 1 + max) ->
  (existsb is_exhausted (completions ls) = true -> retries m = 0) ->
  List.length (completions ls) + List.length (running m) = started m ->
  (retries m > 0 -> sleep m = Armed) ->
  first_real (completions ls) = None ->
  last_error m = last_ignorable (completions ls) ->
  Inv max ls (finish_check m).
Proof.
  intros Hret Hnd Hlt Hb Hbe Hex Hc Hl Hfr Hle.
  unfold finish_check.
  destruct (running m) as [|g rest] eqn:Hrun.
  - destruct (retries m) as [|r] eqn:Hr.
    + constructor; cbn [running retries sleep started returned last_error]; rewrite ?Hrun, ?Hr; auto;
        try discriminate.
      intros r0 Hr0. inversion Hr0; subst r0. right. rewrite Hle. auto.
    + constructor; rewrite ?Hrun, ?Hr; auto.
      * intros _. split; [intros _; apply Hl; lia|intros _; lia].
      * intros r0 Hr0. congruence.
  - constructor; rewrite ?Hrun; auto.
    + intros _. split; [exact Hl|discriminate].
    + intros r0 Hr0. congruence.
Qed.

Lemma inv_complete max ls s f o s' :
  Inv max ls s -> returned s = None -> on_complete s f o = Some s' ->
  Inv max (ls ++ [Complete f o]) s'.
Proof.
  intros I Hret H. unfold on_complete in H.
  destruct (mem f (running s)) eqn:Hm; [|discriminate]. apply mem_In in Hm.
  assert (Hc : completions (ls ++ [Complete f o]) = completions ls ++ [o]).
  { rewrite completions_app. reflexivity. }
  destruct I as [Ind Ilt Ib Ibe Iex Ic Il Ip Ir].
  destruct (Il Hret) as [Il1 Il2]. destruct (Ip Hret) as [Ip1 Ip2].
  pose proof (remove_NoDup f _ Ind) as Hnd'.
  assert (Hlt' : forall g, In g (remove f (running s)) -> g < started s).
  { intros g Hg. apply remove_In in Hg. apply Ilt. tauto. }
  pose proof (remove_length f _ Ind Hm) as Hlen.
  assert (Hcnt : List.length (completions ls ++ [o]) + List.length (remove f (running s)) = started s).
  { rewrite app_length. cbn [List.length]. lia. }
  destruct o as [r|].
  - destruct (can_be_ignored r) eqn:Hign; inversion H; subst s'; clear H.
    + (* ignorable: remembered, maybe the end *)
      rewrite can_be_ignored_spec in Hign.
      assert (Hnr : is_real (Some r) = false).
      { rewrite is_real_ignorable_exhausted, Hign. reflexivity. }
      apply inv_finish; cbn [running retries sleep started returned last_error]; rewrite ?Hc; auto.
      * rewrite existsb_snoc. cbn [is_exhausted]. rewrite orb_false_r. exact Ibe.
      * rewrite existsb_snoc. cbn [is_exhausted]. rewrite orb_false_r. exact Iex.
      * rewrite first_real_app, Ip1. cbn [first_real]. rewrite Hnr. reflexivity.
      * rewrite last_ignorable_snoc, Hign. reflexivity.
    + (* a real answer: returned at once *)
      rewrite can_be_ignored_spec in Hign.
      assert (Hre : is_real (Some r) = true).
      { rewrite is_real_ignorable_exhausted, Hign. reflexivity. }
      constructor; cbn [running retries sleep started returned last_error]; rewrite ?Hc; auto.
      * rewrite existsb_snoc. cbn [is_exhausted]. rewrite orb_false_r. exact Ibe.
      * rewrite existsb_snoc. cbn [is_exhausted]. rewrite orb_false_r. exact Iex.
      * discriminate.
      * discriminate.
      * intros r0 Hr0. inversion Hr0; subst r0. left.
        rewrite first_real_app, Ip1. cbn [first_real]. rewrite Hre. reflexivity.
  - (* the plan is exhausted: no further execution will be started *)
    inversion H; subst s'; clear H.
    apply inv_finish; cbn [running retries sleep started returned last_error]; rewrite ?Hc; auto.
    + lia.
    + rewrite existsb_snoc. cbn [is_exhausted]. rewrite orb_true_r. discriminate.
    + lia.
    + rewrite first_real_app, Ip1. reflexivity.
    + rewrite last_ignorable_snoc. cbn. exact Ip2.
Qed.

Lemma inv_step max ls s l s' :
  Inv max ls s -> step s l = Some s' -> Inv max (ls ++ [l]) s'.
Proof.
  intros I H. unfold step in H. destruct (returned s) eqn:Hret; [discriminate|].
  destruct l as [|f o]; [eapply inv_timer|eapply inv_complete]; eassumption.
Qed.

Theorem inv_reachable max ls s : run (init max) ls = Some s -> Inv max ls s.
Proof.
  revert s. induction ls as [|l ls IH] using rev_ind; intros s H.
  - inversion H; subst. apply inv_init.
  - rewrite run_snoc in H. destruct (run (init max) ls) as [s0|] eqn:H0; [|discriminate].
    eapply inv_step; [apply IH; reflexivity|exact H].
Qed.

(* ---------------- the theorems about execute ---------------- *)

Lemma execute_bound max ls s :
  run (init max) ls = Some s ->
  started s <= 1 + max /\ NoDup (running s) /\ (forall f, In f (running s) -> f < started s) /\
  List.length (completions ls) + List.length (running s) = started s /\
  (existsb is_exhausted (completions ls) = false -> started s + retries s = 1 + max).
Proof.
  intros H. destruct (inv_reachable _ _ _ H). repeat split; auto. lia.
Qed.

Lemma execute_result max ls s :
  run (init max) ls = Some s ->
  returned s = spec_returned max (started s) (completions ls).
Proof.
  intros H. destruct (inv_reachable _ _ _ H) as [Ind Ilt Ib Ibe Iex Ic Il Ip Ir].
  unfold spec_returned.
  destruct (returned s) as [r|] eqn:Hret.
  - destruct (Ir r eq_refl) as [Hf|(Hf & Hrun & Hr & ->)]; rewrite Hf; [reflexivity|].
    rewrite Hrun in Ic. cbn [List.length] in Ic.
    replace (List.length (completions ls) =? started s) with true by (symmetry; apply Nat.eqb_eq; lia).
    destruct (existsb is_exhausted (completions ls)) eqn:He.
    + rewrite orb_true_r. reflexivity.
    + specialize (Ibe eq_refl).
      replace (started s =? 1 + max) with true by (symmetry; apply Nat.eqb_eq; lia). reflexivity.
  - destruct (Il eq_refl) as [Il1 Il2]. destruct (Ip eq_refl) as [Ip1 Ip2]. rewrite Ip1.
    destruct (List.length (completions ls) =? started s) eqn:Hl; [|reflexivity].
    apply Nat.eqb_eq in Hl.
    assert (Hrun : running s = []) by (destruct (running s); [reflexivity|cbn [List.length] in Ic; lia]).
    specialize (Il2 Hrun).
    destruct (started s =? 1 + max) eqn:Hs.
    + apply Nat.eqb_eq in Hs. lia.
    + destruct (existsb is_exhausted (completions ls)) eqn:He; [|reflexivity].
      specialize (Iex eq_refl). lia.
Qed.

Lemma execute_no_deadlock max ls s :
  run (init max) ls = Some s -> returned s = None ->
  (running s = [] -> sleep s = Armed /\ retries s > 0) /\
  exists l s', step s l = Some s'.
Proof.
  intros H Hret. destruct (inv_reachable _ _ _ H) as [Ind Ilt Ib Ibe Iex Ic Il Ip Ir].
  destruct (Il Hret) as [Il1 Il2]. split.
  - intros Hrun. specialize (Il2 Hrun). split; [apply Il1|]; assumption.
  - destruct (running s) as [|f rest] eqn:Hrun.
    + specialize (Il2 eq_refl). specialize (Il1 Il2).
      exists Timer. unfold step, on_timer. rewrite Hret, Il1. destruct (retries s); eauto.
    + exists (Complete f None). unfold step, on_complete. rewrite Hret, Hrun.
      replace (mem f (f :: rest)) with true by (symmetry; apply mem_In; left; reflexivity). eauto.
Qed.

Lemma measure_finish_check m : measure (finish_check m) = measure m.
Proof.
  unfold finish_check. destruct (running m) eqn:Hrun; [destruct (retries m) eqn:Hr|]; try reflexivity.
  unfold measure. cbn [retries running sleep]. rewrite Hrun, Hr. reflexivity.
Qed.

Lemma step_measure s l s' : step s l = Some s' -> measure s' < measure s.
Proof.
  unfold step. destruct (returned s); [discriminate|]. destruct l as [|f o].
  - unfold on_timer. destruct (sleep s) eqn:Hsl; [|discriminate].
    destruct (retries s) eqn:Hr; intros H; inversion H; subst s'; unfold measure;
      cbn [retries running sleep]; rewrite ?Hsl, ?Hr, ?app_length; cbn [List.length]; lia.
  - unfold on_complete. destruct (mem f (running s)) eqn:Hm; [|discriminate].
    apply mem_In in Hm. pose proof (remove_length_lt _ _ Hm) as Hlt.
    destruct o as [r|]; [destruct (can_be_ignored r)|]; intros H; inversion H; subst s';
      rewrite ?measure_finish_check; unfold measure; cbn [retries running sleep]; lia.
Qed.

Lemma run_measure s ls s' : run s ls = Some s' -> List.length ls + measure s' <= measure s.
Proof.
  revert s; induction ls as [|l ls IH]; intros s H; cbn [run] in H.
  - inversion H; subst. cbn. lia.
  - destruct (step s l) as [s1|] eqn:Hs; [|discriminate].
    apply step_measure in Hs. specialize (IH _ H). cbn [List.length]. lia.
Qed.

Lemma execute_terminates max ls s : run (init max) ls = Some s -> List.length ls <= 3 * max + 3.
Proof. intros H. apply run_measure in H. unfold measure, init in H. cbn in H. lia. Qed.

Lemma execute_always_returns max ls s :
  run (init max) ls = Some s -> (forall l, step s l = None) -> returned s <> None.
Proof.
  intros H Hstuck Hret. destruct (execute_no_deadlock _ _ _ H Hret) as [_ (l & s' & Hs)].
  rewrite Hstuck in Hs. discriminate.
Qed.

(* from every reachable state some continuation returns *)
Lemma execute_can_return max ls s :
  run (init max) ls = Some s -> exists ls' s' r, run s ls' = Some s' /\ returned s' = Some r.
Proof.
  remember (measure s) as n eqn:Hn. revert ls s Hn.
  induction n as [n IH] using lt_wf_ind. intros ls s Hn H.
  destruct (returned s) as [r|] eqn:Hret.
  - exists [], s, r. split; [reflexivity|exact Hret].
  - destruct (execute_no_deadlock _ _ _ H Hret) as [_ (l & s1 & Hs)].
    assert (H1 : run (init max) (ls ++ [l]) = Some s1) by (rewrite run_snoc, H; exact Hs).
    pose proof (step_measure _ _ _ Hs) as Hm.
    destruct (IH (measure s1) ltac:(lia) _ _ eq_refl H1) as (ls' & s' & r & Hrun & Hr).
    exists (l :: ls'), s', r. split; [cbn [run]; rewrite Hs; exact Hrun|exact Hr].
Qed.

(* ---------------- virtual time ---------------- *)

Lemma list_min_spec l m : list_min l = Some m -> In m l /\ forall x, In x l -> (m <= x)%N.
Proof.
  revert m; induction l as [|x l IH]; intros m H; [discriminate|]. cbn [list_min] in H.
  destruct (list_min l) as [m0|] eqn:Hl.
  - inversion H; subst m. destruct (IH _ eq_refl) as [Hin Hle]. split.
    + destruct (N.min_spec x m0) as [[_ ->]|[_ ->]]; [left; reflexivity|right; exact Hin].
    + intros y [<-|Hy]; [apply N.le_min_l|]. specialize (Hle _ Hy). pose proof (N.le_min_r x m0). lia.
  - inversion H; subst m. destruct l; [|cbn [list_min] in Hl; destruct (list_min l); discriminate].
    split; [left; reflexivity|]. intros y [<-|[]]. lia.
Qed.

Lemma list_min_none l : list_min l = None -> l = [].
Proof. destruct l as [|x l]; [reflexivity|]. cbn [list_min]. destruct (list_min l); discriminate. Qed.

Definition finS (fs : fibers) (sts : list N) (k : nat) : N := (nth k sts 0 + fiber_dur fs k)%N.

Lemma fin_finS fs t k : fin fs t k = finS fs (starts t) k.
Proof. reflexivity. Qed.

Lemma finS_snoc fs sts x k : k < List.length sts -> finS fs (sts ++ [x]) k = finS fs sts k.
Proof. intros H. unfold finS. rewrite app_nth1 by exact H. reflexivity. Qed.

Lemma finS_new fs sts x : finS fs (sts ++ [x]) (List.length sts) = (x + fiber_dur fs (List.length sts))%N.
Proof. unfold finS. rewrite app_nth2 by lia. rewrite Nat.sub_diag. reflexivity. Qed.

Lemma event_times_In fs t x :
  In x (event_times fs t) <->
  (sleep (ts t) = Armed /\ x = deadline t) \/ (exists k, In k (running (ts t)) /\ x = fin fs t k).
Proof.
  unfold event_times. rewrite in_app_iff, in_map_iff. split.
  - intros [H|[k [Hk Hin]]].
    + destruct (sleep (ts t)); [destruct H as [<-|[]]; left; auto|destruct H].
    + right. exists k. auto.
  - intros [[Hs ->]|[k [Hin ->]]].
    + left. rewrite Hs. left; reflexivity.
    + right. exists k. auto.
Qed.

Lemma ready_In fs t tn l :
  In l (ready fs t tn) <->
  (l = Timer /\ sleep (ts t) = Armed /\ deadline t = tn) \/
  (exists k, l = Complete k (fiber_res fs k) /\ In k (running (ts t)) /\ fin fs t k = tn).
Proof.
  unfold ready. rewrite in_app_iff, in_map_iff. split.
  - intros [H|[k [Hk Hin]]].
    + destruct (sleep (ts t)); [|destruct H].
      destruct (N.eqb_spec (deadline t) tn); [destruct H as [<-|[]]; left; auto|destruct H].
    + apply filter_In in Hin. destruct Hin as [Hin He]. apply N.eqb_eq in He.
      right. exists k. auto.
  - intros [(-> & Hs & Hd)|(k & -> & Hin & Hf)].
    + left. rewrite Hs. rewrite (proj2 (N.eqb_eq _ _) Hd). left; reflexivity.
    + right. exists k. split; [reflexivity|]. apply filter_In. split; [exact Hin|]. apply N.eqb_eq. exact Hf.
Qed.

Definition completed (s : state) (k : nat) : Prop := k < started s /\ ~ In k (running s).

Lemma started_cases s k : k < started s -> In k (running s) \/ completed s k.
Proof. intros H. destruct (in_dec Nat.eq_dec k (running s)); [left|right; split]; assumption. Qed.

(* the property on an observation, as a proposition *)
Definition PropObs (max : nat) (fs : fibers) (sts : list N) (r : rres) (e : N) : Prop :=
  let n := List.length sts in
  1 <= n <= 1 + max /\
  ((exists j, j < n /\ is_real (fiber_res fs j) = true /\ fiber_res fs j = Some r /\ finS fs sts j = e /\
      forall k, k < n -> is_real (fiber_res fs k) = true -> (e <= finS fs sts k)%N)
   \/
   ((forall k, k < n -> is_real (fiber_res fs k) = false) /\
    (forall k, k < n -> (finS fs sts k <= e)%N) /\
    (exists k, k < n /\ finS fs sts k = e) /\
    (n = 1 + max \/ exists k, k < n /\ is_exhausted (fiber_res fs k) = true) /\
    (((forall k, k < n -> is_ignorable (fiber_res fs k) = false) /\ r = Err EmptyPlan)
     \/
     (exists j, j < n /\ is_ignorable (fiber_res fs j) = true /\ fiber_res fs j = Some r /\
        forall k, k < n -> is_ignorable (fiber_res fs k) = true -> (finS fs sts k <= finS fs sts j)%N)))).

Record TInv (max : nat) (fs : fibers) (t : tstate) : Prop := mkTInv {
  t_run : run (init max) (rev (hist t)) = Some (ts t);
  t_len : List.length (starts t) = started (ts t);
  t_fut : returned (ts t) = None -> forall k, In k (running (ts t)) -> (now t <= fin fs t k)%N;
  t_dl : returned (ts t) = None -> sleep (ts t) = Armed -> (now t <= deadline t)%N;
  t_past : forall k, completed (ts t) k -> (fin fs t k <= now t)%N;
  t_nonreal : returned (ts t) = None ->
      forall k, completed (ts t) k -> is_real (fiber_res fs k) = false;
  t_lasterr : returned (ts t) = None ->
      match last_error (ts t) with
      | None => forall k, completed (ts t) k -> is_ignorable (fiber_res fs k) = false
      | Some r => exists j, completed (ts t) j /\ is_ignorable (fiber_res fs j) = true /\
                    fiber_res fs j = Some r /\
                    forall k, completed (ts t) k -> is_ignorable (fiber_res fs k) = true ->
                              (fin fs t k <= fin fs t j)%N
      end;
  t_exh : returned (ts t) = None ->
      started (ts t) + retries (ts t) = 1 + max \/
      (retries (ts t) = 0 /\ exists k, completed (ts t) k /\ is_exhausted (fiber_res fs k) = true);
  t_ret : forall r, returned (ts t) = Some r -> PropObs max fs (starts t) r (now t)
}.

Lemma tinv_init max interval fs : TInv max fs (tinit max interval).
Proof.
  constructor; cbn.
  - reflexivity.
  - reflexivity.
  - intros _ k [<-|[]]. apply N.le_0_l.
  - intros _ _. apply N.le_0_l.
  - intros k [Hlt Hnin]. exfalso. apply Hnin. left. cbn in Hlt. lia.
  - intros _ k [Hlt Hnin]. exfalso. apply Hnin. left. cbn in Hlt. lia.
  - intros _ k [Hlt Hnin]. exfalso. apply Hnin. left. cbn in Hlt. lia.
  - intros _. left. lia.
  - discriminate.
Qed.

Lemma tinv_now_le max fs t tn :
  TInv max fs t -> returned (ts t) = None -> list_min (event_times fs t) = Some tn ->
  (now t <= tn)%N /\ forall x, In x (event_times fs t) -> (tn <= x)%N.
Proof.
  intros T Hret Hmin. destruct (list_min_spec _ _ Hmin) as [Hin Hle]. split; [|exact Hle].
  apply event_times_In in Hin. destruct Hin as [[Hs ->]|[k [Hk ->]]].
  - apply (t_dl _ _ _ T Hret Hs).
  - apply (t_fut _ _ _ T Hret _ Hk).
Qed.

Lemma tinv_timer max interval fs t tn t' :
  TInv max fs t -> returned (ts t) = None -> list_min (event_times fs t) = Some tn ->
  sleep (ts t) = Armed -> deadline t = tn ->
  tstep interval t Timer tn = Some t' -> TInv max fs t'.
Proof.
  intros T Hret Hmin Hsl Hdl Hstep.
  destruct (tinv_now_le _ _ _ _ T Hret Hmin) as [Hnow Hle].
  destruct T as [Trun Tlen Tfut Tdl Tpast Tnr Tle Tex Tret].
  pose proof (inv_reachable _ _ _ Trun) as I.
  destruct t as [s nw dl sts h]. cbn [ts now deadline starts hist] in *.
  unfold tstep in Hstep. cbn [ts now deadline starts hist] in Hstep.
  destruct (step s Timer) as [s'|] eqn:Hs; [|discriminate].
  assert (Hrun' : run (init max) (rev (Timer :: h)) = Some s').
  { cbn [rev]. rewrite run_snoc, Trun. exact Hs. }
  unfold step in Hs. rewrite Hret in Hs. unfold on_timer in Hs. rewrite Hsl in Hs.
  destruct (retries s) as [|r] eqn:Hr; inversion Hs; subst s'; clear Hs;
    cbn [started] in Hstep.
  - (* no retry left: the sleep is not re-armed *)
    rewrite Nat.eqb_refl in Hstep. inversion Hstep; subst t'; clear Hstep.
    constructor; unfold completed, fin, finS in *;
      cbn [ts now deadline starts hist running retries sleep started returned last_error] in *.
    + exact Hrun'.
    + exact Tlen.
    + intros _ k Hk. apply Hle. apply event_times_In. right. exists k. split; [exact Hk|reflexivity].
    + discriminate.
    + intros k Hk. specialize (Tpast k Hk). lia.
    + exact Tnr.
    + exact Tle.
    + intros _. destruct (Tex Hret) as [H|H]; [left; lia|right; exact H].
    + intros r0 Hr0. congruence.
  - (* a speculative execution is started now *)
    replace (S (started s) =? started s) with false in Hstep by (symmetry; apply Nat.eqb_neq; lia).
    inversion Hstep; subst t'; clear Hstep.
    assert (Hcomp : forall k, (k < S (started s) /\ ~ In k (running s ++ [started s])) <->
                              (k < started s /\ ~ In k (running s))).
    { intros k. rewrite in_app_iff. cbn [In]. split.
      - intros [Hlt Hn]. assert (k <> started s) by (intros ->; apply Hn; right; left; reflexivity).
        split; [lia|]. intros Hin; apply Hn; left; exact Hin.
      - intros [Hlt Hn]. split; [lia|]. intros [Hin|[He|[]]]; [exact (Hn Hin)|lia]. }
    assert (Hfin : forall k, k < started s -> finS fs (sts ++ [tn]) k = finS fs sts k).
    { intros k Hk. apply finS_snoc. lia. }
    constructor; unfold completed, fin, finS in *;
      cbn [ts now deadline starts hist running retries sleep started returned last_error] in *.
    + exact Hrun'.
    + rewrite app_length. cbn [List.length]. lia.
    + intros _ k Hk. apply in_app_or in Hk. destruct Hk as [Hk|[<-|[]]].
      * rewrite Hfin by (apply (inv_lt _ _ _ I); exact Hk).
        apply Hle. apply event_times_In. right. exists k. split; [exact Hk|reflexivity].
      * rewrite <- Tlen. pose proof (finS_new fs sts tn) as Hnew. unfold finS in Hnew. rewrite Hnew. lia.
    + intros _ _. lia.
    + intros k Hk. apply Hcomp in Hk. rewrite Hfin by tauto. specialize (Tpast k Hk). lia.
    + intros _ k Hk. apply Hcomp in Hk. apply Tnr; auto.
    + intros _. specialize (Tle Hret). destruct (last_error s) as [r0|].
      * destruct Tle as (j & Hj & Hi & Hres & Hmax). exists j. split; [apply Hcomp; exact Hj|].
        split; [exact Hi|]. split; [exact Hres|]. intros k Hk Hik. apply Hcomp in Hk.
        rewrite !Hfin by tauto. apply Hmax; assumption.
      * intros k Hk. apply Hcomp in Hk. apply Tle. exact Hk.
    + intros _. destruct (Tex Hret) as [H|[H _]]; [left; lia|lia].
    + intros r0 Hr0. congruence.
Qed.

Lemma on_complete_started s f o s' : on_complete s f o = Some s' -> started s' = started s.
Proof.
  unfold on_complete. destruct (mem f (running s)); [|discriminate].
  assert (Hfc : forall m, started (finish_check m) = started m).
  { intros m. unfold finish_check. destruct (running m); [destruct (retries m)|]; reflexivity. }
  destruct o as [r|]; [destruct (can_be_ignored r)|]; intros H; inversion H; subst s';
    rewrite ?Hfc; reflexivity.
Qed.

Lemma tinv_complete max interval fs t tn k t' :
  TInv max fs t -> returned (ts t) = None -> list_min (event_times fs t) = Some tn ->
  In k (running (ts t)) -> fin fs t k = tn ->
  tstep interval t (Complete k (fiber_res fs k)) tn = Some t' -> TInv max fs t'.
Proof.
  intros T Hret Hmin Hk Hfk Hstep.
  destruct (tinv_now_le _ _ _ _ T Hret Hmin) as [Hnow Hle].
  destruct T as [Trun Tlen Tfut Tdl Tpast Tnr Tle Tex Tret].
  pose proof (inv_reachable _ _ _ Trun) as I.
  destruct t as [s nw dl sts h]. cbn [ts now deadline starts hist] in *.
  unfold tstep in Hstep. cbn [ts now deadline starts hist] in Hstep.
  destruct (step s (Complete k (fiber_res fs k))) as [s'|] eqn:Hs; [|discriminate].
  assert (Hrun' : run (init max) (rev (Complete k (fiber_res fs k) :: h)) = Some s').
  { cbn [rev]. rewrite run_snoc, Trun. exact Hs. }
  unfold step in Hs. rewrite Hret in Hs.
  rewrite (on_complete_started _ _ _ _ Hs), Nat.eqb_refl in Hstep.
  inversion Hstep; subst t'; clear Hstep.
  pose proof (inv_lt _ _ _ I _ Hk) as Hklt.
  pose proof (inv_bound _ _ _ I) as Hbound.
  assert (Hcomp : forall j, (j < started s /\ ~ In j (remove k (running s))) <->
                            ((j < started s /\ ~ In j (running s)) \/ j = k)).
  { intros j. rewrite remove_In. split.
    - intros [Hlt Hn]. destruct (Nat.eq_dec j k) as [->|Hne]; [right; reflexivity|].
      left. split; [exact Hlt|]. intros Hin. apply Hn. split; assumption.
    - intros [[Hlt Hn]| ->]; (split; [assumption|]); intros [Hin Hne]; [exact (Hn Hin)|congruence]. }
  assert (Hev : forall j, In j (running s) -> (tn <= finS fs sts j)%N).
  { intros j Hj. apply Hle. apply event_times_In. right. exists j. split; [exact Hj|reflexivity]. }
  unfold completed, fin, finS in *. cbn [ts now deadline starts hist] in *.
  assert (Hpast : forall j, j < started s /\ ~ In j (running s) -> (nth j sts 0 + fiber_dur fs j <= tn)%N).
  { intros j Hj. specialize (Tpast j Hj). lia. }
  (* every started execution is the completing one, an earlier completed one, or still running *)
  assert (Hsplit : forall j, j < started s ->
             j = k \/ (j < started s /\ ~ In j (running s)) \/ (In j (running s) /\ j <> k)).
  { intros j Hj. destruct (Nat.eq_dec j k) as [->|Hne]; [left; reflexivity|].
    destruct (in_dec Nat.eq_dec j (running s)); [right; right|right; left]; auto. }
  unfold on_complete in Hs.
  replace (mem k (running s)) with true in Hs by (symmetry; apply mem_In; exact Hk).
  destruct (fiber_res fs k) as [r|] eqn:Hres.
  - destruct (can_be_ignored r) eqn:Hign; rewrite can_be_ignored_spec in Hign.
    + (* ignorable *)
      assert (Hnr : is_real (fiber_res fs k) = false).
      { rewrite Hres, is_real_ignorable_exhausted, Hign. reflexivity. }
      inversion Hs; subst s'; clear Hs. unfold finish_check in *.
      cbn [running retries sleep started returned last_error] in *.
      destruct (remove k (running s)) as [|g rest] eqn:Hrem; [destruct (retries s) as [|rr] eqn:Hr|].
      * (* last one, no retry left: the call returns this error *)
        constructor; unfold completed, fin; cbn [ts now deadline starts hist running retries sleep started returned last_error].
        -- exact Hrun'.
        -- exact Tlen.
        -- discriminate.
        -- discriminate.
        -- intros j Hj. apply Hcomp in Hj. destruct Hj as [Hj| ->]; [apply Hpast; exact Hj|lia].
        -- discriminate.
        -- discriminate.
        -- discriminate.
        -- intros r0 Hr0. inversion Hr0; subst r0; clear Hr0. unfold PropObs. rewrite Tlen.
           assert (Hall : forall j, j < started s -> j = k \/ (j < started s /\ ~ In j (running s))).
           { intros j Hj. destruct (Hsplit j Hj) as [H|[H|[Hin Hne]]]; auto.
             exfalso. assert (Hx : In j (remove k (running s))) by (apply remove_In; auto).
             rewrite Hrem in Hx. destruct Hx. }
           split; [lia|]. right. repeat split.
           ++ intros j Hj. destruct (Hall j Hj) as [->|Hc]; [exact Hnr|apply Tnr; auto].
           ++ intros j Hj. unfold finS. destruct (Hall j Hj) as [->|Hc]; [lia|apply Hpast; exact Hc].
           ++ exists k. split; [exact Hklt|exact Hfk].
           ++ destruct (Tex Hret) as [H|[_ (j & Hj & He)]]; [left; lia|right; exists j; tauto].
           ++ right. exists k. split; [exact Hklt|]. split; [rewrite Hres; exact Hign|].
              split; [exact Hres|]. intros j Hj _. unfold finS.
              destruct (Hall j Hj) as [->|Hc]; [lia|]. specialize (Hpast j Hc). lia.
      * (* a retry is left: wait for the timer *)
        constructor; unfold completed, fin; cbn [ts now deadline starts hist running retries sleep started returned last_error];
          rewrite ?Hr.
        -- exact Hrun'.
        -- exact Tlen.
        -- intros _ j [].
        -- intros _ Hsl. specialize (Hle dl). apply Hle. apply event_times_In. left. auto.
        -- intros j Hj. apply Hcomp in Hj. destruct Hj as [Hj| ->]; [apply Hpast; exact Hj|lia].
        -- intros _ j Hj. apply Hcomp in Hj. destruct Hj as [Hj| ->]; [apply Tnr; auto|exact Hnr].
        -- intros _. exists k. split; [apply Hcomp; right; reflexivity|].
           split; [rewrite Hres; exact Hign|]. split; [exact Hres|].
           intros j Hj _. apply Hcomp in Hj.
           destruct Hj as [Hj| ->]; [specialize (Hpast j Hj); lia|lia].
        -- intros _. destruct (Tex Hret) as [H|[H _]]; [left; exact H|lia].
        -- discriminate.
      * (* others are still running *)
        constructor; unfold completed, fin; cbn [ts now deadline starts hist running retries sleep started returned last_error].
        -- exact Hrun'.
        -- exact Tlen.
        -- intros _ j Hj. rewrite <- Hrem in Hj. apply remove_In in Hj. apply Hev. tauto.
        -- intros _ Hsl. specialize (Hle dl). apply Hle. apply event_times_In. left. auto.
        -- intros j Hj. apply Hcomp in Hj. destruct Hj as [Hj| ->]; [apply Hpast; exact Hj|lia].
        -- intros _ j Hj. apply Hcomp in Hj. destruct Hj as [Hj| ->]; [apply Tnr; auto|exact Hnr].
        -- intros _. exists k. split; [apply Hcomp; right; reflexivity|].
           split; [rewrite Hres; exact Hign|]. split; [exact Hres|].
           intros j Hj _. apply Hcomp in Hj.
           destruct Hj as [Hj| ->]; [specialize (Hpast j Hj); lia|lia].
        -- intros _. destruct (Tex Hret) as [H|[H (j & Hj & He)]]; [left; exact H|].
           right. split; [exact H|]. exists j. split; [apply Hcomp; left; exact Hj|exact He].
        -- discriminate.
    + (* a real answer *)
      assert (Hre : is_real (fiber_res fs k) = true).
      { rewrite Hres, is_real_ignorable_exhausted, Hign. reflexivity. }
      inversion Hs; subst s'; clear Hs.
      constructor; unfold completed, fin; cbn [ts now deadline starts hist running retries sleep started returned last_error].
      * exact Hrun'.
      * exact Tlen.
      * discriminate.
      * discriminate.
      * intros j Hj. apply Hcomp in Hj. destruct Hj as [Hj| ->]; [apply Hpast; exact Hj|lia].
      * discriminate.
      * discriminate.
      * discriminate.
      * intros r0 Hr0. inversion Hr0; subst r0; clear Hr0. unfold PropObs. rewrite Tlen.
        split; [lia|]. left. exists k. split; [exact Hklt|]. split; [exact Hre|]. split; [exact Hres|].
        split; [exact Hfk|]. intros j Hj Hjr. unfold finS.
        destruct (Hsplit j Hj) as [->|[Hc|[Hin _]]]; [lia| |apply Hev; exact Hin].
        rewrite (Tnr Hret j Hc) in Hjr. discriminate.
  - (* the plan is exhausted *)
    assert (Hnr : is_real (fiber_res fs k) = false) by (rewrite Hres; reflexivity).
    assert (Hni : is_ignorable (fiber_res fs k) = false) by (rewrite Hres; reflexivity).
    inversion Hs; subst s'; clear Hs. unfold finish_check in *.
    cbn [running retries sleep started returned last_error] in *.
    destruct (remove k (running s)) as [|g rest] eqn:Hrem.
    + constructor; unfold completed, fin; cbn [ts now deadline starts hist running retries sleep started returned last_error].
      * exact Hrun'.
      * exact Tlen.
      * discriminate.
      * discriminate.
      * intros j Hj. apply Hcomp in Hj. destruct Hj as [Hj| ->]; [apply Hpast; exact Hj|lia].
      * discriminate.
      * discriminate.
      * discriminate.
      * intros r0 Hr0. inversion Hr0; subst r0; clear Hr0. unfold PropObs. rewrite Tlen.
        assert (Hall : forall j, j < started s -> j = k \/ (j < started s /\ ~ In j (running s))).
        { intros j Hj. destruct (Hsplit j Hj) as [H|[H|[Hin Hne]]]; auto.
          exfalso. assert (Hx : In j (remove k (running s))) by (apply remove_In; auto).
          rewrite Hrem in Hx. destruct Hx. }
        split; [lia|]. right. repeat split.
        -- intros j Hj. destruct (Hall j Hj) as [->|Hc]; [exact Hnr|apply Tnr; auto].
        -- intros j Hj. unfold finS. destruct (Hall j Hj) as [->|Hc]; [lia|apply Hpast; exact Hc].
        -- exists k. split; [exact Hklt|exact Hfk].
        -- right. exists k. split; [exact Hklt|rewrite Hres; reflexivity].
        -- specialize (Tle Hret). destruct (last_error s) as [r1|]; cbn [or_empty_plan].
           ++ right. destruct Tle as (j & Hj & Hi & Hrj & Hmax). exists j.
              split; [tauto|]. split; [exact Hi|]. split; [exact Hrj|].
              intros j' Hj' Hi'. unfold finS. destruct (Hall j' Hj') as [->|Hc]; [congruence|].
              apply Hmax; assumption.
           ++ left. split; [|reflexivity]. intros j Hj.
              destruct (Hall j Hj) as [->|Hc]; [exact Hni|apply Tle; exact Hc].
    + constructor; unfold completed, fin; cbn [ts now deadline starts hist running retries sleep started returned last_error].
      * exact Hrun'.
      * exact Tlen.
      * intros _ j Hj. rewrite <- Hrem in Hj. apply remove_In in Hj. apply Hev. tauto.
      * intros _ Hsl. specialize (Hle dl). apply Hle. apply event_times_In. left. auto.
      * intros j Hj. apply Hcomp in Hj. destruct Hj as [Hj| ->]; [apply Hpast; exact Hj|lia].
      * intros _ j Hj. apply Hcomp in Hj. destruct Hj as [Hj| ->]; [apply Tnr; auto|exact Hnr].
      * intros _. specialize (Tle Hret). destruct (last_error s) as [r1|].
        -- destruct Tle as (j & Hj & Hi & Hrj & Hmax). exists j.
           split; [apply Hcomp; left; exact Hj|]. split; [exact Hi|]. split; [exact Hrj|].
           intros j' Hj' Hi'. apply Hcomp in Hj'.
           destruct Hj' as [Hj'| ->]; [apply Hmax; assumption|congruence].
        -- intros j Hj. apply Hcomp in Hj.
           destruct Hj as [Hj| ->]; [apply Tle; exact Hj|exact Hni].
      * intros _. right. split; [reflexivity|]. exists k.
        split; [apply Hcomp; right; reflexivity|rewrite Hres; reflexivity].
      * discriminate.
Qed.

Lemma tinv_step max interval fs t tn l t' :
  TInv max fs t -> returned (ts t) = None -> list_min (event_times fs t) = Some tn ->
  In l (ready fs t tn) -> tstep interval t l tn = Some t' -> TInv max fs t'.
Proof.
  intros T Hret Hmin Hin Hstep. apply ready_In in Hin.
  destruct Hin as [(-> & Hs & Hd)|(k & -> & Hk & Hf)].
  - eapply tinv_timer; eassumption.
  - eapply tinv_complete; eassumption.
Qed.

(* every observation produced by the exploration is the final state of a timed run *)
Lemma explore_final max interval fs fuel t o :
  TInv max fs t -> In o (explore fuel interval fs t) ->
  exists t' r, TInv max fs t' /\ returned (ts t') = Some r /\ o = mkObs (starts t') r (now t').
Proof.
  revert t; induction fuel as [|fuel IH]; intros t T Hin; cbn [explore] in Hin.
  - destruct (returned (ts t)) as [r|] eqn:Hret; [|destruct Hin].
    destruct Hin as [<-|[]]. exists t, r. auto.
  - destruct (returned (ts t)) as [r|] eqn:Hret.
    + destruct Hin as [<-|[]]. exists t, r. auto.
    + destruct (list_min (event_times fs t)) as [tn|] eqn:Hmin; [|destruct Hin].
      apply in_flat_map in Hin. destruct Hin as (l & Hl & Hin).
      destruct (tstep interval t l tn) as [t1|] eqn:Hstep; [|destruct Hin].
      apply (IH t1); [|exact Hin]. eapply tinv_step; eassumption.
Qed.

Lemma explore_sound max interval fs o :
  In o (timed_runs max interval fs) -> PropObs max fs (o_starts o) (o_res o) (o_end o).
Proof.
  intros Hin. destruct (explore_final _ _ _ _ _ _ (tinv_init max interval fs) Hin) as (t' & r & T & Hret & ->).
  cbn [o_starts o_res o_end]. apply (t_ret _ _ _ T). exact Hret.
Qed.

(* ... and of a schedule of the untimed semantics: Layer T refines Layer A *)
Lemma explore_schedule max interval fs o :
  In o (timed_runs max interval fs) ->
  exists ls s, run (init max) ls = Some s /\ returned s = Some (o_res o) /\
               started s = List.length (o_starts o).
Proof.
  intros Hin. destruct (explore_final _ _ _ _ _ _ (tinv_init max interval fs) Hin) as (t' & r & T & Hret & ->).
  exists (rev (hist t')), (ts t'). cbn [o_starts o_res o_end].
  split; [apply (t_run _ _ _ T)|]. split; [exact Hret|]. symmetry. apply (t_len _ _ _ T).
Qed.

Lemma accept_In max interval fs o : accept max interval fs o = true <-> In o (timed_runs max interval fs).
Proof.
  unfold accept. rewrite existsb_exists. split.
  - intros (m & Hm & He). destruct (obs_eq_dec o m) as [->|]; [exact Hm|discriminate].
  - intros H. exists o. split; [exact H|]. destruct (obs_eq_dec o o); [reflexivity|congruence].
Qed.

Lemma accept_schedule max interval fs o :
  accept max interval fs o = true ->
  exists ls s, run (init max) ls = Some s /\ returned s = Some (o_res o) /\
               started s = List.length (o_starts o).
Proof. intros H. apply accept_In in H. eapply explore_schedule. exact H. Qed.

Lemma accept_sound max interval fs o :
  accept max interval fs o = true -> PropObs max fs (o_starts o) (o_res o) (o_end o).
Proof. intros H. apply accept_In in H. apply explore_sound in H. exact H. Qed.

(* ---------------- completeness: every oracle's run is accepted, and it exists ---------------- *)

Lemma timed_run_explore fuel oracle interval fs t o :
  timed_run fuel oracle interval fs t = Some o -> In o (explore fuel interval fs t).
Proof.
  revert oracle t; induction fuel as [|fuel IH]; intros oracle t H; cbn [timed_run explore] in *.
  - destruct (returned (ts t)); [inversion H; left; reflexivity|discriminate].
  - destruct (returned (ts t)); [inversion H; left; reflexivity|].
    destruct (list_min (event_times fs t)) as [tn|]; [|discriminate].
    set (rd := ready fs t tn) in *.
    destruct (nth_error rd _) as [l|] eqn:Hn; [|discriminate].
    destruct (tstep interval t l tn) as [t1|] eqn:Hs; [|discriminate].
    apply in_flat_map. exists l. split; [eapply nth_error_In; exact Hn|].
    rewrite Hs. eapply IH. exact H.
Qed.

Lemma tstep_measure interval t l tn t' : tstep interval t l tn = Some t' -> measure (ts t') < measure (ts t).
Proof.
  unfold tstep. destruct (step (ts t) l) as [s'|] eqn:Hs; [|discriminate].
  intros H; inversion H; subst t'. cbn [ts]. eapply step_measure. exact Hs.
Qed.

Lemma timed_run_total max fs interval fuel oracle t :
  TInv max fs t -> measure (ts t) < fuel ->
  exists o, timed_run fuel oracle interval fs t = Some o.
Proof.
  revert oracle t; induction fuel as [|fuel IH]; intros oracle t T Hm; [lia|].
  cbn [timed_run]. destruct (returned (ts t)) as [r|] eqn:Hret; [eauto|].
  pose proof (inv_reachable _ _ _ (t_run _ _ _ T)) as I.
  destruct (execute_no_deadlock _ _ _ (t_run _ _ _ T) Hret) as [Hnd _].
  destruct (list_min (event_times fs t)) as [tn|] eqn:Hmin.
  - destruct (list_min_spec _ _ Hmin) as [Hin _].
    set (rd := ready fs t tn).
    assert (Hne : rd <> []).
    { apply event_times_In in Hin. intros Hnil.
      destruct Hin as [[Hs Hd]|[k [Hk Hf]]].
      - assert (Hx : In Timer rd) by (apply ready_In; left; auto). rewrite Hnil in Hx. destruct Hx.
      - assert (Hx : In (Complete k (fiber_res fs k)) rd) by (apply ready_In; right; exists k; auto).
        rewrite Hnil in Hx. destruct Hx. }
    set (i := match oracle with [] => 0 | c :: _ => c mod List.length rd end).
    assert (Hi : i < List.length rd).
    { destruct rd as [|x rd']; [congruence|]. subst i. destruct oracle; [cbn; lia|].
      apply Nat.mod_upper_bound. discriminate. }
    destruct (nth_error rd i) as [l|] eqn:Hn; [|apply nth_error_None in Hn; lia].
    assert (Hl : In l (ready fs t tn)) by (eapply nth_error_In; exact Hn).
    assert (Hst : exists t1, tstep interval t l tn = Some t1).
    { unfold tstep. apply ready_In in Hl. destruct Hl as [(-> & Hs & Hd)|(k & -> & Hk & Hf)].
      - unfold step, on_timer. rewrite Hret, Hs. destruct (retries (ts t)); eauto.
      - unfold step, on_complete. rewrite Hret.
        replace (mem k (running (ts t))) with true by (symmetry; apply mem_In; exact Hk).
        destruct (fiber_res fs k) as [r|]; [destruct (can_be_ignored r)|]; eauto. }
    destruct Hst as [t1 Hst]. rewrite Hst.
    apply IH; [eapply tinv_step; eassumption|]. apply tstep_measure in Hst. lia.
  - exfalso. apply list_min_none in Hmin. unfold event_times in Hmin.
    apply app_eq_nil in Hmin. destruct Hmin as [H1 H2]. apply map_eq_nil in H2.
    destruct (Hnd H2) as [Hs _]. rewrite Hs in H1. discriminate.
Qed.

Lemma accept_complete max interval fs oracle :
  exists o, timed_run (fuel_for max) oracle interval fs (tinit max interval) = Some o /\
            accept max interval fs o = true.
Proof.
  destruct (timed_run_total max fs interval (fuel_for max) oracle (tinit max interval)
              (tinv_init max interval fs)) as [o Ho].
  { unfold fuel_for, tinit, init, measure. cbn. lia. }
  exists o. split; [exact Ho|]. apply accept_In. unfold timed_runs. eapply timed_run_explore. exact Ho.
Qed.

(* ---------------- the boolean property predicate of the driver ---------------- *)

Lemma sumbool_true {A} (a b : A) (d : {a = b} + {a <> b}) : (if d then true else false) = true <-> a = b.
Proof. destruct d; split; congruence. Qed.

Lemma prop_obs_spec max fs sts r e :
  prop_obs max fs (mkObs sts r e) = true <-> PropObs max fs sts r e.
Proof.
  unfold prop_obs, PropObs. cbn [o_starts o_res o_end].
  set (n := List.length sts).
  set (finish := fun k => (nth k sts 0 + fiber_dur fs k)%N).
  change (finS fs sts) with finish.
  set (reals := filter (fun k => is_real (fiber_res fs k)) (seq 0 n)).
  set (igns := filter (fun k => is_ignorable (fiber_res fs k)) (seq 0 n)).
  assert (Hre : forall k, In k reals <-> k < n /\ is_real (fiber_res fs k) = true).
  { intros k. unfold reals. rewrite filter_In, in_seq. intuition lia. }
  assert (Hig : forall k, In k igns <-> k < n /\ is_ignorable (fiber_res fs k) = true).
  { intros k. unfold igns. rewrite filter_In, in_seq. intuition lia. }
  assert (Hid : forall k, In k (seq 0 n) <-> k < n) by (intros k; rewrite in_seq; lia).
  rewrite !andb_true_iff, Nat.leb_le, Nat.leb_le.
  split.
  - intros [[H1 H2] H]. split; [lia|].
    destruct reals as [|x reals'] eqn:Hreals.
    + right. rewrite !andb_true_iff in H. destruct H as [[[Ha Hb] Hc] Hd].
      rewrite forallb_forall in Ha. rewrite existsb_exists in Hb.
      split; [|split; [|split; [|split]]].
      * intros k Hk. destruct (is_real (fiber_res fs k)) eqn:Hr; [|reflexivity].
        exfalso. apply (proj2 (Hre k)); auto.
      * intros k Hk. apply N.leb_le. apply Ha. apply Hid. exact Hk.
      * destruct Hb as (k & Hk & He). exists k. split; [apply Hid; exact Hk|apply N.eqb_eq; exact He].
      * apply orb_true_iff in Hc. destruct Hc as [Hc|Hc]; [left; apply Nat.eqb_eq; exact Hc|].
        right. apply existsb_exists in Hc. destruct Hc as (k & Hk & He). exists k. split; [apply Hid; exact Hk|exact He].
      * destruct igns as [|y igns'] eqn:Higns.
        -- left. split; [|apply (sumbool_true _ _ (rres_eq_dec r (Err EmptyPlan))); exact Hd].
           intros k Hk. destruct (is_ignorable (fiber_res fs k)) eqn:Hi; [|reflexivity].
           exfalso. apply (proj2 (Hig k)); auto.
        -- right. apply existsb_exists in Hd. destruct Hd as (j & Hj & Hd).
           apply andb_true_iff in Hd. destruct Hd as [Hd1 Hd2].
           apply sumbool_true in Hd1. rewrite forallb_forall in Hd2.
           apply Hig in Hj. exists j. split; [tauto|]. split; [tauto|]. split; [exact Hd1|].
           intros k Hk Hik. apply N.leb_le. apply Hd2. apply Hig. auto.
    + left. apply existsb_exists in H. destruct H as (j & Hj & H).
      rewrite !andb_true_iff in H. destruct H as [[Ha Hb] Hc].
      apply sumbool_true in Ha. apply N.eqb_eq in Hb. rewrite forallb_forall in Hc.
      apply Hre in Hj. exists j. split; [tauto|]. split; [tauto|]. split; [exact Ha|]. split; [exact Hb|].
      intros k Hk Hrk. apply N.leb_le. apply Hc. apply Hre. auto.
  - intros [Hn H]. split; [split; lia|].
    destruct H as [(j & Hj & Hjr & Hres & Hfin & Hmin)|(Hnr & Hle & Hex & Hstop & Hlast)].
    + assert (Hjin : In j reals) by (apply Hre; auto).
      destruct reals as [|x reals'] eqn:Hreals; [destruct Hjin|].
      apply existsb_exists. exists j. split; [exact Hjin|].
      rewrite !andb_true_iff. split; [split|].
      * apply sumbool_true. exact Hres.
      * apply N.eqb_eq. exact Hfin.
      * apply forallb_forall. intros k Hk. apply Hre in Hk. apply N.leb_le. apply Hmin; tauto.
    + destruct reals as [|x reals'] eqn:Hreals.
      * rewrite !andb_true_iff. split; [split; [split|]|].
        -- apply forallb_forall. intros k Hk. apply N.leb_le. apply Hle. apply Hid. exact Hk.
        -- destruct Hex as (k & Hk & He). apply existsb_exists. exists k.
           split; [apply Hid; exact Hk|apply N.eqb_eq; exact He].
        -- apply orb_true_iff. destruct Hstop as [Hs|(k & Hk & He)]; [left; apply Nat.eqb_eq; exact Hs|].
           right. apply existsb_exists. exists k. split; [apply Hid; exact Hk|exact He].
        -- destruct Hlast as [[Hni ->]|(j & Hj & Hji & Hres & Hmax)].
           ++ destruct igns as [|y igns'] eqn:Higns.
              ** apply sumbool_true. reflexivity.
              ** exfalso. assert (Hy : In y (y :: igns')) by (left; reflexivity).
                 apply Hig in Hy. rewrite (Hni y) in Hy; [destruct Hy; discriminate|tauto].
           ++ assert (Hjin : In j igns) by (apply Hig; auto).
              destruct igns as [|y igns'] eqn:Higns; [destruct Hjin|].
              apply existsb_exists. exists j. split; [exact Hjin|].
              apply andb_true_iff. split; [apply sumbool_true; exact Hres|].
              apply forallb_forall. intros k Hk. apply Hig in Hk. apply N.leb_le. apply Hmax; tauto.
      * exfalso. assert (Hx : In x (x :: reals')) by (left; reflexivity).
        apply Hre in Hx. rewrite (Hnr x) in Hx; [destruct Hx; discriminate|tauto].
Qed.

Lemma accept_sound_bool max interval fs o :
  accept max interval fs o = true -> prop_obs max fs o = true.
Proof.
  intros H. apply accept_sound in H. destruct o as [sts r e]. apply prop_obs_spec. exact H.
Qed.

(* ---------------- Layer B: gate and shared plan ---------------- *)

Lemma brun_snoc b a l :
  brun b (a ++ [l]) = match brun b a with Some b' => bstep b' l | None => None end.
Proof.
  revert b; induction a as [|x a IH]; intros b; cbn [app brun].
  - destruct (bstep b l); reflexivity.
  - destruct (bstep b x); [apply IH|reflexivity].
Qed.

Lemma proj_snoc ls l : proj (ls ++ [l]) = proj ls ++ proj [l].
Proof. unfold proj. apply flat_map_app. Qed.

Lemma proj_snoc_timer ls : proj (ls ++ [BTimer]) = proj ls ++ [Timer].
Proof. rewrite proj_snoc. reflexivity. Qed.
Lemma proj_snoc_complete ls f o : proj (ls ++ [BComplete f o]) = proj ls ++ [Complete f o].
Proof. rewrite proj_snoc. reflexivity. Qed.
Lemma proj_snoc_draw ls f : proj (ls ++ [BDraw f]) = proj ls.
Proof. rewrite proj_snoc. cbn. apply app_nil_r. Qed.

Definition single_shape (s : state) (ls : list label) : Prop :=
  (s = single_init /\ ls = []) \/
  (exists o, ls = [Complete 0 o] /\
             s = mkState 0 [] Fired None 1 (Some (match o with Some r => r | None => Err EmptyPlan end))).

Record BInv (c : config) (pl : list N) (bls : list blabel) (b : bstate) : Prop := mkBInv {
  b_mode : speculative b = match gate c with Some _ => true | None => false end;
  b_spec : forall max, gate c = Some max -> run (init max) (proj bls) = Some (core b);
  b_single : gate c = None -> single_shape (core b) (proj bls);
  b_plan : pl = rev (drawn (draws b)) ++ plan b;
  b_end : forall f, In (f, None) (draws b) -> plan b = [];
  b_ids : forall d, In d (draws b) -> fst d < started (core b)
}.

Lemma binv_init c pl : BInv c pl [] (binit c pl).
Proof.
  unfold binit. destruct (gate c) as [max|] eqn:Hg; constructor; cbn; try reflexivity; try tauto; try discriminate.
  - rewrite Hg. reflexivity.
  - intros m Hm. rewrite Hg in Hm. inversion Hm; subst. reflexivity.
  - intros Hn. congruence.
  - rewrite Hg. reflexivity.
  - intros m Hm. congruence.
  - intros _. left. auto.
Qed.

Lemma running_lt_started c pl bls b f :
  BInv c pl bls b -> In f (running (core b)) -> f < started (core b).
Proof.
  intros B Hf. destruct (gate c) as [max|] eqn:Hg.
  - apply (inv_lt _ _ _ (inv_reachable _ _ _ (b_spec _ _ _ _ B max Hg))). exact Hf.
  - destruct (b_single _ _ _ _ B Hg) as [[Hs _]|(o & _ & Hs)]; rewrite Hs in *; cbn in *; [|destruct Hf].
    destruct Hf as [<-|[]]. lia.
Qed.

Lemma step_started_mono s l s' : step s l = Some s' -> started s <= started s'.
Proof.
  unfold step. destruct (returned s); [discriminate|]. destruct l as [|f o].
  - unfold on_timer. destruct (sleep s); [|discriminate].
    destruct (retries s); intros H; inversion H; subst; cbn; lia.
  - unfold on_complete. destruct (mem f (running s)); [|discriminate].
    assert (Hfc : forall m, started (finish_check m) = started m).
    { intros m. unfold finish_check. destruct (running m); [destruct (retries m)|]; reflexivity. }
    destruct o as [r|]; [destruct (can_be_ignored r)|]; intros H; inversion H; subst;
      rewrite ?Hfc; cbn; lia.
Qed.

Lemma binv_step c pl bls b l b' :
  BInv c pl bls b -> bstep b l = Some b' -> BInv c pl (bls ++ [l]) b'.
Proof.
  intros B H. pose proof B as [Bm Bs Bsi Bp Be Bi].
  destruct l as [|f|f o]; cbn [bstep] in H.
  - (* timer *)
    destruct (speculative b) eqn:Hsp; [|discriminate].
    destruct (step (core b) Timer) as [s'|] eqn:Hs; [|discriminate]. inversion H; subst b'; clear H.
    constructor; cbn [speculative core plan draws]; auto.
    + intros max Hg. rewrite proj_snoc_timer, run_snoc, (Bs _ Hg). exact Hs.
    + intros Hg. rewrite Hg in Bm. congruence.
    + intros d Hd. specialize (Bi d Hd). apply step_started_mono in Hs. lia.
  - (* a fiber asks the shared plan for its next target *)
    destruct (returned (core b)) eqn:Hret; [discriminate|].
    destruct (mem f (running (core b)) && negb (saw_end f (draws b))) eqn:Hc; [|discriminate].
    apply andb_true_iff in Hc. destruct Hc as [Hmem _]. apply mem_In in Hmem.
    pose proof (running_lt_started _ _ _ _ _ B Hmem) as Hlt.
    pose proof (proj_snoc_draw bls f) as Hpr.
    destruct (plan b) as [|t rest] eqn:Hpl; inversion H; subst b'; clear H;
      constructor; cbn [speculative core plan draws]; rewrite ?Hpr; auto.
    + intros d [<-|Hd]; [exact Hlt|apply Bi; exact Hd].
    + rewrite Bp. cbn [drawn flat_map snd app rev]. rewrite <- app_assoc. reflexivity.
    + intros f0 [Hx|Hin]; [discriminate|]. specialize (Be _ Hin). discriminate.
    + intros d [<-|Hd]; [exact Hlt|apply Bi; exact Hd].
  - (* a fiber yields *)
    match type of H with (if ?c then _ else _) = _ => destruct c; [|discriminate] end.
    destruct (speculative b) eqn:Hsp.
    + destruct (step (core b) (Complete f o)) as [s'|] eqn:Hs; [|discriminate].
      inversion H; subst b'; clear H.
      constructor; cbn [speculative core plan draws]; auto.
      * intros max Hg. rewrite proj_snoc_complete, run_snoc, (Bs _ Hg). exact Hs.
      * intros Hg. rewrite Hg in Bm. congruence.
      * intros d Hd. specialize (Bi d Hd). apply step_started_mono in Hs. lia.
    + destruct (single_complete (core b) f o) as [s'|] eqn:Hs; [|discriminate].
      inversion H; subst b'; clear H.
      assert (Hg : gate c = None) by (destruct (gate c); [congruence|reflexivity]).
      unfold single_complete in Hs. destruct (returned (core b)) eqn:Hret; [discriminate|].
      destruct (mem f (running (core b))) eqn:Hmem; [|discriminate]. apply mem_In in Hmem.
      destruct (Bsi Hg) as [[Hc Hp]|(o' & _ & Hc)]; rewrite Hc in *; cbn in Hmem, Hret; [|destruct Hmem].
      destruct Hmem as [<-|[]]. inversion Hs; subst s'; clear Hs.
      constructor; cbn [speculative core plan draws]; auto.
      * intros max Hm. congruence.
      * intros _. right. exists o. rewrite proj_snoc_complete, Hp. split; reflexivity.
Qed.

Theorem binv_reachable c pl bls b : brun (binit c pl) bls = Some b -> BInv c pl bls b.
Proof.
  revert b. induction bls as [|l bls IH] using rev_ind; intros b H.
  - inversion H; subst. apply binv_init.
  - rewrite brun_snoc in H. destruct (brun (binit c pl) bls) as [b0|] eqn:H0; [|discriminate].
    eapply binv_step; [apply IH; reflexivity|exact H].
Qed.

Lemma latest_target_length f ds : List.length (latest_target f ds) <= 1.
Proof. unfold latest_target. destruct (find _ ds) as [[g [t|]]|]; cbn; lia. Qed.

Lemma latest_target_In f ds t : In t (latest_target f ds) -> In (f, Some t) ds.
Proof.
  unfold latest_target. destruct (find (fun d => fst d =? f) ds) as [[g [t'|]]|] eqn:Hf;
    [|intros []|intros []].
  intros [<-|[]]. apply find_some in Hf. destruct Hf as [Hin He]. cbn in He.
  apply Nat.eqb_eq in He. subst g. exact Hin.
Qed.

Lemma in_flight_length b : List.length (in_flight b) <= List.length (running (core b)).
Proof.
  unfold in_flight. induction (running (core b)) as [|f l IH]; [apply le_n|].
  cbn [flat_map]. rewrite app_length. pose proof (latest_target_length f (draws b)). cbn [List.length]. lia.
Qed.

Lemma In_drawn f t ds : In (f, Some t) ds -> In t (drawn ds).
Proof.
  intros H. unfold drawn. apply in_flat_map. exists (f, Some t). split; [exact H|left; reflexivity].
Qed.

Lemma drawn_owner ds : NoDup (drawn ds) ->
  forall f1 f2 t, In (f1, Some t) ds -> In (f2, Some t) ds -> f1 = f2.
Proof.
  induction ds as [|[g [t'|]] ds IH]; intros Hnd f1 f2 t H1 H2.
  - destruct H1.
  - cbn [drawn flat_map snd app] in Hnd. inversion Hnd as [|? ? Hni Hnd']; subst.
    fold (drawn ds) in *.
    destruct H1 as [H1|H1]; destruct H2 as [H2|H2].
    + congruence.
    + inversion H1; subst. exfalso. apply Hni. eapply In_drawn. exact H2.
    + inversion H2; subst. exfalso. apply Hni. eapply In_drawn. exact H1.
    + eapply IH; eassumption.
  - cbn [drawn flat_map snd app] in Hnd. fold (drawn ds) in *.
    destruct H1 as [H1|H1]; [discriminate|]. destruct H2 as [H2|H2]; [discriminate|].
    eapply IH; eassumption.
Qed.

Lemma NoDup_flat_map_singletons {A B} (g : A -> list B) l :
  NoDup l -> (forall a, List.length (g a) <= 1) ->
  (forall a1 a2 x, In a1 l -> In a2 l -> In x (g a1) -> In x (g a2) -> a1 = a2) ->
  NoDup (flat_map g l).
Proof.
  induction l as [|a l IH]; intros Hnd Hlen Hinj; cbn [flat_map]; [constructor|].
  inversion Hnd as [|? ? Ha Hnd']; subst.
  assert (IHl : NoDup (flat_map g l)).
  { apply IH; auto. intros a1 a2 x H1 H2. apply Hinj; right; assumption. }
  specialize (Hlen a). destruct (g a) as [|x [|y r]] eqn:Hg; cbn [app]; [exact IHl| |cbn in Hlen; lia].
  constructor; [|exact IHl]. intros Hin. apply in_flat_map in Hin. destruct Hin as (a' & Ha' & Hx).
  assert (a = a').
  { apply (Hinj a a' x); [left; reflexivity|right; exact Ha'|rewrite Hg; left; reflexivity|exact Hx]. }
  subst a'. exact (Ha Ha').
Qed.

Lemma NoDup_app_l {A} (l m : list A) : NoDup (l ++ m) -> NoDup l.
Proof.
  induction l as [|x l IH]; cbn [app]; intros H; [constructor|].
  inversion H as [|? ? Hx Hnd]; subst. constructor; [|apply IH; exact Hnd].
  intros Hin. apply Hx. apply in_or_app. left; exact Hin.
Qed.

(* the speculative arm is `execute`: its schedule is a schedule of Layer A *)
Lemma gate_open c pl bls b max :
  gate c = Some max -> brun (binit c pl) bls = Some b ->
  run (init max) (proj bls) = Some (core b) /\ List.length (in_flight b) <= 1 + max.
Proof.
  intros Hg H. pose proof (binv_reachable _ _ _ _ H) as B.
  pose proof (b_spec _ _ _ _ B _ Hg) as Hr. split; [exact Hr|].
  pose proof (inv_reachable _ _ _ Hr) as I. pose proof (in_flight_length b).
  pose proof (inv_count _ _ _ I). pose proof (inv_bound _ _ _ I). lia.
Qed.

(* the gate is closed: one fiber for ever, every target is drawn by it, at most one target in
   flight, and the result is that fiber's (or EmptyPlan) *)
Lemma gate_closed c pl bls b :
  gate c = None -> brun (binit c pl) bls = Some b ->
  started (core b) = 1 /\ (forall f, In f (running (core b)) -> f = 0) /\
  (forall d, In d (draws b) -> fst d = 0) /\
  List.length (in_flight b) <= 1 /\
  returned (core b) = spec_returned 0 1 (completions (proj bls)).
Proof.
  intros Hg H. pose proof (binv_reachable _ _ _ _ H) as B.
  pose proof (b_ids _ _ _ _ B) as Hids. pose proof (in_flight_length b) as Hlen.
  destruct (b_single _ _ _ _ B Hg) as [[Hc Hp]|(o & Hp & Hc)]; rewrite Hc in *; rewrite Hp; cbn in *.
  - split; [reflexivity|]. split; [intros f [<-|[]]; reflexivity|].
    split; [intros d Hd; specialize (Hids d Hd); lia|]. split; [exact Hlen|reflexivity].
  - split; [reflexivity|]. split; [intros f []|].
    split; [intros d Hd; specialize (Hids d Hd); lia|]. split; [lia|].
    unfold spec_returned. cbn [first_real List.length existsb].
    destruct o as [r|]; [|reflexivity].
    destruct (is_real (Some r)) eqn:Hr; [reflexivity|]. cbn.
    rewrite is_real_ignorable_exhausted in Hr. cbn [is_exhausted negb] in Hr. rewrite andb_true_r in Hr.
    apply negb_false_iff in Hr. unfold last_ignorable. cbn. rewrite Hr. reflexivity.
Qed.

(* the shared plan: what has been handed out, in order, followed by what is left, is the plan *)
Lemma plan_conservation c pl bls b :
  brun (binit c pl) bls = Some b -> pl = rev (drawn (draws b)) ++ plan b.
Proof. intros H. apply (b_plan _ _ _ _ (binv_reachable _ _ _ _ H)). Qed.

Lemma distinct_targets c pl bls b :
  NoDup pl -> brun (binit c pl) bls = Some b ->
  NoDup (drawn (draws b)) /\
  (forall f1 f2 t, In (f1, Some t) (draws b) -> In (f2, Some t) (draws b) -> f1 = f2) /\
  NoDup (in_flight b).
Proof.
  intros Hnd H. pose proof (binv_reachable _ _ _ _ H) as B.
  rewrite (b_plan _ _ _ _ B) in Hnd. apply NoDup_app_l in Hnd.
  apply NoDup_rev in Hnd. rewrite rev_involutive in Hnd.
  pose proof (drawn_owner _ Hnd) as Hown. split; [exact Hnd|]. split; [exact Hown|].
  unfold in_flight. apply NoDup_flat_map_singletons.
  - destruct (gate c) as [max|] eqn:Hg.
    + apply (inv_nodup _ _ _ (inv_reachable _ _ _ (b_spec _ _ _ _ B _ Hg))).
    + destruct (b_single _ _ _ _ B Hg) as [[Hc _]|(o & _ & Hc)]; rewrite Hc; cbn; repeat constructor. intros [].
  - intros f. apply latest_target_length.
  - intros f1 f2 t _ _ H1 H2. apply latest_target_In in H1. apply latest_target_In in H2.
    eapply Hown; eassumption.
Qed.

(* a fiber can yield None only when the shared plan is empty: stopping further executions on
   None leaves no target unused *)
Lemma exhausted_sound c pl bls b f b' :
  brun (binit c pl) bls = Some b -> bstep b (BComplete f None) = Some b' ->
  plan b = [] /\ plan b' = [].
Proof.
  intros H Hs. pose proof (binv_reachable _ _ _ _ H) as B. cbn [bstep] in Hs.
  destruct (saw_end f (draws b) && negb (drew_some f (draws b))) eqn:Hc; [|discriminate].
  apply andb_true_iff in Hc. destruct Hc as [Hse _].
  unfold saw_end in Hse. apply existsb_exists in Hse. destruct Hse as ([g [t|]] & Hin & Hd); cbn in Hd.
  - rewrite andb_false_r in Hd. discriminate.
  - rewrite andb_true_r in Hd. apply Nat.eqb_eq in Hd. subst g.
    pose proof (b_end _ _ _ _ B _ Hin) as Hpl. split; [exact Hpl|].
    destruct (if speculative b then step (core b) (Complete f None) else single_complete (core b) f None);
      inversion Hs; subst b'. exact Hpl.
Qed.

Lemma gate_cases c :
  gate c = None <->
  (is_idempotent c = false \/ metrics_and_policy c = None \/ metrics_and_policy c = Some None).
Proof.
  unfold gate. destruct (metrics_and_policy c) as [[m|]|]; destruct (is_idempotent c); split;
    intros H; try discriminate; try reflexivity; auto.
  destruct H as [H|[H|H]]; discriminate.
Qed.

(* ---------------- Layer B in virtual time: the guided search decides membership ---------------- *)

Lemma baccept_In c interval tg o : baccept c interval tg o = true <-> In o (btimed_runs c interval tg).
Proof.
  unfold baccept. rewrite existsb_exists. split.
  - intros (m & Hm & He). destruct (bobs_eq_dec o m) as [->|]; [exact Hm|discriminate].
  - intros H. exists o. split; [exact H|]. destruct (bobs_eq_dec o o); [reflexivity|congruence].
Qed.

Lemma is_prefix_ev_spec a b : is_prefix_ev a b = true <-> exists ext, b = a ++ ext.
Proof.
  revert b; induction a as [|x a IH]; intros b; cbn [is_prefix_ev].
  - split; [intros _; exists b; reflexivity|reflexivity].
  - destruct b as [|y b].
    + split; [discriminate|intros [ext H]; discriminate].
    + rewrite andb_true_iff, IH. split.
      * intros [Hxy [ext ->]]. destruct (event_eq_dec x y) as [->|]; [|discriminate]. exists ext. reflexivity.
      * intros [ext H]. cbn [app] in H. inversion H; subst. split; [|exists ext; reflexivity].
        destruct (event_eq_dec x x); [reflexivity|congruence].
Qed.

Lemma btstep_trace interval tg t l tn t' :
  btstep interval tg t l tn = Some t' -> exists ext, btrace t' = ext ++ btrace t.
Proof.
  unfold btstep. destruct l as [|f].
  - destruct (bstep (bb t) BTimer); [|discriminate]. intros H; inversion H; subst. exists []. reflexivity.
  - destruct (bstep (bb t) (BDraw f)) as [b1|]; [|discriminate].
    destruct (plan (bb t)) as [|x rest].
    + destruct (bstep b1 _) as [b2|]; [|discriminate]. intros H; inversion H; subst. cbn [btrace]. eauto.
    + intros H; inversion H; subst. cbn [btrace].
      exists (EvBegin x tn :: map (fun c => EvEnd c tn) (latest_target f (draws (bb t)))). reflexivity.
Qed.

Lemma bexplore_prefix fuel interval tg t o :
  In o (bexplore fuel interval tg t) -> exists ext, bo_events o = rev (btrace t) ++ ext.
Proof.
  revert t; induction fuel as [|fuel IH]; intros t Hin; cbn [bexplore] in Hin.
  - destruct (returned (core (bb t))); [|destruct Hin]. destruct Hin as [<-|[]]. exists []. cbn. symmetry. apply app_nil_r.
  - destruct (returned (core (bb t))).
    + destruct Hin as [<-|[]]. exists []. cbn. symmetry. apply app_nil_r.
    + destruct (list_min (bevent_times t)) as [tn|]; [|destruct Hin].
      apply in_flat_map in Hin. destruct Hin as (l & _ & Hin).
      destruct (btstep interval tg t l tn) as [t'|] eqn:Hs; [|destruct Hin].
      destruct (btstep_trace _ _ _ _ _ _ Hs) as [e He]. destruct (IH _ Hin) as [ext Hext].
      exists (rev e ++ ext). rewrite Hext, He, rev_app_distr, <- app_assoc. reflexivity.
Qed.

Lemma bsearch_sound fuel interval tg t o :
  bsearch fuel interval tg t o = true -> In o (bexplore fuel interval tg t).
Proof.
  revert t; induction fuel as [|fuel IH]; intros t H; cbn [bsearch bexplore] in *.
  - destruct (returned (core (bb t))); [|discriminate].
    destruct (bobs_eq_dec o _) as [->|]; [left; reflexivity|discriminate].
  - destruct (returned (core (bb t))).
    + destruct (bobs_eq_dec o _) as [->|]; [left; reflexivity|discriminate].
    + destruct (list_min (bevent_times t)) as [tn|]; [|discriminate].
      apply existsb_exists in H. destruct H as (l & Hl & H).
      apply in_flat_map. exists l. split; [exact Hl|].
      destruct (btstep interval tg t l tn) as [t'|]; [|discriminate].
      apply andb_true_iff in H. apply IH. tauto.
Qed.

Lemma bsearch_complete fuel interval tg t o :
  In o (bexplore fuel interval tg t) -> bsearch fuel interval tg t o = true.
Proof.
  revert t; induction fuel as [|fuel IH]; intros t Hin; cbn [bsearch bexplore] in *.
  - destruct (returned (core (bb t))); [|destruct Hin]. destruct Hin as [<-|[]].
    destruct (bobs_eq_dec _ _); [reflexivity|congruence].
  - destruct (returned (core (bb t))).
    + destruct Hin as [<-|[]]. destruct (bobs_eq_dec _ _); [reflexivity|congruence].
    + destruct (list_min (bevent_times t)) as [tn|]; [|destruct Hin].
      apply in_flat_map in Hin. destruct Hin as (l & Hl & Hin).
      apply existsb_exists. exists l. split; [exact Hl|].
      destruct (btstep interval tg t l tn) as [t'|] eqn:Hs; [|destruct Hin].
      apply andb_true_iff. split; [|apply IH; exact Hin].
      apply is_prefix_ev_spec. eapply bexplore_prefix. exact Hin.
Qed.

Lemma baccept_guided_eq c interval tg o : baccept_guided c interval tg o = baccept c interval tg o.
Proof.
  unfold baccept_guided. destruct (baccept c interval tg o) eqn:Ha.
  - apply bsearch_complete. apply baccept_In. exact Ha.
  - destruct (bsearch _ _ _ _ o) eqn:Hs; [|reflexivity].
    apply bsearch_sound in Hs. apply baccept_In in Hs. congruence.
Qed.

(* ---------------- every explored run is a Layer-B schedule; its begins are the draws ---------- *)

Lemma begins_app a b : begins (a ++ b) = begins a ++ begins b.
Proof.
  induction a as [|[t x|t x] a IH]; cbn [app begins]; [reflexivity|rewrite IH; reflexivity|exact IH].
Qed.

Lemma begins_ends tn l : begins (rev (map (fun c => EvEnd c tn) l)) = [].
Proof.
  induction l as [|c l IH]; [reflexivity|]. cbn [map rev]. rewrite begins_app, IH. reflexivity.
Qed.

Record BTInv (c : config) (tg : list (N * N)) (t : btstate) : Prop := mkBTInv {
  bt_run : brun (binit c (map fst tg)) (rev (bhist t)) = Some (bb t);
  bt_begins : begins (rev (btrace t)) = rev (drawn (draws (bb t)))
}.

Lemma btinv_init c interval tg : BTInv c tg (btinit c interval tg).
Proof.
  constructor; cbn; [reflexivity|]. unfold binit. destruct (gate c); reflexivity.
Qed.

Lemma bstep_draw_effect b f b1 :
  bstep b (BDraw f) = Some b1 ->
  match plan b with
  | x :: rest => draws b1 = (f, Some x) :: draws b /\ plan b1 = rest
  | [] => draws b1 = (f, None) :: draws b /\ plan b1 = []
  end.
Proof.
  cbn [bstep]. destruct (returned (core b)); [discriminate|].
  destruct (mem f (running (core b)) && negb (saw_end f (draws b))); [|discriminate].
  destruct (plan b); intros H; inversion H; subst; cbn; auto.
Qed.

Lemma bstep_complete_draws b f o b2 : bstep b (BComplete f o) = Some b2 -> draws b2 = draws b.
Proof.
  cbn [bstep]. match goal with |- (if ?c then _ else _) = _ -> _ => destruct c; [|discriminate] end.
  destruct (if speculative b then _ else _); intros H; inversion H; subst. reflexivity.
Qed.

Lemma bstep_timer_draws b b1 : bstep b BTimer = Some b1 -> draws b1 = draws b.
Proof.
  cbn [bstep]. destruct (speculative b); [|discriminate].
  destruct (step (core b) Timer); intros H; inversion H; subst. reflexivity.
Qed.

Lemma btinv_step c interval tg t l tn t' :
  BTInv c tg t -> btstep interval tg t l tn = Some t' -> BTInv c tg t'.
Proof.
  intros [Hrun Hbeg] H. unfold btstep in H. destruct l as [|f].
  - destruct (bstep (bb t) BTimer) as [b1|] eqn:Hs; [|discriminate]. inversion H; subst t'; clear H.
    constructor; cbn [bb bhist btrace].
    + cbn [rev]. rewrite brun_snoc, Hrun. exact Hs.
    + rewrite (bstep_timer_draws _ _ Hs). exact Hbeg.
  - destruct (bstep (bb t) (BDraw f)) as [b1|] eqn:Hs; [|discriminate].
    pose proof (bstep_draw_effect _ _ _ Hs) as He.
    destruct (plan (bb t)) as [|x rest].
    + destruct (bstep b1 _) as [b2|] eqn:Hs2; [|discriminate]. inversion H; subst t'; clear H.
      constructor; cbn [bb bhist btrace].
      * cbn [rev]. rewrite brun_snoc, brun_snoc, Hrun, Hs. exact Hs2.
      * rewrite (bstep_complete_draws _ _ _ _ Hs2). destruct He as [-> _].
        rewrite rev_app_distr, begins_app, begins_ends, Hbeg. cbn [drawn flat_map snd app].
        apply app_nil_r.
    + inversion H; subst t'; clear H. constructor; cbn [bb bhist btrace].
      * cbn [rev]. rewrite brun_snoc, Hrun. exact Hs.
      * destruct He as [-> _]. cbn [rev]. rewrite begins_app, rev_app_distr, begins_app, begins_ends, Hbeg.
        cbn [drawn flat_map snd app begins rev]. rewrite app_nil_r. reflexivity.
Qed.

Lemma bexplore_final c interval tg fuel t o :
  BTInv c tg t -> In o (bexplore fuel interval tg t) ->
  exists t' r, BTInv c tg t' /\ returned (core (bb t')) = Some r /\
               o = mkBObs (rev (btrace t')) r (bnow t').
Proof.
  revert t; induction fuel as [|fuel IH]; intros t T Hin; cbn [bexplore] in Hin.
  - destruct (returned (core (bb t))) as [r|] eqn:Hret; [|destruct Hin].
    destruct Hin as [<-|[]]. exists t, r. auto.
  - destruct (returned (core (bb t))) as [r|] eqn:Hret.
    + destruct Hin as [<-|[]]. exists t, r. auto.
    + destruct (list_min (bevent_times t)) as [tn|]; [|destruct Hin].
      apply in_flat_map in Hin. destruct Hin as (l & _ & Hin).
      destruct (btstep interval tg t l tn) as [t1|] eqn:Hs; [|destruct Hin].
      apply (IH t1); [eapply btinv_step; eassumption|exact Hin].
Qed.

Lemma is_prefix_spec a b : is_prefix a b = true <-> exists ext, b = a ++ ext.
Proof.
  revert b; induction a as [|x a IH]; intros b; cbn [is_prefix].
  - split; [intros _; exists b; reflexivity|reflexivity].
  - destruct b as [|y b].
    + split; [discriminate|intros [ext H]; discriminate].
    + rewrite andb_true_iff, IH, N.eqb_eq. split.
      * intros [-> [ext ->]]. exists ext. reflexivity.
      * intros [ext H]. cbn [app] in H. inversion H; subst. split; [reflexivity|exists ext; reflexivity].
Qed.

(* every accepted trace is the trace of a schedule of Layer B (so the gate / shared-plan theorems
   apply to it), and its attempts begin on the plan's targets, in plan order, none twice *)
Lemma probe_accept_schedule c interval tg o :
  baccept_guided c interval tg o = true ->
  (exists bls b, brun (binit c (map fst tg)) bls = Some b /\ returned (core b) = Some (bo_res o) /\
                 begins (bo_events o) = rev (drawn (draws b))) /\
  is_prefix (begins (bo_events o)) (map fst tg) = true.
Proof.
  intros H. rewrite baccept_guided_eq in H. apply baccept_In in H.
  destruct (bexplore_final c _ _ _ _ _ (btinv_init c interval tg) H) as (t' & r & [Hrun Hbeg] & Hret & ->).
  cbn [bo_events bo_res bo_end]. split.
  - exists (rev (bhist t')), (bb t'). auto.
  - apply is_prefix_spec. exists (plan (bb t')). rewrite Hbeg. apply (plan_conservation _ _ _ _ Hrun).
Qed.

(* ---------------- probe plans: accepted traces never have too many attempts open -------------- *)

Fixpoint run_open (op : list N) (evs : list event) : option (list N) :=
  match evs with
  | [] => Some op
  | EvBegin t _ :: r => run_open (t :: op) r
  | EvEnd t _ :: r => match remove1 t op with Some o' => run_open o' r | None => None end
  end.

Lemma open_ok_app bound a : forall op op' b,
  open_ok bound op a = true -> run_open op a = Some op' -> open_ok bound op' b = true ->
  open_ok bound op (a ++ b) = true /\ run_open op (a ++ b) = run_open op' b.
Proof.
  induction a as [|[t x|t x] a IH]; intros op op' b Ha Hr Hb; cbn [app open_ok run_open] in *.
  - inversion Hr; subst. auto.
  - apply andb_true_iff in Ha. destruct Ha as [H1 H2].
    destruct (IH _ _ b H2 Hr Hb) as [I1 I2]. rewrite H1, I1. auto.
  - destruct (remove1 t op) as [o'|]; [|discriminate]. apply (IH _ _ b Ha Hr Hb).
Qed.

Lemma remove1_In c op : In c op -> exists op1, remove1 c op = Some op1 /\ Permutation op (c :: op1).
Proof.
  induction op as [|y op IH]; intros Hin; [destruct Hin|]. cbn [remove1].
  destruct (N.eqb_spec c y) as [->|Hne].
  - exists op. split; [reflexivity|apply Permutation_refl].
  - destruct Hin as [->|Hin]; [congruence|]. destruct (IH Hin) as (op1 & -> & Hp).
    exists (y :: op1). split; [reflexivity|].
    eapply Permutation_trans; [apply perm_skip; exact Hp|apply perm_swap].
Qed.

Lemma flat_map_ext_in {A B} (g g' : A -> list B) l :
  (forall a, In a l -> g a = g' a) -> flat_map g l = flat_map g' l.
Proof.
  induction l as [|a l IH]; intros H; [reflexivity|]. cbn [flat_map].
  rewrite (H a (or_introl eq_refl)), IH; [reflexivity|]. intros b Hb. apply H. right; exact Hb.
Qed.

Lemma NoDup_split (f : nat) l : NoDup l -> In f l ->
  exists r1 r2, l = r1 ++ f :: r2 /\ ~ In f r1 /\ ~ In f r2.
Proof.
  intros Hnd Hin. destruct (in_split _ _ Hin) as (r1 & r2 & ->). exists r1, r2. split; [reflexivity|].
  apply NoDup_remove_2 in Hnd. split; intros H; apply Hnd; apply in_or_app; auto.
Qed.

Lemma remove_split f r1 r2 : ~ In f r1 -> ~ In f r2 -> remove f (r1 ++ f :: r2) = r1 ++ r2.
Proof.
  intros H1 H2. unfold remove. rewrite filter_app. cbn [filter]. rewrite Nat.eqb_refl. cbn [negb].
  assert (Hid : forall m, ~ In f m -> filter (fun g => negb (f =? g)) m = m).
  { induction m as [|y m IHm]; intros Hy; [reflexivity|]. cbn [filter].
    destruct (Nat.eqb_spec f y) as [->|Hxy]; [exfalso; apply Hy; left; reflexivity|].
    cbn [negb]. f_equal. apply IHm. intros H; apply Hy; right; exact H. }
  rewrite !Hid by assumption. reflexivity.
Qed.

Lemma latest_target_cons_other g f x ds : g <> f -> latest_target g ((f, x) :: ds) = latest_target g ds.
Proof.
  intros Hne. unfold latest_target. cbn [find fst].
  destruct (Nat.eqb_spec f g); [congruence|reflexivity].
Qed.
Lemma latest_target_cons_some f x ds : latest_target f ((f, Some x) :: ds) = [x].
Proof. unfold latest_target. cbn [find fst]. rewrite Nat.eqb_refl. reflexivity. Qed.
Lemma latest_target_cons_none f ds : latest_target f ((f, None) :: ds) = [].
Proof. unfold latest_target. cbn [find fst]. rewrite Nat.eqb_refl. reflexivity. Qed.

Lemma latest_target_fresh f ds : (forall d, In d ds -> fst d <> f) -> latest_target f ds = [].
Proof.
  intros H. unfold latest_target. destruct (find (fun d => fst d =? f) ds) as [[g x]|] eqn:Hf; [|reflexivity].
  apply find_some in Hf. destruct Hf as [Hin He]. cbn in He. apply Nat.eqb_eq in He.
  exfalso. apply (H _ Hin). exact He.
Qed.

(* effects of the Layer-B steps on the select loop *)
Lemma bstep_draw_core b f b1 : bstep b (BDraw f) = Some b1 ->
  core b1 = core b /\ speculative b1 = speculative b /\ In f (running (core b)).
Proof.
  cbn [bstep]. destruct (returned (core b)); [discriminate|].
  destruct (mem f (running (core b)) && negb (saw_end f (draws b))) eqn:Hc; [|discriminate].
  apply andb_true_iff in Hc. destruct Hc as [Hm _]. apply mem_In in Hm.
  destruct (plan b); intros H; inversion H; subst; cbn; auto.
Qed.

Lemma step_complete_running s f o s' : step s (Complete f o) = Some s' -> running s' = remove f (running s).
Proof.
  unfold step. destruct (returned s); [discriminate|]. unfold on_complete.
  destruct (mem f (running s)); [|discriminate].
  assert (Hfc : forall m, running (finish_check m) = running m).
  { intros m. unfold finish_check. destruct (running m) eqn:Hr; [destruct (retries m)|]; cbn; auto. }
  destruct o as [r|]; [destruct (can_be_ignored r)|]; intros H; inversion H; subst; rewrite ?Hfc; reflexivity.
Qed.

Lemma bstep_complete_running b f o b2 : bstep b (BComplete f o) = Some b2 ->
  running (core b2) = remove f (running (core b)).
Proof.
  cbn [bstep]. match goal with |- (if ?c then _ else _) = _ -> _ => destruct c; [|discriminate] end.
  destruct (speculative b).
  - destruct (step (core b) (Complete f o)) as [s'|] eqn:Hs; [|discriminate].
    intros H; inversion H; subst. cbn [core]. eapply step_complete_running. exact Hs.
  - unfold single_complete. destruct (returned (core b)); [discriminate|].
    destruct (mem f (running (core b))); [|discriminate]. intros H; inversion H; subst. reflexivity.
Qed.

Lemma bstep_timer_running b b1 : bstep b BTimer = Some b1 ->
  running (core b1) = running (core b) \/ running (core b1) = running (core b) ++ [started (core b)].
Proof.
  cbn [bstep]. destruct (speculative b); [|discriminate].
  destruct (step (core b) Timer) as [s'|] eqn:Hs; [|discriminate]. intros H; inversion H; subst. cbn [core].
  unfold step in Hs. destruct (returned (core b)); [discriminate|]. unfold on_timer in Hs.
  destruct (sleep (core b)); [|discriminate].
  destruct (retries (core b)); inversion Hs; subst; cbn; auto.
Qed.

Definition bound_of (c : config) : nat := match gate c with Some max => 1 + max | None => 1 end.

Lemma in_flight_bound c pl bls b : brun (binit c pl) bls = Some b -> List.length (in_flight b) <= bound_of c.
Proof.
  intros H. unfold bound_of. destruct (gate c) as [max|] eqn:Hg.
  - apply (gate_open _ _ _ _ _ Hg H).
  - apply (gate_closed _ _ _ _ Hg H).
Qed.

Lemma running_nodup c pl bls b : brun (binit c pl) bls = Some b -> NoDup (running (core b)).
Proof.
  intros H. pose proof (binv_reachable _ _ _ _ H) as B. destruct (gate c) as [max|] eqn:Hg.
  - apply (inv_nodup _ _ _ (inv_reachable _ _ _ (b_spec _ _ _ _ B _ Hg))).
  - destruct (b_single _ _ _ _ B Hg) as [[Hc _]|(o & _ & Hc)]; rewrite Hc; cbn; repeat constructor. intros [].
Qed.

Record BTInv2 (c : config) (tg : list (N * N)) (t : btstate) : Prop := mkBTInv2 {
  bt2_base : BTInv c tg t;
  bt2_ok : open_ok (bound_of c) [] (rev (btrace t)) = true;
  bt2_open : exists op, run_open [] (rev (btrace t)) = Some op /\ Permutation op (in_flight (bb t))
}.

Lemma btinv2_init c interval tg : BTInv2 c tg (btinit c interval tg).
Proof.
  constructor; [apply btinv_init|reflexivity|]. exists []. split; [reflexivity|].
  cbn. unfold in_flight, binit. destruct (gate c); cbn; apply Permutation_refl.
Qed.

(* closing the attempt (if any) fiber f is working on *)
Lemma close_current c (t : btstate) f tn op r1 r2 :
  open_ok (bound_of c) [] (rev (btrace t)) = true ->
  run_open [] (rev (btrace t)) = Some op ->
  running (core (bb t)) = r1 ++ f :: r2 ->
  Permutation op (flat_map (fun g => latest_target g (draws (bb t))) r1
                  ++ latest_target f (draws (bb t))
                  ++ flat_map (fun g => latest_target g (draws (bb t))) r2) ->
  let ends := map (fun x => EvEnd x tn) (latest_target f (draws (bb t))) in
  exists op1,
    open_ok (bound_of c) [] (rev (ends ++ btrace t)) = true /\
    run_open [] (rev (ends ++ btrace t)) = Some op1 /\
    Permutation op1 (flat_map (fun g => latest_target g (draws (bb t))) r1
                     ++ flat_map (fun g => latest_target g (draws (bb t))) r2).
Proof.
  intros Hok Hop Hrun Hperm ends. subst ends.
  pose proof (latest_target_length f (draws (bb t))) as Hlen.
  destruct (latest_target f (draws (bb t))) as [|x [|y l]] eqn:Hlt; [| |cbn in Hlen; lia].
  - cbn [map app]. exists op. auto.
  - cbn [map app rev]. cbn [app] in Hperm.
    assert (Hin : In x op).
    { eapply Permutation_in; [apply Permutation_sym; exact Hperm|]. apply in_or_app. right. left. reflexivity. }
    destruct (remove1_In _ _ Hin) as (op1 & Hrem & Hp1).
    assert (Hone : open_ok (bound_of c) op [EvEnd x tn] = true) by (cbn [open_ok]; rewrite Hrem; reflexivity).
    destruct (open_ok_app (bound_of c) (rev (btrace t)) [] op [EvEnd x tn] Hok Hop Hone) as [H1 H2].
    exists op1. split; [exact H1|]. split; [rewrite H2; cbn [run_open]; rewrite Hrem; reflexivity|].
    apply Permutation_cons_inv with (a := x).
    eapply Permutation_trans; [apply Permutation_sym; exact Hp1|].
    eapply Permutation_trans; [exact Hperm|]. apply Permutation_sym. apply Permutation_middle.
Qed.

Lemma btinv2_step c interval tg t l tn t' :
  BTInv2 c tg t -> btstep interval tg t l tn = Some t' -> BTInv2 c tg t'.
Proof.
  intros [Base Hok (op & Hop & Hperm)] H.
  pose proof (btinv_step _ _ _ _ _ _ _ Base H) as Base'.
  pose proof (bt_run _ _ _ Base) as Hrun. pose proof (bt_run _ _ _ Base') as Hrun'.
  pose proof (binv_reachable _ _ _ _ Hrun) as B.
  pose proof (running_nodup _ _ _ _ Hrun) as Hnd.
  constructor; [exact Base'| |]; unfold btstep in H; destruct l as [|f].
  - (* timer: no event *)
    destruct (bstep (bb t) BTimer) as [b1|]; [|discriminate]. inversion H; subst. exact Hok.
  - destruct (bstep (bb t) (BDraw f)) as [b1|] eqn:Hs; [|discriminate].
    destruct (bstep_draw_core _ _ _ Hs) as (Hcore & _ & Hf).
    destruct (NoDup_split f _ Hnd Hf) as (r1 & r2 & Hsplit & Hn1 & Hn2).
    assert (Hperm' : Permutation op (flat_map (fun g => latest_target g (draws (bb t))) r1
                  ++ latest_target f (draws (bb t))
                  ++ flat_map (fun g => latest_target g (draws (bb t))) r2)).
    { unfold in_flight in Hperm. rewrite Hsplit, flat_map_app in Hperm. exact Hperm. }
    destruct (close_current c t f tn op r1 r2 Hok Hop Hsplit Hperm') as (op1 & Hok1 & Hop1 & Hp1).
    destruct (plan (bb t)) as [|x rest] eqn:Hpl.
    + destruct (bstep b1 _) as [b2|]; [|discriminate]. inversion H; subst. cbn [btrace]. exact Hok1.
    + inversion H; subst t'. cbn [btrace rev]. 
      assert (Hone : open_ok (bound_of c) op1 [EvBegin x tn] = true).
      { cbn [open_ok]. rewrite andb_true_r. apply Nat.leb_le.
        cbn [bb] in Hrun'. pose proof (in_flight_bound _ _ _ _ Hrun') as Hb.
        unfold in_flight in Hb. rewrite Hcore, Hsplit, flat_map_app in Hb. cbn [flat_map] in Hb.
        pose proof (bstep_draw_effect _ _ _ Hs) as Hd. rewrite Hpl in Hd. destruct Hd as [Hd _].
        rewrite Hd in Hb. rewrite latest_target_cons_some in Hb.
        rewrite (flat_map_ext_in (fun g => latest_target g ((f, Some x) :: draws (bb t)))
                   (fun g => latest_target g (draws (bb t))) r1) in Hb
          by (intros g Hg; apply latest_target_cons_other; intros ->; exact (Hn1 Hg)).
        rewrite (flat_map_ext_in (fun g => latest_target g ((f, Some x) :: draws (bb t)))
                   (fun g => latest_target g (draws (bb t))) r2) in Hb
          by (intros g Hg; apply latest_target_cons_other; intros ->; exact (Hn2 Hg)).
        rewrite !app_length in Hb. cbn [List.length] in Hb.
        rewrite (Permutation_length Hp1), app_length. lia. }
      apply (open_ok_app _ _ _ _ _ Hok1 Hop1 Hone).
  - (* timer *)
    destruct (bstep (bb t) BTimer) as [b1|] eqn:Hs; [|discriminate]. inversion H; subst t'. cbn [btrace bb].
    exists op. split; [exact Hop|]. eapply Permutation_trans; [exact Hperm|].
    unfold in_flight. rewrite (bstep_timer_draws _ _ Hs).
    destruct (bstep_timer_running _ _ Hs) as [->| ->]; [apply Permutation_refl|].
    rewrite flat_map_app. cbn [flat_map].
    rewrite latest_target_fresh; [rewrite !app_nil_r; apply Permutation_refl|].
    intros d Hd. pose proof (b_ids _ _ _ _ B d Hd). lia.
  - destruct (bstep (bb t) (BDraw f)) as [b1|] eqn:Hs; [|discriminate].
    destruct (bstep_draw_core _ _ _ Hs) as (Hcore & _ & Hf).
    destruct (NoDup_split f _ Hnd Hf) as (r1 & r2 & Hsplit & Hn1 & Hn2).
    assert (Hperm' : Permutation op (flat_map (fun g => latest_target g (draws (bb t))) r1
                  ++ latest_target f (draws (bb t))
                  ++ flat_map (fun g => latest_target g (draws (bb t))) r2)).
    { unfold in_flight in Hperm. rewrite Hsplit, flat_map_app in Hperm. exact Hperm. }
    destruct (close_current c t f tn op r1 r2 Hok Hop Hsplit Hperm') as (op1 & Hok1 & Hop1 & Hp1).
    pose proof (bstep_draw_effect _ _ _ Hs) as Hd.
    destruct (plan (bb t)) as [|x rest] eqn:Hpl.
    + (* the plan is empty: the fiber yields *)
      destruct Hd as [Hd _].
      destruct (bstep b1 _) as [b2|] eqn:Hs2; [|discriminate]. inversion H; subst t'. cbn [btrace bb].
      exists op1. split; [exact Hop1|]. eapply Permutation_trans; [exact Hp1|].
      unfold in_flight. rewrite (bstep_complete_running _ _ _ _ Hs2), (bstep_complete_draws _ _ _ _ Hs2).
      rewrite Hcore, Hsplit, (remove_split _ _ _ Hn1 Hn2), Hd, flat_map_app.
      rewrite (flat_map_ext_in (fun g => latest_target g ((f, None) :: draws (bb t)))
                 (fun g => latest_target g (draws (bb t))) r1)
        by (intros g Hg; apply latest_target_cons_other; intros ->; exact (Hn1 Hg)).
      rewrite (flat_map_ext_in (fun g => latest_target g ((f, None) :: draws (bb t)))
                 (fun g => latest_target g (draws (bb t))) r2)
        by (intros g Hg; apply latest_target_cons_other; intros ->; exact (Hn2 Hg)).
      apply Permutation_refl.
    + destruct Hd as [Hd _]. inversion H; subst t'. cbn [btrace bb rev].
      exists (x :: op1). split.
      * (* run_open over the appended begin *)
        assert (Hgen : forall a op0 opa, run_open op0 a = Some opa ->
                    run_open op0 (a ++ [EvBegin x tn]) = Some (x :: opa)).
        { induction a as [|[y z|y z] a IHa]; intros op0 opa Ha; cbn [app run_open] in *.
          - inversion Ha; subst. reflexivity.
          - apply IHa. exact Ha.
          - destruct (remove1 y op0); [apply IHa; exact Ha|discriminate]. }
        apply Hgen. exact Hop1.
      * unfold in_flight. rewrite Hcore, Hsplit, Hd, flat_map_app. cbn [flat_map].
        rewrite latest_target_cons_some.
        rewrite (flat_map_ext_in (fun g => latest_target g ((f, Some x) :: draws (bb t)))
                   (fun g => latest_target g (draws (bb t))) r1)
          by (intros g Hg; apply latest_target_cons_other; intros ->; exact (Hn1 Hg)).
        rewrite (flat_map_ext_in (fun g => latest_target g ((f, Some x) :: draws (bb t)))
                   (fun g => latest_target g (draws (bb t))) r2)
          by (intros g Hg; apply latest_target_cons_other; intros ->; exact (Hn2 Hg)).
        cbn [app]. eapply Permutation_trans; [apply perm_skip; exact Hp1|]. apply Permutation_middle.
Qed.

Lemma bexplore_final2 c interval tg fuel t o :
  BTInv2 c tg t -> In o (bexplore fuel interval tg t) ->
  exists t', BTInv2 c tg t' /\ bo_events o = rev (btrace t').
Proof.
  revert t; induction fuel as [|fuel IH]; intros t T Hin; cbn [bexplore] in Hin.
  - destruct (returned (core (bb t))) as [r|]; [|destruct Hin].
    destruct Hin as [<-|[]]. exists t. auto.
  - destruct (returned (core (bb t))) as [r|].
    + destruct Hin as [<-|[]]. exists t. auto.
    + destruct (list_min (bevent_times t)) as [tn|]; [|destruct Hin].
      apply in_flat_map in Hin. destruct Hin as (l & _ & Hin).
      destruct (btstep interval tg t l tn) as [t1|] eqn:Hs; [|destruct Hin].
      apply (IH t1); [eapply btinv2_step; eassumption|exact Hin].
Qed.

Theorem probe_accept_sound c interval tg o :
  baccept_guided c interval tg o = true -> prop_trace c tg o = true.
Proof.
  intros H. unfold prop_trace. apply andb_true_iff. split.
  - apply (probe_accept_schedule _ _ _ _ H).
  - rewrite baccept_guided_eq in H. apply baccept_In in H.
    destruct (bexplore_final2 c _ _ _ _ _ (btinv2_init c interval tg) H) as (t' & T & ->).
    apply (bt2_ok _ _ _ T).
Qed.

(* ---------------- probe plans: every tie resolution returns and is accepted ---------------- *)

Lemma btimed_run_explore fuel oracle interval tg t o :
  btimed_run fuel oracle interval tg t = Some o -> In o (bexplore fuel interval tg t).
Proof.
  revert oracle t; induction fuel as [|fuel IH]; intros oracle t H; cbn [btimed_run bexplore] in *.
  - destruct (returned (core (bb t))); [inversion H; left; reflexivity|discriminate].
  - destruct (returned (core (bb t))); [inversion H; left; reflexivity|].
    destruct (list_min (bevent_times t)) as [tn|]; [|discriminate].
    set (rd := bready t tn) in *.
    destruct (nth_error rd _) as [l|] eqn:Hn; [|discriminate].
    destruct (btstep interval tg t l tn) as [t1|] eqn:Hs; [|discriminate].
    apply in_flat_map. exists l. split; [eapply nth_error_In; exact Hn|].
    rewrite Hs. eapply IH. exact H.
Qed.

Definition bmeasure (t : btstate) : nat := measure (core (bb t)) + List.length (plan (bb t)).

Record BTInv3 (c : config) (tg : list (N * N)) (t : btstate) : Prop := mkBTInv3 {
  bt3_base : BTInv c tg t;
  bt3_fresh : forall f, In f (running (core (bb t))) -> saw_end f (draws (bb t)) = false
}.

Lemma btinv3_init c interval tg : BTInv3 c tg (btinit c interval tg).
Proof.
  constructor; [apply btinv_init|]. intros f _. cbn. unfold binit. destruct (gate c); reflexivity.
Qed.

Lemma saw_end_cons g f x ds :
  saw_end g ((f, x) :: ds) = ((f =? g) && match x with None => true | Some _ => false end) || saw_end g ds.
Proof. reflexivity. Qed.
Lemma drew_some_cons g f x ds :
  drew_some g ((f, x) :: ds) = ((f =? g) && match x with Some _ => true | None => false end) || drew_some g ds.
Proof. reflexivity. Qed.

Lemma saw_end_fresh f ds : (forall d, In d ds -> fst d <> f) -> saw_end f ds = false.
Proof.
  intros H. unfold saw_end. destruct (existsb _ ds) eqn:He; [|reflexivity].
  apply existsb_exists in He. destruct He as (d & Hd & Hc). apply andb_true_iff in Hc.
  destruct Hc as [Hc _]. apply Nat.eqb_eq in Hc. exfalso. exact (H d Hd Hc).
Qed.

Definition probe_out (b : bstate) (f : nat) : fiber_out :=
  if drew_some f (draws b) then Some (Err ConnectionPoolError) else None.

Lemma btstep_fiber_empty interval tg t f tn b1 :
  bstep (bb t) (BDraw f) = Some b1 -> plan (bb t) = [] ->
  btstep interval tg t (TFiber f) tn =
  match bstep b1 (BComplete f (probe_out (bb t) f)) with
  | Some b2 => Some (mkBT b2 tn (bdeadline t) (wake t)
                       (map (fun c => EvEnd c tn) (latest_target f (draws (bb t))) ++ btrace t)
                       (BComplete f (probe_out (bb t) f) :: BDraw f :: bhist t))
  | None => None
  end.
Proof. intros H1 H2. unfold btstep. rewrite H1, H2. reflexivity. Qed.

Lemma complete_after_end b f b1 :
  bstep b (BDraw f) = Some b1 -> plan b = [] -> returned (core b) = None -> In f (running (core b)) ->
  exists b2, bstep b1 (BComplete f (probe_out b f)) = Some b2.
Proof.
  intros Hb1 Hpl Hret Hf.
  destruct (bstep_draw_core _ _ _ Hb1) as (Hcore & Hspec & _).
  pose proof (bstep_draw_effect _ _ _ Hb1) as He. rewrite Hpl in He. destruct He as [Hdr _].
  assert (Hmem : mem f (running (core b)) = true) by (apply mem_In; exact Hf).
  unfold probe_out. cbn [bstep]. rewrite Hdr, saw_end_cons, drew_some_cons, Nat.eqb_refl, Hspec, Hcore.
  cbn [andb orb].
  destruct (drew_some f (draws b)) eqn:Hds; cbn [negb]; destruct (speculative b).
  - unfold step, on_complete. rewrite Hret, Hmem. cbn. eauto.
  - unfold single_complete. rewrite Hret, Hmem. cbn. eauto.
  - unfold step, on_complete. rewrite Hret, Hmem. cbn. eauto.
  - unfold single_complete. rewrite Hret, Hmem. cbn. eauto.
Qed.

(* a ready label can always be taken; it preserves the invariant and decreases the measure *)
Lemma btstep_progress c interval tg t tn l :
  BTInv3 c tg t -> returned (core (bb t)) = None -> In l (bready t tn) ->
  exists t', btstep interval tg t l tn = Some t' /\ BTInv3 c tg t' /\ bmeasure t' < bmeasure t.
Proof.
  intros [Base Hfresh] Hret Hl.
  pose proof (bt_run _ _ _ Base) as Hrun. pose proof (binv_reachable _ _ _ _ Hrun) as B.
  unfold bready in Hl. apply in_app_or in Hl. destruct Hl as [Hl|Hl].
  - (* the timer *)
    destruct (speculative (bb t)) eqn:Hsp; [|destruct Hl].
    destruct (sleep (core (bb t))) eqn:Hsl; [|destruct Hl].
    destruct (N.eqb_spec (bdeadline t) tn); [|destruct Hl]. destruct Hl as [<-|[]].
    assert (Hst : exists s', step (core (bb t)) Timer = Some s').
    { unfold step, on_timer. rewrite Hret, Hsl. destruct (retries (core (bb t))); eauto. }
    destruct Hst as [s' Hs'].
    assert (Hb : bstep (bb t) BTimer = Some (mkB true s' (plan (bb t)) (draws (bb t)))).
    { cbn [bstep]. rewrite Hsp, Hs'. reflexivity. }
    unfold btstep. rewrite Hb. eexists. split; [reflexivity|].
    assert (Hstep : btstep interval tg t TTimer tn = Some
              (mkBT (mkB true s' (plan (bb t)) (draws (bb t))) tn (tn + interval)%N
                 (if started s' =? started (core (bb t)) then wake t else (started (core (bb t)), tn) :: wake t)
                 (btrace t) (BTimer :: bhist t))).
    { unfold btstep. rewrite Hb. reflexivity. }
    split; [constructor|].
    + eapply btinv_step; [exact Base|exact Hstep].
    + cbn [bb core draws]. intros f Hf.
      destruct (bstep_timer_running _ _ Hb) as [Hr|Hr]; cbn [core] in Hr; rewrite Hr in Hf.
      * apply Hfresh. exact Hf.
      * apply in_app_or in Hf. destruct Hf as [Hf|[<-|[]]]; [apply Hfresh; exact Hf|].
        apply saw_end_fresh. intros d Hd. pose proof (b_ids _ _ _ _ B d Hd). lia.
    + unfold bmeasure. cbn [bb core plan]. apply step_measure in Hs'. lia.
  - (* a fiber is polled *)
    apply in_map_iff in Hl. destruct Hl as (f & <- & Hf). apply filter_In in Hf. destruct Hf as [Hf _].
    assert (Hmem : mem f (running (core (bb t))) = true) by (apply mem_In; exact Hf).
    assert (Hd : exists b1, bstep (bb t) (BDraw f) = Some b1).
    { cbn [bstep]. rewrite Hret, Hmem, (Hfresh f Hf). cbn [negb andb]. destruct (plan (bb t)); eauto. }
    destruct Hd as [b1 Hb1].
    destruct (bstep_draw_core _ _ _ Hb1) as (Hcore & Hspec & _).
    pose proof (bstep_draw_effect _ _ _ Hb1) as He.
    destruct (plan (bb t)) as [|x rest] eqn:Hpl.
    + destruct He as [Hdr Hpl1].
      destruct (complete_after_end _ _ _ Hb1 Hpl Hret Hf) as [b2 Hb2].
      set (o := probe_out (bb t) f) in *.
      assert (Hstep : btstep interval tg t (TFiber f) tn = Some
                (mkBT b2 tn (bdeadline t) (wake t)
                   (map (fun c => EvEnd c tn) (latest_target f (draws (bb t))) ++ btrace t)
                   (BComplete f o :: BDraw f :: bhist t))).
      { rewrite (btstep_fiber_empty _ _ _ _ _ _ Hb1 Hpl). fold o. rewrite Hb2. reflexivity. }
      eexists. split; [exact Hstep|]. split; [constructor|].
      * eapply btinv_step; [exact Base|exact Hstep].
      * cbn [bb]. intros g Hg. rewrite (bstep_complete_running _ _ _ _ Hb2), Hcore in Hg.
        apply remove_In in Hg. destruct Hg as [Hg Hne].
        rewrite (bstep_complete_draws _ _ _ _ Hb2), Hdr, saw_end_cons.
        replace (f =? g) with false by (symmetry; apply Nat.eqb_neq; congruence).
        cbn [andb orb]. apply Hfresh. exact Hg.
      * unfold bmeasure. cbn [bb].
        assert (Hplan2 : plan b2 = plan b1).
        { cbn [bstep] in Hb2. match type of Hb2 with (if ?c then _ else _) = _ => destruct c; [|discriminate] end.
          destruct (if speculative b1 then _ else _); inversion Hb2; subst; reflexivity. }
        rewrite Hplan2, Hpl1. cbn [List.length].
        assert (Hm : measure (core b2) < measure (core (bb t))).
        { cbn [bstep] in Hb2. match type of Hb2 with (if ?c then _ else _) = _ => destruct c; [|discriminate] end.
          rewrite Hspec, Hcore in Hb2. destruct (speculative (bb t)).
          - destruct (step (core (bb t)) (Complete f o)) as [s'|] eqn:Hs'; [|discriminate].
            inversion Hb2; subst. cbn [core]. eapply step_measure. exact Hs'.
          - unfold single_complete in Hb2. rewrite Hret, Hmem in Hb2. inversion Hb2; subst. cbn [core].
            unfold measure. cbn [retries running sleep]. pose proof (remove_length_lt _ _ Hf). lia. }
        lia.
    + destruct He as [Hdr Hpl1].
      assert (Hstep : btstep interval tg t (TFiber f) tn = Some
                (mkBT b1 tn (bdeadline t) ((f, (tn + lookupN 0%N x tg)%N) :: wake t)
                   (EvBegin x tn :: map (fun c => EvEnd c tn) (latest_target f (draws (bb t))) ++ btrace t)
                   (BDraw f :: bhist t))).
      { unfold btstep. rewrite Hb1, Hpl. reflexivity. }
      eexists. split; [exact Hstep|]. split; [constructor|].
      * eapply btinv_step; [exact Base|exact Hstep].
      * cbn [bb]. intros g Hg. rewrite Hcore in Hg. rewrite Hdr, saw_end_cons, andb_false_r. cbn [orb].
        apply Hfresh. exact Hg.
      * unfold bmeasure. cbn [bb]. rewrite Hcore, Hpl1, Hpl. cbn [List.length]. lia.
Qed.

Lemma bready_nonempty c tg t :
  BTInv3 c tg t -> returned (core (bb t)) = None ->
  exists tn, list_min (bevent_times t) = Some tn /\ bready t tn <> [].
Proof.
  intros [Base Hfresh] Hret.
  pose proof (bt_run _ _ _ Base) as Hrun. pose proof (binv_reachable _ _ _ _ Hrun) as B.
  assert (Hne : bevent_times t <> []).
  { unfold bevent_times. intros Hnil. apply app_eq_nil in Hnil. destruct Hnil as [H1 H2].
    apply map_eq_nil in H2.
    destruct (gate c) as [max|] eqn:Hg.
    - pose proof (b_mode _ _ _ _ B) as Hm. rewrite Hg in Hm. rewrite Hm in H1.
      destruct (execute_no_deadlock _ _ _ (b_spec _ _ _ _ B _ Hg) Hret) as [Hnd _].
      destruct (Hnd H2) as [Hs _]. rewrite Hs in H1. discriminate.
    - destruct (b_single _ _ _ _ B Hg) as [[Hc _]|(o & _ & Hc)]; rewrite Hc in *; cbn in *; discriminate. }
  destruct (list_min (bevent_times t)) as [tn|] eqn:Hmin; [|apply list_min_none in Hmin; congruence].
  exists tn. split; [reflexivity|].
  destruct (list_min_spec _ _ Hmin) as [Hin _]. unfold bevent_times in Hin. unfold bready.
  apply in_app_or in Hin. destruct Hin as [Hin|Hin]; intros Hnil; apply app_eq_nil in Hnil; destruct Hnil as [H1 H2].
  - destruct (speculative (bb t)); [|destruct Hin]. destruct (sleep (core (bb t))); [|destruct Hin].
    destruct Hin as [<-|[]]. rewrite N.eqb_refl in H1. discriminate.
  - apply in_map_iff in Hin. destruct Hin as (f & Hw & Hf). apply map_eq_nil in H2.
    assert (Hx : In f (filter (fun f => (lookup_nat 0%N f (wake t) =? tn)%N) (running (core (bb t))))).
    { apply filter_In. split; [exact Hf|apply N.eqb_eq; exact Hw]. }
    rewrite H2 in Hx. destruct Hx.
Qed.

Lemma btimed_run_total c interval tg fuel oracle t :
  BTInv3 c tg t -> bmeasure t < fuel -> exists o, btimed_run fuel oracle interval tg t = Some o.
Proof.
  revert oracle t; induction fuel as [|fuel IH]; intros oracle t T Hm; [lia|].
  cbn [btimed_run]. destruct (returned (core (bb t))) as [r|] eqn:Hret; [eauto|].
  destruct (bready_nonempty _ _ _ T Hret) as (tn & Hmin & Hne). rewrite Hmin.
  set (rd := bready t tn) in *.
  set (i := match oracle with [] => 0 | c0 :: _ => c0 mod List.length rd end).
  assert (Hi : i < List.length rd).
  { destruct rd as [|x rd']; [congruence|]. subst i. destruct oracle; [cbn; lia|].
    apply Nat.mod_upper_bound. discriminate. }
  destruct (nth_error rd i) as [l|] eqn:Hn; [|apply nth_error_None in Hn; lia].
  assert (Hl : In l (bready t tn)) by (eapply nth_error_In; exact Hn).
  destruct (btstep_progress c interval tg t tn l T Hret Hl) as (t' & Hs & T' & Hlt).
  rewrite Hs. apply IH; [exact T'|lia].
Qed.

Lemma probe_accept_complete c interval tg oracle :
  exists o, btimed_run (bfuel c tg) oracle interval tg (btinit c interval tg) = Some o /\
            baccept_guided c interval tg o = true.
Proof.
  destruct (btimed_run_total c interval tg (bfuel c tg) oracle (btinit c interval tg)
              (btinv3_init c interval tg)) as [o Ho].
  { unfold bmeasure, bfuel, btinit, binit. cbn [bb]. destruct (gate c) as [max|]; cbn [core plan];
      rewrite map_length; unfold measure, init, single_init; cbn; lia. }
  exists o. split; [exact Ho|]. rewrite baccept_guided_eq. apply baccept_In. unfold btimed_runs.
  eapply btimed_run_explore. exact Ho.
Qed.
