(* Proofs about Model/Spec.v (property C13). *)
From SV Require Import Base.Prelude Model.Spec.
From Coq Require Import Ascii String.
Open Scope nat_scope.

(* ---------------- tables ---------------- *)

Lemma can_be_ignored_spec r : can_be_ignored r = is_ignorable (Some r).
Proof.
  destruct r as [v|e]; [reflexivity|].
  destruct e as [| | |a]; try reflexivity.
  destruct a as [| | | | | | |d| | | |]; try reflexivity.
  destruct d; reflexivity.
Qed.

Lemma is_real_ignorable_exhausted o :
  is_real o = negb (is_ignorable o) && negb (is_exhausted o).
Proof.
  unfold is_real, is_ignorable, is_exhausted, classify.
  destruct o as [[v|e]|]; try reflexivity. destruct (spec_transient e); reflexivity.
Qed.

Lemma all_request_errors_complete e : In e all_request_errors.
Proof.
  destruct e as [| | |a]; [vm_compute; tauto..|].
  destruct a as [| | | | | | |d| | | |]; try (vm_compute; tauto).
  destruct d; vm_compute; tauto.
Qed.

Lemma request_error_of_name_name e : request_error_of_name (request_error_name e) = Some e.
Proof.
  destruct e as [| | |a]; [vm_compute; reflexivity..|].
  destruct a as [| | | | | | |d| | | |]; try (vm_compute; reflexivity).
  destruct d; vm_compute; reflexivity.
Qed.

(* ---------------- lists ---------------- *)

Lemma mem_In f l : mem f l = true <-> In f l.
Proof.
  unfold mem. rewrite existsb_exists. split.
  - intros [x [Hx He]]. apply Nat.eqb_eq in He. subst. exact Hx.
  - intros H. exists f. split; [exact H|apply Nat.eqb_refl].
Qed.

Lemma remove_In f l g : In g (remove f l) <-> In g l /\ g <> f.
Proof.
  unfold remove. rewrite filter_In. rewrite negb_true_iff, Nat.eqb_neq. intuition congruence.
Qed.

Lemma remove_NoDup f l : NoDup l -> NoDup (remove f l).
Proof. apply NoDup_filter. Qed.

Lemma remove_length f l : NoDup l -> In f l -> S (List.length (remove f l)) = List.length l.
Proof.
  induction l as [|x l IH]; intros Hnd Hin; [destruct Hin|].
  inversion Hnd as [|? ? Hx Hnd']; subst. cbn [remove filter].
  destruct (Nat.eqb_spec f x) as [->|Hne]; cbn [negb].
  - assert (Hid : forall m, ~ In x m -> filter (fun g => negb (x =? g)) m = m).
    { induction m as [|y m IHm]; intros Hy; [reflexivity|]. cbn [filter].
      destruct (Nat.eqb_spec x y) as [->|Hxy]; [exfalso; apply Hy; left; reflexivity|].
      cbn [negb]. f_equal. apply IHm. intros H; apply Hy; right; exact H. }
    rewrite Hid by exact Hx. reflexivity.
  - cbn [List.length]. f_equal. apply IH; [exact Hnd'|].
    destruct Hin as [->|Hin]; [congruence|exact Hin].
Qed.

Lemma remove_length_le f l : List.length (remove f l) <= List.length l.
Proof.
  unfold remove. induction l as [|x l IH]; [apply le_n|]. cbn [filter].
  destruct (negb (f =? x)); cbn [List.length]; lia.
Qed.

Lemma remove_length_lt f l : In f l -> List.length (remove f l) < List.length l.
Proof.
  induction l as [|x l IH]; intros Hin; [destruct Hin|]. cbn [remove filter].
  destruct (Nat.eqb_spec f x) as [->|Hne]; cbn [negb List.length].
  - pose proof (remove_length_le x l). unfold remove in *. lia.
  - destruct Hin as [->|Hin]; [congruence|]. specialize (IH Hin). unfold remove in *. lia.
Qed.

Lemma NoDup_snoc {A} (l : list A) x : NoDup l -> ~ In x l -> NoDup (l ++ [x]).
Proof.
  induction l as [|y l IH]; intros Hnd Hx; cbn [app].
  - constructor; [intros []|constructor].
  - inversion Hnd as [|? ? Hy Hnd']; subst. constructor.
    + intros Hin. apply in_app_or in Hin. destruct Hin as [Hin|[<-|[]]]; [exact (Hy Hin)|].
      apply Hx. left; reflexivity.
    + apply IH; [exact Hnd'|]. intros H; apply Hx; right; exact H.
Qed.

(* ---------------- schedules ---------------- *)

Lemma run_app s a b :
  run s (a ++ b) = match run s a with Some s' => run s' b | None => None end.
Proof.
  revert s; induction a as [|l a IH]; intros s; [reflexivity|].
  cbn [app run]. destruct (step s l); [apply IH|reflexivity].
Qed.

Lemma run_snoc s a l :
  run s (a ++ [l]) = match run s a with Some s' => step s' l | None => None end.
Proof. rewrite run_app. destruct (run s a) as [s'|]; [|reflexivity]. cbn [run]. destruct (step s' l); reflexivity. Qed.

Lemma completions_app a b : completions (a ++ b) = completions a ++ completions b.
Proof. unfold completions. apply flat_map_app. Qed.

Lemma is_real_some o : is_real o = true -> exists r, o = Some r.
Proof. destruct o as [r|]; [eauto|discriminate]. Qed.

Lemma first_real_app a b :
  first_real (a ++ b) = match first_real a with Some r => Some r | None => first_real b end.
Proof.
  induction a as [|o a IH]; [reflexivity|]. cbn [app first_real].
  destruct (is_real o) eqn:Hr; [|exact IH].
  destruct (is_real_some _ Hr) as [r ->]. reflexivity.
Qed.

Lemma first_real_some cs r : first_real cs = Some r -> In (Some r) cs /\ is_real (Some r) = true.
Proof.
  induction cs as [|o cs IH]; [discriminate|]. cbn [first_real].
  destruct (is_real o) eqn:Hr.
  - intros ->. split; [left; reflexivity|exact Hr].
  - intros H. destruct (IH H). split; [right; assumption|assumption].
Qed.

Lemma first_real_none cs : first_real cs = None <-> forall o, In o cs -> is_real o = false.
Proof.
  induction cs as [|o cs IH]; cbn [first_real].
  - split; [intros _ o []|reflexivity].
  - destruct (is_real o) eqn:Hr.
    + destruct (is_real_some _ Hr) as [r ->]. split; [discriminate|].
      intros H. specialize (H (Some r) (or_introl eq_refl)). congruence.
    + rewrite IH. split.
      * intros H o' [<-|Hin]; [exact Hr|apply H; exact Hin].
      * intros H o' Hin. apply H. right; exact Hin.
Qed.

Lemma last_ignorable_from_app acc a b :
  last_ignorable_from acc (a ++ b) = last_ignorable_from (last_ignorable_from acc a) b.
Proof. revert acc; induction a as [|o a IH]; intros acc; [reflexivity|]. cbn [app last_ignorable_from]. apply IH. Qed.

Lemma last_ignorable_snoc cs o :
  last_ignorable (cs ++ [o]) = if is_ignorable o then o else last_ignorable cs.
Proof. unfold last_ignorable. rewrite last_ignorable_from_app. reflexivity. Qed.

Lemma existsb_snoc {A} (p : A -> bool) l x : existsb p (l ++ [x]) = existsb p l || p x.
Proof. rewrite existsb_app. cbn [existsb]. rewrite orb_false_r. reflexivity. Qed.

(* ---------------- the invariant of execute ---------------- *)

Record Inv (max : nat) (ls : list label) (s : state) : Prop := mkInv {
  inv_nodup : NoDup (running s);
  inv_lt : forall f, In f (running s) -> f < started s;
  inv_bound : started s + retries s <= 1 + max;
  inv_bound_eq : existsb is_exhausted (completions ls) = false -> started s + retries s = 1 + max;
  inv_exh : existsb is_exhausted (completions ls) = true -> retries s = 0;
  inv_count : List.length (completions ls) + List.length (running s) = started s;
  inv_live : returned s = None ->
             (retries s > 0 -> sleep s = Armed) /\ (running s = [] -> retries s > 0);
  inv_pending : returned s = None ->
             first_real (completions ls) = None /\ last_error s = last_ignorable (completions ls);
  inv_ret : forall r, returned s = Some r ->
             first_real (completions ls) = Some r \/
             (first_real (completions ls) = None /\ running s = [] /\ retries s = 0 /\
              r = or_empty_plan (last_ignorable (completions ls)))
}.

Lemma inv_init max : Inv max [] (init max).
Proof.
  constructor; cbn.
  - repeat constructor. intros [].
  - intros f [<-|[]]. lia.
  - lia.
  - intros _. lia.
  - discriminate.
  - reflexivity.
  - intros _. split; [reflexivity|discriminate].
  - intros _. split; reflexivity.
  - discriminate.
Qed.

Lemma inv_timer max ls s s' :
  Inv max ls s -> returned s = None -> on_timer s = Some s' -> Inv max (ls ++ [Timer]) s'.
Proof.
  intros I Hret H. unfold on_timer in H.
  destruct (sleep s) eqn:Hsl; [|discriminate].
  assert (Hc : completions (ls ++ [Timer]) = completions ls).
  { rewrite completions_app. cbn. apply app_nil_r. }
  destruct I as [Ind Ilt Ib Ibe Iex Ic Il Ip Ir].
  destruct (Il Hret) as [Il1 Il2]. destruct (Ip Hret) as [Ip1 Ip2].
  destruct (retries s) as [|r] eqn:Hr; inversion H; subst s'; clear H;
    constructor; rewrite ?Hc; cbn [running retries sleep started returned last_error].
  - exact Ind.
  - exact Ilt.
  - lia.
  - exact Ibe.
  - intros _; reflexivity.
  - exact Ic.
  - intros _. split; [lia|]. intros Hrun. specialize (Il2 Hrun). lia.
  - intros _. split; assumption.
  - intros r0 Hr0. congruence.
  - apply NoDup_snoc; [exact Ind|]. intros Hin. specialize (Ilt _ Hin). lia.
  - intros f Hin. apply in_app_or in Hin. destruct Hin as [Hin|[<-|[]]]; [specialize (Ilt _ Hin)|]; lia.
  - lia.
  - intros He. specialize (Ibe He). lia.
  - intros He. specialize (Iex He). discriminate.
  - rewrite app_length. cbn [List.length]. lia.
  - intros _. split; [reflexivity|]. intros Hnil. destruct (running s); discriminate.
  - intros _. split; assumption.
  - intros r0 Hr0. congruence.
Qed.

Lemma inv_finish max ls m :
  returned m = None ->
  NoDup (running m) ->
  (forall f, In f (running m) -> f < started m) ->
  started m + retries m <= 1 + max ->
  (existsb is_exhausted (completions ls) = false -> started m + retries m = 1 + max) ->
  (existsb is_exhausted (completions ls) = true -> retries m = 0) ->
  List.length (completions ls) + List.length (running m) = started m ->
  (retries m > 0 -> sleep m = Armed) ->
  first_real (completions ls) = None ->
  last_error m = last_ignorable (completions ls) ->
  Inv max ls (finish_check m).
Proof.
  intros Hret Hnd Hlt Hb Hbe Hex Hc Hl Hfr Hle.
  unfold finish_check.
  destruct (running m) as [|g rest] eqn:Hrun.
  - destruct (retries m) as [|r] eqn:Hr.
    + constructor; cbn [running retries sleep started returned last_error]; rewrite ?Hrun, ?Hr; auto;
        try discriminate.
      intros r0 Hr0. inversion Hr0; subst r0. right. rewrite Hle. auto.
    + constructor; rewrite ?Hrun, ?Hr; auto.
      * intros _. split; [intros _; apply Hl; lia|intros _; lia].
      * intros r0 Hr0. congruence.
  - constructor; rewrite ?Hrun; auto.
    + intros _. split; [exact Hl|discriminate].
    + intros r0 Hr0. congruence.
Qed.

Lemma inv_complete max ls s f o s' :
  Inv max ls s -> returned s = None -> on_complete s f o = Some s' ->
  Inv max (ls ++ [Complete f o]) s'.
Proof.
  intros I Hret H. unfold on_complete in H.
  destruct (mem f (running s)) eqn:Hm; [|discriminate]. apply mem_In in Hm.
  assert (Hc : completions (ls ++ [Complete f o]) = completions ls ++ [o]).
  { rewrite completions_app. reflexivity. }
  destruct I as [Ind Ilt Ib Ibe Iex Ic Il Ip Ir].
  destruct (Il Hret) as [Il1 Il2]. destruct (Ip Hret) as [Ip1 Ip2].
  pose proof (remove_NoDup f _ Ind) as Hnd'.
  assert (Hlt' : forall g, In g (remove f (running s)) -> g < started s).
  { intros g Hg. apply remove_In in Hg. apply Ilt. tauto. }
  pose proof (remove_length f _ Ind Hm) as Hlen.
  assert (Hcnt : List.length (completions ls ++ [o]) + List.length (remove f (running s)) = started s).
  { rewrite app_length. cbn [List.length]. lia. }
  destruct o as [r|].
  - destruct (can_be_ignored r) eqn:Hign; inversion H; subst s'; clear H.
    + (* ignorable: remembered, maybe the end *)
      rewrite can_be_ignored_spec in Hign.
      assert (Hnr : is_real (Some r) = false).
      { rewrite is_real_ignorable_exhausted, Hign. reflexivity. }
      apply inv_finish; cbn [running retries sleep started returned last_error]; rewrite ?Hc; auto.
      * rewrite existsb_snoc. cbn [is_exhausted]. rewrite orb_false_r. exact Ibe.
      * rewrite existsb_snoc. cbn [is_exhausted]. rewrite orb_false_r. exact Iex.
      * rewrite first_real_app, Ip1. cbn [first_real]. rewrite Hnr. reflexivity.
      * rewrite last_ignorable_snoc, Hign. reflexivity.
    + (* a real answer: returned at once *)
      rewrite can_be_ignored_spec in Hign.
      assert (Hre : is_real (Some r) = true).
      { rewrite is_real_ignorable_exhausted, Hign. reflexivity. }
      constructor; cbn [running retries sleep started returned last_error]; rewrite ?Hc; auto.
      * rewrite existsb_snoc. cbn [is_exhausted]. rewrite orb_false_r. exact Ibe.
      * rewrite existsb_snoc. cbn [is_exhausted]. rewrite orb_false_r. exact Iex.
      * discriminate.
      * discriminate.
      * intros r0 Hr0. inversion Hr0; subst r0. left.
        rewrite first_real_app, Ip1. cbn [first_real]. rewrite Hre. reflexivity.
  - (* the plan is exhausted: no further execution will be started *)
    inversion H; subst s'; clear H.
    apply inv_finish; cbn [running retries sleep started returned last_error]; rewrite ?Hc; auto.
    + lia.
    + rewrite existsb_snoc. cbn [is_exhausted]. rewrite orb_true_r. discriminate.
    + lia.
    + rewrite first_real_app, Ip1. reflexivity.
    + rewrite last_ignorable_snoc. cbn. exact Ip2.
Qed.

Lemma inv_step max ls s l s' :
  Inv max ls s -> step s l = Some s' -> Inv max (ls ++ [l]) s'.
Proof.
  intros I H. unfold step in H. destruct (returned s) eqn:Hret; [discriminate|].
  destruct l as [|f o]; [eapply inv_timer|eapply inv_complete]; eassumption.
Qed.

Theorem inv_reachable max ls s : run (init max) ls = Some s -> Inv max ls s.
Proof.
  revert s. induction ls as [|l ls IH] using rev_ind; intros s H.
  - inversion H; subst. apply inv_init.
  - rewrite run_snoc in H. destruct (run (init max) ls) as [s0|] eqn:H0; [|discriminate].
    eapply inv_step; [apply IH; reflexivity|exact H].
Qed.

(* ---------------- the theorems about execute ---------------- *)

Lemma execute_bound max ls s :
  run (init max) ls = Some s ->
  started s <= 1 + max /\ NoDup (running s) /\ (forall f, In f (running s) -> f < started s) /\
  List.length (completions ls) + List.length (running s) = started s /\
  (existsb is_exhausted (completions ls) = false -> started s + retries s = 1 + max).
Proof.
  intros H. destruct (inv_reachable _ _ _ H). repeat split; auto. lia.
Qed.

Lemma execute_result max ls s :
  run (init max) ls = Some s ->
  returned s = spec_returned max (started s) (completions ls).
Proof.
  intros H. destruct (inv_reachable _ _ _ H) as [Ind Ilt Ib Ibe Iex Ic Il Ip Ir].
  unfold spec_returned.
  destruct (returned s) as [r|] eqn:Hret.
  - destruct (Ir r eq_refl) as [Hf|(Hf & Hrun & Hr & ->)]; rewrite Hf; [reflexivity|].
    rewrite Hrun in Ic. cbn [List.length] in Ic.
    replace (List.length (completions ls) =? started s) with true by (symmetry; apply Nat.eqb_eq; lia).
    destruct (existsb is_exhausted (completions ls)) eqn:He.
    + rewrite orb_true_r. reflexivity.
    + specialize (Ibe eq_refl).
      replace (started s =? 1 + max) with true by (symmetry; apply Nat.eqb_eq; lia). reflexivity.
  - destruct (Il eq_refl) as [Il1 Il2]. destruct (Ip eq_refl) as [Ip1 Ip2]. rewrite Ip1.
    destruct (List.length (completions ls) =? started s) eqn:Hl; [|reflexivity].
    apply Nat.eqb_eq in Hl.
    assert (Hrun : running s = []) by (destruct (running s); [reflexivity|cbn [List.length] in Ic; lia]).
    specialize (Il2 Hrun).
    destruct (started s =? 1 + max) eqn:Hs.
    + apply Nat.eqb_eq in Hs. lia.
    + destruct (existsb is_exhausted (completions ls)) eqn:He; [|reflexivity].
      specialize (Iex eq_refl). lia.
Qed.

Lemma execute_no_deadlock max ls s :
  run (init max) ls = Some s -> returned s = None ->
  (running s = [] -> sleep s = Armed /\ retries s > 0) /\
  exists l s', step s l = Some s'.
Proof.
  intros H Hret. destruct (inv_reachable _ _ _ H) as [Ind Ilt Ib Ibe Iex Ic Il Ip Ir].
  destruct (Il Hret) as [Il1 Il2]. split.
  - intros Hrun. specialize (Il2 Hrun). split; [apply Il1|]; assumption.
  - destruct (running s) as [|f rest] eqn:Hrun.
    + specialize (Il2 eq_refl). specialize (Il1 Il2).
      exists Timer. unfold step, on_timer. rewrite Hret, Il1. destruct (retries s); eauto.
    + exists (Complete f None). unfold step, on_complete. rewrite Hret, Hrun.
      replace (mem f (f :: rest)) with true by (symmetry; apply mem_In; left; reflexivity). eauto.
Qed.

Lemma measure_finish_check m : measure (finish_check m) = measure m.
Proof.
  unfold finish_check. destruct (running m) eqn:Hrun; [destruct (retries m) eqn:Hr|]; try reflexivity.
  unfold measure. cbn [retries running sleep]. rewrite Hrun, Hr. reflexivity.
Qed.

Lemma step_measure s l s' : step s l = Some s' -> measure s' < measure s.
Proof.
  unfold step. destruct (returned s); [discriminate|]. destruct l as [|f o].
  - unfold on_timer. destruct (sleep s) eqn:Hsl; [|discriminate].
    destruct (retries s) eqn:Hr; intros H; inversion H; subst s'; unfold measure;
      cbn [retries running sleep]; rewrite ?Hsl, ?Hr, ?app_length; cbn [List.length]; lia.
  - unfold on_complete. destruct (mem f (running s)) eqn:Hm; [|discriminate].
    apply mem_In in Hm. pose proof (remove_length_lt _ _ Hm) as Hlt.
    destruct o as [r|]; [destruct (can_be_ignored r)|]; intros H; inversion H; subst s';
      rewrite ?measure_finish_check; unfold measure; cbn [retries running sleep]; lia.
Qed.

Lemma run_measure s ls s' : run s ls = Some s' -> List.length ls + measure s' <= measure s.
Proof.
  revert s; induction ls as [|l ls IH]; intros s H; cbn [run] in H.
  - inversion H; subst. cbn. lia.
  - destruct (step s l) as [s1|] eqn:Hs; [|discriminate].
    apply step_measure in Hs. specialize (IH _ H). cbn [List.length]. lia.
Qed.

Lemma execute_terminates max ls s : run (init max) ls = Some s -> List.length ls <= 3 * max + 3.
Proof. intros H. apply run_measure in H. unfold measure, init in H. cbn in H. lia. Qed.

Lemma execute_always_returns max ls s :
  run (init max) ls = Some s -> (forall l, step s l = None) -> returned s <> None.
Proof.
  intros H Hstuck Hret. destruct (execute_no_deadlock _ _ _ H Hret) as [_ (l & s' & Hs)].
  rewrite Hstuck in Hs. discriminate.
Qed.

(* from every reachable state some continuation returns *)
Lemma execute_can_return max ls s :
  run (init max) ls = Some s -> exists ls' s' r, run s ls' = Some s' /\ returned s' = Some r.
Proof.
  remember (measure s) as n eqn:Hn. revert ls s Hn.
  induction n as [n IH] using lt_wf_ind. intros ls s Hn H.
  destruct (returned s) as [r|] eqn:Hret.
  - exists [], s, r. split; [reflexivity|exact Hret].
  - destruct (execute_no_deadlock _ _ _ H Hret) as [_ (l & s1 & Hs)].
    assert (H1 : run (init max) (ls ++ [l]) = Some s1) by (rewrite run_snoc, H; exact Hs).
    pose proof (step_measure _ _ _ Hs) as Hm.
    destruct (IH (measure s1) ltac:(lia) _ _ eq_refl H1) as (ls' & s' & r & Hrun & Hr).
    exists (l :: ls'), s', r. split; [cbn [run]; rewrite Hs; exact Hrun|exact Hr].
Qed.
