(* Proofs about Model/ShardRange.v (ShardAwarePortRange::new), property C11. *)
From SV Require Import Base.Prelude Model.Shard Proofs.Shard_proofs Model.ShardRange.
From Coq Require Import Permutation.
Open Scope N_scope.

Lemma port_range_new_iff lo hi r :
  port_range_new lo hi = Some r <-> (1024 <= lo /\ lo <= hi /\ r = (lo, hi)).
Proof.
  unfold port_range_new, first_unreserved_port.
  destruct (hi <? lo) eqn:E1; destruct (lo <? 1024) eqn:E2; cbn [orb];
    rewrite ?N.ltb_lt, ?N.ltb_ge in *; split.
  all: try (intros H; discriminate H).
  all: try (intros (H1 & H2 & _); lia).
  - intros H. inversion H. repeat split; lia.
  - intros (_ & _ & ->). reflexivity.
Qed.

Lemma port_range_new_none_iff lo hi :
  port_range_new lo hi = None <-> (hi < lo \/ lo < 1024).
Proof.
  unfold port_range_new, first_unreserved_port.
  destruct (hi <? lo) eqn:E1; destruct (lo <? 1024) eqn:E2; cbn [orb];
    rewrite ?N.ltb_lt, ?N.ltb_ge in *; split; intros H; try reflexivity; try lia; try discriminate H.
Qed.

Lemma port_range_new_allowed lo hi : 1024 <= lo -> lo <= hi -> port_range_new lo hi = Some (lo, hi).
Proof. intros H1 H2. apply port_range_new_iff. repeat split; assumption. Qed.

(* through the constructor: for an allowed range nothing is produced only when no such port exists *)
Lemma range_new_nothing_iff n s lo hi :
  0 < n -> s < n -> 1024 <= lo -> lo <= hi -> hi <= u16_max ->
  ((forall idx, draw_port_new n s lo hi idx = None) <-> (forall p, lo <= p <= hi -> p mod n <> s)) /\
  (forall pivot, iter_ports_new n s lo hi pivot = [] <-> (forall p, lo <= p <= hi -> p mod n <> s)).
Proof.
  intros Hn Hs H1 Hle Hhi. unfold draw_port_new, iter_ports_new.
  rewrite (port_range_new_allowed lo hi H1 Hle). split.
  - exact (draw_port_none_iff n s lo hi Hn Hs Hle Hhi).
  - intros pivot. rewrite <- (ports_empty_iff n s lo hi Hn Hs Hle Hhi).
    destruct (iter_ports_perm n s lo hi pivot Hn Hs Hle Hhi) as [P _].
    rewrite <- (ports_for_shard_spec n s lo hi Hn Hs Hle Hhi) in P.
    split; intros E.
    + rewrite E in P. apply Permutation_nil in P. exact P.
    + rewrite E in P. apply Permutation_sym, Permutation_nil in P. exact P.
Qed.

(* accepted range, a port of the shard exists: every in-range draw yields such a port, every pivot's
   iterator is a non-empty duplicate-free permutation of the set *)
Lemma range_new_produces n s lo hi a b :
  0 < n -> s < n -> hi <= u16_max ->
  port_range_new lo hi = Some (a, b) -> spec_ports n s lo hi <> [] ->
  a = lo /\ b = hi /\
  (forall idx, (idx < List.length (spec_ports n s lo hi))%nat ->
     exists p, draw_port n s a b idx = Some p /\ lo <= p <= hi /\ p mod n = s) /\
  (forall pivot, iter_ports n s a b pivot <> [] /\
     Permutation (iter_ports n s a b pivot) (spec_ports n s lo hi) /\ NoDup (iter_ports n s a b pivot)).
Proof.
  intros Hn Hs Hhi Hnew Hne.
  apply port_range_new_iff in Hnew. destruct Hnew as (H1 & Hle & E). inversion E; subst a b.
  split; [reflexivity|]. split; [reflexivity|]. split.
  - intros idx Hidx. rewrite <- (ports_for_shard_spec n s lo hi Hn Hs Hle Hhi) in Hidx.
    destruct (draw_port_some n s lo hi idx Hidx) as [p Hp]. exists p. split; [exact Hp|].
    exact (draw_port_sound n s lo hi idx p Hn Hs Hle Hhi Hp).
  - intros pivot. destruct (iter_ports_perm n s lo hi pivot Hn Hs Hle Hhi) as [P ND].
    split; [|split; assumption].
    intros E0. rewrite E0 in P. apply Permutation_nil in P. exact (Hne P).
Qed.

(* a refused range produces nothing, whatever the oracle *)
Lemma range_new_refused n s lo hi : (hi < lo \/ lo < 1024) ->
  (forall idx, draw_port_new n s lo hi idx = None) /\ (forall pivot, iter_ports_new n s lo hi pivot = []).
Proof.
  intros H. apply port_range_new_none_iff in H. unfold draw_port_new, iter_ports_new. rewrite H.
  split; reflexivity.
Qed.
