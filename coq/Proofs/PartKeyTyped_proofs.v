(* Proofs for Model/PartKeyTyped.v: the typed calculate_token / compute_partition_key are the
   partitioner's token / the serialized key over the protocol encodings (C01's Enc) of the
   values bound to the key markers, taken in partition-key order. *)
From SV Require Import Base.Prelude Base.Bytes Model.Cql Model.Murmur Model.PartKey Model.PartKeyTyped.
From SV Require Import Proofs.Cql_proofs Proofs.Murmur_proofs Proofs.PartKey_proofs.
Open Scope N_scope.

Lemma typed_row_length cols : forall cells raws, typed_row cols cells = Some raws ->
  length cells = length cols /\ length raws = length cols.
Proof.
  induction cols as [|t ts IH]; intros [|c cs] raws H; cbn [typed_row] in H; try discriminate.
  - inversion H; subst. split; reflexivity.
  - destruct (typed_raw t c) as [r|]; [|discriminate].
    destruct (typed_row ts cs) as [rs|] eqn:E; [|discriminate]. inversion H; subst.
    destruct (IH cs rs E) as [A B]. cbn [length]. split; congruence.
Qed.

Lemma typed_row_nth cols : forall cells raws i, typed_row cols cells = Some raws ->
  (i < length cols)%nat ->
  typed_raw (nth i cols (TNative NBlob)) (nth i cells CNull) = Some (nth i raws RNull).
Proof.
  induction cols as [|t ts IH]; intros [|c cs] raws i H Hi; cbn [typed_row length] in *; try discriminate; try lia.
  destruct (typed_raw t c) as [r|] eqn:Er; [|discriminate].
  destruct (typed_row ts cs) as [rs|] eqn:E; [|discriminate]. inversion H; subst.
  destruct i as [|i]; cbn [nth]; [exact Er|]. apply (IH cs rs i E). lia.
Qed.

(* the typed token is the untyped token of the serialized row *)
Theorem typed_token_spec chk p cols wire cells raws :
  typed_row cols cells = Some raws ->
  wire <> [] -> key_ok (length cols) wire raws ->
  (length wire = 1%nat \/ Forall fits (spec_components wire raws)) ->
  (Z.of_nat (length (spec_serialized_key (spec_components wire raws))) < 2 ^ 63)%Z ->
  ps_calculate_token_typed chk p cols wire cells = Ok (Some (spec_token p wire raws)) /\
  ps_compute_partition_key_typed chk cols wire cells =
    Ok (spec_serialized_key (spec_components wire raws)).
Proof.
  intros Hr Hne Hk Hfit Hb. unfold ps_calculate_token_typed, ps_compute_partition_key_typed.
  rewrite Hr. rewrite (ps_calculate_token_spec chk p _ wire raws Hne Hk Hfit Hb).
  rewrite (ps_compute_partition_key_spec chk _ wire raws Hk Hfit). split; reflexivity.
Qed.

(* ... and its components are the protocol encodings of the bound values *)
Theorem typed_components_enc cols wire cells raws :
  typed_row cols cells = Some raws ->
  (forall i, In i wire -> (N.to_nat i < length cols)%nat /\
     exists v, nth (N.to_nat i) cells CNull = CVal v /\
               wf_type (nth (N.to_nat i) cols (TNative NBlob)) = true /\
               wf_val (nth (N.to_nat i) cols (TNative NBlob)) v = true /\
               vector_hole (nth (N.to_nat i) cols (TNative NBlob)) v = false) ->
  typed_components_ok cols wire cells (spec_components wire raws).
Proof.
  intros Hr Hw. unfold typed_components_ok, spec_components.
  induction wire as [|i r IH]; cbn [map]; constructor.
  - destruct (Hw i (or_introl eq_refl)) as (Hi & v & Hv & Hwt & Hwv & Hvh).
    exists v. split; [exact Hv|].
    pose proof (typed_row_nth cols cells raws (N.to_nat i) Hr Hi) as Hn. rewrite Hv in Hn.
    cbn [typed_raw] in Hn.
    destruct (ser_value true (nth (N.to_nat i) cols (TNative NBlob)) v) as [b|e] eqn:Es; [|discriminate].
    inversion Hn as [Hraw]. cbn [bound_bytes].
    apply (conforms_value_sized _ v b Hwt Hwv Hvh Es).
  - apply IH. intros j Hj. apply Hw. right. exact Hj.
Qed.
